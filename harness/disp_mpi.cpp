// Real-MPI run of the unmodified dispatcher (mpi_skel + MPIMaster/MPIWorker) under mpiexec.
// usage: disp_mpi <rounds-file> <out-prefix>     rounds-file: one line per round, job complexities ("none" = no job)
// every rank writes <out-prefix>.<rank>:  "round k" / "r <rank> <job>" per executed job / "m <job> <rank> ..." the returned map
#include <boost/mpi.hpp>
#include <mpi_dispatcher/mpi_skel.hpp>
#include <fstream>
#include <sstream>
#include <iostream>
#include <vector>
#include <string>

static std::ofstream* g_out = 0;
static int g_rank = 0;

struct Job {
    int complexity; int id;
    Job() : complexity(1), id(0) {}
    Job(int c, int i) : complexity(c), id(i) {}
    void run() { (*g_out) << "r " << g_rank << " " << id << "\n"; }
};

int main(int argc, char** argv) {
    boost::mpi::environment env(argc, argv);
    boost::mpi::communicator world;
    g_rank = world.rank();
    if (argc < 3) return 2;
    std::ifstream in(argv[1]);
    std::ostringstream fn; fn << argv[2] << "." << g_rank;
    std::ofstream out(fn.str().c_str());
    g_out = &out;
    std::streambuf* coutbuf = std::cout.rdbuf();
    std::ostringstream sink;
    std::string line; int k = 0;
    while (std::getline(in, line)) {
        std::vector<int> compl_;
        if (line != "none") { std::istringstream is(line); int c; while (is >> c) compl_.push_back(c); }
        pMPI::mpi_skel<Job> skel;
        for (size_t j = 0; j < compl_.size(); ++j) skel.parts.push_back(Job(compl_[j], int(j)));
        out << "round " << k << " " << compl_.size() << "\n";
        std::cout.rdbuf(sink.rdbuf());
        std::map<pMPI::JobId, pMPI::WorkerId> m = skel.run(world, false);
        std::cout.rdbuf(coutbuf);
        out << "m";
        for (std::map<pMPI::JobId, pMPI::WorkerId>::const_iterator it = m.begin(); it != m.end(); ++it) out << " " << it->first << " " << it->second;
        out << "\n";
        ++k;
    }
    out << "end\n";
    return 0;
}
