// Exchange of floating-point values as IEEE-754 bit patterns (16 hex digits), never decimal.
#pragma once
#include <complex>
#include <cstdint>
#include <cstdio>
#include <cstring>
#include <istream>
#include <string>
#include <pomerol/Misc.h>

namespace hx {
inline std::string d(double x) {
    if (x == 0.0) x = 0.0;   // canonical zero: the sign of zero carries no information for any property
    uint64_t u; std::memcpy(&u, &x, 8);
    char buf[20]; std::snprintf(buf, sizeof buf, "%016llx", (unsigned long long)u);
    return std::string(buf);
}
inline double rd(const std::string& s) {
    uint64_t u = std::stoull(s, 0, 16); double x; std::memcpy(&x, &u, 8); return x;
}
inline double readD(std::istream& is) { std::string s; is >> s; return rd(s); }
inline std::string c(std::complex<double> z) { return d(z.real()) + " " + d(z.imag()); }
#ifdef POMEROL_COMPLEX_MATRIX_ELEMENTS
inline std::string melem(Pomerol::MelemType z) { return c(z); }
inline Pomerol::MelemType readMelem(std::istream& is) { double a = readD(is); double b = readD(is); return Pomerol::MelemType(a, b); }
#else
inline std::string melem(Pomerol::MelemType z) { return d(z); }
inline Pomerol::MelemType readMelem(std::istream& is) { return readD(is); }
#endif
}
