// Pipeline harness: interprets a script (file given as argv[1]) that drives the real pomerol classes along
// the documented workflow and writes one observation line per fact to the case file argv[2].
// pomerol's own chatter on stdout/stderr is not parsed.  See tools/props/*.py for the script generators and
// lean/Driver/Pipe.lean for the reader on the model side.
//
// values: MelemType as two hex words "re im" (im ignored in the real build); labels hex-encoded.
#include <pomerol.h>
#include "hx.h"
#include <fstream>
#include <sstream>
#include <csignal>
#include <mpi.h>

using namespace Pomerol;

static std::ofstream out;

static std::string unhexLabel(const std::string& h) {
    std::string s;
    if (h == "-") return s;
    for (size_t i = 0; i + 1 < h.size(); i += 2) s.push_back(char(std::stoi(h.substr(i, 2), 0, 16)));
    return s;
}
static std::string hexLabel(const std::string& s) {
    if (s.empty()) return "-";
    static const char* d = "0123456789abcdef";
    std::string h;
    for (size_t i = 0; i < s.size(); ++i) { h.push_back(d[(unsigned char)s[i] >> 4]); h.push_back(d[(unsigned char)s[i] & 15]); }
    return h;
}
static MelemType readVal(std::istream& is) {
    double re = hx::readD(is), im = hx::readD(is);
#ifdef POMEROL_COMPLEX_MATRIX_ELEMENTS
    return MelemType(re, im);
#else
    (void)im; return re;
#endif
}
static std::string valStr(MelemType v) {
#ifdef POMEROL_COMPLEX_MATRIX_ELEMENTS
    return hx::d(v.real()) + " " + hx::d(v.imag());
#else
    return hx::d(v) + " " + hx::d(0.0);
#endif
}
static std::string cplxStr(ComplexType v) { return hx::d(v.real()) + " " + hx::d(v.imag()); }

static std::string termStr(const Lattice::Term& t) {
    std::ostringstream os;
    os << valStr(t.Value) << " " << t.getOrder();
    for (unsigned i = 0; i < t.getOrder(); ++i)
        os << " " << int(t.OperatorSequence[i]) << " " << hexLabel(t.SiteLabels[i]) << " " << t.Orbitals[i] << " " << t.Spins[i];
    return os.str();
}

struct Probe : public Operator {
    Probe(const Operator& o) : Operator(o) {}
    const monomials_map_t& map() const { return monomials; }
};
static std::string polyStr(const Operator& op) {
    Probe p(op);
    std::ostringstream os;
    os << p.map().size();
    for (Operator::monomials_map_t::const_iterator it = p.map().begin(); it != p.map().end(); ++it) {
        os << " " << valStr(it->second) << " " << it->first.size();
        for (size_t k = 0; k < it->first.size(); ++k)
            os << " " << int(boost::get<0>(it->first[k]) == Operator::annihilation) << " " << boost::get<1>(it->first[k]);
    }
    return os.str();
}
static Operator readPoly(std::istream& is) {
    size_t n; is >> n;
    Operator res;
    for (size_t k = 0; k < n; ++k) {
        MelemType c = readVal(is);
        size_t len; is >> len;
        Operator tmp; bool first = true;
        for (size_t j = 0; j < len; ++j) {
            int ann; unsigned idx; is >> ann >> idx;
            Operator t1 = ann ? OperatorPresets::c(idx) : OperatorPresets::c_dag(idx);
            if (first) { tmp = t1; first = false; } else tmp *= t1;
        }
        if (len == 0) { res += c; } else res += tmp * c;
    }
    return res;
}

static const char* excName(const std::exception& e) {
    if (dynamic_cast<const Lattice::exWrongLabel*>(&e)) return "wrongLabel";
    if (dynamic_cast<const Lattice::Term::Presets::exWrongIndices*>(&e)) return "wrongIndices";
    if (dynamic_cast<const Operator::exWrongLabel*>(&e)) return "opWrongLabel";
    if (dynamic_cast<const IndexClassification::exWrongIndex*>(&e)) return "wrongIndex";
    if (dynamic_cast<const StatesClassification::exWrongState*>(&e)) return "wrongState";
    if (dynamic_cast<const ComputableObject::exStatusMismatch*>(&e)) return "statusMismatch";
    if (dynamic_cast<const std::logic_error*>(&e)) return "logic";
    return "other";
}

struct Session {
    Lattice* L;
    IndexClassification* Idx;
    IndexHamiltonian* Ham;
    Symmetrizer* Symm;
    StatesClassification* S;
    Hamiltonian* H;
    Session() : L(new Lattice), Idx(0), Ham(0), Symm(0), S(0), H(0) {}
};

static void dumpLattice(const Lattice& L) {
    const Lattice::SiteMap& sm = L.getSiteMap();
    out << "o sites " << sm.size();
    for (Lattice::SiteMap::const_iterator it = sm.begin(); it != sm.end(); ++it)
        out << " " << hexLabel(it->first) << " " << it->second->OrbitalSize << " " << it->second->SpinSize;
    out << "\n";
    unsigned mo = L.getTermStorage().getMaxTermOrder();
    out << "o maxorder " << mo << "\n";
    for (unsigned n = 0; n <= mo + 1; ++n) {
        const Lattice::TermList& tl = L.getTermStorage().getTerms(n);
        for (Lattice::TermList::const_iterator it = tl.begin(); it != tl.end(); ++it)
            out << "o lterm " << n << " " << termStr(**it) << "\n";
    }
    out << "o lend\n";
}

int main(int argc, char** argv) {
    boost::mpi::environment env(argc, argv);
    boost::mpi::communicator world;
    if (argc < 3) { std::fprintf(stderr, "usage: pipe script casefile\n"); return 2; }
    std::ifstream in(argv[1]);
    std::string casefile = argv[2];
    if (world.size() > 1) { std::ostringstream os; os << casefile << "." << world.rank(); casefile = os.str(); }
    out.open(casefile.c_str());
#ifdef POMEROL_COMPLEX_MATRIX_ELEMENTS
    out << "build complex\n";
#else
    out << "build real\n";
#endif
    Session s;
    std::string line;
    while (std::getline(in, line)) {
        std::istringstream is(line);
        std::string cmd;
        if (!(is >> cmd)) continue;
        out << "c " << line << "\n";
        out.flush();
        try {
            if (cmd == "site") {
                std::string lab; unsigned norb, nspin; is >> lab >> norb >> nspin;
                s.L->addSite(unhexLabel(lab), norb, nspin);
                out << "o ok\n";
            } else if (cmd == "term") {
                MelemType v = readVal(is);
                unsigned n; is >> n;
                Lattice::Term T(n);
                for (unsigned i = 0; i < n; ++i) {
                    int cre; std::string lab; unsigned orb, spin; is >> cre >> lab >> orb >> spin;
                    T.OperatorSequence[i] = cre; T.SiteLabels[i] = unhexLabel(lab); T.Orbitals[i] = orb; T.Spins[i] = spin;
                }
                T.Value = v;
                s.L->addTerm(&T);
                out << "o ok\n";
            } else if (cmd == "preset") {
                std::string name; is >> name;
                if (name == "coulombS") { std::string l; is >> l; MelemType U = readVal(is), lv = readVal(is); LatticePresets::addCoulombS(s.L, unhexLabel(l), U, lv); }
                else if (name == "coulombP") { std::string l; is >> l; MelemType U = readVal(is), Up = readVal(is), J = readVal(is), lv = readVal(is); LatticePresets::addCoulombP(s.L, unhexLabel(l), U, Up, J, lv); }
                else if (name == "coulombP3") { std::string l; is >> l; MelemType U = readVal(is), J = readVal(is), lv = readVal(is); LatticePresets::addCoulombP(s.L, unhexLabel(l), U, J, lv); }
                else if (name == "level") { std::string l; is >> l; MelemType lv = readVal(is); LatticePresets::addLevel(s.L, unhexLabel(l), lv); }
                else if (name == "magnetization") { std::string l; is >> l; MelemType m = readVal(is); LatticePresets::addMagnetization(s.L, unhexLabel(l), m); }
                else if (name == "szsz") { std::string a, b; is >> a >> b; MelemType J = readVal(is); LatticePresets::addSzSz(s.L, unhexLabel(a), unhexLabel(b), J); }
                else if (name == "ss") { std::string a, b; is >> a >> b; MelemType J = readVal(is); LatticePresets::addSS(s.L, unhexLabel(a), unhexLabel(b), J); }
                else if (name == "hop7") { std::string a, b; is >> a >> b; MelemType t = readVal(is); unsigned o1, o2, s1, s2; is >> o1 >> o2 >> s1 >> s2; LatticePresets::addHopping(s.L, unhexLabel(a), unhexLabel(b), t, o1, o2, s1, s2); }
                else if (name == "hop6") { std::string a, b; is >> a >> b; MelemType t = readVal(is); unsigned o1, o2, s1; is >> o1 >> o2 >> s1; LatticePresets::addHopping(s.L, unhexLabel(a), unhexLabel(b), t, o1, o2, s1); }
                else if (name == "hop5") { std::string a, b; is >> a >> b; MelemType t = readVal(is); unsigned o1, o2; is >> o1 >> o2; LatticePresets::addHopping(s.L, unhexLabel(a), unhexLabel(b), t, o1, o2); }
                else if (name == "hop4") { std::string a, b; is >> a >> b; MelemType t = readVal(is); LatticePresets::addHopping(s.L, unhexLabel(a), unhexLabel(b), t); }
                else { out << "o badcmd\n"; continue; }
                out << "o ok\n";
            } else if (cmd == "tpreset") {   // term factories that can throw on their own
                std::string name, l; is >> name >> l; MelemType v = readVal(is); unsigned o1, o2, s1, s2; is >> o1 >> o2 >> s1 >> s2;
                Lattice::Term* T = name == "spinflip" ? Lattice::Term::Presets::Spinflip(unhexLabel(l), v, o1, o2, s1, s2)
                                                      : Lattice::Term::Presets::PairHopping(unhexLabel(l), v, o1, o2, s1, s2);
                s.L->addTerm(T);
                out << "o ok\n";
            } else if (cmd == "getsite") {
                std::string lab; is >> lab;
                const Lattice::Site& st = s.L->getSite(unhexLabel(lab));
                out << "o ok " << hexLabel(st.Label) << " " << st.OrbitalSize << " " << st.SpinSize << "\n";
            } else if (cmd == "copy") {
                Lattice* L2 = new Lattice(*s.L);
                s.L = L2;
                out << "o ok\n";
            } else if (cmd == "dumplattice") {
                dumpLattice(*s.L);
            } else if (cmd == "index") {
                int mode; is >> mode;
                s.Idx = new IndexClassification(s.L->getSiteMap());
                s.Idx->prepare(mode != 0);
                unsigned N = s.Idx->getIndexSize();
                out << "o nidx " << N << "\n";
                for (unsigned i = 0; i < N; ++i) {
                    IndexClassification::IndexInfo info = s.Idx->getInfo(i);
                    out << "o idx " << i << " " << hexLabel(info.SiteLabel) << " " << info.Orbital << " " << info.Spin
                        << " " << s.Idx->getIndex(info.SiteLabel, info.Orbital, info.Spin) << "\n";
                }
            } else if (cmd == "getindex") {
                std::string lab; unsigned orb, spin; is >> lab >> orb >> spin;
                unsigned gi = s.Idx->getIndex(unhexLabel(lab), orb, spin);
                out << "o ok " << gi << "\n";
            } else if (cmd == "getinfo") {
                unsigned i; is >> i;
                IndexClassification::IndexInfo info = s.Idx->getInfo(i);
                out << "o ok " << hexLabel(info.SiteLabel) << " " << info.Orbital << " " << info.Spin << "\n";
            } else if (cmd == "ham") {
                s.Ham = new IndexHamiltonian(s.L, *s.Idx);
                s.Ham->prepare();
                out << "o poly " << polyStr(*s.Ham) << "\n";
            } else if (cmd == "symm") {
                std::string mode; is >> mode;
                s.Symm = new Symmetrizer(*s.Idx, *s.Ham);
                if (mode == "default") s.Symm->compute(false);
                else if (mode == "ignore") s.Symm->compute(true);
                else {
                    size_t k; is >> k;
                    std::vector<Operator> ops;
                    for (size_t i = 0; i < k; ++i) ops.push_back(readPoly(is));
                    s.Symm->compute(ops);
                }
                const std::vector<boost::shared_ptr<Operator> >& acc = s.Symm->getOperations();
                out << "o accepted " << acc.size() << "\n";
                for (size_t i = 0; i < acc.size(); ++i) out << "o accop " << polyStr(*acc[i]) << "\n";
            } else if (cmd == "states") {
                s.S = new StatesClassification(*s.Idx, *s.Symm);
                s.S->compute();
                unsigned long n = s.S->getNumberOfStates();
                out << "o nblocks " << s.S->NumberOfBlocks() << "\n";
                for (unsigned long st = 0; st < n; ++st)
                    out << "o state " << st << " " << int(s.S->getBlockNumber(QuantumState(st))) << " " << s.S->getInnerState(QuantumState(st)) << "\n";
                for (BlockNumber b = 0; b < s.S->NumberOfBlocks(); b++) {
                    const std::vector<FockState>& fs = s.S->getFockStates(b);
                    out << "o blk " << int(b) << " " << fs.size();
                    for (size_t i = 0; i < fs.size(); ++i) out << " " << fs[i].to_ulong();
                    out << "\n";
                }
            } else if (cmd == "blockof") {
                unsigned long n; is >> n;
                int b = int(s.S->getBlockNumber(QuantumState(n)));
                out << "o ok " << b << "\n";
            } else if (cmd == "innerof") {
                unsigned long n; is >> n;
                unsigned long i = s.S->getInnerState(QuantumState(n));
                out << "o ok " << i << "\n";
            } else if (cmd == "hprepare") {
                s.H = new Hamiltonian(*s.Idx, *s.Ham, *s.S);
                s.H->prepare(world);
                for (BlockNumber b = 0; b < s.S->NumberOfBlocks(); b++) {
                    const MatrixType& M = s.H->getPart(b).getMatrix();
                    out << "o hmat " << int(b) << " " << M.rows();
                    for (int r = 0; r < M.rows(); ++r) for (int c = 0; c < M.cols(); ++c) out << " " << valStr(M(r, c));
                    out << "\n";
                }
            } else if (cmd == "hcompute") {
                s.H->compute(world);
                out << "o ground " << hx::d(s.H->getGroundEnergy()) << "\n";
                for (BlockNumber b = 0; b < s.S->NumberOfBlocks(); b++) {
                    const HamiltonianPart& hp = s.H->getPart(b);
                    const MatrixType& M = hp.getMatrix();
                    out << "o eig " << int(b) << " " << M.rows();
                    for (int k = 0; k < M.rows(); ++k) out << " " << hx::d(hp.getEigenValue(k));
                    for (int r = 0; r < M.rows(); ++r) for (int c = 0; c < M.cols(); ++c) out << " " << valStr(M(r, c));
                    out << "\n";
                }
                RealVectorType ev = s.H->getEigenValues();
                out << "o allev " << ev.size();
                for (int k = 0; k < ev.size(); ++k) out << " " << hx::d(ev[k]);
                out << "\n";
                unsigned long n = s.S->getNumberOfStates();
                for (unsigned long st = 0; st < n; ++st) out << "o evstate " << st << " " << hx::d(s.H->getEigenValue(QuantumState(st))) << "\n";
            } else {
                out << "o badcmd\n";
            }
        } catch (std::exception& e) {
            out << "o exc " << excName(e) << "\n";
        }
        out.flush();
    }
    out << "end\n";
    out.close();
    return 0;
}
