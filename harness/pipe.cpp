// Pipeline harness: interprets a script (file given as argv[1]) that drives the real pomerol classes along
// the documented workflow and writes one observation line per fact to the case file argv[2].
// pomerol's own chatter on stdout/stderr is not parsed.  See tools/props/*.py for the script generators and
// lean/Driver/Pipe.lean for the reader on the model side.
//
// values: MelemType as two hex words "re im" (im ignored in the real build); labels hex-encoded.
#include <pomerol.h>
#include <pomerol/Vertex4.h>
#include "hx.h"
#include <fstream>
#include <sstream>
#include <csignal>
#include <mpi.h>

using namespace Pomerol;

static std::ofstream out;

static std::string unhexLabel(const std::string& h) {
    std::string s;
    if (h == "-") return s;
    for (size_t i = 0; i + 1 < h.size(); i += 2) s.push_back(char(std::stoi(h.substr(i, 2), 0, 16)));
    return s;
}
static std::string hexLabel(const std::string& s) {
    if (s.empty()) return "-";
    static const char* d = "0123456789abcdef";
    std::string h;
    for (size_t i = 0; i < s.size(); ++i) { h.push_back(d[(unsigned char)s[i] >> 4]); h.push_back(d[(unsigned char)s[i] & 15]); }
    return h;
}
static MelemType readVal(std::istream& is) {
    double re = hx::readD(is), im = hx::readD(is);
#ifdef POMEROL_COMPLEX_MATRIX_ELEMENTS
    return MelemType(re, im);
#else
    (void)im; return re;
#endif
}
static std::string valStr(MelemType v) {
#ifdef POMEROL_COMPLEX_MATRIX_ELEMENTS
    return hx::d(v.real()) + " " + hx::d(v.imag());
#else
    return hx::d(v) + " " + hx::d(0.0);
#endif
}
static std::string cplxStr(ComplexType v) { return hx::d(v.real()) + " " + hx::d(v.imag()); }

static std::string termStr(const Lattice::Term& t) {
    std::ostringstream os;
    os << valStr(t.Value) << " " << t.getOrder();
    for (unsigned i = 0; i < t.getOrder(); ++i)
        os << " " << int(t.OperatorSequence[i]) << " " << hexLabel(t.SiteLabels[i]) << " " << t.Orbitals[i] << " " << t.Spins[i];
    return os.str();
}

struct Probe : public Operator {
    Probe(const Operator& o) : Operator(o) {}
    const monomials_map_t& map() const { return monomials; }
};
static std::string polyStr(const Operator& op) {
    Probe p(op);
    std::ostringstream os;
    os << p.map().size();
    for (Operator::monomials_map_t::const_iterator it = p.map().begin(); it != p.map().end(); ++it) {
        os << " " << valStr(it->second) << " " << it->first.size();
        for (size_t k = 0; k < it->first.size(); ++k)
            os << " " << int(boost::get<0>(it->first[k]) == Operator::annihilation) << " " << boost::get<1>(it->first[k]);
    }
    return os.str();
}
static Operator readPoly(std::istream& is) {
    size_t n; is >> n;
    Operator res;
    for (size_t k = 0; k < n; ++k) {
        MelemType c = readVal(is);
        size_t len; is >> len;
        Operator tmp; bool first = true;
        for (size_t j = 0; j < len; ++j) {
            int ann; unsigned idx; is >> ann >> idx;
            Operator t1 = ann ? OperatorPresets::c(idx) : OperatorPresets::c_dag(idx);
            if (first) { tmp = t1; first = false; } else tmp *= t1;
        }
        if (len == 0) { res += c; } else res += tmp * c;
    }
    return res;
}

static const char* excName(const std::exception& e) {
    if (dynamic_cast<const Lattice::exWrongLabel*>(&e)) return "wrongLabel";
    if (dynamic_cast<const Lattice::Term::Presets::exWrongIndices*>(&e)) return "wrongIndices";
    if (dynamic_cast<const Operator::exWrongLabel*>(&e)) return "opWrongLabel";
    if (dynamic_cast<const IndexClassification::exWrongIndex*>(&e)) return "wrongIndex";
    if (dynamic_cast<const StatesClassification::exWrongState*>(&e)) return "wrongState";
    if (dynamic_cast<const ComputableObject::exStatusMismatch*>(&e)) return "statusMismatch";
    if (dynamic_cast<const std::logic_error*>(&e)) return "logic";
    return "other";
}

struct Session {
    Lattice* L;
    IndexClassification* Idx;
    IndexHamiltonian* Ham;
    Symmetrizer* Symm;
    StatesClassification* S;
    Hamiltonian* H;
    DensityMatrix* DM;
    FieldOperatorContainer* Ops;
    GFContainer* GFC;
    TwoParticleGFContainer* TPC;
    bool early;     // construct IndexClassification, IndexHamiltonian and Symmetrizer before any prepare() call
    bool earlyHam, earlySymm;
    double chiRtol; // user-set ReduceResonanceTolerance for two-particle objects (<= 0: library default)
    Lattice* Lsaved;
    IndexClassification* earlyIdx; const Lattice* earlyIdxFor;   // declared by `earlyctor`, used by the next `index` on the same lattice
    bool stress;    // every prepare()/compute() call is issued twice, values are re-evaluated, objects are copied
    Session() : L(new Lattice), Idx(0), Ham(0), Symm(0), S(0), H(0), DM(0), Ops(0), GFC(0), TPC(0), early(false), earlyHam(false), earlySymm(false), chiRtol(0), Lsaved(0), earlyIdx(0), earlyIdxFor(0), stress(false) {}
};

static void dumpParts(const char* kind, unsigned i, unsigned j, FieldOperator& op) {
    const FieldOperator::BlocksBimap& bm = op.getBlockMapping();
    out << "o bmap " << kind << " " << i << " " << j << " " << bm.size();
    for (FieldOperator::BlocksBimap::right_const_iterator it = bm.right.begin(); it != bm.right.end(); ++it)
        out << " " << int(it->second) << " " << int(it->first);     // left right, ordered by right
    out << "\n";
    const std::vector<FieldOperatorPart*>& parts = op.getParts();
    for (size_t p = 0; p < parts.size(); ++p) {
        const RowMajorMatrixType& R = parts[p]->getRowMajorValue();
        const ColMajorMatrixType& C = parts[p]->getColMajorValue();
        bool same = (R.rows() == C.rows() && R.cols() == C.cols());
        if (same) for (int r = 0; r < R.rows() && same; ++r) for (int c = 0; c < R.cols(); ++c)
            if (R.coeff(r, c) != C.coeff(r, c)) { same = false; break; }
        out << "o fpart " << kind << " " << i << " " << j << " " << int(parts[p]->getLeftIndex()) << " " << int(parts[p]->getRightIndex())
            << " " << R.rows() << " " << R.cols() << " " << int(same) << " " << R.nonZeros();
        for (int r = 0; r < R.outerSize(); ++r)
            for (RowMajorMatrixType::InnerIterator it(R, r); it; ++it)
                out << " " << it.row() << " " << it.col() << " " << valStr(it.value());
        out << "\n";
    }
}

static std::vector<long> readLongs(std::istream& is) { size_t n; is >> n; std::vector<long> v(n); for (size_t k = 0; k < n; ++k) is >> v[k]; return v; }
static std::vector<double> readDoubles(std::istream& is) { size_t n; is >> n; std::vector<double> v(n); for (size_t k = 0; k < n; ++k) v[k] = hx::readD(is); return v; }

static void dumpLattice(const Lattice& L) {
    const Lattice::SiteMap& sm = L.getSiteMap();
    out << "o sites " << sm.size();
    for (Lattice::SiteMap::const_iterator it = sm.begin(); it != sm.end(); ++it)
        out << " " << hexLabel(it->first) << " " << it->second->OrbitalSize << " " << it->second->SpinSize;
    out << "\n";
    unsigned mo = L.getTermStorage().getMaxTermOrder();
    out << "o maxorder " << mo << "\n";
    for (unsigned n = 0; n <= mo + 1; ++n) {
        const Lattice::TermList& tl = L.getTermStorage().getTerms(n);
        for (Lattice::TermList::const_iterator it = tl.begin(); it != tl.end(); ++it)
            out << "o lterm " << n << " " << termStr(**it) << "\n";
    }
    out << "o lend\n";
}

int main(int argc, char** argv) {
    boost::mpi::environment env(argc, argv);
    boost::mpi::communicator world;
    if (argc < 3) { std::fprintf(stderr, "usage: pipe script casefile\n"); return 2; }
    std::ifstream in(argv[1]);
    std::string casefile = argv[2];
    if (world.size() > 1) { std::ostringstream os; os << casefile << "." << world.rank(); casefile = os.str(); }
    out.open(casefile.c_str());
#ifdef POMEROL_COMPLEX_MATRIX_ELEMENTS
    out << "build complex\n";
#else
    out << "build real\n";
#endif
    Session s;
    std::string line;
    while (std::getline(in, line)) {
        std::istringstream is(line);
        std::string cmd;
        if (!(is >> cmd)) continue;
        out << "c " << line << "\n";
        out.flush();
        try {
            if (cmd == "site") {
                std::string lab; unsigned norb, nspin; is >> lab >> norb >> nspin;
                s.L->addSite(unhexLabel(lab), norb, nspin);
                out << "o ok\n";
            } else if (cmd == "term") {
                MelemType v = readVal(is);
                unsigned n; is >> n;
                Lattice::Term T(n);
                for (unsigned i = 0; i < n; ++i) {
                    int cre; std::string lab; unsigned orb, spin; is >> cre >> lab >> orb >> spin;
                    T.OperatorSequence[i] = cre; T.SiteLabels[i] = unhexLabel(lab); T.Orbitals[i] = orb; T.Spins[i] = spin;
                }
                T.Value = v;
                s.L->addTerm(&T);
                out << "o ok\n";
            } else if (cmd == "preset") {
                std::string name; is >> name;
                if (name == "coulombS") { std::string l; is >> l; MelemType U = readVal(is), lv = readVal(is); LatticePresets::addCoulombS(s.L, unhexLabel(l), U, lv); }
                else if (name == "coulombP") { std::string l; is >> l; MelemType U = readVal(is), Up = readVal(is), J = readVal(is), lv = readVal(is); LatticePresets::addCoulombP(s.L, unhexLabel(l), U, Up, J, lv); }
                else if (name == "coulombP3") { std::string l; is >> l; MelemType U = readVal(is), J = readVal(is), lv = readVal(is); LatticePresets::addCoulombP(s.L, unhexLabel(l), U, J, lv); }
                else if (name == "level") { std::string l; is >> l; MelemType lv = readVal(is); LatticePresets::addLevel(s.L, unhexLabel(l), lv); }
                else if (name == "magnetization") { std::string l; is >> l; MelemType m = readVal(is); LatticePresets::addMagnetization(s.L, unhexLabel(l), m); }
                else if (name == "szsz") { std::string a, b; is >> a >> b; MelemType J = readVal(is); LatticePresets::addSzSz(s.L, unhexLabel(a), unhexLabel(b), J); }
                else if (name == "ss") { std::string a, b; is >> a >> b; MelemType J = readVal(is); LatticePresets::addSS(s.L, unhexLabel(a), unhexLabel(b), J); }
                else if (name == "hop7") { std::string a, b; is >> a >> b; MelemType t = readVal(is); unsigned o1, o2, s1, s2; is >> o1 >> o2 >> s1 >> s2; LatticePresets::addHopping(s.L, unhexLabel(a), unhexLabel(b), t, o1, o2, s1, s2); }
                else if (name == "hop6") { std::string a, b; is >> a >> b; MelemType t = readVal(is); unsigned o1, o2, s1; is >> o1 >> o2 >> s1; LatticePresets::addHopping(s.L, unhexLabel(a), unhexLabel(b), t, o1, o2, s1); }
                else if (name == "hop5") { std::string a, b; is >> a >> b; MelemType t = readVal(is); unsigned o1, o2; is >> o1 >> o2; LatticePresets::addHopping(s.L, unhexLabel(a), unhexLabel(b), t, o1, o2); }
                else if (name == "hop4") { std::string a, b; is >> a >> b; MelemType t = readVal(is); LatticePresets::addHopping(s.L, unhexLabel(a), unhexLabel(b), t); }
                else { out << "o badcmd\n"; continue; }
                out << "o ok\n";
            } else if (cmd == "tpreset") {   // term factories that can throw on their own
                std::string name, l; is >> name >> l; MelemType v = readVal(is); unsigned o1, o2, s1, s2; is >> o1 >> o2 >> s1 >> s2;
                Lattice::Term* T = name == "spinflip" ? Lattice::Term::Presets::Spinflip(unhexLabel(l), v, o1, o2, s1, s2)
                                                      : Lattice::Term::Presets::PairHopping(unhexLabel(l), v, o1, o2, s1, s2);
                s.L->addTerm(T);
                out << "o ok\n";
            } else if (cmd == "getsite") {
                std::string lab; is >> lab;
                const Lattice::Site& st = s.L->getSite(unhexLabel(lab));
                out << "o ok " << hexLabel(st.Label) << " " << st.OrbitalSize << " " << st.SpinSize << "\n";
            } else if (cmd == "chitol") {
                s.chiRtol = hx::readD(is);
                out << "o ok\n";
            } else if (cmd == "newlattice") {
                // a second, unrelated lattice in the same process (the old objects stay alive)
                s.L = new Lattice;
                out << "o ok\n";
            } else if (cmd == "stress") {
                s.stress = true;
                out << "o ok\n";
            } else if (cmd == "earlyctor") {
                s.early = true;
                // the index classification is declared NOW (possibly before all sites exist): it keeps a reference to the site map
                s.earlyIdx = new IndexClassification(s.L->getSiteMap()); s.earlyIdxFor = s.L;
                out << "o ok\n";
            } else if (cmd == "copy") {
                // a copy is made and ONE of the two lattices is destroyed; work continues with the survivor
                static int ncopies = 0;
                Lattice* L2 = new Lattice(*s.L);
                if (++ncopies % 2) { delete s.L; s.L = L2; } else { delete L2; }
                out << "o ok\n";
            } else if (cmd == "fork") {
                // work continues on a COPY of the lattice; the original stays alive and is returned to by `unfork`
                s.Lsaved = s.L;
                s.L = new Lattice(*s.L);
                out << "o ok\n";
            } else if (cmd == "unfork") {
                if (s.Lsaved) { s.L = s.Lsaved; s.Lsaved = 0; }     // the modified copy stays alive (it shares nothing that may be freed)
                out << "o ok\n";
            } else if (cmd == "dumplattice") {
                dumpLattice(*s.L);
            } else if (cmd == "index") {
                int mode; is >> mode;
                if (s.earlyIdx && s.earlyIdxFor == s.L) { s.Idx = s.earlyIdx; s.earlyIdx = 0; }
                else s.Idx = new IndexClassification(s.L->getSiteMap());
                if (s.early) {
                    // "declare everything first, prepare afterwards": the objects only keep references to each other
                    s.Ham = new IndexHamiltonian(s.L, *s.Idx); s.earlyHam = true;
                    s.Symm = new Symmetrizer(*s.Idx, *s.Ham); s.earlySymm = true;
                }
                s.Idx->prepare(mode != 0);
                unsigned N = s.Idx->getIndexSize();
                out << "o nidx " << N << "\n";
                for (unsigned i = 0; i < N; ++i) {
                    IndexClassification::IndexInfo info = s.Idx->getInfo(i);
                    out << "o idx " << i << " " << hexLabel(info.SiteLabel) << " " << info.Orbital << " " << info.Spin
                        << " " << s.Idx->getIndex(info.SiteLabel, info.Orbital, info.Spin) << "\n";
                }
            } else if (cmd == "collide") {
                // search for two different site labels that the key order of the index table cannot tell apart
                // (IndexInfo::operator< is the order of std::map<IndexInfo, ParticleIndex>): sort n generated labels by it and
                // look at neighbours
                size_t n; unsigned long long seed; is >> n >> seed;
                std::vector<const IndexClassification::IndexInfo*> v;
                v.reserve(n);
                unsigned long long x = seed * 0x9E3779B97F4A7C15ULL + 1;
                for (size_t q = 0; q < n; ++q) {
                    x ^= x << 13; x ^= x >> 7; x ^= x << 17;
                    std::string l; unsigned long long y = x;
                    size_t len = 3 + (q % 6);
                    for (size_t c = 0; c < len; ++c) { l += char('a' + y % 26); y /= 26; }
                    v.push_back(new IndexClassification::IndexInfo(l, 0, 0));
                }
                struct ByKey { bool operator()(const IndexClassification::IndexInfo* a, const IndexClassification::IndexInfo* b) const { return *a < *b; } };
                std::sort(v.begin(), v.end(), ByKey());
                bool found = false;
                for (size_t q = 0; q + 1 < v.size() && !found; ++q)
                    if (!(*v[q] < *v[q+1]) && !(*v[q+1] < *v[q]) && v[q]->SiteLabel != v[q+1]->SiteLabel) {
                        out << "o collision " << hexLabel(v[q]->SiteLabel) << " " << hexLabel(v[q+1]->SiteLabel) << "\n";
                        found = true;
                    }
                if (!found) out << "o nocollision " << n << "\n";
                for (size_t q = 0; q < v.size(); ++q) delete v[q];
            } else if (cmd == "getindex") {
                std::string lab; unsigned orb, spin; is >> lab >> orb >> spin;
                unsigned gi = s.Idx->getIndex(unhexLabel(lab), orb, spin);
                out << "o ok " << gi << "\n";
            } else if (cmd == "getinfo") {
                unsigned i; is >> i;
                IndexClassification::IndexInfo info = s.Idx->getInfo(i);
                out << "o ok " << hexLabel(info.SiteLabel) << " " << info.Orbital << " " << info.Spin << "\n";
            } else if (cmd == "ham") {
                if (!s.earlyHam) s.Ham = new IndexHamiltonian(s.L, *s.Idx);
                s.earlyHam = false;
                s.Ham->prepare();
                out << "o poly " << polyStr(*s.Ham) << "\n";
            } else if (cmd == "hshift") {
                // constant energy offset added to the symbolic Hamiltonian (Operator::operator+=(MelemType))
                MelemType v = readVal(is);
                *s.Ham += v;
                out << "o poly " << polyStr(*s.Ham) << "\n";
            } else if (cmd == "symm") {
                std::string mode; is >> mode;
                if (!s.earlySymm) s.Symm = new Symmetrizer(*s.Idx, *s.Ham);
                s.earlySymm = false;
                if (mode == "default") s.Symm->compute(false);
                else if (mode == "ignore") s.Symm->compute(true);
                else {
                    size_t k; is >> k;
                    std::vector<Operator> ops;
                    for (size_t i = 0; i < k; ++i) ops.push_back(readPoly(is));
                    s.Symm->compute(ops);
                }
                const std::vector<boost::shared_ptr<Operator> >& acc = s.Symm->getOperations();
                out << "o accepted " << acc.size() << "\n";
                for (size_t i = 0; i < acc.size(); ++i) out << "o accop " << polyStr(*acc[i]) << "\n";
            } else if (cmd == "states") {
                s.S = new StatesClassification(*s.Idx, *s.Symm);
                s.S->compute();
                unsigned long n = s.S->getNumberOfStates();
                out << "o nblocks " << s.S->NumberOfBlocks() << "\n";
                for (unsigned long st = 0; st < n; ++st)
                    out << "o state " << st << " " << int(s.S->getBlockNumber(QuantumState(st))) << " " << s.S->getInnerState(QuantumState(st)) << "\n";
                for (BlockNumber b = 0; b < s.S->NumberOfBlocks(); b++) {
                    const std::vector<FockState>& fs = s.S->getFockStates(b);
                    out << "o blk " << int(b) << " " << fs.size();
                    for (size_t i = 0; i < fs.size(); ++i) out << " " << fs[i].to_ulong();
                    out << "\n";
                }
            } else if (cmd == "note") {
                out << "o ok\n";
            } else if (cmd == "blockof") {
                unsigned long n; is >> n;
                int b = int(s.S->getBlockNumber(QuantumState(n)));
                out << "o ok " << b << "\n";
            } else if (cmd == "fockof") {
                // the Fock state at (block, position); blocks that do not exist (also the "no such block" value -1) are refused
                long b; unsigned long m; is >> b >> m;
                FockState f = s.S->getFockState(BlockNumber(b), InnerQuantumState(m));
                out << "o ok " << f.to_ulong() << "\n";
            } else if (cmd == "innerof") {
                unsigned long n; is >> n;
                unsigned long i = s.S->getInnerState(QuantumState(n));
                out << "o ok " << i << "\n";
            } else if (cmd == "hprepare") {
                s.H = new Hamiltonian(*s.Idx, *s.Ham, *s.S);
                s.H->prepare(world);
                for (BlockNumber b = 0; b < s.S->NumberOfBlocks(); b++) {
                    const MatrixType& M = s.H->getPart(b).getMatrix();
                    out << "o hmat " << int(b) << " " << M.rows();
                    for (int r = 0; r < M.rows(); ++r) for (int c = 0; c < M.cols(); ++c) out << " " << valStr(M(r, c));
                    out << "\n";
                }
            } else if (cmd == "hcompute") {
                s.H->compute(world);
                if (s.stress) { s.H->prepare(world); s.H->compute(world); }
                out << "o ground " << hx::d(s.H->getGroundEnergy()) << "\n";
                for (BlockNumber b = 0; b < s.S->NumberOfBlocks(); b++) {
                    const HamiltonianPart& hp = s.H->getPart(b);
                    const MatrixType& M = hp.getMatrix();
                    out << "o eig " << int(b) << " " << M.rows();
                    for (int k = 0; k < M.rows(); ++k) out << " " << hx::d(hp.getEigenValue(k));
                    for (int r = 0; r < M.rows(); ++r) for (int c = 0; c < M.cols(); ++c) out << " " << valStr(M(r, c));
                    out << "\n";
                }
                RealVectorType ev = s.H->getEigenValues();
                out << "o allev " << ev.size();
                for (int k = 0; k < ev.size(); ++k) out << " " << hx::d(ev[k]);
                out << "\n";
                unsigned long n = s.S->getNumberOfStates();
                for (unsigned long st = 0; st < n; ++st) out << "o evstate " << st << " " << hx::d(s.H->getEigenValue(QuantumState(st))) << "\n";
            } else if (cmd == "dm") {
                double beta = hx::readD(is);
                s.DM = new DensityMatrix(*s.S, *s.H, beta);
                s.GFC = 0;      // containers are bound to the density matrix they were built with: the next one is built afresh
                s.DM->prepare(); s.DM->compute();
                if (s.stress) { s.DM->prepare(); s.DM->compute(); }
                for (BlockNumber b = 0; b < s.S->NumberOfBlocks(); b++) {
                    const DensityMatrixPart& dp = s.DM->getPart(b);
                    size_t n = s.S->getBlockSize(b);
                    out << "o weights " << int(b) << " " << n;
                    for (size_t k = 0; k < n; ++k) out << " " << hx::d(dp.getWeight(k));
                    out << "\n";
                }
                unsigned long nst = s.S->getNumberOfStates();
                for (unsigned long st = 0; st < nst; ++st) out << "o wstate " << st << " " << hx::d(s.DM->getWeight(QuantumState(st))) << "\n";
                out << "o avgE " << hx::d(s.DM->getAverageEnergy()) << "\n";
                out << "o avgN " << hx::d(s.DM->getAverageOccupancy()) << "\n";
                unsigned N = s.Idx->getIndexSize();
                for (unsigned i = 0; i < N; ++i) out << "o occ " << i << " " << hx::d(s.DM->getAverageOccupancy(i)) << "\n";
                for (unsigned i = 0; i < N; ++i) for (unsigned j = 0; j < N; ++j)
                    out << "o docc " << i << " " << j << " " << hx::d(s.DM->getAverageDoubleOccupancy(i, j)) << "\n";
            } else if (cmd == "trunc") {
                double eps = hx::readD(is);
                s.DM->truncateBlocks(eps, false);
                if (s.stress) s.DM->truncateBlocks(eps, false);
                out << "o retained " << int(s.S->NumberOfBlocks());
                for (BlockNumber b = 0; b < s.S->NumberOfBlocks(); b++) out << " " << int(s.DM->isRetained(b));
                out << "\n";
            } else if (cmd == "fops") {
                s.Ops = new FieldOperatorContainer(*s.Idx, *s.S, *s.H);
                s.Ops->prepareAll(); s.Ops->computeAll();
                if (s.stress) { s.Ops->prepareAll(); s.Ops->computeAll(); }
                unsigned N = s.Idx->getIndexSize();
                for (unsigned i = 0; i < N; ++i) {
                    dumpParts("cdag", i, 0, const_cast<CreationOperator&>(s.Ops->getCreationOperator(i)));
                    dumpParts("c", i, 0, const_cast<AnnihilationOperator&>(s.Ops->getAnnihilationOperator(i)));
                }
            } else if (cmd == "fop1") {
                std::string kind; unsigned i, j = 0; is >> kind >> i;
                if (kind == "cdag") { CreationOperator op(*s.Idx, *s.S, *s.H, i); op.prepare(); op.compute(); dumpParts("cdag1", i, 0, op); }
                else if (kind == "c") { AnnihilationOperator op(*s.Idx, *s.S, *s.H, i); op.prepare(); op.compute(); dumpParts("c1", i, 0, op); }
                else { is >> j; QuadraticOperator op(*s.Idx, *s.S, *s.H, i, j); op.prepare(); op.compute(); dumpParts("quad", i, j, op); }
            } else if (cmd == "gf") {
                unsigned i, j; is >> i >> j;
                std::vector<long> ns = readLongs(is);
                std::vector<double> zs = readDoubles(is);      // pairs re im
                std::vector<double> taus = readDoubles(is);
                GreensFunction G(*s.S, *s.H, s.Ops->getAnnihilationOperator(i), s.Ops->getCreationOperator(j), *s.DM);
                G.prepare(); G.compute();
                if (s.stress) {
                    // repeated calls are harmless, a copy is the same function, re-evaluation returns the same number
                    std::vector<ComplexType> first(ns.size());
                    for (size_t k = 0; k < ns.size(); ++k) first[k] = G(ns[k]);
                    G.prepare(); G.compute();
                    GreensFunction Gcopy(G);
                    bool ok = true;
                    for (size_t k = ns.size(); k-- > 0;) ok = ok && G(ns[k]) == first[k] && Gcopy(ns[k]) == first[k];
                    out << "o idem gf " << i << " " << j << " " << int(ok) << "\n";
                }
                if (!s.GFC) { s.GFC = new GFContainer(*s.Idx, *s.S, *s.H, *s.DM, *s.Ops); s.GFC->prepareAll(); s.GFC->computeAll(); }
                const GreensFunction& Gc = (*s.GFC)(i, j);
                out << "o gfvanish " << i << " " << j << " " << int(G.isVanishing()) << "\n";
                for (size_t k = 0; k < ns.size(); ++k)
                    out << "o gfn " << i << " " << j << " " << ns[k] << " " << cplxStr(G(ns[k])) << " " << cplxStr(Gc(ns[k])) << "\n";
                for (size_t k = 0; k + 1 < zs.size(); k += 2) {
                    ComplexType z(zs[k], zs[k + 1]);
                    out << "o gfz " << i << " " << j << " " << hx::d(zs[k]) << " " << hx::d(zs[k + 1]) << " " << cplxStr(G(z)) << " " << cplxStr(Gc(z)) << "\n";
                }
                for (size_t k = 0; k < taus.size(); ++k)
                    out << "o gftau " << i << " " << j << " " << hx::d(taus[k]) << " " << cplxStr(G.of_tau(taus[k])) << " " << cplxStr(Gc.of_tau(taus[k])) << "\n";
            } else if (cmd == "chi") {
                // chi i j k l clear(0|1) ntriples (n1 n2 n3)*  : term evaluation, then (separate object) the table path
                unsigned i, j, k, l; int clear; is >> i >> j >> k >> l >> clear;
                size_t nt; is >> nt;
                std::vector<long> tr(3 * nt); for (size_t q = 0; q < 3 * nt; ++q) is >> tr[q];
                TwoParticleGF X(*s.S, *s.H, s.Ops->getAnnihilationOperator(i), s.Ops->getAnnihilationOperator(j),
                                s.Ops->getCreationOperator(k), s.Ops->getCreationOperator(l), *s.DM);
                if (s.chiRtol > 0) X.ReduceResonanceTolerance = s.chiRtol;
                X.prepare(); X.compute();
                if (s.stress) {
                    std::vector<ComplexType> first(nt);
                    for (size_t q = 0; q < nt; ++q) first[q] = X(tr[3*q], tr[3*q+1], tr[3*q+2]);
                    X.prepare(); X.compute();
                    bool ok = true;
                    for (size_t q = nt; q-- > 0;) ok = ok && X(tr[3*q], tr[3*q+1], tr[3*q+2]) == first[q];
                    out << "o idem chi " << i << " " << j << " " << k << " " << l << " " << int(ok) << "\n";
                }
                out << "o chivanish " << i << " " << j << " " << k << " " << l << " " << int(X.isVanishing()) << " " << X.parts.size() << "\n";
                for (size_t q = 0; q < nt; ++q)
                    out << "o chi " << i << " " << j << " " << k << " " << l << " " << tr[3*q] << " " << tr[3*q+1] << " " << tr[3*q+2]
                        << " " << cplxStr(X(tr[3*q], tr[3*q+1], tr[3*q+2])) << "\n";
                TwoParticleGF Y(*s.S, *s.H, s.Ops->getAnnihilationOperator(i), s.Ops->getAnnihilationOperator(j),
                                s.Ops->getCreationOperator(k), s.Ops->getCreationOperator(l), *s.DM);
                if (s.chiRtol > 0) Y.ReduceResonanceTolerance = s.chiRtol;
                Y.prepare();
                std::vector<boost::tuple<ComplexType, ComplexType, ComplexType> > freqs;
                ComplexType sp = ComplexType(0, M_PI / s.DM->beta);
                for (size_t q = 0; q < nt; ++q)
                    freqs.push_back(boost::make_tuple(sp * RealType(2*tr[3*q]+1), sp * RealType(2*tr[3*q+1]+1), sp * RealType(2*tr[3*q+2]+1)));
                std::vector<ComplexType> tab = Y.compute(clear != 0, freqs, world);
                out << "o chitab " << i << " " << j << " " << k << " " << l << " " << clear << " " << tab.size();
                for (size_t q = 0; q < tab.size(); ++q) out << " " << cplxStr(tab[q]);
                out << "\n";
                {   // a longer table (67 entries: not a multiple of any small thread or rank count) against on-demand values
                    TwoParticleGF Z(*s.S, *s.H, s.Ops->getAnnihilationOperator(i), s.Ops->getAnnihilationOperator(j),
                                    s.Ops->getCreationOperator(k), s.Ops->getCreationOperator(l), *s.DM);
                    if (s.chiRtol > 0) Z.ReduceResonanceTolerance = s.chiRtol;
                    Z.prepare();
                    std::vector<boost::tuple<ComplexType, ComplexType, ComplexType> > fz;
                    std::vector<long> tz;
                    for (long qq = 0; qq < 67; ++qq) {
                        // every point is listed twice in a row (a list may repeat a frequency; with 67 entries the boundaries of
                        // the usual static chunks fall inside such pairs); two thirds of the points (incl. the last ones) lie
                        // where the disconnected part does not vanish
                        long q = qq / 2;
                        long n1 = q % 9 - 4, n2 = (q / 9) % 9 - 4, n3 = q % 3 == 0 ? n1 : (q % 3 == 1 ? n2 : (q * 5) % 7 - 3);
                        tz.push_back(n1); tz.push_back(n2); tz.push_back(n3);
                        fz.push_back(boost::make_tuple(sp * RealType(2*n1+1), sp * RealType(2*n2+1), sp * RealType(2*n3+1)));
                    }
                    std::vector<ComplexType> tz_tab = Z.compute(false, fz, world);
                    double maxrel = 0;
                    for (size_t q = 0; q < fz.size() && q < tz_tab.size(); ++q) {
                        ComplexType v = X(tz[3*q], tz[3*q+1], tz[3*q+2]);
                        maxrel = std::max(maxrel, std::abs(tz_tab[q] - v) / (1.0 + std::abs(v)));
                    }
                    out << "o chilong " << i << " " << j << " " << k << " " << l << " " << int(X.isVanishing()) << " " << fz.size() << " "
                        << tz_tab.size() << " " << hx::d(maxrel) << "\n";
                }
                if (clear) for (size_t q = 0; q < nt; ++q) {
                    // on-demand evaluation after the terms were purged: refusing is fine, returning another value is not
                    try {
                        ComplexType v = Y(tr[3*q], tr[3*q+1], tr[3*q+2]);
                        out << "o chipurged " << i << " " << j << " " << k << " " << l << " " << tr[3*q] << " " << tr[3*q+1] << " " << tr[3*q+2]
                            << " " << cplxStr(v) << "\n";
                    } catch (std::exception&) {
                        out << "o chipurged " << i << " " << j << " " << k << " " << l << " " << tr[3*q] << " " << tr[3*q+1] << " " << tr[3*q+2] << " refused\n";
                    }
                }
                if (!clear) for (size_t q = 0; q < nt; ++q)
                    out << "o chiafter " << i << " " << j << " " << k << " " << l << " " << tr[3*q] << " " << tr[3*q+1] << " " << tr[3*q+2]
                        << " " << cplxStr(Y(tr[3*q], tr[3*q+1], tr[3*q+2])) << "\n";
            } else if (cmd == "susc") {
                unsigned a, b, c, d; is >> a >> b >> c >> d;
                std::vector<long> ns = readLongs(is);
                std::vector<double> taus = readDoubles(is);
                QuadraticOperator A(*s.Idx, *s.S, *s.H, a, b), B(*s.Idx, *s.S, *s.H, c, d);
                A.prepare(); A.compute(); B.prepare(); B.compute();
                EnsembleAverage EA(*s.S, *s.H, A, *s.DM), EB(*s.S, *s.H, B, *s.DM);
                EA.prepare(); EB.prepare();
                out << "o avg " << a << " " << b << " " << cplxStr(EA.getResult()) << "\n";
                out << "o avg " << c << " " << d << " " << cplxStr(EB.getResult()) << "\n";
                Susceptibility X0(*s.S, *s.H, A, B, *s.DM); X0.prepare(); X0.compute();
                if (s.stress) {
                    std::vector<ComplexType> first(ns.size());
                    for (size_t k = 0; k < ns.size(); ++k) first[k] = X0(ns[k]);
                    X0.prepare(); X0.compute();
                    bool ok = true;
                    for (size_t k = ns.size(); k-- > 0;) ok = ok && X0(ns[k]) == first[k];
                    out << "o idem susc " << a << " " << b << " " << c << " " << d << " " << int(ok) << "\n";
                }
                Susceptibility X1(*s.S, *s.H, A, B, *s.DM); X1.prepare(); X1.compute(); X1.subtractDisconnected();
                Susceptibility X2(*s.S, *s.H, A, B, *s.DM); X2.prepare(); X2.compute(); X2.subtractDisconnected(EA.getResult(), EB.getResult());
                Susceptibility X3(*s.S, *s.H, A, B, *s.DM); X3.prepare(); X3.compute();
                { EnsembleAverage E1(*s.S, *s.H, A, *s.DM), E2(*s.S, *s.H, B, *s.DM); X3.subtractDisconnected(E1, E2); }
                {   // averages handed over as objects that the caller has already prepared (and used); prepare() is idempotent
                    ComplexType ra = EA.getResult(), rb = EB.getResult();
                    Susceptibility X6(*s.S, *s.H, A, B, *s.DM); X6.prepare(); X6.compute(); X6.subtractDisconnected(EA, EB);
                    bool okavg = EA.getResult() == ra && EB.getResult() == rb;
                    EA.prepare(); EB.prepare();
                    okavg = okavg && EA.getResult() == ra && EB.getResult() == rb;
                    out << "o idem avg " << a << " " << b << " " << c << " " << d << " " << int(okavg) << "\n";
                    bool ok = true;
                    for (size_t k = 0; k < ns.size(); ++k) ok = ok && X6(ns[k]) == X2(ns[k]);
                    if (a == c && b == d) {   // the same object for both arguments
                        Susceptibility X7(*s.S, *s.H, A, B, *s.DM); X7.prepare(); X7.compute();
                        EnsembleAverage E(*s.S, *s.H, A, *s.DM);
                        X7.subtractDisconnected(E, E);
                        for (size_t k = 0; k < ns.size(); ++k) ok = ok && X7(ns[k]) == X2(ns[k]);
                    }
                    out << "o idem suscprepared " << a << " " << b << " " << c << " " << d << " " << int(ok) << "\n";
                }
                out << "o suscvanish " << a << " " << b << " " << c << " " << d << " " << int(X0.isVanishing()) << "\n";
                for (size_t k = 0; k < ns.size(); ++k)
                    out << "o susc " << a << " " << b << " " << c << " " << d << " " << ns[k] << " " << cplxStr(X0(ns[k])) << " " << cplxStr(X1(ns[k]))
                        << " " << cplxStr(X2(ns[k])) << " " << cplxStr(X3(ns[k])) << "\n";
                for (size_t k = 0; k < taus.size(); ++k)
                    out << "o susctau " << a << " " << b << " " << c << " " << d << " " << hx::d(taus[k]) << " " << cplxStr(X0.of_tau(taus[k]))
                        << " " << cplxStr(X1.of_tau(taus[k])) << "\n";
                {   // the same object evaluated before and after the disconnected part is switched on
                    Susceptibility X5(*s.S, *s.H, A, B, *s.DM); X5.prepare(); X5.compute();
                    std::vector<ComplexType> before(ns.size());
                    for (size_t k = 0; k < ns.size(); ++k) before[k] = X5(ns[k]);
                    ComplexType tb = taus.empty() ? ComplexType(0) : X5.of_tau(taus[0]);
                    X5.subtractDisconnected(EA.getResult(), EB.getResult());
                    for (size_t k = 0; k < ns.size(); ++k)
                        out << "o suscreeval " << a << " " << b << " " << c << " " << d << " " << ns[k] << " " << cplxStr(before[k]) << " "
                            << cplxStr(X0(ns[k])) << " " << cplxStr(X5(ns[k])) << " " << cplxStr(X2(ns[k])) << "\n";
                    (void)tb;
                }
                {   // a copy of a computed object (with the disconnected part subtracted) is the same function
                    std::vector<Susceptibility> copies;
                    copies.push_back(X2);
                    copies.push_back(X0);
                    for (size_t k = 0; k < ns.size(); ++k)
                        out << "o susccopy " << a << " " << b << " " << c << " " << d << " " << ns[k] << " " << cplxStr(X2(ns[k])) << " "
                            << cplxStr(copies[0](ns[k])) << " " << cplxStr(X0(ns[k])) << " " << cplxStr(copies[1](ns[k])) << "\n";
                    for (size_t k = 0; k < taus.size(); ++k)
                        out << "o susccopytau " << a << " " << b << " " << c << " " << d << " " << hx::d(taus[k]) << " " << cplxStr(X2.of_tau(taus[k])) << " "
                            << cplxStr(copies[0].of_tau(taus[k])) << " " << cplxStr(X0.of_tau(taus[k])) << " " << cplxStr(copies[1].of_tau(taus[k])) << "\n";
                }
            } else if (cmd == "tpc") {
                std::string sub; is >> sub;
                if (sub == "new") {
                    s.TPC = new TwoParticleGFContainer(*s.Idx, *s.S, *s.H, *s.DM, *s.Ops);
                    out << "o ok\n";
                } else if (sub == "fill" || sub == "prepareall") {
                    size_t n; is >> n;
                    std::set<IndexCombination4> qs;
                    for (size_t q = 0; q < n; ++q) { unsigned a, b, c, d; is >> a >> b >> c >> d; qs.insert(IndexCombination4(a, b, c, d)); }
                    if (sub == "fill") s.TPC->fill(qs); else s.TPC->prepareAll(qs);
                    out << "o ok\n";
                } else if (sub == "computeall") {
                    int split; is >> split;
                    std::string purge; is >> purge;
                    std::vector<boost::tuple<ComplexType, ComplexType, ComplexType> > nofreqs;
                    if (purge == "purge") {
                        // table computation that discards the terms of every element afterwards
                        ComplexType sp = ComplexType(0, M_PI / s.DM->beta);
                        nofreqs.push_back(boost::make_tuple(sp, sp, sp));
                        nofreqs.push_back(boost::make_tuple(sp, -sp, RealType(3) * sp));
                        s.TPC->computeAll(true, nofreqs, world, split != 0);
                    } else
                        s.TPC->computeAll(false, nofreqs, world, split != 0);
                    out << "o ok\n";
                } else if (sub == "list") {
                    // canonical element numbers: order of first appearance of the pointer in creation order is not observable;
                    // number the distinct pointers by their smallest owning key in NonTrivialElements/ElementsMap order
                    std::map<TwoParticleGF*, int> ids;
                    out << "o tpclist " << s.TPC->ElementsMap.size();
                    for (std::map<IndexCombination4, ElementWithPermFreq<TwoParticleGF> >::iterator it = s.TPC->ElementsMap.begin();
                         it != s.TPC->ElementsMap.end(); ++it) {
                        TwoParticleGF* p = it->second.pElement.get();
                        if (!ids.count(p)) { int k = ids.size(); ids[p] = k; }
                        int perm = -1;
                        for (int q = 0; q < 24; ++q) if (it->second.FrequenciesPermutation == permutations4[q]) perm = q;
                        out << " " << it->first.Index1 << " " << it->first.Index2 << " " << it->first.Index3 << " " << it->first.Index4
                            << " " << ids[p] << " " << perm << " " << p->getStatus();
                    }
                    out << " nt " << s.TPC->NonTrivialElements.size();
                    for (std::map<IndexCombination4, boost::shared_ptr<TwoParticleGF> >::iterator it = s.TPC->NonTrivialElements.begin();
                         it != s.TPC->NonTrivialElements.end(); ++it) {
                        TwoParticleGF* p = it->second.get();
                        out << " " << it->first.Index1 << " " << it->first.Index2 << " " << it->first.Index3 << " " << it->first.Index4
                            << " " << (ids.count(p) ? ids[p] : -1) << " " << p->getStatus();
                    }
                    out << "\n";
                } else if (sub == "get" || sub == "prepare" || sub == "compute" || sub == "ondemand") {
                    unsigned a, b, c, d; is >> a >> b >> c >> d;
                    ElementWithPermFreq<TwoParticleGF>& e = (*s.TPC)(a, b, c, d);
                    // `ondemand`: ONE look-up; the reference it returned is prepared, computed and evaluated
                    if (sub == "ondemand") { static_cast<TwoParticleGF&>(e).prepare(); static_cast<TwoParticleGF&>(e).compute(); }
                    if (sub == "prepare") { static_cast<TwoParticleGF&>(e).prepare(); out << "o ok\n"; }
                    else if (sub == "compute") { static_cast<TwoParticleGF&>(e).compute(); out << "o ok\n"; }
                    else {
                        long n1, n2, n3; is >> n1 >> n2 >> n3;
                        // reference: a two-particle Green's function constructed directly for this quadruple
                        TwoParticleGF X(*s.S, *s.H, s.Ops->getAnnihilationOperator(a), s.Ops->getAnnihilationOperator(b),
                                        s.Ops->getCreationOperator(c), s.Ops->getCreationOperator(d), *s.DM);
                        X.prepare(); X.compute();
                        ComplexType ref = X(n1, n2, n3);
                        try {
                            ComplexType v = e(n1, n2, n3);
                            out << "o tpcget " << a << " " << b << " " << c << " " << d << " " << n1 << " " << n2 << " " << n3
                                << " ok " << cplxStr(v) << " " << cplxStr(ref) << " " << int(X.isVanishing()) << "\n";
                        } catch (std::exception& ex) {
                            out << "o tpcget " << a << " " << b << " " << c << " " << d << " " << n1 << " " << n2 << " " << n3
                                << " exc " << excName(ex) << " " << cplxStr(ref) << " " << int(X.isVanishing()) << "\n";
                        }
                    }
                } else if (sub == "evalall") {
                    long n1, n2, n3; is >> n1 >> n2 >> n3;
                    int bad = 0, tot = 0;
                    for (std::map<IndexCombination4, ElementWithPermFreq<TwoParticleGF> >::iterator it = s.TPC->ElementsMap.begin();
                         it != s.TPC->ElementsMap.end(); ++it) {
                        ++tot;
                        try { (void)it->second(n1, n2, n3); } catch (std::exception&) { ++bad; }
                    }
                    out << "o tpcevalall " << tot << " " << bad << "\n";
                } else out << "o badcmd\n";
            } else if (cmd == "vertex") {
                unsigned i, j, k, l; long N; is >> i >> j >> k >> l >> N;
                size_t nt; is >> nt;
                std::vector<long> tr(3 * nt); for (size_t q = 0; q < 3 * nt; ++q) is >> tr[q];
                TwoParticleGF X(*s.S, *s.H, s.Ops->getAnnihilationOperator(i), s.Ops->getAnnihilationOperator(j),
                                s.Ops->getCreationOperator(k), s.Ops->getCreationOperator(l), *s.DM);
                X.prepare(); X.compute();
                GreensFunction G13(*s.S, *s.H, s.Ops->getAnnihilationOperator(i), s.Ops->getCreationOperator(k), *s.DM);
                GreensFunction G24(*s.S, *s.H, s.Ops->getAnnihilationOperator(j), s.Ops->getCreationOperator(l), *s.DM);
                GreensFunction G14(*s.S, *s.H, s.Ops->getAnnihilationOperator(i), s.Ops->getCreationOperator(l), *s.DM);
                GreensFunction G23(*s.S, *s.H, s.Ops->getAnnihilationOperator(j), s.Ops->getCreationOperator(k), *s.DM);
                // "declare everything first": a second vertex object is constructed BEFORE chi and the G's are prepared/computed
                TwoParticleGF Xe(*s.S, *s.H, s.Ops->getAnnihilationOperator(i), s.Ops->getAnnihilationOperator(j),
                                 s.Ops->getCreationOperator(k), s.Ops->getCreationOperator(l), *s.DM);
                GreensFunction E13(*s.S, *s.H, s.Ops->getAnnihilationOperator(i), s.Ops->getCreationOperator(k), *s.DM);
                GreensFunction E24(*s.S, *s.H, s.Ops->getAnnihilationOperator(j), s.Ops->getCreationOperator(l), *s.DM);
                GreensFunction E14(*s.S, *s.H, s.Ops->getAnnihilationOperator(i), s.Ops->getCreationOperator(l), *s.DM);
                GreensFunction E23(*s.S, *s.H, s.Ops->getAnnihilationOperator(j), s.Ops->getCreationOperator(k), *s.DM);
                Vertex4 Ve(Xe, E13, E24, E14, E23);
                Xe.prepare(); Xe.compute(); E13.prepare(); E13.compute(); E24.prepare(); E24.compute();
                E14.prepare(); E14.compute(); E23.prepare(); E23.compute();
                Ve.compute(N);
                G13.prepare(); G13.compute(); G24.prepare(); G24.compute(); G14.prepare(); G14.compute(); G23.prepare(); G23.compute();
                Vertex4 V(X, G13, G24, G14, G23);
                V.compute(N);
                if (s.stress) { V.compute(N + 1); V.compute(N); }     // re-filling the storage with another window and back
                for (size_t q = 0; q < nt; ++q) {
                    long n1 = tr[3*q], n2 = tr[3*q+1], n3 = tr[3*q+2];
                    out << "o vertex " << i << " " << j << " " << k << " " << l << " " << N << " " << n1 << " " << n2 << " " << n3
                        << " " << cplxStr(V.value(n1, n2, n3)) << " " << cplxStr(V(n1, n2, n3)) << " " << cplxStr(X(n1, n2, n3))
                        << " " << cplxStr(G13(n1)) << " " << cplxStr(G24(n2)) << " " << cplxStr(G14(n1)) << " " << cplxStr(G23(n2)) << "\n";
                    bool same = Ve(n1, n2, n3) == V(n1, n2, n3) && Ve.value(n1, n2, n3) == V.value(n1, n2, n3);
                    out << "o idem vertex " << i << " " << j << " " << k << " " << l << " " << n1 << " " << n2 << " " << n3 << " " << int(same) << "\n";
                }
                {   // the storage re-filled with the DEFAULT window (compute() = no storage) and with a smaller one: every read
                    // must still be the value of the formula
                    V.compute();
                    bool same0 = true;
                    for (size_t q = 0; q < nt; ++q) same0 = same0 && V(tr[3*q], tr[3*q+1], tr[3*q+2]) == V.value(tr[3*q], tr[3*q+1], tr[3*q+2]);
                    for (long n1 = -3; n1 < 3; ++n1) for (long n2 = -3; n2 < 3; ++n2)
                        same0 = same0 && V(n1, n2, n1) == V.value(n1, n2, n1) && V(n1, n2, n2 - 1) == V.value(n1, n2, n2 - 1);
                    if (N > 1) { V.compute(N - 1);
                        for (size_t q = 0; q < nt; ++q) same0 = same0 && V(tr[3*q], tr[3*q+1], tr[3*q+2]) == V.value(tr[3*q], tr[3*q+1], tr[3*q+2]); }
                    out << "o idem vertex " << i << " " << j << " " << k << " " << l << " refill " << int(same0) << "\n";
                }
            } else {
                out << "o badcmd\n";
            }
        } catch (std::exception& e) {
            out << "o exc " << excName(e) << "\n";
        }
        out.flush();
    }
    out << "end\n";
    out.close();
    return 0;
}
