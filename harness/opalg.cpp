// C05 correspondence harness: drives the real Pomerol::Operator algebra.
// Commands on stdin (one per line), observations on stdout ("o ..." lines).
//
//   def  <name> <nterms> { <coefhex> <len> (<ann> <idx>)^len }     name := sum_k normalize_and_insert(m_k, c_k)
//   prod <name> <coefhex> <len> (<ann> <idx>)^len                   name := coef * (op_1 *= op_2 *= ...)  (IndexHamiltonian style)
//   mul|add|sub|comm|acomm <res> <A> <B>
//   smul <res> <coefhex> <A>     neg <res> <A>     addc <res> <coefhex> <A>
//   eq <A> <B>        commutes <A> <B>
//   act <A> <nmodes> <ket>       melem <A> <nmodes> <bra> <ket>
//   nop <nmodes> <ket>           sz <nmodes> <nup> up-indices... <ket>
//
// Doubles travel as 16 hex digits of their bit pattern (real build) ; complex build: two words "re im".
#include <pomerol/Operator.h>
#include <pomerol/OperatorPresets.h>
#include "hx.h"
#include <map>
#include <sstream>

using namespace Pomerol;

struct Probe : public Operator {
    Probe() {}
    Probe(const Operator& o) : Operator(o) {}
    void raw(monomial_t m, MelemType c) { normalize_and_insert(m, c, monomials); }
    const monomials_map_t& map() const { return monomials; }
};

static std::string polystr(const Operator& op) {
    Probe p(op);
    std::ostringstream os;
    os << p.map().size();
    for (Operator::monomials_map_t::const_iterator it = p.map().begin(); it != p.map().end(); ++it) {
        os << " " << hx::melem(it->second) << " " << it->first.size();
        for (size_t k = 0; k < it->first.size(); ++k)
            os << " " << int(boost::get<0>(it->first[k]) == Operator::annihilation) << " " << boost::get<1>(it->first[k]);
    }
    return os.str();
}

static Operator::monomial_t readMono(std::istream& is) {
    size_t len; is >> len;
    Operator::monomial_t m;
    for (size_t k = 0; k < len; ++k) {
        int ann; unsigned idx; is >> ann >> idx;
        m.push_back(boost::make_tuple(ann ? Operator::annihilation : Operator::creation, ParticleIndex(idx)));
    }
    return m;
}

int main() {
    std::map<std::string, Operator> env;
    std::string line;
#ifdef POMEROL_COMPLEX_MATRIX_ELEMENTS
    std::cout << "build complex\n";
#else
    std::cout << "build real\n";
#endif
    while (std::getline(std::cin, line)) {
        std::istringstream is(line);
        std::string cmd;
        if (!(is >> cmd)) continue;
        if (cmd == "def") {
            std::string name; size_t n; is >> name >> n;
            Probe p;
            for (size_t k = 0; k < n; ++k) { MelemType c = hx::readMelem(is); Operator::monomial_t m = readMono(is); p.raw(m, c); }
            env[name] = p;
            std::cout << "o " << line << " => " << polystr(p) << "\n";
        } else if (cmd == "prod") {
            std::string name; is >> name; MelemType c = hx::readMelem(is); Operator::monomial_t m = readMono(is);
            Operator tmp;
            for (size_t k = 0; k < m.size(); ++k) {
                Operator t1 = (boost::get<0>(m[k]) == Operator::creation) ? OperatorPresets::c_dag(boost::get<1>(m[k]))
                                                                          : OperatorPresets::c(boost::get<1>(m[k]));
                if (tmp.isEmpty()) tmp = t1; else tmp *= t1;
            }
            env[name] = c * tmp;
            std::cout << "o " << line << " => " << polystr(env[name]) << "\n";
        } else if (cmd == "mul" || cmd == "add" || cmd == "sub" || cmd == "comm" || cmd == "acomm") {
            std::string r, a, b; is >> r >> a >> b;
            const Operator &A = env[a], &B = env[b];
            Operator R = cmd == "mul" ? A * B : cmd == "add" ? A + B : cmd == "sub" ? A - B
                        : cmd == "comm" ? A.getCommutator(B) : A.getAntiCommutator(B);
            env[r] = R;
            std::cout << "o " << line << " => " << polystr(R) << "\n";
        } else if (cmd == "imul" || cmd == "iadd" || cmd == "isub") {
            // compound assignment R = A; R op= B  -- with B named like R the right-hand side IS the left-hand side (R op= R)
            std::string r, a, b; is >> r >> a >> b;
            Operator R = env[a];
            const Operator& B = (b == r) ? R : env[b];
            if (cmd == "imul") R *= B; else if (cmd == "iadd") R += B; else R -= B;
            env[r] = R;
            std::cout << "o " << line << " => " << polystr(R) << "\n";
        } else if (cmd == "smul" || cmd == "addc") {
            std::string r, a; is >> r; MelemType c = hx::readMelem(is); is >> a;
            Operator R = cmd == "smul" ? env[a] * c : env[a] + c;
            env[r] = R;
            std::cout << "o " << line << " => " << polystr(R) << "\n";
        } else if (cmd == "neg") {
            std::string r, a; is >> r >> a;
            env[r] = -env[a];
            std::cout << "o " << line << " => " << polystr(env[r]) << "\n";
        } else if (cmd == "eq" || cmd == "commutes") {
            std::string a, b; is >> a >> b;
            bool v = cmd == "eq" ? (env[a] == env[b]) : env[a].commutes(env[b]);
            std::cout << "o " << line << " => " << int(v) << "\n";
        } else if (cmd == "act") {
            std::string a; unsigned nm; unsigned long ket; is >> a >> nm >> ket;
            std::map<FockState, MelemType> r = env[a].actRight(FockState(nm, ket));
            std::cout << "o " << line << " => " << r.size();
            for (std::map<FockState, MelemType>::const_iterator it = r.begin(); it != r.end(); ++it)
                std::cout << " " << it->first.to_ulong() << " " << hx::melem(it->second);
            std::cout << "\n";
        } else if (cmd == "melem") {
            std::string a; unsigned nm; unsigned long bra, ket; is >> a >> nm >> bra >> ket;
            MelemType v = env[a].getMatrixElement(FockState(nm, bra), FockState(nm, ket));
            std::cout << "o " << line << " => " << hx::melem(v) << "\n";
        } else if (cmd == "nop") {
            unsigned nm; unsigned long ket; is >> nm >> ket;
            OperatorPresets::N Nop(nm);
            FockState k(nm, ket);
            std::map<FockState, MelemType> r = Nop.actRight(k);
            // generic polynomial form of the same operator
            Operator generic(Nop);
            std::cout << "o " << line << " => " << hx::melem(Nop.getMatrixElement(k, k)) << " " << r.size()
                      << " " << r.begin()->first.to_ulong() << " " << hx::melem(r.begin()->second)
                      << " " << hx::melem(generic.getMatrixElement(k, k)) << " " << polystr(Nop) << "\n";
        } else if (cmd == "sz") {
            unsigned nm, nup; is >> nm >> nup;
            std::vector<ParticleIndex> ups(nup);
            for (unsigned k = 0; k < nup; ++k) is >> ups[k];
            unsigned long ket; is >> ket;
            try {
                OperatorPresets::Sz S(nm, ups);
                FockState k(nm, ket);
                Operator generic(S);
                std::cout << "o " << line << " => ok " << hx::melem(S.getMatrixElement(k, k)) << " "
                          << hx::melem(generic.getMatrixElement(k, k)) << " " << polystr(S) << "\n";
            } catch (std::exception& e) {
                std::cout << "o " << line << " => throw\n";
            }
        } else if (cmd == "sz2") {
            // two-list constructor: the lists need not cover all modes of the ket
            unsigned nm, nup, ndn; is >> nm >> nup;
            std::vector<ParticleIndex> ups(nup);
            for (unsigned k = 0; k < nup; ++k) is >> ups[k];
            is >> ndn;
            std::vector<ParticleIndex> dns(ndn);
            for (unsigned k = 0; k < ndn; ++k) is >> dns[k];
            unsigned long ket; is >> ket;
            try {
                OperatorPresets::Sz S(ups, dns);
                FockState k(nm, ket);
                Operator generic(S);
                std::map<FockState, MelemType> r = S.actRight(k);
                std::cout << "o " << line << " => ok " << hx::melem(S.getMatrixElement(k, k)) << " "
                          << hx::melem(generic.getMatrixElement(k, k)) << " " << r.size() << " " << r.begin()->first.to_ulong()
                          << " " << hx::melem(r.begin()->second) << "\n";
            } catch (std::exception& e) {
                std::cout << "o " << line << " => throw\n";
            }
        } else {
            std::cout << "o " << line << " => BADCMD\n";
        }
    }
    return 0;
}
