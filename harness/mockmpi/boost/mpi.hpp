// Mock of the subset of Boost.MPI used by pomerol's mpi_dispatcher / mpi_skel.
// Ranks are threads of one process; exactly one thread runs at a time (token passing) and the
// scheduler decides, at every request::test(), which rank runs next and whether an already sent
// message is visible yet.  Message matching follows MPI: posted receives are matched in posting
// order, by (source, tag|ANY_TAG); unmatched messages wait in an "unexpected" queue (non-overtaking).
// Used only by /verif/harness/disp.cpp (placed first on the include path).
#pragma once
#include <iostream>
#include <map>
#include <vector>
#include <deque>
#include <list>
#include <algorithm>
#include <stdexcept>
#include <mutex>
#include <condition_variable>
#include <memory>
#include <cstdio>
#include <boost/optional.hpp>

#define MPI_ANY_TAG (-1)
#define MPI_COMM_WORLD 0

namespace mockmpi {

struct Msg { int src, tag; bool hasPayload; int payload; };

struct Recv {              // a posted receive
    int owner, src, tag;
    int* buf;              // may be null (no payload expected)
    bool matched, completed, cancelled, delivered;
    Msg msg;
    Recv() : owner(-1), src(-1), tag(-1), buf(0), matched(false), completed(false), cancelled(false), delivered(false) {}
};

enum ThreadState { RUN, WAIT_TEST, WAIT_BARRIER, WAIT_BCAST, DONE };

struct World {
    int P;
    std::mutex mu;
    std::condition_variable cv;
    std::vector<ThreadState> st;
    int turn;                       // rank that holds the token, -1 = scheduler
    bool grantSees;                 // decision handed to the rank that gets the token at a test
    std::vector<std::deque<Msg> > unexpected;
    std::vector<std::list<std::shared_ptr<Recv> > > posted;
    std::map<long, std::vector<int> > bcastVals;   // broadcast number -> value deposited by its root
    std::vector<long> bcastCount;                  // per rank: number of broadcasts it has taken part in
    unsigned long long rng;
    long steps, maxSteps;
    bool hang;
    std::vector<std::string> log;   // event log (total order)
    int seeNum, seeDen;             // probability that an available message is seen

    World(int P_, unsigned long long seed, long maxSteps_, int seeNum_, int seeDen_)
        : P(P_), st(P_, RUN), turn(-1), grantSees(false), unexpected(P_), posted(P_), bcastCount(P_, 0),
          rng(seed), steps(0), maxSteps(maxSteps_), hang(false), seeNum(seeNum_), seeDen(seeDen_) {}

    unsigned long long next() {
        rng += 0x9E3779B97F4A7C15ULL;
        unsigned long long z = rng;
        z = (z ^ (z >> 30)) * 0xBF58476D1CE4E5B9ULL;
        z = (z ^ (z >> 27)) * 0x94D049BB133111EBULL;
        return z ^ (z >> 31);
    }
};

extern World* W;
extern thread_local int myRank;

inline bool matches(const Recv& r, const Msg& m) {
    return r.src == m.src && (r.tag == MPI_ANY_TAG || r.tag == m.tag);
}

// called with W->mu held
inline void deliver(int dst, const Msg& m) {
    for (auto& r : W->posted[dst])
        if (!r->matched && !r->cancelled && matches(*r, m)) { r->matched = true; r->msg = m; return; }
    W->unexpected[dst].push_back(m);
}

// yield the token and wait to be scheduled again; returns the scheduler's "sees" decision
inline bool yieldAt(ThreadState s) {
    std::unique_lock<std::mutex> lk(W->mu);
    W->st[myRank] = s;
    W->turn = -1;
    W->cv.notify_all();
    W->cv.wait(lk, [&] { return W->turn == myRank; });
    W->st[myRank] = RUN;
    return W->grantSees;
}

struct thread_abort {};

} // namespace mockmpi

namespace boost { namespace mpi {

class status {
    int tag_, src_;
public:
    status(int t = 0, int s = 0) : tag_(t), src_(s) {}
    int tag() const { return tag_; }
    int source() const { return src_; }
};

class request {
public:
    std::shared_ptr<mockmpi::Recv> r;
    request() {}
    explicit request(std::shared_ptr<mockmpi::Recv> r_) : r(r_) {}
    bool active() const { return bool(r) && !r->completed && !r->cancelled; }
    boost::optional<status> test() {
        using namespace mockmpi;
        bool sees = yieldAt(WAIT_TEST);
        if (W->hang) throw thread_abort();
        std::unique_lock<std::mutex> lk(W->mu);
        bool ok = active() && r->matched && sees;
        char buf[64]; std::snprintf(buf, sizeof buf, "t %d %d", myRank, int(ok)); W->log.push_back(buf);
        if (!ok) return boost::optional<status>();
        r->completed = true;
        if (r->buf && r->msg.hasPayload && !r->delivered) *r->buf = r->msg.payload;
        W->posted[r->owner].remove(r);
        return status(r->msg.tag, r->msg.src);
    }
    void cancel() {
        using namespace mockmpi;
        std::unique_lock<std::mutex> lk(W->mu);
        if (r && !r->completed) {
            if (r->matched) {   // a message was already matched to this receive: cancelling would lose it
                char buf[64]; std::snprintf(buf, sizeof buf, "lostmsg %d", myRank); W->log.push_back(buf);
            }
            r->cancelled = true; W->posted[r->owner].remove(r);
        }
    }
};

class communicator {
public:
    communicator() {}
    int rank() const { return mockmpi::myRank; }
    int size() const { return mockmpi::W->P; }
    void barrier() const {
        using namespace mockmpi;
        yieldAt(WAIT_BARRIER);
        if (W->hang) throw thread_abort();
    }
    void send(int dst, int tag) const { sendImpl(dst, tag, false, 0); }
    void send(int dst, int tag, const int& v) const { sendImpl(dst, tag, true, v); }
    request irecv(int src, int tag) const { return irecvImpl(src, tag, 0); }
    request irecv(int src, int tag, int& v) const { return irecvImpl(src, tag, &v); }
private:
    void sendImpl(int dst, int tag, bool has, int v) const {
        using namespace mockmpi;
        std::unique_lock<std::mutex> lk(W->mu);
        Msg m; m.src = myRank; m.tag = tag; m.hasPayload = has; m.payload = v;
        char buf[96]; std::snprintf(buf, sizeof buf, "s %d %d %d %d", myRank, dst, tag, has ? v : -1); W->log.push_back(buf);
        if (dst < 0 || dst >= W->P) { W->log.push_back("badsend"); return; }
        deliver(dst, m);
    }
    request irecvImpl(int src, int tag, int* buf) const {
        using namespace mockmpi;
        std::unique_lock<std::mutex> lk(W->mu);
        std::shared_ptr<Recv> r(new Recv());
        r->owner = myRank; r->src = src; r->tag = tag; r->buf = buf;
        std::deque<Msg>& q = W->unexpected[myRank];
        for (std::deque<Msg>::iterator it = q.begin(); it != q.end(); ++it)
            if (matches(*r, *it)) {
                // a message that is already there is matched at once, and (eager protocol) its payload is delivered into the
                // receive buffer right away: MPI may write the buffer at any time between posting and completion, and the
                // program must not touch it in between
                r->matched = true; r->msg = *it; q.erase(it);
                if (r->buf && r->msg.hasPayload) { *r->buf = r->msg.payload; r->delivered = true; }
                break;
            }
        W->posted[myRank].push_back(r);
        return request(r);
    }
};

// the iterator-range helpers of <boost/mpi/nonblocking.hpp>, with Boost's own algorithms (every request::test() inside
// them is a scheduling point like any other)
template<typename BidirectionalIterator>
BidirectionalIterator test_some(BidirectionalIterator first, BidirectionalIterator last) {
    BidirectionalIterator current = first, start_of_completed = last;
    while (current != start_of_completed) {
        if (boost::optional<status> result = current->test()) {
            --start_of_completed;
            std::iter_swap(current, start_of_completed);    // completed requests are MOVED to the end of the range
            continue;
        }
        ++current;
    }
    return start_of_completed;
}
template<typename BidirectionalIterator, typename OutputIterator>
std::pair<OutputIterator, BidirectionalIterator> test_some(BidirectionalIterator first, BidirectionalIterator last, OutputIterator out) {
    BidirectionalIterator current = first, start_of_completed = last;
    while (current != start_of_completed) {
        if (boost::optional<status> result = current->test()) {
            *out++ = *result;
            --start_of_completed;
            std::iter_swap(current, start_of_completed);
            continue;
        }
        ++current;
    }
    std::reverse(start_of_completed, last);
    return std::make_pair(out, start_of_completed);
}
template<typename ForwardIterator>
boost::optional<std::pair<status, ForwardIterator> > test_any(ForwardIterator first, ForwardIterator last) {
    while (first != last) {
        if (boost::optional<status> result = first->test()) return std::make_pair(*result, first);
        ++first;
    }
    return boost::optional<std::pair<status, ForwardIterator> >();
}

// MPI_Bcast is NOT a synchronisation: the root deposits the value and goes on at once; every other rank blocks until the
// root of the same (n-th) broadcast on the communicator has deposited it.
inline void broadcast(const communicator& c, std::vector<int>& v, int root) {
    using namespace mockmpi;
    long seq;
    { std::unique_lock<std::mutex> lk(W->mu); seq = W->bcastCount[c.rank()]++; if (c.rank() == root) W->bcastVals[seq] = v; }
    if (c.rank() != root) {
        yieldAt(WAIT_BCAST);       // the scheduler hands the token back only when broadcast number `seq` has been deposited
        if (W->hang) throw thread_abort();
        std::unique_lock<std::mutex> lk(W->mu);
        v = W->bcastVals[seq];
    }
}

}} // namespace boost::mpi

inline int MPI_Barrier(int) { boost::mpi::communicator c; c.barrier(); return 0; }
