// C16 correspondence harness: the UNMODIFIED dispatcher sources of the repository
// (src/mpi_dispatcher/mpi_dispatcher.cpp, include/mpi_dispatcher/mpi_skel.hpp) compiled against the
// mock <boost/mpi.hpp> of /verif/harness/mockmpi.  Ranks are threads; a seeded scheduler picks, at
// every request::test(), the rank that moves and whether an in-flight message is visible.
//
// usage: disp <P> <seed> <maxSteps> <seeNum> <seeDen> [nomaster]    rounds on stdin: one line of job complexities per round
//   nomaster: the dedicated-master pattern (test/mpi_dispatcher_test_nomaster.cpp): rank 0 only drives
//   `for (; !master.is_finished();) { master.order(); master.check_workers(); }` with include_boss=false, the other
//   ranks run the worker loop; a round's line is then the job list (distinct job ids) handed to MPIMaster.
// output: event log in total order:
//   round <k> <J> c0 c1 ...      s <src> <dst> <tag> <payload>      t <rank> <seen>      r <rank> <job>
//   x <rank> <round>  (rank left mpi_skel::run)      m <rank> <round> <n> j w j w ...  (returned map)
//   HANG <reason>
#include <boost/mpi.hpp>
#include <thread>
#include <sstream>
#include <mpi_dispatcher/mpi_skel.hpp>
#include <mpi_dispatcher.cpp>

namespace mockmpi { World* W = 0; thread_local int myRank = -1; }
using namespace mockmpi;

struct Job {
    int complexity; int id;
    Job() : complexity(1), id(0) {}
    Job(int c, int i) : complexity(c), id(i) {}
    void run() {
        std::unique_lock<std::mutex> lk(W->mu);
        char buf[64]; std::snprintf(buf, sizeof buf, "r %d %d", myRank, id); W->log.push_back(buf);
    }
};

static std::vector<std::vector<int> > rounds;
static bool nomaster = false;
static int boss = 0;      // rank of the dedicated master

// one round of the dedicated-master pattern
static void dedicatedRound(boost::mpi::communicator& comm, int rank, size_t k) {
    comm.barrier();
    if (rank == boss) {
        {
            std::unique_lock<std::mutex> lk(W->mu);
            std::ostringstream os; os << "round " << k << " " << rounds[k].size();
            for (size_t j = 0; j < rounds[k].size(); ++j) os << " " << rounds[k][j];
            W->log.push_back(os.str());
        }
        std::vector<pMPI::JobId> jobs(rounds[k].begin(), rounds[k].end());
        pMPI::MPIMaster master(comm, jobs, false);
        for (; !master.is_finished();) {
            master.order();
            master.check_workers();
        }
        std::unique_lock<std::mutex> lk(W->mu);
        std::ostringstream os; os << "m " << rank << " " << k << " " << master.DispatchMap.size();
        for (std::map<pMPI::JobId, pMPI::WorkerId>::const_iterator it = master.DispatchMap.begin(); it != master.DispatchMap.end(); ++it)
            os << " " << it->first << " " << it->second;
        W->log.push_back(os.str());
    } else {
        pMPI::MPIWorker worker(comm, boss);
        for (; !worker.is_finished();) {
            worker.receive_order();
            if (worker.is_working()) {
                Job(1, int(worker.current_job())).run();
                worker.report_job_done();
            }
        }
        std::unique_lock<std::mutex> lk(W->mu);
        std::ostringstream os; os << "x " << rank << " " << k;
        W->log.push_back(os.str());
    }
    comm.barrier();
}

static void rankMain(int rank) {
    myRank = rank;
    {   // wait for the first token
        std::unique_lock<std::mutex> lk(W->mu);
        W->st[rank] = WAIT_BARRIER; W->cv.notify_all();
        W->cv.wait(lk, [&] { return W->turn == rank; });
        W->st[rank] = RUN;
    }
    try {
        boost::mpi::communicator comm;
        for (size_t k = 0; k < rounds.size(); ++k) {
            if (W->hang) throw thread_abort();
            if (nomaster) { dedicatedRound(comm, rank, k); continue; }
            pMPI::mpi_skel<Job> skel;
            for (size_t j = 0; j < rounds[k].size(); ++j) skel.parts.push_back(Job(rounds[k][j], int(j)));
            if (rank == 0) {
                std::unique_lock<std::mutex> lk(W->mu);
                std::ostringstream os; os << "round " << k << " " << rounds[k].size();
                for (size_t j = 0; j < rounds[k].size(); ++j) os << " " << rounds[k][j];
                W->log.push_back(os.str());
            }
            std::map<pMPI::JobId, pMPI::WorkerId> m = skel.run(comm, false);
            std::unique_lock<std::mutex> lk(W->mu);
            std::ostringstream os; os << "m " << rank << " " << k << " " << m.size();
            for (std::map<pMPI::JobId, pMPI::WorkerId>::const_iterator it = m.begin(); it != m.end(); ++it)
                os << " " << it->first << " " << it->second;
            W->log.push_back(os.str());
        }
    } catch (thread_abort&) {
    } catch (std::exception& e) {
        std::unique_lock<std::mutex> lk(W->mu);
        W->log.push_back(std::string("exception ") + e.what());
    }
    std::unique_lock<std::mutex> lk(W->mu);
    W->st[rank] = DONE; W->turn = -1; W->cv.notify_all();
}

int main(int argc, char** argv) {
    if (argc < 6) { std::fprintf(stderr, "usage: disp P seed maxSteps seeNum seeDen\n"); return 2; }
    int P = std::atoi(argv[1]);
    nomaster = argc > 6 && std::string(argv[6]) == "nomaster";
    if (argc > 7) boss = std::atoi(argv[7]);
    unsigned long long seed = std::strtoull(argv[2], 0, 10);
    long maxSteps = std::atol(argv[3]);
    std::string line;
    while (std::getline(std::cin, line)) {
        std::istringstream is(line); std::vector<int> c; int x;
        std::string first;
        std::istringstream is2(line);
        if (!(is2 >> first)) continue;
        if (first == "none") { rounds.push_back(c); continue; }
        while (is >> x) c.push_back(x);
        rounds.push_back(c);
    }
    W = new World(P, seed, maxSteps, std::atoi(argv[4]), std::atoi(argv[5]));
    // the mock's own output must not be mixed with pomerol's std::cout chatter: silence cout
    std::streambuf* old = std::cout.rdbuf(0);
    std::vector<std::thread> th;
    for (int r = 0; r < P; ++r) th.push_back(std::thread(rankMain, r));
    std::string hangReason;
    {
        std::unique_lock<std::mutex> lk(W->mu);
        for (;;) {
            W->cv.wait(lk, [&] { if (W->turn != -1) return false;
                                 for (int r = 0; r < P; ++r) if (W->st[r] == RUN) return false; return true; });
            std::vector<int> tests, bars, blocked; int done = 0;
            for (int r = 0; r < P; ++r) {
                if (W->st[r] == WAIT_TEST) tests.push_back(r);
                else if (W->st[r] == WAIT_BARRIER) bars.push_back(r);
                else if (W->st[r] == WAIT_BCAST) {
                    // runnable (like a rank at a test) once the value of its pending broadcast has been deposited
                    if (W->bcastVals.count(W->bcastCount[r] - 1)) tests.push_back(r); else blocked.push_back(r);
                }
                else if (W->st[r] == DONE) ++done;
            }
            if (done == P) break;
            if (W->hang) {       // wind down: wake everybody so that they abort
                int r = !tests.empty() ? tests[0] : (!bars.empty() ? bars[0] : blocked[0]);
                W->turn = r; W->cv.notify_all();
                continue;
            }
            if (++W->steps > W->maxSteps) { W->hang = true; hangReason = "step-limit"; continue; }
            if (!tests.empty()) {
                int r = tests[W->next() % tests.size()];
                W->grantSees = int(W->next() % (unsigned long long)W->seeDen) < W->seeNum;
                W->turn = r; W->cv.notify_all();
            } else if (int(bars.size()) == P) {
                for (size_t i = 0; i < bars.size(); ++i) {
                    W->turn = bars[i]; W->cv.notify_all();
                    W->cv.wait(lk, [&] { return W->turn == -1; });
                }
            } else { W->hang = true; hangReason = "collective-mismatch (some ranks wait in a barrier or broadcast that the others never reach)"; }
        }
    }
    for (size_t i = 0; i < th.size(); ++i) th[i].join();
    std::cout.rdbuf(old);
    for (size_t i = 0; i < W->log.size(); ++i) std::printf("%s\n", W->log[i].c_str());
    if (!hangReason.empty()) std::printf("HANG %s\n", hangReason.c_str());
    std::printf("steps %ld\n", W->steps);
    return 0;
}
