// C15 correspondence harness: the real MatsubaraContainer4 template instantiated with a
// tagging source.  Commands on stdin:  "fill N" | "look n1 n2 n3";  observations on stdout.
#include <pomerol/MatsubaraContainers.h>
#include <cstdio>
#include <cstdlib>
#include <string>
#include <sstream>

using namespace Pomerol;

struct TagSource {
    mutable long phase;
    TagSource() : phase(1) {}
    ComplexType value(long n1, long n2, long n3) const {
        double t = ((double(phase) * 2048 + double(n1 + 1024)) * 2048 + double(n2 + 1024)) * 2048 + double(n3 + 1024);
        return ComplexType(t, 0.0);
    }
};

int main() {
    TagSource src;
    MatsubaraContainer4<TagSource> C;
    std::string line;
    while (std::getline(std::cin, line)) {
        std::istringstream is(line);
        std::string cmd;
        if (!(is >> cmd)) continue;
        if (cmd == "fill") {
            long N; is >> N;
            src.phase = 1;
            C.fill(&src, N);
            src.phase = 2;
            std::printf("fill %ld\n", N);
        } else if (cmd == "look") {
            long n1, n2, n3; is >> n1 >> n2 >> n3;
            ComplexType v = C(n1, n2, n3);
            long long t = (long long)(v.real());
            long t3 = long(t % 2048) - 1024; t /= 2048;
            long t2 = long(t % 2048) - 1024; t /= 2048;
            long t1 = long(t % 2048) - 1024; t /= 2048;
            std::printf("look %ld %ld %ld %lld %ld %ld %ld\n", n1, n2, n3, t, t1, t2, t3);
        }
    }
    return 0;
}
