"""Shared generator/runner for the pipeline harness (harness/pipe.cpp) and its two drivers
(`pmdriver pipe` = replay on the executable models, `pmdriver numeric` = full-Fock-space property oracles)."""
import os
import struct
import tempfile
from concurrent.futures import ThreadPoolExecutor

import pmlib

# which command kinds a model/implementation MISMATCH belongs to
CMD_PROPS = {
    "site": ["C20"], "term": ["C20"], "preset": ["C20", "C04"], "tpreset": ["C20"], "getsite": ["C20"], "copy": ["C20"], "fork": ["C20"], "unfork": ["C20"],
    "dumplattice": ["C20", "C04"], "tpc": ["C13"], "index": ["C18"], "getindex": ["C18"], "getinfo": ["C18"],
    "ham": ["C04"], "hshift": ["C04", "C03", "C09"], "symm": ["C07"], "states": ["C07"], "blockof": ["C07", "C17"], "innerof": ["C07", "C17"], "fockof": ["C07", "C17"],
    "hprepare": ["C04", "C03"],
}


def hx(x):
    return "%016x" % struct.unpack("<Q", struct.pack("<d", float(x)))[0]


def val(x):
    if isinstance(x, complex):
        return "%s %s" % (hx(x.real), hx(x.imag))
    return "%s %s" % (hx(x), hx(0.0))


def lab(s):
    return "".join("%02x" % ord(c) for c in s) if s else "-"


# --------------------------------------------------------------------------
# model generation
# --------------------------------------------------------------------------

LABELS = ["A", "B", "C", "a", "0", "S1", "zz", "Ab", "x_1", " q", "S10", "S01", "A1"]


STREAMS_NOTE = ("Generator streams shared by all model-based campaigns: amplitudes dyadic (exact degeneracies), decimal, and weak "
                "(x 2^-10..2^-24); 6-operator terms; inverse temperatures 0.5..400 (C09: 1e-3..1e3); every 3rd case may carry a "
                "constant energy offset; optional power-of-two rescaling of the whole model; every 4th case of the near-degenerate "
                "stream lifts a degeneracy by 1e-10..1e-4; both matrix-element builds (real, complex) in both tiers; every 3rd case runs "
                "with OMP_NUM_THREADS=3; minimised past failures from corpus/<id>/ run first.")

SCALE = [1.0]      # overall (power-of-two) energy scale of the model being generated


def dyadic(r, lo=-4, hi=4):
    return r.range(lo * 8, hi * 8) / 8.0 * SCALE[0]


def nonzero_dyadic(r):
    v = 0.0
    while v == 0.0:
        v = dyadic(r, -2, 2)
    return v


class Model:
    def __init__(self):
        self.sites = []      # (label, norb, nspin)
        self.build = []      # script lines that build the lattice
        self.quadratic = True
        self.kinds = set()

    def modes(self):
        return sum(o * s for _, o, s in self.sites)

    def index_list(self, order_spins=False):
        """(label, orb, spin) in the library's index order (sites in byte order of the labels)"""
        ss = sorted(self.sites, key=lambda t: t[0])
        if not order_spins:
            return [(l, o, s) for l, no, ns in ss for o in range(no) for s in range(ns)]
        mx = max([ns for _, _, ns in ss] + [0])
        return [(l, o, z) for z in range(mx) for l, no, ns in ss if z < ns for o in range(no)]


def gen_sites(r, max_modes, spin_half=None, nsites=None):
    m = Model()
    n = nsites or r.choice([1, 1, 2, 2, 2, 3])
    labels = list(LABELS)
    r.shuffle(labels)
    left = max_modes
    for k in range(n):
        if left <= 0:
            break
        if spin_half or (spin_half is None and r.chance(3, 4)):
            ns = 2
        else:
            ns = r.choice([1, 1, 3, 2])
        no = r.choice([1, 1, 1, 2, 2, 3])
        while no * ns > left and no > 1:
            no -= 1
        if no * ns > left:
            ns = 1
            if no * ns > left:
                break
        m.sites.append((labels[k], no, ns))
        left -= no * ns
    if not m.sites:
        m.sites.append((labels[0], 1, 1))
    for l, no, ns in m.sites:
        m.build.append("site %s %d %d" % (lab(l), no, ns))
    return m


def rand_amp(r, cplx):
    kind = r.below(10)
    if kind < 6:
        v = nonzero_dyadic(r)
    elif kind < 8:
        v = (round((r.uniform() - 0.5) * 4, 6) or 0.37) * SCALE[0]
    else:
        v = r.choice([1.0, -1.0, 0.5, 2.0]) * SCALE[0]
    if r.chance(1, 8):
        # weak coupling next to O(1) scales: eigenvector components / residues of order 1e-3 ... 1e-7
        v *= 2.0 ** -r.choice([10, 14, 17, 24])
    if cplx and r.chance(1, 2):
        return complex(v, nonzero_dyadic(r) * (abs(v) if abs(v) < 1e-2 else 1.0))
    return v


def add_random_terms(r, m, cplx=False, allow=("hop", "level", "coulombS", "coulombP", "szsz", "ss", "magnetization",
                                               "user2", "user4", "pair", "spinflip_hop", "user6", "useralt", "dhop")):
    """append preset calls / user terms (with Hermitian conjugates) to the model"""
    sites = m.sites
    nops = r.range(1, 5) if not r.chance(1, 25) else 0      # now and then a lattice without any term (H = 0)
    for _ in range(nops):
        kind = r.choice(list(allow))
        a = r.choice(sites)
        b = r.choice(sites)
        if kind == "hop":
            form = r.choice(["hop4", "hop5", "hop7", "hop7"])
            t = rand_amp(r, cplx)
            if form == "hop4" and a[1] == b[1] and a[2] == b[2]:
                m.build.append("preset hop4 %s %s %s" % (lab(a[0]), lab(b[0]), val(t)))
            elif form == "hop5" and a[2] == b[2]:
                m.build.append("preset hop5 %s %s %s %d %d" % (lab(a[0]), lab(b[0]), val(t), r.below(a[1]), r.below(b[1])))
            else:
                m.build.append("preset hop7 %s %s %s %d %d %d %d" % (lab(a[0]), lab(b[0]), val(t), r.below(a[1]), r.below(b[1]),
                                                                      r.below(a[2]), r.below(b[2])))
            m.kinds.add("hop")
        elif kind == "level":
            m.build.append("preset level %s %s" % (lab(a[0]), val(dyadic(r))))
            m.kinds.add("level")
        elif kind == "coulombS":
            m.build.append("preset coulombS %s %s %s" % (lab(a[0]), val(nonzero_dyadic(r)), val(dyadic(r))))
            if a[2] >= 2:
                m.quadratic = False
            m.kinds.add("coulombS")
        elif kind == "coulombP" and a[1] >= 2 and a[2] >= 2:
            U, J = nonzero_dyadic(r), dyadic(r, -1, 1)
            if r.chance(1, 2):
                m.build.append("preset coulombP3 %s %s %s %s" % (lab(a[0]), val(U), val(J), val(dyadic(r))))
            else:
                m.build.append("preset coulombP %s %s %s %s %s" % (lab(a[0]), val(U), val(dyadic(r)), val(J), val(dyadic(r))))
            m.quadratic = False
            m.kinds.add("coulombP")
        elif kind in ("szsz", "ss") and a[2] == 2 and b[2] == 2 and a[1] == b[1]:
            m.build.append("preset %s %s %s %s" % (kind, lab(a[0]), lab(b[0]), val(nonzero_dyadic(r))))
            m.quadratic = False
            m.kinds.add(kind)
        elif kind == "magnetization" and a[2] == 2:
            m.build.append("preset magnetization %s %s" % (lab(a[0]), val(nonzero_dyadic(r))))
            m.kinds.add("magnetization")
        elif kind == "user2":
            t = rand_amp(r, cplx)
            f1 = (a[0], r.below(a[1]), r.below(a[2]))
            f2 = (b[0], r.below(b[1]), r.below(b[2]))
            add_user_term(m, t, [(1,) + f1, (0,) + f2])
            m.kinds.add("user2")
        elif kind == "spinflip_hop" and a[2] >= 2:
            # spin-flip hopping: breaks S_z
            t = rand_amp(r, cplx)
            add_user_term(m, t, [(1, a[0], r.below(a[1]), 0), (0, a[0], r.below(a[1]), 1)])
            m.kinds.add("spinflip_hop")
        elif kind == "pair" and m.modes() >= 2:
            # pairing term c+ c+ + h.c.: breaks N
            t = rand_amp(r, cplx)
            f1 = (a[0], r.below(a[1]), r.below(a[2]))
            f2 = (b[0], r.below(b[1]), r.below(b[2]))
            if f1 != f2:
                add_user_term(m, t, [(1,) + f1, (1,) + f2])
                m.kinds.add("pair")
        elif kind == "user6":
            # three-body terms: a product of number operators, or a generic 6-operator product (+ h.c.)
            t = rand_amp(r, cplx)
            modes = [(l, o, z) for l, no, ns in sites for o in range(no) for z in range(ns)]
            if r.chance(1, 2) and len(modes) >= 3:
                r.shuffle(modes)
                trio = modes[:3]
                add_user_term(m, t.real if isinstance(t, complex) else t,
                              [(1,) + f for f in trio] + [(0,) + f for f in reversed(trio)])
            else:
                fs = []
                for cre in (1, 1, 1, 0, 0, 0):
                    s = r.choice(sites)
                    fs.append((cre, s[0], r.below(s[1]), r.below(s[2])))
                add_user_term(m, t, fs)
            m.quadratic = False
            m.kinds.add("user6")
        elif kind == "useralt":
            # products that are NOT normal ordered and repeat operators with the conjugate in between:
            # c+_a c_a c+_a c_a (= n_a), c+_a c_b c+_b c_a, n_a n_b n_a (6 operators) -- all non-vanishing
            t = rand_amp(r, cplx)
            modes = [(l, o, z) for l, no, ns in sites for o in range(no) for z in range(ns)]
            r.shuffle(modes)
            a1 = modes[0]
            b1 = modes[1] if len(modes) > 1 else modes[0]
            form = r.below(3)
            if form == 0:
                fs = [(1,) + a1, (0,) + a1, (1,) + a1, (0,) + a1]
            elif form == 1:
                fs = [(1,) + a1, (0,) + b1, (1,) + b1, (0,) + a1]
            else:
                fs = [(1,) + a1, (0,) + a1, (1,) + b1, (0,) + b1, (1,) + a1, (0,) + a1]
            add_user_term(m, t.real if isinstance(t, complex) else t, fs)
            m.quadratic = False
            m.kinds.add("useralt")
        elif kind == "dhop":
            # density-assisted hopping next to plain hopping between the same two modes: TWO monomials of the Hamiltonian
            # connect the same pair of Fock states (t1 c+_a c_b + t2 c+_a c_b n_k)
            modes = [(l, o, z) for l, no, ns in sites for o in range(no) for z in range(ns)]
            if len(modes) >= 3:
                r.shuffle(modes)
                a1, b1, k1 = modes[:3]
                add_user_term(m, rand_amp(r, cplx), [(1,) + a1, (0,) + b1])
                add_user_term(m, rand_amp(r, cplx), [(1,) + a1, (0,) + b1, (1,) + k1, (0,) + k1])
                m.quadratic = False
                m.kinds.add("dhop")
        elif kind == "user4":
            t = rand_amp(r, cplx)
            fs = []
            for cre in (1, 1, 0, 0):
                s = r.choice(sites)
                fs.append((cre, s[0], r.below(s[1]), r.below(s[2])))
            add_user_term(m, t, fs)
            m.quadratic = False
            m.kinds.add("user4")
    return m


def add_user_term(m, t, factors):
    """term + its Hermitian conjugate (reverse order, flipped daggers, conjugated amplitude)"""
    def line(v, fs):
        return "term %s %d %s" % (val(v), len(fs), " ".join("%d %s %d %d" % (c, lab(l), o, s) for c, l, o, s in fs))
    hc = [(1 - c, l, o, s) for c, l, o, s in reversed(factors)]
    tc = t.conjugate() if isinstance(t, complex) else t
    if hc != list(factors):
        m.build.append(line(t, factors))
        m.build.append(line(tc, hc))
    else:     # self-adjoint product: the amplitude must be real
        m.build.append(line(t.real if isinstance(t, complex) else t, factors))


def gen_model(r, max_modes=4, cplx=False, scale=1.0, **kw):
    m = gen_sites(r, max_modes, **{k: v for k, v in kw.items() if k in ("spin_half", "nsites")})
    SCALE[0] = scale
    try:
        add_random_terms(r, m, cplx, **{k: v for k, v in kw.items() if k in ("allow",)})
    finally:
        SCALE[0] = 1.0
    if scale != 1.0:
        m.kinds.add("scaled_%g" % scale)
    if cplx and m.modes() >= 2:
        # the complex build is only interesting with genuinely complex matrix elements: make sure that at least one
        # hopping-like term between two different modes carries a phase
        modes = [(l, o, z) for l, no, ns in m.sites for o in range(no) for z in range(ns)]
        r.shuffle(modes)
        t = complex(nonzero_dyadic(r), nonzero_dyadic(r))
        add_user_term(m, t, [(1,) + modes[0], (0,) + modes[1]])
        m.kinds.add("complex_hop")
    return m


def custom_integrals(r, m):
    """candidate integrals of motion as polynomial text for `symm custom` (some valid, some not)"""
    M = m.modes()
    polys = []
    idx = m.index_list()
    # total N
    if r.chance(2, 3):
        polys.append("%d %s" % (M, " ".join("%s 2 0 %d 1 %d" % (val(1.0), i, i) for i in range(M))))
    # per-site charge
    if r.chance(1, 2) and len(m.sites) > 1:
        l0 = r.choice(m.sites)[0]
        ii = [i for i, (l, o, s) in enumerate(idx) if l == l0]
        polys.append("%d %s" % (len(ii), " ".join("%s 2 0 %d 1 %d" % (val(1.0), i, i) for i in ii)))
    # weighted linear combination (also with weights that are not multiples of 1/2)
    if r.chance(1, 2):
        polys.append("%d %s" % (M, " ".join("%s 2 0 %d 1 %d" % (val(r.choice([1.0, 2.0, -1.0, 0.5, 0.25, 0.75, 0.125])), i, i)
                                            for i in range(M))))
    # site-weighted charge sum_s x_s N_s with quarter-step weights (conserved whenever no term moves particles between sites)
    if r.chance(1, 2) and len(m.sites) > 1:
        ws = {l: r.choice([0.0, 0.25, 0.5, 0.75, 1.0, 1.25]) for l, _, _ in m.sites}
        polys.append("%d %s" % (M, " ".join("%s 2 0 %d 1 %d" % (val(ws[l]), i, i) for i, (l, o, s) in enumerate(idx))))
    # non-linear diagonal: product of k number operators, k = 2..4 (must be rejected since the fix)
    if r.chance(1, 2) and M >= 2:
        k = min(M, r.choice([2, 2, 3, 3, 4]))
        modes = list(range(M))
        r.shuffle(modes)
        mm = sorted(modes[:k])
        polys.append("1 %s %d %s %s" % (val(1.0), 2 * k, " ".join("0 %d" % i for i in mm), " ".join("1 %d" % i for i in reversed(mm))))
    if r.chance(1, 3) and M >= 2:
        polys.append("2 %s 2 0 0 1 1 %s 2 0 1 1 0" % (val(1.0), val(1.0)))
    if not polys:
        polys.append("%d %s" % (M, " ".join("%s 2 0 %d 1 %d" % (val(1.0), i, i) for i in range(M))))
    r.shuffle(polys)        # a rejected candidate may come BEFORE an accepted one
    return "symm custom %d %s" % (len(polys), " ".join(polys))


def core_script(m, order=0, symm="default", dump=True, shift=None, early=False, stress=False, forked=False):
    lines = list(m.build)
    if forked:
        # a copy of the finished lattice receives some of the terms once more (like terms) and is then put aside: the original
        # must still define the model that was built
        again = [l for l in m.build if l.split()[0] in ("term", "preset")]
        lines += ["dumplattice", "fork"] + again[:3] + again[-1:] + ["unfork"]
    if stress:
        lines.insert(0, "stress")     # every prepare()/compute() twice, copies, re-evaluation (see harness/pipe.cpp)
    if dump:
        lines.append("dumplattice")
    if early:
        # declare IndexClassification right after the FIRST site exists (it keeps a reference to the site map, the other sites
        # and all terms are added afterwards); IndexHamiltonian / Symmetrizer are declared before any prepare()
        first = next((k for k, l in enumerate(lines) if l.startswith("site ")), len(lines) - 1)
        lines.insert(first + 1, "earlyctor")
    lines += ["index %d" % order, "ham"]
    if shift is not None:
        lines.append("hshift %s" % val(shift))      # constant energy offset
    lines += [symm if symm.startswith("symm") else "symm " + symm, "states", "hprepare", "hcompute"]
    return lines


def longs(xs):
    return "%d %s" % (len(xs), " ".join(str(x) for x in xs)) if xs else "0"


def doubles(xs):
    return "%d %s" % (len(xs), " ".join(hx(x) for x in xs)) if xs else "0"


def observables_script(r, m, beta, M, want=("gf", "chi", "susc", "vertex"), ngf=6, nchi=2, nsusc=2, ntriples=3):
    lines = ["dm %s" % hx(beta), "fops"]
    if M >= 1:
        lines.append("fop1 cdag %d" % r.below(M))
        lines.append("fop1 c %d" % r.below(M))
        lines.append("fop1 quad %d %d" % (r.below(M), r.below(M)))
    ns = [0, -1, 1, r.range(-9, 9), r.choice([50, -37, 1000, 2 ** 31 + 5, -(2 ** 33) - 7])]      # incl. beyond the int range
    if "gf" in want:
        pairs = [(i, j) for i in range(M) for j in range(M)]
        r.shuffle(pairs)
        for i, j in pairs[:ngf]:
            z = [round(r.uniform() * 4 - 2, 3), round(r.uniform() * 3 + 0.2, 3) * r.choice([1, -1])]
            lines.append("gf %d %d %s %s %s" % (i, j, longs(ns), doubles(z + [z[0], -z[1]]), doubles([0.0, beta * 0.25, beta * 0.5, beta])))
            if i != j and r.chance(1, 2):
                lines.append("gf %d %d %s %s %s" % (j, i, longs(ns[:2]), doubles([z[0], -z[1]] + z), doubles([0.0, beta])))
    if "chi" in want and M >= 1:
        for _ in range(nchi):
            q = [r.below(M) for _ in range(4)]
            if r.chance(1, 2):
                q[2:] = [q[1], q[0]] if r.chance(1, 2) else [q[0], q[1]]
            trs = [(0, 0, 0), (r.range(-3, 3), r.range(-3, 3), r.range(-3, 3))]
            n1 = r.range(-3, 3)
            trs.append((n1, -n1 - 1, r.range(-3, 3)))          # w1 + w2 = 0
            n2 = r.range(-3, 3)
            trs.append((n1, n2, n2) if r.chance(1, 2) else (n1, n2, n1))
            trs = trs[:ntriples]
            lines.append("chi %d %d %d %d %d %d %s" % (q[0], q[1], q[2], q[3], r.below(2), len(trs),
                                                       " ".join("%d %d %d" % t for t in trs)))
    if "susc" in want and M >= 1:
        for _ in range(nsusc):
            a, b, c, d = (r.below(M) for _ in range(4))
            k = r.below(4)
            if k < 2:
                b, d = a, c          # density-density (block preserving)
            elif k == 2:
                c, d = b, a          # B = A^+ (spin-flip / hopping pair: block changing, non-vanishing)
            lines.append("susc %d %d %d %d %s %s" % (a, b, c, d, longs([0, 1, -1, r.range(2, 7)]), doubles([0.0, beta * 0.3, beta])))
    if "vertex" in want and M >= 1:
        q = [r.below(M) for _ in range(4)]
        if r.chance(2, 3):
            q[2:] = [q[1], q[0]] if r.chance(1, 2) else [q[0], q[1]]
        N = r.range(0, 3)
        trs = [(0, 0, 0), (r.range(-4, 4), r.range(-4, 4), r.range(-4, 4)), (1, 2, 1), (2, 1, 1), (N, -N, 0), (-N - 1, N, N)]
        lines.append("vertex %d %d %d %d %d %d %s" % (q[0], q[1], q[2], q[3], N, len(trs), " ".join("%d %d %d" % t for t in trs)))
    return lines


# --------------------------------------------------------------------------
# running
# --------------------------------------------------------------------------

class CaseResult:
    def __init__(self, script, variant):
        self.script = script
        self.variant = variant
        self.rc = None
        self.err = ""
        self.case = ""
        self.pipe_out = ""
        self.num_out = ""

    def sanitizer(self):
        return pmlib.sanitizer_report(self.err)

    def aborted(self):
        return self.rc != 0 or not self.case.rstrip().endswith("end")


def run_case(exe, script, variant="real", numeric=True, timeout=600, np=None, threads=1):
    res = CaseResult(script, variant)
    res.threads = threads
    with tempfile.TemporaryDirectory(prefix="pmcase") as d:
        sp = os.path.join(d, "script.txt")
        cp = os.path.join(d, "case.txt")
        with open(sp, "w") as f:
            f.write("\n".join(script) + "\n")
        res.rc, _, res.err = pmlib.run_harness(exe, [sp, cp], timeout=timeout, mpi_np=np, threads=threads)
        cp0 = cp if os.path.exists(cp) else cp + ".0"
        if os.path.exists(cp0):
            with open(cp0) as f:
                res.case = f.read()
        res.ranks = {}
        if np:
            for k in range(np):
                pk = cp + ".%d" % k
                if os.path.exists(pk):
                    with open(pk) as f:
                        res.ranks[k] = f.read()
    if res.case:
        _, res.pipe_out = pmlib.run_driver("pipe", res.case, timeout=timeout)
        if numeric:
            _, res.num_out = pmlib.run_driver("numeric", res.case, timeout=timeout)
    return res


def run_batch(scripts, variant="real", numeric=True, workers=None):
    """every third case runs with OMP_NUM_THREADS=3 (the library's results must not depend on the number of OpenMP
    threads; the thread count is part of the replay record)"""
    exe = pmlib.build_harness("pipe", variant)
    with ThreadPoolExecutor(workers or max(2, pmlib.NCPU - 2)) as ex:
        return list(ex.map(lambda t: run_case(exe, t[1], variant, numeric, threads=3 if t[0] % 3 == 2 else 1),
                           list(enumerate(scripts))))


def collect(ctx, results, props, harness="pipe"):
    """Turn driver output into ctx.problems for the properties in `props`."""
    for res in results:
        ctx.evaluations += 1
        rep = dict(harness=harness, variant=res.variant, script=res.script, threads=getattr(res, "threads", 1))
        san = res.sanitizer()
        if res.aborted():
            last = [l for l in res.case.splitlines() if l.startswith("c ")]
            where = last[-1][2:] if last else "?"
            # a crash that the model predicts (agreed UB) is still a violation of C17 / of the property concerned
            ctx.problem("sanitizer" if res.rc != -999 else "hang",
                        "harness aborted at command '%s': %s" % (where[:120], san or ("timeout" if res.rc == -999 else "exit %s" % res.rc)),
                        log=res.err[-2500:], signature="abort:" + where.split()[0] + ":" + (san or "")[:40], **rep)
            continue
        if san and "C17" in props:
            ctx.problem("sanitizer", "sanitizer report: " + san, log=res.err[-2500:], signature="san:" + san[:50], **rep)
        for l in res.pipe_out.splitlines():
            if l.startswith("MISMATCH"):
                cmd = l.split()[2] if len(l.split()) > 2 else "?"
                if set(CMD_PROPS.get(cmd, [])) & set(props):
                    ctx.problem("mismatch", l[:600], **rep)
            elif l.startswith("PROPFAIL["):
                tag = l[9:12]
                if tag in props:
                    ctx.problem("propfail", l[:600], signature=tag + ":" + " ".join(l.split()[2:5]), **rep)
            elif l.startswith("SUMMARY"):
                for kv in l.split()[1:]:
                    k, _, v = kv.partition("=")
                    if v.isdigit():
                        ctx.count("replay_" + k, int(v))
        for l in res.num_out.splitlines():
            if l.startswith("PROPFAIL["):
                tag = l[9:12]
                if tag in props:
                    ctx.problem("propfail", l[:600], signature=tag + ":" + " ".join(l.split()[1:4]), **rep)
            elif l.startswith("MODELDIFF["):
                tag = l[10:13]
                if tag in props:
                    ctx.problem("mismatch", l[:600], **rep)
            elif l.startswith("NUMSUMMARY"):
                for kv in l.split()[1:]:
                    k, _, v = kv.partition("=")
                    if v.isdigit():
                        ctx.count("oracle_" + k, int(v))
        if "SUMMARY" not in res.pipe_out:
            ctx.problem("build", "replay driver produced no summary", log=res.pipe_out[-1500:], **rep)


def replay(ctx, rp):
    exe = pmlib.build_harness(rp.get("harness", "pipe"), rp.get("variant", "real"))
    res = run_case(exe, rp["script"], rp.get("variant", "real"), threads=rp.get("threads", 1))
    print(res.case[-3000:])
    print(res.err[-1500:])
    print(res.pipe_out)
    print(res.num_out)
    bad = res.aborted() or "MISMATCH" in res.pipe_out or "PROPFAIL" in res.num_out
    return 1 if bad else 0


# --------------------------------------------------------------------------
# standard numeric campaign used by the per-property modules
# --------------------------------------------------------------------------

def run_corpus(ctx, pid, props):
    """minimised past failures / targeted regression inputs first (corpus/<property>/*.txt)"""
    cdir = os.path.join(pmlib.VERIF, "corpus", pid)
    if not os.path.isdir(cdir):
        return
    names = sorted(os.listdir(cdir))
    cs = []
    for fn in names:
        with open(os.path.join(cdir, fn)) as f:
            cs.append([l.rstrip("\n") for l in f if l.strip() and not l.startswith("#")])
    # the reproduction of finding F16 (two-particle terms on near-degenerate spectra) is shared by the properties that
    # read two-particle values: there its C02-tagged oracle line identifies the listed finding
    f16 = [c for fn, c in zip(names, cs) if fn.startswith("F16")]
    rest = [c for fn, c in zip(names, cs) if not fn.startswith("F16")]
    if rest:
        collect(ctx, run_batch(rest, "real"), props)
    if f16:
        collect(ctx, run_batch(f16, "real"), list(props) + (["C02"] if "C02" not in props else []))
    ctx.count("corpus_cases", len(cs))


def numeric_campaign(ctx, props, want, n_quick, n_thorough, max_modes_quick=4, max_modes_thorough=5, trunc=False,
                     symm_modes=("default", "default", "ignore", "custom"), allow=None, betas=(0.01, 0.5, 1.0, 2.0, 5.0, 10.0, 30.0, 100.0, 400.0),
                     variants_thorough=("real", "complex"), nontrivial=None, extra=None, ngf=6, nchi=2, nsusc=2, near=0, shifts=(5.0, -3.0, 0.625, 40.0), scales=None):
    r = ctx.rng
    thorough = ctx.tier == "thorough"
    n = n_thorough if thorough else n_quick
    variants = variants_thorough       # both builds in both tiers (the complex build gets a share of the cases)
    run_corpus(ctx, props[0], props)
    for variant in variants:
        scripts, metas = [], []
        for k in range(n if variant == "real" else max(6, n // 3)):
            mm = r.choice(list(range(2, (max_modes_thorough if thorough else max_modes_quick) + 1)))
            kw = {}
            if allow:
                kw["allow"] = allow
            if scales:
                kw["scale"] = r.choice(list(scales))
            m = gen_model(r, max_modes=mm, cplx=(variant == "complex"), **kw)
            M = m.modes()
            symm = r.choice(list(symm_modes))
            symm_line = custom_integrals(r, m) if symm == "custom" else symm
            beta = r.choice(list(betas))
            order = r.below(2)
            shift = r.choice(list(shifts)) if shifts and r.chance(1, 3) else None
            stress = r.chance(1, 3)
            forked = r.chance(1, 6)
            if forked:
                m.kinds.add("forked_lattice")
            s = core_script(m, order=order, symm=symm_line, shift=shift, stress=stress, early=r.chance(1, 6), forked=forked)
            if stress:
                m.kinds.add("stress_mode")
            if shift is not None:
                m.kinds.add("energy_offset")
            if r.chance(1, 4):
                # a temperature scan in one process: the same objects' classes are first used at ANOTHER temperature
                # (nothing that depends on beta may be remembered across objects)
                beta0 = r.choice([b for b in betas if b != beta] or [beta * 2.0])
                warm = observables_script(r, m, beta0, M, want=want, ngf=2, nchi=1, nsusc=1, ntriples=2)
                s += warm
                m.kinds.add("two_temperatures")
            main_obs = observables_script(r, m, beta, M, want=want, ngf=ngf, nchi=(nchi if M <= 3 else 1), nsusc=nsusc,
                                          ntriples=(4 if M <= 3 else 2))
            s += main_obs
            if trunc:
                eps = r.choice([0.0, 1e-12, 1e-6, 1e-3, 1e-2, 0.2])
                # re-evaluated after the truncation: observables of the CURRENT temperature only
                obs6 = []
                for kind_, cnt in (("gf", 2), ("chi", 2), ("susc", 3)):
                    obs6 += [l for l in main_obs if l.split()[0] == kind_][:cnt]
                s.append("trunc %s" % hx(eps))
                s += obs6
                if r.chance(1, 2):
                    # truncate the same density matrix again with another tolerance (smaller or larger, also back to 0)
                    eps2 = r.choice([0.0, 0.0, 1e-12, 1e-6, 1e-3, 0.2])
                    s.append("trunc %s" % hx(eps2))
                    s += obs6
            if extra:
                s = extra(r, m, s)
            if near and k % near == near - 1:
                # near-degenerate stream: lift an exact degeneracy by a tiny level shift on one site
                dl = r.choice([1e-10, 1e-9, 3e-9, 3e-8, 1e-7, 1e-6, 1e-5, 1e-4])
                site = r.choice(m.sites)
                at = s.index("dumplattice") if "dumplattice" in s else len(m.build)
                s = s[:at] + ["preset level %s %s" % (lab(site[0]), val(dl * r.choice([1, -1])))] + s[at:]
                m.kinds.add("near_degenerate")
            scripts.append(s)
            metas.append(dict(modes=M, sites=len(m.sites), symm=symm, beta=beta, order=order, kinds=sorted(m.kinds),
                              quadratic=m.quadratic, variant=variant))
        results = run_batch(scripts, variant)
        collect(ctx, results, props)
        for meta, s in zip(metas, scripts):
            ctx.count("symm_" + meta["symm"])
            ctx.count("modes_%d" % meta["modes"])
            ctx.count("build_" + meta["variant"])
            for kd in meta["kinds"]:
                ctx.count("term_" + kd)
            if nontrivial is None or nontrivial(meta, s):
                ctx.distinct.add((meta["variant"], tuple(s)))
            if len(ctx.samples) < 4:
                ctx.samples.append(dict(meta=meta, script=s[:14]))
