#!/bin/bash
# usage: muttest.sh <sed-expr> <file> [script]
git -C /repo worktree remove --force /tmp/wtm 2>/dev/null
git -C /repo worktree add -f /tmp/wtm HEAD -q
cd /tmp/wtm && sed -i "$1" "$2" && git diff --stat | tail -1
cd /verif && VERIF_REPO=/tmp/wtm python3 - "${3:-/tmp/s2.txt}" <<'PY'
import sys; sys.path.insert(0,'/verif/tools')
import pmlib
exe=pmlib.build_harness('pipe')
rc,out,err=pmlib.run_harness(exe,[sys.argv[1],'/tmp/cm.txt'])
print('harness rc',rc, pmlib.sanitizer_report(err))
txt=open('/tmp/cm.txt').read()
rc2,dout=pmlib.run_driver('pipe',txt); print("\n".join(l[:300] for l in dout.splitlines()[-4:]))
rc2,dout=pmlib.run_driver('numeric',txt); print("\n".join(l[:300] for l in dout.splitlines()[:6]+dout.splitlines()[-1:]))
PY
git -C /repo worktree remove --force /tmp/wtm
