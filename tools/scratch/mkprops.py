import textwrap
COMMON_TRUSTED = '''TRUSTED = ["harness/pipe.cpp drives the real classes along the documented workflow; case-file protocol with hex doubles",
           "numeric oracle (lean/Driver/Numeric*.lean): IEEE double arithmetic of compiled Lean, full-Fock-space sums",
           "Eigen's SelfAdjointEigenSolver is not verified: its output is certified on every case (residual, orthonormality)"]
'''
mods = {}
mods["C01"] = dict(
 title="single-particle Matsubara Green's function equals its definition",
 modules=["PomerolModel.Properties.C01"], gen=["gf"],
 theorems=["gf_equals_definition","lehmann_any_basis","terms_sum_to_lehmann","dropped_terms_budget","container_equals_standalone"],
 want='("gf",)', n=(30,400), props='["C01"]', trunc=False,
 rule="a case = random lattice model (1-3 sites, presets and user terms incl. N- or S_z-breaking ones), symmetry mode, beta, all/sampled (i,j) incl. off-diagonal, Matsubara numbers incl. negative and large; value compared with the full-Fock-space Lehmann sum from the certified eigen-system; non-trivial = distinct case with at least two modes",
 level="Proof: lehmann_single (Gdef = Lehmann sum for every spectrum, beta, pair of matrices, Matsubara number; definition with matrix exponentials, any unitary basis via corr_conj) composed with gf_sum/gf_matsubara (the Residue/Pole/term formulas extracted from GreensFunctionPart.cpp sum to that Lehmann sum), plus the term-list bookkeeping theorem (kept + dropped = all, each dropped residue below the extracted tolerance). Tie: every G value of the real library (stand-alone and container) is compared with the full-space Lehmann sum computed from the certified eigen-system within the dropped-residue budget.",
 note="Trusted: Lean kernel + Mathlib; translator anchors; Eigen's eigensolver (certified per case); block-pair selection and sparse merge walk tied by differential comparison only; IEEE rounding not modelled.",
 technique="Lean 4/Mathlib proof of the Lehmann representation over translator-regenerated formulas + full-Fock-space differential oracle")
mods["C11"] = dict(
 title="Green's function symmetry, sum rules, tau/frequency duality",
 modules=["PomerolModel.Properties.C11"], gen=["gf"],
 theorems=["conj_symmetry","residue_sum_rule","high_frequency_tail","imaginary_part_negative","tau_is_minus_correlator","tau_nonpositive","tau_jump","tau_beta_is_density","tau_frequency_duality","tau_branches_agree"],
 want='("gf",)', n=(30,400), props='["C11"]', trunc=False,
 rule="as C01, with complex z off the axis in conjugate pairs and mirrored components, tau grid incl. both ends; implementation values are checked against the Lehmann sum, against -<c(tau)c+>, and directly for Im G_ii<0, G_ii(tau)<=0, the jump and G_ii(beta-)=-<n_i>; non-trivial = distinct case with at least two modes",
 level="Proof: on the Lehmann form (Spec/GFProps): conj symmetry, sum of residues = Tr rho{c,c+} = delta_ij, z G(z) -> delta_ij at infinity, Im G_ii(i w)<0 for w>0, G(tau) = -<c(tau)c+>, G_ii(tau)<=0, G(0)+G(beta) = -delta_ij, G(beta) = -<c+c>, and the forward transform of the tau-formula (both overflow-safe branches, extracted from the source and proved equal) is the frequency value for every Matsubara number. Tie: translator-regenerated tau and frequency formulas; differential oracle on complex z, tau grid and end points.",
 note="Trusted: as C01. The duality is proved in the direction tau -> frequency (forward transform); the conditionally convergent inverse series is not formalised.",
 technique="Lean 4/Mathlib proofs on the Lehmann form + differential oracle")
mods["C09"] = dict(
 title="density matrix is the normalised Gibbs state; averages are traces",
 modules=["PomerolModel.Properties.C09"], gen=["dm"],
 theorems=["weights_normalised","weights_positive","weight_ratio","shift_invariance","no_overflow","average_energy_is_trace","diagonal_average_is_trace","operator_average_is_trace"],
 want='("susc",)', n=(40,500), props='["C09"]', trunc=False, betas="(1e-3, 0.1, 1.0, 10.0, 100.0, 1000.0)",
 rule="a case = random model, beta from 1e-3 to 1e3, optional large energy offset through level terms; weights, <H>, <N>, <n_i>, <n_i n_j>, <c+_i c_j> compared with traces over the full Fock space; non-trivial = distinct case",
 level="Proof: for the weight formula extracted from DensityMatrixPart.cpp (dm_weight): normalised weights are the Gibbs weights independently of the reference energy, are positive, sum to one, have ratio exp(-beta(Ea-Eb)); with the ground energy as reference every exponent is <= 0, so unnormalised weights lie in (0,1] and 1 <= Z <= dim (no overflow in exact arithmetic); the library's sums over eigenvector components are Tr(rho O) for Fock-diagonal O, Tr(rho H) and Tr(rho A). Tie: all weights and averages of the real library against full-space traces.",
 note="Trusted: as C01; Float overflow/underflow behaviour is observed (beta up to 1e3), not proved.",
 technique="Lean 4/Mathlib proofs over the extracted weight formula + differential oracle")
mods["C14"] = dict(
 title="dynamical susceptibility equals its definition incl. the static limit",
 modules=["PomerolModel.Properties.C14"], gen=["susc"],
 theorems=["susceptibility_equals_definition","static_limit","tau_is_correlator","tau_frequency_consistent","disconnected_part"],
 want='("susc",)', n=(30,400), props='["C14"]', trunc=False,
 rule="a case = random model (many with exact degeneracies), all (a,b,c,d) sampled incl. S_z-changing ones, bosonic n in {0,+-1,..}, three ways of supplying the averages, tau grid; compared with the full-space bosonic Lehmann sum; cases whose level splittings fall into the ambiguous window [1e-12,1e-5] are counted and skipped; non-trivial = distinct case with a degenerate pair of levels contributing at n=0 or at least two modes",
 level="Proof: lehmann_susc (definition = bosonic Lehmann sum with the beta-proportional zero-pole term at W=0, every spectrum, every n in Z) composed with susc_sum (formulas extracted from SusceptibilityPart.cpp/.h, exact degeneracy test), tau-form = correlator, forward transform, disconnected part = transform of the constant. Tie: differential oracle incl. n=0, negatives and the three subtraction paths.",
 note="Trusted: as C01. The 1e-8 degeneracy/residue tolerances are idealised to exact tests in the theorems; the oracle allows dropped residues only up to numerical precision.",
 technique="Lean 4/Mathlib proof of the bosonic Lehmann representation over extracted formulas + differential oracle")
mods["C02"] = dict(
 title="two-particle Green's function equals its definition on both evaluation paths",
 modules=["PomerolModel.Properties.C02"], gen=["chi4"],
 theorems=["multiterm_is_simplex_integral","ordered_simplex","chi_equals_definition","extracted_multiterm","permutation_table","exchange_first_pair"],
 want='("chi",)', n=(24,250), props='["C02"]', trunc=False, mm=(3,4),
 rule="a case = random model with <=3 (thorough <=4) modes, random and resonant quadruples/triples (n1+n2=-1, n2=n3, n1=n3), purge on/off; chi from the terms, the returned table and evaluation after the table are compared with the signed six-ordering full-space sum of the multi-term; ambiguous resonance decisions are counted and skipped; non-trivial = distinct case with a non-vanishing chi",
 level="Proof: simplex_closed_form (the nested time-ordered integral of one world line equals the Hafermann multi-term in all four resonance classes) -> ordered_lehmann -> chi_lehmann (the signed sum over the six orderings of the definition equals the six-ordering Lehmann sum for every spectrum and every fermionic triple), composed with chi4_multiterm/chi4_perms (coefficients, term evaluation, frequency permutation {z1,z2,-z3}[perm] and sign table extracted from the source). Tie: differential oracle on both evaluation paths.",
 note="Trusted: as C01; time ordering formalised as the signed sum over the six ordered simplices; term merging with pole averaging and the 1e-8 resonance window are idealised (exact) in the theorems; world-stripe enumeration tied by differential comparison only.",
 technique="Lean 4/Mathlib proof (nested FTC + algebra) over extracted multi-term formulas + differential oracle")
mods["C03"] = dict(
 title="block-wise diagonalisation reproduces the full eigen-system",
 modules=["PomerolModel.Properties.C03"], gen=["coreflags"],
 theorems=["assembled_unitary","assembled_diagonalises","eigenvectors","orthonormal","spectrum_with_multiplicities","fock_spectrum","one_by_one_block","no_interblock_iff_block_diagonal"],
 want='()', n=(60,800), props='["C03"]', trunc=False,
 rule="a case = random model under default/ignored/custom symmetries; every block matrix is compared exactly with the model, the reported (E,U) of all blocks are assembled and certified against the full Jordan-Wigner Hamiltonian (residual, orthonormality, ascending order), ground energy, concatenation and per-state lookups checked; non-trivial = distinct case with at least two blocks or a block of dimension > 1",
 level="Proof: if the partition is sound (C07) and every block satisfies the solver post-condition (U_b unitary, H_b U_b = U_b diag E_b) then the assembled matrix is unitary, diagonalises the full H, its columns are orthonormal eigenvectors, and charpoly(H) = prod (X - E_k): the multiset of block eigenvalues is the spectrum with multiplicities (also through the (block,position) re-indexing of Fock states); the 1x1 special case satisfies the post-condition. Tie: block matrices exact vs model; solver output certified per case.",
 note="Trusted: Eigen's solver is an oracle parameter whose post-condition is checked numerically per case (residual 1e-9 scale), not proved.",
 technique="Lean 4/Mathlib proof (block-diagonal similarity, characteristic polynomial) + per-case eigen-system certificate")
mods["C10"] = dict(
 title="eigenbasis field operators are the rotated operators and obey the CAR",
 modules=["PomerolModel.Properties.C10"], gen=["coreflags"],
 theorems=["left_right_is_rotation","rotation_preserves_car","stored_annihilator_is_adjoint","rotate_back"],
 want='("gf",)', n=(30,300), props='["C10"]', trunc=False,
 rule="a case = random model and partition; every stored part of c+_i, c_i (container and singly computed) and c+_i c_j is compared elementwise with U_l^+ O U_r from the dumped eigenvectors, row/column-major views must agree, assembled operators must satisfy the CAR and c = (c+)^+; non-trivial = distinct case",
 level="Proof: the LeftMat*RightMat product of FieldOperatorPart::compute equals U_to^+ O U_from for every operator with at most one signed non-zero per column; rotation by a unitary preserves the CAR (which hold for the model's Jordan-Wigner action, C05); the adjoint of the rotated creator is the rotated annihilator; rotating back recovers the Fock matrix. Tie: elementwise comparison of all stored parts, numeric CAR on the assembled operators.",
 note="Trusted: Eigen sparse storage/pruning; the container shortcut (adjoint copy) tied by differential comparison.",
 technique="Lean 4/Mathlib matrix identities + elementwise differential oracle")
mods["C19"] = dict(
 title="block truncation removes only contributions below tolerance",
 modules=["PomerolModel.Properties.C19"], gen=["dm"],
 theorems=["retain_rule","nothing_discarded_at_zero","green_function_bound","average_bound","row_norm_bound"],
 want='("gf","susc","chi")', n=(30,300), props='["C19"]', trunc=True, betas="(1.0, 5.0, 20.0, 60.0)",
 rule="a case = random model, beta up to 60, eps in {0,1e-12,1e-6,1e-3,1e-2,0.2}; retained flags vs weights; G, chi_AB, chi4 and averages recomputed after truncation and compared with the untruncated values against the proven bounds; non-trivial = distinct case in which at least one block is discarded",
 level="Proof: a block is retained iff one of its weights exceeds eps (extracted test), eps=0 discards nothing (weights > 0), rows of an operator obeying the CAR have norm <= 1, hence the Lehmann terms skipped when both blocks are discarded change G by at most 2 eps dim/|Im z| and averages by eps dim M. Tie: retained flags exact; observable differences against the bounds.",
 note="Trusted: as C01. The bounds for chi_AB and chi4 are checked numerically (analogous argument), only G and averages are theorems.",
 technique="Lean 4/Mathlib norm bounds + before/after differential comparison")
for pid, d in mods.items():
    n_q, n_t = d["n"]
    mmq, mmt = d.get("mm", (4, 5))
    src = f'''"""{pid} -- {d["title"]}."""
import pipeline

LEAN_MODULES = {d["modules"]!r}
GENERATED = {d["gen"]!r}
THEOREMS = ["Pomerol.Properties.{pid}." + t for t in {d["theorems"]!r}]
RULE = {d["rule"]!r}
{COMMON_TRUSTED}ASSUMPTIONS = ["exact real/complex arithmetic in the theorems; tolerance tests idealised unless stated",
               "numerical comparison tolerance: proven budget + 1e-9 relative rounding slack"]
LEVEL_TEXT = {d["level"]!r}
LEVEL_NOTE = {d["note"]!r}
TECHNIQUE = {d["technique"]!r}
DESIGN_REF = "DESIGN.md section 6, {pid}"


def correspondence(ctx):
    pipeline.numeric_campaign(ctx, {d["props"]}, {d["want"]}, {n_q}, {n_t}, max_modes_quick={mmq}, max_modes_thorough={mmt},
                              trunc={d["trunc"]}{", betas=" + d["betas"] if "betas" in d else ""},
                              nontrivial=lambda meta, s: meta["modes"] >= 2)


def replay(ctx, rp):
    return pipeline.replay(ctx, rp)
'''
    open(f"/verif/tools/props/{pid}.py", "w").write(src)
print("written", list(mods))
