import numpy as np, cmath
from scipy import integrate
rng=np.random.default_rng(1)
def nested(a1,a2,a3,beta):
    # closed form of inner two levels, numeric outer
    def mid(t1):
        def inner(t2):
            return (cmath.exp(a3*t2)-1)/a3 if abs(a3)>1e-12 else t2
        f=lambda t2: cmath.exp(a2*t2)*inner(t2)
        re=integrate.quad(lambda t:f(t).real,0,t1,epsabs=1e-13,epsrel=1e-13)[0]
        im=integrate.quad(lambda t:f(t).imag,0,t1,epsabs=1e-13,epsrel=1e-13)[0]
        return re+1j*im
    g=lambda t1: cmath.exp(a1*t1)*mid(t1)
    re=integrate.quad(lambda t:g(t).real,0,beta,epsabs=1e-12,epsrel=1e-12)[0]
    im=integrate.quad(lambda t:g(t).imag,0,beta,epsabs=1e-12,epsrel=1e-12)[0]
    return re+1j*im
def code(z1,z2,z3,E,beta,W,tol=1e-8):
    Ei,Ej,Ek,El=E; Wi,Wj,Wk,Wl=W
    P1=Ej-Ei;P2=Ek-Ej;P3=El-Ek
    r=-(Wj+Wk)/((z1-P1)*(z2-P2)*(z3-P3))
    r+=(Wi+Wl)/((z1-P1)*(z1+z2+z3-P1-P2-P3)*(z3-P3))
    D=z1+z2-P1-P2
    r+=(beta*Wi if abs(D)<tol else (Wk-Wi)/D)/((z1-P1)*(z3-P3))
    D=z2+z3-P2-P3
    r+=(-beta*Wj if abs(D)<tol else (Wj-Wl)/D)/((z1-P1)*(z3-P3))
    return r
beta=1.7
for case in range(4):
    E=list(rng.normal(size=4))
    n=[int(x) for x in rng.integers(-3,3,size=3)]
    if case in (1,3): E[2]=E[0]; n[1]=-n[0]-1   # z1+z2=0 bosonic & P1+P2=0
    if case in (2,3): E[3]=E[1]; n[2]=-n[1]-1
    z=[1j*(2*k+1)*np.pi/beta for k in n]
    Z=sum(np.exp(-beta*np.array(E))); W=[np.exp(-beta*e)/Z for e in E]
    P=[E[1]-E[0],E[2]-E[1],E[3]-E[2]]
    a=[z[i]-P[i] for i in range(3)]
    lhs=W[0]*nested(a[0],a[1],a[2],beta)
    rhs=code(z[0],z[1],z[2],E,beta,W)
    print(case, lhs, rhs, abs(lhs-rhs), abs(lhs+rhs))
