import sys,time; sys.path.insert(0,'/verif/tools'); sys.path.insert(0,'/verif/tools/props')
import pmlib, pipeline
seed_arg=sys.argv[1] if len(sys.argv)>1 else '1'
sys.argv=['x']
import check
ALL=["C%02d"%i for i in range(1,21)]
seed=int(seed_arg)
ctx=check.Ctx('C01','quick',seed)
r=ctx.rng
scripts=[]
import os
N=int(os.environ.get('NCASES','40'))
cplx=os.environ.get('VARIANT','real')=='complex'
for k in range(N):
    m=pipeline.gen_model(r, max_modes=r.choice([2,3,4,4]), cplx=cplx)
    M=m.modes()
    symm=r.choice(["default","default","ignore","custom"])
    if symm=="custom": symm=pipeline.custom_integrals(r,m)
    beta=r.choice([0.5,1.0,2.0,5.0,10.0])
    s=pipeline.core_script(m, order=r.below(2), symm=symm)+pipeline.observables_script(r,m,beta,M, nchi=(2 if M<=3 else 1))
    if r.chance(1,2):
        eps=r.choice([0.0,1e-12,1e-6,1e-3,1e-2])
        s.append("trunc %s"%pipeline.hx(eps))
        s+= [l for l in s if l.split()[0] in ("gf","susc")][:4]
    scripts.append(s)
t=time.time()
res=pipeline.run_batch(scripts, 'complex' if cplx else 'real')
pipeline.collect(ctx,res,ALL)
print('time',round(time.time()-t,1),'cases',len(res),'problems',len(ctx.problems))
print(ctx.dist)
seen=set()
for p in ctx.problems:
    key=p['what'][:60]
    if key in seen: continue
    seen.add(key)
    print(p['kind'],p['what'][:400])
    if len(seen)>12: break
import json
json.dump([p for p in ctx.problems][:30], open('/tmp/problems.json','w'), indent=1, default=str)
