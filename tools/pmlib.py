"""Shared machinery for the pomerol verification checks.

Everything here derives its paths from this file's location so that a snapshot of
/verif (vp run / vp check) works the same way as /verif itself.
"""
import fcntl
import glob
import hashlib
import json
import atexit
import os
import shutil
import re
import shutil
import subprocess
import sys
import time
from concurrent.futures import ThreadPoolExecutor

VERIF = os.path.dirname(os.path.dirname(os.path.abspath(__file__)))
REPO = os.environ.get("VERIF_REPO", "/repo")
CACHE = os.path.join(VERIF, ".cache")
LEAN_DIR = os.environ.get("VERIF_LEAN_DIR") or os.path.join(VERIF, "lean")
HARNESS_DIR = os.path.join(VERIF, "harness")
EVIDENCE_DIR = os.environ.get("VERIF_EVIDENCE_DIR") or os.path.join(VERIF, "evidence")
REPLAY_DIR = os.environ.get("VERIF_REPLAY_DIR") or os.path.join(VERIF, "replays")
GUARD = "POMEROL_VERIF"
NCPU = os.cpu_count() or 4

MPI_ENV = {"OMPI_ALLOW_RUN_AS_ROOT": "1", "OMPI_ALLOW_RUN_AS_ROOT_CONFIRM": "1",
           "OMPI_MCA_btl_vader_single_copy_mechanism": "none",
           "OMPI_MCA_rmaps_base_oversubscribe": "1"}

BASE_FLAGS = ["-std=gnu++14", "-O1", "-g1", "-DNDEBUG", "-D" + GUARD, "-fopenmp",
              "-D_GLIBCXX_ASSERTIONS",
              "-fsanitize=address,undefined", "-fno-sanitize-recover=undefined",
              "-fno-omit-frame-pointer", "-Wno-deprecated-declarations", "-w"]
PLAIN_FLAGS = ["-std=gnu++14", "-O2", "-DNDEBUG", "-D" + GUARD, "-fopenmp", "-w"]


def log(*a):
    print(*a, file=sys.stderr, flush=True)


def sh(cmd, **kw):
    kw.setdefault("stdout", subprocess.PIPE)
    kw.setdefault("stderr", subprocess.STDOUT)
    kw.setdefault("text", True)
    return subprocess.run(cmd, **kw)


class FileLock:
    def __init__(self, path):
        os.makedirs(os.path.dirname(path), exist_ok=True)
        self.path = path

    def __enter__(self):
        self.f = open(self.path, "w")
        fcntl.flock(self.f, fcntl.LOCK_EX)
        return self

    def __exit__(self, *a):
        fcntl.flock(self.f, fcntl.LOCK_UN)
        self.f.close()


# --------------------------------------------------------------------------
# source hashing and library build
# --------------------------------------------------------------------------

def repo_sources():
    files = []
    for sub in ("src", "include"):
        for root, _, names in os.walk(os.path.join(REPO, sub)):
            for n in sorted(names):
                if n.endswith((".cpp", ".h", ".hpp", ".in")):
                    files.append(os.path.join(root, n))
    return sorted(files)


def tree_hash(extra=""):
    h = hashlib.sha256()
    for f in repo_sources():
        h.update(os.path.relpath(f, REPO).encode())
        with open(f, "rb") as fh:
            h.update(fh.read())
    h.update(extra.encode())
    return h.hexdigest()[:20]


def _flags(variant, sanitize):
    fl = list(BASE_FLAGS if sanitize else PLAIN_FLAGS)
    return fl


def _first_include(variant):
    cplx = "#define POMEROL_COMPLEX_MATRIX_ELEMENTS" if variant == "complex" else \
        "/* #undef POMEROL_COMPLEX_MATRIX_ELEMENTS */"
    return ("#ifndef __INCLUDE_FIRST_INCLUDE_H_a83f82k\n#define __INCLUDE_FIRST_INCLUDE_H_a83f82k\n"
            "#define POMEROL_VERSION \"1.3\"\n#define POMEROL_USE_OPENMP\n" + cplx +
            "\n#define POMEROL_CXX11\n#endif\n")


def include_flags(libdir):
    return ["-I" + os.path.join(libdir, "include"), "-I" + os.path.join(REPO, "include"),
            "-I/usr/include/eigen3"]


def prune_cache(keep=24):
    """Keep the cache bounded: remove the oldest lib-* directories."""
    try:
        dirs = sorted(glob.glob(os.path.join(CACHE, "lib-*")), key=os.path.getmtime)
    except OSError:
        return
    # libraries built from /repo itself are kept longer than those built from scratch worktrees (VERIF_REPO)
    main = [d for d in dirs if os.path.exists(os.path.join(d, "from_repo"))]
    other = [d for d in dirs if d not in main]
    for d in other[:-keep] + main[:-6]:
        shutil.rmtree(d, ignore_errors=True)
    try:
        bins = sorted(glob.glob(os.path.join(CACHE, "bin", "*")), key=os.path.getmtime)
    except OSError:
        return
    for b in bins[:-240]:
        try:
            os.remove(b)
        except OSError:
            pass


def build_lib(variant="real", sanitize=True):
    """Build libpomerol.a from REPO's working tree (cached by content hash).
    Returns (libdir, log). Raises RuntimeError with compiler output on failure."""
    flags = _flags(variant, sanitize)
    key = tree_hash(variant + " ".join(flags))
    libdir = os.path.join(CACHE, "lib-%s-%s-%s" % (variant, "san" if sanitize else "plain", key))
    with FileLock(os.path.join(CACHE, "locks", os.path.basename(libdir) + ".lock")):
        if os.path.exists(os.path.join(libdir, "libpomerol.a")):
            os.utime(libdir)
            return libdir
        t0 = time.time()
        shutil.rmtree(libdir, ignore_errors=True)
        os.makedirs(os.path.join(libdir, "include", "pomerol"))
        os.makedirs(os.path.join(libdir, "obj"))
        with open(os.path.join(libdir, "include", "pomerol", "first_include.h"), "w") as f:
            f.write(_first_include(variant))
        shutil.copy(os.path.join(REPO, "include", "pomerol.h.in"), os.path.join(libdir, "include", "pomerol.h"))
        srcs = sorted(glob.glob(os.path.join(REPO, "src", "pomerol", "*.cpp")) +
                      glob.glob(os.path.join(REPO, "src", "mpi_dispatcher", "*.cpp")))
        inc = include_flags(libdir)

        def cc(src):
            obj = os.path.join(libdir, "obj", os.path.basename(src)[:-4] + ".o")
            r = sh(["mpicxx"] + flags + inc + ["-c", src, "-o", obj])
            return (src, obj, r.returncode, r.stdout)

        with ThreadPoolExecutor(NCPU) as ex:
            res = list(ex.map(cc, srcs))
        bad = [r for r in res if r[2] != 0]
        if bad:
            msg = "\n".join("%s:\n%s" % (b[0], b[3][-3000:]) for b in bad)
            shutil.rmtree(libdir, ignore_errors=True)
            raise RuntimeError("library build failed:\n" + msg)
        r = sh(["ar", "rcs", os.path.join(libdir, "libpomerol.a")] + [x[1] for x in res])
        if r.returncode != 0:
            raise RuntimeError("ar failed: " + r.stdout)
        shutil.rmtree(os.path.join(libdir, "obj"), ignore_errors=True)
        if os.path.realpath(REPO) == "/repo":
            open(os.path.join(libdir, "from_repo"), "w").close()
        log("[pmlib] built %s in %.1fs" % (os.path.basename(libdir), time.time() - t0))
    prune_cache()
    return libdir


def build_harness(name, variant="real", sanitize=True, extra_flags=(), link_lib=True, extra_inc=()):
    """Compile harness/<name>.cpp against the library built from REPO. Returns exe path."""
    src = os.path.join(HARNESS_DIR, name + ".cpp")
    libdir = build_lib(variant, sanitize) if link_lib else None
    flags = _flags(variant, sanitize) + list(extra_flags)
    h = hashlib.sha256()
    for f in [src] + sorted(glob.glob(os.path.join(HARNESS_DIR, "*.h"))) + \
            sorted(glob.glob(os.path.join(HARNESS_DIR, "mockmpi", "boost", "*.hpp"))):
        with open(f, "rb") as fh:
            h.update(fh.read())
    h.update(" ".join(flags).encode())
    h.update((libdir or tree_hash("nolib")).encode())
    exe = os.path.join(CACHE, "bin", "%s-%s-%s" % (name, variant, h.hexdigest()[:16]))
    with FileLock(os.path.join(CACHE, "locks", os.path.basename(exe) + ".lock")):
        if os.path.exists(exe):
            os.utime(exe)
            return exe
        os.makedirs(os.path.dirname(exe), exist_ok=True)
        inc = ["-I" + HARNESS_DIR] + ["-I" + i for i in extra_inc]
        if link_lib:
            inc += include_flags(libdir)
        else:
            inc += ["-I" + os.path.join(REPO, "include"), "-I/usr/include/eigen3"]
        cmd = ["mpicxx"] + flags + inc + [src, "-o", exe + ".tmp"]
        if link_lib:
            cmd += [os.path.join(libdir, "libpomerol.a"), "-lboost_mpi", "-lboost_serialization"]
        t0 = time.time()
        r = sh(cmd)
        if r.returncode != 0:
            raise RuntimeError("harness build failed (%s):\n%s" % (name, r.stdout[-6000:]))
        os.rename(exe + ".tmp", exe)
        log("[pmlib] built harness %s in %.1fs" % (os.path.basename(exe), time.time() - t0))
    # bound the bin cache
    bins = sorted(glob.glob(os.path.join(CACHE, "bin", "*")), key=os.path.getmtime)
    for b in bins[:-40]:
        try:
            os.remove(b)
        except OSError:
            pass
    return exe


MPI_RUNTIME_RETRIES = 3
MPI_STATS = {"launches": 0, "runtime_init_failures": 0}


def mpi_runtime_init_failed(stderr):
    """True iff the Open MPI *runtime* (ORTE) could not come up, i.e. the process died inside MPI_Init / mpiexec start-up
    before a single line of the harness or of the library ran.  This is the launcher's failure, not behaviour of the code
    under test: Open MPI keeps all session directories of one user under one shared directory <tmp>/ompi.<host>.<uid>, and
    the finaliser of one process rmdir()s that directory when it is momentarily empty -- if another process is between
    mkdir(<shared>) and mkdir(<shared>/pid.N) at that instant its orte_session_dir() fails with ENOENT
    ("orte_session_dir failed ... Unable to start a daemon on the local node (-127)").  Reproduced in this sandbox by
    running `while true; do rmdir /tmp/ompi.vm.0; done` next to a loop of MPI_Init/MPI_Finalize singletons."""
    if not stderr:
        return False
    if "orte_init failed" not in stderr and "orte_session_dir failed" not in stderr:
        return False
    return ("orte_session_dir failed" in stderr or "orte_ess_init failed" in stderr
            or "Unable to start a daemon on the local node" in stderr)


def mpi_private_env(e, where):
    """every launch gets a session-directory base of its own, so that no other MPI process (of this check, of a check
    running next to it, or of anything else on the machine) can remove a directory this launch is about to use"""
    e["OMPI_MCA_orte_tmpdir_base"] = where
    e["PMIX_MCA_ptl_tcp_tmpdir"] = where        # harmless if unused; keeps PMIx rendezvous files out of the shared /tmp too
    return e


def run_mpi_process(cmd, env, timeout, stdin_text=None):
    """subprocess.run with a private Open MPI session directory and a bounded retry that applies ONLY to a failed start
    of the MPI runtime (see mpi_runtime_init_failed); anything the program itself does -- exit code, sanitizer report,
    time-out -- is returned as it is, first time."""
    import tempfile
    last = None
    for attempt in range(MPI_RUNTIME_RETRIES + 1):
        MPI_STATS["launches"] += 1
        with tempfile.TemporaryDirectory(prefix="pmmpi") as sd:
            e = mpi_private_env(dict(env), sd)
            try:
                r = subprocess.run(cmd, input=stdin_text, stdout=subprocess.PIPE, stderr=subprocess.PIPE,
                                   text=True, timeout=timeout, env=e, errors="replace")
                last = (r.returncode, r.stdout, r.stderr)
            except subprocess.TimeoutExpired as ex:
                def dec(x):
                    return x.decode(errors="replace") if isinstance(x, bytes) else (x or "")
                return -999, dec(ex.stdout), dec(ex.stderr) + "\nTIMEOUT"
        if last[0] != 0 and mpi_runtime_init_failed(last[2]):
            MPI_STATS["runtime_init_failures"] += 1
            log("[mpi] the Open MPI runtime failed to start (attempt %d of %d): relaunching %s"
                % (attempt + 1, MPI_RUNTIME_RETRIES + 1, os.path.basename(cmd[0])))
            time.sleep(0.2 * (attempt + 1))
            continue
        return last
    return last


def run_harness(exe, args, stdin_text=None, timeout=600, env=None, mpi_np=None, threads=1):
    e = dict(os.environ)
    e.update(MPI_ENV)
    e["ASAN_OPTIONS"] = "detect_leaks=0:abort_on_error=0:exitcode=97"
    e["UBSAN_OPTIONS"] = "print_stacktrace=1:halt_on_error=1:exitcode=98"
    e["OMP_NUM_THREADS"] = str(threads)
    if env:
        e.update(env)
    cmd = [exe] + list(args)
    if mpi_np:
        cmd = ["mpiexec", "--oversubscribe", "-np", str(mpi_np)] + cmd
    return run_mpi_process(cmd, e, timeout, stdin_text)


def sanitizer_report(stderr):
    """Return a short description if stderr contains an ASan/UBSan/assertion report."""
    m = re.search(r"(ERROR: AddressSanitizer[^\n]*|runtime error:[^\n]*|Assertion [^\n]*failed[^\n]*|"
                  r"__glibcxx_assert[^\n]*|Segmentation fault[^\n]*)", stderr)
    return m.group(1) if m else None


# --------------------------------------------------------------------------
# Lean side
# --------------------------------------------------------------------------

ALLOWED_AXIOMS = {"propext", "Classical.choice", "Quot.sound"}
HYGIENE_RE = re.compile(r"\bsorry\b|\badmit\b|^\s*axiom\s|native_decide|bv_decide|implemented_by|"
                        r"\bunsafe\s|maxHeartbeats\s+0\b", re.M)


def strip_lean_comments(text):
    # remove block comments (nested) and line comments
    out = []
    i, depth, n = 0, 0, len(text)
    while i < n:
        if text.startswith("/-", i):
            depth += 1
            i += 2
        elif depth and text.startswith("-/", i):
            depth -= 1
            i += 2
        elif depth:
            if text[i] == "\n":
                out.append("\n")
            i += 1
        elif text.startswith("--", i):
            while i < n and text[i] != "\n":
                i += 1
        else:
            out.append(text[i])
            i += 1
    return "".join(out)


def lean_hygiene(paths=None):
    """grep the Lean sources for forbidden constructs (outside comments)."""
    hits = []
    if paths is None:
        paths = [p for p in glob.glob(os.path.join(LEAN_DIR, "**", "*.lean"), recursive=True)
                 if "/.lake/" not in p]
    for p in paths:
        with open(p) as f:
            txt = strip_lean_comments(f.read())
        for m in HYGIENE_RE.finditer(txt):
            line = txt.count("\n", 0, m.start()) + 1
            hits.append("%s:%d: %s" % (os.path.relpath(p, LEAN_DIR), line, m.group(0).strip()))
    return hits


_PRIVATE_DRIVER = None


def lake_build(targets, timeout=3600):
    """lake build under a lock; after building the driver, this process keeps a private copy of the binary so that
    a concurrent check relinking it (different VERIF_REPO, edited model) cannot pull it away mid-run."""
    global _PRIVATE_DRIVER
    with FileLock(os.path.join(CACHE, "locks", "lake.lock")):
        r = sh(["lake", "build"] + list(targets), cwd=LEAN_DIR, timeout=timeout)
        built = os.path.join(LEAN_DIR, ".lake", "build", "bin", "pmdriver")
        if "pmdriver" in targets and r.returncode == 0 and os.path.exists(built):
            d = os.path.join(CACHE, "drivers")
            os.makedirs(d, exist_ok=True)
            priv = os.path.join(d, "pmdriver.%d" % os.getpid())
            shutil.copy2(built, priv)
            if _PRIVATE_DRIVER is None:
                atexit.register(lambda: os.path.exists(priv) and os.remove(priv))
            _PRIVATE_DRIVER = priv
    return r.returncode, r.stdout


def lean_run_file(relpath, timeout=1800):
    r = sh(["lake", "env", "lean", relpath], cwd=LEAN_DIR, timeout=timeout)
    return r.returncode, r.stdout


def parse_axioms(output):
    """Parse `#print axioms` output -> {theorem: set(axioms)}."""
    res = {}
    cur = None
    buf = ""
    for line in output.splitlines():
        m = re.match(r"'([^']+)' depends on axioms: \[(.*)$", line)
        m0 = re.match(r"'([^']+)' does not depend on any axioms", line)
        if m0:
            res[m0.group(1)] = set()
            cur = None
            continue
        if m:
            cur = m.group(1)
            buf = m.group(2)
        elif cur is not None:
            buf += " " + line.strip()
        if cur is not None and "]" in buf:
            names = [x.strip() for x in buf.split("]")[0].split(",") if x.strip()]
            res[cur] = set(names)
            cur = None
            buf = ""
    return res


def leanchecker(module, timeout=1800):
    r = sh(["lake", "env", "leanchecker", module], cwd=LEAN_DIR, timeout=timeout)
    return r.returncode, r.stdout


def driver_path():
    if _PRIVATE_DRIVER and os.path.exists(_PRIVATE_DRIVER):
        return _PRIVATE_DRIVER
    return os.path.join(LEAN_DIR, ".lake", "build", "bin", "pmdriver")


def run_driver(mode, text, timeout=1200):
    """Run the compiled Lean model driver on a case file (stdin). Returns (rc, stdout)."""
    r = subprocess.run([driver_path(), mode], input=text, stdout=subprocess.PIPE,
                       stderr=subprocess.STDOUT, text=True, timeout=timeout)
    return r.returncode, r.stdout


# --------------------------------------------------------------------------
# random numbers: one SplitMix64 stream per check run
# --------------------------------------------------------------------------

class SplitMix64:
    def __init__(self, seed):
        self.s = seed & 0xFFFFFFFFFFFFFFFF

    def next(self):
        self.s = (self.s + 0x9E3779B97F4A7C15) & 0xFFFFFFFFFFFFFFFF
        z = self.s
        z = ((z ^ (z >> 30)) * 0xBF58476D1CE4E5B9) & 0xFFFFFFFFFFFFFFFF
        z = ((z ^ (z >> 27)) * 0x94D049BB133111EB) & 0xFFFFFFFFFFFFFFFF
        return z ^ (z >> 31)

    def below(self, n):
        return self.next() % n

    def range(self, lo, hi):  # inclusive
        return lo + self.below(hi - lo + 1)

    def choice(self, xs):
        return xs[self.below(len(xs))]

    def chance(self, num, den):
        return self.below(den) < num

    def uniform(self):
        return (self.next() >> 11) / float(1 << 53)

    def shuffle(self, xs):
        for i in range(len(xs) - 1, 0, -1):
            j = self.below(i + 1)
            xs[i], xs[j] = xs[j], xs[i]


def get_seed():
    try:
        return int(os.environ.get("VERIF_SEED", "1"))
    except ValueError:
        return 1
