#!/bin/bash
# usage: seedtest.sh <patch.diff> <property> [tier] [more properties...]
# Applies a seeded change to a scratch worktree of /repo (never to /repo itself), runs the check(s) against it, removes the worktree.
P=$1; ID=$2; TIER=${3:-quick}; shift; shift; shift
W=/tmp/mt/$ID.$$
mkdir -p /tmp/mt
git -C /repo worktree add -f --detach $W HEAD -q || exit 2
git -C $W apply "$P" || { echo "patch does not apply"; git -C /repo worktree remove --force $W; exit 2; }
cd /verif
for pid in $ID "$@"; do
  out=$(VERIF_REPO=$W VERIF_EVIDENCE_DIR=/tmp/mt/ev.$$ python3 tools/check.py $pid --tier $TIER 2>&1)
  echo "$out" | grep -E "VIOLATION|KNOWN|\[problem\]| ok | FAIL " | cut -c1-400 | head -12
done
git -C /repo worktree remove --force $W
rm -rf /tmp/mt/ev.$$
