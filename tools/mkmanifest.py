#!/usr/bin/env python3
"""Regenerates MANIFEST.json from the property modules under tools/props."""
import importlib
import json
import os
import sys

sys.path.insert(0, os.path.dirname(os.path.abspath(__file__)))
import pmlib  # noqa: E402

ALL = ["C%02d" % i for i in range(1, 21)]
NOT_YET = "not claimed yet: model, theorems and correspondence for this property are still being built (see DESIGN.md section 6)"


def main():
    checks, na = [], []
    for pid in ALL:
        path = os.path.join(pmlib.VERIF, "tools", "props", pid + ".py")
        if not os.path.exists(path):
            na.append(dict(property_id=pid, reason=NOT_YET))
            continue
        m = importlib.import_module("props." + pid)
        if getattr(m, "NOT_APPLICABLE", None):
            na.append(dict(property_id=pid, reason=m.NOT_APPLICABLE))
            continue
        checks.append(dict(
            property_id=pid,
            quick_cmd="python3 tools/check.py %s --tier quick" % pid,
            thorough_cmd="python3 tools/check.py %s --tier thorough" % pid,
            evidence_file="/verif/evidence/%s.json" % pid,
            replay_cmd_template="python3 tools/check.py %s --replay {path}" % pid,
            engine="lean4-proof+correspondence",
            level_claimed=dict(category="proof", text=m.LEVEL_TEXT, design_ref=getattr(m, "DESIGN_REF", "DESIGN.md section 6")),
            level_note=m.LEVEL_NOTE,
            technique=m.TECHNIQUE))
    hooks_commits = []
    hc = os.path.join(pmlib.VERIF, "hooks_commits.txt")
    if os.path.exists(hc):
        hooks_commits = [l.strip() for l in open(hc) if l.strip() and not l.startswith("#")]
    man = dict(
        version=1,
        setup_cmd="python3 tools/setup.py",
        hooks=dict(guard="POMEROL_VERIF",
                   enable="checks compile /repo/src with -DPOMEROL_VERIF (plus ASan/UBSan) into /verif/.cache; see tools/pmlib.py",
                   baseline_off_cmd="bash tools/baseline_off.sh",
                   source_commits=hooks_commits, add_only=True),
        engines=[dict(name="lean4-proof+correspondence", path="/verif/lean, /verif/tools, /verif/harness",
                      serves_properties=[c["property_id"] for c in checks],
                      kind_free_text="Lean 4 theorems about models regenerated/validated against the C++ source; "
                                     "C++ harness + compiled Lean driver for differential correspondence")],
        checks=checks,
        notes="All checks: python3 tools/check.py <id> --tier quick|thorough; honours VERIF_SEED, VERIF_TIER, VERIF_REPO.",
        not_applicable=na)
    with open(os.path.join(pmlib.VERIF, "MANIFEST.json"), "w") as f:
        json.dump(man, f, indent=1)
    print("checks:", [c["property_id"] for c in checks], "not_applicable:", len(na))


if __name__ == "__main__":
    main()
