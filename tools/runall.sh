#!/bin/bash
# Runs every claimed check (tier = $1, default quick) and prints one line per property.
cd "$(dirname "$0")/.."
TIER=${1:-quick}
for i in $(seq -w 1 20); do
  id=C$i
  s=$(date +%s)
  out=$(python3 tools/check.py $id --tier $TIER 2>&1); rc=$?
  e=$(date +%s)
  echo "$id rc=$rc $((e-s))s :: $(echo "$out" | grep -E 'VIOLATION|KNOWN-FINDING| ok ' | tail -2 | tr '\n' ' ')"
done
