#!/bin/bash
# run every claimed check (quick tier) on /repo and summarise
cd "$(dirname "$0")/.."
fail=0
for id in $(python3 -c "import json;print(' '.join(c['property_id'] for c in json.load(open('MANIFEST.json'))['checks']))"); do
  s=$(date +%s)
  out=$(python3 tools/check.py $id --tier ${1:-quick} 2>/tmp/runall_$id.err)
  rc=$?
  echo "$id rc=$rc $(( $(date +%s) - s ))s :: $(echo "$out" | tail -1)"
  if [ $rc -ne 0 ]; then fail=1; echo "$out" | head -5; tail -5 /tmp/runall_$id.err; fi
done
exit $fail
