"""A small parser for the C++ expressions that occur in pomerol's arithmetic kernels and an
emitter to Lean 4.  Used by translate.py.  Anything outside the grammar raises ParseError,
which the translator reports as a broken tie (never silently defaulted)."""
import re


class ParseError(Exception):
    pass


TOKEN_RE = re.compile(r"""
    (?P<num>(?:\d+\.\d*|\.\d+|\d+)(?:[eE][+-]?\d+)?[uUlLfF]*)
  | (?P<id>[A-Za-z_][A-Za-z_0-9]*(?:::[A-Za-z_][A-Za-z_0-9]*)*)
  | (?P<op>->|<=|>=|==|!=|&&|\|\||[-+*/()\[\],?:<>!.])
  | (?P<ws>\s+)
""", re.X)


def tokenize(s):
    pos, out = 0, []
    while pos < len(s):
        m = TOKEN_RE.match(s, pos)
        if not m:
            raise ParseError("cannot tokenize at %r" % s[pos:pos + 20])
        pos = m.end()
        if m.lastgroup == "ws":
            continue
        out.append((m.lastgroup, m.group(m.lastgroup)))
    return out


class Parser:
    def __init__(self, s):
        self.toks = tokenize(s)
        self.i = 0

    def peek(self):
        return self.toks[self.i] if self.i < len(self.toks) else (None, None)

    def eat(self, val=None):
        k, v = self.peek()
        if k is None or (val is not None and v != val):
            raise ParseError("expected %r, got %r" % (val, v))
        self.i += 1
        return v

    def parse(self):
        e = self.ternary()
        if self.i != len(self.toks):
            raise ParseError("trailing tokens: %r" % (self.toks[self.i:],))
        return e

    def ternary(self):
        c = self.lor()
        if self.peek()[1] == "?":
            self.eat("?")
            a = self.ternary()
            self.eat(":")
            b = self.ternary()
            return ("tern", c, a, b)
        return c

    def _bin(self, sub, ops):
        e = sub()
        while self.peek()[0] == "op" and self.peek()[1] in ops:
            op = self.eat()
            r = sub()
            e = ("bin", op, e, r)
        return e

    def lor(self):
        return self._bin(self.land, ("||",))

    def land(self):
        return self._bin(self.eq, ("&&",))

    def eq(self):
        return self._bin(self.rel, ("==", "!="))

    def rel(self):
        return self._bin(self.add, ("<", "<=", ">", ">="))

    def add(self):
        return self._bin(self.mul, ("+", "-"))

    def mul(self):
        return self._bin(self.unary, ("*", "/"))

    def unary(self):
        k, v = self.peek()
        if k == "op" and v in ("-", "+", "!"):
            self.eat()
            e = self.unary()
            return e if v == "+" else ("un", v, e)
        return self.postfix()

    def postfix(self):
        e = self.primary()
        while True:
            k, v = self.peek()
            if v == "(" and e[0] in ("id", "member"):
                self.eat("(")
                args = []
                if self.peek()[1] != ")":
                    args.append(self.ternary())
                    while self.peek()[1] == ",":
                        self.eat(",")
                        args.append(self.ternary())
                self.eat(")")
                e = ("call", e, args)
            elif v == "[":
                self.eat("[")
                ix = self.ternary()
                self.eat("]")
                e = ("idx", e, ix)
            elif v in (".", "->"):
                self.eat()
                k2, name = self.peek()
                if k2 != "id":
                    raise ParseError("member name expected")
                self.eat()
                e = ("member", e, name)
            else:
                return e

    def primary(self):
        k, v = self.peek()
        if k == "num":
            self.eat()
            return ("num", v.rstrip("uUlLfF"))
        if k == "id":
            self.eat()
            return ("id", v)
        if v == "(":
            self.eat("(")
            e = self.ternary()
            self.eat(")")
            return e
        raise ParseError("unexpected token %r" % (v,))


def parse(s):
    return Parser(s).parse()


def canon(e):
    """Canonical C-like rendering, used as key into the name map."""
    t = e[0]
    if t == "num":
        return e[1]
    if t == "id":
        return e[1]
    if t == "member":
        return canon(e[1]) + "." + e[2]
    if t == "idx":
        return canon(e[1]) + "[" + canon(e[2]) + "]"
    if t == "call":
        return canon(e[1]) + "(" + ",".join(canon(a) for a in e[2]) + ")"
    if t == "un":
        return e[1] + canon(e[2])
    if t == "bin":
        return "(" + canon(e[2]) + e[1] + canon(e[3]) + ")"
    if t == "tern":
        return "(" + canon(e[1]) + "?" + canon(e[2]) + ":" + canon(e[3]) + ")"
    raise ParseError("bad node")


def free_names(e, names, acc=None):
    """Leaves of the expression that are mapped through `names` (in order of appearance)."""
    if acc is None:
        acc = []
    c = canon(e)
    if c in names:
        if names[c] not in acc:
            acc.append(names[c])
        return acc
    t = e[0]
    if t in ("num",):
        return acc
    if t == "id":
        raise ParseError("unmapped identifier %r" % e[1])
    if t == "call":
        for a in e[2]:
            free_names(a, names, acc)
        return acc
    if t in ("member", "idx"):
        raise ParseError("unmapped access %r" % c)
    for sub in e[1:]:
        if isinstance(sub, tuple):
            free_names(sub, names, acc)
    return acc


# --------------------------------------------------------------------------
# Int emitter: C `long`/`int` arithmetic -> Lean Int (unbounded; overflow not modelled)
# --------------------------------------------------------------------------

def emit_int(e, names, boolean=False):
    """Emit a Lean Int term (or a Bool term when boolean=True / the node is a condition)."""
    c = canon(e)
    if c in names:
        return names[c]
    t = e[0]
    if t == "num":
        if not re.fullmatch(r"\d+", e[1]):
            raise ParseError("non-integer literal %r in integer context" % e[1])
        return "(%s : Int)" % e[1]
    if t == "call":
        f = canon(e[1])
        if f in ("std::abs", "abs", "labs") and len(e[2]) == 1:
            return "(Pomerol.absI %s)" % emit_int(e[2][0], names)
        if f in ("int", "long", "size_t") and len(e[2]) == 1:
            return emit_int(e[2][0], names)
        raise ParseError("unsupported call %r in integer context" % f)
    if t == "un":
        if e[1] == "-":
            return "(-%s)" % emit_int(e[2], names)
        if e[1] == "!":
            return "(!%s)" % emit_int(e[2], names, True)
    if t == "bin":
        op = e[1]
        if op in ("+", "-", "*"):
            return "(%s %s %s)" % (emit_int(e[2], names), op, emit_int(e[3], names))
        if op == "/":
            return "(Int.tdiv %s %s)" % (emit_int(e[2], names), emit_int(e[3], names))
        if op in ("<", "<=", ">", ">=", "==", "!="):
            lop = {"<": "<", "<=": "≤", ">": ">", ">=": "≥", "==": "=", "!=": "≠"}[op]
            return "(decide (%s %s %s))" % (emit_int(e[2], names), lop, emit_int(e[3], names))
        if op in ("&&", "||"):
            return "(%s %s %s)" % (emit_int(e[2], names, True), op, emit_int(e[3], names, True))
    if t == "tern":
        return "(if %s then %s else %s)" % (emit_int(e[1], names, True),
                                            emit_int(e[2], names), emit_int(e[3], names))
    raise ParseError("unsupported node %r in integer context" % (c,))


# --------------------------------------------------------------------------
# Field emitter: RealType / ComplexType arithmetic -> two-sorted generic Lean
# --------------------------------------------------------------------------
# names maps canonical C sub-expressions to (leanName, sort) with sort in {"R","K"}.

def _lit(e1, sort):
    txt = e1
    ty = sort
    if re.fullmatch(r"\d+", txt):
        n = int(txt)
        if n == 0:
            return "(0 : %s)" % ty
        if n == 1:
            return "(1 : %s)" % ty
        return "((%d : Nat) : %s)" % (n, ty)
    m = re.fullmatch(r"(\d+)\.0*", txt)
    if m:
        return _lit(m.group(1), sort)
    if txt in ("0.5",):
        return "((1 : %s) / ((2 : Nat) : %s))" % (ty, ty)
    m = re.fullmatch(r"(\d+)(?:\.(\d*))?(?:[eE]([+-]?\d+))?", txt)
    if m:
        ip, fp, ex = m.group(1), m.group(2) or "", int(m.group(3) or 0)
        num = int(ip + fp)
        ex -= len(fp)
        if ex >= 0:
            return "((%d : Nat) : %s)" % (num * 10 ** ex, ty)
        return "(((%d : Nat) : %s) / ((%d : Nat) : %s))" % (num, ty, 10 ** (-ex), ty)
    raise ParseError("unsupported real literal %r" % txt)


def emit_field(e, names, want=None):
    """Returns (leanTerm, sort).  `want` coerces the result ("K" forces ofReal on R terms)."""
    term, sort = _emit_field(e, names)
    if want == "K" and sort == "R":
        return "(CplxOver.ofReal (K := K) %s)" % term, "K"
    if want == "R" and sort == "K":
        raise ParseError("complex value where a real is required: %s" % canon(e))
    if sort == "N":
        return _lit(term, want or "R"), (want or "R")
    return term, sort


def _emit_field(e, names):
    c = canon(e)
    if c in names:
        return names[c]
    t = e[0]
    if t == "num":
        return e[1], "N"
    if t == "call":
        f = canon(e[1])
        if f in ("exp", "std::exp") and len(e[2]) == 1:
            a, s = emit_field(e[2][0], names)
            return "(HasExp.exp %s)" % a, s
        if f in ("abs", "std::abs") and len(e[2]) == 1:
            a, s = emit_field(e[2][0], names)
            if s == "K":
                return "(CplxOver.abs (R := R) %s)" % a, "R"
            return "(Pomerol.absR %s)" % a, "R"
        if f in ("RealType", "ComplexType", "MelemType") and len(e[2]) == 1:
            return _emit_field(e[2][0], names)
        raise ParseError("unsupported call %r" % f)
    if t == "un" and e[1] == "-":
        a, s = emit_field(e[2], names)
        return "(-%s)" % a, s
    if t == "bin" and e[1] in ("+", "-", "*", "/"):
        la, ls = _emit_field(e[2], names)
        ra, rs = _emit_field(e[3], names)
        sort = "K" if "K" in (ls, rs) else ("R" if "R" in (ls, rs) else "N")
        if sort == "N":
            raise ParseError("constant folding of literals not supported: %s" % c)
        la, _ = emit_field(e[2], names, sort)
        ra, _ = emit_field(e[3], names, sort)
        return "(%s %s %s)" % (la, e[1], ra), sort
    if t == "tern":
        cond = emit_cond(e[1], names)
        a, sa = _emit_field(e[2], names)
        b, sb = _emit_field(e[3], names)
        sort = "K" if "K" in (sa, sb) else "R"
        a, _ = emit_field(e[2], names, sort)
        b, _ = emit_field(e[3], names, sort)
        return "(if %s then %s else %s)" % (cond, a, b), sort
    raise ParseError("unsupported node in field context: %s" % c)


def emit_cond(e, names):
    """A decidable Prop over the real sort (or a Bool variable)."""
    c = canon(e)
    if c in names:
        term, sort = names[c]
        if sort != "B":
            raise ParseError("non-boolean used as condition: %s" % c)
        return "%s = true" % term
    t = e[0]
    if t == "bin" and e[1] in ("<", ">", "<=", ">="):
        la, _ = emit_field(e[2], names, "R")
        ra, _ = emit_field(e[3], names, "R")
        if e[1] == "<":
            return "%s < %s" % (la, ra)
        if e[1] == ">":
            return "%s < %s" % (ra, la)
        if e[1] == "<=":
            return "¬ (%s < %s)" % (ra, la)
        return "¬ (%s < %s)" % (la, ra)
    if t == "bin" and e[1] == "&&":
        return "(%s) ∧ (%s)" % (emit_cond(e[2], names), emit_cond(e[3], names))
    if t == "bin" and e[1] == "||":
        return "(%s) ∨ (%s)" % (emit_cond(e[2], names), emit_cond(e[3], names))
    if t == "un" and e[1] == "!":
        return "¬ (%s)" % emit_cond(e[2], names)
    raise ParseError("unsupported condition: %s" % c)
