#!/usr/bin/env python3
"""MANIFEST.setup_cmd: build the framework from files on disk only (offline)."""
import os
import sys
sys.path.insert(0, os.path.dirname(os.path.abspath(__file__)))
import pmlib  # noqa: E402
import translate  # noqa: E402


def main():
    try:
        translate.run()
    except translate.TranslateError as ex:
        print("translator: %s (checks will report this)" % ex)
    rc, out = pmlib.lake_build(["pmdriver", "PomerolModel"])
    print(out[-3000:])
    if rc != 0:
        print("lake build failed during setup (checks will report the broken obligations)")
    for variant in ("real", "complex"):
        try:
            pmlib.build_lib(variant)
        except RuntimeError as ex:
            print(str(ex)[-2000:])
    return 0


if __name__ == "__main__":
    sys.exit(main())
