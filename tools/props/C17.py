"""C17 -- no out-of-bounds access or undefined behaviour on any supported workflow."""
import importlib
import pmlib

LEAN_MODULES = ["PomerolModel.Properties.C17", "PomerolModel.Spec.Chi4Refine", "PomerolModel.Spec.GFRefine", "PomerolModel.Spec.AveragesSpec"]
GENERATED = ["coreflags", "mc4"]
THEOREMS = ["Pomerol.Properties.C17." + t for t in (
    "advance_in_bounds", "merge_walk_in_bounds", "merge_walk_common", "source_guards_first", "unguarded_chase_overruns",
    "source_memory_safety_flags", "matsubara_storage_in_bounds", "operator_comparison_in_bounds", "index_table_no_null_slot")] + [
    # memory safety of the modelled loops proved next to their functional correctness (these files import C17)
    "Pomerol.Spec.Chi4Refine.compute_in_bounds", "Pomerol.Spec.GFRefine.gfpart_contributions_source",
    "Pomerol.Spec.AveragesSpec.occupancy_is_trace"]
RULE = ("a case = any workflow generated for the other properties (lattices, indices, symmetry analysis incl. ignored "
        "symmetries and one-dimensional blocks, diagonalisation, density matrix, field operators, G, chi incl. the default "
        "compute() without frequency list, vertex and its storage, susceptibilities, averages, truncation, container "
        "histories, operator algebra, dispatcher on mock MPI) executed with ASan + UBSan (-fno-sanitize-recover) + "
        "_GLIBCXX_ASSERTIONS, plus a few complete workflows on an uninstrumented build under valgrind memcheck (reads of "
        "uninitialised memory); a sanitizer/memcheck report, assertion or crash is a violation; non-trivial = distinct workflow")
TRUSTED = ["clang/gcc AddressSanitizer, UndefinedBehaviorSanitizer, libstdc++ assertions, valgrind memcheck as observers of the real library"]
ASSUMPTIONS = ["PARTIAL: only the modelled accesses are PROVED in range (index-chasing loops, Matsubara storage, operator "
               "comparison, index table, state-label bounds tests); memory safety of everything else is OBSERVED under "
               "sanitizers on the generated workflows, which is testing, not proof"]
LEVEL_TEXT = ("Proof (modelled accesses): the index-chasing merge walk over two sparse inner iterators (model with an explicit "
              "read-past-the-end error; whether the iterator is tested before index() is extracted per call site) never reads "
              "out of bounds for ANY pair of index lists, terminates, and returns exactly the common indices of sorted lists; the "
              "Matsubara storage never reads/writes out of range (C15); the operator comparison reads in range (C05); the index "
              "table has no null slot (C18); extracted flags: data() for the reduction buffer, inclusive state bounds tests. "
              "PARTIAL: all other memory accesses are only observed: every harness of every other property runs under "
              "ASan/UBSan/_GLIBCXX_ASSERTIONS, a few complete workflows (incl. temperatures at which Boltzmann factors underflow) run "
              "on an uninstrumented build under valgrind memcheck, and any report is a C17 violation with that workflow as replay.")
LEVEL_NOTE = "Trusted: sanitizers as observers; Eigen/Boost/libstdc++ internals not modelled. Partial by nature (named gap)."
TECHNIQUE = "Lean 4 proof for the modelled index-chasing/storage accesses + sanitizer-instrumented execution of all workflows"
DESIGN_REF = "DESIGN.md section 6, C17"

SWEEP = ["C01", "C02", "C04", "C05", "C06", "C07", "C09", "C12", "C13", "C14", "C15", "C16", "C18", "C19", "C20"]


class Sub:
    """a context proxy that lets another property's campaign run and keeps only what concerns memory safety"""
    def __init__(self, ctx, pid):
        self.__dict__["ctx"] = ctx
        self.__dict__["pid"] = pid
        self.__dict__["problems"] = []
        self.__dict__["distinct"] = set()
        self.__dict__["samples"] = []
        self.__dict__["dist"] = {}
        self.__dict__["notes"] = {}
        self.__dict__["evaluations"] = 0

    def __getattr__(self, k):
        return getattr(self.__dict__["ctx"], k)

    def __setattr__(self, k, v):
        self.__dict__[k] = v

    def count(self, key, n=1):
        self.dist[key] = self.dist.get(key, 0) + n

    def problem(self, kind, what, **data):
        self.problems.append(dict(kind=kind, what=what, **data))


def correspondence(ctx):
    for pid in SWEEP:
        mod = importlib.import_module("props." + pid)
        sub = Sub(ctx, pid)
        mod.correspondence(sub)
        ctx.evaluations += sub.evaluations
        ctx.count("workflows_" + pid, sub.evaluations)
        for d in sub.distinct:
            ctx.distinct.add((pid, d))
        for p in sub.problems:
            if p["kind"] in ("sanitizer", "hang") and "timeout" not in p["what"]:
                q = dict(p)
                q["what"] = "[while running the %s campaign] %s" % (pid, p["what"])
                q["from_property"] = pid
                ctx.problems.append(q)
        if sub.samples and len(ctx.samples) < 4:
            ctx.samples.append(dict(campaign=pid, sample=sub.samples[0]))


    valgrind_lane(ctx)


VG_KINDS = ("Conditional jump or move depends on uninitialised value", "Use of uninitialised value", "Invalid read", "Invalid write",
            "Invalid free", "Mismatched free", "Source and destination overlap", "Syscall param")


def run_valgrind(exe, script, timeout=1800):
    """memcheck report blocks that have a frame of the library (or of the harness) among their first frames"""
    import os, re, subprocess, tempfile
    e = dict(os.environ)
    e.update(pmlib.MPI_ENV)
    e["OMP_NUM_THREADS"] = "1"
    with tempfile.TemporaryDirectory(prefix="pmvg") as d:
        sp = os.path.join(d, "script.txt")
        with open(sp, "w") as f:
            f.write("\n".join(script) + "\n")
        # private Open MPI session directory + relaunch when the MPI runtime itself fails to start (pmlib.run_mpi_process)
        rc, _, err = pmlib.run_mpi_process(["valgrind", "--error-exitcode=0", "--undef-value-errors=yes", "--num-callers=14", exe, sp,
                                            os.path.join(d, "case.txt")], e, timeout)
        if rc == -999:
            return None, []
    blocks = re.split(r"\n==\d+== \n", err)
    bad = []
    for b in blocks:
        lines = [re.sub(r"^==\d+== ?", "", l) for l in b.strip().splitlines()]
        if not lines or not lines[0].startswith(VG_KINDS):
            continue
        frames = [l.strip() for l in lines[1:] if l.strip().startswith(("at ", "by "))]
        # the access itself must be in code of the library / harness (inlined Eigen/STL frames directly below it are fine),
        # not inside the MPI runtime or the C library start-up code
        top = frames[:6]
        if any("Pomerol::" in f or "pMPI::" in f for f in top) and not any(("libmpi" in f or "libopen-" in f or "libpmix" in f) for f in frames[:2]):
            bad.append(lines[0] + " | " + " <- ".join(f.split(" (")[0][3:] for f in frames[:5]))
    return rc, bad


def valgrind_lane(ctx):
    """reads of uninitialised memory are undefined behaviour that ASan/UBSan do not see: a few complete workflows run on an
    uninstrumented build under valgrind memcheck"""
    import pipeline
    r = ctx.rng
    thorough = ctx.tier == "thorough"
    exe = pmlib.build_harness("pipe", "real", sanitize=False)
    n = 24 if thorough else 4
    for k in range(n):
        m = pipeline.gen_model(r, max_modes=r.choice([2, 3, 3]))
        M = m.modes()
        beta = r.choice([1.0, 2.0, 5.0, 400.0, 3000.0])      # incl. temperatures at which Boltzmann factors underflow
        s = pipeline.core_script(m, order=r.below(2), symm=r.choice(["default", "default", "ignore"]), early=r.chance(1, 3), stress=r.chance(1, 3))
        s += pipeline.observables_script(r, m, beta, M, ngf=3, nchi=1, nsusc=1, ntriples=2)
        rc, bad = run_valgrind(exe, s)
        ctx.evaluations += 1
        ctx.count("valgrind_workflows")
        if rc is None:
            ctx.count("valgrind_timeouts")
            continue
        ctx.distinct.add(("valgrind", tuple(s)))
        if bad:
            ctx.problem("sanitizer", "valgrind memcheck: " + bad[0], harness="pipe-valgrind", script=s, log="\n".join(bad[:10]),
                        signature="valgrind:" + bad[0][:60], from_property="C17")
            break


def replay(ctx, rp):
    if rp.get("harness") == "pipe-valgrind":
        exe = pmlib.build_harness("pipe", "real", sanitize=False)
        rc, bad = run_valgrind(exe, rp["script"])
        print("\n".join(bad))
        return 1 if bad else 0
    mod = importlib.import_module("props." + rp.get("from_property", "C01"))
    return mod.replay(ctx, rp)
