"""C12 -- Wick's theorem: quadratic models give the free propagator and a vanishing vertex."""
import pipeline

LEAN_MODULES = ["PomerolModel.Properties.C12"]
GENERATED = ["vertex", "gf"]
THEOREMS = ["Pomerol.Properties.C12." + t for t in (
    "commutator_with_quadratic", "equation_of_motion", "free_propagator", "free_propagator_is_inverse",
    "vertex_is_chi_minus_chi0", "vertex_vanishes_iff", "two_particle_equation_of_motion", "two_particle_function_factorises",
    "two_particle_function_factorises_def", "vertex_vanishes_for_quadratic_hamiltonians")]
RULE = ("a case = random number-conserving quadratic Hamiltonian (hoppings incl. spin-flip ones, levels, degenerate/zero/"
        "block-diagonal single-particle matrices, real and complex Hermitian), all (i,j), Matsubara numbers and complex z; "
        "G compared with the inverse of (z-h) computed by Gaussian elimination, the vertex with 0 for sampled quadruples "
        "and triples incl. coinciding frequencies; non-trivial = distinct case with at least 2 modes")
TRUSTED = ["harness/pipe.cpp; numeric oracle (complex Gauss-Jordan inverse in lean/Driver/NumericRun.lean)"]
ASSUMPTIONS = ["the vanishing of the vertex for quadratic models (Wick's theorem for Gaussian states) is NOT a Lean theorem: "
               "it is checked by differential execution only"]
LEVEL_TEXT = ("Proof: from the CAR alone [c_i, sum h_kl c+_k c_l] = sum_l h_il c_l, hence in the eigenbasis "
              "(E_m - E_n)(c_i)_nm = sum_l h_il (c_l)_nm, hence with the Lehmann form and the residue sum rule "
              "(z - h) G(z) = 1 and G(z) = (z - h)^-1 for every (Hermitian or not) h, degenerate levels included, at every z "
              "that is not a pole. Second half (Wick): the frequency-space equation of motion of chi4 "
              "sum_i' (z0 - h)_ii' chi_i'jkl = beta([k2=k3] delta_il G_jk - [k1=k3] delta_ik G_jl) is derived at the Lehmann level "
              "(cyclic rotation of world lines, all resonance classes, CAR contractions) and inverted with the free propagator: "
              "chi_ijkl = beta([k2=k3] G_il G_jk - [k1=k3] G_ik G_jl) = chi0 for every quadratic Hamiltonian, every index quadruple "
              "and every triple of fermionic Matsubara numbers (coinciding frequencies and degenerate levels included), at the "
              "Lehmann and at the definition level; hence the extracted Vertex4::value formula evaluates to 0. Tie: differential "
              "oracle on random quadratic models (free propagator and vanishing vertex within the documented dropped-term budgets).")
LEVEL_NOTE = "Trusted: as C01/C02 (the library's chi equals chiLehmann by C02's refinement theorems + numeric oracle; IEEE rounding and the 1e-8 term tolerances are not modelled in the Wick theorem)."
TECHNIQUE = "Lean 4/Mathlib proof of the free propagator and of Wick's factorisation of chi4 (equation of motion at the Lehmann level) + differential oracle"
DESIGN_REF = "DESIGN.md section 6, C12"


def correspondence(ctx):
    def mark(r, m, s):
        # insert the marker before the numeric stages
        i = s.index("hcompute")
        return s[:i + 1] + ["note quadratic"] + s[i + 1:]
    pipeline.numeric_campaign(ctx, ["C12"], ("gf", "vertex"), 24, 300, near=4, max_modes_quick=3, max_modes_thorough=4,
                              allow=("hop", "hop", "level", "user2", "spinflip_hop"), extra=mark,
                              nontrivial=lambda meta, s: meta["modes"] >= 2, ngf=9)


def replay(ctx, rp):
    return pipeline.replay(ctx, rp)
