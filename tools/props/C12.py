"""C12 -- Wick's theorem: quadratic models give the free propagator and a vanishing vertex."""
import pipeline

LEAN_MODULES = ["PomerolModel.Properties.C12"]
GENERATED = ["vertex", "gf"]
THEOREMS = ["Pomerol.Properties.C12." + t for t in (
    "commutator_with_quadratic", "equation_of_motion", "free_propagator", "free_propagator_is_inverse",
    "vertex_is_chi_minus_chi0")]
RULE = ("a case = random number-conserving quadratic Hamiltonian (hoppings incl. spin-flip ones, levels, degenerate/zero/"
        "block-diagonal single-particle matrices, real and complex Hermitian), all (i,j), Matsubara numbers and complex z; "
        "G compared with the inverse of (z-h) computed by Gaussian elimination, the vertex with 0 for sampled quadruples "
        "and triples incl. coinciding frequencies; non-trivial = distinct case with at least 2 modes")
TRUSTED = ["harness/pipe.cpp; numeric oracle (complex Gauss-Jordan inverse in lean/Driver/NumericRun.lean)"]
ASSUMPTIONS = ["the vanishing of the vertex for quadratic models (Wick's theorem for Gaussian states) is NOT a Lean theorem: "
               "it is checked by differential execution only"]
LEVEL_TEXT = ("Proof (first half): from the CAR alone [c_i, sum h_kl c+_k c_l] = sum_l h_il c_l, hence in the eigenbasis "
              "(E_m - E_n)(c_i)_nm = sum_l h_il (c_l)_nm, hence with the Lehmann form and the residue sum rule "
              "(z - h) G(z) = 1 and G(z) = (z - h)^-1 for every (Hermitian or not) h, degenerate levels included, at every z "
              "that is not a pole. Second half PARTIAL: the vertex is chi - chi0 (theorem, extracted formula), and chi equals "
              "its definition (C02), but Wick's theorem itself is not formalised; vanishing of the vertex is established by "
              "the differential oracle on random quadratic models.")
LEVEL_NOTE = "Trusted: as C01; Wick's theorem for Gaussian states not formalised (named gap)."
TECHNIQUE = "Lean 4/Mathlib proof of the free propagator from the CAR + differential oracle for the vertex"
DESIGN_REF = "DESIGN.md section 6, C12"


def correspondence(ctx):
    def mark(r, m, s):
        # insert the marker before the numeric stages
        i = s.index("hcompute")
        return s[:i + 1] + ["note quadratic"] + s[i + 1:]
    pipeline.numeric_campaign(ctx, ["C12"], ("gf", "vertex"), 24, 300, near=4, max_modes_quick=3, max_modes_thorough=4,
                              allow=("hop", "hop", "level", "user2", "spinflip_hop"), extra=mark,
                              nontrivial=lambda meta, s: meta["modes"] >= 2, ngf=9)


def replay(ctx, rp):
    return pipeline.replay(ctx, rp)
