"""C08 -- observables are invariant under the choice of symmetry partition."""
import struct
import pipeline

LEAN_MODULES = ["PomerolModel.Properties.C08"]
GENERATED = ["gf"]
THEOREMS = ["Pomerol.Properties.C08." + t for t in (
    "green_function_partition_independent", "susceptibility_partition_independent", "two_particle_partition_independent",
    "averages_partition_independent", "spectrum_partition_independent", "observables_same_for_two_decompositions",
    "averages_same_for_two_decompositions", "stripe_selection_partition_independent")]
RULE = ("a case = one random model evaluated under 3-4 partitions (default, ignored, accepted custom sets); spectrum, weights-"
        "derived averages, G (all requested components), chi_AB, chi4 and ensemble averages are compared pairwise between the "
        "runs (implementation vs implementation) and each run against the partition-free full-space oracle; "
        "non-trivial = distinct model for which at least two of the partitions differ")
TRUSTED = ["harness/pipe.cpp; pairwise comparison in tools/props/C08.py"]
ASSUMPTIONS = ["as C01, C02, C09, C14"]
LEVEL_TEXT = ("Proof (corollary): the definitions of G, chi_AB, chi4, the averages and the spectrum (Gdef, suscDef, chiDef, traces, "
              "characteristic polynomial) do not mention the partition, and the theorems of C01/C02/C03/C09/C14 show that the "
              "value computed from ANY sound partition with ANY per-block unitary diagonalisation equals them; hence two "
              "accepted partitions give equal observables. Tie: every model is run under several partitions and the "
              "implementation's results are compared pairwise and against the full-space oracle.")
LEVEL_NOTE = "Trusted: as C01-C03, C07; the corollaries inherit the hypotheses (sound partition = C07, certified eigen-system)."
TECHNIQUE = "Lean 4 corollaries of the definition-equals-evaluation theorems + pairwise differential runs under different partitions"
DESIGN_REF = "DESIGN.md section 6, C08"

KEYS = {"gfn": 3, "gfz": 4, "gftau": 3, "chi": 7, "susc": 5, "susctau": 5, "avg": 2, "occ": 1, "docc": 2, "avgE": 0, "avgN": 0}


def fl(h):
    return struct.unpack("<d", struct.pack("<Q", int(h, 16)))[0]


def observations(case):
    d = {}
    for l in case.splitlines():
        t = l.split()
        if len(t) > 1 and t[0] == "o" and t[1] in KEYS:
            k = KEYS[t[1]]
            d[(t[1],) + tuple(t[2:2 + k])] = [fl(x) for x in t[2 + k:]]
        elif len(t) > 2 and t[1] == "allev":
            d[("spectrum",)] = sorted(fl(x) for x in t[3:])
    return d


def correspondence(ctx):
    r = ctx.rng
    pipeline.run_corpus(ctx, "C08", ["C08", "C01", "C02", "C09", "C14", "C03", "C07"])
    thorough = ctx.tier == "thorough"
    groups = []
    scripts = []
    for case_no in range(200 if thorough else 20):
        m = pipeline.gen_model(r, max_modes=r.choice([2, 3, 4]))
        M = m.modes()
        beta = r.choice([0.7, 2.0, 6.0])
        obs = pipeline.observables_script(r, m, beta, M, nchi=(2 if M <= 3 else 1))
        modes = ["default", "ignore", pipeline.custom_integrals(r, m), pipeline.custom_integrals(r, m)]
        order = r.below(2)
        g = []
        for sy in modes:
            g.append(len(scripts))
            # every third model: the custom partitions are set up in the order "declare all objects, prepare afterwards"
            # (chosen by the case number, no random draw)
            early = case_no % 3 == 2 and sy.startswith("symm custom")
            scripts.append(pipeline.core_script(m, order=order, symm=sy, early=early) + obs)
        groups.append(g)
    res = pipeline.run_batch(scripts, "real")
    # each run against the partition-free oracle: any failed oracle of the underlying properties is a C08 problem too
    pipeline.collect(ctx, res, ["C08", "C01", "C02", "C09", "C14", "C03", "C07"])
    for g in groups:
        runs = [res[i] for i in g]
        if any(x.aborted() for x in runs):
            continue
        obs = [observations(x.case) for x in runs]
        nblocks = [x.case.count("\no blk ") for x in runs]
        if len(set(nblocks)) > 1:
            ctx.distinct.add(tuple(scripts[g[0]]))
        ctx.count("partitions_compared", len(g))
        for k in range(1, len(g)):
            for key, va in obs[0].items():
                vb = obs[k].get(key)
                if vb is None or len(va) != len(vb):
                    continue
                scale = 1.0 + max(abs(x) for x in va) if va else 1.0
                # every run is compared with the partition-free definition within its exact dropped-term budget (collect above);
                # the pairwise comparison only has to catch partition-dependent errors and must tolerate twice that budget
                tol = 1e-5 if key[0] in ("chi", "gftau", "susctau") else 2e-6
                if any(abs(x - y) > tol * scale for x, y in zip(va, vb)):
                    ctx.problem("propfail", "PROPFAIL[C08] %s differs between partitions '%s' and '%s': %s vs %s" % (
                        " ".join(key), scripts[g[0]][-1] and runs[0].script[[l.split()[0] for l in runs[0].script].index("symm")][:40],
                        runs[k].script[[l.split()[0] for l in runs[k].script].index("symm")][:40], va[:4], vb[:4]),
                        script=runs[k].script, base_script=runs[0].script, harness="pipe", variant="real",
                        signature="C08:" + key[0])
                    break
    ctx.samples = [dict(script=scripts[g[0]][:12]) for g in groups[:3]]


def replay(ctx, rp):
    return pipeline.replay(ctx, rp)
