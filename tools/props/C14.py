"""C14 -- dynamical susceptibility equals its definition incl. the static limit."""
import pipeline

LEAN_MODULES = ['PomerolModel.Properties.C14', 'PomerolModel.Properties.C14Merge']
GENERATED = ['susc']
THEOREMS = ["Pomerol.Properties.C14." + t for t in ['susceptibility_equals_definition', 'static_limit', 'tau_is_correlator', 'tau_frequency_consistent', 'disconnected_part', 'library_tolerances', 'value_with_library_tolerances', 'exact_when_no_near_degeneracy', 'known_finding_F14_residue_filter', 'F14_parametric', 'loops_compute_susceptibility', 'loops_compute_value_with_tolerances', 'loops_and_evaluation_compute_susceptibility']] + ["Pomerol.Properties.C14Merge." + t for t in ['susc_compare_is_gf_compare', 'susc_negligible_is_gf_negligible', 'susc_term_value', 'susc_dropped_terms_budget', 'susc_merged_value_error', 'susc_merged_value_error_matsubara']]
RULE = 'a case = random model (many with exact degeneracies), all (a,b,c,d) sampled incl. S_z-changing ones, bosonic n in {0,+-1,..}, three ways of supplying the averages, tau grid; compared with the full-space bosonic Lehmann sum; every fourth case has an exact degeneracy lifted by a tiny level shift (1e-10 .. 1e-4); a tolerance decision of the library that is numerically undecidable (within 1e-4 relative of 1e-8) widens the comparison budget by the term concerned and is counted as ambiguous; the minimised near-degenerate case of finding F14 (corpus/C14) runs first; non-trivial = distinct case with a degenerate pair of levels contributing at n=0 or at least two modes'
TRUSTED = ["harness/pipe.cpp drives the real classes along the documented workflow; case-file protocol with hex doubles",
           "numeric oracle (lean/Driver/Numeric*.lean): IEEE double arithmetic of compiled Lean, full-Fock-space sums",
           "Eigen's SelfAdjointEigenSolver is not verified: its output is certified on every case (residual, orthonormality)"]
ASSUMPTIONS = ["exact real/complex arithmetic in the theorems; tolerance tests idealised unless stated",
               "numerical comparison tolerance: proven budget + 1e-9 relative rounding slack"]
LEVEL_TEXT = 'Proof: lehmann_susc (definition = bosonic Lehmann sum with the beta-proportional zero-pole term at W=0, every spectrum, every n in Z) composed with susc_sum (formulas extracted from SusceptibilityPart.cpp/.h, exact degeneracy test), tau-form = correlator, forward transform, disconnected part = transform of the constant. Tie: differential oracle incl. n=0, negatives and the three subtraction paths.'
LEVEL_NOTE = 'Trusted: as C01. Five theorems idealise the 1e-8 degeneracy/residue tolerances to exact tests; value_with_library_tolerances states the exact deviation caused by the extracted tolerance tests, exact_when_no_near_degeneracy when it vanishes, known_finding_F14_residue_filter proves (for the extracted constants) that a two-level system split by 2e-8 at beta=1 returns 0 where the definition is >= 1/5: the property is FALSE of the current code there (known finding F14, replayed by corpus/C14).'
TECHNIQUE = 'Lean 4/Mathlib proof of the bosonic Lehmann representation over extracted formulas + differential oracle'
DESIGN_REF = "DESIGN.md section 6, C14"


def correspondence(ctx):
    pipeline.numeric_campaign(ctx, ["C14"], ("susc",), 30, 400, max_modes_quick=4, max_modes_thorough=5,
                              trunc=False, near=4,
                              nontrivial=lambda meta, s: meta["modes"] >= 2)


def replay(ctx, rp):
    return pipeline.replay(ctx, rp)
