"""C06 -- results independent of MPI ranks and OpenMP threads; runs always terminate."""
import struct
import pipeline
import pmlib

LEAN_MODULES = ["PomerolModel.Properties.C06"]
GENERATED = ["split"]
THEOREMS = ["Pomerol.Properties.C06." + t for t in (
    "colours_valid", "colours_cover", "component_colour_valid", "component_colours_cover", "component_computed_by_one_colour",
    "sender_holds_the_table", "tables_delivered", "evaluable_everywhere", "world_collectives_match",
    "colour_collectives_match", "last_root_loses_table", "world_barrier_mismatch",
    "all_ranks_hold_all_parts", "wrong_map_spreads_stale_data", "root_table_equals_serial_table",
    "root_table_independent_of_map_and_size", "double_execution_counts_twice", "distributed_step_refines_serial",
    "source_collective_pattern", "source_table_loop")]
RULE = ("a case = random model + workflow script (spectrum, G, chi from terms and from returned tables, split and unsplit "
        "container computation) executed by the real library under mpiexec with np in {2,3,4} (thorough: up to 16, incl. counts "
        "not dividing the number of jobs/components) x OMP_NUM_THREADS in {1,4} with seeded per-job delays (hook) under a "
        "wall-clock timeout; every rank's observations are compared with the single-rank single-thread run (structure exactly, "
        "numbers to 1e-9 relative); non-trivial = distinct (script, np, threads, delay seed) with np >= 2")
TRUSTED = ["harness/pipe.cpp under mpiexec (OpenMPI 4.1, oversubscribed), POMEROL_VERIF delay hook in mpi_skel.hpp",
           "the dispatcher theorems of C16 for the job-to-rank map"]
ASSUMPTIONS = ["PARTIAL: thread interleavings inside the OpenMP region, MPI progress and floating-point reduction order are "
               "runtime behaviour that the model cannot exhibit; they are observed by execution only",
               "process colours are modelled in exact arithmetic (the code uses double division)"]
LEVEL_TEXT = ("Proof (logic part): for every number of processes and components the colour arithmetic extracted from "
              "computeAll_split gives every process a valid colour, uses every colour, assigns each component to exactly one "
              "non-empty colour, the sender is a member of that colour and is the process holding the reduced table, tables are "
              "delivered and every component is evaluable on every process, all processes issue the same sequence of world "
              "collectives and all members of a colour the same sequence of colour collectives (no collective mismatch = the "
              "standard sufficient condition against hangs), with the dispatcher theorems of C16 for the per-communicator job "
              "distribution; and (Model/Collect, composed with the dispatcher theorems): for every terminated dispatch the "
              "broadcasts rooted at job_map[p] leave every rank with exactly the data computed by the executing ranks, the "
              "table reduced to the root equals the table a single rank accumulates (exact arithmetic), independent of the "
              "number of ranks and of the job map; the broadcast/reduce pattern itself is extracted from Hamiltonian.cpp and "
              "TwoParticleGF.cpp on every run. PARTIAL: floating-point re-association, OpenMP interleavings and actual "
              "termination of the MPI runtime are established by mpiexec runs with timeouts, not by a theorem.")
LEVEL_NOTE = "Trusted: MPI/OpenMP runtimes, the mapping of MPI_Comm_split rank order to world rank order; partial (see assumptions)."
TECHNIQUE = "Lean 4 proof of the rank/colour bookkeeping and collective-sequence matching + multi-rank differential execution with timeouts"
DESIGN_REF = "DESIGN.md section 6, C06"


def fl(h):
    return struct.unpack("<d", struct.pack("<Q", int(h, 16)))[0]


def is_hex(t):
    return len(t) == 16 and all(c in "0123456789abcdef" for c in t)


def compare(base, other, rank=0):
    """first difference between two case texts (None if equivalent).
    The frequency table returned by TwoParticleGF::compute is reduced to rank 0 of the communicator: on other ranks
    the returned vector is not meaningful (by design of the interface) and is not compared."""
    # `tpc list` prints the internal Status of every stored element: for identically vanishing components (no parts) it is
    # only advanced on the ranks of the colour that "computed" them; they are evaluable (to 0) everywhere, which is what the
    # property asks for and what `tpc evalall` / `tpc get` observe -- the status column is not compared across ranks
    skip = ("o chitab", "o chilong", "o tpclist") if rank != 0 else ("o tpclist",)
    A = [l for l in base.splitlines() if l.startswith(("o ", "c ")) and not l.startswith(skip or ("\0",))]
    B = [l for l in other.splitlines() if l.startswith(("o ", "c ")) and not l.startswith(skip or ("\0",))]
    if len(A) != len(B):
        return "different number of observation lines (%d vs %d); first extra: %s" % (len(A), len(B), (B[len(A):] or A[len(B):])[0][:120])
    for a, b in zip(A, B):
        if a == b:
            continue
        ta, tb = a.split(), b.split()
        if len(ta) != len(tb):
            return "line differs: %s | %s" % (a[:100], b[:100])
        vals = [fl(x) for x in ta if is_hex(x)]
        scale = 1.0 + max([abs(v) for v in vals if v == v and abs(v) < 1e300] + [0.0])
        for x, y in zip(ta, tb):
            if x == y:
                continue
            if is_hex(x) and is_hex(y):
                if abs(fl(x) - fl(y)) > 1e-9 * scale:
                    return "value differs in '%s': %r vs %r" % (" ".join(ta[:6]), fl(x), fl(y))
            else:
                return "line differs: %s | %s" % (a[:100], b[:100])
    return None


def script(r, tiny=False, ncomp=None, split=None, alldefault=False):
    m = pipeline.gen_model(r, max_modes=(r.choice([1, 2, 2]) if tiny else (r.choice([2, 2, 3]) if alldefault else r.choice([2, 3, 4]))))
    M = m.modes()
    s = pipeline.core_script(m, order=0, symm=r.choice(["default", "default", "ignore"]))
    s += ["dm %s" % pipeline.hx(r.choice([1.0, 4.0])), "fops"]
    for _ in range(2):
        s.append("gf %d %d 2 0 2 0 0" % (r.below(M), r.below(M)))
    for _ in range(2):
        q = [r.below(M) for _ in range(4)]
        s.append("chi %d %d %d %d %d 2 0 0 0 1 -1 1" % (q[0], q[1], q[2], q[3], r.below(2)))
    ncomp = ncomp or r.range(1, 4)
    # distinct stored components (no two of them aliases of each other): (i, j, j, i) with i <= j
    cand = [(i, j) for i in range(M) for j in range(i, M)]
    r.shuffle(cand)
    qs = [[i, j, j, i] for (i, j) in cand[:ncomp]]
    if alldefault:
        qs = []         # `prepareAll()` without arguments: every initial index combination, vanishing ones included
    s += ["tpc new", ("tpc prepareall %d %s" % (len(qs), " ".join("%d %d %d %d" % tuple(q) for q in qs))).strip(),
          "tpc computeall %d" % (r.below(2) if split is None else split), "tpc list", "tpc evalall 0 0 0"]
    for q in (qs or [[i, j, j, i] for (i, j) in cand[:3]]):
        s.append("tpc get %d %d %d %d 0 1 0" % tuple(q))
    if len(cand) >= 2:
        # a second bulk computation in the same process with ANOTHER number of components (another colouring of the ranks)
        n2 = (len(qs) % 3) + 1 if qs else 2
        r.shuffle(cand)
        qs2 = [[i, j, j, i] for (i, j) in cand[:n2]]
        s += ["tpc prepareall %d %s" % (len(qs2), " ".join("%d %d %d %d" % tuple(q) for q in qs2)),
              "tpc computeall %d" % (1 if split is None else split), "tpc list", "tpc evalall 0 1 0"]
        for q in qs2:
            s.append("tpc get %d %d %d %d 1 0 0" % tuple(q))
    return s


def near_degenerate(case_text):
    """finding F16: does the spectrum dumped by the single-rank run contain two levels closer than the term-merging
    tolerance (1e-8, with slack) that are not numerically equal?"""
    es = []
    for l in case_text.splitlines():
        t = l.split()
        if len(t) > 3 and t[0] == "o" and t[1] == "eig":
            n = int(t[3])
            es += [fl(x) for x in t[4:4 + n]]
    es.sort()
    return any(3e-10 < b - a < 3e-8 for a, b in zip(es, es[1:]))


def fixed_scripts():
    """minimised regression inputs that run first on every check"""
    L, v = pipeline.lab, pipeline.val
    # Hubbard atom in a field, default prepareAll() (all 16 quadruples, most of them vanishing), split computation
    s = ["site %s 1 2" % L("A"), "preset coulombS %s %s %s" % (L("A"), v(1.0), v(-0.3)), "preset magnetization %s %s" % (L("A"), v(0.2)),
         "dumplattice", "index 0", "ham", "symm default", "states", "hprepare", "hcompute", "dm %s" % pipeline.hx(10.0), "fops",
         "gf 0 0 2 0 2 0 0", "chi 0 1 1 0 0 2 0 1 0 1 -1 1",
         "tpc new", "tpc prepareall 0", "tpc computeall 1", "tpc list", "tpc evalall 0 1 0"]
    s += ["tpc get %d %d %d %d 0 1 0" % (a, b, c, d) for a in range(2) for b in range(2) for c in range(2) for d in range(2)]
    # finding F16: Anderson impurity with a weakly hybridised bath site (many-body levels split by ~2e-9)
    t = ["site %s 1 2" % L("A"), "preset coulombS %s %s %s" % (L("A"), v(1.0), v(-0.4)), "site %s 1 2" % L("b0"),
         "preset hop4 %s %s %s" % (L("A"), L("b0"), v(0.35)), "preset level %s %s" % (L("b0"), v(0.27)), "site %s 1 2" % L("b1"),
         "preset hop4 %s %s %s" % (L("A"), L("b1"), v(3e-5)), "preset level %s %s" % (L("b1"), v(-0.13)),
         "dumplattice", "index 0", "ham", "symm default", "states", "hprepare", "hcompute", "dm %s" % pipeline.hx(10.0), "fops",
         "chi 0 1 1 0 0 3 0 0 0 1 -1 1 2 0 1"]
    # user-set resonance tolerance (1e-13) on a model whose level splittings (~2e-11) lie between it and the default 1e-8
    u = [l.replace(v(3e-5), v(3e-6)) for l in t]
    u.insert(u.index("fops") + 1, "chitol %s" % pipeline.hx(1e-13))
    return [s, t, u]


def correspondence(ctx):
    r = ctx.rng
    thorough = ctx.tier == "thorough"
    exe = pmlib.build_harness("pipe")
    nscripts = 24 if thorough else 5
    configs = [(2, 1), (3, 4), (4, 1)] if not thorough else [(2, 1), (2, 4), (3, 1), (3, 4), (4, 2), (5, 1), (7, 2), (16, 1)]
    fixed = fixed_scripts()
    for k in range(-len(fixed), nscripts):
        if k < 0:
            s, tiny = fixed[k + len(fixed)], False
        # every fifth script is a tiny model run on more ranks than it has parts / blocks (idle ranks in every step)
        if k >= 0:
            tiny = k % 5 == 1
            # the first scripts fix the shapes that matter for the colour split: more components than ranks, fewer, equal
            forced = {0: (3, 1), 2: (2, 1), 3: (3, 0), 4: (None, 1)}.get(k % 5)
            s = script(r, tiny, *(forced or (None, None)), alldefault=(k % 5 == 4))
        base = pipeline.run_case(exe, s, "real", numeric=False, timeout=300)
        ctx.evaluations += 1
        if base.aborted():
            ctx.problem("sanitizer", "single-rank run aborted: %s" % base.sanitizer(), script=s, harness="pipe", variant="real",
                        log=base.err[-1500:], signature="c06-base-abort")
            continue
        for (np, th) in (configs if not tiny else [(6, 1), (9, 2) if thorough else (5, 2)]):
            seed = r.below(1 << 30)
            res = pipeline.run_case(exe, s, "real", numeric=False, timeout=(240 if thorough else 90), np=np, threads=th)
            ctx.evaluations += 1
            ctx.count("np_%d" % np)
            ctx.count("threads_%d" % th)
            ctx.distinct.add((tuple(s), np, th, seed))
            case = dict(script=s, np=np, threads=th, harness="pipe", variant="real")
            if res.rc == -999:
                ctx.problem("hang", "PROPFAIL[C06] mpiexec -np %d (threads %d) did not terminate within the time limit" % (np, th),
                            signature="c06-hang", **case)
                continue
            if res.rc != 0:
                ctx.problem("sanitizer", "mpiexec -np %d run failed: %s" % (np, res.sanitizer() or "exit %s" % res.rc),
                            log=res.err[-2000:], signature="c06-abort", **case)
                continue
            if len(res.ranks) != np:
                ctx.problem("propfail", "PROPFAIL[C06] only %d of %d ranks produced results" % (len(res.ranks), np),
                            signature="c06-missing-rank", **case)
                continue
            for rk, text in sorted(res.ranks.items()):
                d = compare(base.case, text, rk)
                if d:
                    chi_line = any(w in d for w in ("o chi", "o chiafter", "o chitab", "o tpcget", "o vertex"))
                    sig = "c06-neardeg" if (chi_line and near_degenerate(base.case)) else "c06-diff:" + d.split(":")[0][:30]
                    ctx.problem("propfail", "PROPFAIL[C06] rank %d of %d (threads %d) differs from the single-rank run: %s" % (rk, np, th, d),
                                signature=sig, **case)
                    break
        if len(ctx.samples) < 3:
            ctx.samples.append(dict(script=s[-10:], configs=configs))
        if sum(1 for p in ctx.problems if p["kind"] in ("propfail", "hang", "sanitizer") and p.get("signature") != "c06-neardeg") >= 3:
            break       # enough concrete failures (each hang costs a full timeout); the listed finding F16 does not count
    # the complex-matrix-element build under MPI (typed broadcasts of complex blocks): a complex-hopping model
    exec_c = pmlib.build_harness("pipe", "complex")
    for k in range(3 if thorough else 1):
        m = pipeline.gen_model(r, max_modes=r.choice([2, 3, 4]), cplx=True)
        M = m.modes()
        s = pipeline.core_script(m, order=0, symm=r.choice(["default", "ignore"]))
        s += ["dm %s" % pipeline.hx(2.0), "fops"] + ["gf %d %d 2 0 -1 0 0" % (r.below(M), r.below(M)) for _ in range(3)]
        s += ["chi %d %d %d %d 0 2 0 0 0 1 -1 1" % (r.below(M), r.below(M), r.below(M), r.below(M))]
        base = pipeline.run_case(exec_c, s, "complex", numeric=False, timeout=300)
        ctx.evaluations += 1
        if base.aborted():
            ctx.problem("sanitizer", "single-rank run (complex build) aborted: %s" % base.sanitizer(), script=s, harness="pipe", variant="complex",
                        log=base.err[-1500:], signature="c06-base-abort-complex")
            continue
        for (np, th) in ([(2, 1), (3, 2)] if not thorough else [(2, 1), (3, 2), (5, 1)]):
            res = pipeline.run_case(exec_c, s, "complex", numeric=False, timeout=(240 if thorough else 90), np=np, threads=th)
            ctx.evaluations += 1
            ctx.count("complex_np_%d" % np)
            ctx.distinct.add((tuple(s), np, th, "complex"))
            case = dict(script=s, np=np, threads=th, harness="pipe", variant="complex")
            if res.rc == -999:
                ctx.problem("hang", "PROPFAIL[C06] complex build: mpiexec -np %d did not terminate within the time limit" % np, signature="c06-hang", **case)
                continue
            if res.rc != 0 or len(res.ranks) != np:
                ctx.problem("sanitizer", "complex build: mpiexec -np %d run failed: %s" % (np, res.sanitizer() or "exit %s" % res.rc),
                            log=res.err[-2000:], signature="c06-abort", **case)
                continue
            for rk, text in sorted(res.ranks.items()):
                d = compare(base.case, text, rk)
                if d:
                    ctx.problem("propfail", "PROPFAIL[C06] complex build: rank %d of %d differs from the single-rank run: %s" % (rk, np, d),
                                signature="c06-diff-complex:" + d.split(":")[0][:30], **case)
                    break


def replay(ctx, rp):
    var = rp.get("variant", "real")
    exe = pmlib.build_harness("pipe", var)
    base = pipeline.run_case(exe, rp["script"], var, numeric=False)
    res = pipeline.run_case(exe, rp["script"], var, numeric=False, timeout=240, np=rp.get("np", 2), threads=rp.get("threads", 1))
    print("rc", res.rc)
    bad = res.rc != 0
    for rk, text in sorted(res.ranks.items()):
        d = compare(base.case, text, rk)
        print("rank", rk, d)
        bad = bad or bool(d)
    return 1 if bad else 0
