"""C11 -- Green's function symmetry, sum rules, tau/frequency duality."""
import pipeline

LEAN_MODULES = ['PomerolModel.Properties.C11']
GENERATED = ['gf']
THEOREMS = ["Pomerol.Properties.C11." + t for t in ['conj_symmetry', 'residue_sum_rule', 'high_frequency_tail', 'imaginary_part_negative', 'tau_is_minus_correlator', 'tau_nonpositive', 'tau_jump', 'tau_beta_is_density', 'tau_frequency_duality', 'tau_branches_agree']]
RULE = 'as C01, with complex z off the axis in conjugate pairs and mirrored components, tau grid incl. both ends; implementation values are checked against the Lehmann sum, against -<c(tau)c+>, and directly for Im G_ii<0, G_ii(tau)<=0, the jump and G_ii(beta-)=-<n_i>; non-trivial = distinct case with at least two modes'
TRUSTED = ["harness/pipe.cpp drives the real classes along the documented workflow; case-file protocol with hex doubles",
           "numeric oracle (lean/Driver/Numeric*.lean): IEEE double arithmetic of compiled Lean, full-Fock-space sums",
           "Eigen's SelfAdjointEigenSolver is not verified: its output is certified on every case (residual, orthonormality)"]
ASSUMPTIONS = ["exact real/complex arithmetic in the theorems; tolerance tests idealised unless stated",
               "numerical comparison tolerance: proven budget + 1e-9 relative rounding slack"]
LEVEL_TEXT = 'Proof: on the Lehmann form (Spec/GFProps): conj symmetry, sum of residues = Tr rho{c,c+} = delta_ij, z G(z) -> delta_ij at infinity, Im G_ii(i w)<0 for w>0, G(tau) = -<c(tau)c+>, G_ii(tau)<=0, G(0)+G(beta) = -delta_ij, G(beta) = -<c+c>, and the forward transform of the tau-formula (both overflow-safe branches, extracted from the source and proved equal) is the frequency value for every Matsubara number. Tie: translator-regenerated tau and frequency formulas; differential oracle on complex z, tau grid and end points.'
LEVEL_NOTE = 'Trusted: as C01. The duality is proved in the direction tau -> frequency (forward transform); the conditionally convergent inverse series is not formalised.'
TECHNIQUE = 'Lean 4/Mathlib proofs on the Lehmann form + differential oracle'
DESIGN_REF = "DESIGN.md section 6, C11"


def correspondence(ctx):
    pipeline.numeric_campaign(ctx, ["C11"], ("gf",), 30, 400, near=4, max_modes_quick=4, max_modes_thorough=5,
                              trunc=False,
                              nontrivial=lambda meta, s: meta["modes"] >= 2)


def replay(ctx, rp):
    return pipeline.replay(ctx, rp)
