"""C04 -- lattice terms and presets produce exactly the documented Hamiltonian."""
import pipeline

LEAN_MODULES = ["PomerolModel.Properties.C04"]
GENERATED = ["presets", "coreflags"]
THEOREMS = ["Pomerol.Properties.C04." + t for t in (
    "hamiltonian_is_sum_of_terms", "term_product_sound", "product_restart_was_wrong", "matrix_from_action",
    "presets_store_valid_terms", "hopping_adds_conjugate", "index_hamiltonian_total",
    "preset_changes_hamiltonian", "presets_add_documented_operators", "magnetization_adds_twice_the_documented_field",
    "kanamori_adds_documented_operator", "presets_are_hermitian", "kanamori_su2_invariant", "kanamori_su2_invariant_general",
    "kanamori_commutes_with_total_spin", "spin_exchange_su2_invariant", "spin_exchange_commutes_with_total_spin")]
RULE = ("a case = a lattice built by one preset call between two dumps (every preset incl. all overloads, same-site and "
        "two-site variants, random dyadic and real parameters) or by random mixtures of presets and user terms; the "
        "term storage is compared exactly with the model, the symbolic Hamiltonian with the sum of the stored terms "
        "read as ordered Jordan-Wigner products, the single-block matrix with the Jordan-Wigner matrix, the added "
        "operator with the documented formula written in number/spin operators, Hermiticity, and [H, S+] = 0 for "
        "Kanamori (U'=U-2J) and SS; non-trivial = distinct case")
TRUSTED = ["harness/pipe.cpp; lean/Driver/NumericMain.lean docMatrix: the documented operator of every preset transcribed by hand "
           "from include/pomerol/LatticePresets.h"]
ASSUMPTIONS = ["exact coefficient ring in the theorems", "hash of site labels injective (checked on the labels used)"]
LEVEL_TEXT = ("Proof: the product of a term's factors as accumulated by IndexHamiltonian::prepare (accumulation mode extracted "
              "from the source) denotes the ordered product of Jordan-Wigner operators in every CAR representation, the "
              "whole IndexHamiltonian denotes the sum over the stored terms, its construction never fails, the matrix "
              "filled from actRight is the matrix of that operator; every term a preset stores is valid (presets bypass "
              "the validation of addTerm). Every preset (model over the extracted factories/coefficients) adds exactly its documented operator for every number "
              "of orbitals, the result is self-adjoint for real parameters, and the Kanamori and spin-exchange operators commute with S+ and S- "
              "(theorems); additionally compared with the real presets by exact Jordan-Wigner matrices.")
LEVEL_NOTE = ("Trusted: Lean kernel, translator (operator sequences, coefficients and guards of the preset factories are regenerated from "
              "LatticePresets.cpp on every run). The documented operator of every preset, Hermiticity and the SU(2) invariance of the Kanamori "
              "and spin-exchange presets are now THEOREMS about the modelled presets for arbitrary orbital counts in every CAR representation "
              "(Spec/PresetSem.lean); the differential oracle compares the real presets with the hand-transcribed documentation formulas and "
              "with the model bit for bit. addMagnetization adds twice the documented field (known finding F15).")
TECHNIQUE = "Lean 4 proof (CAR-representation semantics of the term translation) + exact Jordan-Wigner differential oracle per preset"
DESIGN_REF = "DESIGN.md section 6, C04"

PRESETS = ["coulombS", "coulombP", "coulombP3", "level", "magnetization", "szsz", "ss", "hop7", "hop6", "hop5", "hop4"]


def preset_case(r, kind, cplx):
    """sites suited to the preset, one preset call between two dumps"""
    m = pipeline.Model()
    two_site = kind in ("szsz", "ss", "hop7", "hop6", "hop5", "hop4")
    same = two_site and r.chance(1, 3)
    if kind in ("coulombP", "coulombP3"):
        shape = (r.choice([2, 3]), 2)
    elif kind in ("szsz", "ss", "magnetization"):
        shape = (r.choice([1, 2]), 2)
    else:
        shape = (r.choice([1, 2]), r.choice([1, 2, 2, 3]))
    labels = list(pipeline.LABELS)
    r.shuffle(labels)
    m.sites = [(labels[0], shape[0], shape[1])]
    if two_site and not same:
        s2 = shape if kind in ("szsz", "ss", "hop4") else (r.choice([1, 2]), shape[1] if kind == "hop5" else r.choice([1, 2]))
        if (shape[0] * shape[1] + s2[0] * s2[1]) > 6:
            s2 = (1, s2[1])
        m.sites.append((labels[1], s2[0], s2[1]))
    # a spectator site sometimes
    if r.chance(1, 3) and sum(o * s for _, o, s in m.sites) <= 4:
        m.sites.append((labels[2], 1, r.choice([1, 2])))
    a = m.sites[0]
    b = m.sites[0] if (same or not two_site) else m.sites[1]
    v = lambda: pipeline.val(pipeline.rand_amp(r, False))
    L = pipeline.lab
    if kind == "coulombS":
        cmd = "preset coulombS %s %s %s" % (L(a[0]), v(), v())
    elif kind in ("coulombP", "coulombP3"):
        # couplings with the special relations at which single coefficients of the Kanamori form vanish
        # (U' = U - 2J = 0, U' - J = 0, J = 0, U = 0) as often as generic ones
        J = r.choice([0.0, 0.25, -0.5, 1.0, pipeline.rand_amp(r, False)])
        U = r.choice([2 * J, 3 * J, 0.0, pipeline.rand_amp(r, False), pipeline.rand_amp(r, False)])
        if kind == "coulombP":
            Up = r.choice([U - 2 * J, 0.0, J, pipeline.rand_amp(r, False)])
            cmd = "preset coulombP %s %s %s %s %s" % (L(a[0]), pipeline.val(U), pipeline.val(Up), pipeline.val(J), v())
        else:
            cmd = "preset coulombP3 %s %s %s %s" % (L(a[0]), pipeline.val(U), pipeline.val(J), v())
    elif kind == "level":
        cmd = "preset level %s %s" % (L(a[0]), v())
    elif kind == "magnetization":
        cmd = "preset magnetization %s %s" % (L(a[0]), v())
    elif kind in ("szsz", "ss"):
        cmd = "preset %s %s %s %s" % (kind, L(a[0]), L(b[0]), v())
    elif kind == "hop7":
        cmd = "preset hop7 %s %s %s %d %d %d %d" % (L(a[0]), L(b[0]), pipeline.val(pipeline.rand_amp(r, cplx)),
                                                    r.below(a[1]), r.below(b[1]), r.below(a[2]), r.below(b[2]))
    elif kind == "hop6":
        cmd = "preset hop6 %s %s %s %d %d %d" % (L(a[0]), L(b[0]), pipeline.val(pipeline.rand_amp(r, cplx)),
                                                 r.below(a[1]), r.below(b[1]), r.below(min(a[2], b[2])))
    elif kind == "hop5":
        cmd = "preset hop5 %s %s %s %d %d" % (L(a[0]), L(b[0]), pipeline.val(pipeline.rand_amp(r, cplx)), r.below(a[1]), r.below(b[1]))
    else:
        cmd = "preset hop4 %s %s %s" % (L(a[0]), L(b[0]), pipeline.val(pipeline.rand_amp(r, cplx)))
    lines = ["site %s %d %d" % (L(l), o, s) for l, o, s in m.sites]
    # some pre-existing terms so that "added" is a genuine difference
    if r.chance(1, 2):
        lines.append("preset level %s %s" % (L(a[0]), pipeline.val(0.5)))
    lines += ["dumplattice", cmd, "dumplattice", "index %d" % r.below(2), "ham", "symm ignore", "states", "hprepare"]
    return lines


def correspondence(ctx):
    pipeline.run_corpus(ctx, "C04", ["C04"])
    r = ctx.rng
    thorough = ctx.tier == "thorough"
    variants = ("real", "complex")
    reps = 12 if thorough else 3
    for variant in variants:
        scripts, kinds = [], []
        for kind in PRESETS:
            for _ in range(reps if (thorough or variant == "real") else 1):
                scripts.append(preset_case(r, kind, variant == "complex"))
                kinds.append(kind)
        # mixtures of presets and user terms
        for _ in range(60 if thorough else (16 if variant == "real" else 5)):
            m = pipeline.gen_model(r, max_modes=r.choice([3, 4, 5 if thorough else 4]), cplx=(variant == "complex"))
            # every third mixture: a copy of the finished lattice receives like terms and is put aside (the original must not notice)
            forked = r.chance(1, 3)
            scripts.append(pipeline.core_script(m, order=r.below(2), symm=r.choice(["ignore", "default"]), forked=forked)[:-1])
            kinds.append("mixture_forked" if forked else "mixture")
        res = pipeline.run_batch(scripts, variant)
        pipeline.collect(ctx, res, ["C04"])
        for k, s in zip(kinds, scripts):
            ctx.count("case_" + k)
            ctx.distinct.add((variant, tuple(s)))
        if not ctx.samples:
            ctx.samples = [dict(kind=k, script=s) for k, s in list(zip(kinds, scripts))[::7][:5]]


def replay(ctx, rp):
    return pipeline.replay(ctx, rp)
