"""C15 -- vertex and its precomputed Matsubara storage are transparent."""
import pmlib
import pipeline

LEAN_MODULES = ["PomerolModel.Properties.C15"]
GENERATED = ["mc4", "vertex"]
THEOREMS = [
    "Pomerol.Properties.C15.fill_lookup_transparent",
    "Pomerol.Properties.C15.fill_spec",
    "Pomerol.Properties.C15.vertex_formula",
]
RULE = ("window sizes N and integer triples (exhaustive box [-3N-3,3N+3]^3 for small N, random beyond); "
        "a case is (N,n1,n2,n3); non-trivial = distinct case that is a storage hit or whose bosonic slice index "
        "n1+n2+2N lies in [-2, 4N] (slice exists or is adjacent to the window)")
TRUSTED = ["harness/mc4.cpp instantiates the real MatsubaraContainer4 template with a tagging source whose "
           "value encodes (phase,n1,n2,n3) injectively for |n|<1024"]
ASSUMPTIONS = ["C++ long arithmetic does not overflow for the window sizes used (model uses unbounded Int)",
               "Eigen dense matrix and std::vector are modelled as total maps with explicit bounds errors"]


def gen_cases(ctx):
    lines = []
    if ctx.tier == "quick":
        ex_n, rnd = [0, 1, 2, 3], [(5, 400), (9, 400), (16, 300)]
    else:
        ex_n, rnd = [0, 1, 2, 3, 4, 5, 6], [(8, 3000), (13, 3000), (24, 3000), (40, 3000)]
    for N in ex_n:
        lines.append("fill %d" % N)
        b = 3 * N + 3
        for n1 in range(-b, b + 1):
            for n2 in range(-b, b + 1):
                for n3 in range(-b, b + 1):
                    lines.append("look %d %d %d" % (n1, n2, n3))
    for N, cnt in rnd:
        N = N + ctx.rng.below(3)
        lines.append("fill %d" % N)
        b = 3 * N + 3
        for _ in range(cnt):
            if ctx.rng.chance(1, 2):   # near the window: n1+n2 in range, n1,n3 near the slice borders
                n1 = ctx.rng.range(-N - 2, N + 1)
                n3 = ctx.rng.range(-N - 2, N + 1)
                n2 = ctx.rng.range(-2 * N - 2, 2 * N + 1) - n1
            else:
                n1, n2, n3 = (ctx.rng.range(-b, b) for _ in range(3))
            lines.append("look %d %d %d" % (n1, n2, n3))
    ctx.notes["exhaustive_N"] = ex_n
    return lines


def correspondence(ctx):
    exe = pmlib.build_harness("mc4")
    cmds = gen_cases(ctx)
    rc, out, err = pmlib.run_harness(exe, [], "\n".join(cmds) + "\n", timeout=900)
    san = pmlib.sanitizer_report(err)
    if rc != 0 or san:
        ctx.problem("sanitizer", "harness mc4 aborted: %s" % (san or "exit %d" % rc),
                    harness="mc4", stdin=cmds[:2000], log=err[-3000:], signature="mc4-abort")
        return
    rc2, dout = pmlib.run_driver("mc4", out)
    obs = out.splitlines()
    ctx.evaluations += len(obs)
    curN = None
    for l in obs:
        t = l.split()
        if t[0] == "fill":
            curN = int(t[1])
        else:
            n1, n2, n3, ph = int(t[1]), int(t[2]), int(t[3]), int(t[4])
            near = -2 <= n1 + n2 + 2 * curN <= 4 * curN
            if ph == 1 or near:
                ctx.distinct.add((curN, n1, n2, n3))
            ctx.count("hit" if ph == 1 else "miss")
    ctx.samples = [l for l in obs if l.startswith("look")][::max(1, len(obs) // 6)][:6]
    for l in dout.splitlines():
        if l.startswith("PROPFAIL"):
            body = l[len("PROPFAIL "):]
            N = int(body.split()[0].split("=")[1])
            case = " ".join(body.split(" :: ")[0].split()[1:])
            ctx.problem("propfail", "storage lookup differs from the direct value: " + body,
                        harness="mc4", stdin=["fill %d" % N, " ".join(case.split()[:4])], driver_mode="mc4",
                        signature="mc4-propfail")
        elif l.startswith("MISMATCH") or l.startswith("BADLINE"):
            ctx.problem("mismatch", "model and implementation disagree: " + l, harness="mc4", driver_mode="mc4")
        elif l.startswith("SUMMARY"):
            ctx.notes["driver"] = l
    if "driver" not in ctx.notes:
        ctx.problem("build", "driver produced no summary", log=dout[-2000:])
    # the real Vertex4 on real models: value() against chi - chi0 formed independently from the library's own chi and
    # G values (incl. n1 = n2 = n3, spin-dependent G), operator() against value() inside and outside the window
    pipeline.numeric_campaign(ctx, ["C15"], ("gf", "vertex"), 10, 150, max_modes_quick=3, max_modes_thorough=4,
                              ngf=2, nontrivial=lambda meta, sc: False)


def replay(ctx, rp):
    if rp.get("harness") == "pipe":
        return pipeline.replay(ctx, rp)
    exe = pmlib.build_harness(rp.get("harness", "mc4"))
    rc, out, err = pmlib.run_harness(exe, [], "\n".join(rp["stdin"]) + "\n")
    print(out)
    if err.strip():
        print(err[-2000:])
    rc2, dout = pmlib.run_driver(rp.get("driver_mode", "mc4"), out)
    print(dout)
    return 1 if ("PROPFAIL" in dout or "MISMATCH" in dout or rc != 0) else 0

LEVEL_TEXT = ("Proof: Lean 4 theorems fill_lookup_transparent (for every window size N>=0, every source and every "
              "integer triple the storage returns the direct value, and no storage access is out of range or "
              "uninitialised) and vertex_formula (Vertex4::value = chi - chi0 in any commutative ring), both about "
              "definitions regenerated from MatsubaraContainers.h / Vertex4.cpp by the translator on every run; "
              "tie additionally checked by running the real template with a tagging source against the compiled "
              "model (exhaustive for small N).")
LEVEL_NOTE = ("Trusted: Lean kernel, translator anchors/grammar, tagging harness; C++ long overflow and Eigen/std::vector "
              "internals are modelled (bounds made explicit), not verified.")
TECHNIQUE = "Lean 4 proof over translator-regenerated index formulas + differential run of the real template"
DESIGN_REF = "DESIGN.md section 6, C15"
