"""C09 -- density matrix is the normalised Gibbs state; averages are traces."""
import pipeline

LEAN_MODULES = ['PomerolModel.Properties.C09']
GENERATED = ['dm']
THEOREMS = ["Pomerol.Properties.C09." + t for t in ['weights_normalised', 'weights_positive', 'weight_ratio', 'shift_invariance', 'no_overflow', 'average_energy_is_trace', 'diagonal_average_is_trace', 'operator_average_is_trace', 'occupancies_are_traces', 'computed_weights_are_gibbs', 'ensemble_average_is_trace']]
RULE = 'a case = random model, beta from 1e-3 to 1e3, optional large energy offset through level terms; weights, <H>, <N>, <n_i>, <n_i n_j>, <c+_i c_j> compared with traces over the full Fock space; non-trivial = distinct case'
TRUSTED = ["harness/pipe.cpp drives the real classes along the documented workflow; case-file protocol with hex doubles",
           "numeric oracle (lean/Driver/Numeric*.lean): IEEE double arithmetic of compiled Lean, full-Fock-space sums",
           "Eigen's SelfAdjointEigenSolver is not verified: its output is certified on every case (residual, orthonormality)"]
ASSUMPTIONS = ["exact real/complex arithmetic in the theorems; tolerance tests idealised unless stated",
               "numerical comparison tolerance: proven budget + 1e-9 relative rounding slack"]
LEVEL_TEXT = "Proof: for the weight formula extracted from DensityMatrixPart.cpp (dm_weight): normalised weights are the Gibbs weights independently of the reference energy, are positive, sum to one, have ratio exp(-beta(Ea-Eb)); with the ground energy as reference every exponent is <= 0, so unnormalised weights lie in (0,1] and 1 <= Z <= dim (no overflow in exact arithmetic); the library's sums over eigenvector components are Tr(rho O) for Fock-diagonal O, Tr(rho H) and Tr(rho A). Tie: all weights and averages of the real library against full-space traces."
LEVEL_NOTE = 'Trusted: as C01; Float overflow/underflow behaviour is observed (beta up to 1e3), not proved.'
TECHNIQUE = 'Lean 4/Mathlib proofs over the extracted weight formula + differential oracle'
DESIGN_REF = "DESIGN.md section 6, C09"


def correspondence(ctx):
    pipeline.numeric_campaign(ctx, ["C09"], ("susc",), 40, 500, max_modes_quick=4, max_modes_thorough=5,
                              trunc=False, betas=(1e-3, 0.1, 1.0, 10.0, 100.0, 1000.0), shifts=(5.0, -3.0, 200.0, -5000.0, 5000.0, 1e5),
                              nontrivial=lambda meta, s: meta["modes"] >= 2)


def replay(ctx, rp):
    return pipeline.replay(ctx, rp)
