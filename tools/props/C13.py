"""C13 -- the 2PGF container honours the exchange symmetries regardless of request history."""
import pipeline

LEAN_MODULES = ["PomerolModel.Properties.C13"]
GENERATED = ["coreflags", "chi4"]
THEOREMS = ["Pomerol.Properties.C13." + t for t in (
    "exchange_first_pair", "alias_value", "lookup_value_any_history", "listed_elements_evaluable_after_bulk",
    "stale_nontrivial_was_wrong", "alias_table_entries", "exchange_second_pair", "exchange_second_pair_matsubara")]
RULE = ("a case = random model (2-4 modes) and a random history of fill / prepareAll / computeAll(split|nosplit) / lookup / "
        "element prepare / element compute / list / evaluate-all calls, bulk computations that discard the terms followed by the same "
        "request again, over random quadruples (incl. repeated and exchanged "
        "ones); after every call the complete maps (keys, owner element, alias permutation, status) are compared with the model, "
        "every evaluation with a two-particle Green's function constructed directly for that quadruple, and the exchange "
        "relations between directly computed components with each other; non-trivial = distinct history with at least one "
        "alias evaluation or a repeated fill")
TRUSTED = ["harness/pipe.cpp (tpc commands)"]
ASSUMPTIONS = ["the 3<->4 exchange symmetry of chi itself is checked numerically (implementation values and full-space oracle), "
               "only the 1<->2 exchange is a Lean theorem about the definition"]
LEVEL_TEXT = ("Proof: over the container state machine (alias permutation entries, the fourth-frequency arithmetic and whether fill "
              "clears both maps are extracted from the source): for ANY history of calls, a looked-up quadruple whose element "
              "is computed evaluates to chi of that quadruple for any family chi with the two exchange symmetries (stored or "
              "alias alike); after prepareAll + computeAll every listed element is evaluable; chi_jikl(w2,w1;w3) = -chi_ijkl(w1,w2;w3) "
              "is proved for the definition (signed sum over orderings). Tie: exact replay of random histories; every value "
              "against a directly constructed object.")
LEVEL_NOTE = "Trusted: Lean kernel, translator flags; both exchange symmetries of chi are theorems (1<->2 by relabelling the orderings, 3<->4 by the cyclic identity of the multi-term in all resonance classes), so the ChiFamily hypothesis of the container theorems is inhabited by the definition of chi (chiFamilyOfDef)."
TECHNIQUE = "Lean 4 invariant proof over a request-history state machine + exact differential replay of histories"
DESIGN_REF = "DESIGN.md section 6, C13"


def history(r, M, thorough):
    ops = ["tpc new"]
    nops = r.range(4, 40 if thorough else 12)

    def quad():
        q = [r.below(M) for _ in range(4)]
        k = r.below(4)
        if k == 0:
            q[1] = q[0]
        elif k == 1:
            q[3] = q[2]
        return q

    pool = [quad() for _ in range(3)]

    def pick():
        if r.chance(2, 3):
            q = list(r.choice(pool))
            k = r.below(4)
            if k == 1:
                q[0], q[1] = q[1], q[0]
            elif k == 2:
                q[2], q[3] = q[3], q[2]
            elif k == 3:
                q = [q[1], q[0], q[3], q[2]]
            return q
        return quad()

    def trip():
        return (r.range(-2, 2), r.range(-2, 2), r.range(-2, 2))

    for _ in range(nops):
        k = r.below(14)
        if k < 2:
            qs = [pick() for _ in range(r.range(1, 3))]
            ops.append("tpc fill %d %s" % (len(qs), " ".join("%d %d %d %d" % tuple(q) for q in qs)))
        elif k < 5:
            qs = [pick() for _ in range(r.range(1, 3))]
            ops.append("tpc prepareall %d %s" % (len(qs), " ".join("%d %d %d %d" % tuple(q) for q in qs)))
        elif k < 7:
            ops.append("tpc computeall %d" % r.below(2))
            ops.append("tpc evalall %d %d %d" % trip())
        elif k < 9:
            ops.append("tpc get %d %d %d %d %d %d %d" % (tuple(pick()) + trip()))
        elif k < 10:
            # on-demand element: a single look-up whose result is prepared, computed and evaluated
            n1 = r.range(-2, 2)
            ops.append("tpc ondemand %d %d %d %d %d %d %d" % (tuple(pick()) + (n1, n1 + r.choice([1, -1, 2]), r.range(-2, 2))))
        elif k < 11:
            ops.append("tpc prepare %d %d %d %d" % tuple(pick()))
        elif k < 12:
            ops.append("tpc compute %d %d %d %d" % tuple(pick()))
        else:
            ops.append("tpc list")
    ops.append("tpc list")
    # closing segment: whatever happened before, after a bulk prepare + compute every alias (none, 1<->2, 3<->4, both)
    # of a few quadruples with a good chance of a non-zero chi is read at generic frequencies (n1 != n2, n3 generic)
    close = []
    for _ in range(2):
        i, j = r.below(M), r.below(M)
        close.append(r.choice([[i, j, j, i], [i, j, i, j], list(r.choice(pool))]))
    if r.chance(1, 2):
        # the same set was computed before with a frequency table and DISCARDED terms: the second bulk request must rebuild
        ops.append("tpc prepareall %d %s" % (len(close), " ".join("%d %d %d %d" % tuple(q) for q in close)))
        ops.append("tpc computeall %d purge" % r.below(2))
    ops.append("tpc prepareall %d %s" % (len(close), " ".join("%d %d %d %d" % tuple(q) for q in close)))
    if r.chance(1, 2):      # the same bulk request again (must be harmless), sometimes reordered / with an alias of an element
        again = list(reversed(close)) if r.chance(1, 2) else [close[0], [close[1][1], close[1][0], close[1][2], close[1][3]]]
        ops.append("tpc prepareall %d %s" % (len(again), " ".join("%d %d %d %d" % tuple(q) for q in again)))
    ops.append("tpc computeall %d" % r.below(2))
    for q in close:
        for v in ([q[0], q[1], q[2], q[3]], [q[1], q[0], q[2], q[3]], [q[0], q[1], q[3], q[2]], [q[1], q[0], q[3], q[2]]):
            n1 = r.range(-2, 2)
            n2 = n1 + r.choice([1, -1, 2])
            n3 = r.choice([n1 + 1, n2 + 1, n1 - 2])
            ops.append("tpc get %d %d %d %d %d %d %d" % (tuple(v) + (n1, n2, n3)))
    # an on-demand element that is an alias (both pairs exchanged) of nothing stored yet
    i, j = r.below(M), r.below(M)
    n1 = r.range(-2, 2)
    ops.append("tpc ondemand %d %d %d %d %d %d %d" % (max(i, j), min(i, j), min(i, j), max(i, j), n1, n1 + 1, n1 - 1))
    ops.append("tpc evalall %d %d %d" % trip())
    return ops


def correspondence(ctx):
    r = ctx.rng
    pipeline.run_corpus(ctx, "C13", ["C13"])
    thorough = ctx.tier == "thorough"
    scripts = []
    for _ in range(600 if thorough else 40):
        m = pipeline.gen_model(r, max_modes=r.choice([2, 3, 3, 4]))
        M = m.modes()
        s = pipeline.core_script(m, order=r.below(2), symm=r.choice(["default", "ignore"]))
        s += ["dm %s" % pipeline.hx(r.choice([0.5, 2.0, 5.0])), "fops"]
        s += history(r, M, thorough)
        # exchange relations between directly constructed components
        for _ in range(3):
            i, j, k, l = (r.below(M) for _ in range(4))
            n1, n2, n3 = r.range(-2, 2), r.range(-2, 2), r.range(-2, 2)
            s.append("chi %d %d %d %d 0 1 %d %d %d" % (i, j, k, l, n1, n2, n3))
            s.append("chi %d %d %d %d 0 1 %d %d %d" % (j, i, k, l, n2, n1, n3))
            s.append("chi %d %d %d %d 0 1 %d %d %d" % (i, j, l, k, n1, n2, n1 + n2 - n3))
        scripts.append(s)
    res = pipeline.run_batch(scripts, "real")
    pipeline.collect(ctx, res, ["C13"])
    for s, rs in zip(scripts, res):
        fills = sum(1 for l in s if l.startswith(("tpc fill", "tpc prepareall")))
        if fills >= 2 or " 6 " in rs.case or " 7 " in rs.case:
            ctx.distinct.add(tuple(s))
        ctx.count("history_ops", sum(1 for l in s if l.startswith("tpc")))
    ctx.samples = [dict(history=[l for l in s if l.startswith("tpc")][:14]) for s in scripts[:3]]


def replay(ctx, rp):
    return pipeline.replay(ctx, rp)
