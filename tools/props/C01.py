"""C01 -- single-particle Matsubara Green's function equals its definition."""
import pipeline

LEAN_MODULES = ['PomerolModel.Properties.C01', 'PomerolModel.Properties.C01Merge']
GENERATED = ['gf']
THEOREMS = ["Pomerol.Properties.C01." + t for t in ['gf_equals_definition', 'lehmann_any_basis', 'terms_sum_to_lehmann', 'dropped_terms_budget', 'container_equals_standalone', 'dropped_terms_budget_extracted', 'sparse_walk_is_full_sum', 'sparse_walk_computes_lehmann_part', 'block_pairs_complete', 'loops_compute_lehmann_sum']] + ["Pomerol.Properties.C01Merge." + t for t in ['addTerm_spec_approx', 'addAll_spec_approx', 'merge_error_one', 'merged_value_error', 'merged_value_error_matsubara']]
RULE = 'a case = random lattice model (1-3 sites, presets and user terms incl. N- or S_z-breaking ones), symmetry mode, beta, all/sampled (i,j) incl. off-diagonal, Matsubara numbers incl. negative and large; value compared with the full-Fock-space Lehmann sum from the certified eigen-system; non-trivial = distinct case with at least two modes'
TRUSTED = ["harness/pipe.cpp drives the real classes along the documented workflow; case-file protocol with hex doubles",
           "numeric oracle (lean/Driver/Numeric*.lean): IEEE double arithmetic of compiled Lean, full-Fock-space sums",
           "Eigen's SelfAdjointEigenSolver is not verified: its output is certified on every case (residual, orthonormality)"]
ASSUMPTIONS = ["exact real/complex arithmetic in the theorems; tolerance tests idealised unless stated",
               "numerical comparison tolerance: proven budget + 1e-9 relative rounding slack"]
LEVEL_TEXT = 'Proof: lehmann_single (Gdef = Lehmann sum for every spectrum, beta, pair of matrices, Matsubara number; definition with matrix exponentials, any unitary basis via corr_conj) composed with gf_sum/gf_matsubara (the Residue/Pole/term formulas extracted from GreensFunctionPart.cpp sum to that Lehmann sum), plus the term-list bookkeeping theorem (kept + dropped = all, each dropped residue below the extracted tolerance). Tie: every G value of the real library (stand-alone and container) is compared with the full-space Lehmann sum computed from the certified eigen-system within the dropped-residue budget.'
LEVEL_NOTE = "Trusted: Lean kernel + Mathlib; translator anchors; Eigen's eigensolver (certified per case); the loop structure (block-pair selection by the merge walk over the two bimaps, index-chasing walk over sparse rows/columns) is modelled (Model/GFPart.lean, guard flags extracted from the source) and PROVED to produce exactly the Lehmann sum (loops_compute_lehmann_sum); that model is tied to the code by the extracted flags and by the numeric oracle comparing the implementation with the same sum; IEEE rounding not modelled."
TECHNIQUE = 'Lean 4/Mathlib proof of the Lehmann representation over translator-regenerated formulas + full-Fock-space differential oracle'
DESIGN_REF = "DESIGN.md section 6, C01"


def correspondence(ctx):
    pipeline.numeric_campaign(ctx, ["C01"], ("gf",), 30, 400, near=4, max_modes_quick=4, max_modes_thorough=5,
                              trunc=False,
                              nontrivial=lambda meta, s: meta["modes"] >= 2)


def replay(ctx, rp):
    return pipeline.replay(ctx, rp)
