"""C16 -- job dispatcher runs every job exactly once and always terminates."""
import os
import pmlib

LEAN_MODULES = ["PomerolModel.Properties.C16", "PomerolModel.Properties.C16Dedicated", "PomerolModel.Model.DispatcherDedicated"]
GENERATED = ["disp"]
THEOREMS = [
    "Pomerol.Properties.C16.every_job_at_most_once",
    "Pomerol.Properties.C16.every_job_exactly_once_at_exit",
    "Pomerol.Properties.C16.map_names_executing_rank",
    "Pomerol.Properties.C16.no_leaked_messages",
    "Pomerol.Properties.C16.no_deadlock",
    "Pomerol.Properties.C16.finitely_many_receptions",
    # dedicated-master pattern (rank 0 only drives `for (; !master.is_finished();) { order(); check_workers(); }`)
    "Pomerol.Properties.C16.dedicated_every_job_at_most_once",
    "Pomerol.Properties.C16.dedicated_every_job_exactly_once_at_exit",
    "Pomerol.Properties.C16.dedicated_map_names_executing_rank",
    "Pomerol.Properties.C16.dedicated_no_leaked_messages",
    "Pomerol.Properties.C16.dedicated_no_deadlock",
    "Pomerol.Properties.C16.dedicated_finitely_many_receptions",
    "Pomerol.Properties.C16.dedicated_master_exit_after_finish",
    # the loop conditions of MPIMaster::order / check_workers as generated from the source are the ones the models use
    "Pomerol.Model.DispD.orderCondition_matches_orderLoop",
    "Pomerol.Model.DispD.finishCondition_matches_finishPhase",
]
RULE = ("a case = (ranks P, rounds with job-complexity lists, schedule seed, message-visibility probability); the real "
        "dispatcher sources run on a mock MPI under the seeded schedule; non-trivial = distinct case with at least "
        "one job and at least one delayed (unseen although sent) message")
TRUSTED = ["harness/mockmpi/boost/mpi.hpp: mock of the Boost.MPI subset with MPI posted-receive matching; ranks are "
           "token-passing threads", "harness/disp.cpp includes the unmodified src/mpi_dispatcher/mpi_dispatcher.cpp "
           "and include/mpi_dispatcher/mpi_skel.hpp of the tree under test"]
ASSUMPTIONS = ["MPI semantics as listed in lean/PomerolModel/Model/Dispatcher.lean (non-overtaking, local completion of "
               "small standard-mode sends, test() sees a message at most once, cancel of an unmatched receive succeeds)",
               "termination is stated as no-deadlock + finitely many receptions under eventual message visibility"]
LEVEL_TEXT = ("Proof: Lean 4 theorems over the transition-system models of mpi_skel::run + MPIMaster + MPIWorker and of the "
              "dedicated-master loop on MPIMaster::is_finished() (loop conditions generated from the source), for "
              "every number of ranks, every job list and every schedule/message delay: each job executed at most once, "
              "exactly once when all ranks have left the loop, the dispatch map names the executing rank, no message is "
              "left over, a final state is reachable from every reachable state and only finitely many receptions can "
              "happen. Tie: the unmodified dispatcher sources run on a mock MPI under seeded schedules and every "
              "test()/send/job event is replayed against the compiled model step by step.")
LEVEL_NOTE = ("Trusted: Lean kernel; the MPI semantics encoded in the model and in the mock (validated against each other "
              "and, in the thorough tier, against real mpiexec runs); hand-written model tied by differential replay only.")
TECHNIQUE = "Lean 4 invariant proof over a hand-written transition system + schedule-controlled differential replay of the real code on mock MPI"
DESIGN_REF = "DESIGN.md section 6, C16"


def harness():
    return pmlib.build_harness("disp", link_lib=False, extra_flags=["-pthread"],
                               extra_inc=[os.path.join(pmlib.HARNESS_DIR, "mockmpi"),
                                          os.path.join(pmlib.REPO, "src", "mpi_dispatcher")])


def gen_case(ctx, big):
    r = ctx.rng
    P = r.choice([1, 2, 3, 4, 7, 16]) if big else r.choice([1, 2, 2, 3, 3, 4])
    nrounds = r.range(1, 5 if big else 3)
    rounds = []
    for _ in range(nrounds):
        kind = r.below(6)
        J = 0 if kind == 0 else (r.range(1, max(1, P - 1)) if kind == 1 else r.range(1, 40 if big else 9))
        if r.chance(1, 4):
            cs = [1] * J                       # all equal complexities
        else:
            cs = [r.range(1, 50) for _ in range(J)]
        rounds.append(cs)
    see = r.choice([(1, 1), (3, 4), (1, 2), (1, 5)])
    return P, rounds, r.below(1 << 30), see


def run_case(exe, P, rounds, seed, see, max_steps=None, nomaster=False, boss=0):
    if max_steps is None:
        max_steps = 3000 + 60 * (P + 2) * (sum(len(c) for c in rounds) + 4 * len(rounds)) * see[1] // see[0]
    stdin = "\n".join(" ".join(map(str, c)) if c else "none" for c in rounds) + "\n"
    rc, out, err = pmlib.run_harness(exe, [str(P), str(seed), str(max_steps), str(see[0]), str(see[1])]
                                     + (["nomaster", str(boss)] if nomaster else []), stdin, timeout=300)
    return rc, out, err, stdin


def check_output(ctx, P, rounds, seed, see, rc, out, err, stdin, nomaster=False, boss=0):
    case = dict(P=P, rounds=rounds, sched_seed=seed, see=list(see))
    if nomaster:
        case["nomaster"] = True
        case["boss"] = boss
    san = pmlib.sanitizer_report(err)
    if rc != 0 or san:
        ctx.problem("sanitizer" if rc != -999 else "hang",
                    "dispatcher harness %s" % (san or ("timed out" if rc == -999 else "exit %d" % rc)),
                    case=case, log=err[-2000:], signature="disp-abort")
        return
    rc2, dout = pmlib.run_driver("disp", "P %d\n%s%s" % (P, "mode nomaster %d\n" % boss if nomaster else "", out))
    for l in dout.splitlines():
        if l.startswith("PROPFAIL"):
            ctx.problem("propfail", l, case=case, signature="disp-" + " ".join(l.split()[2:5]))
        elif l.startswith("MISMATCH"):
            # the model and the code disagree: recorded (a few), but the search for a property-level failure goes on
            if sum(1 for p in ctx.problems if p["kind"] == "mismatch") < 3:
                ctx.problem("mismatch", l, case=case)
        elif l.startswith("SUMMARY"):
            for kv in l.split()[1:]:
                k, v = kv.split("=")
                ctx.count("driver_" + k, int(v))
    if "SUMMARY" not in dout:
        ctx.problem("build", "driver produced no summary", log=dout[-1500:], case=case)
    ntests = out.count("\nt ")
    unseen = sum(1 for l in out.splitlines() if l.startswith("t ") and l.endswith(" 0"))
    ctx.count("test_events", ntests)
    ctx.count("ranks_%d" % P)
    if nomaster:
        ctx.count("dedicated_master_runs")
        ctx.count("dedicated_master_on_rank_0" if boss == 0 else "dedicated_master_on_other_rank")
    for c in rounds:
        ctx.count("jobs_0" if not c else ("jobs_lt_workers" if len(c) < P else "jobs_ge_workers"))
    if any(rounds) and unseen > 0:
        ctx.distinct.add((P, tuple(map(tuple, rounds)), seed, see))


def correspondence(ctx):
    exe = harness()
    big = ctx.tier == "thorough"
    cases = []
    # small exhaustive-ish family first: every P<=3, J<=3, two visibility regimes, several seeds
    for P in (1, 2, 3):
        for J in (0, 1, 2, 3):
            for see in ((1, 1), (1, 3)):
                for sd in range(3 if not big else 12):
                    cases.append((P, [list(range(J, 0, -1)), [1] * J], sd * 7919 + P * 31 + J, see))
    n_random = 60 if not big else 1500
    for _ in range(n_random):
        cases.append(gen_case(ctx, big))
    for (P, rounds, seed, see) in cases:
        rc, out, err, stdin = run_case(exe, P, rounds, seed, see)
        ctx.evaluations += 1
        check_output(ctx, P, rounds, seed, see, rc, out, err, stdin)
        if len(ctx.samples) < 6 and any(rounds):
            ctx.samples.append(dict(P=P, rounds=rounds, sched_seed=seed, see=list(see),
                                    first_events=out.splitlines()[:12]))
        if sum(1 for p in ctx.problems if p["kind"] in ("propfail", "hang", "sanitizer")) >= 3:
            break
    # the dedicated-master pattern: rank 0 only drives `for (; !master.is_finished();) { order(); check_workers(); }`
    # (include_boss = false), ranks 1..P-1 run the worker loop; a round = the list of job ids handed to MPIMaster
    r = ctx.rng
    dcases = []
    for P in (2, 3, 4):
        for J in (0, 1, 2, 4):
            for see in ((1, 1), (1, 3)):
                dcases.append((P, [list(range(J)), list(range(J - 1, -1, -1))], P * 131 + J * 17 + see[1], see, (J + see[1]) % P))
    for _ in range(30 if not big else 600):
        P = r.choice([2, 2, 3, 3, 4, 5] if not big else [2, 3, 4, 5, 8, 16])
        rounds = []
        for _ in range(r.range(1, 3)):
            J = r.choice([0, 0, 1, r.range(1, max(1, P - 2)), r.range(1, 9 if not big else 30)])
            ids = list(range(J)) if r.chance(1, 2) else [3 * j + 1 for j in range(J)]      # job ids need not be 0..J-1
            r.shuffle(ids)
            rounds.append(ids)
        dcases.append((P, rounds, r.below(1 << 30), r.choice([(1, 1), (3, 4), (1, 2), (1, 5)]), r.choice([0, r.below(P), P - 1])))
    for (P, rounds, seed, see, boss) in dcases:
        rc, out, err, stdin = run_case(exe, P, rounds, seed, see, nomaster=True, boss=boss)
        ctx.evaluations += 1
        check_output(ctx, P, rounds, seed, see, rc, out, err, stdin, nomaster=True, boss=boss)
        if sum(1 for p in ctx.problems if p["kind"] in ("propfail", "hang", "sanitizer")) >= 3:
            break
    real_mpi(ctx, big)


def real_mpi(ctx, big):
    """The same properties observed on the REAL Boost.MPI/OpenMPI stack (mpiexec), with hook-seeded job delays:
    validates the MPI semantics encoded in the mock and in the model against the genuine runtime."""
    import tempfile
    exe = pmlib.build_harness("disp_mpi", link_lib=True)
    r = ctx.rng
    cases = []
    for P in ([2, 3] if not big else [2, 3, 4, 5, 8]):
        for _ in range(2 if not big else 6):
            rounds = []
            for _ in range(r.range(1, 3)):
                kind = r.below(5)
                J = 0 if kind == 0 else (r.range(1, max(1, P - 1)) if kind == 1 else r.range(1, 12))
                rounds.append([r.range(1, 9) for _ in range(J)])
            cases.append((P, rounds, r.below(1 << 30)))
    for (P, rounds, dseed) in cases:
        case = dict(P=P, rounds=rounds, delay_seed=dseed, real_mpi=True)
        with tempfile.TemporaryDirectory(prefix="dispmpi") as d:
            rf = os.path.join(d, "rounds.txt")
            with open(rf, "w") as f:
                f.write("\n".join(" ".join(map(str, c)) if c else "none" for c in rounds) + "\n")
            rc, out, err = pmlib.run_harness(exe, [rf, os.path.join(d, "out")], timeout=120, mpi_np=P,
                                             env={"POMEROL_VERIF_DELAY_SEED": str(dseed)})
            ctx.evaluations += 1
            ctx.count("real_mpi_runs")
            if rc == -999:
                ctx.problem("hang", "PROPFAIL real mpiexec -np %d: the dispatch did not terminate" % P, case=case, signature="dispmpi-hang")
                continue
            if rc != 0:
                ctx.problem("sanitizer", "real mpiexec -np %d run failed: %s" % (P, pmlib.sanitizer_report(err) or "exit %s" % rc),
                            case=case, log=err[-2000:], signature="dispmpi-abort")
                continue
            ranks = []
            for k in range(P):
                fn = os.path.join(d, "out.%d" % k)
                ranks.append(open(fn).read().splitlines() if os.path.exists(fn) else [])
        bad = None
        if any((not t) or t[-1] != "end" for t in ranks):
            bad = "not every rank returned from all rounds"
        else:
            for k, comp in enumerate(rounds):
                J = len(comp)
                runs, maps = [], []
                for t in ranks:
                    a = t.index("round %d %d" % (k, J))
                    b = next(i for i in range(a + 1, len(t)) if t[i].startswith("m"))
                    runs += [tuple(map(int, l.split()[1:])) for l in t[a + 1:b] if l.startswith("r ")]
                    mm = list(map(int, t[b].split()[1:]))
                    maps.append(dict(zip(mm[0::2], mm[1::2])))
                for j in range(J):
                    who = [rk for (rk, jj) in runs if jj == j]
                    if len(who) != 1:
                        bad = "round %d: job %d executed %d times" % (k, j, len(who))
                    elif any(m.get(j) != who[0] for m in maps):
                        bad = "round %d: job %d ran on rank %d, maps say %s" % (k, j, who[0], [m.get(j) for m in maps])
                if any(len(m) != J for m in maps) or any(m != maps[0] for m in maps):
                    bad = bad or "round %d: returned maps differ between ranks or have the wrong size" % k
                if len(set(rk for rk, _ in runs)) > 1:
                    ctx.distinct.add((P, tuple(map(tuple, rounds)), dseed))
        if bad:
            ctx.problem("propfail", "PROPFAIL real mpiexec -np %d: %s" % (P, bad), case=case, signature="dispmpi-" + bad.split(":")[-1][:30])


def replay(ctx, rp):
    c = rp["case"]
    if c.get("real_mpi"):
        import tempfile
        exe = pmlib.build_harness("disp_mpi", link_lib=True)
        with tempfile.TemporaryDirectory(prefix="dispmpi") as d:
            rf = os.path.join(d, "rounds.txt")
            with open(rf, "w") as f:
                f.write("\n".join(" ".join(map(str, x)) if x else "none" for x in c["rounds"]) + "\n")
            rc, out, err = pmlib.run_harness(exe, [rf, os.path.join(d, "out")], timeout=120, mpi_np=c["P"],
                                             env={"POMEROL_VERIF_DELAY_SEED": str(c["delay_seed"])})
            print("rc", rc)
            for k in range(c["P"]):
                fn = os.path.join(d, "out.%d" % k)
                print("rank", k, open(fn).read() if os.path.exists(fn) else "(no output)")
        return 1 if rc != 0 else 0
    exe = harness()
    nm = bool(c.get("nomaster"))
    rc, out, err, stdin = run_case(exe, c["P"], c["rounds"], c["sched_seed"], tuple(c["see"]), nomaster=nm, boss=c.get("boss", 0))
    print(out[-3000:])
    rc2, dout = pmlib.run_driver("disp", "P %d\n%s%s" % (c["P"], "mode nomaster %d\n" % c.get("boss", 0) if nm else "", out))
    print(dout)
    return 1 if ("PROPFAIL" in dout or "MISMATCH" in dout or rc != 0) else 0
