"""C07 -- the symmetry analysis yields a sound partition of Fock space for every lattice."""
import pipeline

LEAN_MODULES = ["PomerolModel.Properties.C07"]
GENERATED = ["coreflags"]
THEOREMS = ["Pomerol.Properties.C07." + t for t in (
    "every_state_in_exactly_one_block", "address_round_trip", "block_sizes_add_up", "same_block_iff_same_quantum_numbers",
    "accepted_integral_is_diagonal", "no_hamiltonian_element_between_blocks", "creation_single_target",
    "annihilation_single_target", "quadratic_single_target", "analysis_completes_for_every_lattice",
    "nonadditive_integral_was_accepted", "source_tests_additivity", "source_identifies_close_quantum_numbers",
    "identification_is_identity_in_exact_arithmetic", "replaced_value_is_a_close_raw_value", "equal_values_stay_together",
    "identified_iff_close")]
RULE = ("a case = random lattice incl. spinless sites and sites with different numbers of spins/orbitals, Hamiltonians with "
        "and without N / S_z conservation (pairing, charge-transfer terms), default / ignored / custom candidate integrals "
        "(linear with dyadic and non-dyadic weights, constant offsets, linear + non-linear, non-linear diagonal, non-diagonal): accepted set, block of every state, (block, position) addresses and block matrices are compared "
        "exactly with the model; block maps of every c+_i, c_i and sampled c+_i c_j against brute-force images on the full "
        "Fock space (single target), inter-block matrix elements of H through the certified eigen-system; "
        "non-trivial = distinct case with at least two blocks")
TRUSTED = ["harness/pipe.cpp", "quantum numbers are compared through a hash of their bit patterns in the code; the model compares "
           "the bit patterns (hash injectivity on the occurring vectors is assumed and would show up as a block mismatch)"]
ASSUMPTIONS = ["exact field of coefficients in the semantic theorems"]
LEVEL_TEXT = ("Proof: for the modelled StatesClassification::compute every state lies in exactly one block, (block, position) "
              "addresses and states are mutually inverse, sizes add up to 2^M, two states share a block iff their quantum "
              "numbers agree; for every operator accepted by checkSymmetry (model incl. the flags extracted from the source) "
              "the operator is diagonal in the Fock basis with the quantum number as eigenvalue, H has no matrix element "
              "between states with different quantum numbers, and c+_i, c_i, c+_i c_j shift it by a constant, hence map a "
              "block into at most one block; the analysis (default, ignored, custom) returns without error for every lattice; the "
              "floating-point identification of quantum numbers that agree within the tolerance (fix b9c0110) is modelled "
              "(snap/snapAll) and proved to replace every value by a close raw value, never to separate equal values and to group "
              "exactly the close ones when closeness is an equivalence on the occurring values. "
              "Tie: exact replay of accepted sets, blocks, addresses and block matrices; brute-force single-target oracle.")
LEVEL_NOTE = "Trusted: Lean kernel, translator flags (length test, additivity test, S_z guard), hash injectivity."
TECHNIQUE = "Lean 4 proof (partition invariant + CAR-representation semantics of accepted integrals) + exact differential replay and brute-force block-map oracle"
DESIGN_REF = "DESIGN.md section 6, C07"


def correspondence(ctx):
    pipeline.run_corpus(ctx, "C07", ["C07"])
    r = ctx.rng
    thorough = ctx.tier == "thorough"
    scripts, metas = [], []
    for _ in range(1000 if thorough else 60):
        m = pipeline.gen_model(r, max_modes=r.choice([2, 3, 4, 5 if thorough else 4]), spin_half=r.choice([None, None, False]))
        M = m.modes()
        symm = r.choice(["default", "default", "ignore", "custom", "custom"])
        s = pipeline.core_script(m, order=r.below(2), symm=pipeline.custom_integrals(r, m) if symm == "custom" else symm,
                                 early=r.chance(1, 3))
        s += ["blockof %d" % r.below(1 << M), "innerof %d" % r.below(1 << M), "blockof %d" % (1 << M), "innerof %d" % ((1 << M) + 1)]
        s += ["fockof 0 0", "fockof -1 0", "fockof %d 0" % r.range(0, 1 << M), "fockof %d %d" % (r.below(3), r.below(1 << M)), "fockof 4096 0"]
        s += ["dm %s" % pipeline.hx(1.0), "fops"] + ["fop1 quad %d %d" % (r.below(M), r.below(M)) for _ in range(3)]
        scripts.append(s)
        metas.append((symm, m))
    # atomic-limit models (on-site terms only) with user-supplied additive integrals whose eigenvalues are not multiples of
    # 1/2: every sum_i x_i n_i is conserved there, so the analysis must accept it and separate all its values
    for _ in range(150 if thorough else 14):
        m = pipeline.gen_sites(r, r.choice([3, 4, 4, 5 if thorough else 4]), spin_half=r.choice([None, False]), nsites=r.choice([2, 3, 3]))
        pipeline.add_random_terms(r, m, False, allow=("level", "coulombS", "magnetization", "level"))
        M = m.modes()
        idx = m.index_list()
        xs = [r.choice([0.0, 0.25, 0.25, 0.5, 0.75, 0.125, 1.0]) for _ in range(M)]
        if r.chance(1, 2):      # per-site weights
            ws = {l: r.choice([0.25, 0.5, 0.75, 0.25]) for l, _, _ in m.sites}
            xs = [ws[l] for (l, o, sp) in idx]
        polys = ["%d %s" % (M, " ".join("%s 2 0 %d 1 %d" % (pipeline.val(1.0), i, i) for i in range(M))),
                 "%d %s" % (M, " ".join("%s 2 0 %d 1 %d" % (pipeline.val(x), i, i) for i, x in enumerate(xs)))]
        if r.chance(1, 2) and M >= 2:
            # a conserved but NON-additive candidate (product of two or three number operators): must be rejected
            k = min(M, r.choice([2, 2, 3]))
            mm = list(range(M))
            r.shuffle(mm)
            mm = sorted(mm[:k])
            if r.chance(1, 2):
                polys = polys[:1]       # only N next to it: nothing else separates the states it would have to separate
            polys.append("1 %s %d %s %s" % (pipeline.val(1.0), 2 * k, " ".join("0 %d" % i for i in mm),
                                             " ".join("1 %d" % i for i in reversed(mm))))
        if r.chance(1, 3):
            # a constant offset does not change additivity or conservation: sum_i x_i n_i + c (eigenvalue of the vacuum = c)
            j = r.below(len(polys[:2]))
            n0, rest = polys[j].split(" ", 1)
            polys[j] = "%d %s 0 %s" % (int(n0) + 1, pipeline.val(r.choice([1.0, 0.5, -2.0, 0.25])), rest)
        if r.chance(1, 3) and M >= 2:
            # linear part that touches EVERY mode + a non-linear conserved part (e.g. the atomic-limit energy itself):
            # conserved and diagonal, but not additive -- must be rejected
            mm = list(range(M))
            r.shuffle(mm)
            i, j = sorted(mm[:2])
            lin = " ".join("%s 2 0 %d 1 %d" % (pipeline.val(r.choice([1.0, -0.5, 0.25, 2.0])), q, q) for q in range(M))
            cand = "%d %s %s 4 0 %d 0 %d 1 %d 1 %d" % (M + 1, lin, pipeline.val(r.choice([1.0, -1.0, 2.0, 0.5])), i, j, j, i)
            if r.chance(1, 2):
                polys = [cand]
            else:
                polys.append(cand)
        r.shuffle(polys)        # a rejected candidate may come BEFORE an accepted one
        s = pipeline.core_script(m, order=0, symm="symm custom %d %s" % (len(polys), " ".join(polys)), early=r.chance(1, 2))
        s += ["dm %s" % pipeline.hx(1.0), "fops"] + ["fop1 quad %d %d" % (r.below(M), r.below(M)) for _ in range(3)]
        scripts.append(s)
        metas.append(("custom", m))
    # superconducting (N-breaking) models: on-site singlet pairing Delta (c+_up c+_dn + h.c.) conserves S_z-like charges
    # sum_i w_i n_i with w_up + w_dn = 0, also when a constant is added; N is NOT offered, so the partition rests on the
    # offered integral alone
    for _ in range(100 if thorough else 12):
        m = pipeline.gen_sites(r, r.choice([2, 4, 4]), spin_half=True, nsites=r.choice([1, 2, 2]))
        pipeline.add_random_terms(r, m, False, allow=("level", "coulombS", "hop", "level"))
        for l, no, ns in m.sites:
            if ns == 2 and r.chance(3, 4):
                o = r.below(no)
                pipeline.add_user_term(m, pipeline.rand_amp(r, False), [(1, l, o, 0), (1, l, o, 1)])
        M = m.modes()
        idx = m.index_list()
        w = r.choice([1.0, 0.5, 2.0, 0.25])
        c = r.choice([0.0, 1.0, float(len(m.sites)), 0.5, -1.0, 1.0])
        terms = ["%s 2 0 %d 1 %d" % (pipeline.val(w if sp == 0 else -w), i, i) for i, (l, o, sp) in enumerate(idx)]
        if c != 0.0:
            terms.insert(r.below(len(terms) + 1), "%s 0" % pipeline.val(c))
        polys = ["%d %s" % (len(terms), " ".join(terms))]
        if r.chance(1, 4):
            polys.append("%d %s" % (M, " ".join("%s 2 0 %d 1 %d" % (pipeline.val(1.0), i, i) for i in range(M))))   # N: rejected here
        s = pipeline.core_script(m, order=r.below(2), symm="symm custom %d %s" % (len(polys), " ".join(polys)), early=r.chance(1, 3))
        s += ["dm %s" % pipeline.hx(1.0), "fops"] + ["fop1 quad %d %d" % (r.below(M), r.below(M)) for _ in range(3)]
        scripts.append(s)
        metas.append(("custom_pairing", m))
    # integrals with NON-dyadic weights (0.1, 0.2, 0.3, ...): the quantum numbers of two states connected by the Hamiltonian
    # are then sums that agree only up to rounding (0.1+0.2 vs 0.3); charge-transfer terms c+_c c+_d c_b c_a with
    # w_a + w_b = w_c + w_d (exactly, in decimal arithmetic) conserve Q = sum_i w_i n_i without conserving the individual n_i
    from decimal import Decimal
    for _ in range(120 if thorough else 14):
        m = pipeline.gen_sites(r, r.choice([4, 4, 5, 6 if thorough else 5]), spin_half=r.choice([None, False, False]), nsites=r.choice([2, 3, 4, 4]))
        M = m.modes()
        if M < 4:
            continue
        pipeline.add_random_terms(r, m, False, allow=("level", "coulombS", "level"))
        idx = m.index_list()
        den = r.choice([10, 10, 100, 3, 7])
        ws = [Decimal(r.range(0, 12)) / den if den in (10, 100) else None for _ in range(M)]
        if den not in (10, 100):
            ks = [r.range(0, 9) for _ in range(M)]
        for _ in range(r.range(1, 3)):
            mm = list(range(M))
            r.shuffle(mm)
            a, b, c, d = mm[:4]
            if den in (10, 100):
                ws[d] = ws[a] + ws[b] - ws[c]
            else:
                ks[d] = ks[a] + ks[b] - ks[c]
            pipeline.add_user_term(m, pipeline.rand_amp(r, False), [(1,) + idx[c], (1,) + idx[d], (0,) + idx[b], (0,) + idx[a]])
        wf = [float(w) for w in ws] if den in (10, 100) else [k / float(den) for k in ks]
        terms = ["%s 2 0 %d 1 %d" % (pipeline.val(w), i, i) for i, w in enumerate(wf) if w != 0.0]
        if not terms:
            continue
        polys = ["%d %s" % (len(terms), " ".join(terms))]
        if r.chance(1, 3):
            polys.append("%d %s" % (M, " ".join("%s 2 0 %d 1 %d" % (pipeline.val(1.0), i, i) for i in range(M))))
        s = pipeline.core_script(m, order=0, symm="symm custom %d %s" % (len(polys), " ".join(polys)), early=r.chance(1, 3))
        s += ["dm %s" % pipeline.hx(1.0), "fops"] + ["fop1 quad %d %d" % (r.below(M), r.below(M)) for _ in range(2)]
        scripts.append(s)
        metas.append(("custom_nondyadic", m))
    res = pipeline.run_batch(scripts, "real")
    pipeline.collect(ctx, res, ["C07"])
    for (symm, m), s, rs in zip(metas, scripts, res):
        ctx.count("symm_" + symm)
        if any(ns != 2 for _, _, ns in m.sites):
            ctx.count("lattices_with_non_spin_half_sites")
        nb = [l for l in rs.case.splitlines() if l.startswith("o nblocks")]
        if nb and int(nb[0].split()[2]) >= 2:
            ctx.distinct.add(tuple(s))
    ctx.samples = [dict(symm=sy, script=s[:10]) for (sy, _), s in list(zip(metas, scripts))[:3]]


def replay(ctx, rp):
    return pipeline.replay(ctx, rp)
