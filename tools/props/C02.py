"""C02 -- two-particle Green's function equals its definition on both evaluation paths."""
import pipeline

LEAN_MODULES = ['PomerolModel.Properties.C02', 'PomerolModel.Properties.C02Terms']
GENERATED = ['chi4']
THEOREMS = ["Pomerol.Properties.C02." + t for t in ['multiterm_is_simplex_integral', 'ordered_simplex', 'chi_equals_definition', 'extracted_multiterm', 'permutation_table', 'exchange_first_pair', 'sparse_enumeration_is_full_sum', 'sparse_enumeration_visits_stored_quadruples_once', 'sparse_enumeration_is_ordered_lehmann', 'world_stripes_complete', 'selected_stripes_compute_chi', 'term_order_not_strict_weak', 'term_order_not_strict_weak_first_pole']] + ["Pomerol.Properties.C02Terms." + t for t in ['keyLess_irrefl', 'keyLess_irrefl_nonpos', 'container_budget', 'nonresonant_terms_budget', 'resonant_terms_budget', 'exact_merge_preserves_value']]
RULE = 'a case = random model with <=3 (thorough <=4) modes, random and resonant quadruples/triples (n1+n2=-1, n2=n3, n1=n3), purge on/off; chi from the terms, the returned table and evaluation after the table are compared with the signed six-ordering full-space sum of the multi-term; ambiguous resonance decisions are counted and skipped; non-trivial = distinct case with a non-vanishing chi'
TRUSTED = ["harness/pipe.cpp drives the real classes along the documented workflow; case-file protocol with hex doubles",
           "numeric oracle (lean/Driver/Numeric*.lean): IEEE double arithmetic of compiled Lean, full-Fock-space sums",
           "Eigen's SelfAdjointEigenSolver is not verified: its output is certified on every case (residual, orthonormality)"]
ASSUMPTIONS = ["exact real/complex arithmetic in the theorems; tolerance tests idealised unless stated",
               "numerical comparison tolerance: proven budget + 1e-9 relative rounding slack"]
LEVEL_TEXT = 'Proof: simplex_closed_form (the nested time-ordered integral of one world line equals the Hafermann multi-term in all four resonance classes) -> ordered_lehmann -> chi_lehmann (the signed sum over the six orderings of the definition equals the six-ordering Lehmann sum for every spectrum and every fermionic triple), composed with chi4_multiterm/chi4_perms (coefficients, term evaluation, frequency permutation {z1,z2,-z3}[perm] and sign table extracted from the source). Tie: differential oracle on both evaluation paths.'
LEVEL_NOTE = 'Trusted: as C01; time ordering formalised as the signed sum over the six ordered simplices; term merging with pole averaging and the 1e-8 resonance window are idealised (exact) in the theorems; the world-line enumeration of TwoParticleGFPart::compute (sparse rows/columns, chaseIndices, coeff look-ups) is modelled (Model/Chi4Part.lean, guard flags extracted) and PROVED to visit every stored quadruple exactly once, hence to sum to the ordered Lehmann sum block by block; that model is tied to the code by the extracted flags and the numeric oracle. The two term containers (TermList with the extracted Compare) are proved to conserve coefficients and to drop only terms below Tolerance/n (Properties/C02Terms.lean); Compare and both IsNegligible predicates are extracted by the translator.'
TECHNIQUE = 'Lean 4/Mathlib proof (nested FTC + algebra) over extracted multi-term formulas + differential oracle'
DESIGN_REF = "DESIGN.md section 6, C02"


def correspondence(ctx):
    pipeline.numeric_campaign(ctx, ["C02"], ("chi",), 24, 250, near=4, max_modes_quick=3, max_modes_thorough=4,
                              trunc=False,
                              nontrivial=lambda meta, s: meta["modes"] >= 2)


def replay(ctx, rp):
    return pipeline.replay(ctx, rp)
