"""C20 -- lattice input is validated and looked up faithfully."""
import pipeline

LEAN_MODULES = ["PomerolModel.Properties.C20"]
GENERATED = ["presets"]
THEOREMS = ["Pomerol.Properties.C20." + t for t in (
    "containers_well_formed", "site_lookup", "unknown_site_fails", "invalid_term_rejected_unchanged", "zero_term_ignored",
    "valid_term_stored", "terms_retrievable_by_order", "presets_reject_undefined_arguments", "presets_store_only_valid_terms",
    "copy_defines_same_model")]
RULE = ("a case = random sequence of addSite / addTerm / every preset and overload / term factories / getSite / copy calls "
        "with valid and malformed arguments (unknown labels, out-of-range orbitals and spins, equal orbitals or spins for "
        "spin-flip terms, mismatched site shapes, zero amplitudes); after every call the outcome (ok / exception kind) and the "
        "complete site map and term storage are compared with the model, and the outcome with the hand-written specification "
        "predicates; non-trivial = distinct sequence containing at least one rejected call")
TRUSTED = ["harness/pipe.cpp", "lean/PomerolModel/Model/LatticeSpec.lean: hand-written definedness/validity predicates"]
ASSUMPTIONS = ["std::map modelled as a sorted association list with unique keys"]
LEVEL_TEXT = ("Proof: over the lattice state machine (guards, operator sequences and the getSite test regenerated from the "
              "source): an invalid term is rejected with exWrongLabel and no new lattice is produced, a zero-amplitude term is "
              "ignored, a valid one is appended to the list of its order and nothing else changes; getSite returns the site "
              "added under the label and fails for unknown labels; every preset succeeds only for the arguments for which its "
              "documentation defines it (hand-written predicates), and every term a preset stores (bypassing addTerm) is "
              "valid; a copy is the same model. Tie: exact replay of random call sequences incl. a malformed stream.")
LEVEL_NOTE = "Trusted: Lean kernel, translator (guards/arrays), hand-written spec predicates."
TECHNIQUE = "Lean 4 proof over a state-machine model with translator-regenerated guards + exact differential replay of call sequences"
DESIGN_REF = "DESIGN.md section 6, C20"


def sequence(r, thorough):
    L = pipeline.lab
    # labels that a "clever" key order could confuse: numeric suffixes with leading zeros, prefixes, case, blanks
    labels = r.choice([["A", "B", "C", "zz", "0"], ["A1", "A01", "A001", "A10", "A"], ["s1", "s10", "s2", "S1", "s1 "], ["A", "B", "C", "zz", "0"]])
    sites = {}
    lines = []
    nops = r.range(4, 40 if thorough else 14)
    v = lambda: pipeline.val(r.choice([0.0, 1.0, -0.5, 2.0, 0.25, 1e-300]))

    def anylabel():
        return r.choice(labels + ["nope", ""])

    def orb(l, bad=False):
        no = sites.get(l, (1, 1))[0]
        return r.range(0, no + 1) if bad or no == 0 else r.below(no)

    def spin(l, bad=False):
        ns = sites.get(l, (1, 1))[1]
        return r.range(0, ns + 1) if bad else r.below(ns)

    for _ in range(nops):
        k = r.below(20)
        bad = r.chance(1, 4)
        if k < 4 or not sites:
            l = r.choice(labels)
            sites[l] = (r.choice([1, 1, 2, 3]), r.choice([1, 2, 2, 3]))
            lines.append("site %s %d %d" % (L(l), sites[l][0], sites[l][1]))
            if r.chance(1, 3):
                # a sibling site that agrees in ONE of the two sizes only (the two-site presets must compare both)
                l2 = r.choice([x for x in labels if x != l])
                if r.chance(1, 2):
                    sites[l2] = (sites[l][0], r.choice([x for x in (1, 2, 3) if x != sites[l][1]]))
                else:
                    sites[l2] = (r.choice([x for x in (1, 2, 3) if x != sites[l][0]]), sites[l][1])
                lines.append("site %s %d %d" % (L(l2), sites[l2][0], sites[l2][1]))
                lines.append("dumplattice")
        elif k < 7:
            n = r.choice([2, 2, 4, 4, 6])
            fs = []
            for q in range(n):
                l = anylabel() if bad and r.chance(1, 2) else r.choice(list(sites))
                fs.append("%d %s %d %d" % (r.below(2), L(l), orb(l, bad), spin(l, bad)))
            lines.append("term %s %d %s" % (v(), n, " ".join(fs)))
        elif k < 16:
            kind = r.choice(["coulombS", "coulombP", "coulombP3", "level", "magnetization", "szsz", "ss", "hop7", "hop6", "hop5", "hop4"])
            a = anylabel() if bad and r.chance(1, 3) else r.choice(list(sites))
            b = anylabel() if bad and r.chance(1, 3) else r.choice(list(sites))
            if kind == "coulombS":
                lines.append("preset coulombS %s %s %s" % (L(a), v(), v()))
            elif kind == "coulombP":
                lines.append("preset coulombP %s %s %s %s %s" % (L(a), v(), v(), v(), v()))
            elif kind == "coulombP3":
                lines.append("preset coulombP3 %s %s %s %s" % (L(a), v(), v(), v()))
            elif kind in ("level", "magnetization"):
                lines.append("preset %s %s %s" % (kind, L(a), v()))
            elif kind in ("szsz", "ss", "hop4"):
                lines.append("preset %s %s %s %s" % (kind, L(a), L(b), v()))
            elif kind == "hop7":
                lines.append("preset hop7 %s %s %s %d %d %d %d" % (L(a), L(b), v(), orb(a, bad), orb(b, bad), spin(a, bad), spin(b, bad)))
            elif kind == "hop6":
                lines.append("preset hop6 %s %s %s %d %d %d" % (L(a), L(b), v(), orb(a, bad), orb(b, bad), spin(a, bad)))
            else:
                lines.append("preset hop5 %s %s %s %d %d" % (L(a), L(b), v(), orb(a, bad), orb(b, bad)))
        elif k < 18:
            l = r.choice(list(sites))
            lines.append("tpreset %s %s %s %d %d %d %d" % (r.choice(["spinflip", "pairhopping"]), L(l), v(),
                                                            orb(l, bad), orb(l, bad), spin(l, bad), spin(l, bad)))
        elif k < 19:
            lines.append("getsite %s" % L(anylabel()))
        else:
            # copy: one of the two lattices is destroyed; fork/unfork: a copy is modified while the original stays alive
            # and is returned to later (it must not have noticed)
            lines.append(r.choice(["copy", "copy", "fork", "fork", "unfork"]))
        lines.append("dumplattice")
    if "fork" in lines:
        lines += ["unfork", "dumplattice"]
    return lines


def fixed_sequences():
    """deterministic sequences that run first on every check: calls that must be rejected although they look almost valid"""
    L, v = pipeline.lab, pipeline.val
    a = ["site %s 1 2" % L("X"), "site %s 1 1" % L("Y"), "site %s 1 3" % L("Z"), "site %s 2 2" % L("W"), "dumplattice"]
    # two-site presets between sites that agree in the number of orbitals but not of spins (and the other way round)
    for kind in ("szsz", "ss"):
        for p, q in (("X", "Y"), ("Y", "X"), ("X", "Z"), ("X", "W"), ("W", "X")):
            a += ["preset %s %s %s %s" % (kind, L(p), L(q), v(1.0)), "dumplattice"]
    a += ["preset hop4 %s %s %s" % (L("X"), L("Y"), v(0.5)), "dumplattice", "preset hop4 %s %s %s" % (L("X"), L("W"), v(0.5)), "dumplattice"]
    # user terms on a two-orbital, two-spin site: every (orbital, spin) with 0 <= orbital <= 2, 0 <= spin <= 3
    b = ["site %s 2 2" % L("W"), "site %s 1 2" % L("X"), "dumplattice"]
    for o in range(3):
        for sp in range(4):
            b += ["term %s 2 1 %s %d %d 0 %s 0 0" % (v(0.5), L("W"), o, sp, L("X")), "dumplattice",
                  "term %s 2 1 %s 0 0 0 %s %d %d" % (v(0.25), L("X"), L("W"), o, sp), "dumplattice"]
    b += ["term %s 2 1 %s 0 0 0 %s 0 0" % (v(0.5), L("W"), L("nope")), "dumplattice"]
    return [a, b]


def correspondence(ctx):
    r = ctx.rng
    thorough = ctx.tier == "thorough"
    scripts = fixed_sequences() + [sequence(r, thorough) for _ in range(1500 if thorough else 150)]
    for variant in (("real", "complex") if thorough else ("real",)):
        res = pipeline.run_batch(scripts if variant == "real" else scripts[:200], variant, numeric=False)
        pipeline.collect(ctx, res, ["C20"])
        for rs in res:
            excs = rs.case.count("o exc ")
            ctx.count("rejected_calls", excs)
            ctx.count("accepted_calls", rs.case.count("o ok"))
            if excs:
                ctx.distinct.add((variant, tuple(rs.script)))
            # property oracle, independent of the regenerated guards: evaluated by the replay driver on the hand-written predicates
    ctx.samples = [dict(script=s[:12]) for s in scripts[:3]]


def replay(ctx, rp):
    return pipeline.replay(ctx, rp)
