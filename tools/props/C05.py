"""C05 -- the symbolic operator algebra faithfully represents the fermionic algebra."""
import struct
import pmlib

LEAN_MODULES = ["PomerolModel.Properties.C05"]
GENERATED = ["coreflags"]
THEOREMS = ["Pomerol.Properties.C05." + t for t in (
    "car", "monomial_action", "polynomial_action", "normal_ordering_total", "mul_matrix", "add_matrix",
    "sub_matrix", "smul_matrix", "neg_matrix", "addConst_matrix", "commutator_matrix", "antiCommutator_matrix",
    "mul_assoc_matrix", "equality_test", "equality_test_matrix", "commutes_sound", "prefix_comparison_was_wrong",
    "N_operator", "Sz_operator")]
RULE = ("a case = one operation of the real Pomerol::Operator algebra (normalize_and_insert on a raw monomial, "
        "*, +, -, scalar *, unary -, [,], {,}, ==, commutes, actRight, getMatrixElement, N, Sz) on polynomials with "
        "dyadic coefficients, compound assignments incl. R*=R / R+=R / R-=R, Fock spaces of 7..64 modes against the sparse "
        "Jordan-Wigner action; exhaustive over all raw monomials of length<=4 on <=2 modes (<=3 in thorough) acting "
        "on all Fock states, random beyond; non-trivial = distinct case in which the normal ordering performs at "
        "least one swap/contraction or the operands are not both single monomials")
TRUSTED = ["harness/opalg.cpp (derives from Operator to reach normalize_and_insert and the monomial map)",
           "Lean Float = IEEE double: the model repeats the implementation's arithmetic in the same order"]
ASSUMPTIONS = ["theorems: exact coefficient ring, tolerance tests idealised to '= 0' (Float rounding not modelled)",
               "std::map / boost::tuple comparison modelled as sorted association list / lexicographic order"]
LEVEL_TEXT = ("Proof: Lean 4 theorems about a faithful model of normalize_and_insert / operator arithmetic / actRight: "
              "the model's elementary action satisfies the CAR (proved, Spec/JW), normal ordering is sound in every CAR "
              "representation, terminates and yields normal forms, hence the Jordan-Wigner matrix of A*B, A+-B, aA, [A,B], "
              "{A,B} is the same expression of the matrices, products are associative; the equality test decides "
              "syntactic equality and equals matrix equality on canonical polynomials (linear independence of normal "
              "monomials proved); N and S_z shortcuts equal their generic forms on every Fock state. Tie: every "
              "operation of the real class is replayed bit-for-bit on the compiled model and checked against "
              "independently built JW matrices.")
LEVEL_NOTE = ("Trusted: Lean kernel; hand-written model tied to the code by exhaustive-small + random differential replay; "
              "flags extracted by the translator (eqLengthTest).")
TECHNIQUE = "Lean 4 proof (CAR-representation soundness of the normal-ordering model) + bitwise differential replay of the real Operator class"
DESIGN_REF = "DESIGN.md section 6, C05"


def hx(x):
    return "%016x" % struct.unpack("<Q", struct.pack("<d", float(x)))[0]


_CPLX = {"on": False, "rng": None}


def cv(x):
    """a coefficient in the layout of the build under test: one hex word (real) or two (complex; every third
    coefficient gets a non-zero imaginary part)"""
    if not _CPLX["on"]:
        return hx(x)
    r = _CPLX["rng"]
    im = r.choice([0.0, 0.0, 0.5, -1.0, 0.25]) if x not in (0.0, 1e-14) else 0.0
    return hx(x) + " " + hx(im)


def mono_str(m):
    return "%d %s" % (len(m), " ".join("%d %d" % (a, i) for a, i in m)) if m else "0"


def coef(r):
    return r.choice([1, -1, 2, -2, 0.5, -0.5, 0.25, 3, -1.5, 0.125, -4, 1, 1, -1])


def rand_mono(r, M, maxlen):
    n = r.range(0, maxlen)
    return [(r.below(2), r.below(M)) for _ in range(n)]


def rand_poly_def(r, name, M, maxlen, nterms):
    ts = []
    for _ in range(nterms):
        ts.append("%s %s" % (cv(coef(r)), mono_str(rand_mono(r, M, maxlen))))
    return "def %s %d %s" % (name, len(ts), " ".join(ts))


def gen_script(ctx, cplx=False):
    r = ctx.rng
    _CPLX["on"], _CPLX["rng"] = cplx, r
    thorough = ctx.tier == "thorough"
    lines = []
    # 1. exhaustive raw monomials
    Mex = 3 if thorough else 2
    L = 4
    ops = [(a, i) for a in (0, 1) for i in range(Mex)]

    def rec(prefix):
        yield prefix
        if len(prefix) < L:
            for o in ops:
                for x in rec(prefix + [o]):
                    yield x
    k = 0
    for m in rec([]):
        k += 1
        nm = "E%d" % k
        lines.append("def %s 1 %s %s" % (nm, cv(1.0), mono_str(m)))
        if k % 7 == 0 or len(m) <= 2:
            for ket in range(1 << Mex):
                lines.append("act %s %d %d" % (nm, Mex, ket))
    ctx.notes["exhaustive_monomials"] = k
    # 2. random polynomials and operations
    nrounds = 400 if thorough else 60
    for t in range(nrounds):
        M = r.range(1, 6 if thorough else 4)
        names = []
        for j in range(3):
            nm = "P%d_%d" % (t, j)
            lines.append(rand_poly_def(r, nm, M, r.range(1, 8 if thorough else 5), r.range(1, 4)))
            names.append(nm)
        a, b, c = names
        lines += ["mul R%d_ab %s %s" % (t, a, b), "mul R%d_bc %s %s" % (t, b, c),
                  "mul R%d_l R%d_ab %s" % (t, t, c), "mul R%d_r %s R%d_bc" % (t, a, t),
                  "eq R%d_l R%d_r" % (t, t),
                  "add R%d_s %s %s" % (t, a, b), "sub R%d_d %s %s" % (t, a, b), "sub R%d_z %s %s" % (t, a, a),
                  "comm R%d_c %s %s" % (t, a, b), "acomm R%d_ac %s %s" % (t, a, b),
                  # compound assignments, also with the object itself on the right-hand side (R *= R, R += R, R -= R)
                  "imul R%d_ip %s %s" % (t, a, b), "imul R%d_sq %s R%d_sq" % (t, a, t), "iadd R%d_dbl %s R%d_dbl" % (t, a, t),
                  "isub R%d_nil %s R%d_nil" % (t, a, t), "isub R%d_id %s %s" % (t, a, b), "mul R%d_aa %s %s" % (t, a, a),
                  "eq R%d_sq R%d_aa" % (t, t),
                  "smul R%d_m %s %s" % (t, cv(coef(r)), a), "smul R%d_m0 %s %s" % (t, cv(0.0), a),
                  "smul R%d_mt %s %s" % (t, cv(1e-14), a),
                  "neg R%d_n %s" % (t, a), "addc R%d_k %s %s" % (t, cv(coef(r)), a),
                  "eq %s %s" % (a, b), "eq %s %s" % (a, a), "eq R%d_s R%d_d" % (t, t),
                  "commutes %s %s" % (a, b), "commutes %s %s" % (a, a), "commutes R%d_ab %s" % (t, c)]
        for ket in range(1 << M):
            if M <= 3 or r.chance(1, 4):
                lines.append("act %s %d %d" % (a, M, ket))
                lines.append("act R%d_ab %d %d" % (t, M, ket))
        lines.append("melem %s %d %d %d" % (b, M, r.below(1 << M), r.below(1 << M)))
        # an operator object that has already been evaluated is overwritten by assignment and evaluated again
        # (copy assignment onto a used object: any cached per-state data must follow the new polynomial)
        if t % 3 == 0:
            lines.append("%s %s %s %s" % (r.choice(["add", "mul", "sub"]), a, b, c))
            for ket in range(1 << M):
                if M <= 3 or r.chance(1, 4):
                    lines.append("act %s %d %d" % (a, M, ket))
            lines.append("melem %s %d %d %d" % (a, M, r.below(1 << M), r.below(1 << M)))
        # IndexHamiltonian-style products incl. vanishing prefixes
        m = rand_mono(r, M, 6)
        if r.chance(1, 3) and len(m) >= 2:
            m[1] = m[0]
        lines.append("prod Q%d %s %s" % (t, cv(coef(r)), mono_str(m)))
    # 2b. wide Fock spaces (7..64 modes): the Jordan-Wigner string must count occupied modes of any index; kets with
    #     high bits set, operators on high indices (matrix oracles are dense and stop at 6 modes; here the action on
    #     single kets is compared with the sparse Jordan-Wigner action)
    for t in range(150 if thorough else 40):
        M = r.choice([r.range(7, 33), r.range(34, 64), r.range(34, 64), 64, 33, 32])
        nm = "W%d" % t
        ts = []
        for _ in range(r.range(1, 3)):
            n = r.range(1, 4)
            m = [(r.below(2), r.choice([r.below(M), M - 1 - r.below(min(M, 8))])) for _ in range(n)]
            ts.append("%s %s" % (cv(coef(r)), mono_str(m)))
        lines.append("def %s %d %s" % (nm, len(ts), " ".join(ts)))
        for _ in range(6):
            ket = r.next() & ((1 << M) - 1)
            if r.chance(1, 3):
                ket |= r.next() & ((1 << M) - 1)           # densely occupied
            lines.append("act %s %d %d" % (nm, M, ket))
            if r.chance(1, 3):
                lines.append("nop %d %d" % (M, ket))
    # 3. equality corner cases (prefix monomials), N and Sz
    lines += ["def X1 1 %s 1 0 0" % cv(1.0), "def X2 1 %s 2 0 0 1 1" % cv(1.0), "eq X1 X2", "eq X2 X1",
              "def X3 2 %s 1 0 0 %s 1 0 0" % (cv(1.0), cv(-1.0)), "def X4 0", "eq X3 X4",
              "def X5 1 %s 1 0 0" % cv(1.0 + 2e-14), "eq X1 X5"]
    # diagonal density-like monomials with k = 1..4 number operators in both orders of the annihilators, on every ket
    for k in range(1, 5):
        cre = " ".join("0 %d" % i for i in range(k))
        for tag, ann in (("a", " ".join("1 %d" % i for i in range(k))), ("r", " ".join("1 %d" % i for i in reversed(range(k))))):
            nm = "DN%d%s" % (k, tag)
            lines.append("def %s 1 %s %d %s %s" % (nm, cv(1.0), 2 * k, cre, ann))
            for ket in range(1 << 4):
                lines.append("act %s 4 %d" % (nm, ket))
    for M in range(1, 6 if thorough else 4):
        for ket in range(1 << M):
            lines.append("nop %d %d" % (M, ket))
    for M in (2, 4) if not thorough else (2, 4, 6):
        import itertools
        for ups in itertools.combinations(range(M), M // 2):
            for ket in range(1 << M):
                if M <= 4 or r.chance(1, 8):
                    lines.append("sz %d %d %s %d" % (M, len(ups), " ".join(map(str, ups)), ket))
    lines.append("sz 3 1 0 5")    # unequal counts: throws
    # two-list constructor with lists that do not cover all modes of the state
    for _ in range(400 if thorough else 80):
        M = r.range(2, 6)
        modes = list(range(M))
        r.shuffle(modes)
        k = r.range(0, M // 2)
        ups, dns = modes[:k], modes[k:2 * k]
        if r.chance(1, 10):
            dns = dns[:-1] if dns else [modes[-1]]       # unequal lengths: throws
        lines.append("sz2 %d %d %s %d %s %d" % (M, len(ups), " ".join(map(str, ups)), len(dns), " ".join(map(str, dns)), r.below(1 << M)))
    return lines


def correspondence(ctx):
    variants = ["real", "complex"]
    for variant in variants:
        cmds = gen_script(ctx, variant == "complex")
        exe = pmlib.build_harness("opalg", variant)
        rc, out, err = pmlib.run_harness(exe, [], "\n".join(cmds) + "\n", timeout=1800)
        san = pmlib.sanitizer_report(err)
        if rc != 0 or san:
            ctx.problem("sanitizer", "opalg harness (%s build) aborted: %s" % (variant, san or "exit %d" % rc),
                        harness="opalg", variant=variant, stdin=cmds[-50:], log=err[-3000:], signature="opalg-abort-" + variant)
            continue
        obs = [l for l in out.splitlines() if l.startswith("o ")]
        ctx.evaluations += len(obs)
        for l in obs:
            t = l.split()
            kind = t[1]
            ctx.count(variant + ":" + kind)
            # non-trivial: result differs textually from the raw input (a swap/contraction happened) or binary op
            if kind == "def":
                lhs, rhs = l.split(" => ")
                if " ".join(lhs.split()[3:]) != rhs.strip():
                    ctx.distinct.add(l)
            elif kind in ("mul", "comm", "acomm", "add", "sub", "eq", "commutes", "act", "prod", "smul", "sz", "sz2", "nop", "imul", "iadd", "isub"):
                ctx.distinct.add(variant + l)
        if not ctx.samples:
            ctx.samples = [l for l in obs if l.startswith("o mul")][:3] + [l for l in obs if l.startswith("o def")][40:42] \
                + [l for l in obs if l.startswith("o commutes")][:1]
        rc2, dout = pmlib.run_driver("opalg", out, timeout=3000)
        seen = 0
        seenp = 0
        for l in dout.splitlines():
            if l.startswith("PROPFAIL"):
                seenp += 1
                if seenp <= 5:
                    ctx.problem("propfail", l, harness="opalg", variant=variant,
                                stdin=replay_script(cmds, l), signature="opalg-" + " ".join(l.split()[1:2]))
            elif l.startswith("MISMATCH"):
                seen += 1
                if seen <= 5:
                    ctx.problem("mismatch", l, harness="opalg", variant=variant, stdin=replay_script(cmds, l))
            elif l.startswith("SUMMARY"):
                ctx.notes["driver_" + variant] = l
        if ("driver_" + variant) not in ctx.notes:
            ctx.problem("build", "driver produced no summary", log=dout[-2000:])


def replay_script(cmds, line):
    """the definitions needed for the failing command + the command itself"""
    body = line.split(" :: ")[0].split()[1:]
    names = set(body)
    need = [c for c in cmds if c.split()[0] in ("def", "prod") and c.split()[1] in names]
    # transitive: results used as operands
    prod = [c for c in cmds if c.split()[0] in ("mul", "add", "sub", "comm", "acomm", "smul", "neg", "addc", "imul", "iadd", "isub") and c.split()[1] in names]
    for c in prod:
        for tok in c.split()[2:]:
            need += [d for d in cmds if d.split()[0] in ("def", "prod") and d.split()[1] == tok]
    cmd = [c for c in cmds if c.split() == body or c.split()[:len(body)] == body]
    return need + prod + cmd[:1]


def replay(ctx, rp):
    exe = pmlib.build_harness("opalg", rp.get("variant", "real"))
    rc, out, err = pmlib.run_harness(exe, [], "\n".join(rp["stdin"]) + "\n")
    print(out)
    if err.strip():
        print(err[-2000:])
    rc2, dout = pmlib.run_driver("opalg", out)
    print(dout)
    return 1 if ("PROPFAIL" in dout or "MISMATCH" in dout or rc != 0) else 0
