"""C03 -- block-wise diagonalisation reproduces the full eigen-system."""
import pipeline

LEAN_MODULES = ['PomerolModel.Properties.C03']
GENERATED = ['coreflags']
THEOREMS = ["Pomerol.Properties.C03." + t for t in ['assembled_unitary', 'assembled_diagonalises', 'eigenvectors', 'orthonormal', 'spectrum_with_multiplicities', 'fock_spectrum', 'one_by_one_block', 'no_interblock_iff_block_diagonal', 'ground_energy_is_minimum_over_blocks', 'eigenvalues_are_union_of_blocks', 'eigenvalue_lookup_by_state', 'eigenvalue_lookup_by_address']]
RULE = 'a case = random model under default/ignored/custom symmetries; every block matrix is compared exactly with the model, the reported (E,U) of all blocks are assembled and certified against the full Jordan-Wigner Hamiltonian (residual, orthonormality, ascending order), ground energy, concatenation and per-state lookups checked; non-trivial = distinct case with at least two blocks or a block of dimension > 1'
TRUSTED = ["harness/pipe.cpp drives the real classes along the documented workflow; case-file protocol with hex doubles",
           "numeric oracle (lean/Driver/Numeric*.lean): IEEE double arithmetic of compiled Lean, full-Fock-space sums",
           "Eigen's SelfAdjointEigenSolver is not verified: its output is certified on every case (residual, orthonormality)"]
ASSUMPTIONS = ["exact real/complex arithmetic in the theorems; tolerance tests idealised unless stated",
               "numerical comparison tolerance: proven budget + 1e-9 relative rounding slack"]
LEVEL_TEXT = 'Proof: if the partition is sound (C07) and every block satisfies the solver post-condition (U_b unitary, H_b U_b = U_b diag E_b) then the assembled matrix is unitary, diagonalises the full H, its columns are orthonormal eigenvectors, and charpoly(H) = prod (X - E_k): the multiset of block eigenvalues is the spectrum with multiplicities (also through the (block,position) re-indexing of Fock states); the 1x1 special case satisfies the post-condition. Tie: block matrices exact vs model; solver output certified per case.'
LEVEL_NOTE = "Trusted: Eigen's solver is an oracle parameter whose post-condition is checked numerically per case (residual 1e-9 scale), not proved."
TECHNIQUE = 'Lean 4/Mathlib proof (block-diagonal similarity, characteristic polynomial) + per-case eigen-system certificate'
DESIGN_REF = "DESIGN.md section 6, C03"


def correspondence(ctx):
    pipeline.numeric_campaign(ctx, ["C03"], (), 60, 800, max_modes_quick=4, max_modes_thorough=5,
                              trunc=False, scales=(1.0, 1.0, 1.0, 2.0 ** -30, 2.0 ** -40, 2.0 ** 20),
                              nontrivial=lambda meta, s: meta["modes"] >= 2)


def replay(ctx, rp):
    return pipeline.replay(ctx, rp)
