"""C10 -- eigenbasis field operators are the rotated operators and obey the CAR."""
import pipeline

LEAN_MODULES = ['PomerolModel.Properties.C10']
GENERATED = ['coreflags']
THEOREMS = ["Pomerol.Properties.C10." + t for t in ['left_right_is_rotation', 'rotation_preserves_car', 'stored_annihilator_is_adjoint', 'rotate_back', 'loops_compute_rotated_operator', 'loops_compute_rotated_operator_presets', 'prepare_pairs_the_right_blocks', 'jw_of_adjoint_operator', 'container_copy_is_annihilator', 'container_copy_is_annihilator_presets']]
RULE = 'a case = random model and partition; every stored part of c+_i, c_i (container and singly computed) and c+_i c_j is compared elementwise with U_l^+ O U_r from the dumped eigenvectors, row/column-major views must agree, assembled operators must satisfy the CAR and c = (c+)^+; non-trivial = distinct case'
TRUSTED = ["harness/pipe.cpp drives the real classes along the documented workflow; case-file protocol with hex doubles",
           "numeric oracle (lean/Driver/Numeric*.lean): IEEE double arithmetic of compiled Lean, full-Fock-space sums",
           "Eigen's SelfAdjointEigenSolver is not verified: its output is certified on every case (residual, orthonormality)"]
ASSUMPTIONS = ["exact real/complex arithmetic in the theorems; tolerance tests idealised unless stated",
               "numerical comparison tolerance: proven budget + 1e-9 relative rounding slack"]
LEVEL_TEXT = "Proof: the LeftMat*RightMat product of FieldOperatorPart::compute equals U_to^+ O U_from for every operator with at most one signed non-zero per column; rotation by a unitary preserves the CAR (which hold for the model's Jordan-Wigner action, C05); the adjoint of the rotated creator is the rotated annihilator; rotating back recovers the Fock matrix. Tie: elementwise comparison of all stored parts, numeric CAR on the assembled operators."
LEVEL_NOTE = 'Trusted: Eigen sparse storage/pruning; the container shortcut (adjoint copy) tied by differential comparison.'
TECHNIQUE = 'Lean 4/Mathlib matrix identities + elementwise differential oracle'
DESIGN_REF = "DESIGN.md section 6, C10"


def correspondence(ctx):
    pipeline.numeric_campaign(ctx, ["C10"], ("gf",), 30, 300, max_modes_quick=4, max_modes_thorough=5,
                              trunc=False,
                              nontrivial=lambda meta, s: meta["modes"] >= 2)


def replay(ctx, rp):
    return pipeline.replay(ctx, rp)
