"""C19 -- block truncation removes only contributions below tolerance."""
import pipeline

LEAN_MODULES = ['PomerolModel.Properties.C19']
GENERATED = ['dm']
THEOREMS = ["Pomerol.Properties.C19." + t for t in ['retain_rule', 'nothing_discarded_at_zero', 'green_function_bound', 'average_bound', 'row_norm_bound', 'stripe_rule', 'susceptibility_bound', 'susceptibility_truncation_error', 'susceptibility_bound_dim', 'weight_difference_quotient', 'two_particle_bound_partial', 'two_particle_bound_matsubara']]
RULE = 'a case = random model, beta up to 60, eps in {0,1e-12,1e-6,1e-3,1e-2,0.2}; retained flags vs weights; G, chi_AB, chi4 and averages recomputed after truncation and compared with the untruncated values against the proven bounds; non-trivial = distinct case in which at least one block is discarded'
TRUSTED = ["harness/pipe.cpp drives the real classes along the documented workflow; case-file protocol with hex doubles",
           "numeric oracle (lean/Driver/Numeric*.lean): IEEE double arithmetic of compiled Lean, full-Fock-space sums",
           "Eigen's SelfAdjointEigenSolver is not verified: its output is certified on every case (residual, orthonormality)"]
ASSUMPTIONS = ["exact real/complex arithmetic in the theorems; tolerance tests idealised unless stated",
               "numerical comparison tolerance: proven budget + 1e-9 relative rounding slack"]
LEVEL_TEXT = 'Proof: a block is retained iff one of its weights exceeds eps (extracted test), eps=0 discards nothing (weights > 0), rows of an operator obeying the CAR have norm <= 1, hence the Lehmann terms skipped when both blocks are discarded change G by at most 2 eps dim/|Im z|, averages by eps dim M, chi_AB by 2 eps W/|Omega_k| (k != 0) resp. beta eps W (k = 0, via the mean-value inequality for Gibbs weights), chi4 at Matsubara frequencies by (4+2pi) eps beta^3/pi^3 W4 (all resonance classes). Stripe rule: truncated sum = full sum - stripes with all blocks discarded. Tie: retained flags exact; after truncation every value is compared (i) with the full-space sum over exactly the stripes containing a retained block and (ii) with the untruncated value against the proven bounds.'
LEVEL_NOTE = 'Trusted: as C01. Bounds for G, averages, chi_AB (all bosonic frequencies incl. the static one) and chi4 at Matsubara frequencies (all resonance classes, six orderings) are theorems and are the budgets the oracle uses; chi4 at general complex frequencies only in the non-resonant regime (…_partial). The stripe rule (a stripe is skipped only when all its blocks are discarded) is a theorem-level identity and an exact oracle.'
TECHNIQUE = 'Lean 4/Mathlib norm bounds + before/after differential comparison'
DESIGN_REF = "DESIGN.md section 6, C19"


def correspondence(ctx):
    pipeline.numeric_campaign(ctx, ["C19"], ("gf","susc","chi"), 30, 300, max_modes_quick=4, max_modes_thorough=5,
                              trunc=True, betas=(1.0, 5.0, 20.0, 60.0),
                              nontrivial=lambda meta, s: meta["modes"] >= 2)


def replay(ctx, rp):
    return pipeline.replay(ctx, rp)
