"""C18 -- index bookkeeping is a bijection; physics invariant under relabelling."""
import pipeline

LEAN_MODULES = ["PomerolModel.Properties.C18"]
GENERATED = ["coreflags"]
THEOREMS = ["Pomerol.Properties.C18." + t for t in (
    "enumeration_is_exactly_the_valid_triples", "enumeration_has_no_repetition", "table_size", "prepare_succeeds",
    "inverse_of_forward", "forward_of_inverse", "invalid_triple_maps_to_size", "out_of_range_index_rejected",
    "ordering_modes_differ_by_a_permutation", "break_variant_was_wrong", "renumbered_representation_is_car", "mode_switch_is_renumbering", "renaming_sites_is_renumbering",
    "results_change_by_the_induced_permutation", "mode_switch_matrices_similar", "renaming_matrices_similar")]
RULE = ("a case = random lattice (1-4 sites, 0-3 orbitals, 1-3 spins per site, arbitrary ASCII labels) under both ordering "
        "modes, also with the classification object declared when only the first site exists: full forward and inverse tables against "
        "the model, invalid triples, out-of-range indices; a search over 3e5 (thorough 2e6) generated labels for two that the key order "
        "cannot tell apart; plus relabelled / "
        "mode-switched reruns of whole models whose G, occupancies and spectrum must agree after the induced index "
        "permutation; non-trivial = distinct lattice with at least two sites of different shape, or a rerun pair")
TRUSTED = ["harness/pipe.cpp"]
ASSUMPTIONS = ["boost::hash<std::string> is injective on the labels in use (a collision would show up as a table mismatch)",
               "second sentence of the property (invariance under relabelling / mode switch) is checked by differential "
               "reruns only, not by a Lean theorem"]
LEVEL_TEXT = ("Proof: for every list of sites with distinct labels and both ordering modes (loop structure modelled, the "
              "break/continue of the spin-major branch extracted from the source) the enumeration lists exactly the valid "
              "(label, orbital, spin) triples once each, its length is sum norb*nspin, prepare never leaves a null slot, "
              "getInfo(getIndex x) = x, getIndex(getInfo i) = i, invalid triples map to N, out-of-range indices are rejected, "
              "and the two modes differ by a permutation. PARTIAL: invariance of the physics under relabelling/mode switch "
              "is established by differential reruns (G_ij, <n_i>, spectrum compared after permuting indices).")
LEVEL_NOTE = "Trusted: Lean kernel; std::map order = byte order of labels; hash injectivity; the invariance sentence is proved at the operator level (the two Hamiltonians are the same operator after renumbering the field operators by the induced permutation, and the two Jordan-Wigner matrices are similar via an explicit unit); Green's functions themselves follow by the representation-independent theorems of C01 etc. and are additionally compared by execution."
TECHNIQUE = "Lean 4 proof of the bijection over the modelled enumeration + differential reruns under relabelling"
DESIGN_REF = "DESIGN.md section 6, C18"


def table_script(r):
    n = r.choice([1, 2, 2, 3, 3, 4])
    labels = list(pipeline.LABELS) + ["B2", "AA", "a"]
    r.shuffle(labels)
    sites, seen = [], set()
    for k in range(n):
        l = labels[k]
        if l in seen:
            continue
        seen.add(l)
        sites.append((l, r.choice([0, 1, 1, 2, 3]), r.choice([1, 1, 2, 2, 3])))
    lines = ["site %s %d %d" % (pipeline.lab(l), o, s) for l, o, s in sites]
    if r.chance(1, 3):
        # the classification object is declared when only the first site exists (it refers to the lattice's site map)
        lines.insert(1, "earlyctor")
    lines.append("index %d" % r.below(2))
    # probes
    for _ in range(6):
        l, o, s = r.choice(sites)
        lines.append("getindex %s %d %d" % (pipeline.lab(l), r.range(0, o + 1), r.range(0, s + 1)))
    lines.append("getindex %s 0 0" % pipeline.lab("nope"))
    N = sum(o * s for _, o, s in sites)
    for i in (0, max(N - 1, 0), N, N + 3):
        lines.append("getinfo %d" % i)
    k = r.below(3)
    if k == 1:
        # the same lattice indexed again in the other ordering mode (a second IndexClassification object in the process)
        mode = int(next(l for l in lines if l.startswith("index ")).split()[1])
        lines.append("index %d" % (1 - mode))
        for _ in range(5):
            l, o, s = r.choice(sites)
            lines.append("getindex %s %d %d" % (pipeline.lab(l), r.range(0, o + 1), r.range(0, s + 1)))
        lines.append("getinfo %d" % r.below(max(N, 1)))
    elif k == 2 and len(sites) >= 2:
        # a second lattice in the same process that reuses the labels with exchanged shapes
        lines.append("newlattice")
        shapes = [(o, s) for _, o, s in sites]
        shapes = shapes[1:] + shapes[:1]
        sites2 = [(l, o, s) for (l, _, _), (o, s) in zip(sites, shapes)]
        lines += ["site %s %d %d" % (pipeline.lab(l), o, s) for l, o, s in sites2]
        lines.append("index %d" % r.below(2))
        for _ in range(5):
            l, o, s = r.choice(sites2)
            lines.append("getindex %s %d %d" % (pipeline.lab(l), r.range(0, o + 1), r.range(0, s + 1)))
        N2 = sum(o * s for _, o, s in sites2)
        lines.append("getinfo %d" % r.below(max(N2, 1)))
    return lines, sites


def parse_obs(case):
    d = {}
    for l in case.splitlines():
        t = l.split()
        if len(t) > 2 and t[0] == "o" and t[1] in ("gfn", "occ", "allev", "idx"):
            d.setdefault(t[1], []).append(t[2:])
    return d


def fl(h):
    import struct
    return struct.unpack("<d", struct.pack("<Q", int(h, 16)))[0]


def collision_search(ctx):
    """search for a concrete failing input of the key order: two different labels that IndexInfo::operator< cannot tell apart
    (a narrower hash, a comparison that ignores part of the key, ...) make the index table lose a site"""
    thorough = ctx.tier == "thorough"
    n = 2000000 if thorough else 300000
    res = pipeline.run_batch([["collide %d %d" % (n, ctx.rng.below(1 << 30))]], "real", numeric=False)[0]
    ctx.evaluations += 1
    ctx.count("labels_searched_for_key_collisions", n)
    hit = [l.split() for l in res.case.splitlines() if l.startswith("o collision")]
    if not hit:
        return
    a, b = hit[0][2], hit[0][3]
    s = ["site %s 1 2" % a, "site %s 2 1" % b, "dumplattice", "index 0",
         "getindex %s 0 0" % a, "getindex %s 0 1" % a, "getindex %s 0 0" % b, "getindex %s 1 0" % b, "getinfo 0", "getinfo 3", "index 1"]
    ctx.count("key_collisions_found")
    pipeline.collect(ctx, pipeline.run_batch([s], "real"), ["C18"])


def correspondence(ctx):
    collision_search(ctx)
    r = ctx.rng
    thorough = ctx.tier == "thorough"
    scripts, metas = [], []
    for _ in range(2000 if thorough else 100):
        s, sites = table_script(r)
        scripts.append(s)
        metas.append(sites)
    res = pipeline.run_batch(scripts, "real", numeric=False)
    pipeline.collect(ctx, res, ["C18"])
    for s, sites in zip(scripts, metas):
        if len(set((o, sp) for _, o, sp in sites)) > 1:
            ctx.distinct.add(tuple(s))
        ctx.count("sites_%d" % len(sites))
    ctx.samples = [dict(script=s) for s in scripts[:3]]
    # relabelling / mode switch reruns
    pairs = []
    for _ in range(100 if thorough else 10):
        m = pipeline.gen_model(r, max_modes=4)
        beta = r.choice([1.0, 3.0])
        M = m.modes()
        obs = ["dm %s" % pipeline.hx(beta), "fops"] + ["gf %d %d 2 0 3 0 0" % (i, j) for i in range(M) for j in range(M)]
        base = pipeline.core_script(m, order=0, symm="default") + obs
        # (a) switch the ordering mode
        alt = pipeline.core_script(m, order=1, symm="default") + obs
        perm_a = [m.index_list(True).index(x) for x in m.index_list(False)]
        # (b) rename the sites (order-preserving or not)
        names = [l for l, _, _ in m.sites]
        new = ["r" + chr(ord("k") - i) for i in range(len(names))]       # reverses the byte order
        ren = dict(zip(names, new))
        m2 = pipeline.Model()
        m2.sites = [(ren[l], o, s) for l, o, s in m.sites]
        m2.build = [rename_line(l, ren) for l in m.build]
        alt2 = pipeline.core_script(m2, order=0, symm="default") + obs
        perm_b = [m2.index_list(False).index((ren[l], o, s)) for (l, o, s) in m.index_list(False)]
        pairs.append((base, alt, perm_a, "mode-switch"))
        pairs.append((base, alt2, perm_b, "relabel"))
    flat = [p[0] for p in pairs] + [p[1] for p in pairs]
    res = pipeline.run_batch(flat, "real", numeric=False)
    half = len(pairs)
    for k, (base, alt, perm, what) in enumerate(pairs):
        a, b = res[k], res[half + k]
        ctx.evaluations += 1
        ctx.count("rerun_" + what)
        ctx.distinct.add((what, tuple(alt)))
        if a.aborted() or b.aborted():
            ctx.problem("sanitizer", "rerun pair aborted", script=alt, harness="pipe", variant="real", signature="rerun-abort")
            continue
        oa, ob = parse_obs(a.case), parse_obs(b.case)
        bad = None
        gb = {(int(t[0]), int(t[1]), t[2]): (fl(t[3]), fl(t[4])) for t in ob.get("gfn", [])}
        for t in oa.get("gfn", []):
            i, j, n = int(t[0]), int(t[1]), t[2]
            va = (fl(t[3]), fl(t[4]))
            vb = gb.get((perm[i], perm[j], n))
            if vb is None or abs(va[0] - vb[0]) + abs(va[1] - vb[1]) > 2e-6 * (1.0 + abs(va[0]) + abs(va[1])):   # residues below 1e-8 are dropped order-dependently
                bad = "G_%d%d(n=%s) = %s but after %s G_%d%d = %s" % (i, j, n, va, what, perm[i], perm[j], vb)
                break
        occb = {int(t[0]): fl(t[1]) for t in ob.get("occ", [])}
        for t in oa.get("occ", []):
            if abs(fl(t[1]) - occb.get(perm[int(t[0])], 1e9)) > 1e-8 and not bad:
                bad = "occupancy of index %s changes under %s" % (t[0], what)
        ea = sorted(fl(x) for x in (oa.get("allev") or [[0]])[0][1:])
        eb = sorted(fl(x) for x in (ob.get("allev") or [[0]])[0][1:])
        if len(ea) != len(eb) or any(abs(x - y) > 1e-9 for x, y in zip(ea, eb)):
            bad = bad or "spectrum changes under %s" % what
        if bad:
            ctx.problem("propfail", "PROPFAIL[C18] " + bad, script=alt, base_script=base, harness="pipe", variant="real",
                        signature="C18-invariance-" + what)


def rename_line(line, ren):
    t = line.split()
    hexren = {pipeline.lab(a): pipeline.lab(b) for a, b in ren.items()}
    return " ".join(hexren.get(x, x) for x in t)


def replay(ctx, rp):
    return pipeline.replay(ctx, rp)
