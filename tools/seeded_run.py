#!/usr/bin/env python3
"""Runs the checks against the seeded property-breaking changes kept under /verif/seeded/<id>/<k>/.
Each change is applied to a scratch worktree of /repo (VERIF_REPO), never to /repo itself.
usage: seeded_run.py [--tier quick|thorough] [--jobs N] [<id>[/<k>] ...]     writes seeded/results.json + seeded/RESULTS.md"""
import json, os, subprocess, sys, re, glob, tempfile, shutil
from concurrent.futures import ThreadPoolExecutor

VERIF = os.path.dirname(os.path.dirname(os.path.abspath(__file__)))
SEEDED = os.path.join(VERIF, "seeded")


def run_one(entry, tier):
    pid, k = entry
    d = os.path.join(SEEDED, pid, k)
    meta = json.load(open(os.path.join(d, "meta.json")))
    props = [pid] + [p for p in meta.get("also_checked_by", []) if p != pid]
    scratch = tempfile.mkdtemp(prefix="seeded_%s_%s_" % (pid, k))
    wt = os.path.join(scratch, "wt")
    res = {}
    # private copy of the Lean project (the translator rewrites Generated/*.lean from the changed sources)
    lean = os.path.join(scratch, "lean")
    subprocess.run(["cp", "-a", os.path.join(VERIF, "lean"), lean], check=True)
    try:
        subprocess.run(["git", "-C", "/repo", "worktree", "add", "-f", "--detach", wt, "HEAD", "-q"], check=True, capture_output=True)
        ap = subprocess.run(["git", "-C", wt, "apply", os.path.join(d, "patch.diff")], capture_output=True, text=True)
        if ap.returncode != 0:
            return entry, {"error": "patch does not apply: " + ap.stderr[-300:]}
        for p in props:
            env = dict(os.environ, VERIF_REPO=wt, VERIF_EVIDENCE_DIR=os.path.join(scratch, "ev"), VERIF_REPLAY_DIR=os.path.join(scratch, "rp"), VERIF_LEAN_DIR=lean)
            pr = subprocess.run([sys.executable, os.path.join(VERIF, "tools", "check.py"), p, "--tier", tier], cwd=VERIF, env=env,
                                capture_output=True, text=True)
            out = pr.stdout + pr.stderr
            viol = [l for l in out.splitlines() if l.startswith("VIOLATION")]
            probs = [l.strip()[:260] for l in out.splitlines() if l.startswith("[problem]")]
            if pr.returncode == 0:
                verdict = "missed"
            elif any(not l.rstrip().endswith("no-failing-input-found") for l in viol):
                verdict = "violation-with-replay"
            else:
                verdict = "violation-no-failing-input-found"
            res[p] = dict(rc=pr.returncode, verdict=verdict, problems=probs[:4])
    finally:
        subprocess.run(["git", "-C", "/repo", "worktree", "remove", "--force", wt], capture_output=True)
        shutil.rmtree(scratch, ignore_errors=True)
    return entry, res


def main():
    args = sys.argv[1:]
    tier, jobs, sel = "quick", 3, []
    while args:
        a = args.pop(0)
        if a == "--tier":
            tier = args.pop(0)
        elif a == "--jobs":
            jobs = int(args.pop(0))
        else:
            sel.append(a)
    entries = []
    for d in sorted(glob.glob(os.path.join(SEEDED, "C*", "*", "patch.diff"))):
        pid, k = d.split(os.sep)[-3:-1]
        if not sel or pid in sel or "%s/%s" % (pid, k) in sel:
            entries.append((pid, k))
    # VERIF_SEEDED_RESULTS=<file>: write the verdicts of this run (e.g. at another VERIF_SEED) to another file and leave
    # results.json / RESULTS.md alone
    alt = os.environ.get("VERIF_SEEDED_RESULTS")
    rp = alt or os.path.join(SEEDED, "results.json")
    results = json.load(open(rp)) if os.path.exists(rp) else {}
    with ThreadPoolExecutor(jobs) as ex:
        for (pid, k), res in ex.map(lambda e: run_one(e, tier), entries):
            results["%s/%s" % (pid, k)] = dict(tier=tier, checks=res)
            print(pid, k, json.dumps({p: v.get("verdict") if isinstance(v, dict) else v for p, v in res.items()}), flush=True)
    json.dump(results, open(rp, "w"), indent=1, sort_keys=True)
    if alt:
        return 0
    with open(os.path.join(SEEDED, "RESULTS.md"), "w") as f:
        f.write("# Seeded property-breaking changes and what the checks say about them\n\n"
                "Produced by fresh sub-agents that saw only the property text and a scratch worktree of /repo. Every change\n"
                "compiles and passes the 20 tests. Regenerate with `python3 tools/seeded_run.py`.\n\n"
                "| seed | change | trigger | check | verdict |\n|---|---|---|---|---|\n")
        for key in sorted(results):
            pid, k = key.split("/")
            mp = os.path.join(SEEDED, pid, k, "meta.json")
            if not os.path.exists(mp):
                continue
            meta = json.load(open(mp))
            for p, v in results[key]["checks"].items():
                if not isinstance(v, dict):
                    continue
                f.write("| %s | %s | %s | %s (%s) | %s |\n" % (key, meta.get("summary", "").replace("|", "/")[:220],
                        meta.get("trigger", "").replace("|", "/")[:200], p, results[key]["tier"], v.get("verdict")))
    return 0


if __name__ == "__main__":
    sys.exit(main())
