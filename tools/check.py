#!/usr/bin/env python3
"""Orchestrator:  python3 tools/check.py <Cxx> [--tier quick|thorough] [--replay FILE]

For one property it
  1. regenerates the Lean `Generated/` layer from /repo's current sources (translator),
  2. builds the property's Lean modules (= re-checks every proof obligation), greps for forbidden
     constructs, audits the axioms of every property theorem (thorough: leanchecker too),
  3. rebuilds the instrumented library + harness from /repo's working tree and runs the
     correspondence (implementation vs executable Lean model vs property oracle),
  4. on any failure searches for a concrete failing input and prints
        VIOLATION property=<id> replay=<path> [no-failing-input-found]
  5. filters listed known findings, writes evidence/<id>.json, exits 0/1.
"""
import argparse
import importlib
import json
import os
import sys
import time
import traceback

sys.path.insert(0, os.path.dirname(os.path.abspath(__file__)))
import pmlib  # noqa: E402
import translate  # noqa: E402

TRUSTED_BASE_COMMON = [
    "Lean 4.33.0 kernel (lake build; thorough tier: leanchecker re-check of the property module)",
    "axioms allowed: propext, Classical.choice, Quot.sound (audited per theorem with #print axioms on every run); "
    "no sorry/admit/native_decide/bv_decide/own axioms (grep on every run)",
    "translator tools/translate.py + tools/cexpr.py (regex anchors + expression grammar) -- its output is also "
    "executed by the driver against the implementation",
    "correspondence: C++ harness under /verif/harness, case-file protocol, compiled Lean driver pmdriver",
    "g++ 12 / libstdc++ / Eigen 3.4 / Boost 1.83 / OpenMPI as the execution platform of the implementation; every MPI "
    "launch uses a private OMPI_MCA_orte_tmpdir_base, and a launch whose Open MPI runtime fails to start (orte_init / "
    "orte_session_dir, before main's first statement after MPI_Init) is repeated at most 3 times and counted in "
    "notes.mpi_runtime_start_failures_relaunched",
]


class Ctx:
    def __init__(self, pid, tier, seed):
        self.pid = pid
        self.tier = tier
        self.seed = seed
        self.rng = pmlib.SplitMix64(seed * 0x9E3779B1 + hash_str(pid))
        self.t0 = time.time()
        self.problems = []      # dicts: kind, what, replay-data ; kind in propfail|mismatch|proof|translate|sanitizer|build|hang
        self.evaluations = 0
        self.distinct = set()
        self.samples = []
        self.dist = {}
        self.notes = {}
        self.known_lines = []

    def count(self, key, n=1):
        self.dist[key] = self.dist.get(key, 0) + n

    def problem(self, kind, what, **data):
        self.problems.append(dict(kind=kind, what=what, **data))


def hash_str(s):
    h = 1469598103934665603
    for ch in s.encode():
        h = ((h ^ ch) * 1099511628211) & 0xFFFFFFFFFFFFFFFF
    return h


def load_known():
    p = os.path.join(pmlib.VERIF, "known_findings.json")
    if not os.path.exists(p):
        return []
    with open(p) as f:
        return json.load(f)


def lean_phase(ctx, mod):
    """Translator + proof obligations + hygiene + axiom audit. Returns (obligations, discharged, details)."""
    details = {}
    # 1. translator
    try:
        res = translate.run(getattr(mod, "GENERATED", None))
        details["generated"] = ["%s%s" % (n, " (changed)" if ch else "") for n, ch in res]
    except translate.TranslateError as ex:
        ctx.problem("translate", "translator cannot extract: %s" % ex)
        details["translate_error"] = str(ex)
    # 2. driver (tie) and property modules (obligations)
    rc, out = pmlib.lake_build(["pmdriver"])
    if rc != 0:
        ctx.problem("build", "Lean driver does not build against the regenerated formulas",
                    log=out[-4000:])
    theorems = list(mod.THEOREMS)
    obligations = len(theorems)
    discharged = 0
    rc, out = pmlib.lake_build(mod.LEAN_MODULES)
    details["lake_build_rc"] = rc
    if rc != 0:
        errs = [l for l in out.splitlines() if "error" in l][:20]
        ctx.problem("proof", "proof obligations no longer check: lake build %s failed" % " ".join(mod.LEAN_MODULES),
                    theorems=theorems, log="\n".join(errs) or out[-3000:])
        return obligations, 0, details
    # 3. hygiene
    hits = pmlib.lean_hygiene()
    if hits:
        ctx.problem("proof", "forbidden construct in Lean sources: " + "; ".join(hits[:10]), theorems=theorems)
        return obligations, 0, details
    # 4. axiom audit
    audit_dir = os.path.join(pmlib.LEAN_DIR, ".lake", "audit")
    os.makedirs(audit_dir, exist_ok=True)
    audit = os.path.join(audit_dir, ctx.pid + ".lean")
    with open(audit, "w") as f:
        for m in mod.LEAN_MODULES:
            f.write("import %s\n" % m)
        for t in theorems:
            f.write("#print axioms %s\n" % t)
    rc, out = pmlib.lean_run_file(audit)
    ax = pmlib.parse_axioms(out)
    bad = []
    for t in theorems:
        if t not in ax:
            bad.append("%s: not found / not checked" % t)
        elif not ax[t] <= pmlib.ALLOWED_AXIOMS:
            bad.append("%s: axioms %s" % (t, sorted(ax[t] - pmlib.ALLOWED_AXIOMS)))
        else:
            discharged += 1
    details["axioms"] = {t: sorted(ax.get(t, ["?"])) for t in theorems}
    if bad:
        ctx.problem("proof", "axiom audit failed: " + "; ".join(bad), theorems=theorems, log=out[-3000:])
    # 5. thorough: independent re-check
    if ctx.tier == "thorough" and not bad:
        for m in mod.LEAN_MODULES:
            rc, out = pmlib.leanchecker(m)
            details["leanchecker " + m] = rc
            if rc != 0:
                ctx.problem("proof", "leanchecker rejects %s" % m, theorems=theorems, log=out[-3000:])
                discharged = 0
    return obligations, discharged, details


def write_replay(ctx, k, prob):
    os.makedirs(pmlib.REPLAY_DIR, exist_ok=True)
    path = os.path.join(pmlib.REPLAY_DIR, "%s-%d-%d.json" % (ctx.pid, ctx.seed, k))
    with open(path, "w") as f:
        d = dict(prob)
        d.update(property=ctx.pid, seed=ctx.seed, tier=ctx.tier, repo=pmlib.REPO)
        json.dump(d, f, indent=1, default=str)
    return path


def matches_known(prob, entry):
    if entry.get("kind") != "known" or entry.get("property") != prob.get("property"):
        return False
    m = entry.get("match", {})
    for key, val in m.items():
        if str(prob.get(key)) != str(val):
            return False
    return True


def main():
    ap = argparse.ArgumentParser()
    ap.add_argument("pid")
    ap.add_argument("--tier", default=os.environ.get("VERIF_TIER", "quick"))
    ap.add_argument("--replay")
    a = ap.parse_args()
    pid = a.pid
    tier = a.tier if a.tier in ("quick", "thorough") else "quick"
    seed = pmlib.get_seed()
    mod = importlib.import_module("props." + pid)
    ctx = Ctx(pid, tier, seed)

    if a.replay:
        with open(a.replay) as f:
            rp = json.load(f)
        return mod.replay(ctx, rp)

    obligations = discharged = 0
    details = {}
    try:
        obligations, discharged, details = lean_phase(ctx, mod)
        mod.correspondence(ctx)
    except Exception as ex:  # machinery failure: never silently pass
        ctx.problem("build", "check machinery failed: %s" % ex, log=traceback.format_exc()[-4000:])

    # ---- decide ---------------------------------------------------------
    concrete = [p for p in ctx.problems if p["kind"] in ("propfail", "sanitizer", "hang")]
    broken = [p for p in ctx.problems if p["kind"] not in ("propfail", "sanitizer", "hang")]
    known = load_known()
    violations = 0
    out_lines = []
    k = 0
    reported = set()
    for p in concrete:
        p["property"] = pid
        hit = [e for e in known if matches_known(p, e)]
        if hit:
            line = "KNOWN-FINDING: property=%s %s" % (pid, hit[0].get("what", p["what"]))
            if line not in reported:
                reported.add(line)
                out_lines.append(line)
            continue
        sig = (p["kind"], p.get("signature", p["what"]))
        if sig in reported:
            continue
        reported.add(sig)
        k += 1
        path = write_replay(ctx, k, p)
        out_lines.append("VIOLATION property=%s replay=%s" % (pid, path))
        log_problem(p)
        violations += 1
        if k >= 5:
            break
    if broken and violations == 0:
        # the proof / tie no longer checks and the search found no failing input
        p = dict(broken[0])
        p["property"] = pid
        p["all_broken"] = [dict(kind=b["kind"], what=b["what"]) for b in broken]
        k += 1
        path = write_replay(ctx, k, p)
        out_lines.append("VIOLATION property=%s replay=%s no-failing-input-found" % (pid, path))
        for b in broken:
            log_problem(b)
        violations += 1
    elif broken:
        for b in broken:
            log_problem(b)
    # listed known findings that are checked by construction (counterexample theorems etc.)
    for line in ctx.known_lines:
        if line not in reported:
            reported.add(line)
            out_lines.append(line)

    # ---- evidence -------------------------------------------------------
    # launches of MPI programs by this check, and how many had to be repeated because the Open MPI runtime itself
    # (not the harness, not the library) failed to start -- see pmlib.mpi_runtime_init_failed
    ctx.notes["mpi_launches"] = pmlib.MPI_STATS["launches"]
    ctx.notes["mpi_runtime_start_failures_relaunched"] = pmlib.MPI_STATS["runtime_init_failures"]
    cov = dict(
        obligations=max(obligations, 1), discharged=discharged,
        checker_cmd="cd lean && lake build %s pmdriver && lake env lean .lake/audit/%s.lean  (#print axioms)%s" % (
            " ".join(mod.LEAN_MODULES), pid, " && lake env leanchecker <module>" if tier == "thorough" else ""),
        trusted_base=TRUSTED_BASE_COMMON + list(getattr(mod, "TRUSTED", [])),
        theorems=list(mod.THEOREMS),
        evaluations=ctx.evaluations, distinct_nontrivial=len(ctx.distinct),
        rule=getattr(mod, "RULE", "") + ((" " + mod.pipeline.STREAMS_NOTE) if hasattr(mod, "pipeline") and hasattr(mod.pipeline, "STREAMS_NOTE") else ""), samples=ctx.samples[:8],
        input_distribution=ctx.dist, exhaustive=bool(ctx.notes.get("exhaustive", False)),
        details=details, notes=ctx.notes,
        problems=[dict(kind=p["kind"], what=p["what"]) for p in ctx.problems][:20],
    )
    ev = dict(property_id=pid, tier=tier, seed=seed, level="proof", coverage=cov,
              assumptions=list(getattr(mod, "ASSUMPTIONS", [])),
              wall_s=round(time.time() - ctx.t0, 2), violations=violations)
    os.makedirs(pmlib.EVIDENCE_DIR, exist_ok=True)
    with open(os.path.join(pmlib.EVIDENCE_DIR, pid + ".json"), "w") as f:
        json.dump(ev, f, indent=1, default=str)
    for l in out_lines:
        print(l)
    print("%s %s tier=%s seed=%d obligations=%d discharged=%d evaluations=%d distinct=%d wall=%.1fs" % (
        pid, "FAIL" if violations else "ok", tier, seed, obligations, discharged, ctx.evaluations,
        len(ctx.distinct), time.time() - ctx.t0))
    return 1 if violations else 0


def log_problem(p):
    pmlib.log("[problem] %s: %s" % (p["kind"], p["what"]))
    if p.get("log"):
        pmlib.log("          " + str(p["log"])[:1500].replace("\n", "\n          "))


if __name__ == "__main__":
    sys.exit(main())
