#!/bin/bash
# Runs the repository's pinned test suite with the verification guard OFF (plain configuration).
set -e
B=${BASELINE_BUILD_DIR:-/tmp/pomerol_baseline_off}
rm -rf "$B"
cmake -G Ninja -S /repo -B "$B" -DCMAKE_BUILD_TYPE=RelWithDebInfo -DTesting=ON -DCMAKE_CXX_FLAGS=-Wno-error > "$B.log" 2>&1
cmake --build "$B" -j 16 >> "$B.log" 2>&1
export OMPI_ALLOW_RUN_AS_ROOT=1 OMPI_ALLOW_RUN_AS_ROOT_CONFIRM=1
set +e
ctest --test-dir "$B" -j8 --timeout 900 --output-junit "$B/junit.xml"
rc=$?
rm -rf "$B"
exit $rc
