#!/bin/bash
# Runs the repository's pinned test suite with the verification guard OFF (plain configuration).
set -e
B=${BASELINE_BUILD_DIR:-/tmp/pomerol_baseline_off}
rm -rf "$B" "$B.mpi"
cmake -G Ninja -S /repo -B "$B" -DCMAKE_BUILD_TYPE=RelWithDebInfo -DTesting=ON -DCMAKE_CXX_FLAGS=-Wno-error > "$B.log" 2>&1
cmake --build "$B" -j 16 >> "$B.log" 2>&1
export OMPI_ALLOW_RUN_AS_ROOT=1 OMPI_ALLOW_RUN_AS_ROOT_CONFIRM=1
# Open MPI session directories of this run live under a base of their own: the shared /tmp/ompi.<host>.<uid> is removed
# by whichever MPI process finalises last, which can make the start-up of another one fail (see pmlib.mpi_runtime_init_failed)
mkdir -p "$B.mpi"
export OMPI_MCA_orte_tmpdir_base="$B.mpi"
set +e
ctest --test-dir "$B" -j8 --timeout 900 --output-junit "$B/junit.xml"
rc=$?
if [ $rc -ne 0 ] && grep -q "orte_session_dir failed" "$B/Testing/Temporary/LastTest.log" 2>/dev/null; then
    # the eight parallel tests still share $B.mpi among themselves: a test that died inside MPI_Init (before any of its
    # own code ran) is run again, alone
    echo "[baseline_off] a test died in the start-up of the Open MPI runtime; re-running the failed tests serially"
    ctest --test-dir "$B" -j1 --timeout 900 --rerun-failed --output-junit "$B/junit-rerun.xml"
    rc=$?
fi
rm -rf "$B" "$B.mpi"
exit $rc
