/-
  Numeric property oracles for the pipeline harness: everything is recomputed on the FULL Fock space from
  (a) the implementation's symbolic Hamiltonian, turned into its Jordan-Wigner matrix, and (b) the
  eigen-system the implementation reports, which is first CERTIFIED (residual, orthonormality).  The
  observables are then evaluated with the hand-written specification formulas (the right-hand sides of
  the Lean theorems `lehmann_single`, `lehmann_susc`, `chi_lehmann`, `avg_*`, …), not with anything
  extracted from the source, and compared with what the implementation returned within the error budget
  stated by the property (dropped residues below tolerance, proven truncation bounds) plus a rounding slack.
-/
import PomerolModel.Model.Symm
import Driver.Util
import Driver.Scalars

namespace Driver.Numeric
open Pomerol Pomerol.Model Driver

abbrev C := CFloat
abbrev Mat := Array (Array C)     -- row-major, square unless stated

def czero : C := ⟨0.0, 0.0⟩
def cone : C := ⟨1.0, 0.0⟩
def ofR (x : Float) : C := ⟨x, 0.0⟩

def zeros (r c : Nat) : Mat := Array.replicate r (Array.replicate c czero)
def ident (n : Nat) : Mat := (Array.range n).map fun i => (Array.range n).map fun j => if i = j then cone else czero
def mget (a : Mat) (i j : Nat) : C := (a[i]!)[j]!
def mset (a : Mat) (i j : Nat) (v : C) : Mat := a.modify i fun row => row.set! j v
def nrows (a : Mat) : Nat := a.size
def ncols (a : Mat) : Nat := if a.size = 0 then 0 else (a[0]!).size

def matMul (a b : Mat) : Mat :=
  let n := nrows a; let k := ncols a; let m := ncols b
  (Array.range n).map fun i =>
    let ai := a[i]!
    (Array.range k).foldl (fun (acc : Array C) l =>
      let x := ai[l]!
      if x.re == 0.0 && x.im == 0.0 then acc else
      let bl := b[l]!
      (Array.range m).map fun j => acc[j]! + x * bl[j]!) (Array.replicate m czero)

def adjoint (a : Mat) : Mat :=
  let n := nrows a; let m := ncols a
  (Array.range m).map fun j => (Array.range n).map fun i => (mget a i j).conj

def matAdd (a b : Mat) : Mat := (Array.range a.size).map fun i => (Array.range (a[i]!).size).map fun j => mget a i j + mget b i j
def matSub (a b : Mat) : Mat := (Array.range a.size).map fun i => (Array.range (a[i]!).size).map fun j => mget a i j - mget b i j
def maxAbs (a : Mat) : Float := a.foldl (fun m r => r.foldl (fun m x => if x.abs > m then x.abs else m) m) 0.0
def maxDiff (a b : Mat) : Float := maxAbs (matSub a b)

/-- Jordan-Wigner matrix of one elementary operator on `M` modes (Fock basis, `A[bra][ket]`) -/
def opMatrix (M : Nat) (o : Op) : Mat :=
  (List.range (2 ^ M)).foldl (fun a ket =>
    match actOp o ket with
    | some (bra, neg) => if bra < 2 ^ M then mset a bra ket (if neg then ofR (-1.0) else cone) else a
    | none => a) (zeros (2 ^ M) (2 ^ M))

/-- Jordan-Wigner matrix of a polynomial, from the elementary matrices via `actMono` (sum of signed partial maps) -/
def polyMatrix (M : Nat) (p : Poly C) : Mat :=
  p.foldl (fun a (m, c) =>
    (List.range (2 ^ M)).foldl (fun a ket =>
      match actMono m ket with
      | some (bra, neg) => if bra < 2 ^ M then mset a bra ket (mget a bra ket + (if neg then -c else c)) else a
      | none => a) a) (zeros (2 ^ M) (2 ^ M))

structure Sys where
  M : Nat := 0
  dim : Nat := 0
  ham : Poly C := []
  blocks : Array (Array Nat) := #[]
  E : Array Float := #[]
  kOf : Array (Nat × Nat) := #[]
  kStart : Array Nat := #[]
  V : Mat := #[]
  beta : Float := 1.0
  wImpl : Array Float := #[]
  haveEig : Bool := false
  haveDM : Bool := false
  retained : Array Bool := #[]
  truncEps : Float := 0.0

def kIndex (s : Sys) (b i : Nat) : Nat := s.kStart[b]! + i

/-- spec weights from the certified eigenvalues -/
def specWeights (s : Sys) : Array Float :=
  let e0 := s.E.foldl (fun m x => if x < m then x else m) (s.E[0]!)
  let u := s.E.map fun e => Float.exp (-(s.beta) * (e - e0))
  let z := u.foldl (· + ·) 0.0
  u.map (· / z)

/-- eigenbasis matrix of an operator given in the Fock basis: `V† A V` -/
def rotate (s : Sys) (a : Mat) : Mat := matMul (adjoint s.V) (matMul a s.V)

def parseFloats (ts : List String) : List Float := ts.map fun t => (floatOfHex t).getD 0.0
def parseC (a b : String) : C := ⟨(floatOfHex a).getD 0.0, (floatOfHex b).getD 0.0⟩

def readPolyC : List String → Poly C
  | n :: rest =>
    let rec go : Nat → List String → Poly C
      | 0, _ => []
      | k + 1, re :: im :: len :: r =>
        let l := len.toNat!
        let ops := (List.range l).map fun j => (⟨r.getD (2 * j) "0" == "1", (r.getD (2 * j + 1) "0").toNat!⟩ : Op)
        (ops, parseC re im) :: go k (r.drop (2 * l))
      | _, _ => []
    go n.toNat! rest
  | _ => []

end Driver.Numeric
