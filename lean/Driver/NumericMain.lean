import PomerolModel.Model.Chi4Prepare
import PomerolModel.Model.GFPart
import PomerolModel.Model.Averages
import Driver.NumericRun

namespace Driver.Numeric
open Pomerol Pomerol.Model Driver

def pi : Float := 3.141592653589793

def fOf (t : String) : Float := (floatOfHex t).getD 0.0

/-- Matsubara frequency iω_n, fermionic -/
def iwF (beta : Float) (n : Int) : C := ⟨0.0, (2.0 * Float.ofInt n + 1.0) * pi / beta⟩

/-- the block of a Fock state according to the implementation's block lists -/
def blockOfState (s : Sys) (f : Nat) : Option Nat :=
  (List.range s.blocks.size).find? fun b => (s.blocks[b]!).contains f

/-- brute-force block map of an operator given by its Fock matrix: for every right block the set of left blocks hit -/
def bruteTargets (s : Sys) (op : Mat) (r : Nat) : List Nat :=
  (s.blocks[r]!).foldl (fun acc ket =>
    (List.range s.dim).foldl (fun acc bra =>
      if (mget op bra ket).abs > 0.0 then
        match blockOfState s bra with
        | some l => if acc.contains l then acc else acc ++ [l]
        | none => acc
      else acc) acc) []

def opFock (s : Sys) (kind : String) (i j : Nat) : Mat :=
  if kind == "cdag" || kind == "cdag1" then opMatrix s.M ⟨false, i⟩
  else if kind == "c" || kind == "c1" then opMatrix s.M ⟨true, i⟩
  else matMul (opMatrix s.M ⟨false, i⟩) (opMatrix s.M ⟨true, j⟩)

def scaleM (x : C) (m : Mat) : Mat := m.map fun row => row.map (· * x)

def idxOf (a : Acc) (l : String) (o sp : Nat) : Option Nat := a.idxTable.findIdx? (· == (l, o, sp))

def nOp (a : Acc) (l : String) (o sp : Nat) : Option Mat :=
  (idxOf a l o sp).map fun i => matMul (opMatrix a.s.M ⟨false, i⟩) (opMatrix a.s.M ⟨true, i⟩)

def cdOp (a : Acc) (l : String) (o sp : Nat) : Option Mat := (idxOf a l o sp).map fun i => opMatrix a.s.M ⟨false, i⟩
def cOp (a : Acc) (l : String) (o sp : Nat) : Option Mat := (idxOf a l o sp).map fun i => opMatrix a.s.M ⟨true, i⟩

def shapeOf (a : Acc) (l : String) : Nat × Nat := ((a.curSites.find? (·.1 == l)).map (·.2)).getD (0, 0)

def sumM (dim : Nat) (l : List (Option Mat)) : Option Mat :=
  l.foldlM (fun acc x => x.map (matAdd acc)) (zeros dim dim)

def mulO (x y : Option Mat) : Option Mat := do let a ← x; let b ← y; pure (matMul a b)
def sclO (c : C) (x : Option Mat) : Option Mat := x.map (scaleM c)

/-- THE DOCUMENTED OPERATOR of a preset call (include/pomerol/LatticePresets.h), written with number and spin operators.
Spin labels: up = 1, down = 0. -/
def docMatrix (a : Acc) (cmd : List String) : Option Mat :=
  let dim := a.s.dim
  let v (re im : String) : C := parseC re im
  let up := 1; let dn := 0
  match cmd with
  | ["preset", "coulombS", l, ur, ui, er, ei] =>
    let (no, ns) := shapeOf a l
    sumM dim ((List.range no).flatMap fun al =>
      ((List.range ns).flatMap fun s1 => (List.range s1).map fun s2 => sclO (v ur ui) (mulO (nOp a l al s1) (nOp a l al s2)))
      ++ (List.range ns).map fun s1 => sclO (v er ei) (nOp a l al s1))
  | ["preset", "level", l, er, ei] =>
    let (no, ns) := shapeOf a l
    sumM dim ((List.range no).flatMap fun al => (List.range ns).map fun s1 => sclO (v er ei) (nOp a l al s1))
  | ["preset", "magnetization", l, mr, mi] =>
    let (no, _) := shapeOf a l
    let h := v mr mi * ofR 0.5
    sumM dim ((List.range no).flatMap fun al => [sclO h (nOp a l al up), sclO (-h) (nOp a l al dn)])
  | "preset" :: kind :: l :: rest =>
    if kind == "coulombP" || kind == "coulombP3" then
      let (U, Up, J, eps) : C × C × C × C :=
        if kind == "coulombP" then
          (v (rest.getD 0 "0") (rest.getD 1 "0"), v (rest.getD 2 "0") (rest.getD 3 "0"), v (rest.getD 4 "0") (rest.getD 5 "0"), v (rest.getD 6 "0") (rest.getD 7 "0"))
        else
          let U := v (rest.getD 0 "0") (rest.getD 1 "0"); let J := v (rest.getD 2 "0") (rest.getD 3 "0")
          (U, U - ofR 2.0 * J, J, v (rest.getD 4 "0") (rest.getD 5 "0"))
      let (no, ns) := shapeOf a l
      let orbPairs := (List.range no).flatMap fun x => ((List.range no).filter (· != x)).map fun y => (x, y)
      let spinPairs := (List.range ns).flatMap fun s1 => (List.range s1).map fun s2 => (s1, s2)
      sumM dim (
        -- U Σ_{α, σ>σ'} n n
        ((List.range no).flatMap fun al => spinPairs.map fun (s1, s2) => sclO U (mulO (nOp a l al s1) (nOp a l al s2)))
        -- U' Σ_{α≠α', σ>σ'} n_{ασ} n_{α'σ'}
        ++ (orbPairs.flatMap fun (x, y) => spinPairs.map fun (s1, s2) => sclO Up (mulO (nOp a l x s1) (nOp a l y s2)))
        -- (U'-J)/2 Σ_{α≠α', σ} n_{ασ} n_{α'σ}
        ++ (orbPairs.flatMap fun (x, y) => (List.range ns).map fun s1 => sclO ((Up - J) * ofR 0.5) (mulO (nOp a l x s1) (nOp a l y s1)))
        -- -J Σ_{α≠α', σ>σ'} (c†_{ασ} c†_{α'σ'} c_{α'σ} c_{ασ'} + c†_{ασ} c†_{ασ'} c_{α'σ} c_{α'σ'})
        ++ (orbPairs.flatMap fun (x, y) => spinPairs.flatMap fun (s1, s2) =>
              [sclO (-J) (mulO (mulO (cdOp a l x s1) (cdOp a l y s2)) (mulO (cOp a l y s1) (cOp a l x s2))),
               sclO (-J) (mulO (mulO (cdOp a l x s1) (cdOp a l x s2)) (mulO (cOp a l y s1) (cOp a l y s2)))])
        ++ ((List.range no).flatMap fun al => (List.range ns).map fun s1 => sclO eps (nOp a l al s1)))
    else if kind == "szsz" || kind == "ss" then
      let l2 := rest.getD 0 ""
      let J := v (rest.getD 1 "0") (rest.getD 2 "0")
      let (no, _) := shapeOf a l
      let sz (lab : String) (al : Nat) : Option Mat := do
        let x ← nOp a lab al up; let y ← nOp a lab al dn; pure (scaleM (ofR 0.5) (matSub x y))
      let sp (lab : String) (al : Nat) : Option Mat := mulO (cdOp a lab al up) (cOp a lab al dn)
      let sm (lab : String) (al : Nat) : Option Mat := mulO (cdOp a lab al dn) (cOp a lab al up)
      sumM dim ((List.range no).flatMap fun al =>
        [sclO J (mulO (sz l al) (sz l2 al))] ++
        (if kind == "ss" then [sclO (J * ofR 0.5) (mulO (sp l al) (sm l2 al)), sclO (J * ofR 0.5) (mulO (sm l al) (sp l2 al))] else []))
    else if kind == "hop7" || kind == "hop6" || kind == "hop5" || kind == "hop4" then
      let l2 := rest.getD 0 ""
      let t := v (rest.getD 1 "0") (rest.getD 2 "0")
      let (no, ns) := shapeOf a l
      let nums := (rest.drop 3).map nat!
      let quads : List (Nat × Nat × Nat × Nat) :=
        if kind == "hop7" then [(nums.getD 0 0, nums.getD 1 0, nums.getD 2 0, nums.getD 3 0)]
        else if kind == "hop6" then [(nums.getD 0 0, nums.getD 1 0, nums.getD 2 0, nums.getD 2 0)]
        else if kind == "hop5" then (List.range ns).map fun z => (nums.getD 0 0, nums.getD 1 0, z, z)
        else (List.range ns).flatMap fun z => (List.range no).map fun i => (i, i, z, z)
      sumM dim (quads.flatMap fun (o1, o2, s1, s2) =>
        [sclO t (mulO (cdOp a l o1 s1) (cOp a l2 o2 s2)), sclO t.conj (mulO (cdOp a l2 o2 s2) (cOp a l o1 s1))])
    else none
  | _ => none

/-- total spin raising operator over all spin-1/2 (site, orbital) pairs -/
def splusTotal (a : Acc) : Option Mat :=
  sumM a.s.dim (a.curSites.flatMap fun (l, no, ns) =>
    if ns == 2 then (List.range no).map fun al => mulO (cdOp a l al 1) (cOp a l al 0) else [])

def mkSites : List String → List (String × Nat × Nat)
  | l :: o :: sp :: r => (l, nat! o, nat! sp) :: mkSites r
  | _ => []

def readLTerm (t : List String) : Option LTerm :=
  match t with
  | re :: im :: k :: rest =>
    let k := nat! k
    let fs := (List.range k).map fun q =>
      (rest.getD (4 * q) "0" == "1", rest.getD (4 * q + 1) "", nat! (rest.getD (4 * q + 2) "0"), nat! (rest.getD (4 * q + 3) "0"))
    some ⟨parseC re im, fs⟩
  | _ => none

def lookupSeen (a : Acc) (k : String) : Option (List C) := (a.seen.find? (·.1 == k)).map (·.2)

def remember (a : Acc) (k : String) (v : List C) : Acc :=
  if a.truncated then a else { a with seen := (k, v) :: a.seen }

/-- after truncation: compare with the untruncated value of the same observation against the proven bound -/
def truncCheck (a : Acc) (prop key what : String) (v : List C) (bound : Float) : IO Acc := do
  if !a.truncated then return a
  match lookupSeen a key with
  | none => return a
  | some old =>
    let d := ((old.zip v).map fun (x, y) => (x - y).abs).foldl (fun m x => if x > m then x else m) 0.0
    let a := a.bump "truncation_comparisons"
    if d > bound + 1.0e-11 then
      fail a prop s!"{what}: truncation at eps={a.s.truncEps} changed the value by {d}, proven bound {bound}"
    else pure a

/-- the density-matrix parts of the modelled `DensityMatrix` (Model/Averages.lean) from the implementation's own
eigenvectors, eigenvalues and weights -/
def modelParts (s : Sys) : List (Pomerol.Model.Averages.Part Float C) :=
  (List.range s.blocks.size).map fun b =>
    let fock := (s.blocks[b]!).toList
    let n := fock.length
    { nmodes := s.M, fock := fock, dim := n,
      U := fun fi st => mget s.V (fock.getD fi 0) (kIndex s b st),
      energies := (List.range n).map fun i => s.E[kIndex s b i]!,
      weights := (List.range n).map fun i => s.wImpl.getD (kIndex s b i) 0.0,
      retained := true }

/-- model of the averaging loops vs. the implementation (hand-written model: a difference is a broken tie) -/
def modelDiff (a : Acc) (what : String) (impl : Float) (model : Except Pomerol.Model.Averages.Err Float) : IO Acc := do
  let a := a.bump "averages_model_comparisons"
  match model with
  | .ok m =>
    if Float.abs (impl - m) > 1.0e-12 * (1.0 + Float.abs m) then
      IO.println s!"MODELDIFF[C09] {what}: implementation {impl}, model of the averaging loops {m}"
    pure a
  | .error _ =>
    IO.println s!"MODELDIFF[C09] {what}: the model of the averaging loops reads out of range"
    pure a

def runNumeric (lines : List String) : IO Unit := do
  let mut a : Acc := {}
  let mut lastCmd : List String := []
  let mut eigBlocks : List (Nat × List Float × Mat) := []
  for line in lines do
    let t := Driver.toks line
    match t with
    | "c" :: cmd =>
      lastCmd := cmd
      match cmd with
      | ["note", "quadratic"] => a := { a with quadratic := true }
      | ["dumplattice"] =>
        -- the documented-operator check applies when exactly one preset call lies between two dumps
        let lp := match a.segment with
          | [c] => if a.dumps ≥ 1 && c.headD "" == "preset" then c else []
          | _ => []
        a := { a with prevTerms := a.curTerms, curTerms := [], lastPreset := lp, segment := [], dumps := a.dumps + 1 }
      | "preset" :: _ => a := { a with segment := a.segment ++ [cmd] }
      | "term" :: _ => a := { a with segment := a.segment ++ [cmd] }
      | "tpreset" :: _ => a := { a with segment := a.segment ++ [cmd] }
      | "site" :: _ => a := { a with segment := a.segment ++ [cmd] }
      | ["newlattice"] => a := { a with accepted := [] }
      | ["fork"] => a := { a with acceptedSaved := a.accepted }
      | ["unfork"] => a := { a with accepted := a.acceptedSaved }
      | ["dm", b] => a := { a with s := { a.s with beta := fOf b }, cRot := #[] }
      | ["trunc", e] => a := { a with s := { a.s with truncEps := fOf e } }
      | _ => pure ()
    | ["o", "ok"] =>
      if lastCmd.headD "" == "term" || lastCmd.headD "" == "preset" || lastCmd.headD "" == "tpreset" then
        a := { a with accepted := a.accepted ++ [lastCmd] }
    | ["o", "nidx", n] => a := { a with s := { a.s with M := nat! n, dim := 2 ^ nat! n }, idxTable := [] }
    | ["o", "idx", _, l, o, sp, _] => a := { a with idxTable := a.idxTable ++ [(l, nat! o, nat! sp)] }
    | "o" :: "sites" :: _ :: rest =>
      a := { a with curSites := mkSites rest }
    | "o" :: "lterm" :: _ :: rest =>
      match readLTerm rest with
      | some t => a := { a with curTerms := a.curTerms ++ [t] }
      | none => pure ()
    | "o" :: "poly" :: rest =>
      if lastCmd.headD "" == "hshift" then
        a := { a with s := { a.s with ham := readPolyC rest } }
      if lastCmd == ["ham"] then
        a := { a with s := { a.s with ham := readPolyC rest } }
        if a.s.M ≤ 6 && a.idxTable.length == a.s.M && !a.curSites.isEmpty then
          let Hp := polyMatrix a.s.M a.s.ham
          a := a.bump "hamiltonians_vs_terms"
          -- (a) the symbolic Hamiltonian is the sum of the lattice terms read as ordered products of CAR operators
          match termsMatrix a.s.M a.idxTable a.curTerms with
          | some Ht =>
            if maxDiff Hp Ht > 1.0e-12 * (1.0 + maxAbs Ht) then
              a ← fail a "C04" s!"Hamiltonian differs from the sum of the lattice terms read as operator products (max diff {maxDiff Hp Ht})"
            if maxDiff Ht (adjoint Ht) > 1.0e-12 * (1.0 + maxAbs Ht) && a.lastPreset.length > 0 && a.prevTerms.length + 0 ≥ 0 then
              pure ()
            -- (b) the preset executed between the last two dumps added exactly its documented operator
            if !a.lastPreset.isEmpty then
              match termsMatrix a.s.M a.idxTable a.prevTerms, docMatrix a a.lastPreset with
              | some H0, some D =>
                a := a.bump "preset_doc_checks"
                let added := matSub Ht H0
                if maxDiff added D > 1.0e-12 * (1.0 + maxAbs D) then
                  a ← fail a "C04" s!"preset '{" ".intercalate (a.lastPreset.take 2)}' added an operator that differs from its documentation by {maxDiff added D}"
                if maxDiff added (adjoint added) > 1.0e-12 * (1.0 + maxAbs added) then
                  a ← fail a "C04" s!"preset '{" ".intercalate (a.lastPreset.take 2)}' added a non-Hermitian operator"
                -- (c) SU(2): Kanamori with U' = U - 2J and the spin-spin exchange commute with S+ (hence with S-)
                if a.lastPreset.getD 1 "" == "coulombP3" || a.lastPreset.getD 1 "" == "ss" then
                  match splusTotal a with
                  | some Sp =>
                    a := a.bump "su2_checks"
                    let comm := matSub (matMul added Sp) (matMul Sp added)
                    if maxAbs comm > 1.0e-12 * (1.0 + maxAbs added) then
                      a ← fail a "C04" s!"preset '{a.lastPreset.getD 1 ""}' does not commute with the total spin raising operator ({maxAbs comm})"
                  | none => pure ()
              | _, _ => pure ()
            -- (d) the Hamiltonian is the sum of the operators that were ADDED (what the script asked for and the library
            --     accepted): user terms as ordered products, presets as documented -- whatever the lattice chose to store
            let cmds := a.accepted
            let plain := cmds.all fun c => c.headD "" == "term" ||
              (c.headD "" == "preset" && c.getD 1 "" != "magnetization" && (docMatrix a c).isSome)
            if plain && !cmds.isEmpty then
              let userTerms := cmds.filterMap fun c => if c.headD "" == "term" then readLTerm (c.drop 1) else none
              match termsMatrix a.s.M a.idxTable userTerms with
              | some Hu =>
                let want := cmds.foldl (fun acc c => if c.headD "" == "preset" then
                    match docMatrix a c with | some D => matAdd acc D | none => acc else acc) Hu
                a := a.bump "hamiltonians_vs_added_operators"
                if maxDiff Hp want > 1.0e-12 * (1.0 + maxAbs want) then
                  a ← fail a "C04" s!"Hamiltonian differs from the sum of the operators that were added (user terms as ordered products, presets as documented) by {maxDiff Hp want}"
              | none => pure ()
          | none => a ← fail a "C04" "a stored lattice term refers to a (site, orbital, spin) that has no index"
    | "o" :: "blk" :: b :: _ :: sts =>
      let arr := a.s.blocks
      let arr := if arr.size ≤ nat! b then arr ++ Array.replicate (nat! b + 1 - arr.size) #[] else arr
      a := { a with s := { a.s with blocks := arr.set! (nat! b) (sts.map nat!).toArray } }
    | "o" :: "hmat" :: b :: n :: rest =>
      -- with a single block (symmetries ignored) the block matrix is the full Fock matrix
      if a.s.blocks.size == 1 && nat! b == 0 && nat! n == a.s.dim && a.s.M ≤ 6 then
        let Hp := polyMatrix a.s.M a.s.ham
        let n := nat! n
        let impl : Mat := (Array.range n).map fun r => (Array.range n).map fun c =>
          parseC (rest.getD (2 * (r * n + c)) "0") (rest.getD (2 * (r * n + c) + 1) "0")
        a := a.bump "full_matrices"
        if maxDiff impl Hp > 1.0e-12 * (1.0 + maxAbs Hp) then
          a ← fail a "C04" s!"block matrix (symmetries ignored) differs from the Jordan-Wigner matrix of the Hamiltonian by {maxDiff impl Hp}"
    | "o" :: "eig" :: b :: n :: rest =>
      let n := nat! n
      let es := (rest.take n).map fOf
      let us := rest.drop n
      let U : Mat := (Array.range n).map fun r => (Array.range n).map fun c =>
        parseC (us.getD (2 * (r * n + c)) "0") (us.getD (2 * (r * n + c) + 1) "0")
      eigBlocks := eigBlocks ++ [(nat! b, es, U)]
    | "o" :: "allev" :: _ :: evs =>
      -- assemble the full eigen-system
      let s := a.s
      let mut E : Array Float := #[]
      let mut kOf : Array (Nat × Nat) := #[]
      let mut kStart : Array Nat := Array.replicate s.blocks.size 0
      let mut V := zeros s.dim s.dim
      for (b, es, U) in eigBlocks do
        kStart := kStart.set! b E.size
        let base := E.size
        for i in List.range es.length do
          E := E.push (es.getD i 0.0)
          kOf := kOf.push (b, i)
        let sts := s.blocks[b]!
        for r in List.range sts.size do
          for c in List.range sts.size do
            V := mset V sts[r]! (base + c) (mget U r c)
      a := { a with s := { s with E := E, kOf := kOf, kStart := kStart, V := V, haveEig := true } }
      -- C07: the Hamiltonian (Jordan-Wigner matrix of the stored terms) has no element between states of different blocks
      if s.M ≤ 6 && s.blocks.size > 1 then
        let Hp := polyMatrix s.M s.ham
        let scale := 1.0 + maxAbs Hp
        let mut bad : Option (Nat × Nat × Float) := none
        for r in List.range s.dim do
          for c in List.range s.dim do
            let v := (mget Hp r c).abs
            if v > 1.0e-12 * scale && blockOfState s r != blockOfState s c && bad.isNone then bad := some (r, c, v)
        a := a.bump "interblock_scans"
        match bad with
        | some (r, c, v) =>
          a ← fail a "C07" s!"the Hamiltonian has the matrix element |<{r}|H|{c}>| = {v} between states of different blocks ({blockOfState s r} and {blockOfState s c})"
        | none => pure ()
      if E.size != s.dim then
        a ← fail a "C03" s!"the blocks report {E.size} eigenvalues for a Fock space of dimension {s.dim}"
      else
        a ← certify a
        -- concatenation order of getEigenValues
        let evs := evs.map fOf
        if evs.toArray != E then a ← fail a "C03" "Hamiltonian::getEigenValues is not the concatenation of the block eigenvalues"
      eigBlocks := []
    | ["o", "ground", g] =>
      -- checked when the eigenvalues are known (the line precedes them): remember
      a := { a with seen := ("ground", [ofR (fOf g)]) :: a.seen }
    | ["o", "evstate", st, v] =>
      if a.s.haveEig then
        -- Hamiltonian::getEigenValue(state): eigenvalue stored for the state's block at the state's position
        match blockOfState a.s (nat! st) with
        | some b =>
          let pos := ((a.s.blocks[b]!).toList.findIdx? (· == nat! st)).getD 0
          if a.s.E[kIndex a.s b pos]! != fOf v then
            a ← fail a "C03" s!"getEigenValue({st}) is not the eigenvalue stored for its block {b} at position {pos}"
        | none => pure ()
        if nat! st == 0 then
          match lookupSeen a "ground" with
          | some [g] =>
            let mn := a.s.E.foldl (fun m x => if x < m then x else m) (a.s.E[0]!)
            if g.re != mn then a ← fail a "C03" s!"ground energy {g.re} is not the minimum eigenvalue {mn}"
          | _ => pure ()
    | "o" :: "weights" :: b :: _ :: ws =>
      let s := a.s
      let arr := if s.wImpl.size < s.dim then Array.replicate s.dim 0.0 else s.wImpl
      let arr := (List.range ws.length).foldl (fun arr i => arr.set! (kIndex s (nat! b) i) (fOf (ws.getD i "0"))) arr
      a := { a with s := { s with wImpl := arr, haveDM := true } }
    | ["o", "avgE", v] =>
      -- all weights are known now: Gibbs state checks
      let s := a.s
      let w := specWeights s
      a := a.bump "density_matrices"
      let sum := s.wImpl.foldl (· + ·) 0.0
      if Float.abs (sum - 1.0) > 1.0e-12 then a ← fail a "C09" s!"weights sum to {sum}"
      for k in List.range s.dim do
        let x := s.wImpl[k]!
        if !(x ≥ 0.0) || x.isNaN || x.isInf then a ← fail a "C09" s!"weight {k} is {x}"
        if Float.abs (x - w[k]!) > 1.0e-12 * (1.0 + w[k]!) + 1.0e-13 * s.beta * Float.abs (s.E[k]!) * w[k]! then
          a ← fail a "C09" s!"weight of eigenstate {k} is {x}, Gibbs weight exp(-beta(E-E0))/Z = {w[k]!}"
      let e := (List.range s.dim).foldl (fun acc k => acc + w[k]! * s.E[k]!) 0.0
      let scale := 1.0 + (s.E.foldl (fun m x => if Float.abs x > m then Float.abs x else m) 0.0)
      if Float.abs (fOf v - e) > 1.0e-10 * scale then a ← fail a "C09" s!"average energy {fOf v} vs Tr(rho H) = {e}"
    | ["o", "avgN", v] =>
      let s := a.s; let w := specWeights s
      let tot := (List.range s.dim).foldl (fun acc k => acc + w[k]! *
        (List.range s.dim).foldl (fun acc f => acc + (mget s.V f k).normSq * Float.ofNat (popCount f s.M)) 0.0) 0.0
      if Float.abs (fOf v - tot) > 1.0e-10 * (1.0 + tot) then a ← fail a "C09" s!"total occupancy {fOf v} vs Tr(rho N) = {tot}"
      if s.wImpl.size == s.dim then
        a ← modelDiff a "total occupancy" (fOf v) (Pomerol.Model.Averages.DM.avgOccupancyTotal (modelParts s))
    | ["o", "occ", i, v] =>
      let s := a.s; let w := specWeights s
      let o := (List.range s.dim).foldl (fun acc k => acc + w[k]! *
        (List.range s.dim).foldl (fun acc f => if f.testBit (nat! i) then acc + (mget s.V f k).normSq else acc) 0.0) 0.0
      a := remember a s!"occ {i}" [ofR (fOf v)]
      if Float.abs (fOf v - o) > 1.0e-10 then a ← fail a "C09" s!"occupancy of index {i}: {fOf v} vs Tr(rho n_i) = {o}"
      if s.wImpl.size == s.dim then
        a ← modelDiff a s!"occupancy of index {i}" (fOf v) (Pomerol.Model.Averages.DM.avgOccupancy (modelParts s) (nat! i))
    | ["o", "docc", i, j, v] =>
      let s := a.s; let w := specWeights s
      let o := (List.range s.dim).foldl (fun acc k => acc + w[k]! *
        (List.range s.dim).foldl (fun acc f => if f.testBit (nat! i) && f.testBit (nat! j) then acc + (mget s.V f k).normSq else acc) 0.0) 0.0
      if Float.abs (fOf v - o) > 1.0e-10 then a ← fail a "C09" s!"double occupancy ({i},{j}): {fOf v} vs Tr(rho n_i n_j) = {o}"
      if s.wImpl.size == s.dim then
        a ← modelDiff a s!"double occupancy ({i},{j})" (fOf v) (Pomerol.Model.Averages.DM.avgDoubleOccupancy (modelParts s) (nat! i) (nat! j))
    | ["o", "wstate", st, v] =>
      -- DensityMatrix::getWeight(state) = weight stored for (block(state), inner(state))
      match blockOfState a.s (nat! st) with
      | some b =>
        let pos := ((a.s.blocks[b]!).toList.findIdx? (· == nat! st)).getD 0
        if a.s.wImpl.size == a.s.dim && a.s.wImpl[kIndex a.s b pos]! != fOf v then
          a ← fail a "C09" s!"getWeight({st}) differs from the weight stored for its block and position"
      | none => pure ()
    | "o" :: "bmap" :: kind :: i :: j :: _ :: pairs =>
      let s := a.s
      let op := opFock s kind (nat! i) (nat! j)
      let rec mk : List String → List (Nat × Nat)
        | l :: r :: rest => (nat! l, nat! r) :: mk rest
        | _ => []
      let impl := mk pairs
      a := a.bump "block_maps"
      let mut expected : List (Nat × Nat) := []
      for r in List.range s.blocks.size do
        let tg := bruteTargets s op r
        if tg.length > 1 then
          a ← fail a "C07" s!"operator {kind} {i} {j} maps block {r} into several blocks {tg}"
        match tg with
        | l :: _ => expected := expected ++ [(l, r)]
        | [] => pure ()
      if impl != expected then
        a ← fail a "C07" s!"block map of {kind} {i} {j}: implementation {impl}, brute force {expected}"
    | "o" :: "fpart" :: kind :: i :: j :: l :: r :: rows :: cols :: same :: _ :: ents =>
      let s := a.s
      a := a.bump "operator_parts"
      let l := nat! l; let r := nat! r; let rows := nat! rows; let cols := nat! cols
      if same != "1" then a ← fail a "C10" s!"row-major and column-major storage of part {kind} {i} ({l},{r}) differ"
      -- expected: rows of the left block, columns of the right block of V† O V
      let opE := rotate s (opFock s kind (nat! i) (nat! j))
      let mut impl := zeros rows cols
      let rec fill : List String → Mat → Mat
        | rr :: cc :: re :: im :: rest, m => fill rest (mset m (nat! rr) (nat! cc) (parseC re im))
        | _, m => m
      impl := fill ents impl
      let mut worst := 0.0
      if rows != (s.blocks[l]!).size || cols != (s.blocks[r]!).size then
        a ← fail a "C10" s!"part {kind} {i} ({l},{r}) has shape {rows}x{cols}"
      else
        for x in List.range rows do
          for y in List.range cols do
            let d := (mget impl x y - mget opE (kIndex s l x) (kIndex s r y)).abs
            if d > worst then worst := d
        if worst > 1.0e-9 then
          a ← fail a "C10" s!"stored part {kind} {i} {j} ({l},{r}) differs from U_l† O U_r by {worst}"
      -- accumulate the assembled operator
      let key := s!"{kind} {i} {j}"
      let cur := ((a.implOps.find? (·.1 == key)).map (·.2)).getD (zeros s.dim s.dim)
      let mut cur2 := cur
      for x in List.range rows do
        for y in List.range cols do
          cur2 := mset cur2 (kIndex s l x) (kIndex s r y) (mget impl x y)
      a := { a with implOps := (key, cur2) :: a.implOps.filter (·.1 != key) }
    | ["o", "gfparts", i, j, n] =>
      -- model of the block-pair selection (Model/GFPart.prepare) on the brute-force block maps vs. the implementation
      let s := a.s
      let bmOf (op : Mat) : List (Nat × Nat) := (List.range s.blocks.size).filterMap fun r =>
        match bruteTargets s op r with | l :: _ => some (l, r) | [] => none
      let c := (bmOf (opFock s "c" (nat! i) 0)).mergeSort fun x y => x.1 ≤ y.1          -- left view of C
      let cx := bmOf (opFock s "cdag" (nat! j) 0)                                         -- right view of CX (built by r ascending)
      let keep (b : Nat) : Bool := if s.retained.isEmpty then true else s.retained.getD b true
      a := a.bump "prepare_model_comparisons"
      match Pomerol.Model.GFPart.prepare keep c cx with
      | .ok ps => if ps.length != nat! n then
          IO.println s!"MODELDIFF[C01] G_{i}{j}: implementation selects {n} block pairs, model of GreensFunction::prepare {ps.length} ({ps})"
      | .error _ => IO.println s!"MODELDIFF[C01] G_{i}{j}: model of GreensFunction::prepare reads out of range"
    | ["o", "chivanish", i, j, k, l, _, n] =>
      let s := a.s
      let bmOf (op : Mat) : List (Nat × Nat) := (List.range s.blocks.size).filterMap fun r =>
        match bruteTargets s op r with | lft :: _ => some (lft, r) | [] => none
      let c1 := bmOf (opFock s "c" (nat! i) 0); let c2 := bmOf (opFock s "c" (nat! j) 0)
      let cx3 := bmOf (opFock s "cdag" (nat! k) 0); let cx4 := bmOf (opFock s "cdag" (nat! l) 0)
      let keep (b : Nat) : Bool := if s.retained.isEmpty then true else s.retained.getD b true
      a := a.bump "prepare_model_comparisons"
      let st := Pomerol.Model.Chi4Prepare.prepare keep c1 c2 cx3 cx4
      if st.length != nat! n then
        IO.println s!"MODELDIFF[C02] chi_{i}{j}{k}{l}: implementation creates {n} world stripes, model of TwoParticleGF::prepare {st.length}"
    | "o" :: "gfvanish" :: _ =>
      -- all operator parts have been read: CAR of the assembled operators (once)
      if !(a.counts.any (·.1 == "car_checked")) && a.implOps.length > 0 then
        a := a.bump "car_checked"
        let s := a.s
        for i in List.range s.M do
          for j in List.range s.M do
            match a.implOps.find? (·.1 == s!"c {i} 0"), a.implOps.find? (·.1 == s!"cdag {j} 0"), a.implOps.find? (·.1 == s!"c {j} 0") with
            | some (_, ci), some (_, cdj), some (_, cj) =>
              let ac := matAdd (matMul ci cdj) (matMul cdj ci)
              let want := if i == j then ident s.dim else zeros s.dim s.dim
              if maxDiff ac want > 1.0e-9 then a ← fail a "C10" s!"assembled operators violate the CAR: c_{i} c+_{j} + c+_{j} c_{i} deviates by {maxDiff ac want}"
              let ac2 := matAdd (matMul ci cj) (matMul cj ci)
              if maxDiff ac2 (zeros s.dim s.dim) > 1.0e-9 then a ← fail a "C10" s!"assembled operators violate the CAR: c_{i} c_{j} + c_{j} c_{i} deviates by {maxAbs ac2}"
              if i == j && maxDiff ci (adjoint cdj) > 1.0e-12 then a ← fail a "C10" s!"stored c_{i} is not the adjoint of the stored c+_{i}"
            | _, _, _ => pure ()
          match a.implOps.find? (·.1 == s!"cdag {i} 0"), a.implOps.find? (·.1 == s!"cdag1 {i} 0") with
          | some (_, x), some (_, y) => if maxDiff x y > 1.0e-12 then a ← fail a "C10" s!"c+_{i} from the container differs from the singly computed one"
          | _, _ => pure ()
    | ["o", "gfn", i, j, n, r1, i1, r2, i2] =>
      let s := a.s; let w := specWeights s
      let (a1, ci) := getRot a (nat! i); let (a2, cj) := getRot a1 (nat! j); a := a2
      let z := iwF s.beta (int! n)
      let (g, budget, tot) := specG s w ci cj z
      let v := parseC r1 i1; let vc := parseC r2 i2
      a := a.bump "gf_matsubara_values"
      a ← truncCheck a "C19" s!"gfn {i} {j} {n}" s!"G_{i}{j}(n={n})" [v] (2.0 * s.truncEps * Float.ofNat s.dim / Float.abs z.im)
      a := remember a s!"gfn {i} {j} {n}" [v]
      if a.truncated then
        -- stripe rule: a block pair is skipped only when both of its blocks are discarded
        let (gk, bk, tk) := specG s w ci cj z (keepOf s)
        a := a.bump "stripe_rule_checks"
        if !closeC v gk (bk + 1.0e-9 * (1.0 + tk)) then
          a ← fail a "C19" s!"stripe rule: after truncation G_{i}{j}(iw_{n}) = ({v.re},{v.im}) is not the sum over the block pairs with a retained block ({gk.re},{gk.im})"
      if !a.truncated then
        if !closeC v g (budget + 1.0e-9 * (1.0 + tot)) then
          a ← fail a "C01" s!"G_{i}{j}(iw_{n}) = ({v.re},{v.im}) differs from the definition ({g.re},{g.im}) by {sci (v - g).abs} > budget {sci budget} + 1e-9*(1+{sci tot})"
        if v.re.toBits != vc.re.toBits || v.im.toBits != vc.im.toBits then
          if !closeC v vc (1.0e-12 * (1.0 + tot)) then
            a ← fail a "C01" s!"G_{i}{j}(iw_{n}) from the container ({vc.re},{vc.im}) differs from the stand-alone object ({v.re},{v.im})"
        if i == j && (int! n) ≥ 0 && !(v.im < 0.0) then a ← fail a "C11" s!"Im G_{i}{i}(iw_{n}) = {v.im} is not negative"
        if a.quadratic then
          -- free propagator: G(z) = (z - h)^{-1}, h read off the quadratic Hamiltonian
          let M := s.M
          let h : Mat := (Array.range M).map fun p => (Array.range M).map fun q =>
            ((s.ham.find? fun (mo, _) => mo == [⟨false, p⟩, ⟨true, q⟩]).map (·.2)).getD czero
          let zmh : Mat := (Array.range M).map fun p => (Array.range M).map fun q => (if p == q then z else czero) - mget h p q
          match cinv zmh with
          | some g0 =>
            a := a.bump "free_propagator_checks"
            if !closeC v (mget g0 (nat! i) (nat! j)) (budget + 1.0e-9 * (1.0 + tot)) then
              a ← fail a "C12" s!"quadratic model: G_{i}{j}(iw_{n}) = ({v.re},{v.im}) but (z-h)^-1 = ({(mget g0 (nat! i) (nat! j)).re},{(mget g0 (nat! i) (nat! j)).im})"
          | none => pure ()
    | ["o", "gfz", i, j, zr, zi, r1, i1, rc, ic] =>
      let s := a.s; let w := specWeights s
      let (a1, ci) := getRot a (nat! i); let (a2, cj) := getRot a1 (nat! j); a := a2
      let z : C := ⟨fOf zr, fOf zi⟩
      let (g, budget, tot) := specG s w ci cj z
      let v := parseC r1 i1
      a := a.bump "gf_complex_values"
      if !a.truncated && !closeC v g (budget + 1.0e-9 * (1.0 + tot)) then
        a ← fail a "C11" s!"G_{i}{j}(z=({z.re},{z.im})) = ({v.re},{v.im}) differs from the Lehmann sum ({g.re},{g.im})"
      -- conj symmetry against the mirrored component at conj z (spec side; implementation side is compared when both were requested)
      a := remember a s!"gfz {i} {j} {zr} {zi}" [v]
      -- the same symmetry on the values read from the container of all components
      let vcont := parseC rc ic
      a := remember a s!"gfzc {i} {j} {zr} {zi}" [vcont]
      match lookupSeen a s!"gfzc {j} {i} {zr} {hexOfFloat (-(fOf zi))}" with
      | some [u] => if !a.truncated && !closeC vcont.conj u (1.0e-9 * (1.0 + tot)) then
          a ← fail a "C11" s!"container: conj G_{i}{j}(z) = ({vcont.re},{-vcont.im}) != G_{j}{i}(conj z) = ({u.re},{u.im}) at z=({z.re},{z.im})"
      | _ => pure ()
      let zc := hexOfFloat (-(fOf zi))
      match lookupSeen a s!"gfz {j} {i} {zr} {zc}" with
      | some [u] => if !a.truncated && !closeC v.conj u (1.0e-9 * (1.0 + tot)) then
          a ← fail a "C11" s!"conj G_{i}{j}(z) = ({v.re},{-v.im}) != G_{j}{i}(conj z) = ({u.re},{u.im}) at z=({z.re},{z.im})"
      | _ => pure ()
    | ["o", "gftau", i, j, tau, r1, i1, _, _] =>
      let s := a.s; let w := specWeights s
      let (a1, ci) := getRot a (nat! i); let (a2, cj) := getRot a1 (nat! j); a := a2
      let tv := fOf tau
      let g := specGtau s w ci cj tv
      let v := parseC r1 i1
      a := a.bump "gf_tau_values"
      -- documented term reduction: residues below 1e-8 are dropped, like poles merged (shift < 1e-8, sensitivity <= beta)
      let rb := residueBudget s w ci cj
      let gpoles := sortedPoles s fun n m => (mget ci n m).abs > 0.0 && (mget cj n m).abs > 0.0
      let anyNear := (List.range gpoles.size).any fun k => k + 1 < gpoles.size &&
        (let dd := gpoles[k+1]! - gpoles[k]!; dd > 1.0e-13 * (1.0 + Float.abs gpoles[k]!) && dd < 2.0e-8)
      let tauTol := 1.0e-7 + rb + (if anyNear then 2.0e-8 * s.beta * 4.0 else 0.0)
      if !a.truncated then
        if !closeC v g tauTol then
          a ← fail a "C11" s!"G_{i}{j}(tau={tv}) = ({v.re},{v.im}) differs from -<c(tau)c+> = ({g.re},{g.im}) by {sci (v - g).abs}"
        if i == j && v.re > 1.0e-9 then a ← fail a "C11" s!"G_{i}{i}(tau={tv}) = {v.re} is positive"
        a := remember a s!"gftau {i} {j} {tau}" [v]
        -- jump and density at the two ends
        if tv == s.beta then
          match lookupSeen a s!"gftau {i} {j} {hexOfFloat 0.0}" with
          | some [g0] =>
            let want := if i == j then -1.0 else 0.0
            if Float.abs ((g0 + v).re - want) > 2.0 * tauTol || Float.abs (g0 + v).im > 2.0 * tauTol then
              a ← fail a "C11" s!"G_{i}{j}(0+) + G_{i}{j}(beta-) = {(g0 + v).re} instead of {want} (off by {sci (Float.abs ((g0 + v).re - want))}, imaginary part {sci (g0 + v).im})"
          | _ => pure ()
          if i == j then
            match lookupSeen a s!"occ {i}" with
            | some [o] => if Float.abs (v.re + o.re) > 1.0e-7 then a ← fail a "C11" s!"G_{i}{i}(beta-) = {v.re} but <n_{i}> = {o.re}"
            | _ => pure ()
    | ["o", "chi", i, j, k, l, n1, n2, n3, re, im] =>
      let s := a.s; let w := specWeights s
      let (a1, ci) := getRot a (nat! i); let (a2, cj) := getRot a1 (nat! j)
      let (a3, ck) := getRot a2 (nat! k); let (a4, cl) := getRot a3 (nat! l); a := a4
      let zs : Array C := #[iwF s.beta (int! n1), iwF s.beta (int! n2), -(iwF s.beta (int! n3))]
      let (x, amb, tot) := specChi s w #[ci, cj, adjoint ck] (adjoint cl) zs
      let v := parseC re im
      a := a.bump "chi_values"
      a ← truncCheck a "C19" s!"chi {i} {j} {k} {l} {n1} {n2} {n3}" s!"chi_{i}{j}{k}{l}({n1},{n2},{n3})" [v]
             -- Properties/C19 `two_particle_bound_matsubara`: (4 + 2π) ε β³ / π³ · absWeightChi
             ((4.0 + 2.0 * pi) * s.truncEps * s.beta * s.beta * s.beta / (pi * pi * pi)
                * (if a.truncated then absWeightChi s #[ci, cj, adjoint ck] (adjoint cl) else 0.0))
      a := remember a s!"chi {i} {j} {k} {l} {n1} {n2} {n3}" [v]
      -- exchange symmetries of the implementation's own values (C13, first sentence)
      if !a.truncated then
        match lookupSeen a s!"chi {j} {i} {k} {l} {n2} {n1} {n3}" with
        | some [u] =>
          a := a.bump "exchange12_checks"
          if !(i == j && n1 == n2) && !closeC v (-u) (1.0e-8 * (1.0 + tot)) then
            a ← failChi a "C13" s!"chi_{j}{i}{k}{l}({n2},{n1};{n3}) = ({u.re},{u.im}) is not -chi_{i}{j}{k}{l}({n1},{n2};{n3}) = ({-v.re},{-v.im})"
        | _ => pure ()
        let n4 := (int! n1) + (int! n2) - (int! n3)
        match lookupSeen a s!"chi {i} {j} {l} {k} {n1} {n2} {n4}" with
        | some [u] =>
          a := a.bump "exchange34_checks"
          if !(k == l && n4 == int! n3) && !closeC v (-u) (1.0e-8 * (1.0 + tot)) then
            a ← failChi a "C13" s!"chi_{i}{j}{l}{k}({n1},{n2};{n4}) = ({u.re},{u.im}) is not -chi_{i}{j}{k}{l}({n1},{n2};{n3}) = ({-v.re},{-v.im})"
        | _ => pure ()
      if a.truncated && !amb then
        let (xk, _, tk) := specChi s w #[ci, cj, adjoint ck] (adjoint cl) zs (keepOf s)
        a := a.bump "stripe_rule_checks"
        if !closeC v xk (1.0e-8 * (1.0 + tk)) then
          a ← failChi a "C19" s!"stripe rule: after truncation chi_{i}{j}{k}{l}({n1},{n2};{n3}) = ({v.re},{v.im}) is not the sum over the world stripes with a retained block ({xk.re},{xk.im})"
      if amb then a := { a with ambiguous := a.ambiguous + 1 }
      else if !a.truncated && !closeC v x (1.0e-8 * (1.0 + tot)) then
        a ← failChi a "C02" s!"chi_{i}{j}{k}{l}({n1},{n2};{n3}) = ({v.re},{v.im}) differs from the definition ({x.re},{x.im}) by {(v - x).abs}"
    | "o" :: "chitab" :: i :: j :: k :: l :: clear :: _ :: vals =>
      -- table path: must equal on-demand evaluation of the same triples (the `chi` lines just before)
      let tab := (List.range (vals.length / 2)).map fun q => parseC (vals.getD (2 * q) "0") (vals.getD (2 * q + 1) "0")
      let prev := a.seen.filter fun (key, _) => key.startsWith s!"chi {i} {j} {k} {l} "
      -- `seen` is newest first; the chi lines of this command were remembered in order
      let od := (prev.take tab.length).reverse.map fun (_, v) => v.headD czero
      a := a.bump "chi_tables"
      if !a.truncated then
        if od.length == tab.length then
          for (x, y) in tab.zip od do
            if !closeC x y (1.0e-10 * (1.0 + y.abs)) then
              a ← failChi a "C02" s!"frequency table (clear={clear}) of chi_{i}{j}{k}{l}: ({x.re},{x.im}) vs on-demand ({y.re},{y.im})"
    | ["o", "chilong", i, j, k, l, vanishing, want, got, dev] =>
      -- a 67-entry table (not a multiple of any small thread/rank count) against on-demand evaluation of another object
      a := a.bump "chi_long_tables"
      if got != want && !(vanishing == "1" && got == "0") then
        a ← fail a "C02" s!"frequency table of chi_{i}{j}{k}{l} has {got} entries for {want} frequencies"
      else if got == want && !a.truncated && !(fOf dev ≤ 1.0e-10) then
        a ← failChi a "C02" s!"frequency table of chi_{i}{j}{k}{l} ({want} entries) deviates from on-demand evaluation by {sci (fOf dev)} (relative)"
    | ["o", "chiafter", i, j, k, l, n1, n2, n3, re, im] =>
      let v := parseC re im
      match lookupSeen a s!"chi {i} {j} {k} {l} {n1} {n2} {n3}" with
      | some [y] => if !a.truncated && !closeC v y (1.0e-10 * (1.0 + y.abs)) then
          a ← failChi a "C02" s!"evaluation after a table computation differs for chi_{i}{j}{k}{l}({n1},{n2},{n3})"
      | _ => pure ()
    | ["o", "avg", p, q, re, im] =>
      let s := a.s; let w := specWeights s
      let A := rotate s (opFock s "quad" (nat! p) (nat! q))
      let want := traceWeighted w A
      let v := parseC re im
      a := a.bump "ensemble_averages"
      a ← truncCheck a "C19" s!"avg {p} {q}" s!"<c+_{p} c_{q}>" [v] (s.truncEps * Float.ofNat s.dim)
      a := remember a s!"avg {p} {q}" [v]
      if a.truncated then
        a := a.bump "stripe_rule_checks"
        if !closeC v (traceWeighted w A (keepOf s)) 1.0e-9 then
          a ← fail a "C19" s!"stripe rule: after truncation <c+_{p} c_{q}> = ({v.re},{v.im}) is not the trace over the retained blocks"
      if !a.truncated && !closeC v want 1.0e-9 then
        a ← fail a "C09" s!"ensemble average <c+_{p} c_{q}> = ({v.re},{v.im}) vs Tr(rho c+ c) = ({want.re},{want.im})"
    | ["o", "susc", p, q, r, t, n, r0, i0, r1, i1, r2, i2, r3, i3] =>
      let s := a.s; let w := specWeights s
      let A := rotate s (opFock s "quad" (nat! p) (nat! q))
      let B := rotate s (opFock s "quad" (nat! r) (nat! t))
      let sp := specSusc s w A B (int! n)
      let x := sp.x
      let v0 := parseC r0 i0; let v1 := parseC r1 i1; let v2 := parseC r2 i2; let v3 := parseC r3 i3
      a := a.bump "susc_values"
      let omega := 2.0 * Float.ofInt (int! n) * pi / s.beta
      a ← truncCheck a "C19" s!"susc {p} {q} {r} {t} {n}" s!"chi_AB(n={n})" [v0]
             (if int! n == 0 then s.beta * s.truncEps * Float.ofNat s.dim else 2.0 * s.truncEps * Float.ofNat s.dim / Float.abs omega)
      a := remember a s!"susc {p} {q} {r} {t} {n}" [v0]
      if sp.unsure > 0.0 then a := { a with ambiguous := a.ambiguous + 1 }
      if a.truncated then
        let spk := specSusc s w A B (int! n) (keepOf s)
        a := a.bump "stripe_rule_checks"
        if !closeC v0 spk.x (1.0e-8 * (1.0 + spk.tot) + spk.ideal + spk.unsure + spk.filtered.abs) then
          a ← fail a "C19" s!"stripe rule: after truncation chi_({p}{q})({r}{t})(iW_{n}) = ({v0.re},{v0.im}) is not the sum over the block pairs with a retained block ({spk.x.re},{spk.x.im})"
      if !a.truncated then
        -- terms below the documented residue tolerance may be dropped, but only while their total stays at the
        -- level of numerical precision (otherwise the value is genuinely wrong); a deviation that is explained by
        -- exactly those terms is attributed to the residue filter of SusceptibilityPart::compute
        let tol := 1.0e-8 * (1.0 + sp.tot) + sp.ideal + sp.unsure
        let small := 1.0e-6 * (1.0 + sp.tot)
        if !closeC v0 x (tol + (if sp.filtered.abs < small then sp.filtered.abs else 0.0)) then
          if closeC v0 (x - sp.filtered) tol then
            a ← fail a "C14" s!"residue filter drops {sp.filtered.abs} of chi_({p}{q})({r}{t})(iW_{n}): returned ({v0.re},{v0.im}), definition ({x.re},{x.im})"
          else
            a ← fail a "C14" s!"chi_({p}{q})({r}{t})(iW_{n}) = ({v0.re},{v0.im}) differs from the definition ({x.re},{x.im}) by {sci (v0 - x).abs} (tolerance {sci tol}, filtered {sci sp.filtered.abs})"
        -- disconnected part: beta <A><B> at n = 0 only, the same for the three ways of supplying the averages
        let aA := traceWeighted w A; let aB := traceWeighted w B
        let d := if int! n == 0 then aA * aB * ofR s.beta else czero
        for (nm, vv) in [("subtractDisconnected()", v1), ("subtractDisconnected(a,b)", v2), ("subtractDisconnected(EA,EB)", v3)] do
          if !closeC (v0 - vv) d (1.0e-9 * (1.0 + d.abs)) then
            a ← fail a "C14" s!"{nm}: value differs from the plain one by ({(v0 - vv).re},{(v0 - vv).im}) at n={n}, expected ({d.re},{d.im})"
    | "o" :: "idem" :: what :: rest =>
      -- stress mode: repeated prepare()/compute(), copies and re-evaluation must not change any value
      a := a.bump "idempotence_checks"
      if rest.getLastD "1" != "1" then
        let prop := if what == "gf" then "C01" else if what == "chi" then "C02" else if what == "vertex" then "C15" else if what == "avg" then "C09" else "C14"
        a ← fail a prop s!"{what} {" ".intercalate rest.dropLast}: repeated prepare/compute, a copy or a second evaluation changes the value"
    | ["o", "chipurged", i, j, k, l, n1, n2, n3, re, im] =>
      -- after a table computation that discarded the terms the object may refuse on-demand evaluation, but if it answers,
      -- the answer must be the value of the table / of on-demand evaluation before
      a := a.bump "purged_evaluations"
      match lookupSeen a s!"chi {i} {j} {k} {l} {n1} {n2} {n3}" with
      | some [y] => if !closeC (parseC re im) y (1.0e-10 * (1.0 + y.abs)) then
          a ← failChi a "C02" s!"after discarding the terms chi_{i}{j}{k}{l}({n1},{n2},{n3}) evaluates to ({(parseC re im).re},{(parseC re im).im}) instead of ({y.re},{y.im}) (or refusing)"
      | _ => pure ()
    | ["o", "suscreeval", p, q, r, t, n, b0r, b0i, x0r, x0i, a5r, a5i, x2r, x2i] =>
      -- the SAME object evaluated before and after subtractDisconnected: before = plain value, after = subtracted value
      a := a.bump "susc_reevaluations"
      if b0r != x0r || b0i != x0i then
        a ← fail a "C14" s!"chi_({p}{q})({r}{t})(n={n}): a fresh object evaluates differently on the first call"
      if a5r != x2r || a5i != x2i then
        a ← fail a "C14" s!"chi_({p}{q})({r}{t})(n={n}): evaluated before and again after subtractDisconnected the object returns ({(parseC a5r a5i).re},{(parseC a5r a5i).im}), a fresh object with the disconnected part subtracted ({(parseC x2r x2i).re},{(parseC x2r x2i).im})"
    | ["o", kind, p, q, r, t, n, r0, i0, r1, i1, r2, i2, r3, i3] =>
      -- copies of computed susceptibility objects evaluate like the originals (bitwise)
      if kind == "susccopy" || kind == "susccopytau" then
        a := a.bump "susc_copy_checks"
        if r0 != r1 || i0 != i1 then
          a ← fail a "C14" s!"copy of chi_({p}{q})({r}{t}) with the disconnected part subtracted evaluates differently from the original at {n}: ({(parseC r1 i1).re},{(parseC r1 i1).im}) vs ({(parseC r0 i0).re},{(parseC r0 i0).im})"
        if r2 != r3 || i2 != i3 then
          a ← fail a "C14" s!"copy of chi_({p}{q})({r}{t}) evaluates differently from the original at {n}"
    | ["o", "susctau", p, q, r, t, tau, r0, i0, r1, i1] =>
      let s := a.s; let w := specWeights s
      let A := rotate s (opFock s "quad" (nat! p) (nat! q))
      let B := rotate s (opFock s "quad" (nat! r) (nat! t))
      let sp := specSuscTau s w A B (fOf tau)
      let x := sp.x
      let v0 := parseC r0 i0; let v1 := parseC r1 i1
      a := a.bump "susc_tau_values"
      if !a.truncated then
        let tol := 1.0e-8 * (1.0 + sp.tot) + sp.ideal + sp.unsure
        let small := 1.0e-6 * (1.0 + sp.tot)
        if !closeC v0 x (tol + (if sp.filtered.abs < small then sp.filtered.abs else 0.0)) then
          if closeC v0 (x - sp.filtered) tol then
            a ← fail a "C14" s!"residue filter drops {sp.filtered.abs} of chi_AB(tau={fOf tau}): returned ({v0.re},{v0.im}), <A(tau)B> = ({x.re},{x.im})"
          else
            a ← fail a "C14" s!"chi_AB(tau={fOf tau}) = ({v0.re},{v0.im}) differs from <A(tau)B> = ({x.re},{x.im}) by {sci (v0 - x).abs} (tolerance {sci tol})"
        let aA := traceWeighted w A; let aB := traceWeighted w B
        if !closeC (v0 - v1) (aA * aB) 1.0e-9 then
          a ← fail a "C14" s!"tau-domain subtraction differs from <A><B>"
    | ["o", "vertex", i, j, k, l, _, n1, n2, n3, vr, vi, sr, si, xr, xi, g13r, g13i, g24r, g24i, g14r, g14i, g23r, g23i] =>
      let s := a.s
      let v := parseC vr vi; let st := parseC sr si; let x := parseC xr xi
      let g13 := parseC g13r g13i; let g24 := parseC g24r g24i; let g14 := parseC g14r g14i; let g23 := parseC g23r g23i
      a := a.bump "vertex_values"
      -- transparency of the storage
      if v.re.toBits != st.re.toBits || v.im.toBits != st.im.toBits then
        a ← fail a "C15" s!"vertex ({i}{j}{k}{l}) at ({n1},{n2},{n3}): storage returns ({st.re},{st.im}), direct formula ({v.re},{v.im})"
      -- chi - chi0
      let chi0 := ofR s.beta * ((if n2 == n3 then g14 * g23 else czero) - (if n1 == n3 then g13 * g24 else czero))
      if !closeC v (x - chi0) (1.0e-12 * (1.0 + x.abs + chi0.abs)) then
        a ← fail a "C15" s!"vertex ({i}{j}{k}{l}) at ({n1},{n2},{n3}) = ({v.re},{v.im}) is not chi - chi0 = ({(x - chi0).re},{(x - chi0).im})"
      a := remember a s!"vertex {i} {j} {k} {l} {n1} {n2} {n3}" [v, x, chi0]
      if a.quadratic then
        a := a.bump "wick_vertex_checks"
        -- the library documents that Lehmann terms of G with |residue| < 1e-8 are dropped (C01): the disconnected part
        -- β G G inherits β (|G| δG' + |G'| δG) from the dropped-term budgets δG of the four Green's functions involved
        let w := specWeights s
        let (a1, ci) := getRot a (nat! i); let (a2, cj) := getRot a1 (nat! j)
        let (a3, ck) := getRot a2 (nat! k); let (a4, cl) := getRot a3 (nat! l); a := a4
        let z1 := iwF s.beta n1.toInt!; let z2 := iwF s.beta n2.toInt!
        let (_, b13, _) := specG s w ci ck z1; let (_, b24, _) := specG s w cj cl z2
        let (_, b14, _) := specG s w ci cl z1; let (_, b23, _) := specG s w cj ck z2
        let gBudget := s.beta * ((if n1 == n3 then g13.abs * b24 + g24.abs * b13 + b13 * b24 else 0.0)
                                 + (if n2 == n3 then g14.abs * b23 + g23.abs * b14 + b14 * b23 else 0.0))
        if v.abs > 1.0e-7 * (1.0 + x.abs + chi0.abs) + gBudget then
          a ← failChi a "C12" s!"quadratic model: vertex ({i}{j}{k}{l}) at ({n1},{n2},{n3}) = ({v.re},{v.im}) does not vanish (chi = ({x.re},{x.im}))"
    | "o" :: "retained" :: _ :: flags =>
      let s := a.s
      a := { a with truncated := true, cRot := a.cRot, s := { s with retained := (flags.map (· == "1")).toArray } }
      a := a.bump "truncations"
      for b in List.range flags.length do
        let any := (List.range (s.blocks[b]!).size).any fun i => s.wImpl[kIndex s b i]! > s.truncEps
        if (flags.getD b "1" == "1") != any then
          a ← fail a "C19" s!"block {b}: retained = {flags.getD b "?"} although max weight {(List.range (s.blocks[b]!).size).foldl (fun m i => max m s.wImpl[kIndex s b i]!) 0.0} vs eps {s.truncEps}"
      -- (at eps = 0 a block all of whose weights underflowed to exactly 0 may be discarded: it contributes nothing; the
      --  general rule above already demands that a discarded block has no weight above eps)
    | _ => pure ()
  let notes := a.counts.map fun (k, n) => s!"{k}={n}"
  IO.println s!"NUMSUMMARY propfails={a.fails} ambiguous={a.ambiguous} {" ".intercalate notes}"

end Driver.Numeric
