/-
  Driver for the pipeline harness (harness/pipe.cpp): replays the script commands recorded in the case
  file on the executable models and compares every observation of the implementation.

    MISMATCH  = model and implementation disagree (the tie is broken)
    PROPFAIL  = the implementation violates a property-level oracle that does not depend on the model's
                regenerated parts (hand-written specification predicates, Jordan-Wigner matrices)
-/
import PomerolModel.Model.Symm
import PomerolModel.Model.LatticeSpec
import PomerolModel.Model.Container4
import Driver.Util
import Driver.Scalars

namespace Driver.Pipe
open Pomerol Pomerol.Model Pomerol.Model.Lat Pomerol.Model.Idx Pomerol.Model.Symm Driver

section
variable {K : Type} [Add K] [Sub K] [Mul K] [Div K] [Neg K] [Zero K] [One K] [NatCast K]
  [CoefTest K] [NonzeroTest K] [DrvScalar K] [Inhabited K]

def readVal (t : List String) : Option (K × List String) :=
  match t with
  | a :: b :: rest =>
    match floatOfHex a, floatOfHex b with
    | some x, some y => some (DrvScalar.ofParts x y, rest)
    | _, _ => none
  | _ => none

def termStr (t : Term K) : String :=
  let fs := (List.range t.order).map fun i =>
    s!"{if t.ops.getD i false then 1 else 0} {hexLabel (t.labels.getD i "")} {t.orbs.getD i 0} {t.spins.getD i 0}"
  s!"{valStr t.value} {t.order}" ++ String.join (fs.map (" " ++ ·))

def polyStr (p : Poly K) : String :=
  let ms := p.map fun (m, c) =>
    s!" {valStr c} {m.length}" ++ String.join (m.map fun o => s!" {if o.ann then 1 else 0} {o.idx}")
  s!"{p.length}" ++ String.join ms

def excStr : Exc → String
  | .wrongLabel => "wrongLabel"
  | .wrongIndices => "wrongIndices"
  | .ub => "UB"

def dumpLattice (L : Lattice K) : List String :=
  let sites := String.join (L.sites.map fun s => s!" {hexLabel s.label} {s.norb} {s.nspin}")
  let terms := (List.range (L.maxOrder + 2)).flatMap fun n => (getTerms L n).map fun t => s!"o lterm {n} {termStr t}"
  [s!"o sites {L.sites.length}{sites}", s!"o maxorder {L.maxOrder}"] ++ terms ++ ["o lend"]

/-- parse `n (<ann> <idx>)^n` -/
def readMono : Nat → List String → Option (Mono × List String)
  | 0, t => some ([], t)
  | n + 1, a :: i :: rest =>
    match readMono n rest with
    | some (m, r) => some (⟨a == "1", i.toNat!⟩ :: m, r)
    | none => none
  | _, _ => none

/-- `readPoly` of the harness: sum over terms of coef * (ordered product of the factors) -/
def readPolyTerms : Nat → List String → Option (List (K × Mono) × List String)
  | 0, t => some ([], t)
  | n + 1, t =>
    match readVal (K := K) t with
    | some (c, len :: rest) =>
      match readMono len.toNat! rest with
      | some (m, r) =>
        match readPolyTerms n r with
        | some (l, r2) => some ((c, m) :: l, r2)
        | none => none
      | none => none
    | _ => none

def buildPoly (ts : List (K × Mono)) : Option (Poly K) :=
  ts.foldlM (fun (res : Poly K) (c, m) =>
    if m.isEmpty then some (Poly.addConst c res) else
    match Idx.termProduct false (m.map fun o => (!o.ann, o.idx)) [] true with
    | none => none
    | some tmp => some (Poly.add res (Poly.smul c tmp))) []

def readFactors : Nat → List String → List (Bool × String × Nat × Nat)
  | 0, _ => []
  | k + 1, c :: l :: o :: s :: r => (c == "1", unhexLabel l, o.toNat!, s.toNat!) :: readFactors k r
  | _, _ => []

def readPolys : Nat → List String → List (Poly K)
  | 0, _ => []
  | n + 1, cnt :: r =>
    match readPolyTerms (K := K) cnt.toNat! r with
    | some (ts, r2) => (buildPoly ts).getD [] :: readPolys n r2
    | none => []
  | _, _ => []

structure St (K : Type) where
  L : Lattice K := Lat.empty
  tbl : List IndexInfo := []
  ham : Poly K := []
  syms : List (Poly K) := []
  blkOf : List Nat := []
  blocks : List (List Nat) := []
  c4 : C4.State := {}
  /-- the lattice put aside by `fork` (work continues on a copy; `unfork` returns to it) -/
  saved : Option (Lattice K) := none

def readQuads : Nat → List String → List C4.Quad
  | 0, _ => []
  | n + 1, a :: b :: c :: d :: r => (a.toNat!, b.toNat!, c.toNat!, d.toNat!) :: readQuads n r
  | _, _ => []

/-- `tpc list` line: distinct elements numbered by first appearance in `ElementsMap` order -/
def c4List (s : C4.State) : String :=
  let ids : List Nat := s.emap.foldl (fun acc (_, id, _) => if acc.contains id then acc else acc ++ [id]) []
  let num (id : Nat) : Int := match ids.findIdx? (· == id) with | some k => k | none => -1
  let status (id : Nat) : Nat := match s.elems[id]? with
    | some e => if e.computed then 2 else if e.prepared then 1 else 0
    | none => 0
  let e := String.join (s.emap.map fun ((a, b, c, d), id, p) => s!" {a} {b} {c} {d} {num id} {p} {status id}")
  let n := String.join (s.nontriv.map fun ((a, b, c, d), id) => s!" {a} {b} {c} {d} {num id} {status id}")
  s!"o tpclist {s.emap.length}{e} nt {s.nontriv.length}{n}"

def okOr (r : Except Exc (Lattice K)) (st : St K) : St K × List String :=
  match r with
  | .ok L => ({ st with L := L }, ["o ok"])
  | .error e => (st, [s!"o exc {excStr e}"])

/-- Expected observation lines of one command, and the new model state.
`none` = command not modelled here (numeric stages are checked by certificates elsewhere). -/
def exec (conjv : K → K) (half : K) (st : St K) (cmd : List String) : Option (St K × List String) :=
  match cmd with
  | ["site", lab, norb, nspin] =>
    some ({ st with L := addSite st.L (unhexLabel lab) norb.toNat! nspin.toNat! }, ["o ok"])
  | "term" :: rest =>
    match readVal (K := K) rest with
    | some (v, n :: fs) =>
      let n := n.toNat!
      let f := readFactors n fs
      let t : Term K := { ops := f.map (·.1), labels := f.map (·.2.1), orbs := f.map (·.2.2.1), spins := f.map (·.2.2.2), value := v }
      some (okOr (addTerm st.L t) st)
    | _ => none
  | "preset" :: name :: rest =>
    match name, rest with
    | "coulombS", l :: r =>
      match readVal (K := K) r with
      | some (U, r2) => match readVal (K := K) r2 with
        | some (lv, _) => some (okOr (addCoulombS st.L (unhexLabel l) U lv) st)
        | none => none
      | none => none
    | "coulombP", l :: r =>
      match readVal (K := K) r with
      | some (U, r2) => match readVal (K := K) r2 with
        | some (Up, r3) => match readVal (K := K) r3 with
          | some (J, r4) => match readVal (K := K) r4 with
            | some (lv, _) => some (okOr (addCoulombP st.L (unhexLabel l) U Up J lv) st)
            | none => none
          | none => none
        | none => none
      | none => none
    | "coulombP3", l :: r =>
      match readVal (K := K) r with
      | some (U, r2) => match readVal (K := K) r2 with
        | some (J, r3) => match readVal (K := K) r3 with
          | some (lv, _) => some (okOr (addCoulombP' st.L (unhexLabel l) U J lv) st)
          | none => none
        | none => none
      | none => none
    | "level", l :: r =>
      match readVal (K := K) r with
      | some (lv, _) => some (okOr (addLevel st.L (unhexLabel l) lv) st)
      | none => none
    | "magnetization", l :: r =>
      match readVal (K := K) r with
      | some (m, _) => some (okOr (addMagnetization st.L (unhexLabel l) m) st)
      | none => none
    | "szsz", a :: b :: r =>
      match readVal (K := K) r with
      | some (J, _) => some (okOr (addSzSz st.L (unhexLabel a) (unhexLabel b) J) st)
      | none => none
    | "ss", a :: b :: r =>
      match readVal (K := K) r with
      | some (J, _) => some (okOr (addSS st.L (unhexLabel a) (unhexLabel b) J) st)
      | none => none
    | "hop7", a :: b :: r =>
      match readVal (K := K) r with
      | some (t, [o1, o2, s1, s2]) =>
        some (okOr (addHoppingFull conjv st.L (unhexLabel a) (unhexLabel b) t o1.toNat! o2.toNat! s1.toNat! s2.toNat!) st)
      | _ => none
    | "hop6", a :: b :: r =>
      match readVal (K := K) r with
      | some (t, [o1, o2, s1]) =>
        some (okOr (addHoppingFull conjv st.L (unhexLabel a) (unhexLabel b) t o1.toNat! o2.toNat! s1.toNat! s1.toNat!) st)
      | _ => none
    | "hop5", a :: b :: r =>
      match readVal (K := K) r with
      | some (t, [o1, o2]) => some (okOr (addHoppingOrb conjv st.L (unhexLabel a) (unhexLabel b) t o1.toNat! o2.toNat!) st)
      | _ => none
    | "hop4", a :: b :: r =>
      match readVal (K := K) r with
      | some (t, _) => some (okOr (addHoppingAll conjv st.L (unhexLabel a) (unhexLabel b) t) st)
      | none => none
    | _, _ => none
  | "tpreset" :: name :: l :: r =>
    match readVal (K := K) r with
    | some (v, [o1, o2, s1, s2]) =>
      let t := if name == "spinflip" then tSpinflip (unhexLabel l) v o1.toNat! o2.toNat! s1.toNat! s2.toNat!
               else tPairHopping (unhexLabel l) v o1.toNat! o2.toNat! s1.toNat! s2.toNat!
      match t with
      | .error e => some (st, [s!"o exc {excStr e}"])
      | .ok t => some (okOr (addTerm st.L t) st)
    | _ => none
  | ["getsite", lab] =>
    match getSite st.L (unhexLabel lab) with
    | .ok s => some (st, [s!"o ok {hexLabel s.label} {s.norb} {s.nspin}"])
    | .error e => some (st, [s!"o exc {excStr e}"])
  | ["copy"] => some (st, ["o ok"])
  | ["fork"] => some ({ st with saved := some st.L }, ["o ok"])       -- a copy is modified; the original must not notice
  | ["unfork"] => match st.saved with
    | some L0 => some ({ st with L := L0, saved := none }, ["o ok"])
    | none => some (st, ["o ok"])
  | ["dumplattice"] => some (st, dumpLattice st.L)
  | ["index", mode] =>
    match Idx.prepare st.L.sites (mode != "0") with
    | .error e => some (st, [s!"o CRASH {repr e}"])
    | .ok tbl =>
      let ls := (List.range tbl.length).map fun i =>
        let x := tbl.getD i default
        s!"o idx {i} {hexLabel x.label} {x.orb} {x.spin} {getIndex tbl x}"
      some ({ st with tbl := tbl }, s!"o nidx {tbl.length}" :: ls)
  | ["getindex", lab, orb, spin] =>
    some (st, [s!"o ok {getIndex st.tbl ⟨unhexLabel lab, orb.toNat!, spin.toNat!⟩}"])
  | ["getinfo", i] =>
    match getInfo st.tbl i.toNat! with
    | .ok x => some (st, [s!"o ok {hexLabel x.label} {x.orb} {x.spin}"])
    | .error _ => some (st, ["o exc wrongIndex"])
  | ["ham"] =>
    match indexHamiltonian st.L st.tbl with
    | none => some (st, ["o FUEL"])
    | some H => some ({ st with ham := H }, [s!"o poly {polyStr H}"])
  | ["newlattice"] => some ({ st with L := Lat.empty, tbl := [], ham := [], syms := [], blkOf := [], blocks := [] }, ["o ok"])
  | "hshift" :: rest =>
    match readVal (K := K) rest with
    | some (c, _) =>
      let H := Poly.addConst c st.ham
      some ({ st with ham := H }, [s!"o poly {polyStr H}"])
    | none => none
  | "symm" :: mode :: rest =>
    let r : Except SymErr (List (Poly K)) :=
      if mode == "default" then computeDefault st.ham st.tbl false half
      else if mode == "ignore" then computeDefault st.ham st.tbl true half
      else
        match rest with
        | k :: ps =>
          computeCustom st.ham st.tbl.length (readPolys (K := K) k.toNat! ps)
        | _ => .ok []
    match r with
    | .error .szThrows => some (st, ["o exc opWrongLabel"])
    | .error e => some (st, [s!"o MODELERR {repr e}"])
    | .ok acc => some ({ st with syms := acc }, s!"o accepted {acc.length}" :: acc.map fun p => s!"o accop {polyStr p}")
  | ["states"] =>
    let nst := 2 ^ st.tbl.length
    let qnRaw : Nat → List K := quantumNumbers st.syms
    -- values that agree within the tolerance with an already known value of the same operation are identified
    let close (v k : K) : Bool :=
      DrvScalar.abs (v - k) ≤ Pomerol.Gen.Core.quantumNumbersSnapTol * (if DrvScalar.abs k > 1.0 then DrvScalar.abs k else 1.0)
    let rows := if Pomerol.Gen.Core.quantumNumbersSnapped
      then (snapAll close st.syms.length ((List.range nst).map qnRaw)).toArray else #[]
    let qn : Nat → List K := fun s => if Pomerol.Gen.Core.quantumNumbersSnapped then rows.getD s [] else qnRaw s
    let qeq (a b : List K) : Bool := a.length == b.length && (a.zip b).all fun (x, y) => bitsEq x y
    let (blkOf, blocks) := classify qeq qn nst
    let l1 := (List.range nst).map fun s => s!"o state {s} {blkOf.getD s 0} {(innerState blkOf blocks s).getD 0}"
    let l2 := (List.range blocks.length).map fun b =>
      s!"o blk {b} {(blocks.getD b []).length}" ++ String.join ((blocks.getD b []).map fun s => s!" {s}")
    some ({ st with blkOf := blkOf, blocks := blocks }, s!"o nblocks {blocks.length}" :: l1 ++ l2)
  | ["blockof", n] =>
    let n := n.toNat!
    let nst := 2 ^ st.tbl.length
    if (if Pomerol.Gen.Core.stateBoundsInclusive then n ≥ nst else n > nst) then some (st, ["o exc wrongState"])
    else match st.blkOf[n]? with
      | some b => some (st, [s!"o ok {b}"])
      | none => some (st, ["o CRASH oob"])
  | ["fockof", b, m] =>
    -- `getFockState(block, m)`: refused (exWrongState) unless the block exists and has a position `m`
    match b.toInt? with
    | some bi =>
      if bi < 0 then some (st, ["o exc wrongState"]) else
      match st.blocks[bi.toNat]? with
      | none => some (st, ["o exc wrongState"])
      | some sts => match sts[m.toNat!]? with
        | some f => some (st, [s!"o ok {f}"])
        | none => some (st, ["o exc wrongState"])
    | none => none
  | ["innerof", n] =>
    let n := n.toNat!
    let nst := 2 ^ st.tbl.length
    if (if Pomerol.Gen.Core.stateBoundsInclusive then n ≥ nst else n > nst) then some (st, ["o exc wrongState"])
    else match innerState st.blkOf st.blocks n with
      | some i => some (st, [s!"o ok {i}"])
      | none => some (st, ["o CRASH oob"])
  | ["tpc", "new"] => some ({ st with c4 := {} }, ["o ok"])
  | "tpc" :: "fill" :: n :: qs =>
    some ({ st with c4 := C4.fill Pomerol.Gen.Core.fillClearsNonTrivial st.tbl.length st.c4 (readQuads n.toNat! qs) }, ["o ok"])
  | "tpc" :: "prepareall" :: n :: qs =>
    some ({ st with c4 := C4.prepareAll Pomerol.Gen.Core.fillClearsNonTrivial st.tbl.length st.c4 (readQuads n.toNat! qs) }, ["o ok"])
  | ["tpc", "computeall", split] =>
    let (c, ok) := C4.computeAll (split != "0") st.c4
    some ({ st with c4 := c }, [if ok then "o ok" else "o exc statusMismatch"])
  | ["tpc", "computeall", split, "purge"] =>
    -- table computation that discards the terms: the statuses change as for any bulk computation
    let (c, ok) := C4.computeAll (split != "0") st.c4
    some ({ st with c4 := c }, [if ok then "o ok" else "o exc statusMismatch"])
  | ["tpc", "list"] => some (st, [c4List st.c4])
  | ["tpc", "prepare", a, b, c, d] =>
    let (c4, id, _) := C4.lookup st.c4 (a.toNat!, b.toNat!, c.toNat!, d.toNat!)
    some ({ st with c4 := C4.markPrepared c4 id }, ["o ok"])
  | ["tpc", "compute", a, b, c, d] =>
    let (c4, id, _) := C4.lookup st.c4 (a.toNat!, b.toNat!, c.toNat!, d.toNat!)
    match C4.computeElem c4 id with
    | some c4' => some ({ st with c4 := c4' }, ["o ok"])
    | none => some ({ st with c4 := c4 }, ["o exc statusMismatch"])
  | ["tpc", "ondemand", a, b, c, d, n1, n2, n3] =>
    -- one look-up; the element it returns is prepared, computed and evaluated
    let (c4, id, _) := C4.lookup st.c4 (a.toNat!, b.toNat!, c.toNat!, d.toNat!)
    let c4 := C4.markPrepared c4 id
    let c4 := (C4.computeElem c4 id).getD c4
    some ({ st with c4 := c4 }, [s!"o tpcget {a} {b} {c} {d} {n1} {n2} {n3} C"])
  | ["tpc", "get", a, b, c, d, n1, n2, n3] =>
    let (c4, id, _) := C4.lookup st.c4 (a.toNat!, b.toNat!, c.toNat!, d.toNat!)
    -- status of the element: C = computed, P = prepared only, N = neither (the replay loop turns this into the
    -- expected verdict using the `vanishing` flag reported for the quadruple)
    let e := (c4.elems[id]?).getD default
    let status := if e.computed then "C" else if e.prepared then "P" else "N"
    some ({ st with c4 := c4 }, [s!"o tpcget {a} {b} {c} {d} {n1} {n2} {n3} {status}"])
  | ["tpc", "evalall", _, _, _] =>
    let allComputed := st.c4.emap.all fun (_, id, _) => C4.evaluable st.c4 id
    if allComputed then some (st, [s!"o tpcevalall {st.c4.emap.length} 0"]) else none
  | ["hprepare"] =>
    let ls := (List.range st.blocks.length).map fun b =>
      let n := (st.blocks.getD b []).length
      let writes := blockMatrixWrites st.ham st.blkOf st.blocks b
      let entry (r c : Nat) : K :=
        match (writes.reverse.find? fun (w : Option Nat × Nat × K) => w.1 == some r && w.2.1 == c) with
        | some w => w.2.2
        | none => 0
      let cells := (List.range n).flatMap fun r => (List.range n).map fun c => " " ++ valStr (entry r c)
      s!"o hmat {b} {n}" ++ String.join cells
    some (st, ls)
  | _ => none

end

end Driver.Pipe

namespace Driver.Pipe
open Pomerol Pomerol.Model Pomerol.Model.Lat Pomerol.Model.Idx Pomerol.Model.Symm Driver

section
variable {K : Type} [Add K] [Sub K] [Mul K] [Div K] [Neg K] [Zero K] [One K] [NatCast K]
  [CoefTest K] [NonzeroTest K] [DrvScalar K] [Inhabited K]

/-- group the case file into (command tokens, observation lines) -/
def groupCommands (lines : List String) : List (List String × List String) × Bool :=
  let rec go : List String → Option (List String × List String) → List (List String × List String) → Bool →
      List (List String × List String) × Bool
    | [], cur, acc, ended => ((match cur with | some c => acc ++ [c] | none => acc), ended)
    | l :: rest, cur, acc, ended =>
      if l.startsWith "c " then
        go rest (some (Driver.toks (l.drop 2).toString, [])) (match cur with | some c => acc ++ [c] | none => acc) ended
      else if l.startsWith "o " then
        go rest (cur.map fun (c, os) => (c, os ++ [l])) acc ended
      else if l == "end" then go rest cur acc true
      else go rest cur acc ended
  go lines none [] false

/-- Hand-written specification verdict (Model/LatticeSpec.lean) for a lattice-building command on the current lattice:
`some true` = the call is defined/valid, `some false` = it must be rejected, `none` = no statement. -/
def specDefined (L : Lattice K) (cmd : List String) : Option Bool :=
  match cmd with
  | "term" :: _ :: _ :: n :: fs =>
    let f := readFactors n.toNat! fs
    let t : Term K := { ops := f.map (·.1), labels := f.map (·.2.1), orbs := f.map (·.2.2.1), spins := f.map (·.2.2.2), value := default }
    some (LatSpec.validTerm L t)
  | "preset" :: kind :: l :: rest =>
    let l1 := unhexLabel l
    if kind == "coulombS" || kind == "level" then some (LatSpec.definedOnSite L l1)
    else if kind == "coulombP" || kind == "coulombP3" then some (LatSpec.definedCoulombP L l1)
    else if kind == "magnetization" then some (LatSpec.definedMagnetization L l1)
    else if kind == "szsz" || kind == "ss" then some (LatSpec.definedExchange L l1 (unhexLabel (rest.headD "")))
    else if kind == "hop4" then some (LatSpec.definedHoppingAll L l1 (unhexLabel (rest.headD "")))
    else if kind == "hop5" then
      some (LatSpec.definedHoppingOrb L l1 (unhexLabel (rest.headD "")) (rest.getD 3 "0").toNat! (rest.getD 4 "0").toNat!)
    else if kind == "hop6" then
      some (LatSpec.definedHoppingFull L l1 (unhexLabel (rest.headD "")) (rest.getD 3 "0").toNat! (rest.getD 4 "0").toNat!
        (rest.getD 5 "0").toNat! (rest.getD 5 "0").toNat!)
    else if kind == "hop7" then
      some (LatSpec.definedHoppingFull L l1 (unhexLabel (rest.headD "")) (rest.getD 3 "0").toNat! (rest.getD 4 "0").toNat!
        (rest.getD 5 "0").toNat! (rest.getD 6 "0").toNat!)
    else none
  | "tpreset" :: _ :: l :: _ :: _ :: o1 :: o2 :: s1 :: s2 :: _ =>
    -- the factory itself must reject equal orbitals/spins; the term must then also be valid for the site
    if !LatSpec.definedSpinflip o1.toNat! o2.toNat! s1.toNat! s2.toNat! then some false
    else
      match LatSpec.siteOf L (unhexLabel l) with
      | some st => some (decide (o1.toNat! < st.norb) && decide (o2.toNat! < st.norb) && decide (s1.toNat! < st.nspin) && decide (s2.toNat! < st.nspin))
      | none => some false
  | _ => none

def replay (conjv : K → K) (half : K) (lines : List String) : IO Unit := do
  let (groups, ended) := groupCommands lines
  let mut st : St K := {}
  let mut tally : Driver.Tally := {}
  let mut idx := 0
  let mut lastDump : List String := []
  let mut lastBulkOk := false
  let mut justPrepared := false
  let mut copyExpect : Option (List String) := none
  let mut forkDump : Option (List String) := none
  let mut unforkExpect : Option (List String) := none
  let mut mustBeUnchanged : Option String := none
  -- the implementation's own index table, as dumped by the last `index` command (for the C18 oracle)
  let mut implTbl : List (String × Nat × Nat) := []
  for (cmd, obs) in groups do
    idx := idx + 1
    let last := idx == groups.length
    -- property oracle for the lattice input layer (C20), on the implementation's own outcomes
    match specDefined st.L cmd with
    | some defined =>
      let implOk := obs == ["o ok"]
      let implExc := obs.any (·.startsWith "o exc")
      if !defined && implOk then
        IO.println s!"PROPFAIL[C20] cmd#{idx} {" ".intercalate (cmd.take 12)} :: accepted although the call is undefined/invalid for this lattice"
        tally := tally.pfail
      if implExc then mustBeUnchanged := some (" ".intercalate (cmd.take 12))
    | none => pure ()
    -- a copied lattice defines the same model: the dump right after `copy` equals the dump right before it
    if cmd == ["copy"] && obs == ["o ok"] && !lastDump.isEmpty then copyExpect := some lastDump
    -- fork ... unfork: a copy was modified and put aside; the ORIGINAL must be what it was at the time of the fork
    if cmd == ["fork"] && obs == ["o ok"] then forkDump := if lastDump.isEmpty then none else some lastDump
    if cmd == ["unfork"] && obs == ["o ok"] then
      unforkExpect := forkDump
      forkDump := none
    if cmd == ["dumplattice"] then
      match unforkExpect with
      | some d =>
        if obs != d then
          let diff := ((obs.zip d).find? fun (x, y) => x != y)
          IO.println s!"PROPFAIL[C20] cmd#{idx} the original lattice changed while a copy of it was modified: {match diff with | some (x, y) => s!"now=[{x}] at the fork=[{y}]" | none => s!"{obs.length} vs {d.length} lines"}"
          tally := tally.pfail
      | none => pure ()
      unforkExpect := none
    if cmd == ["dumplattice"] then
      match copyExpect with
      | some d =>
        if obs != d then
          let diff := ((obs.zip d).find? fun (x, y) => x != y)
          IO.println s!"PROPFAIL[C20] cmd#{idx} the copy of the lattice differs from the original: {match diff with | some (x, y) => s!"copy=[{x}] original=[{y}]" | none => s!"{obs.length} vs {d.length} lines"}"
          tally := tally.pfail
      | none => pure ()
      copyExpect := none
    if cmd == ["dumplattice"] then
      match mustBeUnchanged with
      | some c =>
        if obs != lastDump then
          IO.println s!"PROPFAIL[C20] cmd#{idx} a rejected call ({c}) changed the lattice"
          tally := tally.pfail
      | none => pure ()
      lastDump := obs
      mustBeUnchanged := none
    -- property oracle C18: the (label, orbital, spin) <-> index map is a bijection onto 0..N-1 with mutually inverse lookups
    match cmd with
    | ["index", _] =>
      let sites := st.L.sites
      let valid : List (String × Nat × Nat) := sites.flatMap fun x =>
        (List.range x.norb).flatMap fun o => (List.range x.nspin).map fun sp => (x.label, o, sp)
      let rows := obs.filterMap fun l => match Driver.toks l with
        | ["o", "idx", i, lb, o, sp, back] => some (i.toNat!, (unhexLabel lb, o.toNat!, sp.toNat!), back.toNat!)
        | _ => none
      if !(obs.any (·.startsWith "o exc")) && !obs.isEmpty then
        let n := match obs.head?.map Driver.toks with | some ["o", "nidx", n] => n.toNat! | _ => 0
        let trip := rows.map (·.2.1)
        let mut bad : List String := []
        if n != valid.length then bad := bad ++ [s!"{n} indices for {valid.length} (site, orbital, spin) triples"]
        if rows.length != n then bad := bad ++ [s!"{rows.length} table rows for {n} indices"]
        for (i, t, back) in rows do
          if back != i then bad := bad ++ [s!"getIndex(getInfo({i})) = {back}"]
          if !(valid.contains t) then bad := bad ++ [s!"index {i} carries the invalid triple ({hexLabel t.1},{t.2.1},{t.2.2})"]
        for t in valid do
          if (trip.filter (· == t)).length != 1 then bad := bad ++ [s!"triple ({hexLabel t.1},{t.2.1},{t.2.2}) appears {(trip.filter (· == t)).length} times"]
        if !bad.isEmpty then
          IO.println s!"PROPFAIL[C18] cmd#{idx} index table is not a bijection: {"; ".intercalate (bad.take 4)}"
          tally := tally.pfail
        implTbl := trip
    | ["getindex", lb, o, sp] =>
      let t := (unhexLabel lb, o.toNat!, sp.toNat!)
      if !implTbl.isEmpty && implTbl.contains t then
        match obs.map Driver.toks with
        | [["o", "ok", k]] =>
          if implTbl[k.toNat!]? != some t then
            IO.println s!"PROPFAIL[C18] cmd#{idx} getIndex({lb},{o},{sp}) = {k} but getInfo({k}) is another triple"
            tally := tally.pfail
        | _ =>
          IO.println s!"PROPFAIL[C18] cmd#{idx} getIndex fails for the valid triple ({lb},{o},{sp}): {obs}"
          tally := tally.pfail
    | ["getinfo", i] =>
      if !implTbl.isEmpty then
        match implTbl[i.toNat!]?, obs.map Driver.toks with
        | some t, [["o", "ok", lb, o, sp]] =>
          if (unhexLabel lb, o.toNat!, sp.toNat!) != t then
            IO.println s!"PROPFAIL[C18] cmd#{idx} getInfo({i}) differs from the table"
            tally := tally.pfail
        | some _, _ =>
          IO.println s!"PROPFAIL[C18] cmd#{idx} getInfo({i}) fails for a valid index: {obs}"
          tally := tally.pfail
        | none, o =>
          if !(obs.any (·.startsWith "o exc")) then
            IO.println s!"PROPFAIL[C18] cmd#{idx} getInfo({i}) does not fail for an index outside 0..N-1: {o}"
            tally := tally.pfail
    | _ => pure ()
    -- property oracle C07: the default analysis (and the one with symmetries ignored) completes without error
    if (cmd == ["symm", "default"] || cmd == ["symm", "ignore"]) && obs.any (·.startsWith "o exc") then
      IO.println s!"PROPFAIL[C07] cmd#{idx} {" ".intercalate cmd} :: the symmetry analysis fails with {obs.getD 0 "?"} on this lattice"
      tally := tally.pfail
    match cmd with
    | ["getsite", lab] =>
      -- returns the site added under that label, fails for unknown labels
      match LatSpec.siteOf st.L (unhexLabel lab) with
      | some stt =>
        if obs != [s!"o ok {hexLabel stt.label} {stt.norb} {stt.nspin}"] then
          IO.println s!"PROPFAIL[C20] cmd#{idx} getsite {lab} :: known site not returned ({obs})"
          tally := tally.pfail
      | none =>
        if !(obs.any (·.startsWith "o exc")) then
          IO.println s!"PROPFAIL[C20] cmd#{idx} getsite {lab} :: unknown label did not fail ({obs})"
          tally := tally.pfail
    | _ => pure ()
    match exec conjv half st cmd with
    | none =>
      tally := tally.bump "unmodelled"
    | some (st', expected) =>
      tally := tally.bump (cmd.headD "?")
      -- `tpc get` lines carry numeric values after the verdict: compare the predicted prefix only
      -- an element that was never prepared silently evaluates to 0 (`Vanishing` is still true); a prepared but
      -- uncomputed one throws unless it has no parts at all
      let status := if (cmd.take 2 == ["tpc", "get"] || cmd.take 2 == ["tpc", "ondemand"]) then ((expected.headD "").splitOn " ").getLastD "" else ""
      let expected := if (cmd.take 2 == ["tpc", "get"] || cmd.take 2 == ["tpc", "ondemand"]) then
          match obs.map Driver.toks with
          | [t] =>
            let vanishing := t.getLastD "0" == "1"
            let verdict := if status == "P" && !vanishing then "exc logic" else "ok"
            [(" ".intercalate ((Driver.toks (expected.headD "")).dropLast)) ++ " " ++ verdict]
          | _ => expected
        else expected
      let obs' := if (cmd.take 2 == ["tpc", "get"] || cmd.take 2 == ["tpc", "ondemand"]) then obs.map fun l =>
          let t := Driver.toks l
          " ".intercalate (t.take (if t.getD 9 "" == "exc" then 11 else 10)) else obs
      -- property oracle C13: the container's value equals that of a directly constructed object; after a bulk
      -- computation everything listed is evaluable
      if (cmd.take 2 == ["tpc", "get"] || cmd.take 2 == ["tpc", "ondemand"]) then
        match obs.map Driver.toks with
        | [t] =>
          if t.getD 9 "" == "ok" && status == "C" then
            let v := (floatOfHex (t.getD 10 "")).getD 0.0; let vi := (floatOfHex (t.getD 11 "")).getD 0.0
            let r := (floatOfHex (t.getD 12 "")).getD 0.0; let ri := (floatOfHex (t.getD 13 "")).getD 0.0
            let d := Float.sqrt ((v - r) * (v - r) + (vi - ri) * (vi - ri))
            if d > 1.0e-9 * (1.0 + Float.sqrt (r * r + ri * ri)) then
              IO.println s!"PROPFAIL[C13] cmd#{idx} {" ".intercalate cmd} :: container value ({v},{vi}) differs from the directly constructed object ({r},{ri})"
              tally := tally.pfail
          else if status == "C" then
            IO.println s!"PROPFAIL[C13] cmd#{idx} {" ".intercalate cmd} :: the element is prepared and computed but cannot be evaluated"
            tally := tally.pfail
        | _ => pure ()
      if cmd.take 2 == ["tpc", "evalall"] && lastBulkOk then
        match obs.map Driver.toks with
        | [t] => if t.getD 3 "0" != "0" then
            IO.println s!"PROPFAIL[C13] cmd#{idx} after a bulk computation {t.getD 3 "?"} of {t.getD 2 "?"} listed elements cannot be evaluated"
            tally := tally.pfail
        | _ => pure ()
      -- a bulk computation that directly follows a bulk preparation must succeed (everything listed was just prepared)
      if cmd.take 2 == ["tpc", "computeall"] && justPrepared && obs != ["o ok"] then
        IO.println s!"PROPFAIL[C13] cmd#{idx} {" ".intercalate cmd} :: the bulk computation directly after a bulk preparation fails with {obs.getD 0 "?"}"
        tally := tally.pfail
      justPrepared := cmd.take 2 == ["tpc", "prepareall"] && obs == ["o ok"]
      if cmd.take 2 == ["tpc", "computeall"] then lastBulkOk := obs == ["o ok"]
      else if cmd.take 2 != ["tpc", "evalall"] && cmd.take 2 != ["tpc", "list"] && cmd.take 2 != ["tpc", "get"] && cmd.take 2 != ["tpc", "ondemand"] then lastBulkOk := false
      let obs := obs'
      if obs == expected then
        tally := tally.ok
        st := st'
      else if last && !ended && obs.length < expected.length && obs == expected.take obs.length
              && !(expected.any (·.startsWith "o CRASH")) then
        -- the implementation died in the middle of this command although the model completes it
        IO.println s!"MISMATCH cmd#{idx} {" ".intercalate cmd} :: implementation aborted, model expects {expected.length} lines"
        tally := tally.mismatch
      else if last && !ended && expected.any (·.startsWith "o CRASH") then
        IO.println s!"AGREE-CRASH cmd#{idx} {" ".intercalate cmd} :: {expected.find? (·.startsWith "o CRASH")}"
        tally := (tally.bump "agreed_crashes").ok
      else
        let firstDiff := ((obs.zip expected).find? fun (a, b) => a != b)
        let d := match firstDiff with
          | some (a, b) => s!"impl=[{a}] model=[{b}]"
          | none => s!"impl has {obs.length} lines, model {expected.length}; last impl=[{obs.getLastD ""}] last model=[{expected.getLastD ""}]"
        IO.println s!"MISMATCH cmd#{idx} {" ".intercalate (cmd.take 12)} :: {d}"
        tally := tally.mismatch
        -- resynchronise on the implementation where possible
        st := st'
  if !ended then IO.println "NOTE case file has no end marker (harness aborted)"
  tally.report

end

def run (lines : Array String) : IO Unit := do
  let ls := lines.toList
  if ls.any (· == "build complex") then
    replay (K := CFloat) CFloat.conj ⟨0.5, 0.0⟩ ls
  else
    replay (K := Float) id (0.5 : Float) ls

end Driver.Pipe
