/-
  Driver for C16: replays the event log of the real dispatcher (running on the mock MPI under a
  seeded schedule, harness/disp.cpp) against `Model.Disp`.

  * every `t <rank> <seen>` event must be an enabled `step` of the model with the same outcome;
  * per rank, the sequence of sends / job executions of the implementation must equal the one the
    model produces under the same schedule;
  * at the end of a round every rank of the model has left the loop.
  Property oracle (independent of the model): every job of a round is executed exactly once, every
  rank returns from `mpi_skel::run` with the same map, and the map names the rank that ran each job.
-/
import PomerolModel.Model.Dispatcher
import PomerolModel.Model.DispatcherDedicated
import Driver.Util

namespace Driver.Disp
open Pomerol.Model.Disp

inductive Ev where
  | send (src dst tag payload : Int)
  | run (rank job : Int)
  deriving BEq, Repr

def evStr : Ev → String
  | .send a b c d => s!"s {a} {b} {c} {d}"
  | .run a b => s!"r {a} {b}"

/-- Events a model step makes rank `r` emit, derived from the state change. -/
def stepEvents (s s' : Sys) (r : Nat) : List Ev :=
  let newLog := s'.log.drop s.log.length
  let runs : List Ev := newLog.flatMap fun (j, w) => [Ev.run w j, Ev.send w 0 0 (-1)]
  let newFin : List Ev := (List.range s.P).filterMap fun i =>
    if !(s.m.fin.getD i false) && s'.m.fin.getD i false then some (Ev.send 0 i 2 (-1)) else none
  let newD := (s'.m.dmap.take (s'.m.dmap.length - s.m.dmap.length)).reverse
  let orders : List Ev := newD.map fun (j, w) => Ev.send 0 w 1 j
  if r = 0 then
    -- the lazily executed first order() precedes the worker part; later order()s follow the finish phase
    if !s.m.started then orders ++ runs ++ newFin else runs ++ newFin ++ orders
  else runs

structure Round where
  k : Nat
  P : Nat
  compl : List Int
  events : List String   -- raw lines of this round (t / s / r)
  maps : List (Nat × List (Nat × Nat))

def parseMap : List String → List (Nat × Nat)
  | a :: b :: rest => (a.toNat!, b.toNat!) :: parseMap rest
  | _ => []

def checkRound (P : Nat) (k : Nat) (compl : List Int) (lines : List String)
    (maps : List (Nat × List (Nat × Nat))) (tally : Driver.Tally) : IO Driver.Tally := do
  let mut tally := tally
  let J := compl.length
  -- implementation events
  let mut implEv : Array (List Ev) := Array.replicate P []
  let mut tests : List (Nat × Bool) := []
  let mut works : List Nat := []
  let mut runs : List (Nat × Nat) := []
  for l in lines do
    match Driver.toks l with
    | ["t", r, b] => tests := tests ++ [(r.toNat!, b == "1")]
    | ["s", a, b, c, d] =>
      let src := a.toNat!
      if src < P then implEv := implEv.modify src (· ++ [Ev.send a.toInt! b.toInt! c.toInt! d.toInt!])
      if c == "1" then works := works ++ [d.toNat!]
    | ["r", r, j] =>
      let rk := r.toNat!
      if rk < P then implEv := implEv.modify rk (· ++ [Ev.run r.toInt! j.toInt!])
      runs := runs ++ [(j.toNat!, rk)]
    | _ => pure ()
  -- ---------------- property oracle ----------------
  let mut propOk := true
  for j in List.range J do
    let cnt := (runs.filter (·.1 == j)).length
    if cnt != 1 then
      IO.println s!"PROPFAIL round={k} job {j} executed {cnt} times"
      propOk := false
  if (runs.filter (·.1 ≥ J)).length != 0 then
    IO.println s!"PROPFAIL round={k} a job outside the round was executed"; propOk := false
  if maps.length != P then
    IO.println s!"PROPFAIL round={k} only {maps.length} of {P} ranks returned from the dispatch"; propOk := false
  for (rk, m) in maps do
    for j in List.range J do
      let who := (runs.find? (·.1 == j)).map (·.2)
      let said := (m.find? (·.1 == j)).map (·.2)
      if who != said then
        IO.println s!"PROPFAIL round={k} rank {rk}: map says job {j} -> {said}, executed by {who}"; propOk := false
    if m.length != J then
      IO.println s!"PROPFAIL round={k} rank {rk}: map has {m.length} entries for {J} jobs"; propOk := false
  if !propOk then tally := tally.pfail
  -- ---------------- correspondence ----------------
  -- job order: the sequence of Work sends; must be a permutation sorted by non-increasing complexity
  let sortedOk := (works.zip (works.drop 1)).all fun (a, b) => compl.getD a 0 ≥ compl.getD b 0
  if works.length != J || !sortedOk || !(List.range J).all (works.contains ·) then
    IO.println s!"MISMATCH round={k} job order {works} is not the jobs sorted by decreasing complexity {compl}"
    return tally.mismatch
  let mut s := init P works
  let mut modEv : Array (List Ev) := Array.replicate P []
  -- the first order() of rank 0 is part of the initial state
  if 0 < P then modEv := modEv.modify 0 (· ++ (s.m.dmap.reverse.map fun (j, w) => Ev.send 0 w 1 j))
  let mut idx := 0
  for (r, b) in tests do
    idx := idx + 1
    match step s r b with
    | none =>
      IO.println s!"MISMATCH round={k} test #{idx} (rank {r}, seen={b}) is not enabled in the model"
      return tally.mismatch
    | some s' =>
      if r < P then modEv := modEv.modify r (· ++ stepEvents s s' r)
      s := s'
  for r in List.range P do
    if modEv[r]! != implEv[r]! then
      IO.println s!"MISMATCH round={k} rank {r} events differ: model={(modEv[r]!).map evStr} impl={(implEv[r]!).map evStr}"
      return tally.mismatch
  if !allExited s then
    IO.println s!"MISMATCH round={k} implementation left the loop but the model has not (model state: {repr s.ws})"
    return tally.mismatch
  for (rk, m) in maps do
    for j in List.range J do
      if dmapGet s.m.dmap j != (m.find? (·.1 == j)).map (·.2) then
        IO.println s!"MISMATCH round={k} rank {rk}: returned map differs from the model's DispatchMap at job {j}"
        return tally.mismatch
  tally := (tally.bump "rounds").ok
  tally := { tally with notes := tally.notes.map fun (key, n) => if key == "tests" then (key, n + tests.length) else (key, n) }
  if !(tally.notes.any (·.1 == "tests")) then tally := { tally with notes := tally.notes ++ [("tests", tests.length)] }
  return tally

/-! ### dedicated-master pattern (`Model/DispatcherDedicated.lean`) -/

/-- Events a step of the dedicated-master model makes rank `r` emit (ranks = pool index + 1). -/
def poolRank (boss i : Nat) : Nat := if i < boss then i else i + 1

def stepEventsD (boss : Nat) (s s' : Pomerol.Model.DispD.SysD) (master : Bool) : List Ev :=
  let rk (i : Nat) : Int := Int.ofNat (poolRank boss i)
  let b : Int := Int.ofNat boss
  let newLog := s'.log.drop s.log.length
  let runs : List Ev := newLog.flatMap fun (j, w) => [Ev.run (rk w) j, Ev.send (rk w) b 0 (-1)]
  let newFin : List Ev := (List.range s.N).filterMap fun i =>
    if !(s.m.fin.getD i false) && s'.m.fin.getD i false then some (Ev.send b (rk i) 2 (-1)) else none
  let newD := (s'.m.dmap.take (s'.m.dmap.length - s.m.dmap.length)).reverse
  let orders : List Ev := newD.map fun (j, w) => Ev.send b (rk w) 1 j
  if master then newFin ++ orders else runs

def checkRoundD (boss : Nat) (P : Nat) (k : Nat) (jobs : List Nat) (lines : List String)
    (maps : List (Nat × List (Nat × Nat))) (exits : List Nat) (tally : Driver.Tally) : IO Driver.Tally := do
  let mut tally := tally
  let mut implEv : Array (List Ev) := Array.replicate P []
  let mut tests : List (Nat × Bool) := []
  let mut runs : List (Nat × Nat) := []
  for l in lines do
    match Driver.toks l with
    | ["t", r, b] => tests := tests ++ [(r.toNat!, b == "1")]
    | ["s", a, b, c, d] =>
      let src := a.toNat!
      if src < P then implEv := implEv.modify src (· ++ [Ev.send a.toInt! b.toInt! c.toInt! d.toInt!])
    | ["r", r, j] =>
      let rk := r.toNat!
      if rk < P then implEv := implEv.modify rk (· ++ [Ev.run r.toInt! j.toInt!])
      runs := runs ++ [(j.toNat!, rk)]
    | _ => pure ()
  -- ---------------- property oracle ----------------
  let mut propOk := true
  for j in jobs do
    let cnt := (runs.filter (·.1 == j)).length
    if cnt != 1 then
      IO.println s!"PROPFAIL round={k} (dedicated master) job {j} executed {cnt} times"; propOk := false
  if runs.any (fun x => !(jobs.contains x.1)) then
    IO.println s!"PROPFAIL round={k} (dedicated master) a job outside the round was executed"; propOk := false
  if runs.any (fun x => x.2 == boss) then
    IO.println s!"PROPFAIL round={k} (dedicated master) the master, which is not in the worker pool, executed a job"; propOk := false
  match maps.find? (·.1 == boss) with
  | none => IO.println s!"PROPFAIL round={k} (dedicated master) the master did not leave its loop"; propOk := false
  | some (_, m) =>
    for j in jobs do
      let who := (runs.find? (·.1 == j)).map (·.2)
      let said := (m.find? (·.1 == j)).map (·.2)
      if who != said then
        IO.println s!"PROPFAIL round={k} (dedicated master) map says job {j} -> {said}, executed by {who}"; propOk := false
    if m.length != jobs.length then
      IO.println s!"PROPFAIL round={k} (dedicated master) map has {m.length} entries for {jobs.length} jobs"; propOk := false
  for r in (List.range P).filter (· != boss) do
    if !exits.contains r then
      IO.println s!"PROPFAIL round={k} (dedicated master) worker rank {r} did not leave its loop"; propOk := false
  if !propOk then tally := tally.pfail
  -- ---------------- correspondence ----------------
  let N := P - 1
  let mut s := Pomerol.Model.DispD.init N jobs
  let mut modEv : Array (List Ev) := Array.replicate P []
  modEv := modEv.modify boss (· ++ (s.m.dmap.reverse.map fun (j, w) => Ev.send (Int.ofNat boss) (Int.ofNat (poolRank boss w)) 1 j))
  let mut idx := 0
  for (r, b) in tests do
    idx := idx + 1
    -- model rank: 0 = master, i + 1 = worker with pool index i
    let mr := if r == boss then 0 else (if r < boss then r else r - 1) + 1
    match Pomerol.Model.DispD.step s mr b with
    | none =>
      IO.println s!"MISMATCH round={k} (dedicated master) test #{idx} (rank {r}, seen={b}) is not enabled in the model"
      return tally.mismatch
    | some s' =>
      if r < P then modEv := modEv.modify r (· ++ stepEventsD boss s s' (r == boss))
      s := s'
  for r in List.range P do
    if modEv[r]! != implEv[r]! then
      IO.println s!"MISMATCH round={k} (dedicated master) rank {r} events differ: model={(modEv[r]!).map evStr} impl={(implEv[r]!).map evStr}"
      return tally.mismatch
  if !Pomerol.Model.DispD.allExited s then
    IO.println s!"MISMATCH round={k} (dedicated master) implementation left its loops but the model has not (master exited: {s.m.exited}, workers: {repr s.ws})"
    return tally.mismatch
  match maps.find? (·.1 == boss) with
  | some (_, m) =>
    for j in jobs do
      if (dmapGet s.m.dmap j).map (poolRank boss) != (m.find? (·.1 == j)).map (·.2) then
        IO.println s!"MISMATCH round={k} (dedicated master) DispatchMap differs from the model's at job {j}"
        return tally.mismatch
  | none => pure ()
  tally := (tally.bump "rounds_dedicated").ok
  tally := { tally with notes := tally.notes.map fun (key, n) => if key == "tests" then (key, n + tests.length) else (key, n) }
  if !(tally.notes.any (·.1 == "tests")) then tally := { tally with notes := tally.notes ++ [("tests", tests.length)] }
  return tally

/-- The whole log of one harness run: `P <n>` header line, then rounds. -/
def run (lines : Array String) : IO Unit := do
  let mut tally : Driver.Tally := {}
  let mut P := 0
  let mut cur : Option (Nat × List Int) := none
  let mut buf : List String := []
  let mut maps : List (Nat × Nat × List (Nat × Nat)) := []   -- (round, rank, map)
  let mut rounds : List (Nat × List Int × List String) := []
  let mut hang := false
  let mut dedicated := false
  let mut boss := 0
  let mut exits : List (Nat × Nat) := []     -- (round, rank) of workers that left the dedicated-master loop
  for line in lines do
    match Driver.toks line with
    | ["P", p] => P := p.toNat!
    | ["mode", "nomaster"] => dedicated := true
    | ["mode", "nomaster", b] => dedicated := true; boss := b.toNat!
    | ["x", r, k] => exits := exits ++ [(k.toNat!, r.toNat!)]
    | "round" :: k :: _ :: cs =>
      if let some (k0, c0) := cur then rounds := rounds ++ [(k0, c0, buf)]
      cur := some (k.toNat!, cs.map (·.toInt!)); buf := []
    | "m" :: r :: k :: _ :: rest => maps := maps ++ [(k.toNat!, r.toNat!, parseMap rest)]
    | "HANG" :: _ =>
      IO.println s!"PROPFAIL {line} (the dispatch did not terminate under this schedule)"
      tally := tally.pfail; hang := true
    | "exception" :: _ => IO.println s!"PROPFAIL {line}"; tally := tally.pfail
    | "lostmsg" :: _ => IO.println s!"MISMATCH {line} (a matched message was cancelled: rounds leak)"; tally := tally.mismatch
    | ("t" :: _) | ("s" :: _) | ("r" :: _) => buf := buf ++ [line]
    | _ => pure ()
  if let some (k0, c0) := cur then rounds := rounds ++ [(k0, c0, buf)]
  if !hang then
    for (k, c, ls) in rounds do
      let ms := (maps.filter (·.1 == k)).map fun (_, r, m) => (r, m)
      if dedicated then
        tally ← checkRoundD boss P k (c.map (·.toNat)) ls ms ((exits.filter (·.1 == k)).map (·.2)) tally
      else
        tally ← checkRound P k c ls ms tally
  tally.report

end Driver.Disp
