/-
  Driver for C05 (harness/opalg.cpp): replays every operation of the real `Pomerol::Operator` algebra on
  the model (`Model/Operator.lean`, coefficients = IEEE doubles with the literal tolerance tests) and
  checks the property oracle: the Jordan-Wigner matrices (built directly from the elementary signed
  actions, independently of the normal-ordering code) of the implementation's results satisfy the
  algebraic identities.
-/
import PomerolModel.Generated.CoreFlags
import PomerolModel.Model.Operator
import Driver.Util
import Driver.Scalars

namespace Driver.OpAlg
open Pomerol Pomerol.Model Driver

section
variable {K : Type} [Add K] [Sub K] [Mul K] [Neg K] [Zero K] [One K] [CoefTest K] [DrvScalar K] [Inhabited K]

def readVal1 (real : Bool) (t : List String) : Option (K × List String) :=
  if real then
    match t with
    | a :: rest => (floatOfHex a).map fun x => (DrvScalar.ofParts x 0.0, rest)
    | _ => none
  else
    match t with
    | a :: b :: rest =>
      match floatOfHex a, floatOfHex b with
      | some x, some y => some (DrvScalar.ofParts x y, rest)
      | _, _ => none
    | _ => none

def readMono : Nat → List String → Option (Mono × List String)
  | 0, t => some ([], t)
  | n + 1, a :: i :: rest =>
    match readMono n rest with
    | some (m, r) => some (⟨a == "1", i.toNat!⟩ :: m, r)
    | none => none
  | _, _ => none

/-- `<n> { <coef> <len> (<ann> <idx>)^len }` as a raw list (not normalised) -/
def readTerms (real : Bool) : Nat → List String → Option (List (K × Mono) × List String)
  | 0, t => some ([], t)
  | n + 1, t =>
    match readVal1 (K := K) real t with
    | some (c, len :: rest) =>
      match readMono len.toNat! rest with
      | some (m, r) => match readTerms real n r with
        | some (l, r2) => some ((c, m) :: l, r2)
        | none => none
      | none => none
    | _ => none

def readPolyRaw (real : Bool) (t : List String) : Option (Poly K) :=
  match t with
  | n :: rest => (readTerms (K := K) real n.toNat! rest).map fun (l, _) => l.map fun (c, m) => (m, c)
  | _ => none

def polyEq (p q : Poly K) : Bool :=
  p.length == q.length && (p.zip q).all fun (a, b) => a.1 == b.1 && bitsEq a.2 b.2

def showPoly (real : Bool) (p : Poly K) : String :=
  let v (c : K) := if real then hexOfFloat (DrvScalar.re c) else valStr c
  s!"{p.length}" ++ String.join (p.map fun (m, c) =>
    s!" {v c} {m.length}" ++ String.join (m.map fun o => s!" {if o.ann then 1 else 0} {o.idx}"))

/-! dense Jordan-Wigner matrices on `2^M` states (column-major lists) -/
def modesOf (p : Poly K) : Nat := p.foldl (fun m (mo, _) => mo.foldl (fun m o => max m (o.idx + 1)) m) 0

/-- column `ket` of the JW matrix of a raw polynomial: dense vector of length `2^M` -/
def jwColumn (M : Nat) (p : Poly K) (ket : Nat) : Array K :=
  p.foldl (fun (col : Array K) (m, c) =>
    match actMono m ket with
    | some (bra, neg) => if bra < col.size then col.modify bra (fun x => x + (if neg then -c else c)) else col
    | none => col) (Array.replicate (2 ^ M) 0)

def jwMatrix (M : Nat) (p : Poly K) : Array (Array K) := (Array.range (2 ^ M)).map (jwColumn M p)

def matMul (a b : Array (Array K)) : Array (Array K) :=   -- columns of a*b
  b.map fun bcol => (Array.range a.size).foldl (fun acc k =>
      let bk := bcol[k]!
      let ak := a[k]!
      (Array.range acc.size).map fun r => acc[r]! + ak[r]! * bk) (Array.replicate (a.size) 0)

def matZip (f : K → K → K) (a b : Array (Array K)) : Array (Array K) :=
  (Array.range a.size).map fun c => (Array.range a.size).map fun r => f (a[c]!)[r]! (b[c]!)[r]!

def matScale (s : K) (a : Array (Array K)) : Array (Array K) := a.map fun col => col.map (· * s)

def matMaxDiff (a b : Array (Array K)) : Float :=
  (Array.range a.size).foldl (fun m c => (Array.range a.size).foldl (fun m r =>
    let d := DrvScalar.abs ((a[c]!)[r]! - (b[c]!)[r]!)
    if d > m then d else m) m) 0.0

def matMaxAbs (a : Array (Array K)) : Float :=
  a.foldl (fun m col => col.foldl (fun m x => let d := DrvScalar.abs x; if d > m then d else m) m) 0.0

structure Env (K : Type) where
  model : List (String × Poly K) := []
  impl : List (String × Poly K) := []

def Env.getM (e : Env K) (n : String) : Poly K := ((e.model.find? (·.1 == n)).map (·.2)).getD []
def Env.getI (e : Env K) (n : String) : Poly K := ((e.impl.find? (·.1 == n)).map (·.2)).getD []
def Env.set (e : Env K) (n : String) (m i : Poly K) : Env K :=
  { model := (n, m) :: e.model.filter (·.1 != n), impl := (n, i) :: e.impl.filter (·.1 != n) }

def splitArrow (t : List String) : List String × List String :=
  let pre := t.takeWhile (· != "=>")
  (pre, (t.drop (pre.length + 1)))

def run (real : Bool) (lines : List String) : IO Unit := do
  let mut env : Env K := {}
  let mut tally : Driver.Tally := {}
  let tol : Float := 1e-9
  for line in lines do
    if !line.startsWith "o " then continue
    let (lhs, rhs) := splitArrow (Driver.toks (line.drop 2).toString)
    let report (ok : Bool) (what : String) (t : Driver.Tally) : IO Driver.Tally := do
      if ok then pure t.ok else do
        IO.println s!"MISMATCH {" ".intercalate (lhs.take 14)} :: {what}"
        pure t.mismatch
    let pfail (what : String) (t : Driver.Tally) : IO Driver.Tally := do
      IO.println s!"PROPFAIL {" ".intercalate (lhs.take 40)} :: {what}"
      pure t.pfail
    match lhs with
    | "def" :: name :: n :: rest =>
      tally := tally.bump "def"
      match readTerms (K := K) real n.toNat! rest, readPolyRaw (K := K) real rhs with
      | some (ts, _), some ip =>
        let mp := ts.foldl (fun (acc : Option (Poly K)) (c, m) => acc.bind fun p => normalizeInsert m c p) (some [])
        match mp with
        | some mp =>
          tally ← report (polyEq mp ip) s!"model={showPoly real mp} impl={showPoly real ip}" tally
          -- oracle: the matrix of the result is the sum of coef * product of elementary JW matrices
          let M := max (modesOf (ts.map fun (c, m) => (m, c))) (modesOf ip)
          if M ≤ 6 then
            let want := jwMatrix M (ts.map fun (c, m) => (m, c))
            let got := jwMatrix M ip
            if matMaxDiff want got > tol * (1.0 + matMaxAbs want) then
              tally ← pfail s!"normal-ordered result has a different Jordan-Wigner matrix (max diff {matMaxDiff want got})" tally
          env := env.set name mp ip
        | none => tally ← report false "model ran out of fuel" tally
      | _, _ => tally ← report false "unparsable line" tally
    | "prod" :: name :: rest =>
      tally := tally.bump "prod"
      match readVal1 (K := K) real rest, readPolyRaw (K := K) real rhs with
      | some (c, len :: fs), some ip =>
        match readMono len.toNat! fs with
        | some (m, _) =>
          let step (acc : Option (Poly K × Bool)) (o : Op) : Option (Poly K × Bool) :=
            acc.bind fun (p, first) =>
              let t1 : Poly K := if o.ann then opC o.idx else opCdag o.idx
              if (if Pomerol.Gen.Core.productRestartsOnEmpty then p.isEmpty else first) then some (t1, false)
              else (Poly.mul p t1).map fun q => (q, false)
          -- the harness itself uses the `tmp.isEmpty()` idiom of IndexHamiltonian as it was originally written
          let stepH (acc : Option (Poly K)) (o : Op) : Option (Poly K) :=
            acc.bind fun p =>
              let t1 : Poly K := if o.ann then opC o.idx else opCdag o.idx
              if p.isEmpty then some t1 else Poly.mul p t1
          let _ := step
          match m.foldl stepH (some []) with
          | some tmp =>
            let mp := Poly.smul c tmp
            tally ← report (polyEq mp ip) s!"model={showPoly real mp} impl={showPoly real ip}" tally
            env := env.set name mp ip
          | none => tally ← report false "model ran out of fuel" tally
        | none => tally ← report false "unparsable line" tally
      | _, _ => tally ← report false "unparsable line" tally
    | [op0, r, a, b0] =>
      -- compound assignments `R = A; R op= B` are the same operations; a right-hand side named like the result is the
      -- left-hand side itself (`R op= R`)
      let inplace := op0 == "imul" || op0 == "iadd" || op0 == "isub"
      let op := if inplace then (op0.drop 1).toString else op0
      let b := if inplace && b0 == r then a else b0
      if op == "mul" || op == "add" || op == "sub" || op == "comm" || op == "acomm" then
        tally := tally.bump op
        match readPolyRaw (K := K) real rhs with
        | some ip =>
          let A := env.getM a; let B := env.getM b
          let mp : Option (Poly K) :=
            if op == "mul" then Poly.mul A B else if op == "add" then some (Poly.add A B)
            else if op == "sub" then some (Poly.sub A B) else if op == "comm" then Poly.commutator A B
            else Poly.antiCommutator A B
          match mp with
          | some mp =>
            tally ← report (polyEq mp ip) s!"model={showPoly real mp} impl={showPoly real ip}" tally
            let IA := env.getI a; let IB := env.getI b
            let M := max (max (modesOf IA) (modesOf IB)) (modesOf ip)
            if M ≤ 6 then
              let ma := jwMatrix M IA; let mb := jwMatrix M IB
              let want := if op == "mul" then matMul ma mb else if op == "add" then matZip (· + ·) ma mb
                else if op == "sub" then matZip (· - ·) ma mb
                else if op == "comm" then matZip (· - ·) (matMul ma mb) (matMul mb ma)
                else matZip (· + ·) (matMul ma mb) (matMul mb ma)
              let got := jwMatrix M ip
              let scale := 1.0 + matMaxAbs want
              -- erased near-zero coefficients (< 100 eps) are within the documented behaviour
              if matMaxDiff want got > tol * scale then
                tally ← pfail s!"Jordan-Wigner matrix of the result differs from the {op} of the matrices (max diff {matMaxDiff want got})" tally
            env := env.set r mp ip
          | none => tally ← report false "model ran out of fuel" tally
        | none => tally ← report false "unparsable result" tally
      else if op == "smul" || op == "addc" then
        tally := tally.bump op
        -- here the tokens are: op r <coef> a  (real build) -- handled below for the complex layout too
        pure ()
      else pure ()
    | _ => pure ()
    -- commands with a coefficient argument or other layouts
    match lhs with
    | op :: r :: rest =>
      if op == "smul" || op == "addc" then
        match readVal1 (K := K) real rest, readPolyRaw (K := K) real rhs with
        | some (c, [a]), some ip =>
          let A := env.getM a
          let mp := if op == "smul" then Poly.smul c A else Poly.addConst c A
          tally ← report (polyEq mp ip) s!"model={showPoly real mp} impl={showPoly real ip}" tally
          let IA := env.getI a
          let M := max (modesOf IA) (modesOf ip)
          if M ≤ 6 then
            let ma := jwMatrix M IA
            let want := if op == "smul" then matScale c ma
              else matZip (· + ·) ma (jwMatrix M ([([], c)] : Poly K))
            let got := jwMatrix M ip
            if matMaxDiff want got > 200.0 * eps * (1.0 + matMaxAbs ma) + tol * DrvScalar.abs c * (if DrvScalar.abs c < 100.0 * eps then 0.0 else 1.0) * (1.0 + matMaxAbs ma) then
              tally ← pfail s!"Jordan-Wigner matrix of the result differs (max diff {matMaxDiff want got})" tally
          env := env.set r mp ip
        | _, _ => if rest.length > 1 && (op == "smul" || op == "addc") then tally ← report false "unparsable line" tally
      else if op == "neg" then
        tally := tally.bump op
        match rest, readPolyRaw (K := K) real rhs with
        | [a], some ip =>
          let mp := Poly.neg (env.getM a)
          tally ← report (polyEq mp ip) s!"model={showPoly real mp} impl={showPoly real ip}" tally
          env := env.set r mp ip
        | _, _ => tally ← report false "unparsable line" tally
      else if op == "eq" || op == "commutes" then
        tally := tally.bump op
        match rest, rhs with
        | [b], [v] =>
          let a := r
          let mres := if op == "eq" then Poly.eqCoded Pomerol.Gen.Core.eqLengthTest (env.getM a) (env.getM b)
                      else Poly.commutes Pomerol.Gen.Core.eqLengthTest (env.getM a) (env.getM b)
          let implB := v == "1"
          match mres with
          | some mb => tally ← report (mb == implB) s!"model={mb} impl={implB}" tally
          | none => tally := tally.bump "model_ub"   -- undefined behaviour in the model: any observed value is consistent
          -- oracle: the test must agree with matrix equality / commutation (coefficients are dyadic: exact)
          let IA := env.getI a; let IB := env.getI b
          let M := max (modesOf IA) (modesOf IB)
          if M ≤ 6 then
            let ma := jwMatrix M IA; let mb := jwMatrix M IB
            let truth := if op == "eq" then matMaxDiff ma mb == 0.0
                         else matMaxDiff (matMul ma mb) (matMul mb ma) == 0.0
            let near := if op == "eq" then matMaxDiff ma mb else matMaxDiff (matMul ma mb) (matMul mb ma)
            if truth != implB && !(near > 0.0 && near < 1e-10) then
              tally ← pfail s!"test returned {implB} but the Jordan-Wigner matrices say {truth} (difference {near})" tally
        | _, _ => tally ← report false "unparsable line" tally
      else if op == "act" then
        tally := tally.bump op
        match rest with
        | [nm, ket] =>
          let a := r
          let res := actPoly (env.getM a) ket.toNat!
          let exp := s!"{res.length}" ++ String.join (res.map fun (s, v) => s!" {s} {if real then hexOfFloat (DrvScalar.re v) else valStr v}")
          tally ← report (exp == " ".intercalate rhs) s!"model=[{exp}] impl=[{" ".intercalate rhs}]" tally
          -- oracle: the non-zero entries of column `ket` of the JW matrix of the implementation's own polynomial
          let IA := env.getI a
          let M := nm.toNat!
          if M ≤ 6 && modesOf IA ≤ M then
            let col := jwColumn M IA ket.toNat!
            let nzs := (List.range col.size).filter fun s => DrvScalar.abs col[s]! ≥ eps
            let implStates := (List.range (rhs.headD "0").toNat!).map fun k =>
              (rhs.getD (1 + k * (if real then 2 else 3)) "0").toNat!
            let amb := (List.range col.size).any fun s => let x := DrvScalar.abs col[s]!; x > 0.0 && x < 1e-10
            if nzs != implStates && !amb then
              tally ← pfail s!"actRight returned states {implStates}, Jordan-Wigner column has {nzs}" tally
            else if !amb then
              -- the values as well (sign errors leave the states unchanged): the model's action on the implementation's own
              -- polynomial is the Jordan-Wigner column (C05.polynomial_action)
              let sp := actPoly IA ket.toNat!
              let want := s!"{sp.length}" ++ String.join (sp.map fun (s, v) => s!" {s} {if real then hexOfFloat (DrvScalar.re v) else valStr v}")
              if want != " ".intercalate rhs then
                tally ← pfail s!"actRight returned [{" ".intercalate rhs}], the Jordan-Wigner action of the same polynomial is [{want}]" tally
          else if modesOf IA ≤ M then
            -- wide spaces: sparse Jordan-Wigner action (`actPoly`, proved to be the JW representation: C05.polynomial_action)
            -- of the implementation's own polynomial on this ket
            let sp := actPoly IA ket.toNat!
            let want := s!"{sp.length}" ++ String.join (sp.map fun (s, v) => s!" {s} {if real then hexOfFloat (DrvScalar.re v) else valStr v}")
            if want != " ".intercalate rhs then
              tally ← pfail s!"actRight on {M} modes returned [{" ".intercalate rhs}], the Jordan-Wigner action of the same polynomial is [{want}]" tally
        | _ => tally ← report false "unparsable line" tally
      else if op == "melem" then
        tally := tally.bump op
        match rest with
        | [_, bra, ket] =>
          let v := matrixElement (env.getM r) bra.toNat! ket.toNat!
          let exp := if real then hexOfFloat (DrvScalar.re v) else valStr v
          tally ← report (exp == " ".intercalate rhs) s!"model={exp} impl={" ".intercalate rhs}" tally
        | _ => tally ← report false "unparsable line" tally
      else pure ()
    | _ => pure ()
    -- shortcut operators
    match lhs with
    | ["nop", nm, ket] =>
      tally := tally.bump "nop"
      let M := nm.toNat!; let k := ket.toNat!
      let cnt := Float.ofNat (popCount k M)
      -- impl: <shortcut value> <map size> <state> <value> <generic value> <poly>
      let vals := rhs.take (if real then 5 else 8)
      let sv := (floatOfHex (rhs.headD "")).getD 0.0
      let gv := (floatOfHex (rhs.getD (if real then 4 else 6) "")).getD 0.0
      tally ← report (sv == cnt) s!"model N|ket> = {cnt}, impl shortcut = {sv} ({vals})" tally
      if sv != gv || sv != cnt then
        tally ← pfail s!"N shortcut {sv}, generic polynomial form {gv}, popcount {cnt}" tally
    | "sz" :: nm :: nup :: rest =>
      tally := tally.bump "sz"
      let M := nm.toNat!; let n := nup.toNat!
      let ups := (rest.take n).map (·.toNat!)
      let ket := (rest.getD n "0").toNat!
      let downs := (List.range M).filter fun i => !(ups.contains i)
      match rhs with
      | "throw" :: _ =>
        tally ← report (ups.length != downs.length) "impl threw although up/down counts agree" tally
      | "ok" :: vs =>
        let sv := (floatOfHex (vs.headD "")).getD 0.0
        let gv := (floatOfHex (vs.getD (if real then 1 else 2) "")).getD 0.0
        let want := 0.5 * Float.ofInt (szTwice ups downs ket)
        tally ← report (ups.length == downs.length && sv == want) s!"model Sz = {want}, impl = {sv}" tally
        if sv != gv || sv != want then
          tally ← pfail s!"Sz shortcut {sv}, generic polynomial form {gv}, (n_up - n_down)/2 = {want}" tally
      | _ => tally ← report false "unparsable line" tally
    | "sz2" :: nm :: nup :: rest =>
      tally := tally.bump "sz2"
      let _M := nm.toNat!; let n := nup.toNat!
      let ups := (rest.take n).map (·.toNat!)
      let nd := (rest.getD n "0").toNat!
      let downs := ((rest.drop (n + 1)).take nd).map (·.toNat!)
      let ket := (rest.getD (n + 1 + nd) "0").toNat!
      match rhs with
      | "throw" :: _ =>
        tally ← report (ups.length != downs.length) "impl threw although up/down counts agree" tally
      | "ok" :: vs =>
        let w := if real then 1 else 2
        let sv := (floatOfHex (vs.headD "")).getD 0.0
        let gv := (floatOfHex (vs.getD w "")).getD 0.0
        let cnt := (vs.getD (2 * w) "0").toNat!
        let st := (vs.getD (2 * w + 1) "0").toNat!
        let av := (floatOfHex (vs.getD (2 * w + 2) "")).getD 0.0
        let want := 0.5 * Float.ofInt (szTwice ups downs ket)
        tally ← report (ups.length == downs.length && sv == want) s!"model Sz = {want}, impl = {sv}" tally
        if sv != gv || sv != want || cnt != 1 || st != ket || av != want then
          tally ← pfail s!"Sz(ups,downs) shortcut {sv}, generic polynomial form {gv}, (n_up - n_down)/2 = {want}, actRight -> {cnt} states, {st}: {av}" tally
      | _ => tally ← report false "unparsable line" tally
    | _ => pure ()
  tally.report

end

def main (lines : Array String) : IO Unit := do
  let ls := lines.toList
  if ls.any (· == "build complex") then run (K := CFloat) false ls
  else run (K := Float) true ls

end Driver.OpAlg
