/-
  Driver utilities: line reader, token parsing, result accounting.  Core Lean only.
-/
namespace Driver

partial def readLines (h : IO.FS.Stream) (acc : Array String) : IO (Array String) := do
  let line ← h.getLine
  if line.isEmpty then return acc
  readLines h (acc.push (line.trimAscii.toString))

def toks (line : String) : List String :=
  (line.splitOn " ").filter (· ≠ "")

def parseInt? (s : String) : Option Int := s.toInt?

def parseInts? (ss : List String) : Option (List Int) := ss.mapM parseInt?

/-- Accumulated verdicts of one driver run. -/
structure Tally where
  checked : Nat := 0
  bad : Nat := 0
  propfail : Nat := 0
  notes : List (String × Nat) := []   -- named counters (distribution table)

def Tally.bump (t : Tally) (key : String) : Tally :=
  let rec go : List (String × Nat) → List (String × Nat)
    | [] => [(key, 1)]
    | (k, n) :: r => if k = key then (k, n + 1) :: r else (k, n) :: go r
  { t with notes := go t.notes }

def Tally.ok (t : Tally) : Tally := { t with checked := t.checked + 1 }

def Tally.mismatch (t : Tally) : Tally := { t with checked := t.checked + 1, bad := t.bad + 1 }

def Tally.pfail (t : Tally) : Tally := { t with propfail := t.propfail + 1 }

def Tally.report (t : Tally) : IO Unit := do
  let notes := t.notes.map fun (k, n) => s!"{k}={n}"
  IO.println s!"SUMMARY checked={t.checked} mismatches={t.bad} propfails={t.propfail} {" ".intercalate notes}"

end Driver
