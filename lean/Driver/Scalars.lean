/-
  Driver-side scalar plumbing: hex <-> Float, the two coefficient types of the two pomerol builds
  (`Float` for the real build, `CFloat` for POMEROL_COMPLEX_MATRIX_ELEMENTS) with the tolerance tests
  exactly as the C++ code evaluates them.  Core Lean only.
-/
import PomerolModel.Scalar
import PomerolModel.Model.Operator
import PomerolModel.Model.Lattice

namespace Driver
open Pomerol Pomerol.Model

def hexDigit (c : Char) : Option UInt64 :=
  if '0' ≤ c ∧ c ≤ '9' then some (c.toNat - '0'.toNat).toUInt64
  else if 'a' ≤ c ∧ c ≤ 'f' then some (c.toNat - 'a'.toNat + 10).toUInt64
  else if 'A' ≤ c ∧ c ≤ 'F' then some (c.toNat - 'A'.toNat + 10).toUInt64
  else none

def parseHex64 (s : String) : Option UInt64 :=
  s.foldl (fun acc c => match acc, hexDigit c with
    | some a, some d => some (a * 16 + d)
    | _, _ => none) (some 0)

def floatOfHex (s : String) : Option Float := (parseHex64 s).map Float.ofBits

def hexNibble (n : UInt64) : Char :=
  let v := n.toNat
  if v < 10 then Char.ofNat ('0'.toNat + v) else Char.ofNat ('a'.toNat + v - 10)

def hex64 (u : UInt64) : String :=
  String.ofList ((List.range 16).map fun i => hexNibble ((u >>> (UInt64.ofNat (4 * (15 - i)))) &&& 15))

/-- canonical zero: `-0.0` is printed as `+0.0` (as the harness does) -/
def hexOfFloat (x : Float) : String := hex64 (if x == 0.0 then (0.0 : Float).toBits else x.toBits)

def eps : Float := 2.220446049250313e-16

/-- labels travel hex-encoded ("-" = empty string) -/
def unhexLabel (h : String) : String :=
  if h = "-" then "" else
  let cs := h.toList
  let rec go : List Char → List Char
    | a :: b :: rest =>
      match hexDigit a, hexDigit b with
      | some x, some y => Char.ofNat (x * 16 + y).toNat :: go rest
      | _, _ => go rest
    | _ => []
  String.ofList (go cs)

def hexLabel (s : String) : String :=
  if s.isEmpty then "-" else
  String.ofList (s.toList.flatMap fun c => [hexNibble (UInt64.ofNat (c.toNat / 16)), hexNibble (UInt64.ofNat (c.toNat % 16))])

/-- What the driver needs from a coefficient type. -/
class DrvScalar (K : Type) where
  ofParts : Float → Float → K
  re : K → Float
  im : K → Float
  conj : K → K
  abs : K → Float

instance : DrvScalar Float := ⟨fun r _ => r, id, fun _ => 0.0, id, Float.abs⟩
instance : DrvScalar CFloat := ⟨fun r i => ⟨r, i⟩, (·.re), (·.im), CFloat.conj, CFloat.abs⟩

instance : CoefTest Float :=
  ⟨fun x => Float.abs x < 100 * eps, fun x => Float.abs x > eps, fun x => Float.abs x < eps⟩
instance : CoefTest CFloat :=
  ⟨fun x => x.abs < 100 * eps, fun x => x.abs > eps, fun x => x.abs < eps⟩
instance : Lat.NonzeroTest Float := ⟨fun x => x != 0.0⟩
instance : Lat.NonzeroTest CFloat := ⟨fun x => x.re != 0.0 || x.im != 0.0⟩

def valStr {K : Type} [DrvScalar K] (v : K) : String :=
  hexOfFloat (DrvScalar.re v) ++ " " ++ hexOfFloat (DrvScalar.im v)

def bitsEq {K : Type} [DrvScalar K] (a b : K) : Bool :=
  hexOfFloat (DrvScalar.re a) == hexOfFloat (DrvScalar.re b) && hexOfFloat (DrvScalar.im a) == hexOfFloat (DrvScalar.im b)

end Driver
