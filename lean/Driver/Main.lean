import Driver.Util
import Driver.MC4
import Driver.Disp
import Driver.Pipe
import Driver.OpAlg
import Driver.NumericMain

def main (args : List String) : IO UInt32 := do
  let stdin ← IO.getStdin
  let lines ← Driver.readLines stdin #[]
  match args with
  | ["mc4"] => Driver.MC4.run lines; return 0
  | ["disp"] => Driver.Disp.run lines; return 0
  | ["pipe"] => Driver.Pipe.run lines; return 0
  | ["opalg"] => Driver.OpAlg.main lines; return 0
  | ["numeric"] => Driver.Numeric.runNumeric lines.toList; return 0
  | _ => IO.eprintln "usage: pmdriver <mode>  (case file on stdin)"; return 2
