/-
  Driver for C15: replays the observations of the real `MatsubaraContainer4` template
  (instantiated with a tagging source by harness/mc4.cpp) against `Model.MC4`.

  input lines:
    fill <N>
    look <n1> <n2> <n3> <phase> <t1> <t2> <t3>     -- observed tag (phase 1 = stored at fill time,
                                                   --  phase 2 = fetched from the source on a miss)
-/
import PomerolModel.Model.MC4
import Driver.Util

namespace Driver.MC4
open Pomerol.Model.MC4

abbrev Tag := Int × Int × Int × Int

def fillSrc : Source Tag := fun a b c => (1, a, b, c)
def missSrc : Source Tag := fun a b c => (2, a, b, c)

def showTag (t : Tag) : String := s!"{t.1} {t.2.1} {t.2.2.1} {t.2.2.2}"

def run (lines : Array String) : IO Unit := do
  let mut cont : Option (Container Tag) := none
  let mut tally : Driver.Tally := {}
  let mut curN : Int := 0
  for line in lines do
    match Driver.toks line with
    | ["fill", n] =>
      match n.toInt? with
      | some N =>
        match fill fillSrc N with
        | .ok c => cont := some c; curN := N; tally := (tally.bump "fills").ok
        | .error e =>
          IO.println s!"MISMATCH {line} :: model fill fails with {repr e}"
          cont := none; tally := tally.mismatch
      | none => IO.println s!"BADLINE {line}"; tally := tally.mismatch
    | ["look", a, b, c, p, t1, t2, t3] =>
      match Driver.parseInts? [a, b, c, p, t1, t2, t3], cont with
      | some [n1, n2, n3, ph, x1, x2, x3], some cn =>
        let obs : Tag := (ph, x1, x2, x3)
        -- property oracle: the value read is the direct formula's value for this very triple
        if (x1, x2, x3) != (n1, n2, n3) then
          IO.println s!"PROPFAIL fill={curN} {line} :: storage returned the value of ({x1},{x2},{x3})"
          tally := tally.pfail
        match lookup cn missSrc n1 n2 n3 with
        | .ok v =>
          tally := tally.bump (if v.1 == 1 then "hits" else "misses")
          if v == obs then tally := tally.ok
          else
            IO.println s!"MISMATCH {line} :: model={showTag v} impl={showTag obs}"
            tally := tally.mismatch
        | .error e =>
          IO.println s!"MISMATCH {line} :: model lookup fails with {repr e}"
          tally := tally.mismatch
      | _, _ => IO.println s!"BADLINE {line}"; tally := tally.mismatch
    | [] => pure ()
    | _ => IO.println s!"BADLINE {line}"; tally := tally.mismatch
  tally.report

end Driver.MC4
