/-
  The numeric pass over a pipeline case file (see Driver/Numeric.lean for what is computed and why).
  Output lines:  PROPFAIL[Cxx] <what>   |   NUMSUMMARY key=value ...
-/
import Driver.Numeric

namespace Driver.Numeric
open Pomerol Pomerol.Model Driver

structure LTerm where
  value : C
  factors : List (Bool × String × Nat × Nat)   -- (creation?, label hex, orbital, spin)

structure Acc where
  s : Sys := {}
  quadratic : Bool := false
  /-- lattice dumps: the two most recent (`lterm` lines), and the preset executed between them -/
  prevTerms : List LTerm := []
  curTerms : List LTerm := []
  curSites : List (String × Nat × Nat) := []
  lastPreset : List String := []
  segment : List (List String) := []    -- lattice-building commands since the last dump
  dumps : Nat := 0
  /-- lattice-building commands of the current lattice that the library ACCEPTED (answered `o ok`), in order -/
  accepted : List (List String) := []
  acceptedSaved : List (List String) := []     -- `accepted` at the time of `fork`
  idxTable : List (String × Nat × Nat) := []   -- index ↦ (label hex, orb, spin)
  fails : Nat := 0
  counts : List (String × Nat) := []
  /-- cached eigenbasis annihilators C_i = V† c_i V -/
  cRot : Array (Option Mat) := #[]
  /-- implementation's assembled eigenbasis operators, keyed by "kind i" -/
  implOps : List (String × Mat) := []
  /-- earlier observations (for the truncation comparisons): key ↦ values -/
  seen : List (String × List C) := []
  truncated : Bool := false
  ambiguous : Nat := 0

def Acc.bump (a : Acc) (k : String) (n : Nat := 1) : Acc :=
  let rec go : List (String × Nat) → List (String × Nat)
    | [] => [(k, n)]
    | (x, c) :: r => if x = k then (x, c + n) :: r else (x, c) :: go r
  { a with counts := go a.counts }

/-- scientific notation for small deviations (`toString` of a Float prints six fixed decimals) -/
def sci (x : Float) : String :=
  if x == 0.0 then "0" else if x.isNaN then "NaN" else if x.isInf then "inf" else
  let e := Float.floor (Float.log10 (Float.abs x))
  let m := x / Float.exp (e * Float.log 10.0)
  s!"{m}e{e.toInt64}"

def fail (a : Acc) (prop what : String) : IO Acc := do
  if a.fails < 40 then IO.println s!"PROPFAIL[{prop}] {what}"
  pure { a with fails := a.fails + 1 }

/-- does the spectrum contain two levels that differ by less than the library's term-merging tolerance (1e-8, with slack)
without being numerically equal?  (finding F16: the tolerance comparator of `TermList` is then not a strict weak order) -/
def nearDegenerate (s : Sys) : Bool :=
  (List.range s.E.size).any fun i => (List.range i).any fun j =>
    let d := Float.abs (s.E[i]! - s.E[j]!)
    d > 3.0e-10 && d < 3.0e-8

/-- a failed check of a two-particle quantity; on spectra with near-degenerate levels it is attributed to the term merging -/
def failChi (a : Acc) (prop what : String) : IO Acc :=
  if nearDegenerate a.s then fail a prop ("near-degenerate levels (term merging): " ++ what) else fail a prop what

def getRot (a : Acc) (i : Nat) : Acc × Mat :=
  match a.cRot[i]? with
  | some (some m) => (a, m)
  | _ =>
    let m := rotate a.s (opMatrix a.s.M ⟨true, i⟩)
    let arr := if a.cRot.size ≤ i then a.cRot ++ Array.replicate (i + 1 - a.cRot.size) none else a.cRot
    ({ a with cRot := arr.set! i (some m) }, m)

/-- after `truncateBlocks`: is eigenstate `k` in a retained block? (always true before any truncation) -/
def keepOf (s : Sys) (k : Nat) : Bool :=
  if s.retained.isEmpty then true else s.retained.getD ((s.kOf.getD k (0, 0)).1) true

/-- levels that have a partner closer than the library's pole-merging tolerance (1e-8, with slack) without being numerically
equal: Lehmann terms through such a level may be merged onto a pole that is off by up to the tolerance (documented behaviour:
"like poles merged within 1e-8") -/
def mergeSensitive (s : Sys) : Array Bool :=
  (Array.range s.E.size).map fun k => (List.range s.E.size).any fun j =>
    let d := Float.abs (s.E[k]! - s.E[j]!)
    d > 1.0e-13 * (1.0 + Float.abs (s.E[k]!)) && d < 2.0e-8

/-- sorted array of the poles `E_m − E_n` of all pairs for which `contributes n m` -/
def sortedPoles (s : Sys) (contributes : Nat → Nat → Bool) : Array Float :=
  let ps := (List.range s.dim).foldl (fun (acc : Array Float) n => (List.range s.dim).foldl (fun acc m =>
    if contributes n m then acc.push (s.E[m]! - s.E[n]!) else acc) acc) #[]
  ps.qsort (· < ·)

/-- is there, in the sorted array, a pole closer to `P` than the merging tolerance (with slack) that is not `P` itself
(numerically)?  Such like poles are merged by `TermList` and the merged term sits at a pole that is off by the difference. -/
def hasNearPole (sorted : Array Float) (P : Float) : Bool := Id.run do
  -- lower bound by binary search
  let mut lo := 0
  let mut hi := sorted.size
  while lo < hi do
    let mid := (lo + hi) / 2
    if sorted[mid]! < P - 2.0e-8 then lo := mid + 1 else hi := mid
  let mut k := lo
  let mut found := false
  while k < sorted.size && sorted[k]! ≤ P + 2.0e-8 do
    let d := Float.abs (sorted[k]! - P)
    if d > 1.0e-13 * (1.0 + Float.abs P) then found := true
    k := k + 1
  return found

/-- full-space Lehmann sum for G_ij(z) and its error budget (terms with |R| ≤ 2·tol may legitimately be dropped);
`keep`: which eigenstates lie in retained blocks (a term is summed when one of its two states does) -/
def specG (s : Sys) (w : Array Float) (ci cj : Mat) (z : C) (keep : Nat → Bool := fun _ => true) : C × Float × Float :=
  let poles := sortedPoles s fun n m => let x := mget ci n m; !(x.re == 0.0 && x.im == 0.0) && (mget cj n m).abs > 0.0
  (List.range s.dim).foldl (fun acc n => (List.range s.dim).foldl (fun (acc : C × Float × Float) m =>
    let x := mget ci n m
    if (x.re == 0.0 && x.im == 0.0) || !(keep n || keep m) then acc else
    let r := x * (mget cj n m).conj * ofR (w[n]! + w[m]!)
    let den := z - ofR (s.E[m]! - s.E[n]!)
    let t := r / den
    let (g, budget, tot) := acc
    -- budget: terms the library is documented to drop (|residue| below 1e-8) + pole shifts of merged like poles
    (g + t, budget + (if r.abs ≤ 2.0e-8 then t.abs else 0.0) + (if hasNearPole poles (s.E[m]! - s.E[n]!) then t.abs * 2.0e-8 / den.abs else 0.0),
     tot + t.abs)) acc) (czero, 0.0, 0.0)

/-- the part of the residue sum rule the library may legitimately lose: Σ |residue| over the terms below its residue tolerance -/
def residueBudget (s : Sys) (w : Array Float) (ci cj : Mat) : Float :=
  (List.range s.dim).foldl (fun acc n => (List.range s.dim).foldl (fun (acc : Float) m =>
    let x := mget ci n m
    if x.re == 0.0 && x.im == 0.0 then acc else
    let r := (x * (mget cj n m).conj * ofR (w[n]! + w[m]!)).abs
    if r ≤ 2.0e-8 then acc + r else acc) acc) 0.0

/-- `w_n · e^{τ(E_n − E_m)}` evaluated without overflow for `0 ≤ τ ≤ β`:
`exp(−(β−τ)(E_n−E₀) − τ(E_m−E₀)) / Z` -/
def boltz (s : Sys) (tau : Float) (n m : Nat) : Float :=
  let e0 := s.E.foldl (fun mn x => if x < mn then x else mn) (s.E[0]!)
  let z := s.E.foldl (fun acc e => acc + Float.exp (-(s.beta) * (e - e0))) 0.0
  Float.exp (-((s.beta - tau) * (s.E[n]! - e0)) - tau * (s.E[m]! - e0)) / z

def specGtau (s : Sys) (w : Array Float) (ci cj : Mat) (tau : Float) : C :=
  (List.range s.dim).foldl (fun acc n => (List.range s.dim).foldl (fun (acc : C) m =>
    let x := mget ci n m
    if x.re == 0.0 && x.im == 0.0 then acc else
    -- −⟨c_i(τ) c†_j⟩ = −Σ w_n e^{τ(E_n − E_m)} C_nm conj(Cj_nm)
    acc - x * (mget cj n m).conj * ofR (boltz s tau n m)) acc) czero

/-- the multi-term of one world line with coefficient 1 (the right-hand side of `simplex_closed_form`);
returns the value and whether a resonance decision was numerically ambiguous -/
def multiTermF (beta : Float) (z1 z2 z3 : C) (P1 P2 P3 wi wj wk wl : Float) : C × Bool :=
  let a1 := z1 - ofR P1; let a2 := z2 - ofR P2; let a3 := z3 - ofR P3
  let d12 := z1 + z2 - ofR P1 - ofR P2
  let d23 := z2 + z3 - ofR P2 - ofR P3
  let amb (d : C) : Bool := d.abs > 1.0e-9 && d.abs < 1.0e-7
  let t1 := ofR (-(wj + wk)) / (a1 * a2 * a3)
  let t2 := ofR (wi + wl) / (a1 * (z1 + z2 + z3 - ofR P1 - ofR P2 - ofR P3) * a3)
  let t3 := (if d12.abs < 1.0e-8 then ofR (beta * wi) else ofR (wk - wi) / d12) / (a1 * a3)
  let t4 := (if d23.abs < 1.0e-8 then ofR (-(beta * wj)) else ofR (wj - wl) / d23) / (a1 * a3)
  (t1 + t2 + t3 + t4, amb d12 || amb d23)

def perms3 : List (List Nat × Float) :=
  [([0,1,2], 1.0), ([0,2,1], -1.0), ([1,0,2], -1.0), ([1,2,0], 1.0), ([2,0,1], 1.0), ([2,1,0], -1.0)]

/-- non-zero entries of a matrix by row -/
def sparseRows (a : Mat) : Array (Array (Nat × C)) :=
  a.map fun row => (Array.range row.size).filterMap fun j => let x := row[j]!; if x.abs > 1.0e-13 then some (j, x) else none

/-- full-space Lehmann sum for χ (signed sum over the six orderings of the world-line sums) -/
def specChi (s : Sys) (w : Array Float) (ops : Array Mat) (x4 : Mat) (zs : Array C) (keep : Nat → Bool := fun _ => true) : C × Bool × Float :=
  let sx := sparseRows x4
  perms3.foldl (fun (acc : C × Bool × Float) (p, sign) =>
    let A := sparseRows ops[p[0]!]!; let B := sparseRows ops[p[1]!]!; let Cc := sparseRows ops[p[2]!]!
    let za := zs[p[0]!]!; let zb := zs[p[1]!]!; let zc := zs[p[2]!]!
    (List.range s.dim).foldl (fun acc n1 =>
      (A[n1]!).foldl (fun acc (n2, a) =>
        (B[n2]!).foldl (fun acc (n3, b) =>
          (Cc[n3]!).foldl (fun (acc : C × Bool × Float) (n4, c) =>
            let x := mget x4 n4 n1
            if x.abs ≤ 1.0e-13 || !(keep n1 || keep n2 || keep n3 || keep n4) then acc else
            let (mt, amb) := multiTermF s.beta za zb zc (s.E[n2]! - s.E[n1]!) (s.E[n3]! - s.E[n2]!) (s.E[n4]! - s.E[n3]!)
              w[n1]! w[n2]! w[n3]! w[n4]!
            let t := ofR sign * a * b * c * x * mt
            (acc.1 + t, acc.2.1 || amb, acc.2.2 + t.abs)) acc) acc) acc) acc) (czero, false, 0.0)
  |> fun r => let _ := sx; r

/-- `absWeightChi` of Spec/TruncBounds.lean: Σ over the six orderings and all world lines of the product of the
absolute values of the four matrix elements (the factor of the proven truncation bound for χ⁴) -/
def absWeightChi (s : Sys) (ops : Array Mat) (x4 : Mat) : Float :=
  perms3.foldl (fun (acc : Float) (p, _) =>
    let A := sparseRows ops[p[0]!]!; let B := sparseRows ops[p[1]!]!; let Cc := sparseRows ops[p[2]!]!
    (List.range s.dim).foldl (fun acc n1 =>
      (A[n1]!).foldl (fun acc (n2, a) =>
        (B[n2]!).foldl (fun acc (n3, b) =>
          (Cc[n3]!).foldl (fun (acc : Float) (n4, c) =>
            acc + a.abs * b.abs * c.abs * (mget x4 n4 n1).abs) acc) acc) acc) acc) 0.0

/-- What the full-space bosonic Lehmann sum says about one value of χ_AB, split by how the library is documented to
treat each term: `x` the value of the definition; `filtered` the part carried by terms the library certainly drops
(pole outside the 1e-8 resonance window, |residue| below the 1e-8 residue tolerance); `unsure` the absolute size of what
cannot be attributed because a tolerance test is numerically undecidable; `ideal` the absolute deviation caused by
treating poles inside the resonance window as exactly zero; `tot` the sum of absolute values of all terms. -/
structure SuscSpec where
  x : C := czero
  filtered : C := czero
  unsure : Float := 0.0
  ideal : Float := 0.0
  tot : Float := 0.0

/-- `(1 − e^{−y}) / y`, stable near `y = 0` -/
def phiF (y : Float) : Float := if Float.abs y < 1.0e-4 then 1.0 - y / 2.0 + y * y / 6.0 else (1.0 - Float.exp (-y)) / y

/-- `w_a − w_b` for `w_b = w_a e^{−βP}` without cancellation for small `βP` -/
def weightDiff (beta wa wb P : Float) : Float :=
  let y := beta * P
  if Float.abs y < 1.0e-4 then wa * y * phiF y else wa - wb

def undecided (v thr rel : Float) : Bool := v > thr * (1.0 - rel) && v < thr * (1.0 + rel)

/-- full-space bosonic Lehmann sum for χ_AB(iΩ_n) incl. the static limit -/
def specSusc (s : Sys) (w : Array Float) (A B : Mat) (n : Int) (keep : Nat → Bool := fun _ => true) : SuscSpec :=
  let omega := 2.0 * Float.ofInt n * 3.141592653589793 / s.beta
  let z : C := ⟨0.0, omega⟩
  let poles := sortedPoles s fun a b => (mget A a b * mget B b a).abs > 0.0 && Float.abs (s.E[b]! - s.E[a]!) ≥ 1.0e-8
  (List.range s.dim).foldl (fun acc a => (List.range s.dim).foldl (fun (acc : SuscSpec) b =>
    let x := mget A a b * mget B b a
    if x.abs == 0.0 || !(keep a || keep b) then acc else
    let P := s.E[b]! - s.E[a]!
    let dw := weightDiff s.beta w[a]! w[b]! P
    -- the definition (P = 0 exactly: the β-proportional term at n = 0, nothing otherwise)
    let exact : C := if P == 0.0 then (if n == 0 then x * ofR (s.beta * w[a]!) else czero)
                     else if n == 0 then x * ofR (dw / P) else -(x * ofR dw) / (z - ofR P)
    -- the documented zero-pole treatment
    let zeroPole : C := if n == 0 then x * ofR (s.beta * w[a]!) else czero
    let r := (x * ofR dw).abs
    let acc := { acc with x := acc.x + exact, tot := acc.tot + exact.abs }
    -- a kept term whose pole has a near-but-different neighbour may be merged onto that neighbour (shift < 1e-8)
    let acc := if Float.abs P ≥ 1.0e-8 && hasNearPole poles P then
        { acc with ideal := acc.ideal + exact.abs * 2.0e-8 / (if n == 0 then Float.abs P else (z - ofR P).abs) } else acc
    if undecided (Float.abs P) 1.0e-8 1.0e-4 then { acc with unsure := acc.unsure + (exact - zeroPole).abs + exact.abs }
    else if Float.abs P < 1.0e-8 then { acc with ideal := acc.ideal + (exact - zeroPole).abs }
    else if undecided r 1.0e-8 1.0e-3 then { acc with unsure := acc.unsure + exact.abs }
    else if r < 1.0e-8 then { acc with filtered := acc.filtered + exact }
    else acc) acc) {}

/-- the same for χ_AB(τ) = ⟨A(τ) B⟩ -/
def specSuscTau (s : Sys) (w : Array Float) (A B : Mat) (tau : Float) : SuscSpec :=
  let poles := sortedPoles s fun a b => (mget A a b * mget B b a).abs > 0.0 && Float.abs (s.E[b]! - s.E[a]!) ≥ 1.0e-8
  (List.range s.dim).foldl (fun acc a => (List.range s.dim).foldl (fun (acc : SuscSpec) b =>
    let x := mget A a b * mget B b a
    if x.abs == 0.0 then acc else
    let P := s.E[b]! - s.E[a]!
    let exact := x * ofR (boltz s tau a b)
    let zeroPole := x * ofR w[a]!
    let r := (x * ofR (weightDiff s.beta w[a]! w[b]! P)).abs
    let acc := { acc with x := acc.x + exact, tot := acc.tot + exact.abs }
    let acc := if Float.abs P ≥ 1.0e-8 && hasNearPole poles P then
        { acc with ideal := acc.ideal + exact.abs * 2.0e-8 * (s.beta + 1.0 / Float.abs P) } else acc
    if undecided (Float.abs P) 1.0e-8 1.0e-4 then { acc with unsure := acc.unsure + (exact - zeroPole).abs + exact.abs }
    else if Float.abs P < 1.0e-8 then { acc with ideal := acc.ideal + (exact - zeroPole).abs }
    else if undecided r 1.0e-8 1.0e-3 then { acc with unsure := acc.unsure + exact.abs }
    else if r < 1.0e-8 then { acc with filtered := acc.filtered + exact }
    else acc) acc) {}

/-- Gauss-Jordan inverse of a small complex matrix (partial pivoting) -/
def cinv (a : Mat) : Option Mat := Id.run do
  let n := a.size
  let mut m : Mat := (Array.range n).map fun i => (a[i]!) ++ ((Array.range n).map fun j => if i = j then cone else czero)
  for col in List.range n do
    let mut piv := col
    for r in List.range n do
      if r > col && (mget m r col).abs > (mget m piv col).abs then piv := r
    if (mget m piv col).abs < 1.0e-300 then return none
    let tmp := m[col]!
    m := (m.set! col (m[piv]!)).set! piv tmp
    let p := mget m col col
    m := m.set! col ((m[col]!).map (· / p))
    for r in List.range n do
      if r != col then
        let f := mget m r col
        if f.abs != 0.0 then
          let rowc := m[col]!
          m := m.set! r ((Array.range (2 * n)).map fun j => (m[r]!)[j]! - f * rowc[j]!)
  return some (m.map fun row => row.extract n (2 * n))

/-- matrix of a list of lattice terms read as ordered products of Jordan-Wigner matrices -/
def termsMatrix (M : Nat) (idx : List (String × Nat × Nat)) (ts : List LTerm) : Option Mat :=
  ts.foldlM (fun (acc : Mat) t =>
    let ops : Option (List Op) := t.factors.mapM fun (cre, l, o, sp) =>
      (idx.findIdx? (· == (l, o, sp))).map fun i => (⟨!cre, i⟩ : Op)
    match ops with
    | none => none
    | some ops =>
      let prod := ops.foldl (fun (p : Mat) o => matMul p (opMatrix M o)) (ident (2 ^ M))
      some (matAdd acc (prod.map fun row => row.map (· * t.value)))) (zeros (2 ^ M) (2 ^ M))

def traceWeighted (w : Array Float) (a : Mat) (keep : Nat → Bool := fun _ => true) : C :=
  (List.range a.size).foldl (fun acc k => if keep k then acc + mget a k k * ofR w[k]! else acc) czero

def closeC (a b : C) (tol : Float) : Bool := (a - b).abs ≤ tol

def nat! (s : String) : Nat := s.toNat!
def int! (s : String) : Int := s.toInt!

/-- certificate of the reported eigen-system against the full Jordan-Wigner Hamiltonian -/
def certify (a : Acc) : IO Acc := do
  let s := a.s
  let H := polyMatrix s.M s.ham
  let hn := 1.0 + maxAbs H
  let HV := matMul H s.V
  let VE : Mat := (Array.range s.dim).map fun f => (Array.range s.dim).map fun k => mget s.V f k * ofR s.E[k]!
  let res := maxDiff HV VE
  let orth := maxDiff (matMul (adjoint s.V) s.V) (ident s.dim)
  let herm := maxDiff H (adjoint H)
  let mut a := a.bump "eigensystems_certified"
  -- NaN / infinite entries are invisible to max-norm comparisons: look for them explicitly
  let badV := s.V.any fun row => row.any fun z => z.re.isNaN || z.im.isNaN || z.re.isInf || z.im.isInf
  let badE := s.E.any fun x => x.isNaN || x.isInf
  if badV || badE then a ← fail a "C03" s!"the reported eigen-system contains NaN or infinite entries (eigenvectors: {badV}, eigenvalues: {badE})"
  if herm > 1.0e-12 * hn then a ← fail a "C04" s!"Hamiltonian matrix is not Hermitian (max |H - H†| = {herm})"
  -- backward error relative to the size of H itself (a model whose couplings are all tiny must be diagonalised as well)
  if res > 1.0e-9 * (maxAbs H + 1.0e-300) then a ← fail a "C03" s!"reported eigenvectors do not satisfy H v = E v on the full Fock space (residual {res})"
  if orth > 1.0e-9 then a ← fail a "C03" s!"reported eigenvectors are not orthonormal (max deviation {orth})"
  -- ascending order inside every block
  for b in List.range s.blocks.size do
    let n := (s.blocks[b]!).size
    for i in List.range (n - 1) do
      if s.E[kIndex s b i]! > s.E[kIndex s b (i + 1)]! + 1.0e-12 then
        a ← fail a "C03" s!"eigenvalues of block {b} are not ascending"
  pure a

end Driver.Numeric
