import PomerolModel.Scalar
import PomerolModel.Model.Loop
