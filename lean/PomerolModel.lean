import PomerolModel.Scalar
import PomerolModel.Model.Loop
import PomerolModel.Model.MC4
import PomerolModel.Model.Operator
import PomerolModel.Properties.C15
