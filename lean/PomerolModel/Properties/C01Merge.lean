/-
  Property C01, tolerance-aware part: the term container merges terms whose poles differ by less than
  a tolerance onto the pole of the term stored first.  This changes the evaluated sum slightly; here
  the change is bounded.  Approximate versions of `addTerm_spec`, `addAll_spec`, `dropped_terms_value`
  of `Properties/C01.lean`.
-/
import PomerolModel.Properties.C01
import Mathlib.Analysis.Normed.Group.Basic
import Mathlib.Analysis.Complex.Norm

namespace Pomerol.Properties.C01Merge
open Complex Pomerol Pomerol.Spec Pomerol.Model.TermList Pomerol.Properties.C01

section Container
variable {K R M : Type} [Add K] [SeminormedAddCommGroup M]

/-- APPROXIMATE INVARIANT OF `add_term`: if merging `t` onto a stored equivalent `e` changes the
additive quantity `f` by at most `g t`, then adding `t` changes the total of `f` over
stored + dropped terms by `f t` up to an error of at most `g t`. -/
theorem addTerm_spec_approx {less : R → R → Bool} (negl : K → Nat → Bool)
    (hirr : ∀ p, less p p = false) (f : Term K R → M) (g : Term K R → ℝ)
    (hf : ∀ e t : Term K R, Eqv less e t → ‖f ⟨e.res + t.res, e.pole⟩ - (f e + f t)‖ ≤ g t)
    {data : List (Term K R)} (t : Term K R) (hinv : Inv less data) (hg : 0 ≤ g t) :
    Inv less (addTerm less negl data t).1 ∧
    ‖((addTerm less negl data t).1.map f).sum + ((addTerm less negl data t).2.toList.map f).sum
        - ((data.map f).sum + f t)‖ ≤ g t := by
  unfold addTerm
  cases hfe : findEquiv less t data with
  | none =>
    refine ⟨insertSorted_inv hinv (findEquiv_none hfe), ?_⟩
    have : ((insertSorted less t data).map f).sum + ((none : Option (Term K R)).toList.map f).sum
        - ((data.map f).sum + f t) = 0 := by
      simp only [insertSorted_sum, Option.toList_none, List.map_nil, List.sum_nil, add_zero]
      abel
    simp only [this, norm_zero]
    exact hg
  | some e =>
    obtain ⟨hmem, heq⟩ := findEquiv_some hfe
    obtain ⟨i1, i2, i3⟩ := eraseEquiv_spec hirr f hinv hmem
    dsimp only
    split_ifs with hn
    · refine ⟨i1, ?_⟩
      have : ((eraseEquiv less e data).map f).sum
            + ((some (⟨e.res + t.res, e.pole⟩ : Term K R)).toList.map f).sum
            - ((data.map f).sum + f t)
          = f ⟨e.res + t.res, e.pole⟩ - (f e + f t) := by
        simp only [Option.toList_some, List.map_cons, List.map_nil, List.sum_cons, List.sum_nil,
          add_zero, i3]
        abel
      rw [this]
      exact hf e t heq
    · refine ⟨insertSorted_inv i1 fun a ha => i2 a ha, ?_⟩
      have : ((insertSorted less (⟨e.res + t.res, e.pole⟩ : Term K R)
              (eraseEquiv less e data)).map f).sum
            + ((none : Option (Term K R)).toList.map f).sum
            - ((data.map f).sum + f t)
          = f ⟨e.res + t.res, e.pole⟩ - (f e + f t) := by
        simp only [insertSorted_sum, Option.toList_none, List.map_nil, List.sum_nil, add_zero, i3]
        abel
      rw [this]
      exact hf e t heq

/-- APPROXIMATE INVARIANT OF ADDING A SEQUENCE OF TERMS: the total of `f` over stored + dropped terms
grows by the total of `f` over the added terms, up to an error of at most `Σ g t`. -/
theorem addAll_spec_approx {less : R → R → Bool} (negl : K → Nat → Bool)
    (hirr : ∀ p, less p p = false) (f : Term K R → M) (g : Term K R → ℝ) (hg : ∀ t, 0 ≤ g t)
    (hf : ∀ e t : Term K R, Eqv less e t → ‖f ⟨e.res + t.res, e.pole⟩ - (f e + f t)‖ ≤ g t)
    (ts : List (Term K R)) : ∀ (data dropped : List (Term K R)), Inv less data →
    Inv less (addAll less negl data dropped ts).1 ∧
    ‖((addAll less negl data dropped ts).1.map f).sum
        + ((addAll less negl data dropped ts).2.map f).sum
        - ((data.map f).sum + (dropped.map f).sum + (ts.map f).sum)‖ ≤ (ts.map g).sum := by
  induction ts with
  | nil =>
    intro data dropped hinv
    refine ⟨hinv, ?_⟩
    simp [addAll]
  | cons t ts ih =>
    intro data dropped hinv
    obtain ⟨s1, s2⟩ := addTerm_spec_approx negl hirr f g hf t hinv (hg t)
    unfold addAll
    rcases hat : addTerm less negl data t with ⟨d', _ | x⟩
    · rw [hat] at s1 s2
      obtain ⟨j1, j2⟩ := ih d' dropped s1
      refine ⟨j1, ?_⟩
      simp only [Option.toList_none, List.map_nil, List.sum_nil, add_zero] at s2
      dsimp only
      rw [List.map_cons, List.sum_cons, List.map_cons, List.sum_cons]
      have : ((addAll less negl d' dropped ts).1.map f).sum
            + ((addAll less negl d' dropped ts).2.map f).sum
            - ((data.map f).sum + (dropped.map f).sum + (f t + (ts.map f).sum))
          = ((d'.map f).sum - ((data.map f).sum + f t))
            + (((addAll less negl d' dropped ts).1.map f).sum
              + ((addAll less negl d' dropped ts).2.map f).sum
              - ((d'.map f).sum + (dropped.map f).sum + (ts.map f).sum)) := by abel
      rw [this]
      exact (norm_add_le _ _).trans (add_le_add s2 j2)
    · rw [hat] at s1 s2
      obtain ⟨j1, j2⟩ := ih d' (dropped ++ [x]) s1
      refine ⟨j1, ?_⟩
      simp only [Option.toList_some, List.map_cons, List.map_nil, List.sum_cons, List.sum_nil,
        add_zero] at s2
      dsimp only
      rw [List.map_append, List.sum_append, List.map_cons, List.sum_cons, List.map_nil,
        List.sum_nil, add_zero] at j2
      rw [List.map_cons, List.sum_cons, List.map_cons, List.sum_cons]
      have : ((addAll less negl d' (dropped ++ [x]) ts).1.map f).sum
            + ((addAll less negl d' (dropped ++ [x]) ts).2.map f).sum
            - ((data.map f).sum + (dropped.map f).sum + (f t + (ts.map f).sum))
          = ((d'.map f).sum + f x - ((data.map f).sum + f t))
            + (((addAll less negl d' (dropped ++ [x]) ts).1.map f).sum
              + ((addAll less negl d' (dropped ++ [x]) ts).2.map f).sum
              - ((d'.map f).sum + ((dropped.map f).sum + f x) + (ts.map f).sum)) := by abel
      rw [this]
      exact (norm_add_le _ _).trans (add_le_add s2 j2)

end Container

/-! ## at `K := ℂ`, `R := ℝ` -/

/-- merging onto the first pole: value error of ONE merge -/
theorem merge_error_one (r : ℂ) (p q : ℝ) (z : ℂ) (δ : ℝ) (hδ : 0 < δ)
    (hp : δ ≤ ‖z - (p:ℂ)‖) (hq : δ ≤ ‖z - (q:ℂ)‖) :
    ‖r / (z - (p:ℂ)) - r / (z - (q:ℂ))‖ ≤ ‖r‖ * |p - q| / δ ^ 2 := by
  have hp0 : 0 < ‖z - (p:ℂ)‖ := lt_of_lt_of_le hδ hp
  have hq0 : 0 < ‖z - (q:ℂ)‖ := lt_of_lt_of_le hδ hq
  have hpn : z - (p:ℂ) ≠ 0 := norm_pos_iff.mp hp0
  have hqn : z - (q:ℂ) ≠ 0 := norm_pos_iff.mp hq0
  have heq : r / (z - (p:ℂ)) - r / (z - (q:ℂ))
      = r * (((p - q : ℝ) : ℂ)) / ((z - (p:ℂ)) * (z - (q:ℂ))) := by
    rw [div_sub_div _ _ hpn hqn]
    congr 1
    push_cast
    ring
  rw [heq, norm_div, norm_mul, norm_mul, Complex.norm_real, Real.norm_eq_abs]
  have hden : δ ^ 2 ≤ ‖z - (p:ℂ)‖ * ‖z - (q:ℂ)‖ := by
    rw [pow_two]
    exact mul_le_mul hp hq hδ.le hp0.le
  exact div_le_div_of_nonneg_left (mul_nonneg (norm_nonneg _) (abs_nonneg _)) (by positivity) hden

/-- THE TOLERANCE-AWARE VERSION OF `dropped_terms_value` for the EXTRACTED comparison
`Gen.GF.termLess p q tol` (`q - p ≥ tol`), any `tol > 0` and ANY negligibility test: at every complex
`z` that keeps distance `≥ δ > 0` from the real axis points, the value of kept + dropped terms
differs from the value of all added terms by at most `tol/δ² · Σ‖res‖`. -/
theorem merged_value_error (tol : ℝ) (htol : 0 < tol) (negl : ℂ → ℕ → Bool) (ts : List (Term ℂ ℝ))
    (z : ℂ) (δ : ℝ) (hδ : 0 < δ) (hz : ∀ p : ℝ, δ ≤ ‖z - (p:ℂ)‖) :
    let less : ℝ → ℝ → Bool := fun p q => Gen.GF.termLess p q tol
    ‖((kept less negl ts).map fun t => t.res / (z - (t.pole : ℂ))).sum
      + ((dropped less negl ts).map fun t => t.res / (z - (t.pole : ℂ))).sum
      - (ts.map fun t => t.res / (z - (t.pole : ℂ))).sum‖
      ≤ tol / δ ^ 2 * (ts.map fun t => ‖t.res‖).sum := by
  intro less
  have hirr : ∀ p, less p p = false := fun p => by
    simp only [less, Gen.GF.termLess, sub_self, decide_eq_false_iff_not, not_not]
    exact htol
  have hg : ∀ t : Term ℂ ℝ, 0 ≤ tol / δ ^ 2 * ‖t.res‖ := fun t => by positivity
  have hf : ∀ e t : Term ℂ ℝ, Eqv less e t →
      ‖(fun t : Term ℂ ℝ => t.res / (z - (t.pole : ℂ))) ⟨e.res + t.res, e.pole⟩
        - ((fun t : Term ℂ ℝ => t.res / (z - (t.pole : ℂ))) e
          + (fun t : Term ℂ ℝ => t.res / (z - (t.pole : ℂ))) t)‖
        ≤ (fun t : Term ℂ ℝ => tol / δ ^ 2 * ‖t.res‖) t := by
    intro e t h
    have hp : |e.pole - t.pole| < tol := by
      simp only [Eqv, less, Gen.GF.termLess, Bool.and_eq_true, Bool.not_eq_true',
        decide_eq_false_iff_not, not_not] at h
      rw [abs_lt]
      constructor <;> linarith [h.1, h.2]
    have heq : (e.res + t.res) / (z - (e.pole : ℂ))
          - (e.res / (z - (e.pole : ℂ)) + t.res / (z - (t.pole : ℂ)))
        = t.res / (z - (e.pole : ℂ)) - t.res / (z - (t.pole : ℂ)) := by
      rw [add_div]; ring
    dsimp only
    rw [heq]
    refine (merge_error_one t.res e.pole t.pole z δ hδ (hz _) (hz _)).trans ?_
    rw [div_mul_eq_mul_div, mul_comm tol]
    have hδ2 : 0 < δ ^ 2 := by positivity
    exact div_le_div_of_nonneg_right
      (mul_le_mul_of_nonneg_left hp.le (norm_nonneg _)) hδ2.le
  obtain ⟨-, h2⟩ := addAll_spec_approx negl hirr
    (fun t : Term ℂ ℝ => t.res / (z - (t.pole : ℂ))) (fun t : Term ℂ ℝ => tol / δ ^ 2 * ‖t.res‖)
    hg hf ts [] [] List.Pairwise.nil
  have hs : ∀ l : List (Term ℂ ℝ), (l.map fun t : Term ℂ ℝ => tol / δ ^ 2 * ‖t.res‖).sum
      = tol / δ ^ 2 * (l.map fun t => ‖t.res‖).sum := by
    intro l
    induction l with
    | nil => simp
    | cons a l ih => simp only [List.map_cons, List.sum_cons, ih, mul_add]
  rw [← hs ts]
  simpa [kept, dropped] using h2

/-- at a fermionic Matsubara frequency `z = i·ω` with `ω ≠ 0`: `δ = |ω|` works -/
theorem merged_value_error_matsubara (tol : ℝ) (htol : 0 < tol) (negl : ℂ → ℕ → Bool)
    (ts : List (Term ℂ ℝ)) (ω : ℝ) (hω : ω ≠ 0) :
    let less : ℝ → ℝ → Bool := fun p q => Gen.GF.termLess p q tol
    ‖((kept less negl ts).map fun t => t.res / (Complex.I * ω - (t.pole : ℂ))).sum
      + ((dropped less negl ts).map fun t => t.res / (Complex.I * ω - (t.pole : ℂ))).sum
      - (ts.map fun t => t.res / (Complex.I * ω - (t.pole : ℂ))).sum‖
      ≤ tol / ω ^ 2 * (ts.map fun t => ‖t.res‖).sum := by
  have hz : ∀ p : ℝ, |ω| ≤ ‖Complex.I * (ω : ℂ) - (p:ℂ)‖ := fun p => by
    have h := Complex.abs_im_le_norm (Complex.I * (ω : ℂ) - (p:ℂ))
    simpa using h
  have h := merged_value_error tol htol negl ts (Complex.I * (ω : ℂ)) |ω| (abs_pos.mpr hω) hz
  simpa only [sq_abs] using h

/-- A merge really happens (the bound is not about an empty situation): for every `tol > 0` two terms
with poles `0` and `tol/2` are merged into ONE term at the pole `0` stored first, with the residues
added; nothing is dropped.  The evaluated sum then changes from `1/z + 2/(z - tol/2)` to `3/z`. -/
example (tol : ℝ) (htol : 0 < tol) :
    (kept (fun p q => Gen.GF.termLess p q tol) (fun _ _ => false)
      [⟨1, 0⟩, ⟨2, tol / 2⟩]).map (fun t => (t.res, t.pole)) = [(1 + 2, 0)] := by
  have h3 : -(tol / 2) < tol := by linarith
  simp [kept, addAll, addTerm, findEquiv, insertSorted, eraseEquiv, Gen.GF.termLess, h3, htol]

/-- the hypothesis `hz` of `merged_value_error` is satisfiable: `z = i`, `δ = 1` -/
example : ∀ p : ℝ, (1:ℝ) ≤ ‖Complex.I - (p:ℂ)‖ := fun p => by
  have h := Complex.abs_im_le_norm (Complex.I - (p:ℂ))
  simpa using h

end Pomerol.Properties.C01Merge
