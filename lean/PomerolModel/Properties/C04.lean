/-
  Property C04: the Hamiltonian the library builds is the Hamiltonian of the lattice model that was
  entered, and the matrix it diagonalises is the matrix of that Hamiltonian.

  Models: `Model/Lattice.lean` (terms and presets), `Model/Index.lean` (`IndexHamiltonian::prepare`:
  for every order from the largest down to 1 and every stored term, the product of the term's
  creation/annihilation operators -- accumulated factor by factor, the accumulation rule being
  recorded from the source in `Gen.Core.productRestartsOnEmpty` -- times the amplitude is added to
  the Hamiltonian), `Model/Operator.lean` (the symbolic algebra and its action on Fock states).

  Meaning of a polynomial: `r.poly p` for an arbitrary representation `r : CARRep K A` of the
  canonical anticommutation relations in an algebra `A` in which `c_i² = c†_i² = 0` (true for the
  Jordan-Wigner matrices `jwRep K` the library computes with, and in every algebra without
  2-torsion); coefficients in an arbitrary commutative ring with exact zero tests.

  `termDenot r tbl t` is the operator a lattice term stands for: amplitude × ordered product of
  `c†`/`c` of the indices of its factors (0 for a term without factors); `latticeDenot r L tbl` is
  the sum of these over all stored terms.  Main statement: `hamiltonian_is_sum_of_terms`.
-/
import PomerolModel.Generated.CoreFlags
import PomerolModel.Model.Index
import PomerolModel.Spec.NormalizeSem
import PomerolModel.Spec.OpTotal
import PomerolModel.Spec.JW
import PomerolModel.Spec.LatticeProps

set_option linter.unusedSectionVars false
set_option linter.unusedVariables false

namespace Pomerol.Properties.C04
open Pomerol.Model Pomerol.Model.Lat Pomerol.Model.LatSpec Pomerol.Spec

/-! ## 1. product of the factors of one term -/

section Algebra
open scoped Pomerol.Spec.Exact
variable {K A : Type} [CommRing K] [DecidableEq K] [Ring A] [Algebra K A]

/-- the operator one factor `(creation?, index)` stands for -/
def factorDenot (r : CARRep K A) (f : Bool × Nat) : A := if f.1 then r.cd f.2 else r.c f.2

/-- the preset `c_i` denotes `r.c i` -/
theorem poly_opC (r : CARRep K A) (i : Nat) : r.poly (opC (K := K) i) = r.c i := by
  simp [opC, CARRep.op]

/-- the preset `c†_i` denotes `r.cd i` -/
theorem poly_opCdag (r : CARRep K A) (i : Nat) : r.poly (opCdag (K := K) i) = r.cd i := by
  simp [opCdag, CARRep.op]

/-- the operator `t1` built for one factor denotes that factor -/
theorem poly_factor (r : CARRep K A) (f : Bool × Nat) :
    r.poly (if f.1 then opCdag f.2 else opC f.2 : Poly K) = factorDenot r f := by
  unfold factorDenot
  split
  · exact poly_opCdag r _
  · exact poly_opC r _

/-- the repaired accumulation `tmp *= t1` (after the first factor), for an arbitrary partial
product `acc` -/
theorem termProduct_acc_sem (r : CARRep K A) (hc : ∀ i, r.c i * r.c i = 0)
    (hcd : ∀ i, r.cd i * r.cd i = 0) :
    ∀ (fs : List (Bool × Nat)) (acc p : Poly K), Idx.termProduct false fs acc false = some p →
      r.poly p = r.poly acc * (fs.map (factorDenot r)).prod
  | [], acc, p, h => by
    simp only [Idx.termProduct, Option.some.injEq] at h
    subst h
    simp
  | f :: rest, acc, p, h => by
    obtain ⟨cre, i⟩ := f
    simp only [Idx.termProduct, Bool.false_eq_true, if_false] at h
    split at h
    · cases h
    · rename_i q hq
      rw [termProduct_acc_sem r hc hcd rest q p h, mul_sem r hc hcd _ _ _ hq,
        poly_factor r (cre, i), List.map_cons, List.prod_cons, mul_assoc]

/-- **The product of a term's operators is translated correctly** (accumulation as the source does
it now: `if (i==0) tmp = t1; else tmp *= t1;`): for a non-empty list of factors the resulting
polynomial denotes the ordered product of the factors' operators; for the empty list it is the
empty polynomial. -/
theorem term_product_sound (r : CARRep K A) (hc : ∀ i, r.c i * r.c i = 0)
    (hcd : ∀ i, r.cd i * r.cd i = 0) (fs : List (Bool × Nat)) (p : Poly K)
    (h : Idx.termProduct false fs [] true = some p) :
    (fs ≠ [] → r.poly p = (fs.map fun f => if f.1 then r.cd f.2 else r.c f.2).prod) ∧
    (fs = [] → p = []) := by
  cases fs with
  | nil =>
    simp only [Idx.termProduct, Option.some.injEq] at h
    exact ⟨fun hne => absurd rfl hne, fun _ => h.symm⟩
  | cons f rest =>
    refine ⟨fun _ => ?_, fun hnil => by cases hnil⟩
    obtain ⟨cre, i⟩ := f
    simp only [Idx.termProduct] at h
    rw [termProduct_acc_sem r hc hcd rest _ p h, poly_factor r (cre, i), List.map_cons,
      List.prod_cons]
    rfl

/-- The product is always defined (normal ordering never runs out of fuel). -/
theorem term_product_total (restart : Bool) (fs : List (Bool × Nat)) (acc : Poly K)
    (first : Bool) : (Idx.termProduct restart fs acc first).isSome :=
  termProduct_isSome restart fs acc first

end Algebra

section Regression
open scoped Pomerol.Spec.Exact

/-- REGRESSION (the defect that was fixed): with the accumulation
`if (tmp.isEmpty()) tmp = t1; else tmp *= t1;` the product restarts whenever the partial product has
become zero, so the vanishing product `c†₀ c†₀ c₁ c₂` was translated into `c₁ c₂`; with the repaired
accumulation it is translated into 0. -/
theorem product_restart_was_wrong :
    (Idx.termProduct (K := Int) true
        [(true, 0), (true, 0), (false, 1), (false, 2)] [] true
      = some [([⟨true, 1⟩, ⟨true, 2⟩], 1)]) ∧
    (Idx.termProduct (K := Int) false
        [(true, 0), (true, 0), (false, 1), (false, 2)] [] true
      = some []) := by
  decide

end Regression

/-- The source currently uses the repaired accumulation. -/
theorem source_does_not_restart : Pomerol.Gen.Core.productRestartsOnEmpty = false := by decide

/-! ## 2. the Hamiltonian is the sum of the terms -/

section Hamiltonian
open scoped Pomerol.Spec.Exact
variable {K A : Type} [CommRing K] [DecidableEq K] [Ring A] [Algebra K A]

/-- the factors of a lattice term: (creation?, single-particle index of (label, orbital, spin)) -/
def termFactors (tbl : List Idx.IndexInfo) (t : Term K) : List (Bool × Nat) :=
  (List.range t.order).map fun i =>
    (t.ops.getD i false,
      Idx.getIndex tbl ⟨t.labels.getD i "", t.orbs.getD i 0, t.spins.getD i 0⟩)

/-- the operator a lattice term stands for: amplitude × ordered product of its factors; a term
without factors contributes nothing -/
def termDenot (r : CARRep K A) (tbl : List Idx.IndexInfo) (t : Term K) : A :=
  match termFactors tbl t with
  | [] => 0
  | f :: fs => t.value • ((f :: fs).map (factorDenot r)).prod

/-- the operator a lattice stands for: the sum over the orders `maxOrder, …, 1` (in this order, as
the loop runs) of the sum over the stored terms of that order (in insertion order) -/
def latticeDenot (r : CARRep K A) (L : Lat.Lattice K) (tbl : List Idx.IndexInfo) : A :=
  (((List.range L.maxOrder).reverse.map (· + 1)).map fun n =>
    ((getTerms L n).map (termDenot r tbl)).sum).sum

/-- one pass of the inner loop body: `*this += Value * tmp` -/
theorem term_step_sem (r : CARRep K A) (hc : ∀ i, r.c i * r.c i = 0)
    (hcd : ∀ i, r.cd i * r.cd i = 0) (tbl : List Idx.IndexInfo) (H : Poly K) (t : Term K)
    (H' : Poly K)
    (h : (match Idx.termProduct false (termFactors tbl t) [] true with
          | none => none
          | some tmp => some (Poly.add H (Poly.smul t.value tmp))) = some H') :
    r.poly H' = r.poly H + termDenot r tbl t := by
  split at h
  · cases h
  · rename_i tmp htmp
    simp only [Option.some.injEq] at h
    subst h
    rw [add_sem, smul_sem]
    congr 1
    obtain ⟨h1, h2⟩ := term_product_sound r hc hcd _ _ htmp
    unfold termDenot
    cases hf : termFactors tbl t with
    | nil => rw [h2 hf]; simp
    | cons f fs =>
      rw [hf] at h1
      rw [h1 (by simp)]
      rfl

/-- **MAIN STATEMENT.**  The polynomial `IndexHamiltonian::prepare` builds from a lattice denotes
the sum, over all stored terms, of amplitude × product of the creation/annihilation operators of
the term's factors -- in every representation of the CAR with `c_i² = c†_i² = 0`, for every lattice,
every index table and every coefficient ring. -/
theorem hamiltonian_is_sum_of_terms (r : CARRep K A) (hc : ∀ i, r.c i * r.c i = 0)
    (hcd : ∀ i, r.cd i * r.cd i = 0) (L : Lat.Lattice K) (tbl : List Idx.IndexInfo) (H : Poly K)
    (h : Idx.indexHamiltonian L tbl = some H) : r.poly H = latticeDenot r L tbl := by
  have hflag : Pomerol.Gen.Core.productRestartsOnEmpty = false := by decide
  unfold Idx.indexHamiltonian at h
  rw [hflag] at h
  have inner : ∀ (n : Nat) (acc res : Poly K),
      (getTerms L n).foldlM (fun (H : Poly K) (t : Term K) =>
        match Idx.termProduct false (termFactors tbl t) [] true with
        | none => none
        | some tmp => some (Poly.add H (Poly.smul t.value tmp))) acc = some res →
      r.poly res = r.poly acc + ((getTerms L n).map (termDenot r tbl)).sum := by
    intro n acc res hres
    exact foldlM_sem (r.poly) _ (termDenot r tbl)
      (fun acc t res ht => term_step_sem r hc hcd tbl acc t res ht) (getTerms L n) acc res hres
  have outer := foldlM_sem (r.poly) _
    (fun n => ((getTerms L n).map (termDenot r tbl)).sum)
    (fun acc n res hn => inner n acc res hn) ((List.range L.maxOrder).reverse.map (· + 1)) [] H h
  rw [outer, poly_nil, zero_add]
  rfl

/-- The translation never fails: `IndexHamiltonian::prepare` returns a Hamiltonian for every lattice
and every index table. -/
theorem index_hamiltonian_total (L : Lat.Lattice K) (tbl : List Idx.IndexInfo) :
    (Idx.indexHamiltonian L tbl).isSome :=
  indexHamiltonian_isSome L tbl

/-- **The matrix is the matrix of the Hamiltonian.**  The vector `Operator::actRight(ket)` returns
for the Hamiltonian -- whose entries `HamiltonianPart::prepare` writes into the block matrix -- is
`H |ket⟩`, and `getMatrixElement(bra, ket)` is `⟨bra| H |ket⟩`, where `H` is the sum of the lattice
terms acting on Fock space through the Jordan-Wigner matrices. -/
theorem matrix_from_action [Nontrivial K] (L : Lat.Lattice K) (tbl : List Idx.IndexInfo) (H : Poly K)
    (h : Idx.indexHamiltonian L tbl = some H) (bra ket : Nat) :
    listVec (actPoly H ket) = latticeDenot (jwRep K) L tbl (Finsupp.single ket 1) ∧
    matrixElement H bra ket = (latticeDenot (jwRep K) L tbl (Finsupp.single ket 1)) bra := by
  rw [← hamiltonian_is_sum_of_terms (jwRep K) (jw_sq_c K) (jw_sq_cd K) L tbl H h]
  exact ⟨actPoly_sem H ket, matrixElement_sem H bra ket⟩

/-- in an association list with strictly increasing keys the lookup of a key finds its entry -/
theorem find_of_mem_sorted (l : List (Nat × K)) (hl : (l.map (·.1)).Pairwise (· < ·))
    (s : Nat) (v : K) (h : (s, v) ∈ l) : l.find? (fun x => x.1 == s) = some (s, v) := by
  induction l with
  | nil => cases h
  | cons x l ih =>
    rw [List.map_cons, List.pairwise_cons] at hl
    rw [List.find?_cons]
    rcases List.mem_cons.mp h with h | h
    · subst h; simp
    · have hlt : x.1 < s := hl.1 s (List.mem_map.mpr ⟨(s, v), h, rfl⟩)
      have hne : (x.1 == s) = false := beq_false_of_ne (Nat.ne_of_lt hlt)
      rw [hne]
      exact ih hl.2 h

/-- every entry `(bra, v)` of the vector returned by `actRight(ket)` is the matrix element
`⟨bra| p |ket⟩`, and it is not zero -/
theorem actPoly_entry (p : Poly K) (ket bra : Nat) (v : K) (h : (bra, v) ∈ actPoly p ket) :
    matrixElement p bra ket = v ∧ v ≠ 0 := by
  refine ⟨?_, actPoly_nonzero p ket _ h⟩
  unfold matrixElement
  rw [find_of_mem_sorted _ (actPoly_sorted p ket) bra v h]

/-- **Every entry `HamiltonianPart::prepare` writes into the matrix of block `b`** -- column = a state
of the block, row = the inner index of the image state `bra` -- is the Fock-space matrix element
`⟨bra| H |state⟩` of the sum of the lattice terms, and only non-zero elements are written. -/
theorem block_matrix_entries [Nontrivial K] (L : Lat.Lattice K) (tbl : List Idx.IndexInfo)
    (H : Poly K) (h : Idx.indexHamiltonian L tbl = some H) (blkOf : List Nat)
    (blocks : List (List Nat)) (b : Nat) (w : Option Nat × Nat × K)
    (hw : w ∈ Symm.blockMatrixWrites H blkOf blocks b) :
    ∃ bra, w.1 = Symm.innerState blkOf blocks bra ∧ w.2.1 < (blocks.getD b []).length ∧
      w.2.2 = (latticeDenot (jwRep K) L tbl
        (Finsupp.single ((blocks.getD b []).getD w.2.1 0) 1)) bra ∧ w.2.2 ≠ 0 := by
  unfold Symm.blockMatrixWrites at hw
  simp only [List.mem_flatMap, List.mem_range, List.mem_map] at hw
  obtain ⟨col, hcol, ⟨bra, v⟩, hmem, rfl⟩ := hw
  obtain ⟨h1, h2⟩ := actPoly_entry H _ bra v hmem
  refine ⟨bra, rfl, hcol, ?_, h2⟩
  rw [← (matrix_from_action L tbl H h bra _).2, h1]

end Hamiltonian

/-! ## 3. what the presets store -/

section Presets
open Pomerol.Spec.LatticeProps
variable {K : Type} [Add K] [Sub K] [Mul K] [Div K] [Neg K] [Zero K] [One K] [NatCast K]
  [NonzeroTest K]

/-- Every preset stores only valid terms (every factor names an existing site and an orbital and
spin in range), so every factor of every stored term has a single-particle index. -/
theorem presets_store_valid_terms :
    (∀ (L L' : Lat.Lattice K) (l : String) (U lv : K), allValid L = true →
      addCoulombS L l U lv = .ok L' → allValid L' = true) ∧
    (∀ (L L' : Lat.Lattice K) (l : String) (lv : K), allValid L = true →
      addLevel L l lv = .ok L' → allValid L' = true) ∧
    (∀ (L L' : Lat.Lattice K) (l : String) (U Up J lv : K), allValid L = true →
      addCoulombP L l U Up J lv = .ok L' → allValid L' = true) ∧
    (∀ (L L' : Lat.Lattice K) (l : String) (m : K), allValid L = true →
      addMagnetization L l m = .ok L' → allValid L' = true) ∧
    (∀ (L L' : Lat.Lattice K) (l1 l2 : String) (J : K), allValid L = true →
      addSzSz L l1 l2 J = .ok L' → allValid L' = true) ∧
    (∀ (L L' : Lat.Lattice K) (l1 l2 : String) (J : K), allValid L = true →
      addSS L l1 l2 J = .ok L' → allValid L' = true) ∧
    (∀ (cj : K → K) (L L' : Lat.Lattice K) (l1 l2 : String) (t : K) (o1 o2 s1 s2 : Nat),
      allValid L = true → addHoppingFull cj L l1 l2 t o1 o2 s1 s2 = .ok L' → allValid L' = true) ∧
    (∀ (cj : K → K) (L L' : Lat.Lattice K) (l1 l2 : String) (t : K) (o1 o2 : Nat),
      allValid L = true → addHoppingOrb cj L l1 l2 t o1 o2 = .ok L' → allValid L' = true) ∧
    (∀ (cj : K → K) (L L' : Lat.Lattice K) (l1 l2 : String) (t : K),
      allValid L = true → addHoppingAll cj L l1 l2 t = .ok L' → allValid L' = true) :=
  ⟨addCoulombS_allValid, addLevel_allValid, addCoulombP_allValid, addMagnetization_allValid,
    addSzSz_allValid, addSS_allValid, addHoppingFull_allValid, addHoppingOrb_allValid,
    addHoppingAll_allValid⟩

/-- a successful `addTerm` of a term with non-zero amplitude stores the term -/
theorem addTerm_ok_nonzero (L L' : Lat.Lattice K) (t : Term K) (h : addTerm L t = .ok L')
    (hz : NonzeroTest.nz t.value = true) : validateTerm L t = true ∧ L' = storeTerm L t := by
  unfold addTerm at h
  split at h
  · cases h
  · rename_i hv
    cases h
    exact ⟨by simpa using hv, rfl⟩

/-- **The hopping preset adds the Hermitian-conjugate term.**  Whenever `addHopping(l1,l2,t,o1,o2,
s1,s2)` returns normally and both amplitudes pass the non-zero test, the lattice has received
exactly two new terms, in this order: `t c†(l1,o1,s1) c(l2,o2,s2)` and
`conj(t) c†(l2,o2,s2) c(l1,o1,s1)`; both passed the validation. -/
theorem hopping_adds_conjugate (cj : K → K) (L L' : Lat.Lattice K) (l1 l2 : String) (t : K)
    (o1 o2 s1 s2 : Nat) (h : addHoppingFull cj L l1 l2 t o1 o2 s1 s2 = .ok L')
    (hz : NonzeroTest.nz t = true) (hzc : NonzeroTest.nz (cj t) = true) :
    L' = storeTerm (storeTerm L (tHopping l1 l2 t o1 o2 s1 s2))
          (tHopping l2 l1 (cj t) o2 o1 s2 s1) ∧
    validateTerm L (tHopping l1 l2 t o1 o2 s1 s2) = true ∧
    validateTerm L (tHopping l2 l1 (cj t) o2 o1 s2 s1) = true := by
  unfold addHoppingFull at h
  dsimp only at h
  split at h
  · cases h
  · simp only [bind, Except.bind] at h
    split at h
    · cases h
    · rename_i L1 hL1
      obtain ⟨hv1, rfl⟩ := addTerm_ok_nonzero L L1 _ hL1 hz
      obtain ⟨hv2, rfl⟩ := addTerm_ok_nonzero _ L' _ h hzc
      exact ⟨rfl, hv1, hv2⟩

end Presets

section HoppingDenot
open scoped Pomerol.Spec.Exact
variable {K A : Type} [CommRing K] [DecidableEq K] [Ring A] [Algebra K A]

/-- The operator the hopping term stands for: `t · c†_a c_b` with `a`, `b` the single-particle
indices of (l1,o1,s1) and (l2,o2,s2). -/
theorem hopping_term_denotation (r : CARRep K A) (tbl : List Idx.IndexInfo) (l1 l2 : String)
    (t : K) (o1 o2 s1 s2 : Nat) :
    termDenot r tbl (tHopping l1 l2 t o1 o2 s1 s2) =
      t • (r.cd (Idx.getIndex tbl ⟨l1, o1, s1⟩) * r.c (Idx.getIndex tbl ⟨l2, o2, s2⟩)) := by
  simp [termDenot, termFactors, tHopping, mkTerm, Term.order, factorDenot,
    Pomerol.Gen.Presets.hoppingOps, Pomerol.Gen.Presets.hoppingLabels,
    Pomerol.Gen.Presets.hoppingOrbs, Pomerol.Gen.Presets.hoppingSpins, List.range_succ]

end HoppingDenot

end Pomerol.Properties.C04
