/-
  Property C04: the Hamiltonian the library builds is the Hamiltonian of the lattice model that was
  entered, and the matrix it diagonalises is the matrix of that Hamiltonian.

  Models: `Model/Lattice.lean` (terms and presets), `Model/Index.lean` (`IndexHamiltonian::prepare`:
  for every order from the largest down to 1 and every stored term, the product of the term's
  creation/annihilation operators -- accumulated factor by factor, the accumulation rule being
  recorded from the source in `Gen.Core.productRestartsOnEmpty` -- times the amplitude is added to
  the Hamiltonian), `Model/Operator.lean` (the symbolic algebra and its action on Fock states).

  Meaning of a polynomial: `r.poly p` for an arbitrary representation `r : CARRep K A` of the
  canonical anticommutation relations in an algebra `A` in which `c_i² = c†_i² = 0` (true for the
  Jordan-Wigner matrices `jwRep K` the library computes with, and in every algebra without
  2-torsion); coefficients in an arbitrary commutative ring with exact zero tests.

  `termDenot r tbl t` is the operator a lattice term stands for: amplitude × ordered product of
  `c†`/`c` of the indices of its factors (0 for a term without factors); `latticeDenot r L tbl` is
  the sum of these over all stored terms.  Main statement: `hamiltonian_is_sum_of_terms`.
-/
import PomerolModel.Generated.CoreFlags
import PomerolModel.Model.Index
import PomerolModel.Spec.NormalizeSem
import PomerolModel.Spec.OpTotal
import PomerolModel.Spec.JW
import PomerolModel.Spec.LatticeProps
import PomerolModel.Spec.PresetSem
import Mathlib.Algebra.Field.Rat
import Mathlib.Tactic.NormNum

set_option linter.unusedSectionVars false
set_option linter.unusedVariables false

namespace Pomerol.Properties.C04
open Pomerol.Model Pomerol.Model.Lat Pomerol.Model.LatSpec Pomerol.Spec

/-! ## 1. product of the factors of one term -/

section Algebra
open scoped Pomerol.Spec.Exact
variable {K A : Type} [CommRing K] [DecidableEq K] [Ring A] [Algebra K A]

/-- the operator one factor `(creation?, index)` stands for -/
def factorDenot (r : CARRep K A) (f : Bool × Nat) : A := if f.1 then r.cd f.2 else r.c f.2

/-- the preset `c_i` denotes `r.c i` -/
theorem poly_opC (r : CARRep K A) (i : Nat) : r.poly (opC (K := K) i) = r.c i := by
  simp [opC, CARRep.op]

/-- the preset `c†_i` denotes `r.cd i` -/
theorem poly_opCdag (r : CARRep K A) (i : Nat) : r.poly (opCdag (K := K) i) = r.cd i := by
  simp [opCdag, CARRep.op]

/-- the operator `t1` built for one factor denotes that factor -/
theorem poly_factor (r : CARRep K A) (f : Bool × Nat) :
    r.poly (if f.1 then opCdag f.2 else opC f.2 : Poly K) = factorDenot r f := by
  unfold factorDenot
  split
  · exact poly_opCdag r _
  · exact poly_opC r _

/-- the repaired accumulation `tmp *= t1` (after the first factor), for an arbitrary partial
product `acc` -/
theorem termProduct_acc_sem (r : CARRep K A) (hc : ∀ i, r.c i * r.c i = 0)
    (hcd : ∀ i, r.cd i * r.cd i = 0) :
    ∀ (fs : List (Bool × Nat)) (acc p : Poly K), Idx.termProduct false fs acc false = some p →
      r.poly p = r.poly acc * (fs.map (factorDenot r)).prod
  | [], acc, p, h => by
    simp only [Idx.termProduct, Option.some.injEq] at h
    subst h
    simp
  | f :: rest, acc, p, h => by
    obtain ⟨cre, i⟩ := f
    simp only [Idx.termProduct, Bool.false_eq_true, if_false] at h
    split at h
    · cases h
    · rename_i q hq
      rw [termProduct_acc_sem r hc hcd rest q p h, mul_sem r hc hcd _ _ _ hq,
        poly_factor r (cre, i), List.map_cons, List.prod_cons, mul_assoc]

/-- **The product of a term's operators is translated correctly** (accumulation as the source does
it now: `if (i==0) tmp = t1; else tmp *= t1;`): for a non-empty list of factors the resulting
polynomial denotes the ordered product of the factors' operators; for the empty list it is the
empty polynomial. -/
theorem term_product_sound (r : CARRep K A) (hc : ∀ i, r.c i * r.c i = 0)
    (hcd : ∀ i, r.cd i * r.cd i = 0) (fs : List (Bool × Nat)) (p : Poly K)
    (h : Idx.termProduct false fs [] true = some p) :
    (fs ≠ [] → r.poly p = (fs.map fun f => if f.1 then r.cd f.2 else r.c f.2).prod) ∧
    (fs = [] → p = []) := by
  cases fs with
  | nil =>
    simp only [Idx.termProduct, Option.some.injEq] at h
    exact ⟨fun hne => absurd rfl hne, fun _ => h.symm⟩
  | cons f rest =>
    refine ⟨fun _ => ?_, fun hnil => by cases hnil⟩
    obtain ⟨cre, i⟩ := f
    simp only [Idx.termProduct] at h
    rw [termProduct_acc_sem r hc hcd rest _ p h, poly_factor r (cre, i), List.map_cons,
      List.prod_cons]
    rfl

/-- The product is always defined (normal ordering never runs out of fuel). -/
theorem term_product_total (restart : Bool) (fs : List (Bool × Nat)) (acc : Poly K)
    (first : Bool) : (Idx.termProduct restart fs acc first).isSome :=
  termProduct_isSome restart fs acc first

end Algebra

section Regression
open scoped Pomerol.Spec.Exact

/-- REGRESSION (the defect that was fixed): with the accumulation
`if (tmp.isEmpty()) tmp = t1; else tmp *= t1;` the product restarts whenever the partial product has
become zero, so the vanishing product `c†₀ c†₀ c₁ c₂` was translated into `c₁ c₂`; with the repaired
accumulation it is translated into 0. -/
theorem product_restart_was_wrong :
    (Idx.termProduct (K := Int) true
        [(true, 0), (true, 0), (false, 1), (false, 2)] [] true
      = some [([⟨true, 1⟩, ⟨true, 2⟩], 1)]) ∧
    (Idx.termProduct (K := Int) false
        [(true, 0), (true, 0), (false, 1), (false, 2)] [] true
      = some []) := by
  decide

end Regression

/-- The source currently uses the repaired accumulation. -/
theorem source_does_not_restart : Pomerol.Gen.Core.productRestartsOnEmpty = false := by decide

/-! ## 2. the Hamiltonian is the sum of the terms -/

section Hamiltonian
open scoped Pomerol.Spec.Exact
variable {K A : Type} [CommRing K] [DecidableEq K] [Ring A] [Algebra K A]

/-- the factors of a lattice term: (creation?, single-particle index of (label, orbital, spin)) -/
def termFactors (tbl : List Idx.IndexInfo) (t : Term K) : List (Bool × Nat) :=
  (List.range t.order).map fun i =>
    (t.ops.getD i false,
      Idx.getIndex tbl ⟨t.labels.getD i "", t.orbs.getD i 0, t.spins.getD i 0⟩)

/-- the operator a lattice term stands for: amplitude × ordered product of its factors; a term
without factors contributes nothing -/
def termDenot (r : CARRep K A) (tbl : List Idx.IndexInfo) (t : Term K) : A :=
  match termFactors tbl t with
  | [] => 0
  | f :: fs => t.value • ((f :: fs).map (factorDenot r)).prod

/-- the operator a lattice stands for: the sum over the orders `maxOrder, …, 1` (in this order, as
the loop runs) of the sum over the stored terms of that order (in insertion order) -/
def latticeDenot (r : CARRep K A) (L : Lat.Lattice K) (tbl : List Idx.IndexInfo) : A :=
  (((List.range L.maxOrder).reverse.map (· + 1)).map fun n =>
    ((getTerms L n).map (termDenot r tbl)).sum).sum

/-- one pass of the inner loop body: `*this += Value * tmp` -/
theorem term_step_sem (r : CARRep K A) (hc : ∀ i, r.c i * r.c i = 0)
    (hcd : ∀ i, r.cd i * r.cd i = 0) (tbl : List Idx.IndexInfo) (H : Poly K) (t : Term K)
    (H' : Poly K)
    (h : (match Idx.termProduct false (termFactors tbl t) [] true with
          | none => none
          | some tmp => some (Poly.add H (Poly.smul t.value tmp))) = some H') :
    r.poly H' = r.poly H + termDenot r tbl t := by
  split at h
  · cases h
  · rename_i tmp htmp
    simp only [Option.some.injEq] at h
    subst h
    rw [add_sem, smul_sem]
    congr 1
    obtain ⟨h1, h2⟩ := term_product_sound r hc hcd _ _ htmp
    unfold termDenot
    cases hf : termFactors tbl t with
    | nil => rw [h2 hf]; simp
    | cons f fs =>
      rw [hf] at h1
      rw [h1 (by simp)]
      rfl

/-- **MAIN STATEMENT.**  The polynomial `IndexHamiltonian::prepare` builds from a lattice denotes
the sum, over all stored terms, of amplitude × product of the creation/annihilation operators of
the term's factors -- in every representation of the CAR with `c_i² = c†_i² = 0`, for every lattice,
every index table and every coefficient ring. -/
theorem hamiltonian_is_sum_of_terms (r : CARRep K A) (hc : ∀ i, r.c i * r.c i = 0)
    (hcd : ∀ i, r.cd i * r.cd i = 0) (L : Lat.Lattice K) (tbl : List Idx.IndexInfo) (H : Poly K)
    (h : Idx.indexHamiltonian L tbl = some H) : r.poly H = latticeDenot r L tbl := by
  have hflag : Pomerol.Gen.Core.productRestartsOnEmpty = false := by decide
  unfold Idx.indexHamiltonian at h
  rw [hflag] at h
  have inner : ∀ (n : Nat) (acc res : Poly K),
      (getTerms L n).foldlM (fun (H : Poly K) (t : Term K) =>
        match Idx.termProduct false (termFactors tbl t) [] true with
        | none => none
        | some tmp => some (Poly.add H (Poly.smul t.value tmp))) acc = some res →
      r.poly res = r.poly acc + ((getTerms L n).map (termDenot r tbl)).sum := by
    intro n acc res hres
    exact foldlM_sem (r.poly) _ (termDenot r tbl)
      (fun acc t res ht => term_step_sem r hc hcd tbl acc t res ht) (getTerms L n) acc res hres
  have outer := foldlM_sem (r.poly) _
    (fun n => ((getTerms L n).map (termDenot r tbl)).sum)
    (fun acc n res hn => inner n acc res hn) ((List.range L.maxOrder).reverse.map (· + 1)) [] H h
  rw [outer, poly_nil, zero_add]
  rfl

/-- The translation never fails: `IndexHamiltonian::prepare` returns a Hamiltonian for every lattice
and every index table. -/
theorem index_hamiltonian_total (L : Lat.Lattice K) (tbl : List Idx.IndexInfo) :
    (Idx.indexHamiltonian L tbl).isSome :=
  indexHamiltonian_isSome L tbl

/-- **The matrix is the matrix of the Hamiltonian.**  The vector `Operator::actRight(ket)` returns
for the Hamiltonian -- whose entries `HamiltonianPart::prepare` writes into the block matrix -- is
`H |ket⟩`, and `getMatrixElement(bra, ket)` is `⟨bra| H |ket⟩`, where `H` is the sum of the lattice
terms acting on Fock space through the Jordan-Wigner matrices. -/
theorem matrix_from_action [Nontrivial K] (L : Lat.Lattice K) (tbl : List Idx.IndexInfo) (H : Poly K)
    (h : Idx.indexHamiltonian L tbl = some H) (bra ket : Nat) :
    listVec (actPoly H ket) = latticeDenot (jwRep K) L tbl (Finsupp.single ket 1) ∧
    matrixElement H bra ket = (latticeDenot (jwRep K) L tbl (Finsupp.single ket 1)) bra := by
  rw [← hamiltonian_is_sum_of_terms (jwRep K) (jw_sq_c K) (jw_sq_cd K) L tbl H h]
  exact ⟨actPoly_sem H ket, matrixElement_sem H bra ket⟩

/-- in an association list with strictly increasing keys the lookup of a key finds its entry -/
theorem find_of_mem_sorted (l : List (Nat × K)) (hl : (l.map (·.1)).Pairwise (· < ·))
    (s : Nat) (v : K) (h : (s, v) ∈ l) : l.find? (fun x => x.1 == s) = some (s, v) := by
  induction l with
  | nil => cases h
  | cons x l ih =>
    rw [List.map_cons, List.pairwise_cons] at hl
    rw [List.find?_cons]
    rcases List.mem_cons.mp h with h | h
    · subst h; simp
    · have hlt : x.1 < s := hl.1 s (List.mem_map.mpr ⟨(s, v), h, rfl⟩)
      have hne : (x.1 == s) = false := beq_false_of_ne (Nat.ne_of_lt hlt)
      rw [hne]
      exact ih hl.2 h

/-- every entry `(bra, v)` of the vector returned by `actRight(ket)` is the matrix element
`⟨bra| p |ket⟩`, and it is not zero -/
theorem actPoly_entry (p : Poly K) (ket bra : Nat) (v : K) (h : (bra, v) ∈ actPoly p ket) :
    matrixElement p bra ket = v ∧ v ≠ 0 := by
  refine ⟨?_, actPoly_nonzero p ket _ h⟩
  unfold matrixElement
  rw [find_of_mem_sorted _ (actPoly_sorted p ket) bra v h]

/-- **Every entry `HamiltonianPart::prepare` writes into the matrix of block `b`** -- column = a state
of the block, row = the inner index of the image state `bra` -- is the Fock-space matrix element
`⟨bra| H |state⟩` of the sum of the lattice terms, and only non-zero elements are written. -/
theorem block_matrix_entries [Nontrivial K] (L : Lat.Lattice K) (tbl : List Idx.IndexInfo)
    (H : Poly K) (h : Idx.indexHamiltonian L tbl = some H) (blkOf : List Nat)
    (blocks : List (List Nat)) (b : Nat) (w : Option Nat × Nat × K)
    (hw : w ∈ Symm.blockMatrixWrites H blkOf blocks b) :
    ∃ bra, w.1 = Symm.innerState blkOf blocks bra ∧ w.2.1 < (blocks.getD b []).length ∧
      w.2.2 = (latticeDenot (jwRep K) L tbl
        (Finsupp.single ((blocks.getD b []).getD w.2.1 0) 1)) bra ∧ w.2.2 ≠ 0 := by
  unfold Symm.blockMatrixWrites at hw
  simp only [List.mem_flatMap, List.mem_range, List.mem_map] at hw
  obtain ⟨col, hcol, ⟨bra, v⟩, hmem, rfl⟩ := hw
  obtain ⟨h1, h2⟩ := actPoly_entry H _ bra v hmem
  refine ⟨bra, rfl, hcol, ?_, h2⟩
  rw [← (matrix_from_action L tbl H h bra _).2, h1]

end Hamiltonian

/-! ## 3. what the presets store -/

section Presets
open Pomerol.Spec.LatticeProps
variable {K : Type} [Add K] [Sub K] [Mul K] [Div K] [Neg K] [Zero K] [One K] [NatCast K]
  [NonzeroTest K]

/-- Every preset stores only valid terms (every factor names an existing site and an orbital and
spin in range), so every factor of every stored term has a single-particle index. -/
theorem presets_store_valid_terms :
    (∀ (L L' : Lat.Lattice K) (l : String) (U lv : K), allValid L = true →
      addCoulombS L l U lv = .ok L' → allValid L' = true) ∧
    (∀ (L L' : Lat.Lattice K) (l : String) (lv : K), allValid L = true →
      addLevel L l lv = .ok L' → allValid L' = true) ∧
    (∀ (L L' : Lat.Lattice K) (l : String) (U Up J lv : K), allValid L = true →
      addCoulombP L l U Up J lv = .ok L' → allValid L' = true) ∧
    (∀ (L L' : Lat.Lattice K) (l : String) (m : K), allValid L = true →
      addMagnetization L l m = .ok L' → allValid L' = true) ∧
    (∀ (L L' : Lat.Lattice K) (l1 l2 : String) (J : K), allValid L = true →
      addSzSz L l1 l2 J = .ok L' → allValid L' = true) ∧
    (∀ (L L' : Lat.Lattice K) (l1 l2 : String) (J : K), allValid L = true →
      addSS L l1 l2 J = .ok L' → allValid L' = true) ∧
    (∀ (cj : K → K) (L L' : Lat.Lattice K) (l1 l2 : String) (t : K) (o1 o2 s1 s2 : Nat),
      allValid L = true → addHoppingFull cj L l1 l2 t o1 o2 s1 s2 = .ok L' → allValid L' = true) ∧
    (∀ (cj : K → K) (L L' : Lat.Lattice K) (l1 l2 : String) (t : K) (o1 o2 : Nat),
      allValid L = true → addHoppingOrb cj L l1 l2 t o1 o2 = .ok L' → allValid L' = true) ∧
    (∀ (cj : K → K) (L L' : Lat.Lattice K) (l1 l2 : String) (t : K),
      allValid L = true → addHoppingAll cj L l1 l2 t = .ok L' → allValid L' = true) :=
  ⟨addCoulombS_allValid, addLevel_allValid, addCoulombP_allValid, addMagnetization_allValid,
    addSzSz_allValid, addSS_allValid, addHoppingFull_allValid, addHoppingOrb_allValid,
    addHoppingAll_allValid⟩

/-- a successful `addTerm` of a term with non-zero amplitude stores the term -/
theorem addTerm_ok_nonzero (L L' : Lat.Lattice K) (t : Term K) (h : addTerm L t = .ok L')
    (hz : NonzeroTest.nz t.value = true) : validateTerm L t = true ∧ L' = storeTerm L t := by
  unfold addTerm at h
  split at h
  · cases h
  · rename_i hv
    cases h
    exact ⟨by simpa using hv, rfl⟩

/-- **The hopping preset adds the Hermitian-conjugate term.**  Whenever `addHopping(l1,l2,t,o1,o2,
s1,s2)` returns normally and both amplitudes pass the non-zero test, the lattice has received
exactly two new terms, in this order: `t c†(l1,o1,s1) c(l2,o2,s2)` and
`conj(t) c†(l2,o2,s2) c(l1,o1,s1)`; both passed the validation. -/
theorem hopping_adds_conjugate (cj : K → K) (L L' : Lat.Lattice K) (l1 l2 : String) (t : K)
    (o1 o2 s1 s2 : Nat) (h : addHoppingFull cj L l1 l2 t o1 o2 s1 s2 = .ok L')
    (hz : NonzeroTest.nz t = true) (hzc : NonzeroTest.nz (cj t) = true) :
    L' = storeTerm (storeTerm L (tHopping l1 l2 t o1 o2 s1 s2))
          (tHopping l2 l1 (cj t) o2 o1 s2 s1) ∧
    validateTerm L (tHopping l1 l2 t o1 o2 s1 s2) = true ∧
    validateTerm L (tHopping l2 l1 (cj t) o2 o1 s2 s1) = true := by
  unfold addHoppingFull at h
  dsimp only at h
  split at h
  · cases h
  · simp only [bind, Except.bind] at h
    split at h
    · cases h
    · rename_i L1 hL1
      obtain ⟨hv1, rfl⟩ := addTerm_ok_nonzero L L1 _ hL1 hz
      obtain ⟨hv2, rfl⟩ := addTerm_ok_nonzero _ L' _ h hzc
      exact ⟨rfl, hv1, hv2⟩

end Presets

section HoppingDenot
open scoped Pomerol.Spec.Exact
variable {K A : Type} [CommRing K] [DecidableEq K] [Ring A] [Algebra K A]

/-- The operator the hopping term stands for: `t · c†_a c_b` with `a`, `b` the single-particle
indices of (l1,o1,s1) and (l2,o2,s2). -/
theorem hopping_term_denotation (r : CARRep K A) (tbl : List Idx.IndexInfo) (l1 l2 : String)
    (t : K) (o1 o2 s1 s2 : Nat) :
    termDenot r tbl (tHopping l1 l2 t o1 o2 s1 s2) =
      t • (r.cd (Idx.getIndex tbl ⟨l1, o1, s1⟩) * r.c (Idx.getIndex tbl ⟨l2, o2, s2⟩)) := by
  simp [termDenot, termFactors, tHopping, mkTerm, Term.order, factorDenot,
    Pomerol.Gen.Presets.hoppingOps, Pomerol.Gen.Presets.hoppingLabels,
    Pomerol.Gen.Presets.hoppingOrbs, Pomerol.Gen.Presets.hoppingSpins, List.range_succ]

end HoppingDenot

/-! ## 4. the presets add the operators written in their documentation

`Spec/PresetSem.lean` proves, for every preset of `LatticePresets`, which operator the terms it
stores stand for.  `latSem r tbl L` there is `latticeDenot r L tbl` here (`latSem_eq_latticeDenot`),
so by `hamiltonian_is_sum_of_terms` the Hamiltonian polynomial of the lattice changes by exactly
that operator (`preset_changes_hamiltonian`).

Setting: coefficients in a field `K`; `NonzeroTest.nz` (the model of `std::abs(x)` used as a truth
value) is assumed to answer `false` only for `0` (`hnz`); the term storage is well formed (`LatWF`:
true of the empty lattice, preserved by `addSite`, `storeTerm` and by every preset); an arbitrary
representation `r` of the CAR with `c†_i² = 0` where `n² = n` is used; an arbitrary index table.
`idxOf tbl l α σ` is the single-particle index of (site `l`, orbital `α`, spin `σ`),
`num r x = c†_x c_x`. -/

section PresetOperators
open Pomerol.Spec.PresetSem Pomerol.Gen.Presets
open scoped Pomerol.Spec.Exact
variable {K A : Type} [Field K] [DecidableEq K] [NonzeroTest K] [Ring A] [Algebra K A]

/-- the denotation used in `Spec/PresetSem.lean` is the one of `hamiltonian_is_sum_of_terms` -/
theorem latSem_eq_latticeDenot (r : CARRep K A) (tbl : List Idx.IndexInfo) (L : Lat.Lattice K) :
    latSem r tbl L = latticeDenot r L tbl := rfl

/-- If going from `L` to `L'` adds the operator `x` to the sum of the stored terms, then the
Hamiltonian `IndexHamiltonian::prepare` builds from `L'` is the one built from `L` plus `x`. -/
theorem preset_changes_hamiltonian (r : CARRep K A) (hc : ∀ i, r.c i * r.c i = 0)
    (hcd : ∀ i, r.cd i * r.cd i = 0) (tbl : List Idx.IndexInfo) (L L' : Lat.Lattice K) (x : A)
    (h : Adds r tbl L L' x) (H H' : Poly K) (hH : Idx.indexHamiltonian L tbl = some H)
    (hH' : Idx.indexHamiltonian L' tbl = some H') : r.poly H' = r.poly H + x := by
  rw [hamiltonian_is_sum_of_terms r hc hcd L' tbl H' hH',
    hamiltonian_is_sum_of_terms r hc hcd L tbl H hH, ← latSem_eq_latticeDenot,
    ← latSem_eq_latticeDenot, h.2]

variable (r : CARRep K A) (tbl : List Idx.IndexInfo)
variable (hnz : ∀ x : K, NonzeroTest.nz x = false → x = 0)
include hnz

/-- `addLevel` on a site with `norb` orbitals and `nspin` spin components adds
`ε Σ_{α<norb} Σ_{σ<nspin} n_{ασ}`. -/
theorem level_adds_documented_operator (L L' : Lat.Lattice K) (l : String) (lv : K) (a : Site)
    (ha : findSite L l = some a) (hwf : LatWF L) (h : addLevel L l lv = .ok L') :
    LatWF L' ∧ latticeDenot r L' tbl = latticeDenot r L tbl +
      lv • ∑ α ∈ Finset.range a.norb, ∑ σ ∈ Finset.range a.nspin, num r (idxOf tbl l α σ) :=
  addLevel_sem hnz L L' l lv a ha hwf h

omit hnz in
/-- `addMagnetization` adds `mH Σ_α (n_{α↑} − n_{α↓})`.  The comment in `LatticePresets.h` announces
`Σ_α mH ½ (n_{α↑} − n_{α↓})`: THE CODE ADDS TWICE THE DOCUMENTED OPERATOR. -/
theorem magnetization_adds_twice_the_documented_field (h2 : (2 : K) ≠ 0) (L L' : Lat.Lattice K)
    (l : String) (mH : K) (a : Site) (ha : findSite L l = some a) (hwf : LatWF L)
    (h : addMagnetization L l mH = .ok L') :
    LatWF L' ∧ latticeDenot r L' tbl = latticeDenot r L tbl +
      (2 : K) • ∑ α ∈ Finset.range a.norb,
        (mH * (2 : K)⁻¹) • (num r (idxOf tbl l α spinUp) - num r (idxOf tbl l α spinDown)) := by
  obtain ⟨h1, h3⟩ := addMagnetization_sem (r := r) (tbl := tbl) L L' l mH a ha hwf h
  refine ⟨h1, ?_⟩
  rw [latSem_eq_latticeDenot, latSem_eq_latticeDenot] at h3
  rw [h3, ← Finset.smul_sum, smul_smul, mul_comm mH, ← mul_assoc, mul_inv_cancel₀ h2, one_mul]

/-- `addCoulombS` adds `U Σ_α Σ_{σ>σ'} n_{ασ} n_{ασ'} + ε Σ_{α,σ} n_{ασ}` (for two spin components:
`U Σ_α n_{α↑} n_{α↓} + ε Σ_α (n_{α↑} + n_{α↓})`, see `addCoulombS_sem_two_spins`).  The formula in
the comment of `LatticePresets.h` contains `U` twice (`U n U n`); the code adds `U n n`. -/
theorem coulombS_adds_documented_operator (L L' : Lat.Lattice K) (l : String) (U lv : K) (a : Site)
    (ha : findSite L l = some a) (hwf : LatWF L) (h : addCoulombS L l U lv = .ok L') :
    LatWF L' ∧ latticeDenot r L' tbl = latticeDenot r L tbl +
      coulombSOp r (idxOf tbl l) a.norb a.nspin U lv :=
  addCoulombS_adds hnz L L' l U lv a ha hwf h

/-- `addCoulombP` (Kanamori interaction, any number of orbitals ≥ 2 and spin components ≥ 2) adds
`U Σ_{α,σ>σ'} n_{ασ} n_{ασ'} + U' Σ_{α≠α',σ>σ'} n_{ασ} n_{α'σ'} + (U'−J)/2 Σ_{α≠α',σ} n_{ασ} n_{α'σ}
− J Σ_{α≠α',σ>σ'} (c†_{ασ} c†_{α'σ'} c_{α'σ} c_{ασ'} + c†_{ασ} c†_{ασ'} c_{α'σ} c_{α'σ'}) + ε Σ_{α,σ} n_{ασ}`
(`kanamoriOp`; sums over `α ≠ α'` over ordered pairs), and the 5-argument overload adds the same
with `U' = U − 2J`. -/
theorem kanamori_adds_documented_operator :
    (∀ (L L' : Lat.Lattice K) (l : String) (U Up J lv : K) (a : Site),
      findSite L l = some a → LatWF L → addCoulombP L l U Up J lv = .ok L' →
      LatWF L' ∧ latticeDenot r L' tbl = latticeDenot r L tbl +
        kanamoriOp r (idxOf tbl l) a.norb a.nspin U Up J lv) ∧
    (∀ (L L' : Lat.Lattice K) (l : String) (U J lv : K) (a : Site),
      findSite L l = some a → LatWF L → addCoulombP' L l U J lv = .ok L' →
      LatWF L' ∧ latticeDenot r L' tbl = latticeDenot r L tbl +
        kanamoriOp r (idxOf tbl l) a.norb a.nspin U (U - 2 * J) J lv) :=
  ⟨fun L L' l U Up J lv a ha hwf h => addCoulombP_sem hnz L L' l U Up J lv a ha hwf h,
   fun L L' l U J lv a ha hwf h => addCoulombP'_sem hnz L L' l U J lv a ha hwf h⟩

omit hnz in
/-- `addSzSz` adds `J Σ_α S^z_{1α} S^z_{2α}`, `S^z = ½ (n_↑ − n_↓)` -- also when both labels name the
same site, where the code stores `J/4 (n_↑ + n_↓ − n_↑ n_↓ − n_↓ n_↑)` (equal because `n² = n`). -/
theorem szsz_adds_documented_operator (hcd : ∀ i, r.cd i * r.cd i = 0) (L L' : Lat.Lattice K)
    (l1 l2 : String) (J : K) (a : Site) (ha : findSite L l1 = some a) (hwf : LatWF L)
    (h : addSzSz L l1 l2 J = .ok L') :
    LatWF L' ∧ latticeDenot r L' tbl = latticeDenot r L tbl +
      J • ∑ α ∈ Finset.range a.norb,
        sZ r (idxOf tbl l1 α spinUp) (idxOf tbl l1 α spinDown) *
        sZ r (idxOf tbl l2 α spinUp) (idxOf tbl l2 α spinDown) :=
  addSzSz_sem hcd L L' l1 l2 J a ha hwf h

omit hnz in
/-- `addSS` adds `J Σ_α [ S^z_{1α} S^z_{2α} + ½ (S⁺_{1α} S⁻_{2α} + S⁻_{1α} S⁺_{2α}) ]` (`ssLatOp`), with
`S⁺ = c†_↑ c_↓`, `S⁻ = c†_↓ c_↑` -- also when both labels name the same site. -/
theorem ss_adds_documented_operator (hcd : ∀ i, r.cd i * r.cd i = 0) (L L' : Lat.Lattice K)
    (l1 l2 : String) (J : K) (a : Site) (ha : findSite L l1 = some a) (hwf : LatWF L)
    (h : addSS L l1 l2 J = .ok L') :
    LatWF L' ∧ latticeDenot r L' tbl = latticeDenot r L tbl + ssLatOp r tbl l1 l2 a.norb J :=
  addSS_adds hcd L L' l1 l2 J a ha hwf h

/-- The three overloads of `addHopping` add `t c†_1 c_2 + conj(t) c†_2 c_1` (`hopOp`) for the given
orbitals and spins / summed over all spin components / summed over all orbitals and spin
components (`cj` is `conj` in the complex build and the identity in the real build). -/
theorem hopping_adds_documented_operator (cj : K → K) :
    (∀ (L L' : Lat.Lattice K) (l1 l2 : String) (t : K) (o1 o2 s1 s2 : Nat), LatWF L →
      addHoppingFull cj L l1 l2 t o1 o2 s1 s2 = .ok L' →
      LatWF L' ∧ latticeDenot r L' tbl = latticeDenot r L tbl +
        (t • (r.cd (idxOf tbl l1 o1 s1) * r.c (idxOf tbl l2 o2 s2)) +
         cj t • (r.cd (idxOf tbl l2 o2 s2) * r.c (idxOf tbl l1 o1 s1)))) ∧
    (∀ (L L' : Lat.Lattice K) (l1 l2 : String) (t : K) (o1 o2 : Nat) (a : Site),
      findSite L l1 = some a → LatWF L → addHoppingOrb cj L l1 l2 t o1 o2 = .ok L' →
      LatWF L' ∧ latticeDenot r L' tbl = latticeDenot r L tbl +
        ∑ σ ∈ Finset.range a.nspin, hopOp r (idxOf tbl l1 o1 σ) (idxOf tbl l2 o2 σ) t (cj t)) ∧
    (∀ (L L' : Lat.Lattice K) (l1 l2 : String) (t : K) (a : Site),
      findSite L l1 = some a → LatWF L → addHoppingAll cj L l1 l2 t = .ok L' →
      LatWF L' ∧ latticeDenot r L' tbl = latticeDenot r L tbl +
        ∑ σ ∈ Finset.range a.nspin, ∑ α ∈ Finset.range a.norb,
          hopOp r (idxOf tbl l1 α σ) (idxOf tbl l2 α σ) t (cj t)) :=
  ⟨fun L L' l1 l2 t o1 o2 s1 s2 hwf h => addHoppingFull_sem hnz cj L L' l1 l2 t o1 o2 s1 s2 hwf h,
   fun L L' l1 l2 t o1 o2 a ha hwf h => addHoppingOrb_adds hnz cj L L' l1 l2 t o1 o2 a ha hwf h,
   fun L L' l1 l2 t a ha hwf h => addHoppingAll_adds hnz cj L L' l1 l2 t a ha hwf h⟩

/-- **Every preset adds exactly the operator written in its documentation** (with the one deviation
for `addMagnetization`, which adds twice the documented operator). -/
theorem presets_add_documented_operators (hcd : ∀ i, r.cd i * r.cd i = 0) (cj : K → K)
    (L L' : Lat.Lattice K) (hwf : LatWF L) (a : Site) :
    (∀ l lv, findSite L l = some a → addLevel L l lv = .ok L' →
      Adds r tbl L L' (levelOp r (idxOf tbl l) a.norb a.nspin lv)) ∧
    (∀ l mH, findSite L l = some a → addMagnetization L l mH = .ok L' →
      Adds r tbl L L' (magnetOp r (idxOf tbl l) a.norb mH)) ∧
    (∀ l U lv, findSite L l = some a → addCoulombS L l U lv = .ok L' →
      Adds r tbl L L' (coulombSOp r (idxOf tbl l) a.norb a.nspin U lv)) ∧
    (∀ l U Up J lv, findSite L l = some a → addCoulombP L l U Up J lv = .ok L' →
      Adds r tbl L L' (kanamoriOp r (idxOf tbl l) a.norb a.nspin U Up J lv)) ∧
    (∀ l U J lv, findSite L l = some a → addCoulombP' L l U J lv = .ok L' →
      Adds r tbl L L' (kanamoriOp r (idxOf tbl l) a.norb a.nspin U (U - 2 * J) J lv)) ∧
    (∀ l1 l2 J, findSite L l1 = some a → addSzSz L l1 l2 J = .ok L' →
      Adds r tbl L L' (szszOp r (fun α => idxOf tbl l1 α spinUp) (fun α => idxOf tbl l1 α spinDown)
        (fun α => idxOf tbl l2 α spinUp) (fun α => idxOf tbl l2 α spinDown) a.norb J)) ∧
    (∀ l1 l2 J, findSite L l1 = some a → addSS L l1 l2 J = .ok L' →
      Adds r tbl L L' (ssLatOp r tbl l1 l2 a.norb J)) ∧
    (∀ l1 l2 t o1 o2 s1 s2, addHoppingFull cj L l1 l2 t o1 o2 s1 s2 = .ok L' →
      Adds r tbl L L' (hopOp r (idxOf tbl l1 o1 s1) (idxOf tbl l2 o2 s2) t (cj t))) ∧
    (∀ l1 l2 t o1 o2, findSite L l1 = some a → addHoppingOrb cj L l1 l2 t o1 o2 = .ok L' →
      Adds r tbl L L' (∑ σ ∈ Finset.range a.nspin,
        hopOp r (idxOf tbl l1 o1 σ) (idxOf tbl l2 o2 σ) t (cj t))) ∧
    (∀ l1 l2 t, findSite L l1 = some a → addHoppingAll cj L l1 l2 t = .ok L' →
      Adds r tbl L L' (∑ σ ∈ Finset.range a.nspin, ∑ α ∈ Finset.range a.norb,
        hopOp r (idxOf tbl l1 α σ) (idxOf tbl l2 α σ) t (cj t))) :=
  ⟨fun l lv ha h => addLevel_adds hnz L L' l lv a ha hwf h,
   fun l mH ha h => addMagnetization_adds L L' l mH a ha hwf h,
   fun l U lv ha h => addCoulombS_adds hnz L L' l U lv a ha hwf h,
   fun l U Up J lv ha h => addCoulombP_sem hnz L L' l U Up J lv a ha hwf h,
   fun l U J lv ha h => addCoulombP'_sem hnz L L' l U J lv a ha hwf h,
   fun l1 l2 J ha h => addSzSz_adds hcd L L' l1 l2 J a ha hwf h,
   fun l1 l2 J ha h => addSS_adds hcd L L' l1 l2 J a ha hwf h,
   fun l1 l2 t o1 o2 s1 s2 h => addHoppingFull_adds hnz cj L L' l1 l2 t o1 o2 s1 s2 hwf h,
   fun l1 l2 t o1 o2 ha h => addHoppingOrb_adds hnz cj L L' l1 l2 t o1 o2 a ha hwf h,
   fun l1 l2 t ha h => addHoppingAll_adds hnz cj L L' l1 l2 t a ha hwf h⟩

end PresetOperators

/-! ## 5. Hermiticity -/

section Hermiticity
open Pomerol.Spec.PresetSem Pomerol.Gen.Presets
variable {K A : Type} [Field K] [StarRing K] [Ring A] [StarRing A] [Algebra K A] [StarModule K A]

/-- **The operators the presets add are Hermitian** for real parameters (`star x = x`; for the hopping:
second amplitude = conjugate of the first), in every representation of the CAR in a `*`-algebra in
which `c†_i` is the adjoint of `c_i` (`hs`) -- e.g. operators on a Hilbert space with `star` =
adjoint.  `idx α σ`, `idx1`, `idx2`: single-particle indices of (orbital, spin) of the site(s).
The exchange between two different sites needs that the two sites have different indices. -/
theorem presets_are_hermitian (r : CARRep K A) (hs : ∀ i, star (r.c i) = r.cd i)
    (idx idx1 idx2 : Nat → Nat → Nat) (norb nspin : Nat) :
    (∀ lv : K, star lv = lv → IsSelfAdjoint (levelOp r idx norb nspin lv)) ∧
    (∀ mH : K, star mH = mH → IsSelfAdjoint (magnetOp r idx norb mH)) ∧
    (∀ U lv : K, star U = U → star lv = lv → IsSelfAdjoint (coulombSOp r idx norb nspin U lv)) ∧
    (∀ U Up J lv : K, star U = U → star Up = Up → star J = J → star lv = lv →
      IsSelfAdjoint (kanamoriOp r idx norb nspin U Up J lv)) ∧
    (∀ J : K, star J = J →
      IsSelfAdjoint (szszOp r (fun α => idx1 α spinUp) (fun α => idx1 α spinDown)
        (fun α => idx2 α spinUp) (fun α => idx2 α spinDown) norb J)) ∧
    (∀ J : K, star J = J →
      IsSelfAdjoint (ssOp r (fun α => idx α spinUp) (fun α => idx α spinDown)
        (fun α => idx α spinUp) (fun α => idx α spinDown) norb J)) ∧
    (∀ J : K, star J = J → (∀ α < norb, idx1 α spinUp ≠ idx2 α spinUp) →
      (∀ α < norb, idx1 α spinDown ≠ idx2 α spinDown) →
      IsSelfAdjoint (ssOp r (fun α => idx1 α spinUp) (fun α => idx1 α spinDown)
        (fun α => idx2 α spinUp) (fun α => idx2 α spinDown) norb J)) ∧
    (∀ (x y : Nat) (t : K), IsSelfAdjoint (hopOp r x y t (star t))) ∧
    (∀ (o1 o2 : Nat) (t : K), IsSelfAdjoint
      (∑ σ ∈ Finset.range nspin, hopOp r (idx1 o1 σ) (idx2 o2 σ) t (star t))) ∧
    (∀ t : K, IsSelfAdjoint (∑ σ ∈ Finset.range nspin, ∑ α ∈ Finset.range norb,
      hopOp r (idx1 α σ) (idx2 α σ) t (star t))) :=
  ⟨fun lv h => levelOp_selfAdjoint r hs idx norb nspin lv h,
   fun mH h => magnetOp_selfAdjoint r hs idx norb mH h,
   fun U lv hU hlv => coulombSOp_selfAdjoint r hs idx norb nspin U lv hU hlv,
   fun U Up J lv hU hUp hJ hlv => kanamoriOp_selfAdjoint r hs idx norb nspin U Up J lv hU hUp hJ hlv,
   fun J hJ => szszOp_selfAdjoint r hs _ _ _ _ norb J hJ,
   fun J hJ => ssOp_selfAdjoint_same_site r hs _ _ norb J hJ,
   fun J hJ hu hd => ssOp_selfAdjoint_two_sites r hs _ _ _ _ norb J hJ hu hd,
   fun x y t => hopOp_selfAdjoint r hs x y t,
   fun o1 o2 t => isSelfAdjoint_sum _ (fun σ _ => hopOp_selfAdjoint r hs _ _ t),
   fun t => isSelfAdjoint_sum _ (fun σ _ => isSelfAdjoint_sum _
     (fun α _ => hopOp_selfAdjoint r hs _ _ t))⟩

end Hermiticity

/-! ## 6. SU(2) invariance -/

section SU2
open Pomerol.Spec.PresetSem Pomerol.Gen.Presets Pomerol.Spec.LatticeProps
variable {K A : Type} [Field K] [DecidableEq K] [NonzeroTest K] [Ring A] [Algebra K A]
variable (r : CARRep K A) (hc : ∀ i, r.c i * r.c i = 0) (hcd : ∀ i, r.cd i * r.cd i = 0)
variable (h2 : (2 : K) ≠ 0) (tbl : List Idx.IndexInfo)

theorem findSite_mem (L : Lat.Lattice K) (l : String) (a : Site) (ha : findSite L l = some a) :
    a ∈ L.sites ∧ a.label = l := by
  unfold findSite at ha
  exact ⟨List.mem_of_find?_eq_some ha, by simpa using List.find?_some ha⟩

include hc hcd h2

/-- **The Kanamori interaction is SU(2) invariant.**  The operator `addCoulombP` adds to a site with
two spin components -- for EVERY number of orbitals; with `U' = U − 2J` (5-argument overload) and,
more generally, for every `U'` -- commutes with `S⁺ = Σ c†_{↑} c_{↓}` and `S⁻ = Σ c†_{↓} c_{↑}` summed
over any set `P` of orbitals of the lattice that contains the orbitals of the site and whose spin
components are entries of the index table (`InTable`; for ALL orbitals of ALL sites see
`kanamori_commutes_with_total_spin`). -/
theorem kanamori_su2_invariant (hnz : ∀ x : K, NonzeroTest.nz x = false → x = 0)
    (P : Finset (String × Nat)) (hP : InTable tbl P) (L L' : Lat.Lattice K) (l : String)
    (U J lv : K) (a : Site) (ha : findSite L l = some a) (hsp : a.nspin = 2)
    (hl : ∀ α < a.norb, (l, α) ∈ P) (hwf : LatWF L) (h : addCoulombP' L l U J lv = .ok L') :
    latticeDenot r L' tbl =
      latticeDenot r L tbl + kanamoriOp r (idxOf tbl l) a.norb 2 U (U - 2 * J) J lv ∧
    kanamoriOp r (idxOf tbl l) a.norb 2 U (U - 2 * J) J lv * latSplus r tbl P =
      latSplus r tbl P * kanamoriOp r (idxOf tbl l) a.norb 2 U (U - 2 * J) J lv ∧
    kanamoriOp r (idxOf tbl l) a.norb 2 U (U - 2 * J) J lv * latSminus r tbl P =
      latSminus r tbl P * kanamoriOp r (idxOf tbl l) a.norb 2 U (U - 2 * J) J lv := by
  have h1 := (addCoulombP'_sem (r := r) (tbl := tbl) hnz L L' l U J lv a ha hwf h).2
  rw [hsp] at h1
  obtain ⟨h3, h4⟩ := kanamori_su2 hc hcd h2 hP l a.norb hl U (U - 2 * J) J lv
  exact ⟨h1, sub_eq_zero.mp h3, sub_eq_zero.mp h4⟩

omit [DecidableEq K] [NonzeroTest K] in
/-- the general statement: all `U`, `U'`, `J`, `ε` (spin-rotation invariance does not need
`U' = U − 2J`) -/
theorem kanamori_su2_invariant_general (P : Finset (String × Nat)) (hP : InTable tbl P)
    (l : String) (norb : Nat) (hl : ∀ α < norb, (l, α) ∈ P) (U Up J lv : K) :
    kanamoriOp r (idxOf tbl l) norb 2 U Up J lv * latSplus r tbl P =
      latSplus r tbl P * kanamoriOp r (idxOf tbl l) norb 2 U Up J lv ∧
    kanamoriOp r (idxOf tbl l) norb 2 U Up J lv * latSminus r tbl P =
      latSminus r tbl P * kanamoriOp r (idxOf tbl l) norb 2 U Up J lv := by
  obtain ⟨h3, h4⟩ := kanamori_su2 hc hcd h2 hP l norb hl U Up J lv
  exact ⟨sub_eq_zero.mp h3, sub_eq_zero.mp h4⟩

/-- With the index table `IndexClassification` builds for the lattice (either ordering mode) and
`S^±` summed over ALL orbitals of ALL sites of the lattice (every site having at least the two spin
components `↑ = 1`, `↓ = 0`): the operator `addCoulombP(L, l, U, J, ε)` adds commutes with the total
`S⁺` and `S⁻`. -/
theorem kanamori_commutes_with_total_spin (hnz : ∀ x : K, NonzeroTest.nz x = false → x = 0)
    (L L' : Lat.Lattice K) (mode : Bool) (hd : (L.sites.map (·.label)).Nodup)
    (hs : ∀ s ∈ L.sites, 2 ≤ s.nspin) (l : String) (U J lv : K) (a : Site)
    (ha : findSite L l = some a) (hsp : a.nspin = 2) (hwf : LatWF L)
    (h : addCoulombP' L l U J lv = .ok L') :
    ∃ X : A, latticeDenot r L' (Idx.enumerate L.sites mode) =
        latticeDenot r L (Idx.enumerate L.sites mode) + X ∧
      X * latSplus r (Idx.enumerate L.sites mode) (allOrbitals L.sites) =
        latSplus r (Idx.enumerate L.sites mode) (allOrbitals L.sites) * X ∧
      X * latSminus r (Idx.enumerate L.sites mode) (allOrbitals L.sites) =
        latSminus r (Idx.enumerate L.sites mode) (allOrbitals L.sites) * X := by
  obtain ⟨hm, hlab⟩ := findSite_mem L l a ha
  refine ⟨_, kanamori_su2_invariant r hc hcd h2 _ hnz (allOrbitals L.sites)
    (allOrbitals_in_table L.sites hd mode hs) L L' l U J lv a ha hsp ?_ hwf h⟩
  intro α hα
  rw [mem_allOrbitals]
  exact ⟨a, hm, hlab, hα⟩

omit hc in
/-- **The spin-spin exchange is SU(2) invariant.**  The operator `addSS` adds between two sites -- or
on one site (`l1 = l2`) -- commutes with `S⁺` and `S⁻` summed over any set of orbitals of the lattice
that contains the orbitals of both sites. -/
theorem spin_exchange_su2_invariant (P : Finset (String × Nat)) (hP : InTable tbl P)
    (L L' : Lat.Lattice K) (l1 l2 : String) (J : K) (a : Site) (ha : findSite L l1 = some a)
    (hl1 : ∀ α < a.norb, (l1, α) ∈ P) (hl2 : ∀ α < a.norb, (l2, α) ∈ P) (hwf : LatWF L)
    (h : addSS L l1 l2 J = .ok L') :
    latticeDenot r L' tbl = latticeDenot r L tbl + ssLatOp r tbl l1 l2 a.norb J ∧
    ssLatOp r tbl l1 l2 a.norb J * latSplus r tbl P =
      latSplus r tbl P * ssLatOp r tbl l1 l2 a.norb J ∧
    ssLatOp r tbl l1 l2 a.norb J * latSminus r tbl P =
      latSminus r tbl P * ssLatOp r tbl l1 l2 a.norb J := by
  have h1 := (addSS_adds (r := r) (tbl := tbl) hcd L L' l1 l2 J a ha hwf h).2
  obtain ⟨h3, h4⟩ := ss_su2 (r := r) h2 hP l1 l2 a.norb hl1 hl2 J
  exact ⟨h1, sub_eq_zero.mp h3, sub_eq_zero.mp h4⟩

omit hc in
/-- the same with the table of the lattice and `S^±` summed over ALL orbitals of ALL sites -/
theorem spin_exchange_commutes_with_total_spin (L L' : Lat.Lattice K) (mode : Bool)
    (hd : (L.sites.map (·.label)).Nodup) (hs : ∀ s ∈ L.sites, 2 ≤ s.nspin) (l1 l2 : String)
    (J : K) (hwf : LatWF L) (h : addSS L l1 l2 J = .ok L') :
    ∃ X : A, latticeDenot r L' (Idx.enumerate L.sites mode) =
        latticeDenot r L (Idx.enumerate L.sites mode) + X ∧
      X * latSplus r (Idx.enumerate L.sites mode) (allOrbitals L.sites) =
        latSplus r (Idx.enumerate L.sites mode) (allOrbitals L.sites) * X ∧
      X * latSminus r (Idx.enumerate L.sites mode) (allOrbitals L.sites) =
        latSminus r (Idx.enumerate L.sites mode) (allOrbitals L.sites) * X := by
  obtain ⟨a, b, ha, hb, hnorb, _, _⟩ := ss_facts L l1 l2 (addSS_guard L L' l1 l2 J h)
  obtain ⟨hma, hla⟩ := findSite_mem L l1 a ha
  obtain ⟨hmb, hlb⟩ := findSite_mem L l2 b hb
  refine ⟨_, spin_exchange_su2_invariant r hcd h2 _ (allOrbitals L.sites)
    (allOrbitals_in_table L.sites hd mode hs) L L' l1 l2 J a ha ?_ ?_ hwf h⟩
  · intro α hα
    rw [mem_allOrbitals]
    exact ⟨a, hma, hla, hα⟩
  · intro α hα
    rw [mem_allOrbitals]
    exact ⟨b, hmb, hlb, hnorb ▸ hα⟩

end SU2

/-! ## 7. runs of the executable model and non-vacuity -/

section Examples
open Pomerol.Spec.PresetSem Pomerol.Gen.Presets

/-- `std::abs(x)` as a truth value, for exact rational amplitudes -/
local instance : NonzeroTest ℚ := ⟨fun x => x != 0⟩

/-- one site "A" with 2 orbitals and 2 spin components, no terms -/
private def exSite : Lat.Lattice ℚ := addSite Lat.empty "A" 2 2

/-- (operator sequence, orbitals, spins, amplitude) of the stored terms of order `n` -/
private def stored (L : Except Exc (Lat.Lattice ℚ)) (n : Nat) :
    List (List Bool × List Nat × List Nat × ℚ) :=
  match L with
  | .ok L => (getTerms L n).map fun (t : Term ℚ) => (t.ops, t.orbs, t.spins, t.value)
  | .error _ => []

/-- RUN OF THE EXECUTABLE MODEL: `addCoulombP(L, "A", U = 4, J = 1, ε = −2)` on the 2-orbital site
stores these twelve 4-operator terms, in this order (per orbital `i` and spin `z1`: the same-spin
density terms with `(U'−J)/2 = 1/2`; then for `z1 = ↑, z2 = ↓`: `U n_{i↑} n_{i↓}`, `U' n_{i↑} n_{j↓}` with
`U' = U − 2J = 2`, spin flip `−J`, pair hopping `−J`) and four level terms. -/
example :
    stored (addCoulombP' exSite "A" 4 1 (-2)) 4 =
      [([true, false, true, false], [0, 0, 1, 1], [0, 0, 0, 0], 1 / 2),
       ([true, false, true, false], [0, 0, 1, 1], [1, 1, 1, 1], 1 / 2),
       ([true, false, true, false], [0, 0, 0, 0], [1, 1, 0, 0], 4),
       ([true, false, true, false], [0, 0, 1, 1], [1, 1, 0, 0], 2),
       ([true, true, false, false], [0, 1, 1, 0], [1, 0, 1, 0], -1),
       ([true, true, false, false], [0, 0, 1, 1], [1, 0, 1, 0], -1),
       ([true, false, true, false], [1, 1, 0, 0], [0, 0, 0, 0], 1 / 2),
       ([true, false, true, false], [1, 1, 0, 0], [1, 1, 1, 1], 1 / 2),
       ([true, false, true, false], [1, 1, 1, 1], [1, 1, 0, 0], 4),
       ([true, false, true, false], [1, 1, 0, 0], [1, 1, 0, 0], 2),
       ([true, true, false, false], [1, 0, 0, 1], [1, 0, 1, 0], -1),
       ([true, true, false, false], [1, 1, 0, 0], [1, 0, 1, 0], -1)] ∧
    stored (addCoulombP' exSite "A" 4 1 (-2)) 2 =
      [([true, false], [0, 0], [0, 0], -2), ([true, false], [0, 0], [1, 1], -2),
       ([true, false], [1, 1], [0, 0], -2), ([true, false], [1, 1], [1, 1], -2)] := by
  decide +kernel

/-- NON-VACUITY: all hypotheses of `kanamori_su2_invariant` hold for this run, the Jordan-Wigner
representation and the index table of the lattice; so the Hamiltonian of the 2-orbital Kanamori
site is `kanamoriOp` and commutes with the total `S⁺` and `S⁻`. -/
example : ∃ L', addCoulombP' exSite "A" 4 1 (-2) = .ok L' ∧
    latticeDenot (jwRep ℚ) L' (Idx.enumerate exSite.sites false) =
      kanamoriOp (jwRep ℚ) (idxOf (Idx.enumerate exSite.sites false) "A") 2 2 4 (4 - 2 * 1) 1 (-2) ∧
    kanamoriOp (jwRep ℚ) (idxOf (Idx.enumerate exSite.sites false) "A") 2 2 4 (4 - 2 * 1) 1 (-2) *
        latSplus (jwRep ℚ) (Idx.enumerate exSite.sites false) (allOrbitals exSite.sites) =
      latSplus (jwRep ℚ) (Idx.enumerate exSite.sites false) (allOrbitals exSite.sites) *
        kanamoriOp (jwRep ℚ) (idxOf (Idx.enumerate exSite.sites false) "A") 2 2 4 (4 - 2 * 1) 1 (-2) := by
  have hok : ∃ L', addCoulombP' exSite "A" (4 : ℚ) 1 (-2) = .ok L' := by
    cases h : addCoulombP' exSite "A" (4 : ℚ) 1 (-2) with
    | ok L' => exact ⟨L', rfl⟩
    | error e =>
      have : (addCoulombP' exSite "A" (4 : ℚ) 1 (-2)).toBool = true := by decide +kernel
      rw [h] at this
      cases this
  obtain ⟨L', hL'⟩ := hok
  have hnz : ∀ x : ℚ, NonzeroTest.nz x = false → x = 0 := by
    intro x hx
    simpa [NonzeroTest.nz] using hx
  have hsites : exSite.sites = [⟨"A", 2, 2⟩] := by decide
  have hfind : findSite exSite "A" = some ⟨"A", 2, 2⟩ := by decide
  have hP : InTable (Idx.enumerate exSite.sites false) (allOrbitals exSite.sites) :=
    allOrbitals_in_table exSite.sites (by rw [hsites]; decide) false
      (by rw [hsites]; intro s hs; simp only [List.mem_singleton] at hs; subst hs; decide)
  have hl : ∀ α < 2, ("A", α) ∈ allOrbitals exSite.sites := by
    intro α hα
    rw [mem_allOrbitals, hsites]
    exact ⟨⟨"A", 2, 2⟩, by simp, rfl, hα⟩
  obtain ⟨h1, h3, _⟩ := kanamori_su2_invariant (jwRep ℚ) (jw_sq_c ℚ) (jw_sq_cd ℚ) (by norm_num)
    (Idx.enumerate exSite.sites false) hnz (allOrbitals exSite.sites) hP exSite L' "A" 4 1 (-2)
    ⟨"A", 2, 2⟩ hfind rfl hl (latWF_addSite _ latWF_empty _ _ _) hL'
  refine ⟨L', hL', ?_, h3⟩
  rw [h1]
  have : latticeDenot (jwRep ℚ) exSite (Idx.enumerate exSite.sites false) = 0 := by
    simp [latticeDenot, exSite, addSite, Lat.empty]
  rw [this, zero_add]

/-- two sites "A", "B" with one orbital and 2 spin components -/
private def exTwo : Lat.Lattice ℚ := addSite (addSite Lat.empty "A" 1 2) "B" 1 2

private def storedL (L : Except Exc (Lat.Lattice ℚ)) (n : Nat) :
    List (List Bool × List String × List Nat × ℚ) :=
  match L with
  | .ok L => (getTerms L n).map fun (t : Term ℚ) => (t.ops, t.labels, t.spins, t.value)
  | .error _ => []

/-- RUN OF THE EXECUTABLE MODEL: `addSS(L, "A", "B", J = 4)` stores `∓J/4 n n` (four terms) and
`J/2 S⁺S⁻`, `J/2 S⁻S⁺`; with both labels equal to "A" the same-spin products are replaced by the two
level terms `J/4 n_↑`, `J/4 n_↓` (the code's `n² = n`). -/
example :
    storedL (addSS exTwo "A" "B" 4) 4 =
      [([true, false, true, false], ["A", "A", "B", "B"], [1, 1, 0, 0], -1),
       ([true, false, true, false], ["A", "A", "B", "B"], [0, 0, 1, 1], -1),
       ([true, false, true, false], ["A", "A", "B", "B"], [1, 1, 1, 1], 1),
       ([true, false, true, false], ["A", "A", "B", "B"], [0, 0, 0, 0], 1),
       ([true, false, true, false], ["A", "A", "B", "B"], [1, 0, 0, 1], 2),
       ([true, false, true, false], ["A", "A", "B", "B"], [0, 1, 1, 0], 2)] := by
  decide +kernel

example :
    storedL (addSS exTwo "A" "A" 4) 4 =
      [([true, false, true, false], ["A", "A", "A", "A"], [1, 1, 0, 0], -1),
       ([true, false, true, false], ["A", "A", "A", "A"], [0, 0, 1, 1], -1),
       ([true, false, true, false], ["A", "A", "A", "A"], [1, 0, 0, 1], 2),
       ([true, false, true, false], ["A", "A", "A", "A"], [0, 1, 1, 0], 2)] ∧
    storedL (addSS exTwo "A" "A" 4) 2 =
      [([true, false], ["A", "A"], [1, 1], 1), ([true, false], ["A", "A"], [0, 0], 1)] := by
  decide +kernel

/-- NON-VACUITY of `presets_are_hermitian`: the universal `*`-algebra of the CAR over `ℚ`
(`Spec/PresetSem.lean`: `CARAlg`, shown to be non-zero by mapping it onto the Jordan-Wigner
operators) carries a representation with `star c_i = c†_i`; in it every preset operator with
rational parameters is Hermitian. -/
example : (1 : CARAlg) ≠ 0 ∧ ∀ (idx : Nat → Nat → Nat) (norb nspin : Nat) (U J lv : ℚ),
    IsSelfAdjoint (kanamoriOp carStarRep idx norb nspin U (U - 2 * J) J lv) ∧
    IsSelfAdjoint (ssOp carStarRep (fun α => idx α spinUp) (fun α => idx α spinDown)
      (fun α => idx α spinUp) (fun α => idx α spinDown) norb J) :=
  ⟨carAlg_nontrivial, fun idx norb nspin U J lv =>
    ⟨(presets_are_hermitian carStarRep carStarRep_star idx idx idx norb nspin).2.2.2.1
        U (U - 2 * J) J lv rfl rfl rfl rfl,
     (presets_are_hermitian carStarRep carStarRep_star idx idx idx norb nspin).2.2.2.2.2.1 J rfl⟩⟩

/-- NON-VACUITY of `spin_exchange_commutes_with_total_spin`: it applies to the runs `addSS(L,"A","B",4)`
and `addSS(L,"A","A",4)` (same site) on the two-site lattice, with the Jordan-Wigner representation. -/
example (l2 : String) (hl2 : l2 = "B" ∨ l2 = "A") : ∃ (L' : Lat.Lattice ℚ)
    (X : Module.End ℚ (ℕ →₀ ℚ)), addSS exTwo "A" l2 4 = .ok L' ∧
    latticeDenot (jwRep ℚ) L' (Idx.enumerate exTwo.sites false) =
      latticeDenot (jwRep ℚ) exTwo (Idx.enumerate exTwo.sites false) + X ∧
    X * latSplus (jwRep ℚ) (Idx.enumerate exTwo.sites false) (allOrbitals exTwo.sites) =
      latSplus (jwRep ℚ) (Idx.enumerate exTwo.sites false) (allOrbitals exTwo.sites) * X ∧
    X * latSminus (jwRep ℚ) (Idx.enumerate exTwo.sites false) (allOrbitals exTwo.sites) =
      latSminus (jwRep ℚ) (Idx.enumerate exTwo.sites false) (allOrbitals exTwo.sites) * X := by
  have hok : ∃ L', addSS exTwo "A" l2 (4 : ℚ) = .ok L' := by
    have key : ∀ (x : Except Exc (Lat.Lattice ℚ)), x.toBool = true → ∃ L', x = .ok L' := by
      intro x hx
      cases x with
      | ok L' => exact ⟨L', rfl⟩
      | error e => cases hx
    rcases hl2 with rfl | rfl
    · exact key _ (by decide +kernel)
    · exact key _ (by decide +kernel)
  obtain ⟨L', hL'⟩ := hok
  have hsites : exTwo.sites = [⟨"A", 1, 2⟩, ⟨"B", 1, 2⟩] := by decide
  obtain ⟨X, h1, h2, h3⟩ := spin_exchange_commutes_with_total_spin (jwRep ℚ) (jw_sq_cd ℚ)
    (by norm_num) exTwo L' false (by rw [hsites]; decide)
    (by
      rw [hsites]
      intro s hs
      simp only [List.mem_cons, List.not_mem_nil, or_false] at hs
      rcases hs with rfl | rfl <;> decide)
    "A" l2 4 (latWF_addSite _ (latWF_addSite _ latWF_empty _ _ _) _ _ _) hL'
  exact ⟨L', X, hL', h1, h2, h3⟩

end Examples

end Pomerol.Properties.C04
