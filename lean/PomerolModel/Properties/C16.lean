/-
  Property C16: the job dispatcher runs every job exactly once and always terminates.

  Model: `Model/Dispatcher.lean` (transition system of mpi_skel::run / MPIMaster / MPIWorker; a step
  = one rank performs its next `request::test()` with a given outcome).  The theorems quantify over
  every number of ranks `P ≥ 1`, every job list without repetitions (including the empty one and
  lists shorter than the number of workers), and every schedule -- every interleaving of the ranks
  and every delay of message visibility.  The inductive invariant and its proof are in
  `Spec/DispatcherInv.lean`.  Several consecutive rounds on one communicator are independent
  because a finished round leaves no message behind (`no_leaked_messages`).
-/
import PomerolModel.Spec.DispatcherInv

namespace Pomerol.Properties.C16
open Pomerol.Model.Disp Pomerol.Spec.Disp

/-- In every reachable state no job has been executed twice, and only jobs of this round, on ranks
of this communicator, have been executed. -/
theorem every_job_at_most_once (P : Nat) (jobs : List Nat) (hP : 0 < P) (hnd : jobs.Nodup) (s : Sys)
    (h : Reachable P jobs s) : (s.log.map (·.1)).Nodup ∧ ∀ x ∈ s.log, x.1 ∈ jobs ∧ x.2 < P :=
  exec_at_most_once P jobs hP hnd s h

/-- Once every rank has left the dispatch loop each job of the round has been executed exactly once. -/
theorem every_job_exactly_once_at_exit (P : Nat) (jobs : List Nat) (hP : 0 < P) (hnd : jobs.Nodup)
    (s : Sys) (h : Reachable P jobs s) (hf : allExited s = true) :
    ∀ j ∈ jobs, (s.log.filter (·.1 = j)).length = 1 := by
  intro j hj
  have h1 := (exec_at_most_once P jobs hP hnd s h).1
  have h2 := (final_complete P jobs hP hnd s h hf).1 j hj
  -- `j` occurs in the (duplicate-free) list of executed jobs, hence exactly once
  have hcount : (s.log.map (·.1)).count j = 1 := by
    rw [List.Nodup.count h1, if_pos h2]
  have : (s.log.filter (·.1 = j)).length = (s.log.map (·.1)).count j := by
    rw [List.count_eq_countP, List.countP_map, List.countP_eq_length_filter]
    congr 1
  rw [this, hcount]

/-- The job-to-rank map (the same object is broadcast to all ranks) names, for every executed job,
the rank that actually ran it; at exit it is defined exactly on the jobs of the round. -/
theorem map_names_executing_rank (P : Nat) (jobs : List Nat) (hP : 0 < P) (hnd : jobs.Nodup) (s : Sys)
    (h : Reachable P jobs s) :
    (∀ x ∈ s.log, dmapGet s.m.dmap x.1 = some x.2) ∧
    (allExited s = true → ∀ j, (dmapGet s.m.dmap j).isSome ↔ j ∈ jobs) :=
  ⟨dmap_truth P jobs hP hnd s h, fun hf => (final_complete P jobs hP hnd s h hf).2.1⟩

/-- A finished round leaves no message in any channel and no active receive: consecutive rounds on
the same communicator do not interfere. -/
theorem no_leaked_messages (P : Nat) (jobs : List Nat) (hP : 0 < P) (hnd : jobs.Nodup) (s : Sys)
    (h : Reachable P jobs s) (hf : allExited s = true) :
    (∀ d ∈ s.down, d = []) ∧ (∀ u ∈ s.up, u = 0) ∧ (∀ w ∈ s.m.wait, w = false) :=
  (final_complete P jobs hP hnd s h hf).2.2

/-- No deadlock: from every reachable state the round can be completed (every rank leaves the loop). -/
theorem no_deadlock (P : Nat) (jobs : List Nat) (hP : 0 < P) (hnd : jobs.Nodup) (s : Sys)
    (h : Reachable P jobs s) : ∃ sched s', run s sched = some s' ∧ allExited s' = true :=
  can_finish P jobs hP hnd s h

/-- Termination measure: no step increases it and every reception of a message strictly decreases
it, so every execution contains only finitely many receptions; together with `no_deadlock` and the
MPI progress assumption (a sent message is eventually seen) every rank leaves the loop. -/
theorem finitely_many_receptions (P : Nat) (jobs : List Nat) (hP : 0 < P) (hnd : jobs.Nodup)
    (s s' : Sys) (r : Nat) (b : Bool) (h : Reachable P jobs s) (hs : step s r b = some s') :
    measure s' ≤ measure s ∧ (b = true → measure s' < measure s) := by
  refine ⟨step_measure_le P jobs hP hnd s s' r b h hs, ?_⟩
  intro hb
  subst hb
  exact sees_measure_lt P jobs hP hnd s s' r h hs

/-- Non-vacuity: a concrete round (2 ranks, 3 jobs) under a concrete schedule with delays reaches a
final state in which the hypotheses of the theorems above hold. -/
example : (run (init 2 [0, 1, 2]) [(0, true), (1, false), (0, true), (1, true), (0, true), (1, true),
    (0, false), (1, false), (0, false), (1, false), (0, true), (1, false), (0, true), (1, true),
    (0, false), (0, false)]).map
      (fun s => (allExited s, s.log)) = some (true, [(0, 0), (1, 1), (2, 1)]) := by
  decide

end Pomerol.Properties.C16
