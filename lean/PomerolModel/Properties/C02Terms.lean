/-
  Property C02 (term containers of the two-particle Green's function).

  `TwoParticleGFPart` keeps the non-resonant and the resonant terms of one world stripe in two
  `TermList`s (`include/pomerol/TermList.h`, model `Model/TermList.lean`: find / erase / merge with
  `operator+=` / negligibility test with divisor `size + 1`).  The comparison of both containers is
  `Gen.Chi4.termLess`, EXTRACTED from `NonResonantTerm::Compare` / `ResonantTerm::Compare`; the key of
  a term is `(flag, P₁, P₂, P₃)`.  `operator+=` adds the coefficient(s) and keeps the key of the term
  that was there first; a resonant term carries two coefficients (`ResCoeff`, `NonResCoeff`), both
  are added (modelled as the pair, `Prod` addition).  The negligibility tests
  `abs(Coeff) < Tolerance / ToleranceDivisor` and
  `abs(ResCoeff) < Tolerance / ToleranceDivisor && abs(NonResCoeff) < Tolerance / ToleranceDivisor`
  are EXTRACTED as well (`Gen.Chi4.termNegligibleNonRes`, `Gen.Chi4.termNegligibleRes`, and their tolerances
  `tolNegligibleNonRes`, `tolNegligibleRes`); the behaviour of the real containers on merge-heavy inputs is
  compared with the definition by the pipeline cases of C02 / C12 (free clusters, exact cancellations).

  What is proved, for EVERY sequence of terms handed to `add_term`, every positive comparison
  tolerance and every negligibility tolerance:
    * the extracted comparison is irreflexive (what `TermList` needs so that the found term is the
      erased one);
    * the stored terms stay pairwise inequivalent;
    * coefficients are conserved: kept + dropped = added (component-wise for resonant terms);
    * a term leaves the container only because the negligibility test fired on the merged coefficient(s),
      i.e. its modulus is below `Tolerance / n` for some container size `n ≥ 1`.
  NOT claimed: that merging terms whose poles differ by less than the tolerance leaves the VALUE
  unchanged -- it does not (finding F16; `Properties/C02.lean`, `term_order_not_strict_weak`).
-/
import PomerolModel.Properties.C01
import PomerolModel.Properties.C02

namespace Pomerol.Properties.C02Terms
open Pomerol Pomerol.Spec Pomerol.Model.TermList Pomerol.Properties.C01

/-- key of a two-particle term: `(isz4 | isz1z2, Poles[0], Poles[1], Poles[2])` -/
abbrev Key := Bool × ℝ × ℝ × ℝ

/-- `Compare::operator()` of both term types on keys (the extracted `Gen.Chi4.termLess`) -/
noncomputable def keyLess (tol : ℝ) (a b : Key) : Bool :=
  Gen.Chi4.termLess a.1 a.2.1 a.2.2.1 a.2.2.2 b.1 b.2.1 b.2.2.1 b.2.2.2 tol

/-- `NonResonantTerm::IsNegligible` (EXTRACTED: `Gen.Chi4.termNegligibleNonRes`) at container size `n` -/
noncomputable def neglNonRes (ntol : ℝ) (c : ℂ) (n : ℕ) : Bool :=
  Gen.Chi4.termNegligibleNonRes c ntol (n : ℝ)

/-- `ResonantTerm::IsNegligible` (EXTRACTED: `Gen.Chi4.termNegligibleRes`) on `(ResCoeff, NonResCoeff)` -/
noncomputable def neglRes (ntol : ℝ) (c : ℂ × ℂ) (n : ℕ) : Bool :=
  Gen.Chi4.termNegligibleRes c.1 c.2 ntol (n : ℝ)

/-- THE EXTRACTED COMPARISON IS IRREFLEXIVE for every positive tolerance: no term is less than
itself (the two `real_eq` tests succeed at equal poles and `q₂ − p₂ ≥ Tolerance` fails). -/
theorem keyLess_irrefl (tol : ℝ) (htol : 0 < tol) (a : Key) : keyLess tol a a = false := by
  obtain ⟨f, p0, p1, p2⟩ := a
  have h0 : Pomerol.absR (0 : ℝ) < tol := by simpa [Pomerol.absR] using htol
  simp [keyLess, Gen.Chi4.termLess, h0, htol]

/-- ... and also for a tolerance `≤ 0` (then `real_eq` fails even at equal poles and the strict
comparison `p₀ < p₀` decides): irreflexivity does not depend on the tolerance at all. -/
theorem keyLess_irrefl_nonpos (tol : ℝ) (htol : tol ≤ 0) (a : Key) : keyLess tol a a = false := by
  obtain ⟨f, p0, p1, p2⟩ := a
  have h0 : ¬ Pomerol.absR (0 : ℝ) < tol := by simpa [Pomerol.absR] using htol
  simp [keyLess, Gen.Chi4.termLess, h0]

section Budget
variable {K : Type} [AddCommMonoid K]

/-- GENERAL FORM: for any coefficient type, any negligibility test and any positive comparison
tolerance, adding the terms `ts` one by one to an empty two-particle term container keeps the stored
terms pairwise inequivalent, conserves the coefficients (kept + dropped = added) and drops a term
only when the negligibility test fired on it. -/
theorem container_budget (tol : ℝ) (htol : 0 < tol) (negl : K → ℕ → Bool) (ts : List (Term K Key)) :
    Inv (keyLess tol) (addAll (keyLess tol) negl [] [] ts).1 ∧
    ((addAll (keyLess tol) negl [] [] ts).1.map (·.res)).sum
        + ((addAll (keyLess tol) negl [] [] ts).2.map (·.res)).sum = (ts.map (·.res)).sum ∧
    ∀ x ∈ (addAll (keyLess tol) negl [] [] ts).2, ∃ n, 0 < n ∧ negl x.res n = true := by
  obtain ⟨h1, h2, h3⟩ := addAll_spec negl (keyLess_irrefl tol htol) (fun t : Term K Key => t.res)
    (fun _ _ _ => rfl) ts [] [] List.Pairwise.nil
  refine ⟨h1, by simpa using h2, fun x hx => ?_⟩
  rcases h3 x hx with h | h
  · simp at h
  · exact h

end Budget

/-- NON-RESONANT TERMS: coefficients are conserved and every dropped term has
`|Coeff| < Tolerance / n` for some container size `n ≥ 1`. -/
theorem nonresonant_terms_budget (tol ntol : ℝ) (htol : 0 < tol) (ts : List (Term ℂ Key)) :
    let r := addAll (keyLess tol) (neglNonRes ntol) [] [] ts
    Inv (keyLess tol) r.1 ∧
    (r.1.map (·.res)).sum + (r.2.map (·.res)).sum = (ts.map (·.res)).sum ∧
    ∀ x ∈ r.2, ∃ n : ℕ, 0 < n ∧ ‖x.res‖ < ntol / (n : ℝ) := by
  intro r
  obtain ⟨h1, h2, h3⟩ := container_budget tol htol (neglNonRes ntol) ts
  refine ⟨h1, h2, fun x hx => ?_⟩
  obtain ⟨n, hn, h⟩ := h3 x hx
  exact ⟨n, hn, by simpa [neglNonRes, Gen.Chi4.termNegligibleNonRes, Bridge.abs_eq] using h⟩

/-- RESONANT TERMS: both coefficients are conserved and every dropped term has BOTH
`|ResCoeff| < Tolerance / n` and `|NonResCoeff| < Tolerance / n` for some `n ≥ 1` (a term with one
small and one large coefficient is never dropped). -/
theorem resonant_terms_budget (tol ntol : ℝ) (htol : 0 < tol) (ts : List (Term (ℂ × ℂ) Key)) :
    let r := addAll (keyLess tol) (neglRes ntol) [] [] ts
    Inv (keyLess tol) r.1 ∧
    (r.1.map (·.res.1)).sum + (r.2.map (·.res.1)).sum = (ts.map (·.res.1)).sum ∧
    (r.1.map (·.res.2)).sum + (r.2.map (·.res.2)).sum = (ts.map (·.res.2)).sum ∧
    ∀ x ∈ r.2, ∃ n : ℕ, 0 < n ∧ ‖x.res.1‖ < ntol / (n : ℝ) ∧ ‖x.res.2‖ < ntol / (n : ℝ) := by
  intro r
  have hirr := keyLess_irrefl tol htol
  obtain ⟨h1, h2, h3⟩ := addAll_spec (neglRes ntol) hirr (fun t : Term (ℂ × ℂ) Key => t.res.1)
    (fun _ _ _ => rfl) ts [] [] List.Pairwise.nil
  obtain ⟨-, g2, -⟩ := addAll_spec (neglRes ntol) hirr (fun t : Term (ℂ × ℂ) Key => t.res.2)
    (fun _ _ _ => rfl) ts [] [] List.Pairwise.nil
  refine ⟨h1, by simpa using h2, by simpa using g2, fun x hx => ?_⟩
  rcases h3 x hx with h | h
  · simp at h
  · obtain ⟨n, hn, h⟩ := h
    refine ⟨n, hn, ?_⟩
    simpa [neglRes, Gen.Chi4.termNegligibleRes, Bridge.abs_eq] using h

/-- IN THE EXACT IDEALISATION (tolerance-free comparison: only terms with EQUAL keys are
equivalent) the value of the non-resonant container is conserved as well, at every frequency
triple: kept + dropped = added, for ANY evaluation function of (coefficient, key) that is additive
in the coefficient. -/
theorem exact_merge_preserves_value {K V : Type} [Add K] [AddCommMonoid V] (less : Key → Key → Bool)
    (hirr : ∀ p, less p p = false)
    (hexact : ∀ p q, (!less p q && !less q p) = true → p = q)
    (negl : K → ℕ → Bool) (ev : K → Key → V) (hev : ∀ a b k, ev (a + b) k = ev a k + ev b k)
    (ts : List (Term K Key)) :
    ((addAll less negl [] [] ts).1.map fun t => ev t.res t.pole).sum
      + ((addAll less negl [] [] ts).2.map fun t => ev t.res t.pole).sum
      = (ts.map fun t => ev t.res t.pole).sum := by
  obtain ⟨-, h2, -⟩ := addAll_spec negl hirr (fun t : Term K Key => ev t.res t.pole)
    (fun e t h => by
      have hp : e.pole = t.pole := hexact _ _ h
      simp only [hev, hp]) ts [] [] List.Pairwise.nil
  simpa using h2

/-- Non-vacuity, exact arithmetic over `ℤ` with the extracted comparison shape (keys as integers,
tolerance-free): two terms with the same key and opposite coefficients are merged and the merged zero
term is dropped; the term with the other flag is kept. -/
example :
    let less : (Bool × ℤ × ℤ × ℤ) → (Bool × ℤ × ℤ × ℤ) → Bool := fun a b =>
      if a.1 = b.1 then decide (a.2.2.2 < b.2.2.2) else (!a.1 && b.1)
    let r := addAll (K := ℤ) less (fun c _ => c == 0) [] []
      [⟨3, (false, 1, 2, 3)⟩, ⟨5, (true, 1, 2, 3)⟩, ⟨-3, (false, 1, 2, 3)⟩]
    (r.1.map fun t => (t.res, t.pole)) = [(5, (true, 1, 2, 3))] ∧
    (r.2.map fun t => (t.res, t.pole)) = [(0, (false, 1, 2, 3))] := by
  decide

end Pomerol.Properties.C02Terms
