/-
  Property C11: analytic properties of the single-particle Green's function as the library
  evaluates it, in the frequency and in the imaginary-time domain.

  Setting: `d : EigenData ι` is the eigen-system (β > 0, eigenvalues `d.E`, Gibbs weights `d.w`,
  density matrix `d.ρ`); `C`, `CX` are the matrices of the two operators (`c_i` and `c†_j`) in the
  eigenbasis.  `d.lehmannG C CX z = Σ_{n,m} R_nm / (z − P_nm)` with residues
  `R_nm = d.res C CX n m = C_nm CX_mn (w_n + w_m)` and poles `P_nm = d.pole n m = E_m − E_n` is the
  value the library's formulas give (`Spec/Bridge.lean: gf_sum`), `d.Gtau C CX τ` is the sum of the
  library's imaginary-time terms, `d.corr C CX τ = Tr(ρ e^{τH} C e^{−τH} CX)` is the correlator
  defined with genuine matrix exponentials.

  All statements are re-exports / direct combinations of theorems of `Spec/GFProps.lean`,
  `Spec/Lehmann.lean`, `Spec/Bridge.lean` (fully proved).
-/
import PomerolModel.Spec.Bridge

namespace Pomerol.Properties.C11
open Matrix Complex Filter Topology Pomerol Pomerol.Spec

variable {ι : Type} [Fintype ι] [DecidableEq ι]

/-- (a) Conjugation symmetry `conj G_ij(z) = G_ji(conj z)`: for the operators `C = c_i`, `D = c_j`
(so `G_ij` is built from `C` and `D†`, `G_ji` from `D` and `C†`), every complex `z`, every
spectrum. -/
theorem conj_symmetry (d : EigenData ι) (C D : Matrix ι ι ℂ) (z : ℂ) :
    (starRingEnd ℂ) (d.lehmannG C Dᴴ z) = d.lehmannG D Cᴴ ((starRingEnd ℂ) z) :=
  conj_symm d C D z

/-- (b) Sum rule: the residues of all Lehmann terms add up to `Tr(ρ {c_i, c†_j})` (for ANY two
matrices); hence, if the two matrices satisfy the canonical anticommutation relation
`C·CX + CX·C = δ·1` (`δ = δ_ij`), the residues add up to `δ`. -/
theorem residue_sum_rule [Nonempty ι] (d : EigenData ι) (C CX : Matrix ι ι ℂ) :
    (∑ n, ∑ m, d.res C CX n m = (d.ρ * (C * CX + CX * C)).trace) ∧
    ∀ δ : ℂ, C * CX + CX * C = δ • (1 : Matrix ι ι ℂ) → ∑ n, ∑ m, d.res C CX n m = δ :=
  ⟨residue_sum_trace d C CX, fun δ hcar => residue_sum_car d C CX δ hcar⟩

/-- (c) High-frequency tail: `z · G(z) → Σ residues` as `|z| → ∞` (in any direction of the complex
plane); with (b) this is the `δ_ij / z` tail. -/
theorem high_frequency_tail (d : EigenData ι) (C CX : Matrix ι ι ℂ) :
    Tendsto (fun z : ℂ => z * d.lehmannG C CX z) (Bornology.cobounded ℂ)
      (𝓝 (∑ n, ∑ m, d.res C CX n m)) :=
  tail d C CX

/-- (d) The diagonal Green's function has a strictly negative imaginary part on the positive
imaginary axis: `Im G_ii(iω) < 0` for every real `ω > 0` (Matsubara or not), given
`{c_i, c†_i} = 1`. -/
theorem imaginary_part_negative [Nonempty ι] (d : EigenData ι) (C : Matrix ι ι ℂ)
    (hcar : C * Cᴴ + Cᴴ * C = 1) (ω : ℝ) (hω : 0 < ω) :
    (d.lehmannG C Cᴴ (I * (ω : ℂ))).im < 0 :=
  im_negative d C hcar ω hω

/-- (e) The imaginary-time value the library computes is minus the correlator,
`G(τ) = −⟨c_i(τ) c†_j(0)⟩ = −Tr(ρ e^{τH} c_i e^{−τH} c†_j)`, for every real `τ`. -/
theorem tau_is_minus_correlator (d : EigenData ι) (C CX : Matrix ι ι ℂ) (τ : ℝ) :
    d.Gtau C CX τ = -d.corr C CX τ :=
  Gtau_eq_corr d C CX τ

/-- (f) The diagonal imaginary-time Green's function is real and non-positive:
`Im G_ii(τ) = 0` and `Re G_ii(τ) ≤ 0` for every `τ`. -/
theorem tau_nonpositive (d : EigenData ι) (C : Matrix ι ι ℂ) (τ : ℝ) :
    (d.Gtau C Cᴴ τ).im = 0 ∧ (d.Gtau C Cᴴ τ).re ≤ 0 :=
  Gtau_nonpos d C τ

/-- (g) Jump / antiperiodicity: `G_ij(0⁺) + G_ij(β⁻) = −δ_ij`, given the canonical
anticommutation relation `C·CX + CX·C = δ·1`.  (Without the relation the right-hand side is minus
the sum of the residues, `Spec.Gtau_jump`.) -/
theorem tau_jump [Nonempty ι] (d : EigenData ι) (C CX : Matrix ι ι ℂ) (δ : ℂ)
    (hcar : C * CX + CX * C = δ • (1 : Matrix ι ι ℂ)) :
    d.Gtau C CX 0 + d.Gtau C CX d.β = -δ := by
  rw [Gtau_jump, residue_sum_car d C CX δ hcar]

/-- (h) The value at `τ = β` is minus the density-matrix element:
`G_ij(β⁻) = −⟨c†_j c_i⟩ = −Tr(ρ · CX · C)`. -/
theorem tau_beta_is_density (d : EigenData ι) (C CX : Matrix ι ι ℂ) :
    d.Gtau C CX d.β = -(d.ρ * CX * C).trace :=
  Gtau_beta d C CX

/-- (i) Consistency of the two domains: the Fourier transform `∫₀^β G(τ) e^{iω_k τ} dτ` of the
imaginary-time values is the frequency value `G(iω_k)` at every fermionic Matsubara frequency
(every `k : ℤ`). -/
theorem tau_frequency_duality (d : EigenData ι) (C CX : Matrix ι ι ℂ) (k : ℤ) :
    ∫ τ in (0:ℝ)..d.β, d.Gtau C CX τ * Complex.exp (I * (d.ω k : ℂ) * (τ:ℂ))
      = d.lehmannG C CX (I * (d.ω k : ℂ)) :=
  Gtau_transform d C CX k

omit [DecidableEq ι] in
/-- (j) The formula EXTRACTED FROM THE SOURCE for the imaginary-time value of one term -- two
branches, selected by the sign of the pole to avoid overflow of the exponentials -- equals the
single formula `tauTerm β R P τ = −R e^{−τP} / (1 + e^{−βP})` in both branches, for all residues,
poles, `τ`, `β`; consequently the library's terms (extracted residue and pole formulas) summed over
all pairs of eigenstates give `d.Gtau`, the function that (e)–(i) are about. -/
theorem tau_branches_agree :
    (∀ (res : ℂ) (P τ β : ℝ), Gen.GF.termTau res P τ β = tauTerm β res P τ) ∧
    ∀ (d : EigenData ι) (C CX : Matrix ι ι ℂ) (τ : ℝ),
      (∑ n, ∑ m, Gen.GF.termTau (Gen.GF.residue (C n m) (CX m n) (d.w n) (d.w m))
          (Gen.GF.pole (d.E m) (d.E n)) τ d.β) = d.Gtau C CX τ := by
  refine ⟨Bridge.gf_tau, fun d C CX τ => ?_⟩
  unfold EigenData.Gtau
  refine Finset.sum_congr rfl fun n _ => Finset.sum_congr rfl fun m _ => ?_
  rw [Bridge.gf_tau]
  simp only [Gen.GF.residue, Gen.GF.pole, EigenData.res, EigenData.pole, Bridge.ofReal_eq,
    Complex.ofReal_add]

/-- Concrete instance of (j): at pole 0 and `τ = 0` the extracted formula gives `−R/2` (the
"else" branch is taken and agrees with the closed form). -/
example (R : ℂ) (β : ℝ) : Gen.GF.termTau R 0 0 β = -R / 2 := by
  rw [tau_branches_agree (ι := Unit) |>.1]
  unfold tauTerm
  norm_num

end Pomerol.Properties.C11
