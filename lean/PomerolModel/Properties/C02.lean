/-
  Property C02: the two-particle Green's function the library evaluates equals its definition -- the
  Fourier transform of the time-ordered four-operator correlator -- at every triple of fermionic
  Matsubara frequencies, for every spectrum, including all resonant (degenerate) cases.

  Setting: `d : EigenData ι` (β > 0, eigenvalues `d.E`, Gibbs weights `d.w`).
  `simplexIntegral β a₁ a₂ a₃ = ∫₀^β dτ₁ e^{a₁τ₁} ∫₀^{τ₁} dτ₂ e^{a₂τ₂} ∫₀^{τ₂} dτ₃ e^{a₃τ₃}`;
  `multiTerm β z₁ z₂ z₃ P₁ P₂ P₃ w_i w_j w_k w_l` is the closed form the library uses for one "world
  line" of four eigenstates (two non-resonant and two possibly resonant terms);
  `d.orderedIntegral A B C X z_a z_b z_c` is the contribution of ONE time ordering
  `s₁ > s₂ > s₃ > 0` to the definition (triple integral of `Tr(ρ A(s₁) B(s₂) C(s₃) X)` with genuine
  matrix exponentials), `d.orderedLehmann …` what the library accumulates for it;
  `d.chiDef O X z` / `d.chiLehmann O X z` are the signed sums over the six orderings (`O 0 = c_i`,
  `O 1 = c_j`, `O 2 = c†_k`, `X = c†_l`, `z = (iω₁, iω₂, −iω₃)`).
  The formulas in namespace `Gen.Chi4` are EXTRACTED FROM THE SOURCE (`TwoParticleGFPart.cpp`).

  All statements are re-exports / conjunctions of theorems of `Spec/Simplex.lean`, `Spec/Chi4.lean`,
  `Spec/Bridge.lean` (fully proved).
-/
import PomerolModel.Spec.Bridge
import PomerolModel.Spec.Chi4Refine

namespace Pomerol.Properties.C02
open Matrix Complex Pomerol Pomerol.Spec

variable {ι : Type} [Fintype ι] [DecidableEq ι]

/-- The library's closed form of one world line IS the ordered triple integral:
`w_i · ∫_{β>τ₁>τ₂>τ₃>0} e^{(z₁−P₁)τ₁ + (z₂−P₂)τ₂ + (z₃−P₃)τ₃} = multiTerm`, for `z₁,z₂,z₃` fermionic
Matsubara frequencies (any complex numbers with `e^{βz} = −1`), arbitrary real level differences
`P₁,P₂,P₃` (coinciding levels allowed) and weights related by Boltzmann factors along the world
line.  All four resonance classes (`z₁+z₂ = P₁+P₂` or not, `z₂+z₃ = P₂+P₃` or not) are covered. -/
theorem multiterm_is_simplex_integral (β : ℝ) (hβ : 0 < β) (z1 z2 z3 : ℂ)
    (h1 : Complex.exp ((β:ℂ) * z1) = -1) (h2 : Complex.exp ((β:ℂ) * z2) = -1)
    (h3 : Complex.exp ((β:ℂ) * z3) = -1)
    (P1 P2 P3 : ℝ) (wi wj wk wl : ℝ)
    (hj : wj = wi * Real.exp (-β * P1)) (hk : wk = wj * Real.exp (-β * P2))
    (hl : wl = wk * Real.exp (-β * P3)) :
    (wi : ℂ) * simplexIntegral β (z1 - P1) (z2 - P2) (z3 - P3)
      = multiTerm β z1 z2 z3 P1 P2 P3 wi wj wk wl :=
  simplex_closed_form β hβ z1 z2 z3 h1 h2 h3 P1 P2 P3 wi wj wk wl hj hk hl

/-- One time ordering: the triple integral over `β > s₁ > s₂ > s₃ > 0` of the four-operator
correlator `Tr(ρ A(s₁) B(s₂) C(s₃) X)` times `e^{z_a s₁ + z_b s₂ + z_c s₃}` equals the sum over
four eigenstates of matrix elements times `multiTerm` that the library accumulates, for all
matrices, every spectrum and all fermionic `z_a, z_b, z_c`. -/
theorem ordered_simplex (d : EigenData ι) (A B Cc X : Matrix ι ι ℂ) (za zb zc : ℂ)
    (ha : Complex.exp ((d.β:ℂ) * za) = -1) (hb : Complex.exp ((d.β:ℂ) * zb) = -1)
    (hc : Complex.exp ((d.β:ℂ) * zc) = -1) :
    d.orderedIntegral A B Cc X za zb zc = d.orderedLehmann A B Cc X za zb zc :=
  ordered_lehmann d A B Cc X za zb zc ha hb hc

/-- MAIN STATEMENT: the definition (signed sum over the six time orderings of the ordered
integrals) equals what the library evaluates (signed sum over the six permutations of the
accumulated multi-terms) -- for all fermionic frequency triples, and in particular at the
Matsubara triple `(iω_{k₁}, iω_{k₂}, −iω_{k₃})` for all integers `k₁,k₂,k₃`. -/
theorem chi_equals_definition (d : EigenData ι) (O : Fin 3 → Matrix ι ι ℂ) (X : Matrix ι ι ℂ) :
    (∀ z : Fin 3 → ℂ, (∀ k, Complex.exp ((d.β:ℂ) * z k) = -1) →
      d.chiDef O X z = d.chiLehmann O X z) ∧
    ∀ k1 k2 k3 : ℤ,
      d.chiDef O X ![I * (d.ω k1 : ℂ), I * (d.ω k2 : ℂ), -(I * (d.ω k3 : ℂ))] =
      d.chiLehmann O X ![I * (d.ω k1 : ℂ), I * (d.ω k2 : ℂ), -(I * (d.ω k3 : ℂ))] :=
  ⟨fun z hz => chi_lehmann d O X z hz, fun k1 k2 k3 => chi_lehmann_matsubara d O X k1 k2 k3⟩

/-- The four terms the EXTRACTED code creates for one world line (`addMultiterm`: coefficients
`coeffZ2`, `coeffZ4`, `coeffZ1Z2Res/NonRes`, `coeffZ2Z3Res/NonRes`, poles `p1,p2,p3`), evaluated
with the extracted term formulas, add up to `coeff · multiTerm`, provided the resonance test
`|Diff| < tol` coincides with `Diff = 0` (exact idealisation of the tolerance). -/
theorem extracted_multiterm (coeff : ℂ) (β Ei Ej Ek El wi wj wk wl : ℝ) (z1 z2 z3 : ℂ) (ktol : ℝ)
    (h12 : ‖z1 + z2 - ((Ej - Ei : ℝ):ℂ) - ((Ek - Ej : ℝ):ℂ)‖ < ktol ↔
      z1 + z2 - ((Ej - Ei : ℝ):ℂ) - ((Ek - Ej : ℝ):ℂ) = 0)
    (h23 : ‖z2 + z3 - ((Ek - Ej : ℝ):ℂ) - ((El - Ek : ℝ):ℂ)‖ < ktol ↔
      z2 + z3 - ((Ek - Ej : ℝ):ℂ) - ((El - Ek : ℝ):ℂ) = 0) :
    let P1 := Gen.Chi4.p1 Ei Ej Ek El; let P2 := Gen.Chi4.p2 Ei Ej Ek El
    let P3 := Gen.Chi4.p3 Ei Ej Ek El
    Gen.Chi4.nonResZ2 (Gen.Chi4.coeffZ2 coeff β wi wj wk wl) P1 P2 P3 z1 z2 z3
    + Gen.Chi4.nonResZ4 (Gen.Chi4.coeffZ4 coeff β wi wj wk wl) P1 P2 P3 z1 z2 z3
    + Gen.Chi4.resZ1Z2 (Gen.Chi4.coeffZ1Z2Res coeff β wi wj wk wl)
        (Gen.Chi4.coeffZ1Z2NonRes coeff β wi wj wk wl)
        (Gen.Chi4.diffZ1Z2 P1 P2 P3 z1 z2 z3) ktol P1 P2 P3 z1 z2 z3
    + Gen.Chi4.resZ2Z3 (Gen.Chi4.coeffZ2Z3Res coeff β wi wj wk wl)
        (Gen.Chi4.coeffZ2Z3NonRes coeff β wi wj wk wl)
        (Gen.Chi4.diffZ2Z3 P1 P2 P3 z1 z2 z3) ktol P1 P2 P3 z1 z2 z3
    = coeff * multiTerm β z1 z2 z3 (Ej - Ei) (Ek - Ej) (El - Ek) wi wj wk wl :=
  Bridge.chi4_multiterm coeff β Ei Ej Ek El wi wj wk wl z1 z2 z3 ktol h12 h23

/-- The extracted tables: `permutations3` is the table of the six orderings with the signs used in
the definition; the frequency table is `(z₁, z₂, −z₃)`; and every entry of `permutations3` /
`permutations4` is a permutation of `{0,1,2}` / `{0,1,2,3}` whose recorded sign is its parity, with
no repetitions and 6 / 24 entries -- i.e. the tables list ALL permutations, each with the right
sign. -/
theorem permutation_table :
    (Gen.Chi4.permutations3
      = perms3.map (fun p => ([(p.1 0).val, (p.1 1).val, (p.1 2).val], p.2))) ∧
    (∀ z1 z2 z3 : ℂ, Gen.Chi4.freqTable z1 z2 z3 = [z1, z2, -z3]) ∧
    ((∀ p ∈ Gen.Chi4.permutations3, p.1.Perm [0,1,2] ∧ p.2 = (-1) ^ Bridge.inversions p.1) ∧
      Gen.Chi4.permutations3.Nodup ∧ Gen.Chi4.permutations3.length = 6 ∧
      (∀ p ∈ Gen.Chi4.permutations4, p.1.Perm [0,1,2,3] ∧ p.2 = (-1) ^ Bridge.inversions p.1) ∧
      Gen.Chi4.permutations4.Nodup ∧ Gen.Chi4.permutations4.length = 24) :=
  ⟨Bridge.chi4_perms, Bridge.chi4_freqTable, Bridge.chi4_perms_parity⟩

/-- Antisymmetry under the exchange of the first two operators together with their frequencies:
both the definition and the library's value change sign (`χ_{jikl}(ω₂,ω₁;ω₃) = −χ_{ijkl}(ω₁,ω₂;ω₃)`),
for all matrices and ALL complex frequency triples. -/
theorem exchange_first_pair (d : EigenData ι) (O : Fin 3 → Matrix ι ι ℂ) (X : Matrix ι ι ℂ)
    (z : Fin 3 → ℂ) :
    d.chiDef ![O 1, O 0, O 2] X ![z 1, z 0, z 2] = - d.chiDef O X z ∧
    d.chiLehmann ![O 1, O 0, O 2] X ![z 1, z 0, z 2] = - d.chiLehmann O X z :=
  ⟨chiDef_swap01 d O X z, chiLehmann_swap01 d O X z⟩

/-- Concrete instance: the third entry of the extracted permutation table is the exchange of the
first two operators, with sign −1. -/
example : Gen.Chi4.permutations3[2]? = some ([1, 0, 2], -1) := by
  rw [permutation_table.1]
  rfl

/-! ### the loop structure of `TwoParticleGFPart::compute` (sparse world-line enumeration) -/

section enumeration
open Pomerol.Model.Chi4Part Pomerol.Spec.Chi4Refine

/-- THE SPARSE ENUMERATION LOSES NOTHING AND ADDS NOTHING.
In plain words: `TwoParticleGFPart::compute` does not loop over all quadruples of eigenstates.  It fixes
`index1` and `index3`, walks the sparse column `index1` of CX4 against the sparse row `index3` of O3 to
collect the common `index4`, then walks the sparse row `index1` of O1 against the sparse column `index3`
of O2 to find the common `index2` ("index chasing"), and hands
`<1|O1|2><2|O2|3><3|O3|4><4|CX4|1>` to `addMultiterm` for every world line found this way.
This theorem says: whenever the four compressed matrices are faithful copies of dense matrices
(`RowMajorOf`/`ColMajorOf`: strictly increasing inner indices, a stored value is the matrix entry, an
entry that is not stored is 0), the enumeration (model `Model/Chi4Part.lean`, run with the loop guards
extracted from the source, no weight cut-off) succeeds, and for EVERY weight function `g` the sum over the
visited world lines of `g(i1,i2,i3,i4) · (product of the four values read)` equals the sum over ALL
quadruples of `g · O1 i1 i2 · O2 i2 i3 · O3 i3 i4 · CX4 i4 i1`.  No world line with a non-zero product is
missed, none is visited twice.  (Taking `g` = the multi-term of the four levels gives the per-ordering
Lehmann sum `orderedLehmann` of `ordered_simplex`: see `sparse_enumeration_is_ordered_lehmann`.) -/
theorem sparse_enumeration_is_full_sum {n1 n2 n3 n4 : ℕ}
    (A1 : Matrix (Fin n1) (Fin n2) ℂ) (A2 : Matrix (Fin n2) (Fin n3) ℂ)
    (A3 : Matrix (Fin n3) (Fin n4) ℂ) (X4 : Matrix (Fin n4) (Fin n1) ℂ)
    (O1 O2 O3 CX4 : SpMat ℂ) (h1 : RowMajorOf O1 A1) (h2 : ColMajorOf O2 A2)
    (h3 : RowMajorOf O3 A3) (h4 : ColMajorOf CX4 X4) (g : ℕ → ℕ → ℕ → ℕ → ℂ) :
    ∃ wls, computeAsSource (fun _ _ _ _ => true) O1 O2 O3 CX4 = .ok wls ∧
      (wls.map fun wl => g wl.1 wl.2.1 wl.2.2.1 wl.2.2.2.1 * wl.2.2.2.2).sum
        = ∑ i1 : Fin n1, ∑ i2 : Fin n2, ∑ i3 : Fin n3, ∑ i4 : Fin n4,
            g i1 i2 i3 i4 * A1 i1 i2 * A2 i2 i3 * A3 i3 i4 * X4 i4 i1 :=
  chi4part_sum_eq_full_sum A1 A2 A3 X4 O1 O2 O3 CX4 h1 h2 h3 h4 g

/-- WHICH world lines are visited, and each exactly once: for compressed matrices with strictly
increasing inner indices and matching outer sizes the enumeration returns exactly the list
`worldLinesSpec` (all `(i1,i2,i3,i4)` whose four entries are stored and which pass the weight test
`keep`, with the product of the four stored values), in which no index quadruple occurs twice. -/
theorem sparse_enumeration_visits_stored_quadruples_once (keep : ℕ → ℕ → ℕ → ℕ → Bool)
    (O1 O2 O3 CX4 : SpMat ℂ) (h1 : SortedMat O1) (h2 : SortedMat O2) (h3 : SortedMat O3)
    (h4 : SortedMat CX4) (hrows1 : O1.length = CX4.length) (hrows3 : O3.length = O2.length) :
    computeAsSource keep O1 O2 O3 CX4 = .ok (worldLinesSpec keep O1 O2 O3 CX4) ∧
    ((worldLinesSpec keep O1 O2 O3 CX4).map quad).Nodup ∧
    ∀ wl, wl ∈ worldLinesSpec keep O1 O2 O3 CX4 ↔
      ∃ i1 i2 i3 i4 v1 v2 v3 v4, (i2, v1) ∈ vec O1 i1 ∧ (i2, v2) ∈ vec O2 i3 ∧ (i4, v3) ∈ vec O3 i3 ∧
        (i4, v4) ∈ vec CX4 i1 ∧ keep i1 i2 i3 i4 = true ∧ wl = (i1, i2, i3, i4, v1 * v2 * v3 * v4) :=
  ⟨chi4part_worldlines_source keep O1 O2 O3 CX4 h1 h2 h3 h4 hrows1 hrows3,
   worldLinesSpec_quad_nodup keep O1 O2 O3 CX4 h1 h3,
   mem_worldLinesSpec_iff keep O1 O2 O3 CX4 h1 h2 h3 h4⟩

/-- The enumeration refines the per-ordering Lehmann sum: with the state space split into blocks and every
operator stored block by block, the sum over all quadruples of blocks of what the parts accumulate
(`partValue`: visited world lines, matrix-element product times the multi-term of the four levels) is
`orderedLehmann`, the quantity `ordered_simplex` identifies with the ordered triple integral. -/
theorem sparse_enumeration_is_ordered_lehmann {B : Type} [Fintype B] {sz : B → ℕ}
    (d : EigenData (Σ b, Fin (sz b)))
    (A Bm Cc X : Matrix (Σ b, Fin (sz b)) (Σ b, Fin (sz b)) ℂ) (O1 O2 O3 CX4 : B → B → SpMat ℂ)
    (h1 : ∀ b b', RowMajorOf (O1 b b') (blockOf A b b'))
    (h2 : ∀ b b', ColMajorOf (O2 b b') (blockOf Bm b b'))
    (h3 : ∀ b b', RowMajorOf (O3 b b') (blockOf Cc b b'))
    (h4 : ∀ b b', ColMajorOf (CX4 b b') (blockOf X b b')) (za zb zc : ℂ) :
    ∑ b1, ∑ b2, ∑ b3, ∑ b4,
        partValue d za zb zc b1 b2 b3 b4 (O1 b1 b2) (O2 b2 b3) (O3 b3 b4) (CX4 b4 b1)
      = d.orderedLehmann A Bm Cc X za zb zc :=
  parts_enumeration_refines_ordered_lehmann d A Bm Cc X O1 O2 O3 CX4 h1 h2 h3 h4 za zb zc

/-! a concrete instance with 2 states per block: `O1 = [[1,2],[0,3]]`, `O2 = [[5,7],[0,11]]`,
`O3 = [[0,13],[17,19]]`, `CX4 = [[23,0],[29,31]]`; 6 of the 16 quadruples have all four entries stored -/

private def exO1 : SpMat ℂ := [[(0, 1), (1, 2)], [(1, 3)]]          -- rows of O1
private def exO2 : SpMat ℂ := [[(0, 5)], [(0, 7), (1, 11)]]         -- columns of O2
private def exO3 : SpMat ℂ := [[(1, 13)], [(0, 17), (1, 19)]]       -- rows of O3
private def exX4 : SpMat ℂ := [[(0, 23), (1, 29)], [(1, 31)]]       -- columns of CX4
private def exA1 : Matrix (Fin 2) (Fin 2) ℂ := fun i j => ![![1, 2], ![0, 3]] i j
private def exA2 : Matrix (Fin 2) (Fin 2) ℂ := fun i j => ![![5, 7], ![0, 11]] i j
private def exA3 : Matrix (Fin 2) (Fin 2) ℂ := fun i j => ![![0, 13], ![17, 19]] i j
private def exAX : Matrix (Fin 2) (Fin 2) ℂ := fun i j => ![![23, 0], ![29, 31]] i j

private theorem ex_h1 : RowMajorOf exO1 exA1 := by
  refine ⟨rfl, ?_, ?_, ?_⟩
  · intro v hv
    simp only [exO1, List.mem_cons, List.not_mem_nil, or_false] at hv
    rcases hv with rfl | rfl <;> simp [SortedVec, Pomerol.Properties.C17.Sorted, storedIdx]
  · intro v hv i hi
    simp only [exO1, List.mem_cons, List.not_mem_nil, or_false] at hv
    rcases hv with rfl | rfl <;> simp [storedIdx] at hi <;> omega
  · intro i j
    fin_cases i <;> fin_cases j <;> simp [exA1, exO1, vec, coeffIn, List.lookup]

private theorem ex_h2 : ColMajorOf exO2 exA2 := by
  refine ⟨rfl, ?_, ?_, ?_⟩
  · intro v hv
    simp only [exO2, List.mem_cons, List.not_mem_nil, or_false] at hv
    rcases hv with rfl | rfl <;> simp [SortedVec, Pomerol.Properties.C17.Sorted, storedIdx]
  · intro v hv i hi
    simp only [exO2, List.mem_cons, List.not_mem_nil, or_false] at hv
    rcases hv with rfl | rfl <;> simp [storedIdx] at hi <;> omega
  · intro i j
    fin_cases i <;> fin_cases j <;> simp [exA2, exO2, vec, coeffIn, List.lookup]

private theorem ex_h3 : RowMajorOf exO3 exA3 := by
  refine ⟨rfl, ?_, ?_, ?_⟩
  · intro v hv
    simp only [exO3, List.mem_cons, List.not_mem_nil, or_false] at hv
    rcases hv with rfl | rfl <;> simp [SortedVec, Pomerol.Properties.C17.Sorted, storedIdx]
  · intro v hv i hi
    simp only [exO3, List.mem_cons, List.not_mem_nil, or_false] at hv
    rcases hv with rfl | rfl <;> simp [storedIdx] at hi <;> omega
  · intro i j
    fin_cases i <;> fin_cases j <;> simp [exA3, exO3, vec, coeffIn, List.lookup]

private theorem ex_h4 : ColMajorOf exX4 exAX := by
  refine ⟨rfl, ?_, ?_, ?_⟩
  · intro v hv
    simp only [exX4, List.mem_cons, List.not_mem_nil, or_false] at hv
    rcases hv with rfl | rfl <;> simp [SortedVec, Pomerol.Properties.C17.Sorted, storedIdx]
  · intro v hv i hi
    simp only [exX4, List.mem_cons, List.not_mem_nil, or_false] at hv
    rcases hv with rfl | rfl <;> simp [storedIdx] at hi <;> omega
  · intro i j
    fin_cases i <;> fin_cases j <;> simp [exAX, exX4, vec, coeffIn, List.lookup]

/-- NON-VACUITY: the hypotheses of `sparse_enumeration_is_full_sum` hold for this instance, and its
conclusion with `g = 1` is the trace of the product of the four matrices: the sum of the products over
the visited world lines is 48640 = 1885 + 2737 + 3857 + 8602 + 12122 + 19437. -/
example : ∃ wls, computeAsSource (fun _ _ _ _ => true) exO1 exO2 exO3 exX4 = .ok wls ∧
    (wls.map fun wl => wl.2.2.2.2).sum = 48640 := by
  obtain ⟨wls, hw, hs⟩ := sparse_enumeration_is_full_sum exA1 exA2 exA3 exAX exO1 exO2 exO3 exX4
    ex_h1 ex_h2 ex_h3 ex_h4 (fun _ _ _ _ => 1)
  refine ⟨wls, hw, ?_⟩
  simp only [one_mul] at hs
  rw [hs]
  simp [Fin.sum_univ_two, exA1, exA2, exA3, exAX]
  norm_num

/-- the same instance over the integers, where the model can be run by the kernel: the six visited world
lines, in the order of the source -/
example : computeAsSource (K := ℤ) (fun _ _ _ _ => true) [[(0, 1), (1, 2)], [(1, 3)]]
    [[(0, 5)], [(0, 7), (1, 11)]] [[(1, 13)], [(0, 17), (1, 19)]] [[(0, 23), (1, 29)], [(1, 31)]]
    = .ok [(0, 0, 0, 1, 1885), (0, 0, 1, 0, 2737), (0, 0, 1, 1, 3857), (0, 1, 1, 0, 8602),
      (0, 1, 1, 1, 12122), (1, 1, 1, 1, 19437)] := by
  decide

end enumeration

end Pomerol.Properties.C02
