/-
  Property C02: the two-particle Green's function the library evaluates equals its definition -- the
  Fourier transform of the time-ordered four-operator correlator -- at every triple of fermionic
  Matsubara frequencies, for every spectrum, including all resonant (degenerate) cases.

  Setting: `d : EigenData ι` (β > 0, eigenvalues `d.E`, Gibbs weights `d.w`).
  `simplexIntegral β a₁ a₂ a₃ = ∫₀^β dτ₁ e^{a₁τ₁} ∫₀^{τ₁} dτ₂ e^{a₂τ₂} ∫₀^{τ₂} dτ₃ e^{a₃τ₃}`;
  `multiTerm β z₁ z₂ z₃ P₁ P₂ P₃ w_i w_j w_k w_l` is the closed form the library uses for one "world
  line" of four eigenstates (two non-resonant and two possibly resonant terms);
  `d.orderedIntegral A B C X z_a z_b z_c` is the contribution of ONE time ordering
  `s₁ > s₂ > s₃ > 0` to the definition (triple integral of `Tr(ρ A(s₁) B(s₂) C(s₃) X)` with genuine
  matrix exponentials), `d.orderedLehmann …` what the library accumulates for it;
  `d.chiDef O X z` / `d.chiLehmann O X z` are the signed sums over the six orderings (`O 0 = c_i`,
  `O 1 = c_j`, `O 2 = c†_k`, `X = c†_l`, `z = (iω₁, iω₂, −iω₃)`).
  The formulas in namespace `Gen.Chi4` are EXTRACTED FROM THE SOURCE (`TwoParticleGFPart.cpp`).

  All statements are re-exports / conjunctions of theorems of `Spec/Simplex.lean`, `Spec/Chi4.lean`,
  `Spec/Bridge.lean` (fully proved).
-/
import PomerolModel.Spec.Bridge

namespace Pomerol.Properties.C02
open Matrix Complex Pomerol Pomerol.Spec

variable {ι : Type} [Fintype ι] [DecidableEq ι]

/-- The library's closed form of one world line IS the ordered triple integral:
`w_i · ∫_{β>τ₁>τ₂>τ₃>0} e^{(z₁−P₁)τ₁ + (z₂−P₂)τ₂ + (z₃−P₃)τ₃} = multiTerm`, for `z₁,z₂,z₃` fermionic
Matsubara frequencies (any complex numbers with `e^{βz} = −1`), arbitrary real level differences
`P₁,P₂,P₃` (coinciding levels allowed) and weights related by Boltzmann factors along the world
line.  All four resonance classes (`z₁+z₂ = P₁+P₂` or not, `z₂+z₃ = P₂+P₃` or not) are covered. -/
theorem multiterm_is_simplex_integral (β : ℝ) (hβ : 0 < β) (z1 z2 z3 : ℂ)
    (h1 : Complex.exp ((β:ℂ) * z1) = -1) (h2 : Complex.exp ((β:ℂ) * z2) = -1)
    (h3 : Complex.exp ((β:ℂ) * z3) = -1)
    (P1 P2 P3 : ℝ) (wi wj wk wl : ℝ)
    (hj : wj = wi * Real.exp (-β * P1)) (hk : wk = wj * Real.exp (-β * P2))
    (hl : wl = wk * Real.exp (-β * P3)) :
    (wi : ℂ) * simplexIntegral β (z1 - P1) (z2 - P2) (z3 - P3)
      = multiTerm β z1 z2 z3 P1 P2 P3 wi wj wk wl :=
  simplex_closed_form β hβ z1 z2 z3 h1 h2 h3 P1 P2 P3 wi wj wk wl hj hk hl

/-- One time ordering: the triple integral over `β > s₁ > s₂ > s₃ > 0` of the four-operator
correlator `Tr(ρ A(s₁) B(s₂) C(s₃) X)` times `e^{z_a s₁ + z_b s₂ + z_c s₃}` equals the sum over
four eigenstates of matrix elements times `multiTerm` that the library accumulates, for all
matrices, every spectrum and all fermionic `z_a, z_b, z_c`. -/
theorem ordered_simplex (d : EigenData ι) (A B Cc X : Matrix ι ι ℂ) (za zb zc : ℂ)
    (ha : Complex.exp ((d.β:ℂ) * za) = -1) (hb : Complex.exp ((d.β:ℂ) * zb) = -1)
    (hc : Complex.exp ((d.β:ℂ) * zc) = -1) :
    d.orderedIntegral A B Cc X za zb zc = d.orderedLehmann A B Cc X za zb zc :=
  ordered_lehmann d A B Cc X za zb zc ha hb hc

/-- MAIN STATEMENT: the definition (signed sum over the six time orderings of the ordered
integrals) equals what the library evaluates (signed sum over the six permutations of the
accumulated multi-terms) -- for all fermionic frequency triples, and in particular at the
Matsubara triple `(iω_{k₁}, iω_{k₂}, −iω_{k₃})` for all integers `k₁,k₂,k₃`. -/
theorem chi_equals_definition (d : EigenData ι) (O : Fin 3 → Matrix ι ι ℂ) (X : Matrix ι ι ℂ) :
    (∀ z : Fin 3 → ℂ, (∀ k, Complex.exp ((d.β:ℂ) * z k) = -1) →
      d.chiDef O X z = d.chiLehmann O X z) ∧
    ∀ k1 k2 k3 : ℤ,
      d.chiDef O X ![I * (d.ω k1 : ℂ), I * (d.ω k2 : ℂ), -(I * (d.ω k3 : ℂ))] =
      d.chiLehmann O X ![I * (d.ω k1 : ℂ), I * (d.ω k2 : ℂ), -(I * (d.ω k3 : ℂ))] :=
  ⟨fun z hz => chi_lehmann d O X z hz, fun k1 k2 k3 => chi_lehmann_matsubara d O X k1 k2 k3⟩

/-- The four terms the EXTRACTED code creates for one world line (`addMultiterm`: coefficients
`coeffZ2`, `coeffZ4`, `coeffZ1Z2Res/NonRes`, `coeffZ2Z3Res/NonRes`, poles `p1,p2,p3`), evaluated
with the extracted term formulas, add up to `coeff · multiTerm`, provided the resonance test
`|Diff| < tol` coincides with `Diff = 0` (exact idealisation of the tolerance). -/
theorem extracted_multiterm (coeff : ℂ) (β Ei Ej Ek El wi wj wk wl : ℝ) (z1 z2 z3 : ℂ) (ktol : ℝ)
    (h12 : ‖z1 + z2 - ((Ej - Ei : ℝ):ℂ) - ((Ek - Ej : ℝ):ℂ)‖ < ktol ↔
      z1 + z2 - ((Ej - Ei : ℝ):ℂ) - ((Ek - Ej : ℝ):ℂ) = 0)
    (h23 : ‖z2 + z3 - ((Ek - Ej : ℝ):ℂ) - ((El - Ek : ℝ):ℂ)‖ < ktol ↔
      z2 + z3 - ((Ek - Ej : ℝ):ℂ) - ((El - Ek : ℝ):ℂ) = 0) :
    let P1 := Gen.Chi4.p1 Ei Ej Ek El; let P2 := Gen.Chi4.p2 Ei Ej Ek El
    let P3 := Gen.Chi4.p3 Ei Ej Ek El
    Gen.Chi4.nonResZ2 (Gen.Chi4.coeffZ2 coeff β wi wj wk wl) P1 P2 P3 z1 z2 z3
    + Gen.Chi4.nonResZ4 (Gen.Chi4.coeffZ4 coeff β wi wj wk wl) P1 P2 P3 z1 z2 z3
    + Gen.Chi4.resZ1Z2 (Gen.Chi4.coeffZ1Z2Res coeff β wi wj wk wl)
        (Gen.Chi4.coeffZ1Z2NonRes coeff β wi wj wk wl)
        (Gen.Chi4.diffZ1Z2 P1 P2 P3 z1 z2 z3) ktol P1 P2 P3 z1 z2 z3
    + Gen.Chi4.resZ2Z3 (Gen.Chi4.coeffZ2Z3Res coeff β wi wj wk wl)
        (Gen.Chi4.coeffZ2Z3NonRes coeff β wi wj wk wl)
        (Gen.Chi4.diffZ2Z3 P1 P2 P3 z1 z2 z3) ktol P1 P2 P3 z1 z2 z3
    = coeff * multiTerm β z1 z2 z3 (Ej - Ei) (Ek - Ej) (El - Ek) wi wj wk wl :=
  Bridge.chi4_multiterm coeff β Ei Ej Ek El wi wj wk wl z1 z2 z3 ktol h12 h23

/-- The extracted tables: `permutations3` is the table of the six orderings with the signs used in
the definition; the frequency table is `(z₁, z₂, −z₃)`; and every entry of `permutations3` /
`permutations4` is a permutation of `{0,1,2}` / `{0,1,2,3}` whose recorded sign is its parity, with
no repetitions and 6 / 24 entries -- i.e. the tables list ALL permutations, each with the right
sign. -/
theorem permutation_table :
    (Gen.Chi4.permutations3
      = perms3.map (fun p => ([(p.1 0).val, (p.1 1).val, (p.1 2).val], p.2))) ∧
    (∀ z1 z2 z3 : ℂ, Gen.Chi4.freqTable z1 z2 z3 = [z1, z2, -z3]) ∧
    ((∀ p ∈ Gen.Chi4.permutations3, p.1.Perm [0,1,2] ∧ p.2 = (-1) ^ Bridge.inversions p.1) ∧
      Gen.Chi4.permutations3.Nodup ∧ Gen.Chi4.permutations3.length = 6 ∧
      (∀ p ∈ Gen.Chi4.permutations4, p.1.Perm [0,1,2,3] ∧ p.2 = (-1) ^ Bridge.inversions p.1) ∧
      Gen.Chi4.permutations4.Nodup ∧ Gen.Chi4.permutations4.length = 24) :=
  ⟨Bridge.chi4_perms, Bridge.chi4_freqTable, Bridge.chi4_perms_parity⟩

/-- Antisymmetry under the exchange of the first two operators together with their frequencies:
both the definition and the library's value change sign (`χ_{jikl}(ω₂,ω₁;ω₃) = −χ_{ijkl}(ω₁,ω₂;ω₃)`),
for all matrices and ALL complex frequency triples. -/
theorem exchange_first_pair (d : EigenData ι) (O : Fin 3 → Matrix ι ι ℂ) (X : Matrix ι ι ℂ)
    (z : Fin 3 → ℂ) :
    d.chiDef ![O 1, O 0, O 2] X ![z 1, z 0, z 2] = - d.chiDef O X z ∧
    d.chiLehmann ![O 1, O 0, O 2] X ![z 1, z 0, z 2] = - d.chiLehmann O X z :=
  ⟨chiDef_swap01 d O X z, chiLehmann_swap01 d O X z⟩

/-- Concrete instance: the third entry of the extracted permutation table is the exchange of the
first two operators, with sign −1. -/
example : Gen.Chi4.permutations3[2]? = some ([1, 0, 2], -1) := by
  rw [permutation_table.1]
  rfl

end Pomerol.Properties.C02
