/-
  Property C02: the two-particle Green's function the library evaluates equals its definition -- the
  Fourier transform of the time-ordered four-operator correlator -- at every triple of fermionic
  Matsubara frequencies, for every spectrum, including all resonant (degenerate) cases.

  Setting: `d : EigenData ι` (β > 0, eigenvalues `d.E`, Gibbs weights `d.w`).
  `simplexIntegral β a₁ a₂ a₃ = ∫₀^β dτ₁ e^{a₁τ₁} ∫₀^{τ₁} dτ₂ e^{a₂τ₂} ∫₀^{τ₂} dτ₃ e^{a₃τ₃}`;
  `multiTerm β z₁ z₂ z₃ P₁ P₂ P₃ w_i w_j w_k w_l` is the closed form the library uses for one "world
  line" of four eigenstates (two non-resonant and two possibly resonant terms);
  `d.orderedIntegral A B C X z_a z_b z_c` is the contribution of ONE time ordering
  `s₁ > s₂ > s₃ > 0` to the definition (triple integral of `Tr(ρ A(s₁) B(s₂) C(s₃) X)` with genuine
  matrix exponentials), `d.orderedLehmann …` what the library accumulates for it;
  `d.chiDef O X z` / `d.chiLehmann O X z` are the signed sums over the six orderings (`O 0 = c_i`,
  `O 1 = c_j`, `O 2 = c†_k`, `X = c†_l`, `z = (iω₁, iω₂, −iω₃)`).
  The formulas in namespace `Gen.Chi4` are EXTRACTED FROM THE SOURCE (`TwoParticleGFPart.cpp`).

  All statements are re-exports / conjunctions of theorems of `Spec/Simplex.lean`, `Spec/Chi4.lean`,
  `Spec/Bridge.lean` (fully proved).
-/
import PomerolModel.Spec.Bridge
import PomerolModel.Spec.Chi4Refine
import PomerolModel.Spec.Chi4PrepareSpec

namespace Pomerol.Properties.C02
open Matrix Complex Pomerol Pomerol.Spec

variable {ι : Type} [Fintype ι] [DecidableEq ι]

/-- The library's closed form of one world line IS the ordered triple integral:
`w_i · ∫_{β>τ₁>τ₂>τ₃>0} e^{(z₁−P₁)τ₁ + (z₂−P₂)τ₂ + (z₃−P₃)τ₃} = multiTerm`, for `z₁,z₂,z₃` fermionic
Matsubara frequencies (any complex numbers with `e^{βz} = −1`), arbitrary real level differences
`P₁,P₂,P₃` (coinciding levels allowed) and weights related by Boltzmann factors along the world
line.  All four resonance classes (`z₁+z₂ = P₁+P₂` or not, `z₂+z₃ = P₂+P₃` or not) are covered. -/
theorem multiterm_is_simplex_integral (β : ℝ) (hβ : 0 < β) (z1 z2 z3 : ℂ)
    (h1 : Complex.exp ((β:ℂ) * z1) = -1) (h2 : Complex.exp ((β:ℂ) * z2) = -1)
    (h3 : Complex.exp ((β:ℂ) * z3) = -1)
    (P1 P2 P3 : ℝ) (wi wj wk wl : ℝ)
    (hj : wj = wi * Real.exp (-β * P1)) (hk : wk = wj * Real.exp (-β * P2))
    (hl : wl = wk * Real.exp (-β * P3)) :
    (wi : ℂ) * simplexIntegral β (z1 - P1) (z2 - P2) (z3 - P3)
      = multiTerm β z1 z2 z3 P1 P2 P3 wi wj wk wl :=
  simplex_closed_form β hβ z1 z2 z3 h1 h2 h3 P1 P2 P3 wi wj wk wl hj hk hl

/-- One time ordering: the triple integral over `β > s₁ > s₂ > s₃ > 0` of the four-operator
correlator `Tr(ρ A(s₁) B(s₂) C(s₃) X)` times `e^{z_a s₁ + z_b s₂ + z_c s₃}` equals the sum over
four eigenstates of matrix elements times `multiTerm` that the library accumulates, for all
matrices, every spectrum and all fermionic `z_a, z_b, z_c`. -/
theorem ordered_simplex (d : EigenData ι) (A B Cc X : Matrix ι ι ℂ) (za zb zc : ℂ)
    (ha : Complex.exp ((d.β:ℂ) * za) = -1) (hb : Complex.exp ((d.β:ℂ) * zb) = -1)
    (hc : Complex.exp ((d.β:ℂ) * zc) = -1) :
    d.orderedIntegral A B Cc X za zb zc = d.orderedLehmann A B Cc X za zb zc :=
  ordered_lehmann d A B Cc X za zb zc ha hb hc

/-- MAIN STATEMENT: the definition (signed sum over the six time orderings of the ordered
integrals) equals what the library evaluates (signed sum over the six permutations of the
accumulated multi-terms) -- for all fermionic frequency triples, and in particular at the
Matsubara triple `(iω_{k₁}, iω_{k₂}, −iω_{k₃})` for all integers `k₁,k₂,k₃`. -/
theorem chi_equals_definition (d : EigenData ι) (O : Fin 3 → Matrix ι ι ℂ) (X : Matrix ι ι ℂ) :
    (∀ z : Fin 3 → ℂ, (∀ k, Complex.exp ((d.β:ℂ) * z k) = -1) →
      d.chiDef O X z = d.chiLehmann O X z) ∧
    ∀ k1 k2 k3 : ℤ,
      d.chiDef O X ![I * (d.ω k1 : ℂ), I * (d.ω k2 : ℂ), -(I * (d.ω k3 : ℂ))] =
      d.chiLehmann O X ![I * (d.ω k1 : ℂ), I * (d.ω k2 : ℂ), -(I * (d.ω k3 : ℂ))] :=
  ⟨fun z hz => chi_lehmann d O X z hz, fun k1 k2 k3 => chi_lehmann_matsubara d O X k1 k2 k3⟩

/-- The four terms the EXTRACTED code creates for one world line (`addMultiterm`: coefficients
`coeffZ2`, `coeffZ4`, `coeffZ1Z2Res/NonRes`, `coeffZ2Z3Res/NonRes`, poles `p1,p2,p3`), evaluated
with the extracted term formulas, add up to `coeff · multiTerm`, provided the resonance test
`|Diff| < tol` coincides with `Diff = 0` (exact idealisation of the tolerance). -/
theorem extracted_multiterm (coeff : ℂ) (β Ei Ej Ek El wi wj wk wl : ℝ) (z1 z2 z3 : ℂ) (ktol : ℝ)
    (h12 : ‖z1 + z2 - ((Ej - Ei : ℝ):ℂ) - ((Ek - Ej : ℝ):ℂ)‖ < ktol ↔
      z1 + z2 - ((Ej - Ei : ℝ):ℂ) - ((Ek - Ej : ℝ):ℂ) = 0)
    (h23 : ‖z2 + z3 - ((Ek - Ej : ℝ):ℂ) - ((El - Ek : ℝ):ℂ)‖ < ktol ↔
      z2 + z3 - ((Ek - Ej : ℝ):ℂ) - ((El - Ek : ℝ):ℂ) = 0) :
    let P1 := Gen.Chi4.p1 Ei Ej Ek El; let P2 := Gen.Chi4.p2 Ei Ej Ek El
    let P3 := Gen.Chi4.p3 Ei Ej Ek El
    Gen.Chi4.nonResZ2 (Gen.Chi4.coeffZ2 coeff β wi wj wk wl) P1 P2 P3 z1 z2 z3
    + Gen.Chi4.nonResZ4 (Gen.Chi4.coeffZ4 coeff β wi wj wk wl) P1 P2 P3 z1 z2 z3
    + Gen.Chi4.resZ1Z2 (Gen.Chi4.coeffZ1Z2Res coeff β wi wj wk wl)
        (Gen.Chi4.coeffZ1Z2NonRes coeff β wi wj wk wl)
        (Gen.Chi4.diffZ1Z2 P1 P2 P3 z1 z2 z3) ktol P1 P2 P3 z1 z2 z3
    + Gen.Chi4.resZ2Z3 (Gen.Chi4.coeffZ2Z3Res coeff β wi wj wk wl)
        (Gen.Chi4.coeffZ2Z3NonRes coeff β wi wj wk wl)
        (Gen.Chi4.diffZ2Z3 P1 P2 P3 z1 z2 z3) ktol P1 P2 P3 z1 z2 z3
    = coeff * multiTerm β z1 z2 z3 (Ej - Ei) (Ek - Ej) (El - Ek) wi wj wk wl :=
  Bridge.chi4_multiterm coeff β Ei Ej Ek El wi wj wk wl z1 z2 z3 ktol h12 h23

/-- The extracted tables: `permutations3` is the table of the six orderings with the signs used in
the definition; the frequency table is `(z₁, z₂, −z₃)`; and every entry of `permutations3` /
`permutations4` is a permutation of `{0,1,2}` / `{0,1,2,3}` whose recorded sign is its parity, with
no repetitions and 6 / 24 entries -- i.e. the tables list ALL permutations, each with the right
sign. -/
theorem permutation_table :
    (Gen.Chi4.permutations3
      = perms3.map (fun p => ([(p.1 0).val, (p.1 1).val, (p.1 2).val], p.2))) ∧
    (∀ z1 z2 z3 : ℂ, Gen.Chi4.freqTable z1 z2 z3 = [z1, z2, -z3]) ∧
    ((∀ p ∈ Gen.Chi4.permutations3, p.1.Perm [0,1,2] ∧ p.2 = (-1) ^ Bridge.inversions p.1) ∧
      Gen.Chi4.permutations3.Nodup ∧ Gen.Chi4.permutations3.length = 6 ∧
      (∀ p ∈ Gen.Chi4.permutations4, p.1.Perm [0,1,2,3] ∧ p.2 = (-1) ^ Bridge.inversions p.1) ∧
      Gen.Chi4.permutations4.Nodup ∧ Gen.Chi4.permutations4.length = 24) :=
  ⟨Bridge.chi4_perms, Bridge.chi4_freqTable, Bridge.chi4_perms_parity⟩

/-- Antisymmetry under the exchange of the first two operators together with their frequencies:
both the definition and the library's value change sign (`χ_{jikl}(ω₂,ω₁;ω₃) = −χ_{ijkl}(ω₁,ω₂;ω₃)`),
for all matrices and ALL complex frequency triples. -/
theorem exchange_first_pair (d : EigenData ι) (O : Fin 3 → Matrix ι ι ℂ) (X : Matrix ι ι ℂ)
    (z : Fin 3 → ℂ) :
    d.chiDef ![O 1, O 0, O 2] X ![z 1, z 0, z 2] = - d.chiDef O X z ∧
    d.chiLehmann ![O 1, O 0, O 2] X ![z 1, z 0, z 2] = - d.chiLehmann O X z :=
  ⟨chiDef_swap01 d O X z, chiLehmann_swap01 d O X z⟩

/-- Concrete instance: the third entry of the extracted permutation table is the exchange of the
first two operators, with sign −1. -/
example : Gen.Chi4.permutations3[2]? = some ([1, 0, 2], -1) := by
  rw [permutation_table.1]
  rfl

/-! ### the loop structure of `TwoParticleGFPart::compute` (sparse world-line enumeration) -/

section enumeration
open Pomerol.Model.Chi4Part Pomerol.Spec.Chi4Refine

/-- THE SPARSE ENUMERATION LOSES NOTHING AND ADDS NOTHING.
In plain words: `TwoParticleGFPart::compute` does not loop over all quadruples of eigenstates.  It fixes
`index1` and `index3`, walks the sparse column `index1` of CX4 against the sparse row `index3` of O3 to
collect the common `index4`, then walks the sparse row `index1` of O1 against the sparse column `index3`
of O2 to find the common `index2` ("index chasing"), and hands
`<1|O1|2><2|O2|3><3|O3|4><4|CX4|1>` to `addMultiterm` for every world line found this way.
This theorem says: whenever the four compressed matrices are faithful copies of dense matrices
(`RowMajorOf`/`ColMajorOf`: strictly increasing inner indices, a stored value is the matrix entry, an
entry that is not stored is 0), the enumeration (model `Model/Chi4Part.lean`, run with the loop guards
extracted from the source, no weight cut-off) succeeds, and for EVERY weight function `g` the sum over the
visited world lines of `g(i1,i2,i3,i4) · (product of the four values read)` equals the sum over ALL
quadruples of `g · O1 i1 i2 · O2 i2 i3 · O3 i3 i4 · CX4 i4 i1`.  No world line with a non-zero product is
missed, none is visited twice.  (Taking `g` = the multi-term of the four levels gives the per-ordering
Lehmann sum `orderedLehmann` of `ordered_simplex`: see `sparse_enumeration_is_ordered_lehmann`.) -/
theorem sparse_enumeration_is_full_sum {n1 n2 n3 n4 : ℕ}
    (A1 : Matrix (Fin n1) (Fin n2) ℂ) (A2 : Matrix (Fin n2) (Fin n3) ℂ)
    (A3 : Matrix (Fin n3) (Fin n4) ℂ) (X4 : Matrix (Fin n4) (Fin n1) ℂ)
    (O1 O2 O3 CX4 : SpMat ℂ) (h1 : RowMajorOf O1 A1) (h2 : ColMajorOf O2 A2)
    (h3 : RowMajorOf O3 A3) (h4 : ColMajorOf CX4 X4) (g : ℕ → ℕ → ℕ → ℕ → ℂ) :
    ∃ wls, computeAsSource (fun _ _ _ _ => true) O1 O2 O3 CX4 = .ok wls ∧
      (wls.map fun wl => g wl.1 wl.2.1 wl.2.2.1 wl.2.2.2.1 * wl.2.2.2.2).sum
        = ∑ i1 : Fin n1, ∑ i2 : Fin n2, ∑ i3 : Fin n3, ∑ i4 : Fin n4,
            g i1 i2 i3 i4 * A1 i1 i2 * A2 i2 i3 * A3 i3 i4 * X4 i4 i1 :=
  chi4part_sum_eq_full_sum A1 A2 A3 X4 O1 O2 O3 CX4 h1 h2 h3 h4 g

/-- WHICH world lines are visited, and each exactly once: for compressed matrices with strictly
increasing inner indices and matching outer sizes the enumeration returns exactly the list
`worldLinesSpec` (all `(i1,i2,i3,i4)` whose four entries are stored and which pass the weight test
`keep`, with the product of the four stored values), in which no index quadruple occurs twice. -/
theorem sparse_enumeration_visits_stored_quadruples_once (keep : ℕ → ℕ → ℕ → ℕ → Bool)
    (O1 O2 O3 CX4 : SpMat ℂ) (h1 : SortedMat O1) (h2 : SortedMat O2) (h3 : SortedMat O3)
    (h4 : SortedMat CX4) (hrows1 : O1.length = CX4.length) (hrows3 : O3.length = O2.length) :
    computeAsSource keep O1 O2 O3 CX4 = .ok (worldLinesSpec keep O1 O2 O3 CX4) ∧
    ((worldLinesSpec keep O1 O2 O3 CX4).map quad).Nodup ∧
    ∀ wl, wl ∈ worldLinesSpec keep O1 O2 O3 CX4 ↔
      ∃ i1 i2 i3 i4 v1 v2 v3 v4, (i2, v1) ∈ vec O1 i1 ∧ (i2, v2) ∈ vec O2 i3 ∧ (i4, v3) ∈ vec O3 i3 ∧
        (i4, v4) ∈ vec CX4 i1 ∧ keep i1 i2 i3 i4 = true ∧ wl = (i1, i2, i3, i4, v1 * v2 * v3 * v4) :=
  ⟨chi4part_worldlines_source keep O1 O2 O3 CX4 h1 h2 h3 h4 hrows1 hrows3,
   worldLinesSpec_quad_nodup keep O1 O2 O3 CX4 h1 h3,
   mem_worldLinesSpec_iff keep O1 O2 O3 CX4 h1 h2 h3 h4⟩

/-- The enumeration refines the per-ordering Lehmann sum: with the state space split into blocks and every
operator stored block by block, the sum over all quadruples of blocks of what the parts accumulate
(`partValue`: visited world lines, matrix-element product times the multi-term of the four levels) is
`orderedLehmann`, the quantity `ordered_simplex` identifies with the ordered triple integral. -/
theorem sparse_enumeration_is_ordered_lehmann {B : Type} [Fintype B] {sz : B → ℕ}
    (d : EigenData (Σ b, Fin (sz b)))
    (A Bm Cc X : Matrix (Σ b, Fin (sz b)) (Σ b, Fin (sz b)) ℂ) (O1 O2 O3 CX4 : B → B → SpMat ℂ)
    (h1 : ∀ b b', RowMajorOf (O1 b b') (blockOf A b b'))
    (h2 : ∀ b b', ColMajorOf (O2 b b') (blockOf Bm b b'))
    (h3 : ∀ b b', RowMajorOf (O3 b b') (blockOf Cc b b'))
    (h4 : ∀ b b', ColMajorOf (CX4 b b') (blockOf X b b')) (za zb zc : ℂ) :
    ∑ b1, ∑ b2, ∑ b3, ∑ b4,
        partValue d za zb zc b1 b2 b3 b4 (O1 b1 b2) (O2 b2 b3) (O3 b3 b4) (CX4 b4 b1)
      = d.orderedLehmann A Bm Cc X za zb zc :=
  parts_enumeration_refines_ordered_lehmann d A Bm Cc X O1 O2 O3 CX4 h1 h2 h3 h4 za zb zc

/-! a concrete instance with 2 states per block: `O1 = [[1,2],[0,3]]`, `O2 = [[5,7],[0,11]]`,
`O3 = [[0,13],[17,19]]`, `CX4 = [[23,0],[29,31]]`; 6 of the 16 quadruples have all four entries stored -/

private def exO1 : SpMat ℂ := [[(0, 1), (1, 2)], [(1, 3)]]          -- rows of O1
private def exO2 : SpMat ℂ := [[(0, 5)], [(0, 7), (1, 11)]]         -- columns of O2
private def exO3 : SpMat ℂ := [[(1, 13)], [(0, 17), (1, 19)]]       -- rows of O3
private def exX4 : SpMat ℂ := [[(0, 23), (1, 29)], [(1, 31)]]       -- columns of CX4
private def exA1 : Matrix (Fin 2) (Fin 2) ℂ := fun i j => ![![1, 2], ![0, 3]] i j
private def exA2 : Matrix (Fin 2) (Fin 2) ℂ := fun i j => ![![5, 7], ![0, 11]] i j
private def exA3 : Matrix (Fin 2) (Fin 2) ℂ := fun i j => ![![0, 13], ![17, 19]] i j
private def exAX : Matrix (Fin 2) (Fin 2) ℂ := fun i j => ![![23, 0], ![29, 31]] i j

private theorem ex_h1 : RowMajorOf exO1 exA1 := by
  refine ⟨rfl, ?_, ?_, ?_⟩
  · intro v hv
    simp only [exO1, List.mem_cons, List.not_mem_nil, or_false] at hv
    rcases hv with rfl | rfl <;> simp [SortedVec, Pomerol.Properties.C17.Sorted, storedIdx]
  · intro v hv i hi
    simp only [exO1, List.mem_cons, List.not_mem_nil, or_false] at hv
    rcases hv with rfl | rfl <;> simp [storedIdx] at hi <;> omega
  · intro i j
    fin_cases i <;> fin_cases j <;> simp [exA1, exO1, vec, coeffIn, List.lookup]

private theorem ex_h2 : ColMajorOf exO2 exA2 := by
  refine ⟨rfl, ?_, ?_, ?_⟩
  · intro v hv
    simp only [exO2, List.mem_cons, List.not_mem_nil, or_false] at hv
    rcases hv with rfl | rfl <;> simp [SortedVec, Pomerol.Properties.C17.Sorted, storedIdx]
  · intro v hv i hi
    simp only [exO2, List.mem_cons, List.not_mem_nil, or_false] at hv
    rcases hv with rfl | rfl <;> simp [storedIdx] at hi <;> omega
  · intro i j
    fin_cases i <;> fin_cases j <;> simp [exA2, exO2, vec, coeffIn, List.lookup]

private theorem ex_h3 : RowMajorOf exO3 exA3 := by
  refine ⟨rfl, ?_, ?_, ?_⟩
  · intro v hv
    simp only [exO3, List.mem_cons, List.not_mem_nil, or_false] at hv
    rcases hv with rfl | rfl <;> simp [SortedVec, Pomerol.Properties.C17.Sorted, storedIdx]
  · intro v hv i hi
    simp only [exO3, List.mem_cons, List.not_mem_nil, or_false] at hv
    rcases hv with rfl | rfl <;> simp [storedIdx] at hi <;> omega
  · intro i j
    fin_cases i <;> fin_cases j <;> simp [exA3, exO3, vec, coeffIn, List.lookup]

private theorem ex_h4 : ColMajorOf exX4 exAX := by
  refine ⟨rfl, ?_, ?_, ?_⟩
  · intro v hv
    simp only [exX4, List.mem_cons, List.not_mem_nil, or_false] at hv
    rcases hv with rfl | rfl <;> simp [SortedVec, Pomerol.Properties.C17.Sorted, storedIdx]
  · intro v hv i hi
    simp only [exX4, List.mem_cons, List.not_mem_nil, or_false] at hv
    rcases hv with rfl | rfl <;> simp [storedIdx] at hi <;> omega
  · intro i j
    fin_cases i <;> fin_cases j <;> simp [exAX, exX4, vec, coeffIn, List.lookup]

/-- NON-VACUITY: the hypotheses of `sparse_enumeration_is_full_sum` hold for this instance, and its
conclusion with `g = 1` is the trace of the product of the four matrices: the sum of the products over
the visited world lines is 48640 = 1885 + 2737 + 3857 + 8602 + 12122 + 19437. -/
example : ∃ wls, computeAsSource (fun _ _ _ _ => true) exO1 exO2 exO3 exX4 = .ok wls ∧
    (wls.map fun wl => wl.2.2.2.2).sum = 48640 := by
  obtain ⟨wls, hw, hs⟩ := sparse_enumeration_is_full_sum exA1 exA2 exA3 exAX exO1 exO2 exO3 exX4
    ex_h1 ex_h2 ex_h3 ex_h4 (fun _ _ _ _ => 1)
  refine ⟨wls, hw, ?_⟩
  simp only [one_mul] at hs
  rw [hs]
  simp [Fin.sum_univ_two, exA1, exA2, exA3, exAX]
  norm_num

/-- the same instance over the integers, where the model can be run by the kernel: the six visited world
lines, in the order of the source -/
example : computeAsSource (K := ℤ) (fun _ _ _ _ => true) [[(0, 1), (1, 2)], [(1, 3)]]
    [[(0, 5)], [(0, 7), (1, 11)]] [[(1, 13)], [(0, 17), (1, 19)]] [[(0, 23), (1, 29)], [(1, 31)]]
    = .ok [(0, 0, 0, 1, 1885), (0, 0, 1, 0, 2737), (0, 0, 1, 1, 3857), (0, 1, 1, 0, 8602),
      (0, 1, 1, 1, 12122), (1, 1, 1, 1, 19437)] := by
  decide

end enumeration

/-! ### the world-stripe selection of `TwoParticleGF::prepare`

`sparse_enumeration_is_ordered_lehmann` sums over ALL quadruples of blocks.  The library does not create
a part for every quadruple: `TwoParticleGF::prepare` runs over the pairs of CX4's block bimap and the six
permutations and follows the block maps of the other three operators (`getRightIndex`, `getLeftIndex`);
a part is created only when the chain of blocks closes.  `Model/Chi4Prepare.lean` models that loop,
`Spec/Chi4PrepareSpec.lean` proves that it selects exactly the closing chains, each once, and that the
selected parts carry the whole sum. -/

section selection
open Pomerol.Model.Chi4Prepare Pomerol.Spec.Chi4PrepareSpec Pomerol.Spec.Chi4Refine
open Pomerol.Model.Chi4Part (SpMat)

/-- THE WORLD-STRIPE SELECTION IS COMPLETE AND CREATES NO PART TWICE.
In plain words: every field operator maps a block of the Hamiltonian to at most one block, and the library
records these maps as bimaps of `(LeftIndex, RightIndex)` pairs (`<Left|Op|Right>` is a non-zero block).
For each of the six orderings `p` of the first three operators and each pair `<b3|CX4|b0>` of CX4's bimap
`prepare` computes `b1` as the right partner of `b0` under the operator at position 0, `b2` as the left
partner of `b3` under the operator at position 2, and creates a part when the operator at position 1 maps
`b1` to `b2`.  This theorem says: if the bimaps are what the bimap type guarantees (`IsBimap`: no left
block twice, no right block twice; for CX4 only the right side is needed), then the list of parts created
has no repetition, and a part exists for `(p, b0, b1, b2, b3)` if and only if `p < 6`,
`<b0|O_{p,0}|b1>`, `<b1|O_{p,1}|b2>`, `<b2|O_{p,2}|b3>`, `<b3|CX4|b0>` are all recorded blocks
(`O_{p,k}` = operator number `permutations3[p].perm[k]`: `0 ↦ C1`, `1 ↦ C2`, `2 ↦ CX3`) and at least one
of the four blocks is retained by the density-matrix truncation.  No closing chain is missed, none is
selected twice, nothing else is selected. -/
theorem world_stripes_complete (retained : ℕ → Bool) (c1 c2 cx3 cx4 : BlockMap)
    (h1 : IsBimap c1) (h2 : IsBimap c2) (h3 : IsBimap cx3) (h4 : RightUnique cx4) :
    (prepare retained c1 c2 cx3 cx4).Nodup ∧
    ∀ p b0 b1 b2 b3, (p, b0, b1, b2, b3) ∈ prepare retained c1 c2 cx3 cx4 ↔
      p < 6 ∧ (b0, b1) ∈ opAt c1 c2 cx3 (permAt p 0) ∧ (b1, b2) ∈ opAt c1 c2 cx3 (permAt p 1) ∧
        (b2, b3) ∈ opAt c1 c2 cx3 (permAt p 2) ∧ (b3, b0) ∈ cx4 ∧
        (retained b0 = true ∨ retained b1 = true ∨ retained b2 = true ∨ retained b3 = true) :=
  stripes_selected_exactly retained c1 c2 cx3 cx4 h1 h2 h3 h4

/-- the single-orbital case: blocks `0` (empty) and `1` (occupied); `c` maps `1 → 0` (`<0|c|1>`), `c†`
maps `0 → 1` (`<1|c†|0>`).  Of the six orderings only `c c† c c†`-type chains close: `p = 1`
(`C1, CX3, C2`) and `p = 3` (`C2, CX3, C1`), both through the blocks `0, 1, 0, 1` -/
example : prepare (fun _ => true) [(0, 1)] [(0, 1)] [(1, 0)] [(1, 0)]
    = [(1, 0, 1, 0, 1), (3, 0, 1, 0, 1)] := by decide

/-- truncation: with only block `5` retained nothing is created -/
example : prepare (fun b => b == 5) [(0, 1)] [(0, 1)] [(1, 0)] [(1, 0)] = [] := by decide

/-- THE PARTS CREATED BY `TwoParticleGF::prepare` COMPUTE THE TWO-PARTICLE GREEN'S FUNCTION.
In plain words: split the eigenbasis into `nB` blocks; let `O 0, O 1, O 2, X` be the matrices of
`C1, C2, CX3, CX4`, `bm k` / `cx4` their block bimaps, which list (at least) every block where the matrix
is not zero, and let every block be stored in compressed form.  Create parts as `prepare` does (nothing
truncated), let every part enumerate its world lines as `TwoParticleGFPart::compute` does and accumulate
the matrix-element products times the multi-term of the four levels.  Then

* for every ordering `p`, the parts selected for `p` add up to the per-ordering Lehmann sum over ALL
  quadruples of eigenstates (`orderedLehmann`; the block quadruples that get no part contribute nothing);
* the signed sum over all parts created is `d.chiLehmann O X z`, and at fermionic frequencies this is the
  definition `d.chiDef O X z` of the two-particle Green's function (`chi_equals_definition`). -/
theorem selected_stripes_compute_chi {nB : ℕ} {sz : Fin nB → ℕ} (d : EigenData (GFRefine.Basis sz))
    (O : Fin 3 → Matrix (GFRefine.Basis sz) (GFRefine.Basis sz) ℂ)
    (X : Matrix (GFRefine.Basis sz) (GFRefine.Basis sz) ℂ) (z : Fin 3 → ℂ)
    (R C : Fin 3 → Fin nB → Fin nB → SpMat ℂ) (CX : Fin nB → Fin nB → SpMat ℂ)
    (hR : ∀ k b b', RowMajorOf (R k b b') (blockOf (O k) b b'))
    (hC : ∀ k b b', ColMajorOf (C k b b') (blockOf (O k) b b'))
    (hX : ∀ b b', ColMajorOf (CX b b') (blockOf X b b'))
    (bm : Fin 3 → BlockMap) (cx4 : BlockMap) (hbm : ∀ k, IsBimap (bm k)) (h4 : RightUnique cx4)
    (hO : ∀ k, GFRefine.CoversBlocks (bm k) (O k)) (hX4 : GFRefine.CoversBlocks cx4 X) :
    (∀ p : Fin 6,
      ((stripesOf p.1 (prepare (fun _ => true) (bm 0) (bm 1) (bm 2) cx4)).map
          (stripeValue d z R C CX)).sum
        = d.orderedLehmann (O (permFn p 0)) (O (permFn p 1)) (O (permFn p 2)) X
            (z (permFn p 0)) (z (permFn p 1)) (z (permFn p 2))) ∧
    ((prepare (fun _ => true) (bm 0) (bm 1) (bm 2) cx4).map fun s =>
        ((permEntry s.1).2 : ℂ) * stripeValue d z R C CX s).sum = d.chiLehmann O X z ∧
    ((∀ k, Complex.exp ((d.β:ℂ) * z k) = -1) →
      ((prepare (fun _ => true) (bm 0) (bm 1) (bm 2) cx4).map fun s =>
        ((permEntry s.1).2 : ℂ) * stripeValue d z R C CX s).sum = d.chiDef O X z) := by
  have hchi := selected_stripes_sum_to_chi d O X z R C CX hR hC hX bm cx4 hbm h4 hO hX4
  refine ⟨fun p => ?_, hchi, fun hz => by rw [hchi, chi_lehmann d O X z hz]⟩
  obtain ⟨e1, e2⟩ := selected_stripes_sum_to_ordered_lehmann d O X z R C CX hR hC hX bm cx4 hbm h4
    hO hX4 p
  rw [e1, e2]

/-! #### a concrete instance of the hypotheses of `selected_stripes_compute_chi` (non-vacuity) -/

section SelectionExample
open GFRefine (Basis CoversBlocks)

/-- two blocks with one state each (one orbital: empty / occupied) -/
private def sz2 : Fin 2 → ℕ := fun _ => 1
/-- `c`: `<0|c|1> = 1` -/
private def exC : Matrix (Basis sz2) (Basis sz2) ℂ := fun a b => if a.1 = 0 ∧ b.1 = 1 then 1 else 0
/-- `c†`: `<1|c†|0> = 1` -/
private def exCX : Matrix (Basis sz2) (Basis sz2) ℂ := fun a b => if a.1 = 1 ∧ b.1 = 0 then 1 else 0
private def exO : Fin 3 → Matrix (Basis sz2) (Basis sz2) ℂ := ![exC, exC, exCX]
private def exBm : Fin 3 → BlockMap := ![[(0, 1)], [(0, 1)], [(1, 0)]]

private theorem exC_covers : CoversBlocks [(0, 1)] exC := by
  intro L R h
  by_contra hn
  apply h
  ext i j
  show (if L = 0 ∧ R = 1 then (1 : ℂ) else 0) = 0
  rw [if_neg]
  rintro ⟨rfl, rfl⟩
  exact hn (by simp)

private theorem exCX_covers : CoversBlocks [(1, 0)] exCX := by
  intro L R h
  by_contra hn
  apply h
  ext i j
  show (if L = 1 ∧ R = 0 then (1 : ℂ) else 0) = 0
  rw [if_neg]
  rintro ⟨rfl, rfl⟩
  exact hn (by simp)

/-- all hypotheses hold for the one-orbital system (levels `0`, `1`, `β = 1`) with every block stored
entry by entry (`storeRows`): the two parts created (see the `example` after `world_stripes_complete`)
compute `χ` of this system -/
example (z : Fin 3 → ℂ) :
    ((prepare (fun _ => true) [(0, 1)] [(0, 1)] [(1, 0)] [(1, 0)]).map fun s =>
        ((permEntry s.1).2 : ℂ) * stripeValue
          (⟨1, one_pos, fun x => (x.1.1 : ℝ)⟩ : EigenData (Basis sz2)) z
          (fun k b b' => storeRows (fun _ => true) (blockOf (exO k) b b'))
          (fun k b b' => storeRows (fun _ => true) (blockOf (exO k) b b')ᵀ)
          (fun b b' => storeRows (fun _ => true) (blockOf exCX b b')ᵀ) s).sum
      = EigenData.chiLehmann (⟨1, one_pos, fun x => (x.1.1 : ℝ)⟩ : EigenData (Basis sz2))
          exO exCX z :=
  (selected_stripes_compute_chi _ exO exCX z _ _ _
    (fun k b b' => storeRows_rowMajorOf _ (fun _ h => by simp at h) _)
    (fun k b b' => storeRows_colMajorOf _ (fun _ h => by simp at h) _)
    (fun b b' => storeRows_colMajorOf _ (fun _ h => by simp at h) _)
    exBm [(1, 0)] (by intro k; fin_cases k <;> decide) (by decide)
    (by intro k; fin_cases k <;> first | exact exC_covers | exact exCX_covers) exCX_covers).2.1

end SelectionExample

end selection

section termOrder

/-! ### The ordering of the term lists is not a strict weak ordering (root cause of finding F16)

`TwoParticleGFPart` keeps its terms in `std::set<Term, Compare>`.  `Gen.Chi4.termLess` is `Compare::operator()` as EXTRACTED
from the source: lexicographic on the three poles, where two poles closer than the tolerance count as equal.  `std::set`
requires the induced equivalence (`neither is less`) to be transitive.  It is not, for poles that differ by a fraction of the
tolerance: this is what happens on spectra with near-degenerate levels (finding F16; the reproduction is run against the
real library by the checks of C02 and C06). -/

/-- the equivalence `std::set` derives from the extracted comparator (instantiated at ℚ, tolerance = the extracted 1e-8) -/
def termEquiv (f1 : Bool) (p : ℚ × ℚ × ℚ) (f2 : Bool) (q : ℚ × ℚ × ℚ) : Bool :=
  !Gen.Chi4.termLess f1 p.1 p.2.1 p.2.2 f2 q.1 q.2.1 q.2.2 (Gen.Chi4.tolCompareNonRes : ℚ) &&
  !Gen.Chi4.termLess f2 q.1 q.2.1 q.2.2 f1 p.1 p.2.1 p.2.2 (Gen.Chi4.tolCompareNonRes : ℚ)

/-- Three terms whose third poles are 0, 0.6·10⁻⁸ and 1.2·10⁻⁸: the first is equivalent to the second, the second to the
third, but the first is NOT equivalent to the third -- the comparator the term lists are ordered by is not a strict weak
ordering, so `find`, `insert` and the re-insertion after an MPI broadcast may merge or lose terms depending on the order in
which they arrive. -/
theorem term_order_not_strict_weak :
    termEquiv false (0, 0, 0) false (0, 0, 6 / 10 ^ 9) = true ∧
    termEquiv false (0, 0, 6 / 10 ^ 9) false (0, 0, 12 / 10 ^ 9) = true ∧
    termEquiv false (0, 0, 0) false (0, 0, 12 / 10 ^ 9) = false := by
  refine ⟨?_, ?_, ?_⟩ <;>
    simp [termEquiv, Gen.Chi4.termLess, Gen.Chi4.tolCompareNonRes, Pomerol.absR] <;> norm_num

/-- the same for the first pole, where the comparator falls through to the next component -/
theorem term_order_not_strict_weak_first_pole :
    termEquiv true (0, 5, 0) true (6 / 10 ^ 9, 5, 0) = true ∧
    termEquiv true (6 / 10 ^ 9, 5, 0) true (12 / 10 ^ 9, 5, 0) = true ∧
    termEquiv true (0, 5, 0) true (12 / 10 ^ 9, 5, 0) = false := by
  refine ⟨?_, ?_, ?_⟩ <;>
    simp [termEquiv, Gen.Chi4.termLess, Gen.Chi4.tolCompareNonRes, Pomerol.absR] <;> norm_num

end termOrder

end Pomerol.Properties.C02
