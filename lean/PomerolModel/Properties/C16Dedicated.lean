/-
  Property C16, dedicated-master use: the job dispatcher runs every job exactly once and always
  terminates when rank 0 only dispatches (`MPIMaster(comm, jobs, include_boss = false)`, the usage
  pattern of test/mpi_dispatcher_test_nomaster.cpp).

  Model: `Model/DispatcherDedicated.lean` (transition system of the loop
  `for (; !master.is_finished();) { master.order(); master.check_workers(); }` on rank 0 and of the
  `MPIWorker` loop on the other ranks; a step = one rank performs its next `request::test()` with a
  given outcome).  The master's loop condition `is_finished()`, the condition of the Finish phase and
  the loop condition of `order()` are the definitions generated from the C++ source
  (`Generated/Disp.lean`).  The theorems quantify over every number of workers `N ≥ 1` (the
  constructor throws for an empty pool), every job list without repetitions (including the empty one
  and lists shorter than the number of workers), and every schedule -- every interleaving of the
  ranks and every delay of message visibility.  The inductive invariant and its proof are in
  `Spec/DispatcherDedicatedInv.lean`.  Several consecutive rounds on one communicator are
  independent because a finished round leaves no message behind (`dedicated_no_leaked_messages`).
-/
import PomerolModel.Spec.DispatcherDedicatedInv

namespace Pomerol.Properties.C16
open Pomerol.Model.DispD Pomerol.Spec.DispD
open Pomerol.Model.Disp (dmapGet)

/-- In every reachable state no job has been executed twice, and only jobs of this round, on workers
of the pool, have been executed. -/
theorem dedicated_every_job_at_most_once (N : Nat) (jobs : List Nat) (hN : 0 < N) (hnd : jobs.Nodup)
    (s : SysD) (h : Reachable N jobs s) :
    (s.log.map (·.1)).Nodup ∧ ∀ x ∈ s.log, x.1 ∈ jobs ∧ x.2 < N :=
  exec_at_most_once N jobs hN hnd s h

/-- Once the master and every worker have left their loops each job of the round has been executed
exactly once. -/
theorem dedicated_every_job_exactly_once_at_exit (N : Nat) (jobs : List Nat) (hN : 0 < N)
    (hnd : jobs.Nodup) (s : SysD) (h : Reachable N jobs s) (hf : allExited s = true) :
    ∀ j ∈ jobs, (s.log.filter (·.1 = j)).length = 1 := by
  intro j hj
  have h1 := (exec_at_most_once N jobs hN hnd s h).1
  have h2 := (final_complete N jobs hN hnd s h hf).1 j hj
  -- `j` occurs in the (duplicate-free) list of executed jobs, hence exactly once
  have hcount : (s.log.map (·.1)).count j = 1 := by
    rw [List.Nodup.count h1, if_pos h2]
  have : (s.log.filter (·.1 = j)).length = (s.log.map (·.1)).count j := by
    rw [List.count_eq_countP, List.countP_map, List.countP_eq_length_filter]
    congr 1
  rw [this, hcount]

/-- The job-to-worker map (the same object is broadcast to all ranks) names, for every executed job,
the worker that actually ran it; at exit it is defined exactly on the jobs of the round. -/
theorem dedicated_map_names_executing_rank (N : Nat) (jobs : List Nat) (hN : 0 < N) (hnd : jobs.Nodup)
    (s : SysD) (h : Reachable N jobs s) :
    (∀ x ∈ s.log, dmapGet s.m.dmap x.1 = some x.2) ∧
    (allExited s = true → ∀ j, (dmapGet s.m.dmap j).isSome ↔ j ∈ jobs) :=
  ⟨dmap_truth N jobs hN hnd s h, fun hf => (final_complete N jobs hN hnd s h hf).2.1⟩

/-- A finished round leaves no message in any channel and no active receive: consecutive rounds on
the same communicator do not interfere. -/
theorem dedicated_no_leaked_messages (N : Nat) (jobs : List Nat) (hN : 0 < N) (hnd : jobs.Nodup)
    (s : SysD) (h : Reachable N jobs s) (hf : allExited s = true) :
    (∀ d ∈ s.down, d = []) ∧ (∀ u ∈ s.up, u = 0) ∧ (∀ w ∈ s.m.wait, w = false) :=
  (final_complete N jobs hN hnd s h hf).2.2

/-- No deadlock: from every reachable state the round can be completed (the master and every worker
leave their loops). -/
theorem dedicated_no_deadlock (N : Nat) (jobs : List Nat) (hN : 0 < N) (hnd : jobs.Nodup) (s : SysD)
    (h : Reachable N jobs s) : ∃ sched s', run s sched = some s' ∧ allExited s' = true :=
  can_finish N jobs hN hnd s h

/-- Termination measure: no step increases it and every reception of a message strictly decreases
it, so every execution contains only finitely many receptions; together with `dedicated_no_deadlock`
and the MPI progress assumption (a sent message is eventually seen) every rank leaves its loop. -/
theorem dedicated_finitely_many_receptions (N : Nat) (jobs : List Nat) (hN : 0 < N) (hnd : jobs.Nodup)
    (s s' : SysD) (r : Nat) (b : Bool) (h : Reachable N jobs s) (hs : step s r b = some s') :
    measure s' ≤ measure s ∧ (b = true → measure s' < measure s) := by
  refine ⟨step_measure_le N jobs hN hnd s s' r b h hs, ?_⟩
  intro hb
  subst hb
  exact sees_measure_lt N jobs hN hnd s s' r h hs

/-- The master leaves its loop (`is_finished()` as the source has it) only after `Finish` has been
sent to every worker.  This is the statement that fails when `is_finished()` is replaced by "no jobs
left and all workers idle": in a round without jobs that condition already holds when the loop
condition is evaluated for the first time, the master would leave before `check_workers()` has
sent any `Finish`, and the workers would wait forever. -/
theorem dedicated_master_exit_after_finish (N : Nat) (jobs : List Nat) (hN : 0 < N) (hnd : jobs.Nodup)
    (s : SysD) (h : Reachable N jobs s) (hx : s.m.exited = true) :
    ∀ i, i < N → s.m.fin.getD i false = true :=
  master_exit_after_finish N jobs hN hnd s h hx

/-- Non-vacuity: a concrete round (master + 2 workers, 3 jobs) under a concrete schedule with delays
reaches a final state in which the hypotheses of the theorems above hold (rank 0 is the master, rank
`r > 0` the worker with pool index `r - 1`). -/
example : (run (init 2 [0, 1, 2]) [(1, false), (1, true), (0, false), (0, false), (0, true), (2, true),
    (0, true), (0, false), (2, false), (2, true), (0, false), (0, false), (0, true), (1, true),
    (2, false), (2, true)]).map
      (fun s => (allExited s, s.log)) = some (true, [(0, 0), (1, 1), (2, 1)]) := by
  decide

/-- Non-vacuity, a round with NO jobs: the master has not left its loop in the initial state (no
`Finish` has been sent yet), and a concrete schedule with delays completes the round. -/
example : (init 2 []).m.exited = false ∧
    (run (init 2 []) [(1, false), (0, false), (2, false), (0, false), (1, true), (2, true)]).map
      (fun s => (allExited s, s.log)) = some (true, []) := by
  decide

end Pomerol.Properties.C16
