/-
  Property C12: non-interacting limit.  For a Hamiltonian that is quadratic in the mode operators
  the single-particle Green's function computed from the Lehmann representation is the free
  propagator `(z − h)⁻¹`, and the irreducible vertex is what is left of the two-particle Green's
  function after the disconnected part `χ⁰` has been removed.

  Setting (`Spec/Wick.lean`, `Spec/GFProps.lean`): `d : EigenData ι` are the eigenvalues and Gibbs
  weights the library has computed (`d.H` is the diagonal matrix of eigenvalues); `c j` is the matrix
  of the annihilation operator of mode `j` in that eigenbasis; `ModeCAR c` says that the `c j`
  satisfy the canonical anticommutation relations (proved for the library's own matrices in C05);
  `h` is the single-particle matrix (not assumed Hermitian); `d.lehmannG A B z` is the Lehmann sum
  the library evaluates (C09).  Degenerate levels are included; `z` is any complex number that is
  not a pole.  The vertex formula is the one EXTRACTED FROM THE SOURCE (`Gen.Vertex.vertexValue`).
-/
import PomerolModel.Spec.Wick
import PomerolModel.Properties.C15

namespace Pomerol.Properties.C12
open Matrix Complex Pomerol Pomerol.Spec

variable {ι : Type} [Fintype ι] [DecidableEq ι] {J : Type} [Fintype J] [DecidableEq J]

/-- `[c_i, Σ_kl h_kl c†_k c_l] = Σ_l h_il c_l`: pure algebra from the anticommutation relations. -/
theorem commutator_with_quadratic (c : J → Matrix ι ι ℂ) (hc : ModeCAR c) (h : Matrix J J ℂ)
    (i : J) :
    c i * (∑ k, ∑ l, h k l • ((c k)ᴴ * c l)) - (∑ k, ∑ l, h k l • ((c k)ᴴ * c l)) * c i
      = ∑ l, h i l • c l :=
  comm_quadratic c hc h i

/-- Equation of motion in the eigenbasis of a quadratic Hamiltonian:
`(E_m − E_n) (c_i)_nm = Σ_l h_il (c_l)_nm`. -/
theorem equation_of_motion (d : EigenData ι) (c : J → Matrix ι ι ℂ) (hc : ModeCAR c)
    (h : Matrix J J ℂ) (hH : d.H = ∑ k, ∑ l, h k l • ((c k)ᴴ * c l)) (i : J) (n m : ι) :
    ((d.E m - d.E n : ℝ) : ℂ) * c i n m = ∑ l, h i l * c l n m :=
  eom_eigenbasis d c hc h hH i n m

/-- FREE PROPAGATOR: for a quadratic Hamiltonian the matrix of the Lehmann Green's functions
`G_lj(z) = ⟨⟨c_l ; c†_j⟩⟩_z` satisfies `(z − h) G(z) = 1`. -/
theorem free_propagator [Nonempty ι] (d : EigenData ι) (c : J → Matrix ι ι ℂ) (hc : ModeCAR c)
    (h : Matrix J J ℂ) (hH : d.H = ∑ k, ∑ l, h k l • ((c k)ᴴ * c l)) (z : ℂ)
    (hz : ∀ n m, z ≠ ((d.E m - d.E n : ℝ) : ℂ)) :
    (z • (1 : Matrix J J ℂ) - h) * (Matrix.of fun l j => d.lehmannG (c l) (c j)ᴴ z) = 1 :=
  Pomerol.Spec.free_propagator d c hc h hH z hz

/-- ... that is, `G(z) = (z − h)⁻¹`. -/
theorem free_propagator_is_inverse [Nonempty ι] (d : EigenData ι) (c : J → Matrix ι ι ℂ)
    (hc : ModeCAR c) (h : Matrix J J ℂ) (hH : d.H = ∑ k, ∑ l, h k l • ((c k)ᴴ * c l)) (z : ℂ)
    (hz : ∀ n m, z ≠ ((d.E m - d.E n : ℝ) : ℂ)) :
    (Matrix.of fun l j => d.lehmannG (c l) (c j)ᴴ z) = (z • (1 : Matrix J J ℂ) - h)⁻¹ :=
  free_propagator_inv d c hc h hH z hz

/-- The vertex the library returns is `χ − χ⁰` with the documented disconnected part
`χ⁰ = β (δ_{n2,n3} G14(n1) G23(n2) − δ_{n1,n3} G13(n1) G24(n2))`, for every two-particle function
`χ`, every quadruple of Green's functions, every β and every frequency triple.  Consequently the
vertex vanishes exactly when `χ = χ⁰` (Wick's theorem for a quadratic Hamiltonian). -/
theorem vertex_is_chi_minus_chi0 {R K : Type} [Add R] [Sub R] [Mul R] [Div R] [Neg R] [Zero R]
    [One R] [NatCast R] [LT R] [DecidableLT R] [HasExp R] [CommRing K] [Div K] [HasExp K]
    [CplxOver R K]
    (chi : Int → Int → Int → K) (G13 G24 G14 G23 : Int → K) (β : R) (n1 n2 n3 : Int) :
    Pomerol.Gen.Vertex.vertexValue chi G13 G24 G14 G23 β n1 n2 n3 =
      chi n1 n2 n3 - C15.chi0 G13 G24 G14 G23 (CplxOver.ofReal β) n1 n2 n3 :=
  C15.vertex_formula chi G13 G24 G14 G23 β n1 n2 n3

/-- ... hence it is zero if and only if the two-particle function equals its disconnected part. -/
theorem vertex_vanishes_iff {R K : Type} [Add R] [Sub R] [Mul R] [Div R] [Neg R] [Zero R]
    [One R] [NatCast R] [LT R] [DecidableLT R] [HasExp R] [CommRing K] [Div K] [HasExp K]
    [CplxOver R K]
    (chi : Int → Int → Int → K) (G13 G24 G14 G23 : Int → K) (β : R) (n1 n2 n3 : Int) :
    Pomerol.Gen.Vertex.vertexValue chi G13 G24 G14 G23 β n1 n2 n3 = 0 ↔
      chi n1 n2 n3 = C15.chi0 G13 G24 G14 G23 (CplxOver.ofReal β) n1 n2 n3 := by
  rw [vertex_is_chi_minus_chi0, sub_eq_zero]

end Pomerol.Properties.C12
