/-
  Property C12: non-interacting limit.  For a Hamiltonian that is quadratic in the mode operators
  the single-particle Green's function computed from the Lehmann representation is the free
  propagator `(z − h)⁻¹`, and the irreducible vertex is what is left of the two-particle Green's
  function after the disconnected part `χ⁰` has been removed.

  Setting (`Spec/Wick.lean`, `Spec/GFProps.lean`): `d : EigenData ι` are the eigenvalues and Gibbs
  weights the library has computed (`d.H` is the diagonal matrix of eigenvalues); `c j` is the matrix
  of the annihilation operator of mode `j` in that eigenbasis; `ModeCAR c` says that the `c j`
  satisfy the canonical anticommutation relations (proved for the library's own matrices in C05);
  `h` is the single-particle matrix (not assumed Hermitian); `d.lehmannG A B z` is the Lehmann sum
  the library evaluates (C09).  Degenerate levels are included; `z` is any complex number that is
  not a pole.  The vertex formula is the one EXTRACTED FROM THE SOURCE (`Gen.Vertex.vertexValue`).
-/
import PomerolModel.Spec.Wick
import PomerolModel.Spec.WickChi4
import PomerolModel.Properties.C15

namespace Pomerol.Properties.C12
open Matrix Complex Pomerol Pomerol.Spec

variable {ι : Type} [Fintype ι] [DecidableEq ι] {J : Type} [Fintype J] [DecidableEq J]

/-- `[c_i, Σ_kl h_kl c†_k c_l] = Σ_l h_il c_l`: pure algebra from the anticommutation relations. -/
theorem commutator_with_quadratic (c : J → Matrix ι ι ℂ) (hc : ModeCAR c) (h : Matrix J J ℂ)
    (i : J) :
    c i * (∑ k, ∑ l, h k l • ((c k)ᴴ * c l)) - (∑ k, ∑ l, h k l • ((c k)ᴴ * c l)) * c i
      = ∑ l, h i l • c l :=
  comm_quadratic c hc h i

/-- Equation of motion in the eigenbasis of a quadratic Hamiltonian:
`(E_m − E_n) (c_i)_nm = Σ_l h_il (c_l)_nm`. -/
theorem equation_of_motion (d : EigenData ι) (c : J → Matrix ι ι ℂ) (hc : ModeCAR c)
    (h : Matrix J J ℂ) (hH : d.H = ∑ k, ∑ l, h k l • ((c k)ᴴ * c l)) (i : J) (n m : ι) :
    ((d.E m - d.E n : ℝ) : ℂ) * c i n m = ∑ l, h i l * c l n m :=
  eom_eigenbasis d c hc h hH i n m

/-- FREE PROPAGATOR: for a quadratic Hamiltonian the matrix of the Lehmann Green's functions
`G_lj(z) = ⟨⟨c_l ; c†_j⟩⟩_z` satisfies `(z − h) G(z) = 1`. -/
theorem free_propagator [Nonempty ι] (d : EigenData ι) (c : J → Matrix ι ι ℂ) (hc : ModeCAR c)
    (h : Matrix J J ℂ) (hH : d.H = ∑ k, ∑ l, h k l • ((c k)ᴴ * c l)) (z : ℂ)
    (hz : ∀ n m, z ≠ ((d.E m - d.E n : ℝ) : ℂ)) :
    (z • (1 : Matrix J J ℂ) - h) * (Matrix.of fun l j => d.lehmannG (c l) (c j)ᴴ z) = 1 :=
  Pomerol.Spec.free_propagator d c hc h hH z hz

/-- ... that is, `G(z) = (z − h)⁻¹`. -/
theorem free_propagator_is_inverse [Nonempty ι] (d : EigenData ι) (c : J → Matrix ι ι ℂ)
    (hc : ModeCAR c) (h : Matrix J J ℂ) (hH : d.H = ∑ k, ∑ l, h k l • ((c k)ᴴ * c l)) (z : ℂ)
    (hz : ∀ n m, z ≠ ((d.E m - d.E n : ℝ) : ℂ)) :
    (Matrix.of fun l j => d.lehmannG (c l) (c j)ᴴ z) = (z • (1 : Matrix J J ℂ) - h)⁻¹ :=
  free_propagator_inv d c hc h hH z hz

/-- The vertex the library returns is `χ − χ⁰` with the documented disconnected part
`χ⁰ = β (δ_{n2,n3} G14(n1) G23(n2) − δ_{n1,n3} G13(n1) G24(n2))`, for every two-particle function
`χ`, every quadruple of Green's functions, every β and every frequency triple.  Consequently the
vertex vanishes exactly when `χ = χ⁰` (Wick's theorem for a quadratic Hamiltonian). -/
theorem vertex_is_chi_minus_chi0 {R K : Type} [Add R] [Sub R] [Mul R] [Div R] [Neg R] [Zero R]
    [One R] [NatCast R] [LT R] [DecidableLT R] [HasExp R] [CommRing K] [Div K] [HasExp K]
    [CplxOver R K]
    (chi : Int → Int → Int → K) (G13 G24 G14 G23 : Int → K) (β : R) (n1 n2 n3 : Int) :
    Pomerol.Gen.Vertex.vertexValue chi G13 G24 G14 G23 β n1 n2 n3 =
      chi n1 n2 n3 - C15.chi0 G13 G24 G14 G23 (CplxOver.ofReal β) n1 n2 n3 :=
  C15.vertex_formula chi G13 G24 G14 G23 β n1 n2 n3

/-- ... hence it is zero if and only if the two-particle function equals its disconnected part. -/
theorem vertex_vanishes_iff {R K : Type} [Add R] [Sub R] [Mul R] [Div R] [Neg R] [Zero R]
    [One R] [NatCast R] [LT R] [DecidableLT R] [HasExp R] [CommRing K] [Div K] [HasExp K]
    [CplxOver R K]
    (chi : Int → Int → Int → K) (G13 G24 G14 G23 : Int → K) (β : R) (n1 n2 n3 : Int) :
    Pomerol.Gen.Vertex.vertexValue chi G13 G24 G14 G23 β n1 n2 n3 = 0 ↔
      chi n1 n2 n3 = C15.chi0 G13 G24 G14 G23 (CplxOver.ofReal β) n1 n2 n3 := by
  rw [vertex_is_chi_minus_chi0, sub_eq_zero]

/-! ### Second half: Wick factorisation of the two-particle Green's function

Proved in `Spec/WickChi4.lean` by the equation of motion in frequency space, entirely at the level
of the Lehmann sums the library evaluates (no time integrals):
`Σ_{i'} (z₀ − h)_{ii'} χ_{i'jkl}(z₀,z₁,z₂) = β([z₁+z₂=0] δ_il G_jk(z₁) − [z₀+z₂=0] δ_ik G_jl(z₁))`
(`chi4_equation_of_motion`), multiplied by `G(z₀) = (z₀ − h)⁻¹`. -/

/-- Equation of motion of the two-particle Green's function of a quadratic Hamiltonian
`H = Σ_kl h_kl c†_k c_l`, in frequency space:
`Σ_{i'} (z₀ δ_{ii'} − h_{ii'}) χ_{i'jkl}(z₀,z₁,z₂) = β([z₁+z₂=0] δ_il G_jk(z₁) − [z₀+z₂=0] δ_ik G_jl(z₁))`
for all `z` with `e^{βz} = −1` (e.g. `z₀ = iω₁`, `z₁ = iω₂`, `z₂ = −iω₃`), degenerate levels and all
resonances included. -/
theorem two_particle_equation_of_motion (d : EigenData ι) (c : J → Matrix ι ι ℂ) (hc : ModeCAR c)
    (h : Matrix J J ℂ) (hH : d.H = ∑ k, ∑ l, h k l • ((c k)ᴴ * c l)) (i j k l : J)
    (z : Fin 3 → ℂ) (hz : ∀ m, Complex.exp ((d.β:ℂ) * z m) = -1) :
    ∑ i', (z 0 • (1 : Matrix J J ℂ) - h) i i' *
        d.chiLehmann ![c i', c j, (c k)ᴴ] (c l)ᴴ z
      = (d.β : ℂ) *
        ((if z 1 + z 2 = 0 then (if i = l then d.lehmannG (c j) (c k)ᴴ (z 1) else 0) else 0)
          - (if z 0 + z 2 = 0 then (if i = k then d.lehmannG (c j) (c l)ᴴ (z 1) else 0) else 0)) :=
  chi4_equation_of_motion d c hc h hH i j k l z hz

/-- WICK FACTORISATION (C12, second half).  For every Hamiltonian quadratic in the fermion
operators, `H = Σ_kl h_kl c†_k c_l` (`h` arbitrary, levels possibly degenerate), the two-particle
Green's function the library evaluates,
`χ_{ijkl}(ω₁,ω₂;ω₃) = ∫∫∫ ⟨T c_i(τ₁) c_j(τ₂) c†_k(τ₃) c†_l(0)⟩ e^{iω₁τ₁+iω₂τ₂−iω₃τ₃}`,
is the antisymmetrised product of single-particle Green's functions:
`χ_{ijkl}(ω₁,ω₂;ω₃) = β ( δ_{ω₂,ω₃} G_il(iω₁) G_jk(iω₂) − δ_{ω₁,ω₃} G_ik(iω₁) G_jl(iω₂) )`
for every index quadruple and every triple of fermionic Matsubara numbers (coinciding frequencies
included).  This is exactly the disconnected part `χ⁰` of `C15.chi0` with
`G13 = G_ik`, `G24 = G_jl`, `G14 = G_il`, `G23 = G_jk`. -/
theorem two_particle_function_factorises (d : EigenData ι) (c : J → Matrix ι ι ℂ)
    (hc : ModeCAR c) (h : Matrix J J ℂ) (hH : d.H = ∑ k, ∑ l, h k l • ((c k)ᴴ * c l))
    (i j k l : J) (k1 k2 k3 : ℤ) :
    d.chiLehmann ![c i, c j, (c k)ᴴ] (c l)ᴴ
        ![I * (d.ω k1 : ℂ), I * (d.ω k2 : ℂ), -(I * (d.ω k3 : ℂ))]
      = C15.chi0
          (fun a => d.lehmannG (c i) (c k)ᴴ (I * (d.ω a : ℂ)))
          (fun a => d.lehmannG (c j) (c l)ᴴ (I * (d.ω a : ℂ)))
          (fun a => d.lehmannG (c i) (c l)ᴴ (I * (d.ω a : ℂ)))
          (fun a => d.lehmannG (c j) (c k)ᴴ (I * (d.ω a : ℂ)))
          (d.β : ℂ) k1 k2 k3 := by
  rw [wick_chi4 d c hc h hH]
  rfl

/-- The same at the level of the DEFINITIONS: the signed sum of the six time-ordered simplex
integrals of the four-operator correlator equals `β(δ G_il G_jk − δ G_ik G_jl)` with
`G_ab(iω_n) = −∫₀^β ⟨c_a(τ) c†_b(0)⟩ e^{iω_nτ} dτ`. -/
theorem two_particle_function_factorises_def (d : EigenData ι) (c : J → Matrix ι ι ℂ)
    (hc : ModeCAR c) (h : Matrix J J ℂ) (hH : d.H = ∑ k, ∑ l, h k l • ((c k)ᴴ * c l))
    (i j k l : J) (k1 k2 k3 : ℤ) :
    d.chiDef ![c i, c j, (c k)ᴴ] (c l)ᴴ
        ![I * (d.ω k1 : ℂ), I * (d.ω k2 : ℂ), -(I * (d.ω k3 : ℂ))]
      = (d.β : ℂ) *
        ((if k2 = k3 then d.Gdef (c i) (c l)ᴴ k1 * d.Gdef (c j) (c k)ᴴ k2 else 0)
          - (if k1 = k3 then d.Gdef (c i) (c k)ᴴ k1 * d.Gdef (c j) (c l)ᴴ k2 else 0)) :=
  wick_chiDef d c hc h hH i j k l k1 k2 k3

/-- THE IRREDUCIBLE VERTEX VANISHES (C12, second half).  `Vertex4::value` as extracted from the
source, evaluated on the two-particle Green's function and the four single-particle Green's
functions (`G13 = G_ik`, `G24 = G_jl`, `G14 = G_il`, `G23 = G_jk`) the library computes for a
quadratic Hamiltonian, is exactly zero for every index quadruple `(i,j,k,l)` and every triple of
Matsubara numbers `(n1,n2,n3)`, including coinciding frequencies and degenerate levels. -/
theorem vertex_vanishes_for_quadratic_hamiltonians (d : EigenData ι) (c : J → Matrix ι ι ℂ)
    (hc : ModeCAR c) (h : Matrix J J ℂ) (hH : d.H = ∑ k, ∑ l, h k l • ((c k)ᴴ * c l))
    (i j k l : J) (n1 n2 n3 : ℤ) :
    Pomerol.Gen.Vertex.vertexValue (R := ℝ) (K := ℂ)
      (fun a b e => d.chiLehmann ![c i, c j, (c k)ᴴ] (c l)ᴴ
        ![I * (d.ω a : ℂ), I * (d.ω b : ℂ), -(I * (d.ω e : ℂ))])
      (fun a => d.lehmannG (c i) (c k)ᴴ (I * (d.ω a : ℂ)))
      (fun a => d.lehmannG (c j) (c l)ᴴ (I * (d.ω a : ℂ)))
      (fun a => d.lehmannG (c i) (c l)ᴴ (I * (d.ω a : ℂ)))
      (fun a => d.lehmannG (c j) (c k)ᴴ (I * (d.ω a : ℂ)))
      d.β n1 n2 n3 = 0 := by
  rw [vertex_vanishes_iff]
  exact two_particle_function_factorises d c hc h hH i j k l n1 n2 n3

/-! ### Sanity example: one spinless level

`H = 2 c†c` at `β = 1` on the Fock space `{|0⟩, |1⟩}` (energies `0, 2`), `c = |0⟩⟨1|`, `h = (2)`.
All hypotheses of the theorems above hold, `G(iω) = 1/(iω − 2)`, and
`χ_{0000}(ω₁,ω₂;ω₃) = (δ_{ω₂ω₃} − δ_{ω₁ω₃}) / ((iω₁ − 2)(iω₂ − 2))`. -/

/-- eigen-data: β = 1, energies 0 and 2 -/
noncomputable def exD : EigenData (Fin 2) := ⟨1, one_pos, ![0, 2]⟩
/-- the annihilation operator `c = |0⟩⟨1|` -/
def exC : Unit → Matrix (Fin 2) (Fin 2) ℂ := fun _ => !![0, 1; 0, 0]
/-- the single-particle matrix `h = (2)` -/
def exH : Matrix Unit Unit ℂ := fun _ _ => 2

theorem exC_adj (i : Unit) : (exC i)ᴴ = !![0, 0; 1, 0] := by
  ext a b
  fin_cases a <;> fin_cases b <;> simp [exC, Matrix.conjTranspose_apply]

theorem exC_car : ModeCAR exC := by
  constructor
  · intro i j
    rw [exC_adj]
    ext a b
    fin_cases a <;> fin_cases b <;> simp [exC]
  · intro i j
    ext a b
    fin_cases a <;> fin_cases b <;> simp [exC]

theorem exD_H : exD.H = ∑ k, ∑ l, exH k l • ((exC k)ᴴ * exC l) := by
  simp only [exC_adj]
  ext a b
  fin_cases a <;> fin_cases b <;> simp [EigenData.H, exD, exC, exH]

theorem exG (k : ℤ) :
    exD.lehmannG (exC ()) (exC ())ᴴ (I * (exD.ω k : ℂ)) = 1 / (I * (exD.ω k : ℂ) - 2) := by
  have hexp : Complex.exp ((exD.β:ℂ) * (I * (exD.ω k : ℂ))) = -1 := by
    rw [← exp_I_omega_beta exD k]
    congr 1
    ring
  have hpole : ∀ n m, I * (exD.ω k : ℂ) ≠ ((exD.E m - exD.E n : ℝ) : ℂ) := fun n m =>
    sub_ne_zero.mp (sub_ofReal_ne_zero_of_exp_eq_neg_one hexp _)
  have h := Pomerol.Spec.free_propagator exD exC exC_car exH exD_H _ hpole
  have h00 := congrFun (congrFun h ()) ()
  rw [Matrix.mul_apply] at h00
  simp only [Finset.univ_unique, Finset.sum_singleton, Matrix.sub_apply, Matrix.smul_apply,
    Matrix.one_apply_eq, smul_eq_mul, mul_one, Matrix.of_apply, exH] at h00
  have hne : I * (exD.ω k : ℂ) - 2 ≠ 0 := by
    have := sub_ofReal_ne_zero_of_exp_eq_neg_one hexp 2
    simpa using this
  rw [eq_div_iff hne]
  linear_combination h00

/-- the example: hypotheses satisfied (non-vacuity) and the explicit value of χ -/
example (k1 k2 k3 : ℤ) :
    exD.chiLehmann ![exC (), exC (), (exC ())ᴴ] (exC ())ᴴ
        ![I * (exD.ω k1 : ℂ), I * (exD.ω k2 : ℂ), -(I * (exD.ω k3 : ℂ))]
      = ((if k2 = k3 then 1 else 0) - (if k1 = k3 then 1 else 0))
          / ((I * (exD.ω k1 : ℂ) - 2) * (I * (exD.ω k2 : ℂ) - 2)) := by
  rw [wick_chi4 exD exC exC_car exH exD_H, exG, exG]
  have hβ : (exD.β : ℂ) = 1 := by simp [exD]
  rw [hβ]
  generalize I * (exD.ω k1 : ℂ) - 2 = a
  generalize I * (exD.ω k2 : ℂ) - 2 = b
  by_cases h23 : k2 = k3 <;> by_cases h13 : k1 = k3 <;>
    simp only [h23, h13, if_true, if_false] <;> ring

/-- ... and its vertex is zero -/
example (n1 n2 n3 : ℤ) :
    Pomerol.Gen.Vertex.vertexValue (R := ℝ) (K := ℂ)
      (fun a b e => exD.chiLehmann ![exC (), exC (), (exC ())ᴴ] (exC ())ᴴ
        ![I * (exD.ω a : ℂ), I * (exD.ω b : ℂ), -(I * (exD.ω e : ℂ))])
      (fun a => exD.lehmannG (exC ()) (exC ())ᴴ (I * (exD.ω a : ℂ)))
      (fun a => exD.lehmannG (exC ()) (exC ())ᴴ (I * (exD.ω a : ℂ)))
      (fun a => exD.lehmannG (exC ()) (exC ())ᴴ (I * (exD.ω a : ℂ)))
      (fun a => exD.lehmannG (exC ()) (exC ())ᴴ (I * (exD.ω a : ℂ)))
      exD.β n1 n2 n3 = 0 :=
  vertex_vanishes_for_quadratic_hamiltonians exD exC exC_car exH exD_H () () () () n1 n2 n3

end Pomerol.Properties.C12
