/-
  Property C14: the dynamical susceptibility the library evaluates equals its definition
  `χ_AB(iΩ_k) = ∫₀^β ⟨A(τ) B(0)⟩ e^{iΩ_k τ} dτ`, at every bosonic Matsubara frequency including the
  static one (k = 0, degenerate levels), and the imaginary-time values are consistent with it.

  Setting: `d : EigenData ι` (β > 0, eigenvalues `d.E`, Gibbs weights `d.w`), `A`, `B` the matrices
  of the two operators in the eigenbasis, `d.Ω k = 2kπ/β`,
  `d.corr A B τ = Tr(ρ e^{τH} A e^{−τH} B)` (genuine matrix exponentials),
  `d.suscDef A B k = ∫₀^β d.corr A B τ · e^{iΩ_k τ} dτ`.  The formulas in namespace `Gen.Susc` are
  EXTRACTED FROM THE SOURCE (`SusceptibilityPart.cpp`): `residue`, `pole`, `termFreq` for a pair
  of non-degenerate levels, `zeroPoleIncrement` for a pair of degenerate levels, `termTau` for the
  imaginary-time value of a term, `disconnectedFreq/Tau` for the subtracted `⟨A⟩⟨B⟩` part.

  All statements are re-exports / direct combinations of theorems of `Spec/Susc.lean` and
  `Spec/Bridge.lean` (fully proved).  The degeneracy test is the exact one (`E_m = E_n`) in the first five theorems; the section at the end states what the extracted TOLERANCE tests change (finding F14).
-/
import PomerolModel.Spec.Bridge
import PomerolModel.Spec.SuscTol

namespace Pomerol.Properties.C14
open Matrix Complex Pomerol Pomerol.Spec

variable {ι : Type} [Fintype ι] [DecidableEq ι]

/-- The value given by the extracted formulas -- a term `−R/(iΩ_k − P)` for every pair of
eigenstates with different energies, and `β·(zero-pole weight)` at `k = 0` only for every pair with
equal energies -- summed over all pairs of eigenstates, equals the definition
`∫₀^β ⟨A(τ)B(0)⟩ e^{iΩ_k τ} dτ`.  For every spectrum (degeneracies allowed), all matrices, every
`k : ℤ`. -/
theorem susceptibility_equals_definition (d : EigenData ι) (A B : Matrix ι ι ℂ) (k : ℤ) :
    (∑ n, ∑ m, if d.E m = d.E n then
        (if k = 0 then Gen.Susc.zeroPoleIncrement (A n m) (B m n) (d.w n) * (d.β : ℂ) else 0)
      else Gen.Susc.termFreq (Gen.Susc.residue (A n m) (B m n) (d.w n) (d.w m))
        (Gen.Susc.pole (d.E m) (d.E n)) (Complex.I * (d.Ω k : ℂ)))
    = d.suscDef A B k :=
  Bridge.susc_sum d A B k

/-- Static limit: at `k = 0` (where `e^{iΩτ} = 1`, so the definition is `∫₀^β ⟨A(τ)B(0)⟩ dτ`) the
pairs of degenerate levels contribute `β · w_n · A_nm · B_mn`, the other pairs
`A_nm B_mn (w_n − w_m) / (E_m − E_n)`.  No term is singular and none is lost. -/
theorem static_limit (d : EigenData ι) (A B : Matrix ι ι ℂ) :
    d.suscDef A B 0 = ∑ n, ∑ m, if d.E m = d.E n then (d.β : ℂ) * (d.w n : ℂ) * A n m * B m n
      else A n m * B m n * ((d.w n : ℂ) - (d.w m : ℂ)) / ((d.E m - d.E n : ℝ) : ℂ) := by
  rw [lehmann_susc]
  unfold EigenData.lehmannSusc
  refine Finset.sum_congr rfl fun n _ => Finset.sum_congr rfl fun m _ => ?_
  have h0 : d.Ω 0 = 0 := (Omega_eq_zero_iff d 0).mpr rfl
  rw [h0, if_pos rfl]
  split_ifs with h
  · rfl
  · rw [Complex.ofReal_zero, mul_zero, zero_sub, neg_div_neg_eq]

/-- The imaginary-time values: the sum over all pairs of eigenstates of `w_n A_nm B_mn` (degenerate
pair) resp. the τ-term with residue `A_nm B_mn (w_n − w_m)` and pole `E_m − E_n` (non-degenerate
pair) IS the correlator `⟨A(τ) B(0)⟩`, for every real `τ`. -/
theorem tau_is_correlator (d : EigenData ι) (A B : Matrix ι ι ℂ) (τ : ℝ) :
    (∑ n, ∑ m, if d.E m = d.E n then (d.w n : ℂ) * A n m * B m n
               else suscTauTerm d.β (A n m * B m n * ((d.w n : ℂ) - (d.w m : ℂ)))
                      (d.E m - d.E n) τ)
      = d.corr A B τ :=
  susc_tau_eq_corr d A B τ

/-- The two domains are consistent: the EXTRACTED imaginary-time formula of one term (two branches,
selected by the sign of the pole to avoid overflow) is `suscTauTerm` in both branches, for all
arguments; and for a non-zero pole its Fourier transform `∫₀^β · e^{iΩ_k τ} dτ` is the frequency-domain
term `−R/(iΩ_k − P)`, for every `k : ℤ`. -/
theorem tau_frequency_consistent :
    (∀ (res : ℂ) (P τ β : ℝ), Gen.Susc.termTau res P τ β = suscTauTerm β res P τ) ∧
    ∀ (d : EigenData ι) (R : ℂ) (P : ℝ), P ≠ 0 → ∀ k : ℤ,
      ∫ τ in (0:ℝ)..d.β, Gen.Susc.termTau R P τ d.β * Complex.exp (I * (d.Ω k : ℂ) * (τ:ℂ))
        = Gen.Susc.termFreq R P (I * (d.Ω k : ℂ)) := by
  refine ⟨Bridge.susc_tau_all, fun d R P hP k => ?_⟩
  simp only [Bridge.susc_tau_all]
  rw [suscTauTerm_forward d R P hP k]
  rfl

/-- The disconnected part: the extracted τ-domain value is the constant `⟨A⟩⟨B⟩`, the extracted
frequency-domain value is `⟨A⟩⟨B⟩·β`, and the latter (at `k = 0`; zero at all other bosonic
frequencies) is the Fourier transform of the former -- so subtracting it in either domain is the
same operation. -/
theorem disconnected_part (d : EigenData ι) (aveA aveB : ℂ) (k : ℤ) :
    ∫ τ in (0:ℝ)..d.β, Gen.Susc.disconnectedTau aveA aveB * Complex.exp (I * (d.Ω k : ℂ) * (τ:ℂ))
      = if k = 0 then Gen.Susc.disconnectedFreq aveA aveB d.β else 0 := by
  rw [const_transform, (Bridge.susc_disconnected aveA aveB d.β).1,
    (Bridge.susc_disconnected aveA aveB d.β).2, mul_comm]

/-- Concrete instance: for a pair of degenerate levels the extracted zero-pole increment is
`A_nm · B_mn · w_n` (here with numbers). -/
example : Gen.Susc.zeroPoleIncrement (2 : ℂ) 3 (1/2 : ℝ) = 3 := by
  rw [Bridge.susc_zeroPole]
  norm_num

/-! ### the library's tolerance tests (finding F14)

The theorems above idealise the two tolerance tests of `SusceptibilityPart::compute` to the exact
test `E_m = E_n`.  Below, `suscWithTolerances d A B k rtol mtol` is the value obtained with the
EXTRACTED tests: for every pair `(n, m)`, if `Gen.Susc.isZeroPole (E_m − E_n) rtol`
(`|E_m − E_n| < rtol`) the pair adds `A_nm B_mn w_n` to the zero-pole weight (contributing `β·`that
at `k = 0` only); otherwise its term `−R/(iΩ_k − P)`, `R = A_nm B_mn (w_n − w_m)`, is kept only if
`Gen.Susc.residueKept R mtol` (`mtol < |R|`). -/

/-- The extracted tolerance constants of `SusceptibilityPart` (`ReduceResonanceTolerance`,
`MatrixElementTolerance`) are both `10⁻⁸`. -/
theorem library_tolerances :
    (Gen.Susc.tolResonance : ℝ) = 1 / 10 ^ 8 ∧ (Gen.Susc.tolMatrixElement : ℝ) = 1 / 10 ^ 8 :=
  Bridge.susc_tolerances

/-- What the library computes, with its own tolerances `10⁻⁸` (the extracted constants), accounted
for exactly: it is the definition `∫₀^β ⟨A(τ)B(0)⟩ e^{iΩ_k τ} dτ`
MINUS the exact Lehmann terms `−R/(iΩ_k − P)` of all pairs of levels that are split by at least
`10⁻⁸` but whose residue `R = A_nm B_mn (w_n − w_m)` has modulus at most `10⁻⁸` (these terms are
dropped by the residue filter),
MINUS, for all pairs of levels that are split by less than `10⁻⁸` without being exactly
degenerate, the difference between their exact Lehmann term and the zero-pole treatment
(`β w_n A_nm B_mn` at `k = 0`, nothing at `k ≠ 0`) they receive instead.
Nothing else is lost or added: for every spectrum, all matrices, every `k : ℤ`. -/
theorem value_with_library_tolerances (d : EigenData ι) (A B : Matrix ι ι ℂ) (k : ℤ) :
    suscWithTolerances d A B k Gen.Susc.tolResonance Gen.Susc.tolMatrixElement =
      d.suscDef A B k
      - (∑ n, ∑ m,
          if (1 / 10 ^ 8 : ℝ) ≤ |d.E m - d.E n| ∧
              ‖A n m * B m n * ((d.w n : ℂ) - (d.w m : ℂ))‖ ≤ (1 / 10 ^ 8 : ℝ) then
            -(A n m * B m n * ((d.w n : ℂ) - (d.w m : ℂ)))
              / (I * (d.Ω k : ℂ) - ((d.E m - d.E n : ℝ) : ℂ)) else 0)
      - (∑ n, ∑ m,
          if 0 < |d.E m - d.E n| ∧ |d.E m - d.E n| < (1 / 10 ^ 8 : ℝ) then
            -(A n m * B m n * ((d.w n : ℂ) - (d.w m : ℂ)))
              / (I * (d.Ω k : ℂ) - ((d.E m - d.E n : ℝ) : ℂ))
            - (if k = 0 then (d.β : ℂ) * (d.w n : ℂ) * A n m * B m n else 0) else 0) := by
  rw [Bridge.susc_tolerances.1, Bridge.susc_tolerances.2]
  exact suscWithTolerances_eq d A B k _ _ (by norm_num)

/-- The library's value IS the definition when there is no near-degeneracy and no tiny residue:
if every pair of levels is either exactly degenerate, or split by at least the resonance tolerance
with a residue `A_nm B_mn (w_n − w_m)` that is either larger than the matrix-element tolerance or
exactly zero (e.g. a vanishing matrix element).  Any tolerances `rtol > 0`, `mtol`; in particular
the library's `10⁻⁸`.  (`Spec/SuscTol.lean`, `twoLevel_clean`, shows a two-level system satisfying
the hypothesis with the library's tolerances.) -/
theorem exact_when_no_near_degeneracy (d : EigenData ι) (A B : Matrix ι ι ℂ) (k : ℤ)
    (rtol mtol : ℝ) (hr : 0 < rtol)
    (h : ∀ n m, d.E m = d.E n ∨ (rtol ≤ |d.E m - d.E n| ∧
      (mtol < ‖A n m * B m n * ((d.w n : ℂ) - (d.w m : ℂ))‖ ∨
        A n m * B m n * ((d.w n : ℂ) - (d.w m : ℂ)) = 0))) :
    suscWithTolerances d A B k rtol mtol = d.suscDef A B k :=
  suscWithTolerances_exact_of_clean_spectrum d A B k rtol mtol hr h

/-- KNOWN FINDING F14 (a defect of the library, stated about the extracted tests and constants).
The residue filter `|Residue| > 10⁻⁸` drops terms whose static contribution `Residue/Pole` is of
order one.  Witness: two levels `0` and `2·10⁻⁸` at `β = 1`, `A = |0⟩⟨1|`, `B = |1⟩⟨0|`.  The pair
is not a zero pole (`2·10⁻⁸ ≥ 10⁻⁸`), its residue `w₀ − w₁ = tanh(10⁻⁸)` is `≤ 10⁻⁸`, so the term is
dropped and the library's formula gives `χ(iΩ₀) = 0`; the definition `∫₀^β ⟨A(τ)B(0)⟩ dτ` is real
and `≥ 1/5` (its value is `≈ β/2 = 1/2`).  In general (`residue_filter_loses_static_term`): for a
single pair outside the window with `|a b (w_n − w_m)| ≤ mtol` the library gives `0` where the
definition is `a b (w_n − w_m)/(E_m − E_n)`. -/
theorem known_finding_F14_residue_filter :
    ∃ (d : EigenData (Fin 2)) (A B : Matrix (Fin 2) (Fin 2) ℂ),
      d.β = 1 ∧ d.E = ![0, 2 / 10 ^ 8] ∧ A = Matrix.single 0 1 1 ∧ B = Matrix.single 1 0 1 ∧
      suscWithTolerances d A B 0 Gen.Susc.tolResonance Gen.Susc.tolMatrixElement = 0 ∧
      (d.suscDef A B 0).im = 0 ∧ 1 / 5 ≤ (d.suscDef A B 0).re :=
  residue_filter_counterexample

/-- The parametric form of F14: `A` and `B` with the single non-zero entries `A n m = a`,
`B m n = b`; levels `n`, `m` with `E_m ≠ E_n` outside the resonance window; residue not above the
matrix-element tolerance.  Then the value with tolerances at `k = 0` is `0`, the definition is
`a b (w_n − w_m)/(E_m − E_n)`. -/
theorem F14_parametric (d : EigenData ι) (n m : ι) (a b : ℂ) (rtol mtol : ℝ)
    (hE : d.E m ≠ d.E n) (hP : rtol ≤ |d.E m - d.E n|)
    (hR : ‖a * b * ((d.w n : ℂ) - (d.w m : ℂ))‖ ≤ mtol) :
    suscWithTolerances d (Matrix.single n m a) (Matrix.single m n b) 0 rtol mtol = 0 ∧
    d.suscDef (Matrix.single n m a) (Matrix.single m n b) 0
      = a * b * ((d.w n : ℂ) - (d.w m : ℂ)) / ((d.E m - d.E n : ℝ) : ℂ) :=
  residue_filter_loses_static_term d n m a b rtol mtol hE hP hR

end Pomerol.Properties.C14
