/-
  Property C14: the dynamical susceptibility the library evaluates equals its definition
  `χ_AB(iΩ_k) = ∫₀^β ⟨A(τ) B(0)⟩ e^{iΩ_k τ} dτ`, at every bosonic Matsubara frequency including the
  static one (k = 0, degenerate levels), and the imaginary-time values are consistent with it.

  Setting: `d : EigenData ι` (β > 0, eigenvalues `d.E`, Gibbs weights `d.w`), `A`, `B` the matrices
  of the two operators in the eigenbasis, `d.Ω k = 2kπ/β`,
  `d.corr A B τ = Tr(ρ e^{τH} A e^{−τH} B)` (genuine matrix exponentials),
  `d.suscDef A B k = ∫₀^β d.corr A B τ · e^{iΩ_k τ} dτ`.  The formulas in namespace `Gen.Susc` are
  EXTRACTED FROM THE SOURCE (`SusceptibilityPart.cpp`): `residue`, `pole`, `termFreq` for a pair
  of non-degenerate levels, `zeroPoleIncrement` for a pair of degenerate levels, `termTau` for the
  imaginary-time value of a term, `disconnectedFreq/Tau` for the subtracted `⟨A⟩⟨B⟩` part.

  All statements are re-exports / direct combinations of theorems of `Spec/Susc.lean` and
  `Spec/Bridge.lean` (fully proved).  The degeneracy test is the exact one (`E_m = E_n`) in the first five theorems; the section at the end states what the extracted TOLERANCE tests change (finding F14).
-/
import PomerolModel.Spec.Bridge
import PomerolModel.Spec.SuscTol
import PomerolModel.Spec.SuscRefine

namespace Pomerol.Properties.C14
open Matrix Complex Pomerol Pomerol.Spec

variable {ι : Type} [Fintype ι] [DecidableEq ι]

/-- The value given by the extracted formulas -- a term `−R/(iΩ_k − P)` for every pair of
eigenstates with different energies, and `β·(zero-pole weight)` at `k = 0` only for every pair with
equal energies -- summed over all pairs of eigenstates, equals the definition
`∫₀^β ⟨A(τ)B(0)⟩ e^{iΩ_k τ} dτ`.  For every spectrum (degeneracies allowed), all matrices, every
`k : ℤ`. -/
theorem susceptibility_equals_definition (d : EigenData ι) (A B : Matrix ι ι ℂ) (k : ℤ) :
    (∑ n, ∑ m, if d.E m = d.E n then
        (if k = 0 then Gen.Susc.zeroPoleIncrement (A n m) (B m n) (d.w n) * (d.β : ℂ) else 0)
      else Gen.Susc.termFreq (Gen.Susc.residue (A n m) (B m n) (d.w n) (d.w m))
        (Gen.Susc.pole (d.E m) (d.E n)) (Complex.I * (d.Ω k : ℂ)))
    = d.suscDef A B k :=
  Bridge.susc_sum d A B k

/-- Static limit: at `k = 0` (where `e^{iΩτ} = 1`, so the definition is `∫₀^β ⟨A(τ)B(0)⟩ dτ`) the
pairs of degenerate levels contribute `β · w_n · A_nm · B_mn`, the other pairs
`A_nm B_mn (w_n − w_m) / (E_m − E_n)`.  No term is singular and none is lost. -/
theorem static_limit (d : EigenData ι) (A B : Matrix ι ι ℂ) :
    d.suscDef A B 0 = ∑ n, ∑ m, if d.E m = d.E n then (d.β : ℂ) * (d.w n : ℂ) * A n m * B m n
      else A n m * B m n * ((d.w n : ℂ) - (d.w m : ℂ)) / ((d.E m - d.E n : ℝ) : ℂ) := by
  rw [lehmann_susc]
  unfold EigenData.lehmannSusc
  refine Finset.sum_congr rfl fun n _ => Finset.sum_congr rfl fun m _ => ?_
  have h0 : d.Ω 0 = 0 := (Omega_eq_zero_iff d 0).mpr rfl
  rw [h0, if_pos rfl]
  split_ifs with h
  · rfl
  · rw [Complex.ofReal_zero, mul_zero, zero_sub, neg_div_neg_eq]

/-- The imaginary-time values: the sum over all pairs of eigenstates of `w_n A_nm B_mn` (degenerate
pair) resp. the τ-term with residue `A_nm B_mn (w_n − w_m)` and pole `E_m − E_n` (non-degenerate
pair) IS the correlator `⟨A(τ) B(0)⟩`, for every real `τ`. -/
theorem tau_is_correlator (d : EigenData ι) (A B : Matrix ι ι ℂ) (τ : ℝ) :
    (∑ n, ∑ m, if d.E m = d.E n then (d.w n : ℂ) * A n m * B m n
               else suscTauTerm d.β (A n m * B m n * ((d.w n : ℂ) - (d.w m : ℂ)))
                      (d.E m - d.E n) τ)
      = d.corr A B τ :=
  susc_tau_eq_corr d A B τ

/-- The two domains are consistent: the EXTRACTED imaginary-time formula of one term (two branches,
selected by the sign of the pole to avoid overflow) is `suscTauTerm` in both branches, for all
arguments; and for a non-zero pole its Fourier transform `∫₀^β · e^{iΩ_k τ} dτ` is the frequency-domain
term `−R/(iΩ_k − P)`, for every `k : ℤ`. -/
theorem tau_frequency_consistent :
    (∀ (res : ℂ) (P τ β : ℝ), Gen.Susc.termTau res P τ β = suscTauTerm β res P τ) ∧
    ∀ (d : EigenData ι) (R : ℂ) (P : ℝ), P ≠ 0 → ∀ k : ℤ,
      ∫ τ in (0:ℝ)..d.β, Gen.Susc.termTau R P τ d.β * Complex.exp (I * (d.Ω k : ℂ) * (τ:ℂ))
        = Gen.Susc.termFreq R P (I * (d.Ω k : ℂ)) := by
  refine ⟨Bridge.susc_tau_all, fun d R P hP k => ?_⟩
  simp only [Bridge.susc_tau_all]
  rw [suscTauTerm_forward d R P hP k]
  rfl

/-- The disconnected part: the extracted τ-domain value is the constant `⟨A⟩⟨B⟩`, the extracted
frequency-domain value is `⟨A⟩⟨B⟩·β`, and the latter (at `k = 0`; zero at all other bosonic
frequencies) is the Fourier transform of the former -- so subtracting it in either domain is the
same operation. -/
theorem disconnected_part (d : EigenData ι) (aveA aveB : ℂ) (k : ℤ) :
    ∫ τ in (0:ℝ)..d.β, Gen.Susc.disconnectedTau aveA aveB * Complex.exp (I * (d.Ω k : ℂ) * (τ:ℂ))
      = if k = 0 then Gen.Susc.disconnectedFreq aveA aveB d.β else 0 := by
  rw [const_transform, (Bridge.susc_disconnected aveA aveB d.β).1,
    (Bridge.susc_disconnected aveA aveB d.β).2, mul_comm]

/-- Concrete instance: for a pair of degenerate levels the extracted zero-pole increment is
`A_nm · B_mn · w_n` (here with numbers). -/
example : Gen.Susc.zeroPoleIncrement (2 : ℂ) 3 (1/2 : ℝ) = 3 := by
  rw [Bridge.susc_zeroPole]
  norm_num

/-! ### the library's tolerance tests (finding F14)

The theorems above idealise the two tolerance tests of `SusceptibilityPart::compute` to the exact
test `E_m = E_n`.  Below, `suscWithTolerances d A B k rtol mtol` is the value obtained with the
EXTRACTED tests: for every pair `(n, m)`, if `Gen.Susc.isZeroPole (E_m − E_n) rtol`
(`|E_m − E_n| < rtol`) the pair adds `A_nm B_mn w_n` to the zero-pole weight (contributing `β·`that
at `k = 0` only); otherwise its term `−R/(iΩ_k − P)`, `R = A_nm B_mn (w_n − w_m)`, is kept only if
`Gen.Susc.residueKept R mtol` (`mtol < |R|`). -/

/-- The extracted tolerance constants of `SusceptibilityPart` (`ReduceResonanceTolerance`,
`MatrixElementTolerance`) are both `10⁻⁸`. -/
theorem library_tolerances :
    (Gen.Susc.tolResonance : ℝ) = 1 / 10 ^ 8 ∧ (Gen.Susc.tolMatrixElement : ℝ) = 1 / 10 ^ 8 :=
  Bridge.susc_tolerances

/-- What the library computes, with its own tolerances `10⁻⁸` (the extracted constants), accounted
for exactly: it is the definition `∫₀^β ⟨A(τ)B(0)⟩ e^{iΩ_k τ} dτ`
MINUS the exact Lehmann terms `−R/(iΩ_k − P)` of all pairs of levels that are split by at least
`10⁻⁸` but whose residue `R = A_nm B_mn (w_n − w_m)` has modulus at most `10⁻⁸` (these terms are
dropped by the residue filter),
MINUS, for all pairs of levels that are split by less than `10⁻⁸` without being exactly
degenerate, the difference between their exact Lehmann term and the zero-pole treatment
(`β w_n A_nm B_mn` at `k = 0`, nothing at `k ≠ 0`) they receive instead.
Nothing else is lost or added: for every spectrum, all matrices, every `k : ℤ`. -/
theorem value_with_library_tolerances (d : EigenData ι) (A B : Matrix ι ι ℂ) (k : ℤ) :
    suscWithTolerances d A B k Gen.Susc.tolResonance Gen.Susc.tolMatrixElement =
      d.suscDef A B k
      - (∑ n, ∑ m,
          if (1 / 10 ^ 8 : ℝ) ≤ |d.E m - d.E n| ∧
              ‖A n m * B m n * ((d.w n : ℂ) - (d.w m : ℂ))‖ ≤ (1 / 10 ^ 8 : ℝ) then
            -(A n m * B m n * ((d.w n : ℂ) - (d.w m : ℂ)))
              / (I * (d.Ω k : ℂ) - ((d.E m - d.E n : ℝ) : ℂ)) else 0)
      - (∑ n, ∑ m,
          if 0 < |d.E m - d.E n| ∧ |d.E m - d.E n| < (1 / 10 ^ 8 : ℝ) then
            -(A n m * B m n * ((d.w n : ℂ) - (d.w m : ℂ)))
              / (I * (d.Ω k : ℂ) - ((d.E m - d.E n : ℝ) : ℂ))
            - (if k = 0 then (d.β : ℂ) * (d.w n : ℂ) * A n m * B m n else 0) else 0) := by
  rw [Bridge.susc_tolerances.1, Bridge.susc_tolerances.2]
  exact suscWithTolerances_eq d A B k _ _ (by norm_num)

/-- The library's value IS the definition when there is no near-degeneracy and no tiny residue:
if every pair of levels is either exactly degenerate, or split by at least the resonance tolerance
with a residue `A_nm B_mn (w_n − w_m)` that is either larger than the matrix-element tolerance or
exactly zero (e.g. a vanishing matrix element).  Any tolerances `rtol > 0`, `mtol`; in particular
the library's `10⁻⁸`.  (`Spec/SuscTol.lean`, `twoLevel_clean`, shows a two-level system satisfying
the hypothesis with the library's tolerances.) -/
theorem exact_when_no_near_degeneracy (d : EigenData ι) (A B : Matrix ι ι ℂ) (k : ℤ)
    (rtol mtol : ℝ) (hr : 0 < rtol)
    (h : ∀ n m, d.E m = d.E n ∨ (rtol ≤ |d.E m - d.E n| ∧
      (mtol < ‖A n m * B m n * ((d.w n : ℂ) - (d.w m : ℂ))‖ ∨
        A n m * B m n * ((d.w n : ℂ) - (d.w m : ℂ)) = 0))) :
    suscWithTolerances d A B k rtol mtol = d.suscDef A B k :=
  suscWithTolerances_exact_of_clean_spectrum d A B k rtol mtol hr h

/-- KNOWN FINDING F14 (a defect of the library, stated about the extracted tests and constants).
The residue filter `|Residue| > 10⁻⁸` drops terms whose static contribution `Residue/Pole` is of
order one.  Witness: two levels `0` and `2·10⁻⁸` at `β = 1`, `A = |0⟩⟨1|`, `B = |1⟩⟨0|`.  The pair
is not a zero pole (`2·10⁻⁸ ≥ 10⁻⁸`), its residue `w₀ − w₁ = tanh(10⁻⁸)` is `≤ 10⁻⁸`, so the term is
dropped and the library's formula gives `χ(iΩ₀) = 0`; the definition `∫₀^β ⟨A(τ)B(0)⟩ dτ` is real
and `≥ 1/5` (its value is `≈ β/2 = 1/2`).  In general (`residue_filter_loses_static_term`): for a
single pair outside the window with `|a b (w_n − w_m)| ≤ mtol` the library gives `0` where the
definition is `a b (w_n − w_m)/(E_m − E_n)`. -/
theorem known_finding_F14_residue_filter :
    ∃ (d : EigenData (Fin 2)) (A B : Matrix (Fin 2) (Fin 2) ℂ),
      d.β = 1 ∧ d.E = ![0, 2 / 10 ^ 8] ∧ A = Matrix.single 0 1 1 ∧ B = Matrix.single 1 0 1 ∧
      suscWithTolerances d A B 0 Gen.Susc.tolResonance Gen.Susc.tolMatrixElement = 0 ∧
      (d.suscDef A B 0).im = 0 ∧ 1 / 5 ≤ (d.suscDef A B 0).re :=
  residue_filter_counterexample

/-- The parametric form of F14: `A` and `B` with the single non-zero entries `A n m = a`,
`B m n = b`; levels `n`, `m` with `E_m ≠ E_n` outside the resonance window; residue not above the
matrix-element tolerance.  Then the value with tolerances at `k = 0` is `0`, the definition is
`a b (w_n − w_m)/(E_m − E_n)`. -/
theorem F14_parametric (d : EigenData ι) (n m : ι) (a b : ℂ) (rtol mtol : ℝ)
    (hE : d.E m ≠ d.E n) (hP : rtol ≤ |d.E m - d.E n|)
    (hR : ‖a * b * ((d.w n : ℂ) - (d.w m : ℂ))‖ ≤ mtol) :
    suscWithTolerances d (Matrix.single n m a) (Matrix.single m n b) 0 rtol mtol = 0 ∧
    d.suscDef (Matrix.single n m a) (Matrix.single m n b) 0
      = a * b * ((d.w n : ℂ) - (d.w m : ℂ)) / ((d.E m - d.E n : ℝ) : ℂ) :=
  residue_filter_loses_static_term d n m a b rtol mtol hE hP hR

/-! ### the loop structure (`Susceptibility::prepare`, `SusceptibilityPart::compute`)

The theorems above are about the SUM OVER ALL PAIRS of eigenstates of the extracted formulas.  The code
does not run over all pairs: `Susceptibility::prepare` selects pairs of blocks by a merge walk over the
block bimaps of `A` and `B`, and `SusceptibilityPart::compute` walks a compressed row of the block of `A`
and a compressed column of the block of `B` in parallel, chasing indices.  `Model/SuscPart.lean` models
both loops (they are, token for token, the loops of the Green's-function code -- `Model/GFPart.lean` --
with the bosonic loop body: zero-pole branch, `w_outer − w_inner`), `Spec/SuscRefine.lean` proves that
nothing is lost and nothing is counted twice. -/

section Loops
open Pomerol.Model.GFPart (SpMat)
open Pomerol.Model.SuscPart

/-- THE LOOPS OF THE SUSCEPTIBILITY CODE COMPUTE THE SUSCEPTIBILITY.  In plain words: split the
eigenbasis into `B` blocks (block `b` has `sz b` states); let `a` / `b` be the lists of non-trivial blocks
of the two operators as the code sees them (`a`: the left view of `A`'s block bimap, sorted by the left
block, each left block once; `b`: the right view of `B`'s block bimap, sorted by the right block, each
right block once), and let `Ablk L R` / `Bblk R L` be compressed row-major / column-major copies of the
blocks `<L|A|R>` / `<R|B|L>`.  Run the model of `Susceptibility::prepare` followed by
`Susceptibility::compute`: the merge walk over the two lists creates the parts, and for every part the
double loop over sparse rows/columns sorts every coinciding pair of matrix elements either into the
zero-pole weight (degenerate levels) or into a term `(Residue, Pole)`.  Then the run never fails, and
adding, over all parts created, the values `−Residue/(iΩ_k − Pole)` of its terms plus (at `k = 0` only)
`β ·` its zero-pole weight gives the bosonic Lehmann sum `d.lehmannSusc A B k` over ALL pairs of
eigenstates -- which is the definition `∫₀^β ⟨A(τ)B(0)⟩ e^{iΩ_k τ} dτ` (`susceptibility_equals_definition`).

Idealisations, as in `susceptibility_equals_definition`: the zero-pole test `zero` is exact on the
spectrum (`hzero`; it holds for the test `Pole = 0` and also for the library's `|Pole| < rtol` when no
two levels are closer than `rtol` without being equal: `SuscRefine.exactZeroTest_iff`,
`SuscRefine.sourceZeroTest_iff`), the residue filter is switched off (`tol < 0`), no block is
truncated.  With the library's tolerance tests see `loops_compute_value_with_tolerances`. -/
theorem loops_compute_susceptibility {B : ℕ} {sz : Fin B → ℕ} (d : EigenData (GFRefine.Basis sz))
    (A Bm : Matrix (GFRefine.Basis sz) (GFRefine.Basis sz) ℂ) (a b : List (ℕ × ℕ))
    (ha : GFRefine.SortedByLeft a) (hb : GFRefine.SortedByRight b)
    (haA : GFRefine.CoversBlocks a A) (hbB : GFRefine.CoversBlocks b Bm)
    (hrange : ∀ p ∈ a, p.1 < B ∧ p.2 < B) (Ablk Bblk : ℕ → ℕ → SpMat ℂ)
    (hAblk : ∀ L R : Fin B, GFRefine.RepresentsRows (Ablk L.1 R.1) (GFRefine.block A L R))
    (hBblk : ∀ L R : Fin B, GFRefine.RepresentsCols (Bblk R.1 L.1) (GFRefine.block Bm R L))
    (zero : ℝ → Bool)
    (hzero : ∀ n m, zero (Gen.Susc.pole (d.E m) (d.E n)) = true ↔ d.E m = d.E n)
    (tol : ℝ) (htol : tol < 0) (k : ℤ) :
    ∃ parts, susceptibilityParts true true (fun _ => true) zero a b (GFRefine.blockTable d.w)
        (GFRefine.blockTable d.E) tol Ablk Bblk = .ok parts ∧
      (parts.map fun part =>
          (part.1.map fun t => Gen.Susc.termFreq t.res t.pole (Complex.I * (d.Ω k : ℂ))).sum
            + (if k = 0 then part.2 * (d.β : ℂ) else 0)).sum
        = d.lehmannSusc A Bm k ∧
      d.lehmannSusc A Bm k = d.suscDef A Bm k := by
  obtain ⟨parts, h1, h2⟩ := SuscRefine.susc_loops_compute_lehmann_sum d A Bm a b ha hb haA hbB hrange
    Ablk Bblk hAblk hBblk zero hzero tol htol k
  exact ⟨parts, h1, h2, (lehmann_susc d A Bm k).symm⟩

/-- The same with the library's OWN tests: zero-pole test `|Pole| < rtol` and residue filter
`|Residue| > mtol` as extracted from the source, arbitrary tolerances.  The loops compute exactly
`suscWithTolerances d A B k rtol mtol`, the quantity whose difference to the definition is accounted for
in `value_with_library_tolerances` (finding F14) -- so that accounting applies to the loops as they are,
not only to a sum over all pairs. -/
theorem loops_compute_value_with_tolerances {B : ℕ} {sz : Fin B → ℕ}
    (d : EigenData (GFRefine.Basis sz))
    (A Bm : Matrix (GFRefine.Basis sz) (GFRefine.Basis sz) ℂ) (a b : List (ℕ × ℕ))
    (ha : GFRefine.SortedByLeft a) (hb : GFRefine.SortedByRight b)
    (haA : GFRefine.CoversBlocks a A) (hbB : GFRefine.CoversBlocks b Bm)
    (hrange : ∀ p ∈ a, p.1 < B ∧ p.2 < B) (Ablk Bblk : ℕ → ℕ → SpMat ℂ)
    (hAblk : ∀ L R : Fin B, GFRefine.RepresentsRows (Ablk L.1 R.1) (GFRefine.block A L R))
    (hBblk : ∀ L R : Fin B, GFRefine.RepresentsCols (Bblk R.1 L.1) (GFRefine.block Bm R L))
    (rtol mtol : ℝ) (k : ℤ) :
    ∃ parts, susceptibilityParts true true (fun _ => true) (sourceZeroTest rtol) a b
        (GFRefine.blockTable d.w) (GFRefine.blockTable d.E) mtol Ablk Bblk = .ok parts ∧
      (parts.map fun part =>
          (part.1.map fun t => Gen.Susc.termFreq t.res t.pole (Complex.I * (d.Ω k : ℂ))).sum
            + (if k = 0 then part.2 * (d.β : ℂ) else 0)).sum
        = suscWithTolerances d A Bm k rtol mtol :=
  SuscRefine.susc_loops_compute_value_with_tolerances d A Bm a b ha hb haA hbB hrange Ablk Bblk
    hAblk hBblk rtol mtol k

/-- The evaluation as the library does it: `Susceptibility::operator()(iΩ_k)` of the model (sum over the
parts of `Terms(z) + (abs(z) < 1e-15 ? ZeroPoleWeight*beta : 0)`) equals the definition, for
`β ≤ 10¹⁵` (so that `|iΩ_k| < 10⁻¹⁵` only for `k = 0`). -/
theorem loops_and_evaluation_compute_susceptibility {B : ℕ} {sz : Fin B → ℕ}
    (d : EigenData (GFRefine.Basis sz))
    (A Bm : Matrix (GFRefine.Basis sz) (GFRefine.Basis sz) ℂ) (a b : List (ℕ × ℕ))
    (ha : GFRefine.SortedByLeft a) (hb : GFRefine.SortedByRight b)
    (haA : GFRefine.CoversBlocks a A) (hbB : GFRefine.CoversBlocks b Bm)
    (hrange : ∀ p ∈ a, p.1 < B ∧ p.2 < B) (Ablk Bblk : ℕ → ℕ → SpMat ℂ)
    (hAblk : ∀ L R : Fin B, GFRefine.RepresentsRows (Ablk L.1 R.1) (GFRefine.block A L R))
    (hBblk : ∀ L R : Fin B, GFRefine.RepresentsCols (Bblk R.1 L.1) (GFRefine.block Bm R L))
    (zero : ℝ → Bool)
    (hzero : ∀ n m, zero (Gen.Susc.pole (d.E m) (d.E n)) = true ↔ d.E m = d.E n)
    (tol : ℝ) (htol : tol < 0) (hβ : d.β ≤ 10 ^ 15) (k : ℤ) :
    ∃ parts, susceptibilityParts true true (fun _ => true) zero a b (GFRefine.blockTable d.w)
        (GFRefine.blockTable d.E) tol Ablk Bblk = .ok parts ∧
      susceptibilityValue d.β (Complex.I * (d.Ω k : ℂ)) parts = d.suscDef A Bm k :=
  SuscRefine.susc_loops_operator_value d A Bm a b ha hb haA hbB hrange Ablk Bblk hAblk hBblk zero
    hzero tol htol hβ k

/-! #### a concrete instance of the hypotheses (non-vacuity) -/

section LoopsExample
open GFRefine

/-- one block with two states -/
private def sz1 : Fin 1 → ℕ := fun _ => 2
/-- `A = B =` the all-ones matrix -/
private def exOnes : Matrix (Basis sz1) (Basis sz1) ℂ := fun _ _ => 1
/-- the compressed `2 × 2` all-ones block -/
private def exBlk : ℕ → ℕ → SpMat ℂ := fun _ _ => [[(0, 1), (1, 1)], [(0, 1), (1, 1)]]
/-- levels `0` and `1`, `β = 1` -/
private noncomputable def exData : EigenData (Basis sz1) := ⟨1, one_pos, fun x => (x.2.1 : ℝ)⟩

private theorem ex_rep : RepresentsRows (exBlk 0 0) (fun _ _ => 1 : Matrix (Fin 2) (Fin 2) ℂ) where
  len := rfl
  sorted := by
    intro r hr
    have : r = [(0, 1), (1, 1)] := by
      simp only [exBlk, List.mem_cons, List.not_mem_nil, or_false, or_self] at hr
      exact hr
    subst this
    exact (sortedVec_iff _).mpr (by simp)
  bound := by
    intro r hr p hp
    have : r = [(0, 1), (1, 1)] := by
      simp only [exBlk, List.mem_cons, List.not_mem_nil, or_false, or_self] at hr
      exact hr
    subst this
    simp only [List.mem_cons, List.not_mem_nil, or_false] at hp
    rcases hp with rfl | rfl <;> norm_num
  stored := by
    intro i j v hv
    fin_cases i <;> simp [exBlk] at hv <;> rcases hv with h | h <;> exact h.2
  notStored := by
    intro i j h
    exfalso
    fin_cases i <;> fin_cases j <;> exact h 1 (by simp [exBlk])

private theorem ex_covers : CoversBlocks [(0, 0)] exOnes := by
  intro L R _
  have hL : L.1 = 0 := by omega
  have hR : R.1 = 0 := by omega
  rw [hL, hR]
  exact List.mem_singleton.mpr rfl

/-- all hypotheses of `loops_compute_susceptibility` hold for: one block with the two levels `0`, `1`,
`β = 1`, `A = B =` all ones (the pairs `(0,0)`, `(1,1)` go to the zero-pole weight, the pairs `(0,1)`,
`(1,0)` become terms), exact zero-pole test; hence the modelled loops compute the susceptibility of this
system at every bosonic frequency -/
example (k : ℤ) :
    ∃ parts, susceptibilityParts true true (fun _ => true) SuscRefine.exactZeroTest [(0, 0)] [(0, 0)]
        (blockTable exData.w) (blockTable exData.E) (-1) exBlk exBlk = .ok parts ∧
      (parts.map fun part =>
          (part.1.map fun t => Gen.Susc.termFreq t.res t.pole (Complex.I * (exData.Ω k : ℂ))).sum
            + (if k = 0 then part.2 * (exData.β : ℂ) else 0)).sum
        = exData.suscDef exOnes exOnes k := by
  obtain ⟨parts, h1, h2, h3⟩ := loops_compute_susceptibility exData exOnes exOnes [(0, 0)] [(0, 0)]
    (by decide) (by decide) ex_covers ex_covers (by decide) exBlk exBlk
    (fun L R => by
      have hL : L.1 = 0 := by omega
      have hR : R.1 = 0 := by omega
      rw [hL, hR]; exact ex_rep)
    (fun L R => by
      have hL : L.1 = 0 := by omega
      have hR : R.1 = 0 := by omega
      rw [hL, hR]; exact ex_rep)
    SuscRefine.exactZeroTest (SuscRefine.exactZeroTest_iff exData) (-1) (by norm_num) k
  exact ⟨parts, h1, h2.trans h3⟩

/-- the index walk of the part of this example, run on the model: all four pairs are met, row by row -/
example : contributions true true ([[(0, 1), (1, 1)], [(0, 1), (1, 1)]] : SpMat ℤ)
      [[(0, 1), (1, 1)], [(0, 1), (1, 1)]]
    = .ok [(0, 0, 1, 1), (0, 1, 1, 1), (1, 0, 1, 1), (1, 1, 1, 1)] := by decide

/-- the merge walk of `Susceptibility::prepare` on bimaps of a particle-number conserving pair of
operators with three blocks: a part for every diagonal block pair -/
example : Pomerol.Model.SuscPart.prepare (fun _ => true) [(0, 0), (1, 1), (2, 2)]
    [(0, 0), (1, 1), (2, 2)] = .ok [(0, 0), (1, 1), (2, 2)] := by decide

end LoopsExample

end Loops


end Pomerol.Properties.C14
