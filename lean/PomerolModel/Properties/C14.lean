/-
  Property C14: the dynamical susceptibility the library evaluates equals its definition
  `χ_AB(iΩ_k) = ∫₀^β ⟨A(τ) B(0)⟩ e^{iΩ_k τ} dτ`, at every bosonic Matsubara frequency including the
  static one (k = 0, degenerate levels), and the imaginary-time values are consistent with it.

  Setting: `d : EigenData ι` (β > 0, eigenvalues `d.E`, Gibbs weights `d.w`), `A`, `B` the matrices
  of the two operators in the eigenbasis, `d.Ω k = 2kπ/β`,
  `d.corr A B τ = Tr(ρ e^{τH} A e^{−τH} B)` (genuine matrix exponentials),
  `d.suscDef A B k = ∫₀^β d.corr A B τ · e^{iΩ_k τ} dτ`.  The formulas in namespace `Gen.Susc` are
  EXTRACTED FROM THE SOURCE (`SusceptibilityPart.cpp`): `residue`, `pole`, `termFreq` for a pair
  of non-degenerate levels, `zeroPoleIncrement` for a pair of degenerate levels, `termTau` for the
  imaginary-time value of a term, `disconnectedFreq/Tau` for the subtracted `⟨A⟩⟨B⟩` part.

  All statements are re-exports / direct combinations of theorems of `Spec/Susc.lean` and
  `Spec/Bridge.lean` (fully proved).  The degeneracy test is the exact one (`E_m = E_n`).
-/
import PomerolModel.Spec.Bridge

namespace Pomerol.Properties.C14
open Matrix Complex Pomerol Pomerol.Spec

variable {ι : Type} [Fintype ι] [DecidableEq ι]

/-- The value given by the extracted formulas -- a term `−R/(iΩ_k − P)` for every pair of
eigenstates with different energies, and `β·(zero-pole weight)` at `k = 0` only for every pair with
equal energies -- summed over all pairs of eigenstates, equals the definition
`∫₀^β ⟨A(τ)B(0)⟩ e^{iΩ_k τ} dτ`.  For every spectrum (degeneracies allowed), all matrices, every
`k : ℤ`. -/
theorem susceptibility_equals_definition (d : EigenData ι) (A B : Matrix ι ι ℂ) (k : ℤ) :
    (∑ n, ∑ m, if d.E m = d.E n then
        (if k = 0 then Gen.Susc.zeroPoleIncrement (A n m) (B m n) (d.w n) * (d.β : ℂ) else 0)
      else Gen.Susc.termFreq (Gen.Susc.residue (A n m) (B m n) (d.w n) (d.w m))
        (Gen.Susc.pole (d.E m) (d.E n)) (Complex.I * (d.Ω k : ℂ)))
    = d.suscDef A B k :=
  Bridge.susc_sum d A B k

/-- Static limit: at `k = 0` (where `e^{iΩτ} = 1`, so the definition is `∫₀^β ⟨A(τ)B(0)⟩ dτ`) the
pairs of degenerate levels contribute `β · w_n · A_nm · B_mn`, the other pairs
`A_nm B_mn (w_n − w_m) / (E_m − E_n)`.  No term is singular and none is lost. -/
theorem static_limit (d : EigenData ι) (A B : Matrix ι ι ℂ) :
    d.suscDef A B 0 = ∑ n, ∑ m, if d.E m = d.E n then (d.β : ℂ) * (d.w n : ℂ) * A n m * B m n
      else A n m * B m n * ((d.w n : ℂ) - (d.w m : ℂ)) / ((d.E m - d.E n : ℝ) : ℂ) := by
  rw [lehmann_susc]
  unfold EigenData.lehmannSusc
  refine Finset.sum_congr rfl fun n _ => Finset.sum_congr rfl fun m _ => ?_
  have h0 : d.Ω 0 = 0 := (Omega_eq_zero_iff d 0).mpr rfl
  rw [h0, if_pos rfl]
  split_ifs with h
  · rfl
  · rw [Complex.ofReal_zero, mul_zero, zero_sub, neg_div_neg_eq]

/-- The imaginary-time values: the sum over all pairs of eigenstates of `w_n A_nm B_mn` (degenerate
pair) resp. the τ-term with residue `A_nm B_mn (w_n − w_m)` and pole `E_m − E_n` (non-degenerate
pair) IS the correlator `⟨A(τ) B(0)⟩`, for every real `τ`. -/
theorem tau_is_correlator (d : EigenData ι) (A B : Matrix ι ι ℂ) (τ : ℝ) :
    (∑ n, ∑ m, if d.E m = d.E n then (d.w n : ℂ) * A n m * B m n
               else suscTauTerm d.β (A n m * B m n * ((d.w n : ℂ) - (d.w m : ℂ)))
                      (d.E m - d.E n) τ)
      = d.corr A B τ :=
  susc_tau_eq_corr d A B τ

/-- The two domains are consistent: the EXTRACTED imaginary-time formula of one term (two branches,
selected by the sign of the pole to avoid overflow) is `suscTauTerm` in both branches, for all
arguments; and for a non-zero pole its Fourier transform `∫₀^β · e^{iΩ_k τ} dτ` is the frequency-domain
term `−R/(iΩ_k − P)`, for every `k : ℤ`. -/
theorem tau_frequency_consistent :
    (∀ (res : ℂ) (P τ β : ℝ), Gen.Susc.termTau res P τ β = suscTauTerm β res P τ) ∧
    ∀ (d : EigenData ι) (R : ℂ) (P : ℝ), P ≠ 0 → ∀ k : ℤ,
      ∫ τ in (0:ℝ)..d.β, Gen.Susc.termTau R P τ d.β * Complex.exp (I * (d.Ω k : ℂ) * (τ:ℂ))
        = Gen.Susc.termFreq R P (I * (d.Ω k : ℂ)) := by
  refine ⟨Bridge.susc_tau_all, fun d R P hP k => ?_⟩
  simp only [Bridge.susc_tau_all]
  rw [suscTauTerm_forward d R P hP k]
  rfl

/-- The disconnected part: the extracted τ-domain value is the constant `⟨A⟩⟨B⟩`, the extracted
frequency-domain value is `⟨A⟩⟨B⟩·β`, and the latter (at `k = 0`; zero at all other bosonic
frequencies) is the Fourier transform of the former -- so subtracting it in either domain is the
same operation. -/
theorem disconnected_part (d : EigenData ι) (aveA aveB : ℂ) (k : ℤ) :
    ∫ τ in (0:ℝ)..d.β, Gen.Susc.disconnectedTau aveA aveB * Complex.exp (I * (d.Ω k : ℂ) * (τ:ℂ))
      = if k = 0 then Gen.Susc.disconnectedFreq aveA aveB d.β else 0 := by
  rw [const_transform, (Bridge.susc_disconnected aveA aveB d.β).1,
    (Bridge.susc_disconnected aveA aveB d.β).2, mul_comm]

/-- Concrete instance: for a pair of degenerate levels the extracted zero-pole increment is
`A_nm · B_mn · w_n` (here with numbers). -/
example : Gen.Susc.zeroPoleIncrement (2 : ℂ) 3 (1/2 : ℝ) = 3 := by
  rw [Bridge.susc_zeroPole]
  norm_num

end Pomerol.Properties.C14
