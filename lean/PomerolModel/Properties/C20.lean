/-
  Property C20: lattice input is validated, stored and looked up faithfully.

  Model: `Model/Lattice.lean` (model of `Lattice`, `Lattice::TermStorage`, `Lattice::Term::Presets`
  and `LatticePresets`; the operator sequences, index arrays, coefficient expressions, argument guards
  of every preset and the direction of the test in `Lattice::getSite` are regenerated from the C++
  source into `Generated/Presets.lean`).  Specification predicates, written by hand and independent
  of the source: `Model/LatticeSpec.lean` (`validTerm`: every factor names a known site and an
  orbital and spin inside that site's range; `defined…`: the arguments for which the documentation
  defines each preset; `allValid`: every stored term is valid).  Proofs: `Spec/LatticeProps.lean`.

  `SitesOK L` / `TermsOK L` say that the two containers are what a `std::map` is: keys strictly
  increasing (in particular no label twice).  They hold for the empty lattice and are preserved by
  every operation (`containers_well_formed`), so they hold for every lattice a program can build.
  The coefficient type is arbitrary; `NonzeroTest.nz` is the test "the amplitude is not zero" as the
  library performs it.
-/
import PomerolModel.Spec.LatticeProps
import PomerolModel.Model.Index

set_option linter.unusedSectionVars false
set_option linter.unusedVariables false

namespace Pomerol.Properties.C20
open Pomerol.Model Pomerol.Model.Lat Pomerol.Model.LatSpec Pomerol.Spec.LatticeProps

variable {K : Type} [Add K] [Sub K] [Mul K] [Div K] [Neg K] [Zero K] [One K] [NatCast K]
  [NonzeroTest K]

/-- The two `std::map`s of a lattice (sites by label, term lists by order) have strictly increasing
keys: this holds for the empty lattice and is preserved by `addSite` and by storing a term. -/
theorem containers_well_formed :
    (SitesOK (Lat.empty : Lattice K) ∧ TermsOK (Lat.empty : Lattice K)) ∧
    (∀ (L : Lattice K), SitesOK L → ∀ (l : String) (o s : Nat), SitesOK (addSite L l o s)) ∧
    (∀ (L : Lattice K), TermsOK L → ∀ t : Term K, TermsOK (storeTerm L t)) :=
  ⟨empty_ok, fun L h l o s => addSite_ok L h l o s, fun L h t => storeTerm_ok L h t⟩

/-- `getSite` returns the site that was added under that label (with the sizes given last), and
adding a site under one label does not change what `getSite` returns for any other label. -/
theorem site_lookup (L : Lattice K) (h : SitesOK L) (l : String) (o s : Nat) :
    getSite (addSite L l o s) l = .ok ⟨l, o, s⟩ ∧
    ∀ l', l' ≠ l → getSite (addSite L l o s) l' = getSite L l' :=
  ⟨getSite_after_addSite L h l o s, fun l' hne => getSite_other L h l l' o s hne⟩

/-- `getSite` with a label that is not in the lattice throws `exWrongLabel` (it does not return
garbage and does not dereference `end()`). -/
theorem unknown_site_fails (L : Lattice K) (l : String) (h : siteOf L l = none) :
    getSite L l = .error .wrongLabel :=
  getSite_unknown L l h

/-- `addTerm` with a term that is not valid (unknown label, or an orbital or spin out of the site's
range) throws `exWrongLabel`.  The result is an error value: no modified lattice exists, the caller
keeps the lattice it had. -/
theorem invalid_term_rejected_unchanged (L : Lattice K) (t : Term K) (h : validTerm L t = false) :
    addTerm L t = .error .wrongLabel ∧ ∀ L', addTerm L t ≠ .ok L' := by
  have h1 := addTerm_invalid L t h
  refine ⟨h1, fun L' h2 => ?_⟩
  rw [h1] at h2
  cases h2

/-- A valid term whose amplitude fails the non-zero test is accepted and ignored: the lattice is
returned as it was. -/
theorem zero_term_ignored (L : Lattice K) (hS : SitesOK L) (t : Term K) (h : validTerm L t = true)
    (hz : NonzeroTest.nz t.value = false) : addTerm L t = .ok L :=
  addTerm_zero L hS t h hz

/-- A valid term with non-zero amplitude is stored: it is appended to the list of terms of its own
order, the lists of the other orders and the sites are unchanged, and the maximal order is
updated. -/
theorem valid_term_stored (L : Lattice K) (hS : SitesOK L) (hT : TermsOK L) (t : Term K)
    (h : validTerm L t = true) (hz : NonzeroTest.nz t.value = true) :
    ∃ L', addTerm L t = .ok L' ∧
      (∀ n, getTerms L' n = if n = t.order then getTerms L n ++ [t] else getTerms L n) ∧
      L'.sites = L.sites ∧ L'.maxOrder = max L.maxOrder t.order :=
  ⟨storeTerm L t, addTerm_valid L hS t h hz, fun n => getTerms_storeTerm L hT t n,
    storeTerm_sites L t, maxOrder_storeTerm L t⟩

/-- `getTerms(N)` returns exactly the terms of order `N` that were stored, in the order in which
they were stored: storing `t` appends it to `getTerms (order of t)` and changes no other list. -/
theorem terms_retrievable_by_order (L : Lattice K) (h : TermsOK L) (t : Term K) (n : Nat) :
    getTerms (storeTerm L t) n = if n = t.order then getTerms L n ++ [t] else getTerms L n :=
  getTerms_storeTerm L h t n

/-- Every preset rejects the arguments for which it is not defined: whenever a preset returns
normally, its arguments satisfy the hand-written definedness predicate of the specification
(the site(s) exist; orbital and spin arguments are in range; Kanamori needs ≥ 2 orbitals and
≥ 2 spins; magnetisation and exchange need spin 1/2; two-site presets need sites of equal shape;
spin-flip and pair hopping need two different orbitals and two different spins). -/
theorem presets_reject_undefined_arguments :
    (∀ (L L' : Lattice K) (l : String) (U lv : K),
      addCoulombS L l U lv = .ok L' → definedOnSite L l = true) ∧
    (∀ (L L' : Lattice K) (l : String) (lv : K),
      addLevel L l lv = .ok L' → definedOnSite L l = true) ∧
    (∀ (L L' : Lattice K) (l : String) (U Up J lv : K),
      addCoulombP L l U Up J lv = .ok L' → definedCoulombP L l = true) ∧
    (∀ (L L' : Lattice K) (l : String) (m : K),
      addMagnetization L l m = .ok L' → definedMagnetization L l = true) ∧
    (∀ (L L' : Lattice K) (l1 l2 : String) (J : K),
      addSzSz L l1 l2 J = .ok L' → definedExchange L l1 l2 = true) ∧
    (∀ (L L' : Lattice K) (l1 l2 : String) (J : K),
      addSS L l1 l2 J = .ok L' → definedExchange L l1 l2 = true) ∧
    (∀ (cj : K → K) (L L' : Lattice K) (l1 l2 : String) (t : K),
      addHoppingAll cj L l1 l2 t = .ok L' → definedHoppingAll L l1 l2 = true) ∧
    (∀ (cj : K → K) (L L' : Lattice K) (l1 l2 : String) (t : K) (o1 o2 : Nat),
      addHoppingOrb cj L l1 l2 t o1 o2 = .ok L' → definedHoppingOrb L l1 l2 o1 o2 = true) ∧
    (∀ (cj : K → K) (L L' : Lattice K) (l1 l2 : String) (t : K) (o1 o2 s1 s2 : Nat),
      addHoppingFull cj L l1 l2 t o1 o2 s1 s2 = .ok L' →
        definedHoppingFull L l1 l2 o1 o2 s1 s2 = true) ∧
    (∀ (l : String) (v : K) (o1 o2 s1 s2 : Nat) (t : Term K),
      tSpinflip l v o1 o2 s1 s2 = .ok t → definedSpinflip o1 o2 s1 s2 = true) ∧
    (∀ (l : String) (v : K) (o1 o2 s1 s2 : Nat) (t : Term K),
      tPairHopping l v o1 o2 s1 s2 = .ok t → definedSpinflip o1 o2 s1 s2 = true) :=
  ⟨addCoulombS_defined, addLevel_defined, addCoulombP_defined, addMagnetization_defined,
    addSzSz_defined, addSS_defined, addHoppingAll_defined, addHoppingOrb_defined,
    addHoppingFull_defined, tSpinflip_defined, tPairHopping_defined⟩

/-- Every preset stores only valid terms: if every term of the lattice is valid before the call and
the preset returns normally, every term of the resulting lattice is valid (so the translation to the
Hamiltonian never meets a factor without an index). -/
theorem presets_store_only_valid_terms :
    (∀ (L L' : Lattice K) (l : String) (U lv : K), allValid L = true →
      addCoulombS L l U lv = .ok L' → allValid L' = true) ∧
    (∀ (L L' : Lattice K) (l : String) (lv : K), allValid L = true →
      addLevel L l lv = .ok L' → allValid L' = true) ∧
    (∀ (L L' : Lattice K) (l : String) (U Up J lv : K), allValid L = true →
      addCoulombP L l U Up J lv = .ok L' → allValid L' = true) ∧
    (∀ (L L' : Lattice K) (l : String) (m : K), allValid L = true →
      addMagnetization L l m = .ok L' → allValid L' = true) ∧
    (∀ (L L' : Lattice K) (l1 l2 : String) (J : K), allValid L = true →
      addSzSz L l1 l2 J = .ok L' → allValid L' = true) ∧
    (∀ (L L' : Lattice K) (l1 l2 : String) (J : K), allValid L = true →
      addSS L l1 l2 J = .ok L' → allValid L' = true) ∧
    (∀ (cj : K → K) (L L' : Lattice K) (l1 l2 : String) (t : K) (o1 o2 s1 s2 : Nat),
      allValid L = true → addHoppingFull cj L l1 l2 t o1 o2 s1 s2 = .ok L' → allValid L' = true) ∧
    (∀ (cj : K → K) (L L' : Lattice K) (l1 l2 : String) (t : K) (o1 o2 : Nat),
      allValid L = true → addHoppingOrb cj L l1 l2 t o1 o2 = .ok L' → allValid L' = true) ∧
    (∀ (cj : K → K) (L L' : Lattice K) (l1 l2 : String) (t : K),
      allValid L = true → addHoppingAll cj L l1 l2 t = .ok L' → allValid L' = true) ∧
    (∀ (L : Lattice K) (t : Term K), allValid L = true → validTerm L t = true →
      allValid (storeTerm L t) = true) :=
  ⟨addCoulombS_allValid, addLevel_allValid, addCoulombP_allValid, addMagnetization_allValid,
    addSzSz_allValid, addSS_allValid, addHoppingFull_allValid, addHoppingOrb_allValid,
    addHoppingAll_allValid, storeTerm_allValid⟩

/-- A copy of a lattice defines the same model.  The copy constructor `Lattice(const Lattice&)`
reproduces the site map, the term storage and the maximal order; any two lattices that agree in
these three data are the same lattice, return the same terms for every order, the same site for
every label, and are translated into the same Hamiltonian for every index table. -/
theorem copy_defines_same_model [CoefTest K] (L L' : Lattice K) (hs : L.sites = L'.sites)
    (ht : L.terms = L'.terms) (hm : L.maxOrder = L'.maxOrder) :
    L = L' ∧
    (∀ n, getTerms L n = getTerms L' n) ∧
    (∀ l, getSite L l = getSite L' l) ∧
    (∀ tbl, Idx.indexHamiltonian L tbl = Idx.indexHamiltonian L' tbl) := by
  have h : L = L' := by
    cases L; cases L'
    simp only [Lattice.mk.injEq]
    exact ⟨hs, ht, hm⟩
  subst h
  exact ⟨rfl, fun _ => rfl, fun _ => rfl, fun _ => rfl⟩

end Pomerol.Properties.C20
