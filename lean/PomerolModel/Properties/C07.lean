/-
  Property C07: the block decomposition of the Fock space is a sound partition.

  Models: `Model/Symm.lean` (`Symmetrizer::checkSymmetry` / `compute`, the scan of
  `StatesClassification::compute` as `classify`, `getInnerState` as `innerState`),
  `Model/Index.lean`, `Model/Operator.lean`.  Proofs: `Spec/Partition.lean` (the scan),
  `Spec/SymmSound.lean` (what an accepted integral of motion guarantees), `Spec/OpTotal.lean`
  (nothing in the analysis can fail), `Spec/IndexBij.lean`.

  Part 1 (partition) holds for EVERY quantum-number function `qn` and every comparison `qeq` that is
  an equivalence relation (`IsEquiv qeq`; the library compares hashes of bit patterns: reflexive,
  symmetric, transitive), and every number `n` of Fock states.  `classify qeq qn n` returns
  `(block of every state, states of every block)`.

  Part 2 (soundness) is stated with exact coefficient tests over an arbitrary field, for the
  Jordan-Wigner representation `jwRep K` (the matrices the library itself computes with, see C05);
  `ModesLt M p` says that the polynomial `p` only mentions modes `< M`; `matrixElement op s s` is the
  quantum number of the Fock state `s` (that is how `StatesClassification` computes it).
-/
import PomerolModel.Spec.Partition
import PomerolModel.Spec.SymmSound
import PomerolModel.Spec.OpTotal
import PomerolModel.Spec.IndexBij
import PomerolModel.Spec.SnapProps

set_option linter.unusedSectionVars false

namespace Pomerol.Properties.C07
open Pomerol.Model Pomerol.Model.Symm Pomerol.Spec Pomerol.Spec.Partition Pomerol.Spec.SymmSound

/-! ### 1. the classification is a partition with a bijective (block, inner index) addressing -/

section Partition
variable {Q : Type} (qeq : Q → Q → Bool) (qn : Nat → Q) (n : Nat)

/-- Every Fock state `s < n` is listed in the block recorded for it, and in no other block: whenever
`s` occurs in block `b`, `b` is the block recorded for `s`. -/
theorem every_state_in_exactly_one_block (h : IsEquiv qeq) :
    (∀ s, s < n → ∃ b, (classify qeq qn n).1[s]? = some b ∧ b < (classify qeq qn n).2.length ∧
      s ∈ ((classify qeq qn n).2.getD b [])) ∧
    (∀ s b, s ∈ ((classify qeq qn n).2.getD b []) → (classify qeq qn n).1[s]? = some b) :=
  ⟨fun s hs => mem_own_block qeq qn n s hs, fun s b hm => mem_unique_block qeq qn n h s b hm⟩

/-- The address (block, inner index) and the Fock state determine each other: `getInnerState` of a
state is the position at which its block lists it, and the state listed at position `i` of block
`b` has block `b` and inner index `i`. -/
theorem address_round_trip (h : IsEquiv qeq) :
    (∀ s, s < n → ∃ b i, (classify qeq qn n).1[s]? = some b ∧
      innerState (classify qeq qn n).1 (classify qeq qn n).2 s = some i ∧
      ((classify qeq qn n).2.getD b [])[i]? = some s) ∧
    (∀ b i s, ((classify qeq qn n).2.getD b [])[i]? = some s →
      (classify qeq qn n).1[s]? = some b ∧
      innerState (classify qeq qn n).1 (classify qeq qn n).2 s = some i) :=
  ⟨fun s hs => inner_roundtrip qeq qn n s hs,
    fun b i s hs => address_roundtrip qeq qn n h b i s hs⟩

/-- The block sizes add up to the number of Fock states, and every state has a block number. -/
theorem block_sizes_add_up :
    ((classify qeq qn n).2.map List.length).sum = n ∧ (classify qeq qn n).1.length = n :=
  ⟨sizes_sum qeq qn n, blkOf_length qeq qn n⟩

/-- Two states are in the same block if and only if their quantum numbers agree. -/
theorem same_block_iff_same_quantum_numbers (h : IsEquiv qeq) (s t : Nat) (hs : s < n)
    (ht : t < n) :
    (classify qeq qn n).1[s]? = (classify qeq qn n).1[t]? ↔ qeq (qn s) (qn t) = true :=
  same_block_iff qeq qn n h s t hs ht

end Partition

/-! ### 2. what the acceptance test of `Symmetrizer` guarantees -/

section Soundness
open scoped Pomerol.Spec.Exact
variable {K : Type} [Field K] [DecidableEq K]

/-- An operator accepted by `checkSymmetry` is diagonal in the Fock basis -- every Fock state is an
eigenvector, with the quantum number as eigenvalue -- and it commutes with the Hamiltonian. -/
theorem accepted_integral_is_diagonal (H op : Poly K) (M : Nat) (hm : ModesLt M op)
    (h : checkSymmetry H M op = .ok true) :
    (∀ s, s < 2 ^ M →
      (jwRep K).poly op (Finsupp.single s 1) = matrixElement op s s • Finsupp.single s 1) ∧
    (jwRep K).poly H * (jwRep K).poly op = (jwRep K).poly op * (jwRep K).poly H :=
  ⟨fun s hs => accepted_diagonal H op M hm h s hs, accepted_commutes_H H op M h⟩

/-- The Hamiltonian has no matrix element between states with different quantum numbers, hence none
between different blocks: a non-zero element `⟨t|H|s⟩` forces equal quantum numbers. -/
theorem no_hamiltonian_element_between_blocks (H op : Poly K) (M : Nat) (hmH : ModesLt M H)
    (hm : ModesLt M op) (h : checkSymmetry H M op = .ok true) (s t : Nat) (hs : s < 2 ^ M)
    (ht : t < 2 ^ M) (hne : matrixElement H t s ≠ 0) :
    matrixElement op s s = matrixElement op t t :=
  H_block_diagonal H op M hmH hm h s t hs ht hne

/-- `c†_i` maps a block into a single block: two states with equal quantum numbers (on which `c†_i`
does not vanish) are sent to states with equal quantum numbers; in fact the quantum number is shifted
by a constant that depends on `i` only. -/
theorem creation_single_target (H op : Poly K) (M : Nat) (hm : ModesLt M op)
    (h : checkSymmetry H M op = .ok true) (i : Nat) (hi : i < M) :
    (∀ s t, s < 2 ^ M → t < 2 ^ M → s.testBit i = false → t.testBit i = false →
      matrixElement op s s = matrixElement op t t →
      matrixElement op (flipBit s i) (flipBit s i) =
        matrixElement op (flipBit t i) (flipBit t i)) ∧
    (∃ a : K, ∀ s, s < 2 ^ M → s.testBit i = false →
      matrixElement op (flipBit s i) (flipBit s i) = matrixElement op s s + a) :=
  ⟨fun s t hs ht hsi hti hq => single_target_cdag H op M hm h i hi s t hs ht hsi hti hq,
    shift_cdag H op M hm h i hi⟩

/-- `c_i` maps a block into a single block. -/
theorem annihilation_single_target (H op : Poly K) (M : Nat) (hm : ModesLt M op)
    (h : checkSymmetry H M op = .ok true) (i : Nat) (hi : i < M)
    (s t : Nat) (hs : s < 2 ^ M) (ht : t < 2 ^ M)
    (hsi : s.testBit i = true) (hti : t.testBit i = true)
    (hq : matrixElement op s s = matrixElement op t t) :
    matrixElement op (flipBit s i) (flipBit s i) =
      matrixElement op (flipBit t i) (flipBit t i) :=
  single_target_c H op M hm h i hi s t hs ht hsi hti hq

/-- `c†_i c_j` (i ≠ j) maps a block into a single block. -/
theorem quadratic_single_target (H op : Poly K) (M : Nat) (hm : ModesLt M op)
    (h : checkSymmetry H M op = .ok true)
    (i j : Nat) (hi : i < M) (hj : j < M) (hij : i ≠ j)
    (s t : Nat) (hs : s < 2 ^ M) (ht : t < 2 ^ M)
    (hs1 : s.testBit j = true ∧ s.testBit i = false)
    (ht1 : t.testBit j = true ∧ t.testBit i = false)
    (hq : matrixElement op s s = matrixElement op t t) :
    matrixElement op (flipBit (flipBit s j) i) (flipBit (flipBit s j) i) =
      matrixElement op (flipBit (flipBit t j) i) (flipBit (flipBit t j) i) :=
  single_target_quadratic H op M hm h i j hi hj hij s t hs ht hs1 ht1 hq

end Soundness

/-! ### 3. the analysis completes -/

section Total
variable {K : Type} [Add K] [Sub K] [Mul K] [Neg K] [Zero K] [One K] [CoefTest K]

/-- For every lattice the whole analysis completes without an exception or undefined behaviour
(any coefficient type, any tolerance tests): the index table is built, the Hamiltonian is
translated, the default analysis (N and, when applicable, S_z -- the S_z constructor is only called
when it cannot throw), the analysis of user-supplied candidates, and every single test return
normally. -/
theorem analysis_completes_for_every_lattice :
    (∀ (sites : List Lat.Site) (mode : Bool),
      Idx.prepare sites mode = .ok (Idx.enumerate sites mode)) ∧
    (∀ (L : Lat.Lattice K) (tbl : List Idx.IndexInfo), (Idx.indexHamiltonian L tbl).isSome) ∧
    (∀ (H : Poly K) (tbl : List Idx.IndexInfo) (ignore : Bool) (half : K),
      ∃ acc, computeDefault H tbl ignore half = .ok acc) ∧
    (∀ (H : Poly K) (nmodes : Nat) (ops : List (Poly K)),
      ∃ acc, computeCustom H nmodes ops = .ok acc) ∧
    (∀ (H : Poly K) (nmodes : Nat) (op : Poly K), ∃ b, checkSymmetry H nmodes op = .ok b) :=
  ⟨Pomerol.Spec.IndexBij.prepare_ok, indexHamiltonian_isSome, computeDefault_ok, computeCustom_ok,
    checkSymmetry_ok⟩

end Total

/-! ### 4. regression -/

section Regression
open scoped Pomerol.Spec.Exact

/-- REGRESSION (the defect that was fixed): without the additivity test the non-additive integral
`-n₀n₁` passes the commutation tests, although `c†₀` sends the states 0 and 2 (equal quantum number)
to the states 1 and 3 with different quantum numbers -- a block would be mapped into two blocks. -/
theorem nonadditive_integral_was_accepted :
    (Poly.commutes (K := Int) true (opN 0)
      [([⟨false,0⟩,⟨false,1⟩,⟨true,0⟩,⟨true,1⟩], -1)] = some true) ∧
    matrixElement (K := Int) [([⟨false,0⟩,⟨false,1⟩,⟨true,0⟩,⟨true,1⟩], -1)] 0 0 =
      matrixElement (K := Int) [([⟨false,0⟩,⟨false,1⟩,⟨true,0⟩,⟨true,1⟩], -1)] 2 2 ∧
    matrixElement (K := Int) [([⟨false,0⟩,⟨false,1⟩,⟨true,0⟩,⟨true,1⟩], -1)] 1 1 ≠
      matrixElement (K := Int) [([⟨false,0⟩,⟨false,1⟩,⟨true,0⟩,⟨true,1⟩], -1)] 3 3 :=
  nonlinear_breaks_single_target

end Regression

/-- The source currently performs the additivity test. -/
theorem source_tests_additivity : Pomerol.Gen.Core.additivityTest = true := by decide

/-! ### 5. quantum numbers in floating point: identification of values that differ by rounding only

`StatesClassification::compute` evaluates the quantum numbers in floating point and compares bit patterns.  For an
accepted integral with non-dyadic weights two states that the Hamiltonian connects may get values that agree only up
to rounding (0.1+0.2 vs 0.3; finding F17).  The code therefore replaces a value by the first already known value of
the same operation that is `close` to it (`Model/Symm.lean`: `snap`, `snapRow`, `snapAll`; `rows[s]` = raw quantum
numbers of the Fock state `s`).  The partition theorems of part 1 hold for every quantum-number function, hence also
for the replaced values; the theorems below say what the replacement does. -/

section Snap
open Pomerol.Spec.Snap
variable {Q : Type} {close : Q → Q → Bool} {nops : Nat} {rows : List (List Q)}

/-- The source performs the identification (translator flag). -/
theorem source_identifies_close_quantum_numbers : Pomerol.Gen.Core.quantumNumbersSnapped = true := by decide

/-- With exact comparison (exact arithmetic, part 2) nothing is replaced. -/
theorem identification_is_identity_in_exact_arithmetic [DecidableEq Q] (h : WellShaped nops rows) :
    snapAll (fun a b => decide (a = b)) nops rows = rows := snapAll_exact h

/-- Every value is replaced by a raw value (of the same operation, of an earlier or the same state) that it is close to:
no number is invented and nothing moves further than the tolerance. -/
theorem replaced_value_is_a_close_raw_value (hrefl : ∀ v, close v v = true) (h : WellShaped nops rows) (s n : Nat)
    (v : Q) (hv : entry rows s n = some v) :
    ∃ v', entry (snapAll close nops rows) s n = some v' ∧ close v v' = true ∧
      ∃ t, t ≤ s ∧ entry rows t n = some v' := by
  obtain ⟨v', h1, h2⟩ := snapAll_close hrefl h s n v hv
  exact ⟨v', h1, h2, snapAll_representative_is_raw h s n v' h1⟩

/-- States with equal raw quantum numbers are never separated. -/
theorem equal_values_stay_together (hrefl : ∀ v, close v v = true) (h : WellShaped nops rows) (s t n : Nat) (v : Q)
    (hs : entry rows s n = some v) (ht : entry rows t n = some v) :
    entry (snapAll close nops rows) s n = entry (snapAll close nops rows) t n := snapAll_stable hrefl h s t n v hs ht

/-- When `close` is an equivalence on the values that occur (rounding errors far below the tolerance, distinct exact
values far apart) two states get the same replaced quantum numbers exactly if all their raw values are close: the
blocks are the classes of "equal up to rounding", whatever the order in which the values were met. -/
theorem identified_iff_close (h : WellShaped nops rows)
    (he : ∀ n, n < nops → IsEquivOn close (col rows n)) (s t : Nat) (hs : s < rows.length) (ht : t < rows.length) :
    (snapAll close nops rows)[s]? = (snapAll close nops rows)[t]? ↔
      ∀ n, n < nops → ∃ v w, entry rows s n = some v ∧ entry rows t n = some w ∧ close v w = true :=
  snapAll_rows_iff h he s t hs ht

end Snap

end Pomerol.Properties.C07
