/-
  Property C14, term container of the susceptibility (`SusceptibilityPart::Terms`, a `TermList`).

  `Gen.Susc.termLess` / `Gen.Susc.termNegligible` are EXTRACTED from `SusceptibilityPart.h`
  (`Term::Compare`, `Term::IsNegligible`); `Gen.Susc.termFreq` from `SusceptibilityPart.cpp`
  (`-Residue/(Frequency - Pole)`).  For every sequence of terms handed to `add_term`:
    * residues are conserved (kept + dropped = added) and a term is dropped only when
      `|Residue| < Tolerance / n` fired for some container size `n ≥ 1`;
    * merging terms whose poles differ by less than the comparison tolerance onto the pole stored first
      changes the evaluated sum by at most `tol/δ² · Σ|Residue|` at every `z` at distance `≥ δ` from the
      real axis, in particular by at most `tol/Ω² · Σ|Residue|` at a bosonic Matsubara frequency
      `Ω ≠ 0`.  (The static term `Ω = 0` is not evaluated from this container but from `ZeroPoleWeight`;
      what the residue FILTER in front of the container loses there is finding F14, `Properties/C14.lean`.)
  The statements are the single-particle ones of `Properties/C01.lean`, `Properties/C01Merge.lean`
  transported along `susc_compare_is_gf_compare`, which holds by `rfl` as long as both headers keep the
  comparison `t2.Pole - t1.Pole >= Tolerance`.
-/
import PomerolModel.Properties.C01Merge
import PomerolModel.Generated.SuscFormulas

namespace Pomerol.Properties.C14Merge
open Complex Pomerol Pomerol.Spec Pomerol.Model.TermList Pomerol.Properties.C01

/-- the two extracted comparisons are the same function -/
theorem susc_compare_is_gf_compare (p q tol : ℝ) :
    Gen.Susc.termLess p q tol = Gen.GF.termLess p q tol := rfl

/-- the two extracted negligibility tests are the same function -/
theorem susc_negligible_is_gf_negligible (r : ℂ) (tol d : ℝ) :
    Gen.Susc.termNegligible r tol d = Gen.GF.termNegligible r tol d := rfl

/-- the extracted evaluation of one term -/
theorem susc_term_value (r : ℂ) (p : ℝ) (z : ℂ) : Gen.Susc.termFreq r p z = -(r / (z - (p : ℂ))) := by
  simp [Gen.Susc.termFreq, neg_div]

/-- RESIDUES ARE CONSERVED, ONLY NEGLIGIBLE TERMS ARE DROPPED (extracted predicates of the
susceptibility). -/
theorem susc_dropped_terms_budget (tol ntol : ℝ) (htol : 0 < tol) (ts : List (Term ℂ ℝ)) :
    let less : ℝ → ℝ → Bool := fun p q => Gen.Susc.termLess p q tol
    let negl : ℂ → ℕ → Bool := fun r n => Gen.Susc.termNegligible r ntol (n : ℝ)
    ((kept less negl ts).map (·.res)).sum + ((dropped less negl ts).map (·.res)).sum
      = (ts.map (·.res)).sum ∧
    ∀ x ∈ dropped less negl ts, ∃ n : ℕ, 0 < n ∧ ‖x.res‖ < ntol / (n : ℝ) :=
  dropped_terms_budget_extracted tol ntol htol ts

/-- TOLERANCE-AWARE VALUE BOUND at a general complex frequency. -/
theorem susc_merged_value_error (tol : ℝ) (htol : 0 < tol) (negl : ℂ → ℕ → Bool)
    (ts : List (Term ℂ ℝ)) (z : ℂ) (δ : ℝ) (hδ : 0 < δ) (hz : ∀ p : ℝ, δ ≤ ‖z - (p : ℂ)‖) :
    let less : ℝ → ℝ → Bool := fun p q => Gen.Susc.termLess p q tol
    ‖((kept less negl ts).map fun t => Gen.Susc.termFreq t.res t.pole z).sum
      + ((dropped less negl ts).map fun t => Gen.Susc.termFreq t.res t.pole z).sum
      - (ts.map fun t => Gen.Susc.termFreq t.res t.pole z).sum‖
      ≤ tol / δ ^ 2 * (ts.map fun t => ‖t.res‖).sum := by
  intro less
  have h := C01Merge.merged_value_error tol htol negl ts z δ hδ hz
  have hneg : ∀ l : List (Term ℂ ℝ), (l.map fun t => Gen.Susc.termFreq t.res t.pole z).sum
      = -(l.map fun t => t.res / (z - (t.pole : ℂ))).sum := by
    intro l
    induction l with
    | nil => simp
    | cons a l ih =>
      rw [List.map_cons, List.sum_cons, List.map_cons, List.sum_cons, ih, susc_term_value]; ring
  rw [hneg, hneg, hneg]
  have : -((kept less negl ts).map fun t => t.res / (z - (t.pole : ℂ))).sum
      + -((dropped less negl ts).map fun t => t.res / (z - (t.pole : ℂ))).sum
      - -(ts.map fun t => t.res / (z - (t.pole : ℂ))).sum
      = -(((kept less negl ts).map fun t => t.res / (z - (t.pole : ℂ))).sum
      + ((dropped less negl ts).map fun t => t.res / (z - (t.pole : ℂ))).sum
      - (ts.map fun t => t.res / (z - (t.pole : ℂ))).sum) := by ring
  rw [this, norm_neg]
  exact h

/-- ... at a bosonic Matsubara frequency `z = iΩ`, `Ω ≠ 0`. -/
theorem susc_merged_value_error_matsubara (tol : ℝ) (htol : 0 < tol) (negl : ℂ → ℕ → Bool)
    (ts : List (Term ℂ ℝ)) (Ω : ℝ) (hΩ : Ω ≠ 0) :
    let less : ℝ → ℝ → Bool := fun p q => Gen.Susc.termLess p q tol
    ‖((kept less negl ts).map fun t => Gen.Susc.termFreq t.res t.pole (Complex.I * Ω)).sum
      + ((dropped less negl ts).map fun t => Gen.Susc.termFreq t.res t.pole (Complex.I * Ω)).sum
      - (ts.map fun t => Gen.Susc.termFreq t.res t.pole (Complex.I * Ω)).sum‖
      ≤ tol / Ω ^ 2 * (ts.map fun t => ‖t.res‖).sum := by
  intro less
  have hz : ∀ p : ℝ, |Ω| ≤ ‖Complex.I * (Ω : ℂ) - (p : ℂ)‖ := by
    intro p
    have h := Complex.abs_im_le_norm (Complex.I * (Ω : ℂ) - (p : ℂ))
    simpa using h
  have h := susc_merged_value_error tol htol negl ts (Complex.I * Ω) |Ω| (abs_pos.mpr hΩ) hz
  simpa [sq_abs] using h

end Pomerol.Properties.C14Merge
