/-
  Property C10: the matrices of the creation / annihilation operators stored by the library (the
  "field operator" objects, computed block by block in the eigenbasis of the Hamiltonian) ARE the
  Fock-space matrices of these operators, rotated into the eigenbasis.

  The library computes, for every pair of blocks connected by the operator, the product
  `U_to† · O · U_from`, with `O` given as a map "Fock state ↦ (target Fock state, sign)" and evaluated
  as a product of a left factor (rows of `U_to†` picked by the target states) and a right factor (rows
  of `U_from` multiplied by the sign).  The theorems below say: this product is the rotation
  `U_to† · O · U_from` of the signed partial-permutation matrix of the map, a rotation preserves the
  canonical anticommutation relations, commutes with taking the adjoint (so computing the
  annihilator as the adjoint of the stored creator is right), and can be undone.

  All statements are re-exports of `PomerolModel/Spec/Rotation.lean` (fully proved).
-/
import PomerolModel.Spec.Rotation
import PomerolModel.Spec.FieldPartSpec
import Mathlib.LinearAlgebra.Matrix.Notation

namespace Pomerol.Properties.C10
open Matrix Pomerol.Spec

variable {σ : Type} [Fintype σ] [DecidableEq σ]

/-- The library's way of computing one block of an operator matrix in the eigenbasis is a rotation.
`tgt k = some (l, s)` says "the operator maps the Fock state `k` of the right block to `s` times
the Fock state `l` of the left block" (`none`: it annihilates `k`); `Uto`, `Ufrom` are the
eigenvector matrices of the two blocks.  The product of the library's left factor (entry `(n,k)` =
conj `Uto l n`) and right factor (entry `(k,m)` = `s · Ufrom k m`) equals
`Uto† · O · Ufrom`, where `O` is the signed partial-permutation matrix of `tgt`.  Holds for every
map `tgt` and all (not necessarily unitary) matrices. -/
theorem left_right_is_rotation {τ : Type} [Fintype τ] [DecidableEq τ]
    (Uto : Matrix τ τ ℂ) (Ufrom : Matrix σ σ ℂ) (tgt : σ → Option (τ × ℂ)) :
    (Matrix.of fun (n : τ) (k : σ) =>
        match tgt k with | some (l, _) => (starRingEnd ℂ) (Uto l n) | none => 0)
      * (Matrix.of fun (k : σ) (mm : σ) =>
        match tgt k with | some (_, s) => s * Ufrom k mm | none => 0)
    = Utoᴴ * (Matrix.of fun (l : τ) (k : σ) =>
        match tgt k with | some (l', s) => if l' = l then s else 0 | none => 0) * Ufrom :=
  left_right_product Uto Ufrom tgt

/-- Rotation into the eigenbasis preserves the canonical anticommutation relations: if the Fock-space
matrices satisfy `A·B + B·A = δ·1` (e.g. `A = c_i`, `B = c†_j`, `δ = δ_ij`; or `A = c_i`, `B = c_j`,
`δ = 0`) and `V` is unitary, the rotated matrices `V†AV`, `V†BV` satisfy the same relation. -/
theorem rotation_preserves_car (V A B : Matrix σ σ ℂ) (hV : V * Vᴴ = 1) (δ : ℂ)
    (h : A * B + B * A = δ • 1) (hV' : Vᴴ * V = 1) :
    (Vᴴ * A * V) * (Vᴴ * B * V) + (Vᴴ * B * V) * (Vᴴ * A * V) = δ • 1 :=
  rotated_anticomm V A B hV δ h hV'

/-- The adjoint of the rotated matrix is the rotated adjoint: `(V† A V)† = V† A† V` for ALL `V`, `A`.
Hence the annihilation operator the library obtains as the conjugate transpose of the stored
creation-operator matrix is the rotated Fock-space annihilation operator. -/
theorem stored_annihilator_is_adjoint (V A : Matrix σ σ ℂ) : (Vᴴ * A * V)ᴴ = Vᴴ * Aᴴ * V :=
  rotated_adjoint V A

/-- Rotating the stored matrix back with the (unitary) eigenvector matrix returns the Fock-space
matrix: `V (V† A V) V† = A`.  So no information is lost by storing the rotated matrix. -/
theorem rotate_back (V A : Matrix σ σ ℂ) (hV : V * Vᴴ = 1) : V * (Vᴴ * A * V) * Vᴴ = A :=
  Pomerol.Spec.rotate_back V A hV

/-- Concrete instance: one fermionic mode in the basis (|0⟩, |1⟩); with `V = 1` the rotated
annihilator/creator pair obeys `{c, c†} = 1`. -/
example :
    let c : Matrix (Fin 2) (Fin 2) ℂ := !![0, 1; 0, 0]
    let cd : Matrix (Fin 2) (Fin 2) ℂ := !![0, 0; 1, 0]
    let V : Matrix (Fin 2) (Fin 2) ℂ := 1
    (Vᴴ * c * V) * (Vᴴ * cd * V) + (Vᴴ * cd * V) * (Vᴴ * c * V) = (1 : ℂ) • 1 := by
  intro c cd V
  refine rotation_preserves_car V c cd (by simp [V]) 1 ?_ (by simp [V])
  ext i j
  fin_cases i <;> fin_cases j <;> simp [c, cd]

/-! ### The loops of the library compute these rotated matrices

`Model/FieldPart.lean` is an executable model that follows `FieldOperatorPart::compute` statement by
statement (the loop over the Fock states of the right block, `actRight`, the first returned state and
its amplitude converted to `int`, `getInnerState`, the two dense factors `LeftMat`/`RightMat`, their
product, `sparseView`/`prune`, the row-major and column-major copies) with explicit errors where the
source would throw (`wrongState`) or read outside a matrix (`outOfRange`), and of the adjoint copy
made by `FieldOperatorContainer::computeAll`.  `Spec/FieldPartSpec.lean` proves what it computes.

Setting: `blocks` = the lists of Fock states (bit masks) of all blocks, `blkOf` = the table "block of
a state", `hpart b` = the eigenvector matrix of block `b` (`U fockIndex eigenstate`, `dim` rows);
`FieldPartSpec.Idx blocks` = all (block, inner index) pairs = the full Fock space, `Vfull` = the
block-diagonal matrix of all eigenvectors, `jwFull blocks op` = the Jordan-Wigner matrix of the symbolic
operator `op` on the full Fock space (entries `Operator::getMatrixElement`, proved to be the
Jordan-Wigner representation in `Spec/JW.lean`, `matrixElement_sem`). -/

section Loops
open Pomerol.Model Pomerol.Model.FieldPart Pomerol.Spec.FieldPartSpec
open scoped Pomerol.Spec.Exact

/-- **The loops compute the rotated Jordan-Wigner operator.**  For the part `<l| op |r>`:
`FieldOperatorPart::compute` finishes without an error, the stored matrix has one row per state of the
left block and one column per state of the right block, and BOTH stored copies (row-major and
column-major) hold, entry by entry, the `(l,r)` block of `Uᴴ · JW(op) · U`.

Hypotheses: the two blocks list no state twice and the table `blkOf` agrees with the lists (C07); the
eigenvector matrices have not been truncated; `op` sends every state of the right block into the left
block or annihilates it (`hinto`, the single-target property of C07).  Because the source only looks
at the FIRST state returned by `actRight` and converts its amplitude to `int`, the operator must
return at most one state (`hsingle`) with an integer amplitude (`hint`); for `c_i`, `c†_i`,
`c†_i c_j` this always holds, see `loops_compute_rotated_operator_presets`. -/
theorem loops_compute_rotated_operator (realBuild : Bool) (blkOf : List ℕ) (blocks : List (List ℕ))
    (hpart : ℕ → HPart ℂ) (op : Poly ℂ) (l r : Fin blocks.length)
    (hcls : ∀ b s, s ∈ blocks.getD b [] → blkOf[s]? = some b)
    (hndl : (blocks.get l).Nodup) (hndr : (blocks.get r).Nodup)
    (hdiml : (blocks.get l).length ≤ (hpart l).dim) (hdimr : (blocks.get r).length ≤ (hpart r).dim)
    (hsingle : ∀ f ∈ blocks.get r, (actPoly op f).length ≤ 1)
    (hinto : ∀ f ∈ blocks.get r, ∀ x ∈ actPoly op f, x.1 ∈ blocks.get l)
    (hint : ∀ f ∈ blocks.get r, ∀ x ∈ actPoly op f, ((truncZ x.2.re : ℤ) : ℂ) = x.2) :
    ∃ S, computeBlocks realBuild blkOf blocks hpart l r op = .ok S ∧
      S.rows = (blocks.get l).length ∧ S.cols = (blocks.get r).length ∧
      ∀ (n : Fin (blocks.get l).length) (m : Fin (blocks.get r).length),
        S.coeffRow n m
          = ((Vfull blocks hpart)ᴴ * jwFull blocks op * Vfull blocks hpart) ⟨l, n⟩ ⟨r, m⟩ ∧
        S.coeffCol n m
          = ((Vfull blocks hpart)ᴴ * jwFull blocks op * Vfull blocks hpart) ⟨l, n⟩ ⟨r, m⟩ :=
  fieldpart_is_rotated_block realBuild blkOf blocks hpart op l r hcls hndl hndr hdiml hdimr
    hsingle hinto hint

/-- The same for the operators the library actually uses -- one monomial with coefficient 1
(`opC i = [([c_i], 1)]`, `opCdag i`, `opNOffdiag i j`): the only hypothesis on the operator is the
single-target property, stated on the bit-mask action `actMono` (so it can be checked by evaluation
for concrete blocks). -/
theorem loops_compute_rotated_operator_presets (realBuild : Bool) (blkOf : List ℕ)
    (blocks : List (List ℕ)) (hpart : ℕ → HPart ℂ) (mono : Mono) (l r : Fin blocks.length)
    (hcls : ∀ b s, s ∈ blocks.getD b [] → blkOf[s]? = some b)
    (hndl : (blocks.get l).Nodup) (hndr : (blocks.get r).Nodup)
    (hdiml : (blocks.get l).length ≤ (hpart l).dim) (hdimr : (blocks.get r).length ≤ (hpart r).dim)
    (hinto : ∀ f ∈ blocks.get r, ∀ q ∈ actMono mono f, q.1 ∈ blocks.get l) :
    ∃ S, computeBlocks realBuild blkOf blocks hpart l r [(mono, (1 : ℂ))] = .ok S ∧
      S.rows = (blocks.get l).length ∧ S.cols = (blocks.get r).length ∧
      ∀ (n : Fin (blocks.get l).length) (m : Fin (blocks.get r).length),
        S.coeffRow n m
          = ((Vfull blocks hpart)ᴴ * jwFull blocks [(mono, (1 : ℂ))] * Vfull blocks hpart)
              ⟨l, n⟩ ⟨r, m⟩ ∧
        S.coeffCol n m
          = ((Vfull blocks hpart)ᴴ * jwFull blocks [(mono, (1 : ℂ))] * Vfull blocks hpart)
              ⟨l, n⟩ ⟨r, m⟩ :=
  fieldpart_is_rotated_block_mono realBuild blkOf blocks hpart mono l r hcls hndl hndr hdiml hdimr
    hinto

/-- `FieldOperator::prepare` pairs the right block `r` with the block `l = mapsTo(r)` of the first
state reached from `r`.  When all states reached from block `r` lie in one block (single-target
property, C07) and the table `blkOf` agrees with the lists of states, this `l` satisfies the
hypothesis `hinto` above: `prepare` creates exactly the parts for which the loops are correct. -/
theorem prepare_pairs_the_right_blocks (op : Poly ℂ) (blkOf : List ℕ) (blocks : List (List ℕ))
    (r : Fin blocks.length) (l : ℕ)
    (hmap : Symm.mapsTo op blkOf (blocks.get r) = some l)
    (hcls' : ∀ s b, blkOf[s]? = some b → s ∈ blocks.getD b [])
    (hsame : ∀ f ∈ blocks.get r, ∀ f' ∈ blocks.get r, ∀ x ∈ actPoly op f, ∀ x' ∈ actPoly op f',
      blkOf[x.1]? = blkOf[x'.1]?) :
    ∀ f ∈ blocks.get r, ∀ x ∈ actPoly op f, x.1 ∈ blocks.getD l [] :=
  into_of_mapsTo op blkOf blocks r l hmap hcls' hsame

/-- The Jordan-Wigner matrix of the adjoint symbolic operator (reversed monomials with creation and
annihilation exchanged, conjugated coefficients) is the conjugate transpose of the Jordan-Wigner
matrix of the operator; so `stored_annihilator_is_adjoint` applies with `A = JW(c†_i)`,
`Aᴴ = JW(c_i)`. -/
theorem jw_of_adjoint_operator (blocks : List (List ℕ)) (op : Poly ℂ) :
    jwFull blocks (adjPoly op) = (jwFull blocks op)ᴴ := by
  ext k l
  rw [conjTranspose_apply]
  exact matrixElement_adjPoly op _ _

/-- **The copy made by the container is the annihilation operator.**
`FieldOperatorContainer::computeAll` does not run `compute` for the annihilation operator: the part of
`c` whose right block is `l` receives the adjoint (stored copies exchanged, values conjugated) of the
part `<l| c† |r>` of the creation operator.  That copy is EXACTLY the object `compute` would have
produced for the part `<r| c |l>` -- same entries, same storage order, both copies.  Stated for every
operator `op` and its adjoint `adjPoly op` (`adjPoly (opCdag i) = opC i`), under the hypotheses of
`loops_compute_rotated_operator` for both operators. -/
theorem container_copy_is_annihilator (realBuild : Bool) (blkOf : List ℕ)
    (blocks : List (List ℕ)) (hpart : ℕ → HPart ℂ) (op : Poly ℂ) (l r : Fin blocks.length)
    (hcls : ∀ b s, s ∈ blocks.getD b [] → blkOf[s]? = some b)
    (hndl : (blocks.get l).Nodup) (hndr : (blocks.get r).Nodup)
    (hdiml : (blocks.get l).length ≤ (hpart l).dim) (hdimr : (blocks.get r).length ≤ (hpart r).dim)
    (hsingle : ∀ f ∈ blocks.get r, (actPoly op f).length ≤ 1)
    (hinto : ∀ f ∈ blocks.get r, ∀ x ∈ actPoly op f, x.1 ∈ blocks.get l)
    (hint : ∀ f ∈ blocks.get r, ∀ x ∈ actPoly op f, ((truncZ x.2.re : ℤ) : ℂ) = x.2)
    (hsingle' : ∀ f ∈ blocks.get l, (actPoly (adjPoly op) f).length ≤ 1)
    (hinto' : ∀ f ∈ blocks.get l, ∀ x ∈ actPoly (adjPoly op) f, x.1 ∈ blocks.get r)
    (hint' : ∀ f ∈ blocks.get l, ∀ x ∈ actPoly (adjPoly op) f, ((truncZ x.2.re : ℤ) : ℂ) = x.2) :
    ∃ S, computeBlocks realBuild blkOf blocks hpart l r op = .ok S ∧
      computeBlocks realBuild blkOf blocks hpart r l (adjPoly op) = .ok (adjointCopy S) :=
  container_annihilator_is_adjoint realBuild blkOf blocks hpart op l r hcls hndl hndr hdiml hdimr
    hsingle hinto hint hsingle' hinto' hint'

/-- The same for `c†_i` / `c_i` (`mono = [c†_i]`, `adjMono mono = [c_i]`) and every other single
monomial: only the single-target properties of the monomial and of its adjoint are needed. -/
theorem container_copy_is_annihilator_presets (realBuild : Bool) (blkOf : List ℕ)
    (blocks : List (List ℕ)) (hpart : ℕ → HPart ℂ) (mono : Mono) (l r : Fin blocks.length)
    (hcls : ∀ b s, s ∈ blocks.getD b [] → blkOf[s]? = some b)
    (hndl : (blocks.get l).Nodup) (hndr : (blocks.get r).Nodup)
    (hdiml : (blocks.get l).length ≤ (hpart l).dim) (hdimr : (blocks.get r).length ≤ (hpart r).dim)
    (hinto : ∀ f ∈ blocks.get r, ∀ q ∈ actMono mono f, q.1 ∈ blocks.get l)
    (hinto' : ∀ f ∈ blocks.get l, ∀ q ∈ actMono (adjMono mono) f, q.1 ∈ blocks.get r) :
    ∃ S, computeBlocks realBuild blkOf blocks hpart l r [(mono, (1 : ℂ))] = .ok S ∧
      computeBlocks realBuild blkOf blocks hpart r l [(adjMono mono, (1 : ℂ))]
        = .ok (adjointCopy S) :=
  container_annihilator_is_adjoint_mono realBuild blkOf blocks hpart mono l r hcls hndl hndr hdiml
    hdimr hinto hinto'

/-- Concrete instance (2 modes, blocks `{00}`, `{01,10}`, `{11}`, complex eigenvector matrix
`[[1,i],[i,1]]` of the middle block): all hypotheses hold for `c†_0` from the one-particle block
into the two-particle block and for `c_0` back, hence the part of `c_0` the container stores is the
one `compute` would produce. -/
example : ∃ S, computeBlocks false exBlkOf exBlocks exHPart 2 1 [([⟨false, 0⟩], (1 : ℂ))] = .ok S ∧
    computeBlocks false exBlkOf exBlocks exHPart 1 2 [([⟨true, 0⟩], (1 : ℂ))]
      = .ok (adjointCopy S) :=
  container_copy_is_annihilator_presets false exBlkOf exBlocks exHPart [⟨false, 0⟩]
    (⟨2, by decide⟩ : Fin exBlocks.length) (⟨1, by decide⟩ : Fin exBlocks.length) ex_cls
    (by decide) (by decide) (by simp [exHPart, exBlocks]) (by simp [exHPart, exBlocks])
    (by decide) (by decide)

end Loops

/-! ### Runs of the executable model on 2 modes (exact integer matrix elements)

Blocks `{00}`, `{01,10}`, `{11}` = bit masks `[[0],[1,2],[3]]`; eigenvector matrix of the middle
block `[[1,1],[1,-1]]` (columns = eigenvectors), `(1)` for the other two. -/

section Runs
open Pomerol.Model Pomerol.Model.FieldPart
open scoped Pomerol.Model.FieldPart.IntScalars

/-- the three `HamiltonianPart`s -/
def runHPart : ℕ → HPart Int
  | 1 => ⟨2, fun i j => if i = 1 ∧ j = 1 then -1 else 1⟩
  | _ => ⟨1, fun _ _ => 1⟩

/-- the same after `Hamiltonian::reduce` kept ONE eigenstate of the middle block -/
def runHPartReduced : ℕ → HPart Int
  | 1 => ⟨1, fun _ _ => 1⟩
  | _ => ⟨1, fun _ _ => 1⟩

/-- `<{11}| c†_1 |{01,10}>`: `c†_1|01⟩ = −|11⟩` (one occupied mode below), `c†_1|10⟩ = 0`; rotated with
the eigenvectors: the row `(−1, −1)`.  Stored row-major as one row, column-major as two columns. -/
example : computeBlocks false [0, 1, 1, 2] [[0], [1, 2], [3]] runHPart 2 1 (opCdag 1)
    = .ok ⟨1, 2, [[(0, -1), (1, -1)]], [[(0, -1)], [(0, -1)]]⟩ := by decide

/-- the container's copy of it is what `compute` gives for `<{01,10}| c_1 |{11}>` -/
example : (computeBlocks false [0, 1, 1, 2] [[0], [1, 2], [3]] runHPart 2 1 (opCdag 1)).map
      adjointCopy
    = computeBlocks false [0, 1, 1, 2] [[0], [1, 2], [3]] runHPart 1 2 (opC 1) := by decide

/-- entries that cancel are not stored: `<{11}| (c†_0 + c†_1) |{01,10}>` has the dense row `(0, −2)` -/
example : computeBlocks true [0, 1, 1, 2] [[0], [1, 2], [3]] runHPart 2 1
      [([⟨false, 0⟩], 1), ([⟨false, 1⟩], 1)]
    = .ok ⟨1, 2, [[(1, -2)]], [[], [(0, -2)]]⟩ := by decide

/-- WHY the single-target hypothesis is needed: asked for the part `<{00}| c†_0 |{01,10}>` (which is
zero: `c†_0` maps the one-particle block into `{11}`), the source takes the inner index of `|11⟩` in
ITS block and reads the eigenvector matrix of `{00}` with it -- no error, a non-zero result.  The
library never asks for such a part because `FieldOperator::prepare` pairs the blocks via `mapsTo`. -/
example : computeBlocks false [0, 1, 1, 2] [[0], [1, 2], [3]] runHPart 0 1 (opCdag 0)
    = .ok ⟨1, 2, [[(0, 1), (1, -1)]], [[(0, 1)], [(0, -1)]]⟩ := by decide

/-- WHY the eigenvector matrices must not be truncated: after `Hamiltonian::reduce` the loops over
`n < toStates.size()` / `m < fromStates.size()` read outside the reduced matrix. -/
example : computeBlocks false [0, 1, 1, 2] [[0], [1, 2], [3]] runHPartReduced 2 1 (opCdag 1)
    = .error .outOfRange := by decide

end Runs

end Pomerol.Properties.C10
