/-
  Property C10: the matrices of the creation / annihilation operators stored by the library (the
  "field operator" objects, computed block by block in the eigenbasis of the Hamiltonian) ARE the
  Fock-space matrices of these operators, rotated into the eigenbasis.

  The library computes, for every pair of blocks connected by the operator, the product
  `U_to† · O · U_from`, with `O` given as a map "Fock state ↦ (target Fock state, sign)" and evaluated
  as a product of a left factor (rows of `U_to†` picked by the target states) and a right factor (rows
  of `U_from` multiplied by the sign).  The theorems below say: this product is the rotation
  `U_to† · O · U_from` of the signed partial-permutation matrix of the map, a rotation preserves the
  canonical anticommutation relations, commutes with taking the adjoint (so computing the
  annihilator as the adjoint of the stored creator is right), and can be undone.

  All statements are re-exports of `PomerolModel/Spec/Rotation.lean` (fully proved).
-/
import PomerolModel.Spec.Rotation
import Mathlib.LinearAlgebra.Matrix.Notation

namespace Pomerol.Properties.C10
open Matrix Pomerol.Spec

variable {σ : Type} [Fintype σ] [DecidableEq σ]

/-- The library's way of computing one block of an operator matrix in the eigenbasis is a rotation.
`tgt k = some (l, s)` says "the operator maps the Fock state `k` of the right block to `s` times
the Fock state `l` of the left block" (`none`: it annihilates `k`); `Uto`, `Ufrom` are the
eigenvector matrices of the two blocks.  The product of the library's left factor (entry `(n,k)` =
conj `Uto l n`) and right factor (entry `(k,m)` = `s · Ufrom k m`) equals
`Uto† · O · Ufrom`, where `O` is the signed partial-permutation matrix of `tgt`.  Holds for every
map `tgt` and all (not necessarily unitary) matrices. -/
theorem left_right_is_rotation {τ : Type} [Fintype τ] [DecidableEq τ]
    (Uto : Matrix τ τ ℂ) (Ufrom : Matrix σ σ ℂ) (tgt : σ → Option (τ × ℂ)) :
    (Matrix.of fun (n : τ) (k : σ) =>
        match tgt k with | some (l, _) => (starRingEnd ℂ) (Uto l n) | none => 0)
      * (Matrix.of fun (k : σ) (mm : σ) =>
        match tgt k with | some (_, s) => s * Ufrom k mm | none => 0)
    = Utoᴴ * (Matrix.of fun (l : τ) (k : σ) =>
        match tgt k with | some (l', s) => if l' = l then s else 0 | none => 0) * Ufrom :=
  left_right_product Uto Ufrom tgt

/-- Rotation into the eigenbasis preserves the canonical anticommutation relations: if the Fock-space
matrices satisfy `A·B + B·A = δ·1` (e.g. `A = c_i`, `B = c†_j`, `δ = δ_ij`; or `A = c_i`, `B = c_j`,
`δ = 0`) and `V` is unitary, the rotated matrices `V†AV`, `V†BV` satisfy the same relation. -/
theorem rotation_preserves_car (V A B : Matrix σ σ ℂ) (hV : V * Vᴴ = 1) (δ : ℂ)
    (h : A * B + B * A = δ • 1) (hV' : Vᴴ * V = 1) :
    (Vᴴ * A * V) * (Vᴴ * B * V) + (Vᴴ * B * V) * (Vᴴ * A * V) = δ • 1 :=
  rotated_anticomm V A B hV δ h hV'

/-- The adjoint of the rotated matrix is the rotated adjoint: `(V† A V)† = V† A† V` for ALL `V`, `A`.
Hence the annihilation operator the library obtains as the conjugate transpose of the stored
creation-operator matrix is the rotated Fock-space annihilation operator. -/
theorem stored_annihilator_is_adjoint (V A : Matrix σ σ ℂ) : (Vᴴ * A * V)ᴴ = Vᴴ * Aᴴ * V :=
  rotated_adjoint V A

/-- Rotating the stored matrix back with the (unitary) eigenvector matrix returns the Fock-space
matrix: `V (V† A V) V† = A`.  So no information is lost by storing the rotated matrix. -/
theorem rotate_back (V A : Matrix σ σ ℂ) (hV : V * Vᴴ = 1) : V * (Vᴴ * A * V) * Vᴴ = A :=
  Pomerol.Spec.rotate_back V A hV

/-- Concrete instance: one fermionic mode in the basis (|0⟩, |1⟩); with `V = 1` the rotated
annihilator/creator pair obeys `{c, c†} = 1`. -/
example :
    let c : Matrix (Fin 2) (Fin 2) ℂ := !![0, 1; 0, 0]
    let cd : Matrix (Fin 2) (Fin 2) ℂ := !![0, 0; 1, 0]
    let V : Matrix (Fin 2) (Fin 2) ℂ := 1
    (Vᴴ * c * V) * (Vᴴ * cd * V) + (Vᴴ * cd * V) * (Vᴴ * c * V) = (1 : ℂ) • 1 := by
  intro c cd V
  refine rotation_preserves_car V c cd (by simp [V]) 1 ?_ (by simp [V])
  ext i j
  fin_cases i <;> fin_cases j <;> simp [c, cd]

end Pomerol.Properties.C10
