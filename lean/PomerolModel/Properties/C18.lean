/-
  Property C18: the single-particle index bookkeeping is a bijection.

  Model: `Model/Index.lean` (faithful model of `IndexClassification::prepare`, `getIndex`, `getInfo`:
  the enumeration loops of both ordering modes -- site-major, and spin-major with the
  `continue`/`break` of the source recorded in `Gen.Core.spinMajorBreaks` --, the resize of the table
  to `IndexSize`, the dereference of every slot, the forward and inverse lookups).  The proofs are in
  `Spec/IndexBij.lean`.

  Every theorem holds for every list of sites with pairwise distinct labels (the keys of a
  `std::map`), any number of orbitals and spins per site (0 included), and both ordering modes.
  A triple (label, orbital, spin) is *valid* (`Valid sites x`) when the lattice has a site with that
  label, and the orbital and the spin are below that site's numbers of orbitals and spins.
-/
import PomerolModel.Spec.IndexBij

namespace Pomerol.Properties.C18
open Pomerol.Model Pomerol.Model.Lat Pomerol.Model.Idx Pomerol.Spec.IndexBij

/-- The table built by `prepare` contains a triple if and only if the triple is valid for the
lattice. -/
theorem enumeration_is_exactly_the_valid_triples (sites : List Site)
    (hd : (sites.map (·.label)).Nodup) (mode : Bool) (x : IndexInfo) :
    x ∈ enumerate sites mode ↔ Valid sites x :=
  enumerate_mem sites hd mode x

/-- No triple receives two indices. -/
theorem enumeration_has_no_repetition (sites : List Site) (hd : (sites.map (·.label)).Nodup)
    (mode : Bool) : (enumerate sites mode).Nodup :=
  enumerate_nodup sites hd mode

/-- The number of entries written equals `IndexSize` = Σ_sites orbitals × spins (the size the table
was allocated with). -/
theorem table_size (sites : List Site) (mode : Bool) :
    (enumerate sites mode).length = indexSize sites :=
  enumerate_length sites mode

/-- `prepare` never overflows the table and never dereferences a slot that was left null: it
succeeds and returns the enumeration. -/
theorem prepare_succeeds (sites : List Site) (mode : Bool) :
    prepare sites mode = .ok (enumerate sites mode) :=
  prepare_ok sites mode

/-- `getIndex (getInfo i) = i` for every index `i < IndexSize`, and `getInfo i` is a valid triple. -/
theorem inverse_of_forward (sites : List Site) (hd : (sites.map (·.label)).Nodup) (mode : Bool)
    (i : Nat) (hi : i < indexSize sites) :
    ∃ x, getInfo (enumerate sites mode) i = .ok x ∧ getIndex (enumerate sites mode) x = i ∧
      Valid sites x :=
  getIndex_getInfo sites hd mode i hi

/-- `getInfo (getIndex x) = x` for every valid triple `x`, and `getIndex x < IndexSize`. -/
theorem forward_of_inverse (sites : List Site) (hd : (sites.map (·.label)).Nodup) (mode : Bool)
    (x : IndexInfo) (hx : Valid sites x) :
    getIndex (enumerate sites mode) x < indexSize sites ∧
      getInfo (enumerate sites mode) (getIndex (enumerate sites mode) x) = .ok x :=
  getInfo_getIndex sites hd mode x hx

/-- A triple that is not valid is mapped to `IndexSize` (the "not found" value), never to an index in
use. -/
theorem invalid_triple_maps_to_size (sites : List Site) (hd : (sites.map (·.label)).Nodup)
    (mode : Bool) (x : IndexInfo) (hx : ¬ Valid sites x) :
    getIndex (enumerate sites mode) x = indexSize sites :=
  getIndex_invalid sites hd mode x hx

/-- `getInfo` rejects every index `≥ IndexSize` with `exWrongIndex`. -/
theorem out_of_range_index_rejected (sites : List Site) (mode : Bool) (i : Nat)
    (hi : indexSize sites ≤ i) : getInfo (enumerate sites mode) i = .error .wrongIndex :=
  getInfo_out_of_range sites mode i hi

/-- The two ordering modes index the same set of triples: switching the mode permutes the indices. -/
theorem ordering_modes_differ_by_a_permutation (sites : List Site)
    (hd : (sites.map (·.label)).Nodup) :
    (enumerate sites true).Perm (enumerate sites false) :=
  modes_perm sites hd

/-- REGRESSION (defect that was fixed): with `break` in place of `continue` in the spin-major site
loop, a site with one spin sorted before a site with two spins makes the loop skip an entry, so
fewer than `IndexSize` slots are filled and a null slot is dereferenced. -/
theorem break_variant_was_wrong :
    ((List.range 2).flatMap fun z => spinMajorSites true z [⟨"A", 1, 1⟩, ⟨"B", 1, 2⟩]).length
      < indexSize [⟨"A", 1, 1⟩, ⟨"B", 1, 2⟩] :=
  break_variant_loses_entries

/-- The source currently says `continue`, which is the variant the theorems above are about. -/
theorem source_uses_continue : Pomerol.Gen.Core.spinMajorBreaks = false := by decide

end Pomerol.Properties.C18
