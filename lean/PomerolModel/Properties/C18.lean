/-
  Property C18: the single-particle index bookkeeping is a bijection.

  Model: `Model/Index.lean` (faithful model of `IndexClassification::prepare`, `getIndex`, `getInfo`:
  the enumeration loops of both ordering modes -- site-major, and spin-major with the
  `continue`/`break` of the source recorded in `Gen.Core.spinMajorBreaks` --, the resize of the table
  to `IndexSize`, the dereference of every slot, the forward and inverse lookups).  The proofs are in
  `Spec/IndexBij.lean`.

  Every theorem holds for every list of sites with pairwise distinct labels (the keys of a
  `std::map`), any number of orbitals and spins per site (0 included), and both ordering modes.
  A triple (label, orbital, spin) is *valid* (`Valid sites x`) when the lattice has a site with that
  label, and the orbital and the spin are below that site's numbers of orbitals and spins.
-/
import PomerolModel.Spec.IndexBij
import PomerolModel.Spec.IndexInvariance

namespace Pomerol.Properties.C18
open Pomerol.Model Pomerol.Model.Lat Pomerol.Model.Idx Pomerol.Spec.IndexBij

/-- The table built by `prepare` contains a triple if and only if the triple is valid for the
lattice. -/
theorem enumeration_is_exactly_the_valid_triples (sites : List Site)
    (hd : (sites.map (·.label)).Nodup) (mode : Bool) (x : IndexInfo) :
    x ∈ enumerate sites mode ↔ Valid sites x :=
  enumerate_mem sites hd mode x

/-- No triple receives two indices. -/
theorem enumeration_has_no_repetition (sites : List Site) (hd : (sites.map (·.label)).Nodup)
    (mode : Bool) : (enumerate sites mode).Nodup :=
  enumerate_nodup sites hd mode

/-- The number of entries written equals `IndexSize` = Σ_sites orbitals × spins (the size the table
was allocated with). -/
theorem table_size (sites : List Site) (mode : Bool) :
    (enumerate sites mode).length = indexSize sites :=
  enumerate_length sites mode

/-- `prepare` never overflows the table and never dereferences a slot that was left null: it
succeeds and returns the enumeration. -/
theorem prepare_succeeds (sites : List Site) (mode : Bool) :
    prepare sites mode = .ok (enumerate sites mode) :=
  prepare_ok sites mode

/-- `getIndex (getInfo i) = i` for every index `i < IndexSize`, and `getInfo i` is a valid triple. -/
theorem inverse_of_forward (sites : List Site) (hd : (sites.map (·.label)).Nodup) (mode : Bool)
    (i : Nat) (hi : i < indexSize sites) :
    ∃ x, getInfo (enumerate sites mode) i = .ok x ∧ getIndex (enumerate sites mode) x = i ∧
      Valid sites x :=
  getIndex_getInfo sites hd mode i hi

/-- `getInfo (getIndex x) = x` for every valid triple `x`, and `getIndex x < IndexSize`. -/
theorem forward_of_inverse (sites : List Site) (hd : (sites.map (·.label)).Nodup) (mode : Bool)
    (x : IndexInfo) (hx : Valid sites x) :
    getIndex (enumerate sites mode) x < indexSize sites ∧
      getInfo (enumerate sites mode) (getIndex (enumerate sites mode) x) = .ok x :=
  getInfo_getIndex sites hd mode x hx

/-- A triple that is not valid is mapped to `IndexSize` (the "not found" value), never to an index in
use. -/
theorem invalid_triple_maps_to_size (sites : List Site) (hd : (sites.map (·.label)).Nodup)
    (mode : Bool) (x : IndexInfo) (hx : ¬ Valid sites x) :
    getIndex (enumerate sites mode) x = indexSize sites :=
  getIndex_invalid sites hd mode x hx

/-- `getInfo` rejects every index `≥ IndexSize` with `exWrongIndex`. -/
theorem out_of_range_index_rejected (sites : List Site) (mode : Bool) (i : Nat)
    (hi : indexSize sites ≤ i) : getInfo (enumerate sites mode) i = .error .wrongIndex :=
  getInfo_out_of_range sites mode i hi

/-- The two ordering modes index the same set of triples: switching the mode permutes the indices. -/
theorem ordering_modes_differ_by_a_permutation (sites : List Site)
    (hd : (sites.map (·.label)).Nodup) :
    (enumerate sites true).Perm (enumerate sites false) :=
  modes_perm sites hd

/-- REGRESSION (defect that was fixed): with `break` in place of `continue` in the spin-major site
loop, a site with one spin sorted before a site with two spins makes the loop skip an entry, so
fewer than `IndexSize` slots are filled and a null slot is dereferenced. -/
theorem break_variant_was_wrong :
    ((List.range 2).flatMap fun z => spinMajorSites true z [⟨"A", 1, 1⟩, ⟨"B", 1, 2⟩]).length
      < indexSize [⟨"A", 1, 1⟩, ⟨"B", 1, 2⟩] :=
  break_variant_loses_entries

/-- The source currently says `continue`, which is the variant the theorems above are about. -/
theorem source_uses_continue : Pomerol.Gen.Core.spinMajorBreaks = false := by decide

/-! ## Invariance: "renaming sites or switching the ordering mode changes every result only by
the induced permutation of indices"

Proofs in `Spec/IndexInvariance.lean`.  A polynomial `H` of the operator algebra is read as an
operator `r.poly H` in an arbitrary representation `r` of the canonical anticommutation relations
(`c_i² = c†_i² = 0` assumed, as for the Jordan-Wigner matrices and in every algebra without
2-torsion).  `r.reindex π _` is the representation with renumbered operators `c_{π i}`, `c†_{π i}`.
The statements are about operators, not about the stored polynomials: the library stores products
normal-ordered, and renumbering the indices of a normal-ordered product can cost a sign
(`IndexInvariance.mapIdx_not_normal_ordered`). -/

section Invariance
open Pomerol.Spec Pomerol.Spec.IndexInvariance
open scoped Pomerol.Spec.Exact
variable {K A : Type} [CommRing K] [DecidableEq K] [Ring A] [Algebra K A]

omit [DecidableEq K] in
/-- Renumbering the modes by an injective map turns creation/annihilation operators obeying the
canonical anticommutation relations into operators obeying them again (and keeps `c_i² = c†_i² = 0`):
there is a CAR representation whose `i`-th operators are the `π i`-th operators of the given one. -/
theorem renumbered_representation_is_car (r : CARRep K A) (π : Nat → Nat)
    (hπ : Function.Injective π) :
    ∃ r' : CARRep K A, r' = r.reindex π hπ ∧ (∀ i, r'.c i = r.c (π i)) ∧
      (∀ i, r'.cd i = r.cd (π i)) ∧
      ((∀ i, r.c i * r.c i = 0) → ∀ i, r'.c i * r'.c i = 0) ∧
      ((∀ i, r.cd i * r.cd i = 0) → ∀ i, r'.cd i * r'.cd i = 0) :=
  ⟨r.reindex π hπ, rfl, fun _ => rfl, fun _ => rfl, reindex_sq_c r π hπ, reindex_sq_cd r π hπ⟩

/-- **Switching the ordering mode only renumbers the operators.**  Let the sites of `L` have distinct
labels and let `π = modePerm L.sites` send the index a triple (label, orbital, spin) has in the
site-major table (`order_spins = false`) to the index it has in the spin-major table
(`order_spins = true`).  Then `π` is a permutation of ℕ that maps `0..IndexSize-1` onto itself and
fixes everything else, it intertwines the two forward lookups for every triple, and for every CAR
representation: both Hamiltonians are built, and the site-major Hamiltonian written with the
renumbered operators `c_{π i}`, `c†_{π i}` IS the spin-major Hamiltonian written with `c_i`, `c†_i`
-- the same operator. -/
theorem mode_switch_is_renumbering (L : Lat.Lattice K) (hd : (L.sites.map (·.label)).Nodup) :
    Function.Bijective (modePerm L.sites) ∧
    (∀ i, i < indexSize L.sites → modePerm L.sites i < indexSize L.sites) ∧
    (∀ i, indexSize L.sites ≤ i → modePerm L.sites i = i) ∧
    (∀ x, modePerm L.sites (getIndex (enumerate L.sites false) x) =
      getIndex (enumerate L.sites true) x) ∧
    ∀ (r : CARRep K A), (∀ i, r.c i * r.c i = 0) → (∀ i, r.cd i * r.cd i = 0) →
      ∃ H0 H1 : Poly K, indexHamiltonian L (enumerate L.sites false) = some H0 ∧
        indexHamiltonian L (enumerate L.sites true) = some H1 ∧
        (r.reindex (modePerm L.sites) (modePerm_injective L.sites hd)).poly H0 = r.poly H1 :=
  ⟨modePerm_bijective L.sites hd, modePerm_lt L.sites hd,
    fun i hi => tableMap_of_ge i (by rw [enumerate_length]; exact hi),
    modePerm_getIndex L.sites hd,
    fun r hc hcd => indexHamiltonian_mode_switch L.sites hd L r hc hcd⟩

/-- **Renaming the sites only renumbers the operators.**  Let the sites of `L` have distinct labels,
let every stored term name a label for each of its operators (`LabelsComplete`, true for all preset
terms), and let `ρ` be injective on the labels occurring in `L`.  `relabel ρ L` is the lattice with
every label renamed; its sites are sorted by the NEW labels (as the `std::map` keeps them), so the
enumeration order can change.  Let `π = relabelPerm ρ L.sites mode` send the index of a triple in
the table of `L` to the index of the renamed triple in the table of `relabel ρ L`.  Then `π` is a
permutation of ℕ, and for every ordering mode and CAR representation: both Hamiltonians are built,
and the Hamiltonian of `L` written with the renumbered operators `c_{π i}`, `c†_{π i}` IS the
Hamiltonian of the relabelled lattice written with `c_i`, `c†_i`. -/
theorem renaming_sites_is_renumbering (ρ : String → String) (L : Lat.Lattice K)
    (hd : (L.sites.map (·.label)).Nodup) (hwf : LabelsComplete L)
    (hρ : ∀ a ∈ labelsOf L, ∀ b ∈ labelsOf L, ρ a = ρ b → a = b) (mode : Bool) :
    ((relabel ρ L).sites.map (·.label)).Pairwise (· < ·) ∧
    (relabel ρ L).sites.Perm (L.sites.map (renameSite ρ)) ∧
    Function.Bijective (relabelPerm ρ L.sites mode) ∧
    ∀ (r : CARRep K A), (∀ i, r.c i * r.c i = 0) → (∀ i, r.cd i * r.cd i = 0) →
      ∃ H H' : Poly K, indexHamiltonian L (enumerate L.sites mode) = some H ∧
        indexHamiltonian (relabel ρ L) (enumerate (relabel ρ L).sites mode) = some H' ∧
        (r.reindex (relabelPerm ρ L.sites mode)
          (relabelPerm_injective ρ L.sites hd
            (fun a ha b hb => hρ a (List.mem_append_left _ ha) b (List.mem_append_left _ hb))
            mode)).poly H = r.poly H' :=
  have hρ' : ∀ a ∈ L.sites.map (·.label), ∀ b ∈ L.sites.map (·.label), ρ a = ρ b → a = b :=
    fun a ha b hb => hρ a (List.mem_append_left _ ha) b (List.mem_append_left _ hb)
  ⟨relabel_sites_sorted ρ L, sorted_renamed_perm ρ L.sites hd hρ',
    relabelPerm_bijective ρ L.sites hd hρ' mode,
    fun r hc hcd => indexHamiltonian_relabel ρ L hd hwf hρ mode r hc hcd⟩

omit [DecidableEq K] in
/-- **Everything computed from the Hamiltonian and the field operators follows.**  If the
Hamiltonian `H` of setting 1 read with the renumbered operators is the Hamiltonian `H'` of setting 2
(the conclusion of the two theorems above), then every polynomial in the field operators of
setting 1 is the index-renamed polynomial of setting 2, and every quantity `F` that is a function of
the Hamiltonian operator and of the families `c`, `c†` takes in setting 1 the value it takes in
setting 2 on the renumbered families -- for `F` = a Green's function: `G'_{ij} = G_{π i, π j}`. -/
theorem results_change_by_the_induced_permutation (r : CARRep K A) (π : Nat → Nat)
    (hπ : Function.Injective π) (H H' : Poly K) (hH : (r.reindex π hπ).poly H = r.poly H') :
    (∀ P : Poly K, (r.reindex π hπ).poly P = r.poly (mapIdx π P)) ∧
    (∀ (X : Type) (F : A → (Nat → A) → (Nat → A) → X),
      F ((r.reindex π hπ).poly H) (r.reindex π hπ).c (r.reindex π hπ).cd =
        F (r.poly H') (fun i => r.c (π i)) (fun i => r.cd (π i))) :=
  ⟨(observables_follow r π hπ H H' hH).2.2.1, (observables_follow r π hπ H H' hH).2.2.2⟩

/-- **The two Hamiltonian matrices of the two ordering modes are similar.**  On Fock space, with the
Jordan-Wigner matrices `c_i`, `c†_i` the library computes with: there is an invertible operator `u`
with `u c_i u⁻¹ = c_{π i}`, `u c†_i u⁻¹ = c†_{π i}` (`π = modePerm L.sites`) and
`u H_site-major u⁻¹ = H_spin-major`.  Hence the spectra coincide and every expectation value
of field operators in one mode is the one of the other mode with indices renumbered by `π`. -/
theorem mode_switch_matrices_similar (L : Lat.Lattice K) (hd : (L.sites.map (·.label)).Nodup) :
    ∃ (u : (Module.End K (Nat →₀ K))ˣ) (H0 H1 : Poly K),
      indexHamiltonian L (enumerate L.sites false) = some H0 ∧
      indexHamiltonian L (enumerate L.sites true) = some H1 ∧
      (∀ i, (u : Module.End K (Nat →₀ K)) * (jwRep K).c i * ↑u⁻¹ =
        (jwRep K).c (modePerm L.sites i)) ∧
      (∀ i, (u : Module.End K (Nat →₀ K)) * (jwRep K).cd i * ↑u⁻¹ =
        (jwRep K).cd (modePerm L.sites i)) ∧
      (u : Module.End K (Nat →₀ K)) * (jwRep K).poly H0 * ↑u⁻¹ = (jwRep K).poly H1 :=
  mode_switch_similar L.sites hd L (jwRep K) (jw_sq_c K) (jw_sq_cd K)

/-- **The Hamiltonian matrices before and after renaming the sites are similar** (hypotheses as in
`renaming_sites_is_renumbering`; Jordan-Wigner matrices on Fock space; `π = relabelPerm ρ L.sites
mode`). -/
theorem renaming_matrices_similar (ρ : String → String) (L : Lat.Lattice K)
    (hd : (L.sites.map (·.label)).Nodup) (hwf : LabelsComplete L)
    (hρ : ∀ a ∈ labelsOf L, ∀ b ∈ labelsOf L, ρ a = ρ b → a = b) (mode : Bool) :
    ∃ (u : (Module.End K (Nat →₀ K))ˣ) (H H' : Poly K),
      indexHamiltonian L (enumerate L.sites mode) = some H ∧
      indexHamiltonian (relabel ρ L) (enumerate (relabel ρ L).sites mode) = some H' ∧
      (∀ i, (u : Module.End K (Nat →₀ K)) * (jwRep K).c i * ↑u⁻¹ =
        (jwRep K).c (relabelPerm ρ L.sites mode i)) ∧
      (∀ i, (u : Module.End K (Nat →₀ K)) * (jwRep K).cd i * ↑u⁻¹ =
        (jwRep K).cd (relabelPerm ρ L.sites mode i)) ∧
      (u : Module.End K (Nat →₀ K)) * (jwRep K).poly H * ↑u⁻¹ = (jwRep K).poly H' :=
  relabel_similar ρ L hd hwf hρ mode (jwRep K) (jw_sq_c K) (jw_sq_cd K)

end Invariance

section InvarianceExample
open Pomerol.Spec.IndexInvariance
open scoped Pomerol.Spec.Exact

/-- site "A" with two spins, site "B" with one spin, one hopping term `3 c†_(A,0,1) c_(B,0,0)` -/
def abLattice : Lat.Lattice Int :=
  ⟨[⟨"A", 1, 2⟩, ⟨"B", 1, 1⟩], [(2, [tHopping "A" "B" 3 0 0 1 0])], 2⟩

/-- EXAMPLE (mode switch).  Site-major table: (A,0,0), (A,0,1), (B,0,0); spin-major table: (A,0,0),
(B,0,0), (A,0,1); the induced renumbering exchanges 1 and 2.  The site-major Hamiltonian is
`3 c†₁ c₂`, the spin-major one `3 c†₂ c₁`: the second is the first with indices renamed by `π`. -/
theorem mode_switch_example :
    enumerate abLattice.sites false = [⟨"A", 0, 0⟩, ⟨"A", 0, 1⟩, ⟨"B", 0, 0⟩] ∧
    enumerate abLattice.sites true = [⟨"A", 0, 0⟩, ⟨"B", 0, 0⟩, ⟨"A", 0, 1⟩] ∧
    (List.range 4).map (modePerm abLattice.sites) = [0, 2, 1, 3] ∧
    indexHamiltonian abLattice (enumerate abLattice.sites false)
      = some [([⟨false, 1⟩, ⟨true, 2⟩], 3)] ∧
    indexHamiltonian abLattice (enumerate abLattice.sites true)
      = some [([⟨false, 2⟩, ⟨true, 1⟩], 3)] ∧
    indexHamiltonian abLattice (enumerate abLattice.sites true)
      = (indexHamiltonian abLattice (enumerate abLattice.sites false)).map
          (mapIdx (modePerm abLattice.sites)) := by
  decide

/-- EXAMPLE (renaming).  Renaming "A" to "Z" moves that site behind "B" in the site map; in the
site-major mode the table becomes (B,0,0), (Z,0,0), (Z,0,1) and the induced renumbering is
0 → 1 → 2 → 0.  The Hamiltonian `3 c†₁ c₂` becomes `3 c†₂ c₀`: the first with indices renamed.  The
same in the spin-major mode, where the renumbering is 0 → 1, 1 → 0, 2 → 2. -/
theorem renaming_example :
    (relabel exRename abLattice).sites = [⟨"B", 1, 1⟩, ⟨"Z", 1, 2⟩] ∧
    (getTerms (relabel exRename abLattice) 2).map (·.labels) = [["Z", "B"]] ∧
    enumerate (relabel exRename abLattice).sites false = [⟨"B", 0, 0⟩, ⟨"Z", 0, 0⟩, ⟨"Z", 0, 1⟩] ∧
    (List.range 4).map (relabelPerm exRename abLattice.sites false) = [1, 2, 0, 3] ∧
    indexHamiltonian (relabel exRename abLattice) (enumerate (relabel exRename abLattice).sites false)
      = some [([⟨false, 2⟩, ⟨true, 0⟩], 3)] ∧
    (∀ mode : Bool,
      indexHamiltonian (relabel exRename abLattice)
          (enumerate (relabel exRename abLattice).sites mode)
        = (indexHamiltonian abLattice (enumerate abLattice.sites mode)).map
            (mapIdx (relabelPerm exRename abLattice.sites mode))) ∧
    (List.range 4).map (relabelPerm exRename abLattice.sites true) = [1, 0, 2, 3] := by
  decide

/-- The example satisfies the hypotheses of `renaming_sites_is_renumbering`. -/
theorem renaming_example_hypotheses :
    (abLattice.sites.map (·.label)).Nodup ∧ LabelsComplete abLattice ∧
    (∀ a ∈ labelsOf abLattice, ∀ b ∈ labelsOf abLattice, exRename a = exRename b → a = b) := by
  unfold LabelsComplete
  decide

end InvarianceExample

end Pomerol.Properties.C18
