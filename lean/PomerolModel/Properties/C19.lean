/-
  Property C19: truncation of the density matrix.  The library may discard all blocks whose Gibbs
  weights are all below a tolerance; the theorems state the retain rule as extracted from the
  source, that nothing is discarded at tolerance zero, and bound the error the discarded
  contributions can cause in the Green's function and in thermal averages.

  Setting: `d : EigenData ι` (β > 0, eigenvalues, Gibbs weights `d.w`);
  `Gen.DM.retainsState w tol = decide (tol < w)` is the test EXTRACTED FROM THE SOURCE
  (`DensityMatrixPart::truncate`: `weights(s) > Tolerance`); a block is retained when at least one of
  its states passes the test.

  All statements are re-exports / direct combinations of theorems of `Spec/Gibbs.lean`,
  `Spec/Lehmann.lean`, `Spec/Bridge.lean` (fully proved).
-/
import PomerolModel.Spec.Bridge

namespace Pomerol.Properties.C19
open Matrix Complex Pomerol Pomerol.Spec

variable {ι : Type} [Fintype ι] [DecidableEq ι]

/-- The retain rule: a block, given by the list `ws` of the weights of its states, is retained
(some state passes the extracted test) if and only if it contains a weight strictly larger than the
tolerance.  Equivalently it is discarded iff ALL its weights are `≤ tol`. -/
theorem retain_rule (ws : List ℝ) (tol : ℝ) :
    ws.any (fun w => Gen.DM.retainsState w tol) = true ↔ ∃ w ∈ ws, tol < w := by
  simp only [List.any_eq_true, Bridge.dm_retains]

/-- With tolerance zero nothing is discarded: every state's Gibbs weight passes the test (the
weights are strictly positive), hence every non-empty block (list `block` of eigenstates) is
retained. -/
theorem nothing_discarded_at_zero [Nonempty ι] (d : EigenData ι) :
    (∀ n, Gen.DM.retainsState (d.w n) 0 = true) ∧
    ∀ block : List ι, block ≠ [] →
      (block.map d.w).any (fun w => Gen.DM.retainsState w 0) = true := by
  have h1 : ∀ n, Gen.DM.retainsState (d.w n) 0 = true := fun n =>
    (Bridge.dm_retains (d.w n) 0).mpr (lt_of_not_ge (trunc_eps_zero d n))
  refine ⟨h1, fun block hne => ?_⟩
  obtain ⟨n, hn⟩ := List.exists_mem_of_ne_nil block hne
  rw [retain_rule]
  exact ⟨d.w n, List.mem_map.mpr ⟨n, hn, rfl⟩, (Bridge.dm_retains _ _).mp (h1 n)⟩

/-- Error bound for the Green's function: the Lehmann terms of any set `S` of pairs of eigenstates
whose two weights are both `≤ eps` (the pairs that are lost when blocks with weights `≤ eps` are
discarded) contribute at most `2·eps·dim/|Im z|` in absolute value, at every `z` off the real
axis, given the canonical anticommutation relations `{c, c†} = 1` for both operators. -/
theorem green_function_bound [Nonempty ι] (d : EigenData ι) (C D : Matrix ι ι ℂ)
    (hC : C * Cᴴ + Cᴴ * C = 1) (hD : D * Dᴴ + Dᴴ * D = 1)
    (eps : ℝ) (heps : 0 ≤ eps) (S : Finset (ι × ι))
    (hS : ∀ p ∈ S, d.w p.1 ≤ eps ∧ d.w p.2 ≤ eps)
    (z : ℂ) (hz : z.im ≠ 0) :
    ‖∑ p ∈ S, C p.1 p.2 * (Dᴴ) p.2 p.1 * ((d.w p.1 : ℂ) + (d.w p.2 : ℂ))
        / (z - ((d.E p.2 - d.E p.1 : ℝ) : ℂ))‖
      ≤ 2 * eps * (Fintype.card ι) / |z.im| :=
  trunc_bound_G d C D hC hD eps heps S hS z hz

/-- Error bound for thermal averages: the states of any set `S` with weights `≤ eps` contribute at
most `eps·M·dim` to `Σ_s A_ss w_s`, where `M` bounds the diagonal matrix elements of the
observable. -/
theorem average_bound (d : EigenData ι) (A : Matrix ι ι ℂ) (M : ℝ) (hA : ∀ s, ‖A s s‖ ≤ M)
    (eps : ℝ) (heps : 0 ≤ eps) (S : Finset ι) (hS : ∀ s ∈ S, d.w s ≤ eps) :
    ‖∑ s ∈ S, A s s * (d.w s : ℂ)‖ ≤ eps * M * (Fintype.card ι) :=
  trunc_bound_avg d A M hA eps heps S hS

/-- The ingredient of the Green's-function bound: every row of the matrix of an operator obeying
`{c, c†} = 1` has squared norm at most one. -/
theorem row_norm_bound (C : Matrix ι ι ℂ) (hcar : C * Cᴴ + Cᴴ * C = 1) (n : ι) :
    ∑ m, Complex.normSq (C n m) ≤ 1 :=
  row_normSq_le_one C hcar n

/-- Concrete instance: with tolerance `1e-3` the block with weights `(1e-4, 2e-3)` is retained, the
block with weights `(1e-4, 5e-4)` is not. -/
example :
    ([1e-4, 2e-3] : List ℝ).any (fun w => Gen.DM.retainsState w 1e-3) = true ∧
    ¬ (([1e-4, 5e-4] : List ℝ).any (fun w => Gen.DM.retainsState w 1e-3) = true) := by
  rw [retain_rule, retain_rule]
  constructor
  · exact ⟨2e-3, by simp, by norm_num⟩
  · rintro ⟨w, hw, hlt⟩
    simp only [List.mem_cons, List.not_mem_nil, or_false] at hw
    rcases hw with rfl | rfl <;> norm_num at hlt

end Pomerol.Properties.C19
