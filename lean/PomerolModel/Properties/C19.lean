/-
  Property C19: truncation of the density matrix.  The library may discard all blocks whose Gibbs
  weights are all below a tolerance; the theorems state the retain rule as extracted from the
  source, that nothing is discarded at tolerance zero, and bound the error the discarded
  contributions can cause in the Green's function and in thermal averages.

  Setting: `d : EigenData ι` (β > 0, eigenvalues, Gibbs weights `d.w`);
  `Gen.DM.retainsState w tol = decide (tol < w)` is the test EXTRACTED FROM THE SOURCE
  (`DensityMatrixPart::truncate`: `weights(s) > Tolerance`); a block is retained when at least one of
  its states passes the test.

  All statements are re-exports / direct combinations of theorems of `Spec/Gibbs.lean`,
  `Spec/Lehmann.lean`, `Spec/Bridge.lean` (fully proved).
-/
import PomerolModel.Spec.Bridge
import PomerolModel.Spec.TruncBounds

namespace Pomerol.Properties.C19
open Matrix Complex Pomerol Pomerol.Spec

variable {ι : Type} [Fintype ι] [DecidableEq ι]

/-- The retain rule: a block, given by the list `ws` of the weights of its states, is retained
(some state passes the extracted test) if and only if it contains a weight strictly larger than the
tolerance.  Equivalently it is discarded iff ALL its weights are `≤ tol`. -/
theorem retain_rule (ws : List ℝ) (tol : ℝ) :
    ws.any (fun w => Gen.DM.retainsState w tol) = true ↔ ∃ w ∈ ws, tol < w := by
  simp only [List.any_eq_true, Bridge.dm_retains]

/-- With tolerance zero nothing is discarded: every state's Gibbs weight passes the test (the
weights are strictly positive), hence every non-empty block (list `block` of eigenstates) is
retained. -/
theorem nothing_discarded_at_zero [Nonempty ι] (d : EigenData ι) :
    (∀ n, Gen.DM.retainsState (d.w n) 0 = true) ∧
    ∀ block : List ι, block ≠ [] →
      (block.map d.w).any (fun w => Gen.DM.retainsState w 0) = true := by
  have h1 : ∀ n, Gen.DM.retainsState (d.w n) 0 = true := fun n =>
    (Bridge.dm_retains (d.w n) 0).mpr (lt_of_not_ge (trunc_eps_zero d n))
  refine ⟨h1, fun block hne => ?_⟩
  obtain ⟨n, hn⟩ := List.exists_mem_of_ne_nil block hne
  rw [retain_rule]
  exact ⟨d.w n, List.mem_map.mpr ⟨n, hn, rfl⟩, (Bridge.dm_retains _ _).mp (h1 n)⟩

/-- Error bound for the Green's function: the Lehmann terms of any set `S` of pairs of eigenstates
whose two weights are both `≤ eps` (the pairs that are lost when blocks with weights `≤ eps` are
discarded) contribute at most `2·eps·dim/|Im z|` in absolute value, at every `z` off the real
axis, given the canonical anticommutation relations `{c, c†} = 1` for both operators. -/
theorem green_function_bound [Nonempty ι] (d : EigenData ι) (C D : Matrix ι ι ℂ)
    (hC : C * Cᴴ + Cᴴ * C = 1) (hD : D * Dᴴ + Dᴴ * D = 1)
    (eps : ℝ) (heps : 0 ≤ eps) (S : Finset (ι × ι))
    (hS : ∀ p ∈ S, d.w p.1 ≤ eps ∧ d.w p.2 ≤ eps)
    (z : ℂ) (hz : z.im ≠ 0) :
    ‖∑ p ∈ S, C p.1 p.2 * (Dᴴ) p.2 p.1 * ((d.w p.1 : ℂ) + (d.w p.2 : ℂ))
        / (z - ((d.E p.2 - d.E p.1 : ℝ) : ℂ))‖
      ≤ 2 * eps * (Fintype.card ι) / |z.im| :=
  trunc_bound_G d C D hC hD eps heps S hS z hz

/-- Error bound for thermal averages: the states of any set `S` with weights `≤ eps` contribute at
most `eps·M·dim` to `Σ_s A_ss w_s`, where `M` bounds the diagonal matrix elements of the
observable. -/
theorem average_bound (d : EigenData ι) (A : Matrix ι ι ℂ) (M : ℝ) (hA : ∀ s, ‖A s s‖ ≤ M)
    (eps : ℝ) (heps : 0 ≤ eps) (S : Finset ι) (hS : ∀ s ∈ S, d.w s ≤ eps) :
    ‖∑ s ∈ S, A s s * (d.w s : ℂ)‖ ≤ eps * M * (Fintype.card ι) :=
  trunc_bound_avg d A M hA eps heps S hS

/-- The ingredient of the Green's-function bound: every row of the matrix of an operator obeying
`{c, c†} = 1` has squared norm at most one. -/
theorem row_norm_bound (C : Matrix ι ι ℂ) (hcar : C * Cᴴ + Cᴴ * C = 1) (n : ι) :
    ∑ m, Complex.normSq (C n m) ≤ 1 :=
  row_normSq_le_one C hcar n

/-- Concrete instance: with tolerance `1e-3` the block with weights `(1e-4, 2e-3)` is retained, the
block with weights `(1e-4, 5e-4)` is not. -/
example :
    ([1e-4, 2e-3] : List ℝ).any (fun w => Gen.DM.retainsState w 1e-3) = true ∧
    ¬ (([1e-4, 5e-4] : List ℝ).any (fun w => Gen.DM.retainsState w 1e-3) = true) := by
  rw [retain_rule, retain_rule]
  constructor
  · exact ⟨2e-3, by simp, by norm_num⟩
  · rintro ⟨w, hw, hlt⟩
    simp only [List.mem_cons, List.not_mem_nil, or_false] at hw
    rcases hw with rfl | rfl <;> norm_num at hlt

/-! ### susceptibility and two-particle function (proved in `Spec/TruncBounds.lean`)

`d.suscTerm A B k n m` is the `(n, m)` term of the bosonic Lehmann sum `d.lehmannSusc A B k`
(`lehmannSusc_eq_sum_suscTerm`, by `rfl`); `d.truncLehmannSusc A B D k` is that sum with the terms
whose two states BOTH lie in the discarded set `D` left out (the stripe rule);
`d.worldLineTerm … n1 n2 n3 n4` is the term of one world line of `d.orderedLehmann` (one time
ordering of the two-particle function), `d.truncChiLehmann` the two-particle Lehmann sum with the
world lines whose FOUR states all lie in `D` left out. -/

/-- The stripe rule is an identity: what the library sums after truncation (a term is kept unless
both its states are discarded) equals the full Lehmann sum minus the terms over pairs of discarded
states — for the Green's function and for the susceptibility. -/
theorem stripe_rule (d : EigenData ι) (C CX A B : Matrix ι ι ℂ) (D : Finset ι) (z : ℂ) (k : ℤ) :
    d.truncLehmannG C CX D z
        = d.lehmannG C CX z - ∑ p ∈ D ×ˢ D, d.gTerm C CX z p.1 p.2 ∧
    d.truncLehmannSusc A B D k
        = d.lehmannSusc A B k - ∑ p ∈ D ×ˢ D, d.suscTerm A B k p.1 p.2 :=
  ⟨stripe_rule_G d C CX D z, stripe_rule_susc d A B D k⟩

/-- Error bound for the susceptibility χ_AB(iΩ_k): the Lehmann terms of any set `S` of pairs of
eigenstates whose two weights are both `≤ eps` contribute, in absolute value,
at most `2·eps·W/|Ω_k|` at every non-zero bosonic Matsubara frequency, and at most `β·eps·W` at
zero frequency (where also the "zero-pole" terms `β·w_n·A_nm·B_mn` of degenerate levels and the
difference quotients `(w_n − w_m)/(E_m − E_n)` are covered), with `W = Σ_{n,m} |A_nm|·|B_mn|`.
No assumption on the operators `A`, `B` or on the spectrum. -/
theorem susceptibility_bound (d : EigenData ι) (A B : Matrix ι ι ℂ)
    (eps : ℝ) (heps : 0 ≤ eps) (S : Finset (ι × ι))
    (hS : ∀ p ∈ S, d.w p.1 ≤ eps ∧ d.w p.2 ≤ eps) :
    (∀ k : ℤ, k ≠ 0 →
      ‖∑ p ∈ S, d.suscTerm A B k p.1 p.2‖
        ≤ 2 * eps * (∑ n, ∑ m, ‖A n m‖ * ‖B m n‖) / |d.Ω k|) ∧
    ‖∑ p ∈ S, d.suscTerm A B 0 p.1 p.2‖
        ≤ d.β * eps * (∑ n, ∑ m, ‖A n m‖ * ‖B m n‖) :=
  ⟨fun k hk => susc_truncation_bound d A B k hk eps heps S hS,
   susc_truncation_bound_static d A B eps heps S hS⟩

/-- The same as a statement about the truncated susceptibility: if all states of the discarded set
`D` have weight `≤ eps`, the truncated bosonic Lehmann sum differs from the full one by at most
`2·eps·W/|Ω_k|` (`k ≠ 0`) resp. `β·eps·W` (`k = 0`). -/
theorem susceptibility_truncation_error (d : EigenData ι) (A B : Matrix ι ι ℂ)
    (eps : ℝ) (heps : 0 ≤ eps) (D : Finset ι) (hD : ∀ n ∈ D, d.w n ≤ eps) :
    (∀ k : ℤ, k ≠ 0 →
      ‖d.lehmannSusc A B k - d.truncLehmannSusc A B D k‖
        ≤ 2 * eps * (∑ n, ∑ m, ‖A n m‖ * ‖B m n‖) / |d.Ω k|) ∧
    ‖d.lehmannSusc A B 0 - d.truncLehmannSusc A B D 0‖
        ≤ d.β * eps * (∑ n, ∑ m, ‖A n m‖ * ‖B m n‖) :=
  ⟨fun k hk => susc_stripe_error d A B k hk eps heps D hD,
   susc_stripe_error_static d A B eps heps D hD⟩

/-- Dimension form for quadratic operators `A = c†_a c_b`, `B = c†_c c_d` built from operators
obeying `{c, c†} = 1`: then `W ≤ dim`, so the truncation error of the susceptibility is at most
`2·eps·dim/|Ω_k|` (`k ≠ 0`) resp. `β·eps·dim` (`k = 0`). -/
theorem susceptibility_bound_dim (d : EigenData ι) (Ca Cb Cc Cd : Matrix ι ι ℂ)
    (ha : Ca * Caᴴ + Caᴴ * Ca = 1) (hb : Cb * Cbᴴ + Cbᴴ * Cb = 1)
    (hc : Cc * Ccᴴ + Ccᴴ * Cc = 1) (hd : Cd * Cdᴴ + Cdᴴ * Cd = 1)
    (eps : ℝ) (heps : 0 ≤ eps) (D : Finset ι) (hD : ∀ n ∈ D, d.w n ≤ eps) :
    (∀ k : ℤ, k ≠ 0 →
      ‖d.lehmannSusc (Caᴴ * Cb) (Ccᴴ * Cd) k - d.truncLehmannSusc (Caᴴ * Cb) (Ccᴴ * Cd) D k‖
        ≤ 2 * eps * (Fintype.card ι) / |d.Ω k|) ∧
    ‖d.lehmannSusc (Caᴴ * Cb) (Ccᴴ * Cd) 0 - d.truncLehmannSusc (Caᴴ * Cb) (Ccᴴ * Cd) D 0‖
        ≤ d.β * eps * (Fintype.card ι) :=
  ⟨fun k hk => susc_stripe_error_dim d _ _ (quadratic_row_normSq_le_one Ca Cb ha hb)
      (quadratic_col_normSq_le_one Cc Cd hc hd) k hk eps heps D hD,
   susc_stripe_error_static_dim d _ _ (quadratic_row_normSq_le_one Ca Cb ha hb)
      (quadratic_col_normSq_le_one Cc Cd hc hd) eps heps D hD⟩

/-- The scalar fact behind the zero-frequency bound: the difference quotient of two Boltzmann
factors is at most `β` times the larger one. -/
theorem weight_difference_quotient (β : ℝ) (hβ : 0 < β) (a b : ℝ) (hab : a ≠ b) :
    |Real.exp (-β * a) - Real.exp (-β * b)| / |b - a|
      ≤ β * max (Real.exp (-β * a)) (Real.exp (-β * b)) :=
  weight_diff_quotient_le β hβ a b hab

/-- Error bound for the two-particle Green's function, PARTIAL (non-resonant regime only): for one
time ordering with complex frequencies `za, zb, zc`, let `S` be any set of world lines (quadruples
of eigenstates) whose four weights are all `≤ eps` and for which all six denominators of the
library's four-term expression (`z_a − P_a`, `z_a + z_b − P_a − P_b`, `z_b + z_c − P_b − P_c`,
`z_a + z_b + z_c − P_a − P_b − P_c`, `P` = level differences along the world line) are at least
`δ > 0` in modulus.  Then these world lines contribute at most `6·eps/δ³ · W₄` in absolute value,
`W₄ = Σ |A_{12}|·|B_{23}|·|C_{34}|·|X_{41}|`.
Not covered by THIS statement: resonant / near-resonant world lines (bosonic denominators below
`δ`), where the expression contains terms proportional to `β`; see `two_particle_bound_matsubara`
for a statement that covers them at Matsubara frequencies. -/
theorem two_particle_bound_partial (d : EigenData ι) (A B Cc X : Matrix ι ι ℂ) (za zb zc : ℂ)
    (eps δ : ℝ) (heps : 0 ≤ eps) (hδ : 0 < δ) (S : Finset (ι × ι × ι × ι))
    (hS : ∀ p ∈ S, d.w p.1 ≤ eps ∧ d.w p.2.1 ≤ eps ∧ d.w p.2.2.1 ≤ eps ∧ d.w p.2.2.2 ≤ eps)
    (hnr : ∀ p ∈ S, NonResonant δ za zb zc
      (d.E p.2.1 - d.E p.1) (d.E p.2.2.1 - d.E p.2.1) (d.E p.2.2.2 - d.E p.2.2.1)) :
    ‖∑ p ∈ S, d.worldLineTerm A B Cc X za zb zc p.1 p.2.1 p.2.2.1 p.2.2.2‖
      ≤ 6 * eps / δ ^ 3 * absWeight4 A B Cc X :=
  chi4_truncation_bound_partial d A B Cc X za zb zc eps δ heps hδ S hS hnr

/-- Error bound for the two-particle Green's function at fermionic Matsubara frequencies, ALL
frequency triples and all resonance classes: if all states of the discarded set `D` have weight
`≤ eps`, the two-particle Lehmann sum with the world lines inside `D` left out differs from the
full one by at most `(4 + 2π)·eps·β³/π³ · W`, `W` = the sum over the six time orderings of
`Σ |O_{12}|·|O'_{23}|·|O''_{34}|·|X_{41}|`.  (At purely imaginary frequencies a small bosonic
denominator comes with a small weight difference, so the bracket is never larger than `β·eps`.) -/
theorem two_particle_bound_matsubara (d : EigenData ι) (O : Fin 3 → Matrix ι ι ℂ)
    (X : Matrix ι ι ℂ) (k1 k2 k3 : ℤ) (eps : ℝ) (heps : 0 ≤ eps)
    (D : Finset ι) (hD : ∀ n ∈ D, d.w n ≤ eps) :
    ‖d.chiLehmann O X ![I * (d.ω k1 : ℂ), I * (d.ω k2 : ℂ), -(I * (d.ω k3 : ℂ))]
        - d.truncChiLehmann O X D ![I * (d.ω k1 : ℂ), I * (d.ω k2 : ℂ), -(I * (d.ω k3 : ℂ))]‖
      ≤ (4 + 2 * Real.pi) * eps * d.β ^ 3 / Real.pi ^ 3 * absWeightChi O X :=
  chi_stripe_error_matsubara d O X k1 k2 k3 eps heps D hD

/-- The hypotheses of `susceptibility_bound` are satisfiable non-trivially: two levels `E = 0, 1`
at `β = 1`, tolerance `1/2`; the upper level has weight `≤ 1/2` (so the pair `(1,1)` may be
skipped) while the lower level has weight `> 1/2` (so not everything is discarded). -/
example : ∃ (d : EigenData (Fin 2)) (eps : ℝ) (S : Finset (Fin 2 × Fin 2)),
    0 ≤ eps ∧ eps < 1 ∧ S.Nonempty ∧ (∀ p ∈ S, d.w p.1 ≤ eps ∧ d.w p.2 ≤ eps) ∧
      ∃ n, eps < d.w n := by
  have ht0 : 0 < Real.exp (-1) := Real.exp_pos _
  have ht1 : Real.exp (-1) < 1 := by
    rw [Real.exp_lt_one_iff]; norm_num
  have hw : ∀ n : Fin 2, (EigenData.w (⟨1, one_pos, ![0, 1]⟩ : EigenData (Fin 2)) n)
      = Real.exp (-1 * (![0, 1] : Fin 2 → ℝ) n) / (1 + Real.exp (-1)) := by
    intro n
    simp [EigenData.w, EigenData.Z, Fin.sum_univ_two]
  refine ⟨⟨1, one_pos, ![0, 1]⟩, 1 / 2, {(1, 1)}, by norm_num, by norm_num,
    ⟨(1, 1), Finset.mem_singleton_self _⟩, ?_, ⟨0, ?_⟩⟩
  · intro p hp
    rw [Finset.mem_singleton] at hp
    subst hp
    have h1 : (EigenData.w (⟨1, one_pos, ![0, 1]⟩ : EigenData (Fin 2)) 1) ≤ 1 / 2 := by
      rw [hw]
      simp only [Matrix.cons_val_one, Matrix.cons_val_zero, mul_one]
      rw [div_le_iff₀ (by linarith)]
      linarith
    exact ⟨h1, h1⟩
  · rw [hw]
    simp only [Matrix.cons_val_zero, mul_zero, Real.exp_zero]
    rw [lt_div_iff₀ (by linarith)]
    linarith

/-- The non-resonance hypothesis of `two_particle_bound_partial` is satisfiable: frequencies
`z_a = i·1` are non-resonant with margin `δ = 1` whatever the level differences are (more generally
`nonResonant_of_imag`: any purely imaginary triple with non-vanishing partial sums). -/
example (P1 P2 P3 : ℝ) :
    NonResonant 1 (I * ((1:ℝ):ℂ)) (I * ((1:ℝ):ℂ)) (I * ((1:ℝ):ℂ)) P1 P2 P3 :=
  nonResonant_of_imag 1 1 1 1 (by norm_num) (by norm_num) (by norm_num) (by norm_num)
    (by norm_num) (by norm_num) P1 P2 P3

end Pomerol.Properties.C19
