/-
  Property C15 (storage part): reading the vertex through the precomputed Matsubara storage
  returns, for every window size and every frequency triple inside or outside the window,
  exactly the value of the direct formula -- and no access of the storage is out of range.

  The model (`Model/MC4.lean`) is built from the index formulas extracted from the C++ source
  (`Generated/MC4Formulas.lean`), so these theorems are re-proved against the current code.
-/
import PomerolModel.Model.MC4
import PomerolModel.Generated.VertexFormulas
import Mathlib.Tactic.Ring

namespace Pomerol.Properties.C15
open Pomerol.Gen.MC4 Pomerol.Model Pomerol.Model.MC4

variable {α : Type}

/-- What `fill` stores at slot `(a, b)` of the slice with offset `off` and bosonic index `B`. -/
def stored (f : Source α) (B off : Int) (a b : Int) : α :=
  f (a + off) (B - (a + off)) (b + off)

/-- The matrix of a slice after the rows `< nu` have been completed. -/
def InvMat (f : Source α) (B off S : Int) (nu : Int) (m : Mat α) : Prop :=
  0 ≤ nu ∧ m.rows = S ∧ m.cols = S ∧
  ∀ a b, m.get a b = if 0 ≤ a ∧ a < nu ∧ 0 ≤ b ∧ b < S then some (stored f B off a b) else none

/-- ... and additionally the first `j` entries of row `nu`. -/
def InvRow (f : Source α) (B off S : Int) (nu j : Int) (m : Mat α) : Prop :=
  0 ≤ j ∧ m.rows = S ∧ m.cols = S ∧
  ∀ a b, m.get a b =
    if (0 ≤ a ∧ a < nu ∧ 0 ≤ b ∧ b < S) ∨ (a = nu ∧ 0 ≤ b ∧ b < j) then some (stored f B off a b) else none

theorem fillRow_spec (f : Source α) (B off S nu : Int) (m : Mat α)
    (hnuS : nu < S) (h : InvMat f B off S nu m) :
    ∃ m', fillRow f B off S nu m = .ok m' ∧ InvMat f B off S (nu + 1) m' := by
  obtain ⟨hnu, hr0, hc0, hg0⟩ := h
  have hS : 0 ≤ S := by omega
  have key := forLoop_spec' (σ := Mat α) Err.fuel (fun nup => nupLoopCond nup S) (storeOne f B off nu)
    (InvRow f B off S nu) S
    (by
      intro j m hj hinv
      obtain ⟨hj0, hr, hc, hg⟩ := hinv
      let v : α := f (fillN1 nu off) (fillN2 B (fillN1 nu off)) (fillN3 j off)
      refine ⟨{ m with get := fun a b => if a = nu ∧ b = j then some v else m.get a b }, ?_, ?_⟩
      · simp only [storeOne, Mat.write]
        rw [if_pos (by omega)]
      · refine ⟨by omega, hr, hc, ?_⟩
        intro a b
        simp only [fillN1, fillN2, fillN3]
        by_cases hab : a = nu ∧ b = j
        · obtain ⟨rfl, rfl⟩ := hab
          rw [if_pos ⟨rfl, rfl⟩, if_pos (Or.inr ⟨rfl, hj0, by omega⟩)]
          rfl
        · rw [if_neg hab, hg a b]
          by_cases h1 : (0 ≤ a ∧ a < nu ∧ 0 ≤ b ∧ b < S) ∨ (a = nu ∧ 0 ≤ b ∧ b < j)
          · rw [if_pos h1, if_pos (by omega)]
          · rw [if_neg h1, if_neg (by omega)])
    S.toNat nupLoopStart m
    (by intro i _; simp [nupLoopCond])
    (by simp only [nupLoopStart]; omega)
    (by simp only [nupLoopStart]; omega)
    (by
      refine ⟨by simp [nupLoopStart], hr0, hc0, ?_⟩
      intro a b
      rw [hg0 a b]
      by_cases h1 : 0 ≤ a ∧ a < nu ∧ 0 ≤ b ∧ b < S
      · rw [if_pos h1, if_pos (Or.inl h1)]
      · rw [if_neg h1, if_neg (by simp only [nupLoopStart]; omega)])
  obtain ⟨m', hrun, hinv⟩ := key
  refine ⟨m', hrun, ?_⟩
  obtain ⟨_, hr, hc, hg⟩ := hinv
  refine ⟨by omega, hr, hc, ?_⟩
  intro a b
  rw [hg a b]
  by_cases h1 : (0 ≤ a ∧ a < nu ∧ 0 ≤ b ∧ b < S) ∨ (a = nu ∧ 0 ≤ b ∧ b < S)
  · rw [if_pos h1, if_pos (by omega)]
  · rw [if_neg h1, if_neg (by omega)]

/-- A completely filled slice. -/
def FullMat (f : Source α) (B off S : Int) (m : Mat α) : Prop :=
  m.rows = S ∧ m.cols = S ∧
  ∀ a b, 0 ≤ a → a < S → 0 ≤ b → b < S → m.get a b = some (stored f B off a b)

theorem fillMat_spec (f : Source α) (B off S : Int) (hS : 0 ≤ S) :
    ∃ m0 m, Mat.resize (sliceRows S) (sliceCols S) = .ok m0 ∧
      forLoop Err.fuel (fun nu => nuLoopCond nu S) (fillRow f B off S) S.toNat nuLoopStart m0 = .ok m ∧
      FullMat f B off S m := by
  refine ⟨⟨S, S, fun _ _ => none⟩, ?_⟩
  have hres : Mat.resize (α := α) (sliceRows S) (sliceCols S) = .ok ⟨S, S, fun _ _ => none⟩ := by
    unfold Mat.resize
    rw [if_neg (by simp only [sliceRows, sliceCols]; omega)]
    rfl
  have key := forLoop_spec' (σ := Mat α) Err.fuel (fun nu => nuLoopCond nu S) (fillRow f B off S)
    (InvMat f B off S) S
    (by intro nu m hnu hinv; exact fillRow_spec f B off S nu m hnu hinv)
    S.toNat nuLoopStart ⟨S, S, fun _ _ => none⟩
    (by intro i _; simp [nuLoopCond])
    (by simp only [nuLoopStart]; omega)
    (by simp only [nuLoopStart]; omega)
    (by
      refine ⟨by simp [nuLoopStart], rfl, rfl, ?_⟩
      intro a b
      rw [if_neg (by simp only [nuLoopStart]; omega)])
  obtain ⟨m, hrun, hinv⟩ := key
  refine ⟨m, hres, hrun, ?_⟩
  obtain ⟨_, hr, hc, hg⟩ := hinv
  refine ⟨hr, hc, ?_⟩
  intro a b h1 h2 h3 h4
  rw [hg a b, if_pos ⟨h1, h2, h3, h4⟩]

/-- State of the container after the slices `< V` have been filled (window size `N ≥ 1`). -/
def InvC (f : Source α) (N : Int) (V : Int) (c : Container α) : Prop :=
  0 ≤ V ∧ c.N = N ∧ c.nValues = 4 * N - 1 ∧ c.nOffsets = 4 * N - 1 ∧
  ∀ v, (0 ≤ v ∧ v < V →
          c.offsets v = some (fermionicIndexOffset (bosonicIndex v N) N) ∧
          ∃ m, c.values v = some m ∧
            FullMat f (bosonicIndex v N) (fermionicIndexOffset (bosonicIndex v N) N)
              (fermionicMatrixSize (bosonicIndex v N) N) m)

theorem size_nonneg (N V : Int) (hN : 1 ≤ N) (h0 : 0 ≤ V) (h1 : V < 4 * N - 1) :
    0 ≤ fermionicMatrixSize (bosonicIndex V N) N := by
  simp only [fermionicMatrixSize, bosonicIndex, absI]
  omega

theorem fillSlice_spec (f : Source α) (N V : Int) (hN : 1 ≤ N) (hV : V < 4 * N - 1)
    (c : Container α) (h : InvC f N V c) :
    ∃ c', fillSlice f N V c = .ok c' ∧ InvC f N (V + 1) c' := by
  obtain ⟨hV0, hcN, hnv, hno, hall⟩ := h
  have hS := size_nonneg N V hN hV0 hV
  obtain ⟨m0, m, hres, hrun, hfull⟩ :=
    fillMat_spec f (bosonicIndex V N) (fermionicIndexOffset (bosonicIndex V N) N) _ hS
  refine ⟨{ c with
      values := fun v => if v = V then some m else c.values v,
      offsets := fun v => if v = V then some (fermionicIndexOffset (bosonicIndex V N) N) else c.offsets v },
    ?_, ?_⟩
  · simp only [fillSlice]
    rw [if_neg (by rw [hnv]; omega)]
    simp only [hres]
    rw [if_neg (by rw [hno]; omega)]
    simp only [hrun]
  · refine ⟨by omega, hcN, hnv, hno, ?_⟩
    intro v hv
    by_cases hvV : v = V
    · subst hvV
      simp only [if_true]
      exact ⟨trivial, m, rfl, hfull⟩
    · simp only [if_neg hvV]
      exact hall v ⟨hv.1, by omega⟩

/-- Post-condition of `fill` for a non-empty window. -/
theorem fill_spec (f : Source α) (N : Int) (hN : 1 ≤ N) :
    ∃ c, fill f N = .ok c ∧ InvC f N (4 * N - 1) c := by
  have key := forLoop_spec' (σ := Container α) Err.fuel (fun V => sliceLoopCond V N) (fillSlice f N)
    (InvC f N) (4 * N - 1)
    (by intro V c hV hinv; exact fillSlice_spec f N V hN hV c hinv)
    (valuesSize N).toNat sliceLoopStart
    ⟨N, valuesSize N, offsetsSize N, fun _ => none, fun _ => none⟩
    (by intro i _; simp only [sliceLoopCond, decide_eq_true_eq]; omega)
    (by simp only [sliceLoopStart, valuesSize]; omega)
    (by simp only [sliceLoopStart]; omega)
    (by
      refine ⟨by simp [sliceLoopStart], rfl, by simp [valuesSize], by simp [offsetsSize], ?_⟩
      intro v hv
      simp only [sliceLoopStart] at hv
      omega)
  obtain ⟨c, hrun, hinv⟩ := key
  refine ⟨c, ?_, ?_⟩
  · simp only [fill]
    rw [if_neg (by simp only [fillEmptyCond, decide_eq_true_eq]; omega)]
    rw [if_neg (by simp only [valuesSize, offsetsSize]; omega)]
    exact hrun
  · exact hinv

theorem lookupVInRange_iff (V N : Int) :
    lookupVInRange V N = true ↔ 0 ≤ V ∧ V ≤ 4 * N - 2 := by
  unfold lookupVInRange
  rw [Bool.and_eq_true, decide_eq_true_eq, decide_eq_true_eq]
  omega

theorem lookupInRange_iff (nu nup rows cols : Int) :
    lookupInRange nu nup rows cols = true ↔ 0 ≤ nu ∧ nu < rows ∧ 0 ≤ nup ∧ nup < cols := by
  unfold lookupInRange
  rw [Bool.and_eq_true, Bool.and_eq_true, Bool.and_eq_true, decide_eq_true_eq, decide_eq_true_eq,
    decide_eq_true_eq, decide_eq_true_eq]
  omega

/-- **C15, storage transparency.**  For every window size `N ≥ 0`, every source `f` and every
integer triple, `fill` succeeds without any out-of-range write and the subsequent read returns
`f n1 n2 n3` without any out-of-range or uninitialised read. -/
theorem fill_lookup_transparent (f : Source α) (N : Nat) (n1 n2 n3 : Int) :
    ∃ c, fill f (N : Int) = .ok c ∧ lookup c f n1 n2 n3 = .ok (f n1 n2 n3) := by
  by_cases hN0 : N = 0
  · subst hN0
    refine ⟨⟨0, 0, 0, fun _ => none, fun _ => none⟩, ?_, ?_⟩
    · simp [fill, fillEmptyCond]
    · have h : ¬ lookupVInRange (lookupV n1 n2 0) 0 = true := by
        rw [lookupVInRange_iff]; omega
      unfold lookup
      simp only []
      rw [if_neg h]
  · have hN : (1 : Int) ≤ (N : Int) := by omega
    obtain ⟨c, hfill, hV0, hcN, hnv, hno, hall⟩ := fill_spec f (N : Int) hN
    refine ⟨c, hfill, ?_⟩
    unfold lookup
    simp only [hcN]
    generalize hV : lookupV n1 n2 (N : Int) = V
    by_cases hin : lookupVInRange V N = true
    · rw [if_pos hin]
      rw [lookupVInRange_iff] at hin
      have hv : 0 ≤ V ∧ V < 4 * (N : Int) - 1 := by omega
      obtain ⟨hoff, m, hm, hr, hc, hg⟩ := hall V hv
      rw [if_neg (by rw [hno]; omega)]
      simp only [hoff]
      rw [if_neg (by rw [hnv]; omega)]
      simp only [hm]
      generalize hO : fermionicIndexOffset (bosonicIndex V N) N = off at *
      by_cases hel : lookupInRange (lookupNu n1 off) (lookupNup n3 off) m.rows m.cols = true
      · rw [if_pos hel]
        rw [lookupInRange_iff, hr, hc] at hel
        unfold Mat.read
        rw [if_pos (by rw [hr, hc]; exact hel)]
        rw [hg _ _ hel.1 hel.2.1 hel.2.2.1 hel.2.2.2]
        simp only [stored]
        have e1 : lookupNu n1 off + off = n1 := by unfold lookupNu; omega
        have e3 : lookupNup n3 off + off = n3 := by unfold lookupNup; omega
        have e2 : bosonicIndex V N - n1 = n2 := by
          rw [← hV]; unfold bosonicIndex lookupV; omega
        rw [e1, e2, e3]
      · rw [if_neg hel]
    · rw [if_neg hin]

/-! ### The vertex is `χ − χ⁰` -/

/-- The documented disconnected part
`χ⁰ = β (δ_{n2,n3} G14(n1) G23(n2) − δ_{n1,n3} G13(n1) G24(n2))`. -/
def chi0 {K : Type} [CommRing K] (G13 G24 G14 G23 : Int → K) (β : K) (n1 n2 n3 : Int) : K :=
  β * ((if n2 = n3 then G14 n1 * G23 n2 else 0) - (if n1 = n3 then G13 n1 * G24 n2 else 0))

/-- **C15, vertex formula.**  `Vertex4::value` (extracted from the source) equals `χ − χ⁰` for every
χ, every quadruple of Green's functions, every β and every integer triple -- in any commutative
ring of values (in particular ℂ), with an arbitrary embedding `ofReal` of the real sort. -/
theorem vertex_formula {R K : Type} [Add R] [Sub R] [Mul R] [Div R] [Neg R] [Zero R] [One R] [NatCast R]
    [LT R] [DecidableLT R] [HasExp R] [CommRing K] [Div K] [HasExp K] [CplxOver R K]
    (chi : Int → Int → Int → K) (G13 G24 G14 G23 : Int → K) (β : R) (n1 n2 n3 : Int) :
    Pomerol.Gen.Vertex.vertexValue chi G13 G24 G14 G23 β n1 n2 n3 =
      chi n1 n2 n3 - chi0 G13 G24 G14 G23 (CplxOver.ofReal β) n1 n2 n3 := by
  unfold Pomerol.Gen.Vertex.vertexValue chi0
  by_cases h13 : n1 = n3 <;> by_cases h23 : n2 = n3 <;> simp [h13, h23] <;> ring

/-- Non-vacuity / sanity: a concrete window, a hit and a miss, evaluated by the kernel. -/
example : (match fill (fun a b c => (a, b, c)) 2 with
    | .ok c => (isHit c 0 (-1) 1, isHit c 5 0 0,
                (lookup c (fun a b c => (a, b, c)) 0 (-1) 1).toOption,
                (lookup c (fun a b c => (a, b, c)) 5 0 0).toOption)
    | .error _ => (false, true, none, none)) = (true, false, some (0, -1, 1), some (5, 0, 0)) := by
  decide

end Pomerol.Properties.C15
