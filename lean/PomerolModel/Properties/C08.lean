/-
  Property C08: the observables do not depend on how the Fock space was partitioned into blocks.

  The library evaluates every observable from the eigen-data of the Hamiltonian (eigenvalues, Gibbs
  weights, operator matrices in the eigenbasis).  A different set of symmetry operations gives a
  different partition, hence different blocks, a different numbering of the eigenstates and
  different eigenvectors inside degenerate levels -- but the same Fock-space Hamiltonian and the same
  Fock-space operators.  The theorems below say that what the library evaluates equals an expression
  in which the partition does not occur (the DEFINITION of the observable: a trace over the Fock
  space / its Fourier transform / the characteristic polynomial of the Fock Hamiltonian); two
  evaluations belonging to two sound partitions therefore agree, both being equal to that
  expression.

  Setting: `d : EigenData ι` (β > 0, eigenvalues `d.E`; Gibbs weights `d.w`, `d.ρ`, `d.H` diagonal);
  `V` is the matrix of the eigenvectors expanded in Fock states, so `V * A * V⁻¹` is the Fock-space
  matrix of the operator whose eigenbasis matrix is `A`; `rhoF d V`, `hamF d V` are the Fock-space
  density matrix and Hamiltonian.  The formulas in `Gen.GF`, `Gen.Susc` are EXTRACTED FROM THE
  SOURCE.  `BlockEigen Hb U E` is the post-condition of the per-block eigen-solver (C03).

  The section "strong form" (proved in this file) removes the detour: for two eigen-decompositions
  `(d₁, V₁)`, `(d₂, V₂)` of the SAME Fock-space Hamiltonian at the same temperature and operator
  matrices representing the SAME Fock-space operators, the sums the library evaluates for the
  Green's function, the susceptibility and the thermal averages are EQUAL
  (`observables_same_for_two_decompositions`, `averages_same_for_two_decompositions`); the key step
  is `rhoF_eq_gibbs`: the Fock-space density matrix is `e^{−βH_F}/Tr e^{−βH_F}`.

  Proofs: `Spec/Lehmann.lean`, `Spec/Susc.lean`, `Spec/Chi4.lean`, `Spec/Bridge.lean`,
  `Spec/Gibbs.lean`, `Spec/Blocks.lean`; `corr4_conj`, `rhoF_eq_gibbs` and the strong form here.
-/
import PomerolModel.Spec.Bridge
import PomerolModel.Spec.Blocks
import PomerolModel.Spec.Gibbs
import PomerolModel.Spec.Chi4PrepareSpec

set_option linter.unusedSectionVars false

namespace Pomerol.Properties.C08
open Matrix Complex Polynomial Pomerol Pomerol.Spec

variable {ι : Type} [Fintype ι] [DecidableEq ι]

/-! ### auxiliary facts (proved here) -/

/-- conjugation by an invertible matrix is multiplicative -/
private theorem conj_mul (V : Matrix ι ι ℂ) (hV : IsUnit V) (X Y : Matrix ι ι ℂ) :
    (V * X * V⁻¹) * (V * Y * V⁻¹) = V * (X * Y) * V⁻¹ := by
  have hVV : V⁻¹ * V = 1 := Matrix.nonsing_inv_mul V ((Matrix.isUnit_iff_isUnit_det V).mp hV)
  calc (V * X * V⁻¹) * (V * Y * V⁻¹) = V * X * (V⁻¹ * V) * Y * V⁻¹ := by
        simp only [Matrix.mul_assoc]
    _ = V * (X * Y) * V⁻¹ := by rw [hVV, Matrix.mul_one, Matrix.mul_assoc V X Y]

/-- the trace is invariant under conjugation -/
private theorem trace_conj (V : Matrix ι ι ℂ) (hV : IsUnit V) (X : Matrix ι ι ℂ) :
    (V * X * V⁻¹).trace = X.trace := by
  have hVV : V⁻¹ * V = 1 := Matrix.nonsing_inv_mul V ((Matrix.isUnit_iff_isUnit_det V).mp hV)
  rw [Matrix.trace_mul_comm, ← Matrix.mul_assoc, hVV, Matrix.one_mul]

/-- Heisenberg evolution of a Fock-space operator with the Fock-space Hamiltonian `V H V⁻¹` -/
noncomputable def evolF (d : EigenData ι) (V : Matrix ι ι ℂ) (A : Matrix ι ι ℂ) (τ : ℝ) :
    Matrix ι ι ℂ :=
  NormedSpace.exp ((τ : ℂ) • (V * d.H * V⁻¹)) * (V * A * V⁻¹)
    * NormedSpace.exp ((-(τ : ℂ)) • (V * d.H * V⁻¹))

/-- the Fock-space evolution is the conjugated eigenbasis evolution -/
theorem evolF_eq (d : EigenData ι) (V : Matrix ι ι ℂ) (hV : IsUnit V) (A : Matrix ι ι ℂ) (τ : ℝ) :
    evolF d V A τ = V * d.evol A τ * V⁻¹ := by
  have hs : ∀ t : ℂ, t • (V * d.H * V⁻¹) = V * (t • d.H) * V⁻¹ := by
    intro t; rw [Matrix.mul_smul, Matrix.smul_mul]
  unfold evolF EigenData.evol
  rw [hs, hs, Matrix.exp_conj _ _ hV, Matrix.exp_conj _ _ hV, conj_mul V hV, conj_mul V hV]

/-- the four-operator correlator written entirely with Fock-space matrices equals the eigenbasis
expression, for every invertible change of basis -/
theorem corr4_conj (d : EigenData ι) (V : Matrix ι ι ℂ) (hV : IsUnit V) (A B Cc X : Matrix ι ι ℂ)
    (s1 s2 s3 : ℝ) :
    ((V * d.ρ * V⁻¹) * evolF d V A s1 * evolF d V B s2 * evolF d V Cc s3 * (V * X * V⁻¹)).trace
      = d.corr4 A B Cc X s1 s2 s3 := by
  unfold EigenData.corr4
  rw [evolF_eq d V hV, evolF_eq d V hV, evolF_eq d V hV, conj_mul V hV, conj_mul V hV,
    conj_mul V hV, conj_mul V hV, trace_conj V hV]

/-! ### Green's function, susceptibility, two-particle Green's function -/

/-- SINGLE-PARTICLE GREEN'S FUNCTION.  (1) The correlator `Tr(ρ e^{τH} c e^{−τH} c†)` written with
the Fock-space matrices obtained from the eigen-data through ANY two invertible changes of basis
`V`, `W` (two partitions) has the same value, for every τ -- both equal `d.corr C CX τ`.
(2) The sum of the EXTRACTED term formulas over all pairs of eigenstates, at the library's Matsubara
frequency, equals the definition `−∫₀^β ⟨T c(τ)c†⟩ e^{iω_nτ} dτ`, which is built from that
correlator only; hence any two evaluations agree. -/
theorem green_function_partition_independent (d : EigenData ι) (C CX : Matrix ι ι ℂ)
    (V W : Matrix ι ι ℂ) (hV : IsUnit V) (hW : IsUnit W) :
    (∀ τ : ℝ,
      ((V * d.ρ * V⁻¹) * NormedSpace.exp ((τ : ℂ) • (V * d.H * V⁻¹)) * (V * C * V⁻¹)
          * NormedSpace.exp ((-(τ : ℂ)) • (V * d.H * V⁻¹)) * (V * CX * V⁻¹)).trace
      = ((W * d.ρ * W⁻¹) * NormedSpace.exp ((τ : ℂ) • (W * d.H * W⁻¹)) * (W * C * W⁻¹)
          * NormedSpace.exp ((-(τ : ℂ)) • (W * d.H * W⁻¹)) * (W * CX * W⁻¹)).trace) ∧
    (∀ n : ℤ,
      (∑ a, ∑ b, Gen.GF.termFreq (Gen.GF.residue (C a b) (CX b a) (d.w a) (d.w b))
          (Gen.GF.pole (d.E b) (d.E a))
          ((Complex.I * (Real.pi : ℂ) / (d.β : ℂ)) * ((Gen.GF.matsubaraOdd n : ℤ) : ℂ)))
        = d.Gdef C CX n) :=
  ⟨fun τ => (corr_conj d V hV C CX τ).trans (corr_conj d W hW C CX τ).symm,
    fun n => Bridge.gf_equals_definition d C CX n⟩

/-- DYNAMICAL SUSCEPTIBILITY.  Same statement: the correlator `⟨A(τ)B⟩` in Fock-space form is the
same for any two changes of basis, and the sum of the extracted terms (non-degenerate pairs) and
zero-pole weights (degenerate pairs) equals the definition `∫₀^β ⟨A(τ)B⟩ e^{iΩ_kτ} dτ` for every
bosonic Matsubara number. -/
theorem susceptibility_partition_independent (d : EigenData ι) (A B : Matrix ι ι ℂ)
    (V W : Matrix ι ι ℂ) (hV : IsUnit V) (hW : IsUnit W) :
    (∀ τ : ℝ,
      ((V * d.ρ * V⁻¹) * NormedSpace.exp ((τ : ℂ) • (V * d.H * V⁻¹)) * (V * A * V⁻¹)
          * NormedSpace.exp ((-(τ : ℂ)) • (V * d.H * V⁻¹)) * (V * B * V⁻¹)).trace
      = ((W * d.ρ * W⁻¹) * NormedSpace.exp ((τ : ℂ) • (W * d.H * W⁻¹)) * (W * A * W⁻¹)
          * NormedSpace.exp ((-(τ : ℂ)) • (W * d.H * W⁻¹)) * (W * B * W⁻¹)).trace) ∧
    (∀ k : ℤ,
      (∑ n, ∑ m, if d.E m = d.E n then
          (if k = 0 then Gen.Susc.zeroPoleIncrement (A n m) (B m n) (d.w n) * (d.β : ℂ) else 0)
        else Gen.Susc.termFreq (Gen.Susc.residue (A n m) (B m n) (d.w n) (d.w m))
          (Gen.Susc.pole (d.E m) (d.E n)) (Complex.I * (d.Ω k : ℂ)))
      = d.suscDef A B k) :=
  ⟨fun τ => (corr_conj d V hV A B τ).trans (corr_conj d W hW A B τ).symm,
    fun k => Bridge.susc_sum d A B k⟩

/-- TWO-PARTICLE GREEN'S FUNCTION.  The four-operator correlator `Tr(ρ A(s₁)B(s₂)C(s₃)X)` in
Fock-space form is the same for any two changes of basis, and the signed sum over the six
permutations of the accumulated multi-terms (what the library evaluates) equals the definition --
the signed sum over the six time orderings of the triple integrals of that correlator -- at every
fermionic frequency triple, in particular at every Matsubara triple. -/
theorem two_particle_partition_independent (d : EigenData ι) (O : Fin 3 → Matrix ι ι ℂ)
    (X : Matrix ι ι ℂ) (V W : Matrix ι ι ℂ) (hV : IsUnit V) (hW : IsUnit W) :
    (∀ (A B Cc : Matrix ι ι ℂ) (s1 s2 s3 : ℝ),
      ((V * d.ρ * V⁻¹) * evolF d V A s1 * evolF d V B s2 * evolF d V Cc s3 * (V * X * V⁻¹)).trace
      = ((W * d.ρ * W⁻¹) * evolF d W A s1 * evolF d W B s2 * evolF d W Cc s3
          * (W * X * W⁻¹)).trace) ∧
    (∀ z : Fin 3 → ℂ, (∀ k, Complex.exp ((d.β:ℂ) * z k) = -1) →
      d.chiLehmann O X z = d.chiDef O X z) ∧
    (∀ k1 k2 k3 : ℤ,
      d.chiLehmann O X ![I * (d.ω k1 : ℂ), I * (d.ω k2 : ℂ), -(I * (d.ω k3 : ℂ))] =
      d.chiDef O X ![I * (d.ω k1 : ℂ), I * (d.ω k2 : ℂ), -(I * (d.ω k3 : ℂ))]) :=
  ⟨fun A B Cc s1 s2 s3 =>
      (corr4_conj d V hV A B Cc X s1 s2 s3).trans (corr4_conj d W hW A B Cc X s1 s2 s3).symm,
    fun z hz => (chi_lehmann d O X z hz).symm,
    fun k1 k2 k3 => (chi_lehmann_matsubara d O X k1 k2 k3).symm⟩

/-! ### thermal averages -/

/-- THERMAL AVERAGES.  For every eigenvector matrix `V`: the library's formulas for the average of
an operator with Fock matrix `AF`, of a Fock-diagonal observable `x` (occupancies, double
occupancies, N), and of the energy equal `Tr(ρ_F · …)`; they depend on the partition only through
the Fock-space density matrix `ρ_F = rhoF d V` (and `hamF d V`).  Consequently two evaluations with
the same Fock-space density matrix give the same averages. -/
theorem averages_partition_independent (d : EigenData ι) (V : Matrix ι ι ℂ) :
    (∀ AF : Matrix ι ι ℂ, (∑ s, (Vᴴ * AF * V) s s * (d.w s : ℂ)) = (rhoF d V * AF).trace) ∧
    (∀ x : ι → ℝ, ((∑ s, ∑ f, d.w s * x f * Complex.normSq (V f s) : ℝ) : ℂ)
      = (rhoF d V * diagonal (fun f => (x f : ℂ))).trace) ∧
    (Vᴴ * V = 1 → ((∑ s, d.w s * d.E s : ℝ) : ℂ) = (rhoF d V * hamF d V).trace) ∧
    (∀ (d' : EigenData ι) (W : Matrix ι ι ℂ), rhoF d V = rhoF d' W →
      (∀ AF : Matrix ι ι ℂ,
        (∑ s, (Vᴴ * AF * V) s s * (d.w s : ℂ)) = ∑ s, (Wᴴ * AF * W) s s * (d'.w s : ℂ)) ∧
      (∀ x : ι → ℝ, (∑ s, ∑ f, d.w s * x f * Complex.normSq (V f s))
        = ∑ s, ∑ f, d'.w s * x f * Complex.normSq (W f s))) := by
  refine ⟨fun AF => avg_operator d V AF, fun x => avg_diagonal d V x, fun hV => avg_energy d V hV,
    fun d' W h => ⟨fun AF => ?_, fun x => ?_⟩⟩
  · rw [avg_operator d V AF, avg_operator d' W AF, h]
  · have h1 := avg_diagonal d V x
    have h2 := avg_diagonal d' W x
    rw [h, ← h2] at h1
    exact_mod_cast h1


/-! ### strong form: two eigen-decompositions of the same Fock-space problem -/

/-- The Fock-space density matrix is the Gibbs operator of the Fock-space Hamiltonian,
`ρ_F = e^{−β H_F} / Tr e^{−β H_F}` (genuine matrix exponential), for every unitary eigenvector
matrix: it is a function of `β` and `H_F` only. -/
theorem rhoF_eq_gibbs (d : EigenData ι) (V : Matrix ι ι ℂ) (hV : Vᴴ * V = 1) :
    rhoF d V = ((NormedSpace.exp ((-(d.β:ℂ)) • hamF d V)).trace)⁻¹ •
      NormedSpace.exp ((-(d.β:ℂ)) • hamF d V) := by
  have hVV' : V * Vᴴ = 1 := mul_eq_one_comm.mp hV
  have hinv : V⁻¹ = Vᴴ := Matrix.inv_eq_right_inv hVV'
  have hU : IsUnit V := ⟨⟨V, Vᴴ, hVV', hV⟩, rfl⟩
  have hVV : V⁻¹ * V = 1 := by rw [hinv]; exact hV
  have hs : (-(d.β:ℂ)) • (V * d.H * V⁻¹) = V * ((-(d.β:ℂ)) • d.H) * V⁻¹ := by
    rw [Matrix.mul_smul, Matrix.smul_mul]
  unfold rhoF hamF
  rw [← hinv, hs, Matrix.exp_conj _ _ hU, exp_smul_H]
  have ht : (V * (diagonal fun n => Complex.exp (-(d.β:ℂ) * (d.E n : ℂ))) * V⁻¹).trace
      = ((d.Z : ℝ) : ℂ) := by
    rw [Matrix.trace_mul_comm, ← Matrix.mul_assoc, hVV, Matrix.one_mul, trace_diagonal]
    unfold EigenData.Z
    push_cast
    rfl
  rw [ht, ← Matrix.smul_mul, ← Matrix.mul_smul]
  congr 2
  unfold EigenData.ρ EigenData.w
  rw [← diagonal_smul]
  congr 1
  funext n
  simp only [Pi.smul_apply, smul_eq_mul]
  push_cast
  rw [div_eq_inv_mul]

/-- Two eigen-decompositions (two partitions: different numbering of the eigenstates, different
eigenvectors within degenerate levels) of the same Fock-space Hamiltonian at the same temperature
give the same Fock-space density matrix. -/
theorem density_matrix_from_fock_hamiltonian (d₁ d₂ : EigenData ι) (hβ : d₁.β = d₂.β)
    (V₁ V₂ : Matrix ι ι ℂ) (h₁ : V₁ᴴ * V₁ = 1) (h₂ : V₂ᴴ * V₂ = 1)
    (hH : hamF d₁ V₁ = hamF d₂ V₂) : rhoF d₁ V₁ = rhoF d₂ V₂ := by
  rw [rhoF_eq_gibbs d₁ V₁ h₁, rhoF_eq_gibbs d₂ V₂ h₂, hH, hβ]

/-- ... and the same correlator `⟨A(τ)B⟩` for operators that have the same Fock-space matrices. -/
theorem correlator_same_for_two_decompositions (d₁ d₂ : EigenData ι) (hβ : d₁.β = d₂.β)
    (V₁ V₂ : Matrix ι ι ℂ) (h₁ : V₁ᴴ * V₁ = 1) (h₂ : V₂ᴴ * V₂ = 1)
    (hH : hamF d₁ V₁ = hamF d₂ V₂) (A₁ B₁ A₂ B₂ : Matrix ι ι ℂ)
    (hA : V₁ * A₁ * V₁ᴴ = V₂ * A₂ * V₂ᴴ) (hB : V₁ * B₁ * V₁ᴴ = V₂ * B₂ * V₂ᴴ) (τ : ℝ) :
    d₁.corr A₁ B₁ τ = d₂.corr A₂ B₂ τ := by
  have hu : ∀ V : Matrix ι ι ℂ, Vᴴ * V = 1 → IsUnit V ∧ V⁻¹ = Vᴴ := by
    intro V hV
    have hVV' : V * Vᴴ = 1 := mul_eq_one_comm.mp hV
    exact ⟨⟨⟨V, Vᴴ, hVV', hV⟩, rfl⟩, Matrix.inv_eq_right_inv hVV'⟩
  obtain ⟨u₁, i₁⟩ := hu V₁ h₁
  obtain ⟨u₂, i₂⟩ := hu V₂ h₂
  have hρ := density_matrix_from_fock_hamiltonian d₁ d₂ hβ V₁ V₂ h₁ h₂ hH
  unfold rhoF at hρ
  unfold hamF at hH
  rw [← corr_conj d₁ V₁ u₁ A₁ B₁ τ, ← corr_conj d₂ V₂ u₂ A₂ B₂ τ, i₁, i₂, hρ, hH, hA, hB]

/-- STRONG FORM.  Two eigen-decompositions `(d₁, V₁)`, `(d₂, V₂)` of the same Fock-space Hamiltonian
(`hamF d₁ V₁ = hamF d₂ V₂`, unitary `V₁`, `V₂`, same β), with operator matrices `A₁,B₁` / `A₂,B₂` that
represent the same Fock-space operators: the sums of the EXTRACTED Green's-function terms agree at
every fermionic Matsubara frequency, and the sums of the EXTRACTED susceptibility terms agree at
every bosonic one. -/
theorem observables_same_for_two_decompositions (d₁ d₂ : EigenData ι) (hβ : d₁.β = d₂.β)
    (V₁ V₂ : Matrix ι ι ℂ) (h₁ : V₁ᴴ * V₁ = 1) (h₂ : V₂ᴴ * V₂ = 1)
    (hH : hamF d₁ V₁ = hamF d₂ V₂) (A₁ B₁ A₂ B₂ : Matrix ι ι ℂ)
    (hA : V₁ * A₁ * V₁ᴴ = V₂ * A₂ * V₂ᴴ) (hB : V₁ * B₁ * V₁ᴴ = V₂ * B₂ * V₂ᴴ) :
    (∀ n : ℤ,
      (∑ a, ∑ b, Gen.GF.termFreq (Gen.GF.residue (A₁ a b) (B₁ b a) (d₁.w a) (d₁.w b))
          (Gen.GF.pole (d₁.E b) (d₁.E a))
          ((Complex.I * (Real.pi : ℂ) / (d₁.β : ℂ)) * ((Gen.GF.matsubaraOdd n : ℤ) : ℂ)))
      = ∑ a, ∑ b, Gen.GF.termFreq (Gen.GF.residue (A₂ a b) (B₂ b a) (d₂.w a) (d₂.w b))
          (Gen.GF.pole (d₂.E b) (d₂.E a))
          ((Complex.I * (Real.pi : ℂ) / (d₂.β : ℂ)) * ((Gen.GF.matsubaraOdd n : ℤ) : ℂ))) ∧
    (∀ k : ℤ,
      (∑ n, ∑ m, if d₁.E m = d₁.E n then
          (if k = 0 then Gen.Susc.zeroPoleIncrement (A₁ n m) (B₁ m n) (d₁.w n) * (d₁.β : ℂ) else 0)
        else Gen.Susc.termFreq (Gen.Susc.residue (A₁ n m) (B₁ m n) (d₁.w n) (d₁.w m))
          (Gen.Susc.pole (d₁.E m) (d₁.E n)) (Complex.I * (d₁.Ω k : ℂ)))
      = ∑ n, ∑ m, if d₂.E m = d₂.E n then
          (if k = 0 then Gen.Susc.zeroPoleIncrement (A₂ n m) (B₂ m n) (d₂.w n) * (d₂.β : ℂ) else 0)
        else Gen.Susc.termFreq (Gen.Susc.residue (A₂ n m) (B₂ m n) (d₂.w n) (d₂.w m))
          (Gen.Susc.pole (d₂.E m) (d₂.E n)) (Complex.I * (d₂.Ω k : ℂ))) := by
  have hc : ∀ τ, d₁.corr A₁ B₁ τ = d₂.corr A₂ B₂ τ :=
    correlator_same_for_two_decompositions d₁ d₂ hβ V₁ V₂ h₁ h₂ hH A₁ B₁ A₂ B₂ hA hB
  have hω : ∀ k, d₁.ω k = d₂.ω k := by intro k; unfold EigenData.ω; rw [hβ]
  have hΩ : ∀ k, d₁.Ω k = d₂.Ω k := by intro k; unfold EigenData.Ω; rw [hβ]
  refine ⟨fun n => ?_, fun k => ?_⟩
  · rw [Bridge.gf_equals_definition, Bridge.gf_equals_definition]
    unfold EigenData.Gdef
    simp only [hc, hω, hβ]
  · rw [Bridge.susc_sum, Bridge.susc_sum]
    unfold EigenData.suscDef
    simp only [hc, hΩ, hβ]

/-- ... and the same thermal averages: of every operator with Fock matrix `AF`, of every
Fock-diagonal observable `x`, and of the energy. -/
theorem averages_same_for_two_decompositions (d₁ d₂ : EigenData ι) (hβ : d₁.β = d₂.β)
    (V₁ V₂ : Matrix ι ι ℂ) (h₁ : V₁ᴴ * V₁ = 1) (h₂ : V₂ᴴ * V₂ = 1)
    (hH : hamF d₁ V₁ = hamF d₂ V₂) :
    (∀ AF : Matrix ι ι ℂ,
      (∑ s, (V₁ᴴ * AF * V₁) s s * (d₁.w s : ℂ)) = ∑ s, (V₂ᴴ * AF * V₂) s s * (d₂.w s : ℂ)) ∧
    (∀ x : ι → ℝ, (∑ s, ∑ f, d₁.w s * x f * Complex.normSq (V₁ f s))
      = ∑ s, ∑ f, d₂.w s * x f * Complex.normSq (V₂ f s)) ∧
    (∑ s, d₁.w s * d₁.E s) = ∑ s, d₂.w s * d₂.E s := by
  have hρ := density_matrix_from_fock_hamiltonian d₁ d₂ hβ V₁ V₂ h₁ h₂ hH
  obtain ⟨-, -, -, h4⟩ := averages_partition_independent d₁ V₁
  obtain ⟨ha, hx⟩ := h4 d₂ V₂ hρ
  refine ⟨ha, hx, ?_⟩
  have e1 := avg_energy d₁ V₁ h₁
  have e2 := avg_energy d₂ V₂ h₂
  rw [hρ, hH, ← e2] at e1
  exact_mod_cast e1

/-! ### spectrum -/

/-- SPECTRUM.  Two block decompositions of the same Fock Hamiltonian `H` -- block index types `B`,
`B'`, block sizes `m`, `m'`, addressings `e`, `e'` of the Fock states, blocks `Hb`, `Hb'`, and the
eigenvalues `E`, `E'` returned by the per-block solver -- give the same eigenvalues with the same
multiplicities: both products `∏ (X − E_k)` are the characteristic polynomial of `H`, and the two
multisets of eigenvalues coincide. -/
theorem spectrum_partition_independent {σ : Type} [Fintype σ] [DecidableEq σ]
    {B : Type} [Fintype B] [DecidableEq B] {m : B → Type} [∀ b, Fintype (m b)]
    [∀ b, DecidableEq (m b)]
    {B' : Type} [Fintype B'] [DecidableEq B'] {m' : B' → Type} [∀ b, Fintype (m' b)]
    [∀ b, DecidableEq (m' b)]
    (e : σ ≃ Σ b, m b) (e' : σ ≃ Σ b, m' b) (H : Matrix σ σ ℂ)
    {Hb : ∀ b, Matrix (m b) (m b) ℂ} {U : ∀ b, Matrix (m b) (m b) ℂ} {E : ∀ b, m b → ℝ}
    {Hb' : ∀ b, Matrix (m' b) (m' b) ℂ} {U' : ∀ b, Matrix (m' b) (m' b) ℂ} {E' : ∀ b, m' b → ℝ}
    (h : BlockEigen (m := m) Hb U E) (h' : BlockEigen (m := m') Hb' U' E')
    (hH : H = Matrix.reindex e.symm e.symm (blockDiagonal' Hb))
    (hH' : H = Matrix.reindex e'.symm e'.symm (blockDiagonal' Hb')) :
    (∏ k : Σ b, m b, (X - C (E k.1 k.2 : ℂ))) = H.charpoly ∧
    (∏ k : Σ b, m' b, (X - C (E' k.1 k.2 : ℂ))) = H.charpoly ∧
    (Finset.univ : Finset (Σ b, m b)).val.map (fun k => E k.1 k.2)
      = (Finset.univ : Finset (Σ b, m' b)).val.map (fun k => E' k.1 k.2) := by
  have h1 := fock_charpoly e H h hH
  have h2 := fock_charpoly e' H h' hH'
  refine ⟨h1.symm, h2.symm, ?_⟩
  have r1 : H.charpoly.roots
      = (Finset.univ : Finset (Σ b, m b)).val.map (fun k => (E k.1 k.2 : ℂ)) := by
    rw [hH, charpoly_reindex]; exact block_spectrum_roots h
  have r2 : H.charpoly.roots
      = (Finset.univ : Finset (Σ b, m' b)).val.map (fun k => (E' k.1 k.2 : ℂ)) := by
    rw [hH', charpoly_reindex]; exact block_spectrum_roots h'
  have hc := r1.symm.trans r2
  apply Multiset.map_injective Complex.ofReal_injective
  rw [Multiset.map_map, Multiset.map_map]
  exact hc

/-! ### two-particle Green's function: the world-stripe selection -/

section stripes
open Pomerol.Model.Chi4Prepare Pomerol.Spec.Chi4PrepareSpec Pomerol.Spec.Chi4Refine
open Pomerol.Model.Chi4Part (SpMat)

/-- WORLD-STRIPE SELECTION.  The parts `TwoParticleGF::prepare` creates depend on the partition: the
blocks, their numbering, the block bimaps of the four operators and hence the list of selected stripes
are all different for a different set of symmetry operations.  What the parts add up to is not:
for ANY block structure -- any numbering `e` of the eigenstates by (block, index in block), any bimaps
`bm`, `cx4` that are graphs of partial injective maps and list every non-zero block of the renumbered
operator matrices, any faithful compressed copies of the blocks -- the signed sum over the selected
stripes of what their parts accumulate is `d.chiLehmann O X z`, and the stripes of ordering `p` add up
to `d.orderedLehmann …`: sums over all eigenstates in which no block occurs.  Consequently two partitions
`e₁`, `e₂` of the same eigen-data give the same value (both sides below are equal to `d.chiLehmann O X z`),
and at fermionic frequencies this value is the definition `d.chiDef O X z`
(`two_particle_partition_independent`). -/
theorem stripe_selection_partition_independent (d : EigenData ι)
    (O : Fin 3 → Matrix ι ι ℂ) (X : Matrix ι ι ℂ) (z : Fin 3 → ℂ)
    {nB₁ : ℕ} {sz₁ : Fin nB₁ → ℕ} (e₁ : ι ≃ GFRefine.Basis sz₁)
    (R₁ C₁ : Fin 3 → Fin nB₁ → Fin nB₁ → SpMat ℂ) (CX₁ : Fin nB₁ → Fin nB₁ → SpMat ℂ)
    (hR₁ : ∀ k b b', RowMajorOf (R₁ k b b') (blockOf (Matrix.reindex e₁ e₁ (O k)) b b'))
    (hC₁ : ∀ k b b', ColMajorOf (C₁ k b b') (blockOf (Matrix.reindex e₁ e₁ (O k)) b b'))
    (hX₁ : ∀ b b', ColMajorOf (CX₁ b b') (blockOf (Matrix.reindex e₁ e₁ X) b b'))
    (bm₁ : Fin 3 → BlockMap) (cx4₁ : BlockMap) (hbm₁ : ∀ k, IsBimap (bm₁ k))
    (h4₁ : RightUnique cx4₁)
    (hO₁ : ∀ k, GFRefine.CoversBlocks (bm₁ k) (Matrix.reindex e₁ e₁ (O k)))
    (hX4₁ : GFRefine.CoversBlocks cx4₁ (Matrix.reindex e₁ e₁ X))
    {nB₂ : ℕ} {sz₂ : Fin nB₂ → ℕ} (e₂ : ι ≃ GFRefine.Basis sz₂)
    (R₂ C₂ : Fin 3 → Fin nB₂ → Fin nB₂ → SpMat ℂ) (CX₂ : Fin nB₂ → Fin nB₂ → SpMat ℂ)
    (hR₂ : ∀ k b b', RowMajorOf (R₂ k b b') (blockOf (Matrix.reindex e₂ e₂ (O k)) b b'))
    (hC₂ : ∀ k b b', ColMajorOf (C₂ k b b') (blockOf (Matrix.reindex e₂ e₂ (O k)) b b'))
    (hX₂ : ∀ b b', ColMajorOf (CX₂ b b') (blockOf (Matrix.reindex e₂ e₂ X) b b'))
    (bm₂ : Fin 3 → BlockMap) (cx4₂ : BlockMap) (hbm₂ : ∀ k, IsBimap (bm₂ k))
    (h4₂ : RightUnique cx4₂)
    (hO₂ : ∀ k, GFRefine.CoversBlocks (bm₂ k) (Matrix.reindex e₂ e₂ (O k)))
    (hX4₂ : GFRefine.CoversBlocks cx4₂ (Matrix.reindex e₂ e₂ X)) :
    ((prepare (fun _ => true) (bm₁ 0) (bm₁ 1) (bm₁ 2) cx4₁).map fun s =>
        ((permEntry s.1).2 : ℂ) * stripeValue (reindexData d e₁) z R₁ C₁ CX₁ s).sum
      = d.chiLehmann O X z ∧
    ((prepare (fun _ => true) (bm₁ 0) (bm₁ 1) (bm₁ 2) cx4₁).map fun s =>
        ((permEntry s.1).2 : ℂ) * stripeValue (reindexData d e₁) z R₁ C₁ CX₁ s).sum
      = ((prepare (fun _ => true) (bm₂ 0) (bm₂ 1) (bm₂ 2) cx4₂).map fun s =>
        ((permEntry s.1).2 : ℂ) * stripeValue (reindexData d e₂) z R₂ C₂ CX₂ s).sum ∧
    ∀ p : Fin 6,
      ((stripesOf p.1 (prepare (fun _ => true) (bm₁ 0) (bm₁ 1) (bm₁ 2) cx4₁)).map
          (stripeValue (reindexData d e₁) z R₁ C₁ CX₁)).sum
        = d.orderedLehmann (O (permFn p 0)) (O (permFn p 1)) (O (permFn p 2)) X
            (z (permFn p 0)) (z (permFn p 1)) (z (permFn p 2)) := by
  obtain ⟨a1, b1⟩ := selected_stripes_sum_partition_free d O X z e₁ R₁ C₁ CX₁ hR₁ hC₁ hX₁ bm₁ cx4₁
    hbm₁ h4₁ hO₁ hX4₁
  obtain ⟨-, b2⟩ := selected_stripes_sum_partition_free d O X z e₂ R₂ C₂ CX₂ hR₂ hC₂ hX₂ bm₂ cx4₂
    hbm₂ h4₂ hO₂ hX4₂
  exact ⟨b1, b1.trans b2.symm, a1⟩

/-- NON-VACUITY: the hypotheses hold for every system whose eigenbasis is treated as ONE block of `n`
states (arbitrary operator matrices, every block stored entry by entry, all four bimaps `{0 ↦ 0}`), with
the eigenstates numbered in two ways that differ by an arbitrary permutation `σ`; the two evaluations
agree. -/
example {n : ℕ} (d : EigenData (GFRefine.Basis (fun _ : Fin 1 => n)))
    (O : Fin 3 → Matrix (GFRefine.Basis (fun _ : Fin 1 => n)) (GFRefine.Basis (fun _ : Fin 1 => n)) ℂ)
    (X : Matrix (GFRefine.Basis (fun _ : Fin 1 => n)) (GFRefine.Basis (fun _ : Fin 1 => n)) ℂ)
    (z : Fin 3 → ℂ)
    (σ : GFRefine.Basis (fun _ : Fin 1 => n) ≃ GFRefine.Basis (fun _ : Fin 1 => n)) :
    ((prepare (fun _ => true) [(0, 0)] [(0, 0)] [(0, 0)] [(0, 0)]).map fun s =>
        ((permEntry s.1).2 : ℂ) * stripeValue (reindexData d (Equiv.refl _)) z
          (fun k b b' => storeRows (fun _ => true)
            (blockOf (Matrix.reindex (Equiv.refl _) (Equiv.refl _) (O k)) b b'))
          (fun k b b' => storeRows (fun _ => true)
            (blockOf (Matrix.reindex (Equiv.refl _) (Equiv.refl _) (O k)) b b')ᵀ)
          (fun b b' => storeRows (fun _ => true)
            (blockOf (Matrix.reindex (Equiv.refl _) (Equiv.refl _) X) b b')ᵀ) s).sum
      = ((prepare (fun _ => true) [(0, 0)] [(0, 0)] [(0, 0)] [(0, 0)]).map fun s =>
        ((permEntry s.1).2 : ℂ) * stripeValue (reindexData d σ) z
          (fun k b b' => storeRows (fun _ => true) (blockOf (Matrix.reindex σ σ (O k)) b b'))
          (fun k b b' => storeRows (fun _ => true) (blockOf (Matrix.reindex σ σ (O k)) b b')ᵀ)
          (fun b b' => storeRows (fun _ => true) (blockOf (Matrix.reindex σ σ X) b b')ᵀ) s).sum := by
  have hcov : ∀ M : Matrix (GFRefine.Basis (fun _ : Fin 1 => n))
      (GFRefine.Basis (fun _ : Fin 1 => n)) ℂ, GFRefine.CoversBlocks [(0, 0)] M := by
    intro M L R _
    have hL : L.1 = 0 := by omega
    have hR : R.1 = 0 := by omega
    rw [hL, hR]
    exact List.mem_singleton.mpr rfl
  exact (stripe_selection_partition_independent d O X z (Equiv.refl _) _ _ _
    (fun k b b' => storeRows_rowMajorOf _ (fun _ h => by simp at h) _)
    (fun k b b' => storeRows_colMajorOf _ (fun _ h => by simp at h) _)
    (fun b b' => storeRows_colMajorOf _ (fun _ h => by simp at h) _)
    (fun _ => [(0, 0)]) [(0, 0)] (fun _ => by decide) (by decide) (fun _ => hcov _) (hcov _)
    σ _ _ _
    (fun k b b' => storeRows_rowMajorOf _ (fun _ h => by simp at h) _)
    (fun k b b' => storeRows_colMajorOf _ (fun _ h => by simp at h) _)
    (fun b b' => storeRows_colMajorOf _ (fun _ h => by simp at h) _)
    (fun _ => [(0, 0)]) [(0, 0)] (fun _ => by decide) (by decide) (fun _ => hcov _) (hcov _)).2.1

end stripes

end Pomerol.Properties.C08
