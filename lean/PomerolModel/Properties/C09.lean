/-
  Property C09: the density matrix the library computes is the Gibbs state `ρ = e^{−βH} / Z`, and
  the thermal averages it reports are `Tr(ρ ·)`.

  Setting: `d : EigenData ι` (β > 0, eigenvalues `d.E n` over ALL blocks),
  `d.w n = e^{−β E_n} / Σ_m e^{−β E_m}` the Gibbs weights (the definition, no reference energy),
  `Gen.DM.unnormWeight β e e0 = exp(−β (e − e0))` the formula EXTRACTED FROM THE SOURCE
  (`DensityMatrixPart::computeUnnormalized`; `e0` is the ground-state energy the library subtracts),
  `rhoF d V = V ρ V†`, `hamF d V = V H V†` the density matrix and the Hamiltonian in the Fock basis
  (`V` = matrix of eigenvectors).

  All statements are re-exports / direct combinations of theorems of `Spec/Gibbs.lean`,
  `Spec/Lehmann.lean`, `Spec/Bridge.lean` (fully proved).
-/
import PomerolModel.Spec.Bridge

namespace Pomerol.Properties.C09
open Matrix Complex Pomerol Pomerol.Spec

variable {ι : Type} [Fintype ι] [DecidableEq ι]

/-- The extracted weight formula, divided by the sum of the extracted weights over all eigenstates
(what `DensityMatrix::compute` does), IS the Gibbs weight `e^{−βE_n}/Z` -- for every choice `E0` of
the subtracted reference energy -- and the Gibbs weights sum to one. -/
theorem weights_normalised [Nonempty ι] (d : EigenData ι) (E0 : ℝ) :
    (∀ n, Gen.DM.unnormWeight d.β (d.E n) E0 / (∑ m, Gen.DM.unnormWeight d.β (d.E m) E0) = d.w n) ∧
    ∑ n, d.w n = 1 :=
  ⟨fun n => shifted_normalised d E0 n, w_sum d⟩

/-- Every weight is strictly positive and at most one. -/
theorem weights_positive [Nonempty ι] (d : EigenData ι) (n : ι) : 0 < d.w n ∧ d.w n ≤ 1 :=
  ⟨w_pos d n, w_le_one d n⟩

/-- Ratios of weights are Boltzmann factors: `w_a / w_b = e^{−β (E_a − E_b)}`. -/
theorem weight_ratio [Nonempty ι] (d : EigenData ι) (a b : ι) :
    d.w a / d.w b = Real.exp (-d.β * (d.E a - d.E b)) :=
  w_div d a b

/-- Shift invariance: adding a constant `c` to all energies does not change the weights; and the
normalised extracted weights do not depend on the reference energy that is subtracted (`E0`, `E0'`
arbitrary reals -- in particular it does not matter whether the true ground-state energy is
used). -/
theorem shift_invariance [Nonempty ι] (d : EigenData ι) :
    (∀ (c : ℝ) (n : ι), (EigenData.w ⟨d.β, d.hβ, fun m => d.E m + c⟩ n) = d.w n) ∧
    ∀ (E0 E0' : ℝ) (n : ι),
      Gen.DM.unnormWeight d.β (d.E n) E0 / (∑ m, Gen.DM.unnormWeight d.β (d.E m) E0)
        = Gen.DM.unnormWeight d.β (d.E n) E0' / (∑ m, Gen.DM.unnormWeight d.β (d.E m) E0') :=
  ⟨fun c n => w_offset d c n,
    fun E0 E0' n => (shifted_normalised d E0 n).trans (shifted_normalised d E0' n).symm⟩

/-- No overflow / no division by a tiny number: if the subtracted reference energy `E0` is a lower
bound of the spectrum, every unnormalised weight computed by the extracted formula lies in `(0, 1]`;
if moreover `E0` is attained (it IS the ground-state energy), the normalisation sum lies in
`[1, dim]`. -/
theorem no_overflow (d : EigenData ι) (E0 : ℝ) (hmin : ∀ n, E0 ≤ d.E n) :
    (∀ n, 0 < Gen.DM.unnormWeight d.β (d.E n) E0 ∧ Gen.DM.unnormWeight d.β (d.E n) E0 ≤ 1) ∧
    ((∃ n, d.E n = E0) →
      1 ≤ ∑ n, Gen.DM.unnormWeight d.β (d.E n) E0 ∧
      ∑ n, Gen.DM.unnormWeight d.β (d.E n) E0 ≤ Fintype.card ι) :=
  ⟨fun n => shifted_le_one d E0 hmin n, fun hex => shiftedZ_bounds d E0 hmin hex⟩

/-- The average energy the library reports, `Σ_s w_s E_s`, is `Tr(ρ H)` computed in the Fock
basis, for every unitary eigenvector matrix `V`. -/
theorem average_energy_is_trace (d : EigenData ι) (V : Matrix ι ι ℂ) (hV : Vᴴ * V = 1) :
    ((∑ s, d.w s * d.E s : ℝ) : ℂ) = (rhoF d V * hamF d V).trace :=
  avg_energy d V hV

/-- The library's formula for the average of a Fock-diagonal observable `x` (occupation number,
double occupancy, total particle number, …), `Σ_s w_s Σ_f x(f) |V_{fs}|²`, is
`Tr(ρ · diag(x))` in the Fock basis.  Holds for every matrix `V`. -/
theorem diagonal_average_is_trace (d : EigenData ι) (V : Matrix ι ι ℂ) (x : ι → ℝ) :
    ((∑ s, ∑ f, d.w s * x f * Complex.normSq (V f s) : ℝ) : ℂ)
      = (rhoF d V * diagonal (fun f => (x f : ℂ))).trace :=
  avg_diagonal d V x

/-- The library's formula for the average of a general operator, the weighted sum of the diagonal
elements of its matrix in the eigenbasis `Σ_s (V† A V)_{ss} w_s`, is `Tr(ρ A)` in the Fock basis.
Holds for every matrix `V`. -/
theorem operator_average_is_trace (d : EigenData ι) (V : Matrix ι ι ℂ) (AF : Matrix ι ι ℂ) :
    (∑ s, (Vᴴ * AF * V) s s * (d.w s : ℂ)) = (rhoF d V * AF).trace :=
  avg_operator d V AF

/-- Concrete instance: the ground state itself (`e = e0`) gets the unnormalised weight 1 by the
extracted formula, at every temperature. -/
example (β e0 : ℝ) : Gen.DM.unnormWeight β e0 e0 = 1 := by
  rw [Bridge.dm_weight]
  simp [shiftedWeight]

end Pomerol.Properties.C09
