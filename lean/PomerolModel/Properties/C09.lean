/-
  Property C09: the density matrix the library computes is the Gibbs state `ρ = e^{−βH} / Z`, and
  the thermal averages it reports are `Tr(ρ ·)`.

  Setting: `d : EigenData ι` (β > 0, eigenvalues `d.E n` over ALL blocks),
  `d.w n = e^{−β E_n} / Σ_m e^{−β E_m}` the Gibbs weights (the definition, no reference energy),
  `Gen.DM.unnormWeight β e e0 = exp(−β (e − e0))` the formula EXTRACTED FROM THE SOURCE
  (`DensityMatrixPart::computeUnnormalized`; `e0` is the ground-state energy the library subtracts),
  `rhoF d V = V ρ V†`, `hamF d V = V H V†` the density matrix and the Hamiltonian in the Fock basis
  (`V` = matrix of eigenvectors).

  All statements are re-exports / direct combinations of theorems of `Spec/Gibbs.lean`,
  `Spec/Lehmann.lean`, `Spec/Bridge.lean` (fully proved).
-/
import PomerolModel.Spec.Bridge
import PomerolModel.Spec.AveragesSpec

namespace Pomerol.Properties.C09
open Matrix Complex Pomerol Pomerol.Spec

variable {ι : Type} [Fintype ι] [DecidableEq ι]

/-- The extracted weight formula, divided by the sum of the extracted weights over all eigenstates
(what `DensityMatrix::compute` does), IS the Gibbs weight `e^{−βE_n}/Z` -- for every choice `E0` of
the subtracted reference energy -- and the Gibbs weights sum to one. -/
theorem weights_normalised [Nonempty ι] (d : EigenData ι) (E0 : ℝ) :
    (∀ n, Gen.DM.unnormWeight d.β (d.E n) E0 / (∑ m, Gen.DM.unnormWeight d.β (d.E m) E0) = d.w n) ∧
    ∑ n, d.w n = 1 :=
  ⟨fun n => shifted_normalised d E0 n, w_sum d⟩

/-- Every weight is strictly positive and at most one. -/
theorem weights_positive [Nonempty ι] (d : EigenData ι) (n : ι) : 0 < d.w n ∧ d.w n ≤ 1 :=
  ⟨w_pos d n, w_le_one d n⟩

/-- Ratios of weights are Boltzmann factors: `w_a / w_b = e^{−β (E_a − E_b)}`. -/
theorem weight_ratio [Nonempty ι] (d : EigenData ι) (a b : ι) :
    d.w a / d.w b = Real.exp (-d.β * (d.E a - d.E b)) :=
  w_div d a b

/-- Shift invariance: adding a constant `c` to all energies does not change the weights; and the
normalised extracted weights do not depend on the reference energy that is subtracted (`E0`, `E0'`
arbitrary reals -- in particular it does not matter whether the true ground-state energy is
used). -/
theorem shift_invariance [Nonempty ι] (d : EigenData ι) :
    (∀ (c : ℝ) (n : ι), (EigenData.w ⟨d.β, d.hβ, fun m => d.E m + c⟩ n) = d.w n) ∧
    ∀ (E0 E0' : ℝ) (n : ι),
      Gen.DM.unnormWeight d.β (d.E n) E0 / (∑ m, Gen.DM.unnormWeight d.β (d.E m) E0)
        = Gen.DM.unnormWeight d.β (d.E n) E0' / (∑ m, Gen.DM.unnormWeight d.β (d.E m) E0') :=
  ⟨fun c n => w_offset d c n,
    fun E0 E0' n => (shifted_normalised d E0 n).trans (shifted_normalised d E0' n).symm⟩

/-- No overflow / no division by a tiny number: if the subtracted reference energy `E0` is a lower
bound of the spectrum, every unnormalised weight computed by the extracted formula lies in `(0, 1]`;
if moreover `E0` is attained (it IS the ground-state energy), the normalisation sum lies in
`[1, dim]`. -/
theorem no_overflow (d : EigenData ι) (E0 : ℝ) (hmin : ∀ n, E0 ≤ d.E n) :
    (∀ n, 0 < Gen.DM.unnormWeight d.β (d.E n) E0 ∧ Gen.DM.unnormWeight d.β (d.E n) E0 ≤ 1) ∧
    ((∃ n, d.E n = E0) →
      1 ≤ ∑ n, Gen.DM.unnormWeight d.β (d.E n) E0 ∧
      ∑ n, Gen.DM.unnormWeight d.β (d.E n) E0 ≤ Fintype.card ι) :=
  ⟨fun n => shifted_le_one d E0 hmin n, fun hex => shiftedZ_bounds d E0 hmin hex⟩

/-- The average energy the library reports, `Σ_s w_s E_s`, is `Tr(ρ H)` computed in the Fock
basis, for every unitary eigenvector matrix `V`. -/
theorem average_energy_is_trace (d : EigenData ι) (V : Matrix ι ι ℂ) (hV : Vᴴ * V = 1) :
    ((∑ s, d.w s * d.E s : ℝ) : ℂ) = (rhoF d V * hamF d V).trace :=
  avg_energy d V hV

/-- The library's formula for the average of a Fock-diagonal observable `x` (occupation number,
double occupancy, total particle number, …), `Σ_s w_s Σ_f x(f) |V_{fs}|²`, is
`Tr(ρ · diag(x))` in the Fock basis.  Holds for every matrix `V`. -/
theorem diagonal_average_is_trace (d : EigenData ι) (V : Matrix ι ι ℂ) (x : ι → ℝ) :
    ((∑ s, ∑ f, d.w s * x f * Complex.normSq (V f s) : ℝ) : ℂ)
      = (rhoF d V * diagonal (fun f => (x f : ℂ))).trace :=
  avg_diagonal d V x

/-- The library's formula for the average of a general operator, the weighted sum of the diagonal
elements of its matrix in the eigenbasis `Σ_s (V† A V)_{ss} w_s`, is `Tr(ρ A)` in the Fock basis.
Holds for every matrix `V`. -/
theorem operator_average_is_trace (d : EigenData ι) (V : Matrix ι ι ℂ) (AF : Matrix ι ι ℂ) :
    (∑ s, (Vᴴ * AF * V) s s * (d.w s : ℂ)) = (rhoF d V * AF).trace :=
  avg_operator d V AF

/-- Concrete instance: the ground state itself (`e = e0`) gets the unnormalised weight 1 by the
extracted formula, at every temperature. -/
example (β e0 : ℝ) : Gen.DM.unnormWeight β e0 e0 = 1 := by
  rw [Bridge.dm_weight]
  simp [shiftedWeight]

/-! ### the LOOPS of the average routines (`Model/Averages.lean`, proofs in `Spec/AveragesSpec.lean`)

`parts : List (Part ℝ ℂ)` is the vector of `DensityMatrixPart`s as the model sees it: for every block
its Fock states (bit masks), the matrix `U` whose COLUMNS are the eigenvectors (`U f s`: Fock index
first, eigenstate second), the eigenvalues and the weights.  `WF parts`: in every block these have the
size of the block.  `Idx parts` = all pairs (block, inner index) = the full Fock space;
`Vfull parts` = the block-diagonal matrix of all eigenvectors; `gibbs parts β hβ` = the eigen-data read
off the parts; `numberOp parts i = diag [bit i of f]`, `totalNumberOp parts = diag popcount(f)` are the
Jordan-Wigner number operators `n_i`, `N` in the Fock basis.  `.ok x` = the routine returns `x` without
throwing. -/
section Loops
open Pomerol.Model.Averages Pomerol.Spec.AveragesSpec

/-- What the library's loops return is the trace of the Gibbs state with the corresponding operator
on the full Fock space.  If the weights stored in the parts are the Gibbs weights of the stored
eigenvalues (that is `weights_normalised` above), then
`getAverageOccupancy(i)` returns `Tr(ρ n_i)`, `getAverageOccupancy()` returns `Tr(ρ N)`,
`getAverageDoubleOccupancy(i,j)` returns `Tr(ρ n_i n_j)`, and -- for every block-diagonal
Hamiltonian `H` whose blocks the stored eigenvectors and eigenvalues diagonalise (the solver's
post-condition `BlockEigen` of C03) -- `getAverageEnergy()` returns `Tr(ρ H)`; none of them throws.
The returned real numbers are the explicit full-space sums `occValue` … `energyValue`
(e.g. `Σ_k w_k Σ_f |V_{fk}|² [bit i of f]`). -/
theorem occupancies_are_traces (parts : List (Part ℝ ℂ)) (hwf : WF parts) (β : ℝ) (hβ : 0 < β)
    (hw : ∀ k, wt parts k = (gibbs parts β hβ).w k) :
    (∀ i, DM.avgOccupancy parts i = .ok (occValue parts i) ∧
      ((occValue parts i : ℝ) : ℂ)
        = (rhoF (gibbs parts β hβ) (Vfull parts) * numberOp parts i).trace) ∧
    (DM.avgOccupancyTotal parts = .ok (totalOccValue parts) ∧
      ((totalOccValue parts : ℝ) : ℂ)
        = (rhoF (gibbs parts β hβ) (Vfull parts) * totalNumberOp parts).trace) ∧
    (∀ i j, DM.avgDoubleOccupancy parts i j = .ok (doubleOccValue parts i j) ∧
      ((doubleOccValue parts i j : ℝ) : ℂ)
        = (rhoF (gibbs parts β hβ) (Vfull parts) * (numberOp parts i * numberOp parts j)).trace) ∧
    (∀ Hb : ∀ b : Fin parts.length, Matrix (Fin (parts.get b).dim) (Fin (parts.get b).dim) ℂ,
      BlockEigen (m := fun b : Fin parts.length => Fin (parts.get b).dim) Hb (Ublk parts)
        (fun b i => (gibbs parts β hβ).E ⟨b, i⟩) →
      DM.avgEnergy parts = .ok (energyValue parts) ∧
      ((energyValue parts : ℝ) : ℂ)
        = (rhoF (gibbs parts β hβ) (Vfull parts) * blockDiagonal' Hb).trace) := by
  rw [← rho_eq_rhoF parts _ hw]
  exact ⟨fun i => AveragesSpec.occupancy_is_trace parts hwf i,
    AveragesSpec.total_occupancy_is_trace parts hwf,
    fun i j => AveragesSpec.double_occupancy_is_trace parts hwf i j,
    fun Hb h => AveragesSpec.energy_is_trace_blocks parts hwf Hb h⟩

/-- Non-vacuity: the concrete 3-mode system `exParts` (vacuum block and one-particle block,
eigenvectors = columns of a 3×3 orthogonal matrix, non-uniform weights `1/4 | 3/8, 1/4, 1/8`)
satisfies all hypotheses at `β = 1`, a Hamiltonian with the required post-condition exists, and the
routine returns `⟨n_0⟩ = 1219/5000`, `⟨N⟩ = 3/4`. -/
example :
    WF exParts ∧ (∀ k, wt exParts k = (gibbs exParts 1 one_pos).w k) ∧
    (∃ Hb, BlockEigen (m := fun b : Fin exParts.length => Fin (exParts.get b).dim) Hb
      (Ublk exParts) (fun b i => (gibbs exParts 1 one_pos).E ⟨b, i⟩)) ∧
    DM.avgOccupancy exParts 0 = .ok (1219/5000) ∧ DM.avgOccupancyTotal exParts = .ok (3/4) :=
  ⟨exParts_wf, exParts_gibbs,
    ⟨_, blockEigen_reconstruct exParts (Ublk_unitary exParts exParts_orthonormal)⟩,
    transposed_amplitudes_differ.1, transposed_amplitudes_differ.2.2.2.1⟩

/-- The hypothesis on the weights of `occupancies_are_traces` is what the modelled
`DensityMatrix::compute` establishes: started on parts of the right sizes (whatever their weights
were), with any reference energy `e0` (the library passes the ground-state energy), it returns
normally; the parts it leaves (`computed β e0 parts`: everything unchanged except the weights, which
are the extracted `unnormWeight`s divided by their sum over ALL blocks) again have the right sizes and
their weights are the Gibbs weights of the stored eigenvalues. -/
theorem computed_weights_are_gibbs (parts : List (Part ℝ ℂ)) (hwf : WF parts) (β : ℝ) (hβ : 0 < β)
    (e0 : ℝ) :
    DM.compute β e0 parts = .ok (computed β e0 parts) ∧ WF (computed β e0 parts) ∧
    ∀ k, wt (computed β e0 parts) k = (gibbs (computed β e0 parts) β hβ).w k :=
  ⟨compute_eq β e0 parts hwf, computed_wf β e0 parts hwf, compute_gibbs β hβ e0 parts hwf⟩

/-- `EnsembleAverage` (the routine behind `⟨c†_i c_j⟩`): the loop over the block pairs of the
operator -- which only visits blocks mapped to THEMSELVES and only retained ones -- and, inside, the
loop `Σ_k A.coeff(k,k)·w_k` return the weighted sum of the diagonal of the operator over ALL
eigenstates, which is `Tr(ρ A_F)`, `A_F` being the operator's matrix in the Fock basis.
Hypotheses: the size invariants; every block retained; the weights are the Gibbs weights; and
`EAInput`: the listed block pairs are distinct and in range, the stored diagonal blocks carry the
diagonal coefficients of the rotated operator `V† A_F V`, and every non-zero element of `V† A_F V`
lies in a listed block pair -- the latter is the single-target property of C07 (the operator maps a
block into a single block; `AveragesSpec.support_of_single_target`), which is what makes skipping the
non-self-mapped blocks harmless. -/
theorem ensemble_average_is_trace (parts : List (Part ℝ ℂ)) (hwf : WF parts)
    (hret : ∀ p ∈ parts, p.retained = true) (β : ℝ) (hβ : 0 < β)
    (hw : ∀ k, wt parts k = (gibbs parts β hβ).w k)
    (mapping : List (ℕ × ℕ)) (pfl : ℕ → Pomerol.Model.GFPart.SpMat ℂ)
    (AF : Matrix (Idx parts) (Idx parts) ℂ)
    (h : EAInput parts mapping pfl ((Vfull parts)ᴴ * AF * Vfull parts)) :
    EA.prepare mapping pfl parts
        = .ok (∑ k, ((Vfull parts)ᴴ * AF * Vfull parts) k k * ((gibbs parts β hβ).w k : ℂ)) ∧
    (∑ k, ((Vfull parts)ᴴ * AF * Vfull parts) k k * ((gibbs parts β hβ).w k : ℂ))
        = (rhoF (gibbs parts β hβ) (Vfull parts) * AF).trace := by
  have := AveragesSpec.ensemble_average_is_trace parts hwf hret mapping pfl AF h
  rw [rho_eq_rhoF parts _ hw] at this
  simp only [hw] at this
  exact this

/-- Non-vacuity: for `exParts`, the mapping `[(0,0), (1,1)]` and the stored parts `exPfl`, the operator
`A_F = V A V†` (`A = exA` read off the stored parts) satisfies `EAInput`, all blocks are retained, and
the routine returns `2·1/4 + 1·3/8 + 3·1/4 + 0·1/8 = 13/8`. -/
example :
    (∀ p ∈ exParts, p.retained = true) ∧
    EAInput exParts exMapping exPfl
      ((Vfull exParts)ᴴ * (Vfull exParts * exA * (Vfull exParts)ᴴ) * Vfull exParts) ∧
    EA.prepare exMapping exPfl exParts = .ok (13/8) :=
  ⟨exParts_retained,
    EAInput_fock exParts (block_unitary _ (Ublk_unitary exParts exParts_orthonormal)).1 _ _ _
      exEAInput,
    ex_ensemble_average⟩

end Loops

end Pomerol.Properties.C09
