/-
  Property C05: the symbolic operator algebra faithfully represents the fermionic algebra.

  Model: `Model/Operator.lean` (faithful model of Operator.h / Operator.cpp: bubble-sort normal ordering
  with sign flips, contractions and vanishing repeated factors; `std::map` arithmetic with near-zero
  erasure; the Jordan-Wigner sign loop of `actRight`).  Tolerance tests in their exact idealisation
  (`negligible` = `= 0`), coefficients in an arbitrary commutative ring.

  "Jordan-Wigner matrices" = the representation `jwRep K` on the free module over Fock states, built
  from the model's own elementary action `actOp` (`Spec/JW.lean`), for which the CAR are *proved*.
  Every theorem holds for all polynomials, all monomial lengths and orders, all Fock states.
-/
import PomerolModel.Generated.CoreFlags
import PomerolModel.Spec.OpAlgebra
import PomerolModel.Spec.OpTotal

set_option linter.unusedSectionVars false

namespace Pomerol.Properties.C05
open Pomerol.Model Pomerol.Spec
open scoped Pomerol.Spec.Exact

variable {K : Type} [CommRing K] [DecidableEq K]

/-- The library's monomial action *is* a representation of the CAR: `{c_i, c_j} = 0`,
`{c†_i, c†_j} = 0`, `{c_i, c†_j} = δ_ij`. -/
theorem car (i j : Nat) :
    (jwRep K).c i * (jwRep K).c j + (jwRep K).c j * (jwRep K).c i = 0 ∧
    (jwRep K).cd i * (jwRep K).cd j + (jwRep K).cd j * (jwRep K).cd i = 0 ∧
    (jwRep K).c i * (jwRep K).cd j + (jwRep K).cd j * (jwRep K).c i = if i = j then 1 else 0 :=
  ⟨(jwRep K).cc i j, (jwRep K).cdcd i j, (jwRep K).ccd i j⟩

/-- `Operator::actRight(monomial, ket)` computes the action of the operator product. -/
theorem monomial_action (m : Mono) (s : Nat) :
    (jwRep K).mono m (Finsupp.single s 1) =
      (match actMono m s with
       | none => 0
       | some (s', neg) => Finsupp.single s' (if neg then (-1 : K) else 1)) :=
  jw_mono_single K m s

/-- `Operator::actRight(ket)` / `getMatrixElement` return the Jordan-Wigner matrix of the polynomial. -/
theorem polynomial_action [Nontrivial K] (p : Poly K) (bra ket : Nat) :
    listVec (actPoly p ket) = (jwRep K).poly p (Finsupp.single ket 1) ∧
    matrixElement p bra ket = ((jwRep K).poly p (Finsupp.single ket 1)) bra :=
  ⟨actPoly_sem p ket, matrixElement_sem p bra ket⟩

/-- Normal ordering terminates for every monomial and produces only normal-ordered keys. -/
theorem normal_ordering_total (m : Mono) (c : K) (tgt : Poly K) :
    (normalizeInsert m c tgt).isSome ∧
    ∀ t, NormalPoly tgt → normalizeInsert m c tgt = some t → NormalPoly t :=
  ⟨normalizeInsert_isSome m c tgt, fun t ht h => normalizeAux_normal _ m c tgt t ht h⟩

/-- **A\*B**: the matrix of the symbolic product is the product of the matrices (and the product is
always defined). -/
theorem mul_matrix (p q : Poly K) :
    ∃ t, Poly.mul p q = some t ∧ (jwRep K).poly t = (jwRep K).poly p * (jwRep K).poly q := by
  obtain ⟨t, ht⟩ := Option.isSome_iff_exists.mp (mul_isSome p q)
  exact ⟨t, ht, mul_sem (jwRep K) (jw_sq_c K) (jw_sq_cd K) p q t ht⟩

/-- **A+B, A−B, αA, −A, A+α**. -/
theorem add_matrix (p q : Poly K) : (jwRep K).poly (Poly.add p q) = (jwRep K).poly p + (jwRep K).poly q :=
  add_sem _ p q
theorem sub_matrix (p q : Poly K) : (jwRep K).poly (Poly.sub p q) = (jwRep K).poly p - (jwRep K).poly q :=
  sub_sem _ p q
theorem smul_matrix (a : K) (p : Poly K) : (jwRep K).poly (Poly.smul a p) = a • (jwRep K).poly p :=
  smul_sem _ a p
theorem neg_matrix (p : Poly K) : (jwRep K).poly (Poly.neg p) = -(jwRep K).poly p := neg_sem _ p
theorem addConst_matrix (a : K) (p : Poly K) : (jwRep K).poly (Poly.addConst a p) = (jwRep K).poly p + a • 1 :=
  addConst_sem _ a p

/-- **[A,B]** and **{A,B}**. -/
theorem commutator_matrix (p q : Poly K) :
    ∃ t, Poly.commutator p q = some t ∧
      (jwRep K).poly t = (jwRep K).poly p * (jwRep K).poly q - (jwRep K).poly q * (jwRep K).poly p := by
  obtain ⟨t, ht⟩ := Option.isSome_iff_exists.mp (commutator_isSome p q)
  exact ⟨t, ht, commutator_sem (jwRep K) (jw_sq_c K) (jw_sq_cd K) p q t ht⟩
theorem antiCommutator_matrix (p q : Poly K) :
    ∃ t, Poly.antiCommutator p q = some t ∧
      (jwRep K).poly t = (jwRep K).poly p * (jwRep K).poly q + (jwRep K).poly q * (jwRep K).poly p := by
  obtain ⟨t, ht⟩ := Option.isSome_iff_exists.mp (antiCommutator_isSome p q)
  exact ⟨t, ht, antiCommutator_sem (jwRep K) (jw_sq_c K) (jw_sq_cd K) p q t ht⟩

/-- Products are associative (as matrices). -/
theorem mul_assoc_matrix (p q s pq qs l r : Poly K)
    (h1 : Poly.mul p q = some pq) (h2 : Poly.mul pq s = some l)
    (h3 : Poly.mul q s = some qs) (h4 : Poly.mul p qs = some r) : (jwRep K).poly l = (jwRep K).poly r :=
  mul_assoc_sem (jwRep K) (jw_sq_c K) (jw_sq_cd K) p q s pq qs l r h1 h2 h3 h4

/-- **Equality test** as the code performs it (`Gen.Core.eqLengthTest` records whether the source
compares the lengths of the monomials): it never reads out of bounds, decides syntactic equality, and
on canonical polynomials (what the algebra produces from non-cancelling input) agrees with equality
of the Jordan-Wigner matrices. -/
theorem equality_test (p q : Poly K) :
    (∃ b, Poly.eqCoded Pomerol.Gen.Core.eqLengthTest p q = some b) ∧
    (Poly.eqCoded Pomerol.Gen.Core.eqLengthTest p q = some true ↔ p = q) := by
  have hflag : Pomerol.Gen.Core.eqLengthTest = true := by decide
  rw [hflag]
  exact ⟨eqCoded_true_total p q, eqCoded_true_iff p q⟩

theorem equality_test_matrix [Nontrivial K] (p q : Poly K) (hp : Canonical p) (hq : Canonical q) :
    Poly.eqCoded Pomerol.Gen.Core.eqLengthTest p q = some true ↔ (jwRep K).poly p = (jwRep K).poly q := by
  have hflag : Pomerol.Gen.Core.eqLengthTest = true := by decide
  rw [hflag]
  exact eqCoded_iff_sem p q hp hq

/-- **Commutation test**: a positive answer implies that the matrices commute (soundness, all
polynomials); on canonical products it is an equivalence. -/
theorem commutes_sound (p q : Poly K)
    (h : Poly.commutes Pomerol.Gen.Core.eqLengthTest p q = some true) :
    (jwRep K).poly p * (jwRep K).poly q = (jwRep K).poly q * (jwRep K).poly p := by
  have hflag : Pomerol.Gen.Core.eqLengthTest = true := by decide
  rw [hflag] at h
  unfold Poly.commutes at h
  obtain ⟨pq, hpq⟩ := Option.isSome_iff_exists.mp (mul_isSome p q)
  obtain ⟨qp, hqp⟩ := Option.isSome_iff_exists.mp (mul_isSome q p)
  simp only [hpq, hqp, Option.bind_eq_bind, Option.bind_some] at h
  have heq : pq = qp := (eqCoded_true_iff pq qp).mp h
  rw [← mul_sem (jwRep K) (jw_sq_c K) (jw_sq_cd K) p q pq hpq,
      ← mul_sem (jwRep K) (jw_sq_c K) (jw_sq_cd K) q p qp hqp, heq]

/-- The comparison without the length test (the defect that was repaired) is wrong and can read out
of bounds -- regression lemmas. -/
theorem prefix_comparison_was_wrong :
    Poly.eqCoded (K := Int) false [([⟨false, 0⟩], 1)] [([⟨false, 0⟩, ⟨true, 1⟩], 1)] = some true ∧
    Poly.eqCoded (K := Int) false [([⟨false, 0⟩, ⟨true, 1⟩], 1)] [([⟨false, 0⟩], 1)] = none :=
  ⟨eqCoded_false_wrong, eqCoded_false_oob⟩

/-- **Specialised N and S_z** act on every Fock state exactly like their generic polynomial forms. -/
theorem N_operator [Nontrivial K] (M bra ket : Nat) :
    matrixElement (opNTotal (K := K) M) bra ket = if bra = ket then ((popCount ket M : Nat) : K) else 0 :=
  N_shortcut M bra ket
theorem Sz_operator [Nontrivial K] (half : K) (ups downs : List Nat) (h : ups.length = downs.length)
    (bra ket : Nat) :
    matrixElement (opSz half ups downs) bra ket =
      if bra = ket then half * ((szTwice ups downs ket : Int) : K) else 0 :=
  Sz_shortcut half ups downs h bra ket

/-- Non-vacuity: `c₀ c†₀ c₁ c†₁ = 1 − n₀ − n₁ + n₀n₁` evaluated by the kernel through the model. -/
example : normalizeInsert (K := Int) [⟨true,0⟩,⟨false,0⟩,⟨true,1⟩,⟨false,1⟩] 1 [] =
    some [([], 1), ([⟨false,0⟩,⟨true,0⟩], -1), ([⟨false,1⟩,⟨true,1⟩], -1),
          ([⟨false,0⟩,⟨false,1⟩,⟨true,0⟩,⟨true,1⟩], -1)] := by decide

end Pomerol.Properties.C05
