/-
  Property C03: diagonalising the Hamiltonian block by block (one block per invariant subspace /
  set of quantum numbers) and assembling the results gives a correct eigen-decomposition of the
  full Fock-space Hamiltonian, with the full spectrum (multiplicities included).

  Setting: `B` is the finite set of blocks, `m b` the index set of block `b`, the full index set is
  the disjoint union `Σ b, m b`; `Hb b` is the Hamiltonian of block `b`, `U b` the matrix whose
  columns are the eigenvectors the library stores for block `b`, `E b i` the stored eigenvalues.
  `BlockEigen Hb U E` is what the dense eigensolver guarantees PER BLOCK:
  `U b† U b = 1` and `Hb b · U b = U b · diag(E b)`.

  All statements are re-exports of `PomerolModel/Spec/Blocks.lean` (fully proved).
-/
import PomerolModel.Spec.Blocks
import PomerolModel.Spec.HamSpectrumSpec

namespace Pomerol.Properties.C03
open Matrix Polynomial Pomerol.Spec

variable {B : Type} [Fintype B] [DecidableEq B] {m : B → Type} [∀ b, Fintype (m b)]
  [∀ b, DecidableEq (m b)]

/-- If every block's eigenvector matrix is unitary (`U b† U b = 1`), the assembled block-diagonal
eigenvector matrix of the whole Fock space is unitary, from both sides. -/
theorem assembled_unitary (U : ∀ b, Matrix (m b) (m b) ℂ) (hU : ∀ b, (U b)ᴴ * U b = 1) :
    (blockDiagonal' U)ᴴ * blockDiagonal' U = 1 ∧ blockDiagonal' U * (blockDiagonal' U)ᴴ = 1 :=
  block_unitary U hU

/-- The assembled eigenvector matrix diagonalises the assembled Hamiltonian:
`H · U = U · diag(E)`, where `H`, `U` are the block-diagonal matrices built from the blocks and `E`
lists the eigenvalues of all blocks. -/
theorem assembled_diagonalises {Hb : ∀ b, Matrix (m b) (m b) ℂ} {U : ∀ b, Matrix (m b) (m b) ℂ}
    {E : ∀ b, m b → ℝ} (h : BlockEigen (m := m) Hb U E) :
    blockDiagonal' Hb * blockDiagonal' U
      = blockDiagonal' U * diagonal (fun k : Σ b, m b => (E k.1 k.2 : ℂ)) :=
  block_eigen h

/-- Column `k = ⟨b, i⟩` of the assembled matrix is an eigenvector of the full Hamiltonian with
eigenvalue `E b i`: `H v_k = E_k v_k`. -/
theorem eigenvectors {Hb : ∀ b, Matrix (m b) (m b) ℂ} {U : ∀ b, Matrix (m b) (m b) ℂ}
    {E : ∀ b, m b → ℝ} (h : BlockEigen (m := m) Hb U E) (k : Σ b, m b) :
    (blockDiagonal' Hb).mulVec (fun f => blockDiagonal' U f k)
      = (E k.1 k.2 : ℂ) • (fun f => blockDiagonal' U f k) :=
  block_eigenvector h k

/-- The assembled eigenvectors are orthonormal: `⟨v_k, v_l⟩ = δ_kl`, also for `k`, `l` in different
blocks. -/
theorem orthonormal {Hb : ∀ b, Matrix (m b) (m b) ℂ} {U : ∀ b, Matrix (m b) (m b) ℂ}
    {E : ∀ b, m b → ℝ} (h : BlockEigen (m := m) Hb U E) (k l : Σ b, m b) :
    ∑ f, (starRingEnd ℂ) (blockDiagonal' U f k) * blockDiagonal' U f l
      = if k = l then 1 else 0 :=
  block_orthonormal h k l

/-- The union of the block spectra IS the spectrum of the full Hamiltonian, with multiplicities: the
characteristic polynomial of the assembled Hamiltonian is `∏_k (X − E_k)` over all stored
eigenvalues, and its multiset of roots is exactly the multiset of stored eigenvalues (nothing
missing, nothing extra, degenerate levels counted as often as they occur). -/
theorem spectrum_with_multiplicities {Hb : ∀ b, Matrix (m b) (m b) ℂ}
    {U : ∀ b, Matrix (m b) (m b) ℂ} {E : ∀ b, m b → ℝ} (h : BlockEigen (m := m) Hb U E) :
    (blockDiagonal' Hb).charpoly = ∏ k : Σ b, m b, (X - C (E k.1 k.2 : ℂ)) ∧
    (blockDiagonal' Hb).charpoly.roots
      = (Finset.univ : Finset (Σ b, m b)).val.map (fun k => (E k.1 k.2 : ℂ)) :=
  ⟨block_charpoly h, block_spectrum_roots h⟩

/-- The same for the Hamiltonian written in the Fock basis `σ`: if the classification of the Fock
states into blocks is a bijection `e : σ ≃ Σ b, m b` and `H` is block-diagonal w.r.t. it (`H` is the
re-indexed assembled matrix), the characteristic polynomial of `H` is `∏_k (X − E_k)`. -/
theorem fock_spectrum {σ : Type} [Fintype σ] [DecidableEq σ] (e : σ ≃ Σ b, m b)
    (H : Matrix σ σ ℂ)
    {Hb : ∀ b, Matrix (m b) (m b) ℂ} {U : ∀ b, Matrix (m b) (m b) ℂ} {E : ∀ b, m b → ℝ}
    (h : BlockEigen (m := m) Hb U E)
    (hH : H = Matrix.reindex e.symm e.symm (blockDiagonal' Hb)) :
    H.charpoly = ∏ k : Σ b, m b, (X - C (E k.1 k.2 : ℂ)) :=
  fock_charpoly e H h hH

/-- The shortcut the library takes for a block of size one (no call of the eigensolver: eigenvalue
:= the real matrix element, eigenvector := (1)) satisfies the eigen-equation `H·U = U·diag(E)`,
provided the matrix element is real (Hermitian Hamiltonian). -/
theorem one_by_one_block (x : ℂ) (hx : x.im = 0) :
    (Matrix.of fun (_ _ : Unit) => x) * (1 : Matrix Unit Unit ℂ)
      = (1 : Matrix Unit Unit ℂ) * diagonal (fun _ => ((x.re : ℝ) : ℂ)) :=
  one_by_one x hx

/-- A matrix on the full index set is the assembly of its diagonal blocks IF AND ONLY IF all its
matrix elements between different blocks vanish.  (⇒: if `Hfull k l = 0` whenever `k`, `l` lie in
different blocks, `Hfull` equals the block-diagonal matrix of its diagonal blocks; ⇐: a
block-diagonal matrix has no inter-block elements.)  This is the hypothesis under which
block-wise diagonalisation is legitimate; that the classification of the library produces such
blocks is property C04/C05. -/
theorem no_interblock_iff_block_diagonal (Hfull : Matrix (Σ b, m b) (Σ b, m b) ℂ) :
    (∀ k l : Σ b, m b, k.1 ≠ l.1 → Hfull k l = 0) ↔
      Hfull = blockDiagonal' (fun b => Matrix.of fun i j => Hfull ⟨b, i⟩ ⟨b, j⟩) := by
  constructor
  · exact blockDiagonal'_of_no_interblock Hfull
  · intro h k l hkl
    rw [h]
    exact no_interblock_of_blockDiagonal' _ k l hkl

/-- Concrete instance: a real 1×1 block `(3)` is "diagonalised" by the shortcut with eigenvalue 3. -/
example :
    (Matrix.of fun (_ _ : Unit) => (3 : ℂ)) * (1 : Matrix Unit Unit ℂ)
      = (1 : Matrix Unit Unit ℂ) * diagonal (fun _ => (((3 : ℂ).re : ℝ) : ℂ)) :=
  one_by_one_block 3 (by simp)

/-! ### The spectrum bookkeeping of `Hamiltonian` follows the blocks

`Model/HamSpectrum.lean` is an executable model of `Hamiltonian::computeGroundEnergy`
(per-block `Eigenvalues.minCoeff()`, then `LEV.minCoeff()`), `Hamiltonian::getEigenValues` (copy of
the block spectra one after the other) and `Hamiltonian::getEigenValue(state)` (block number and inner
position of the state, then the entry of the eigenvalue vector), with explicit errors where the source
has undefined behaviour (`minCoeff()` of an empty vector, reads past the end after `reduce`) or
throws.  `parts` = the eigenvalue vectors of the blocks in block order; `blkOf`, `blocks` = the tables
of `StatesClassification` (`Model/Symm.lean`). -/

section Bookkeeping
open Pomerol.Model Pomerol.Model.HamSpectrum Pomerol.Spec.HamSpectrumSpec

/-- **The ground energy is the minimum over all blocks.**  With at least one block and no empty
block, `computeGroundEnergy` is defined, its result is an eigenvalue of some block, and it is `≤`
every eigenvalue of every block.  Holds for ANY order of the eigenvalues inside the blocks.  (With no
block, or with an empty block, the source calls `minCoeff()` on an empty vector:
`HamSpectrumSpec.ground_energy_no_blocks`, `ground_energy_empty_block`.) -/
theorem ground_energy_is_minimum_over_blocks (parts : List (List ℝ)) (hne : parts ≠ [])
    (hblk : ∀ ev ∈ parts, ev ≠ []) :
    ∃ g, groundEnergy parts = some g ∧ (∃ ev ∈ parts, g ∈ ev) ∧
      ∀ ev ∈ parts, ∀ e ∈ ev, g ≤ e :=
  ground_energy_is_minimum parts hne hblk

/-- **`getEigenValues` is the union of the block spectra**: the copy loop produces the concatenation
of the eigenvalue vectors in block order, i.e. as a multiset the sum of the block spectra (every
eigenvalue as often as it occurs); and this is the returned vector when the block sizes add up to
the number of states. -/
theorem eigenvalues_are_union_of_blocks (parts : List (List ℝ)) :
    ((allEigenValues parts : List ℝ) : Multiset ℝ)
        = (parts.map fun ev => ((ev : List ℝ) : Multiset ℝ)).sum ∧
    ∀ nstates, (parts.map List.length).sum = nstates →
      getEigenValues nstates parts = .ok parts.flatten :=
  ⟨all_eigenvalues_is_concatenation parts, fun n h => getEigenValues_eq n parts h⟩

/-- **The eigenvalue of a state is looked up in its block at its position.**  If the tables say
"state `s` is in block `b`" and "its inner index is `i`" (`Symm.innerState`, the model of
`getInnerState`), and part `b` has an `i`-th eigenvalue `e`, then `getEigenValue(s) = e`. -/
theorem eigenvalue_lookup_by_state (blkOf : List ℕ) (blocks : List (List ℕ))
    (parts : List (List ℝ)) (state b i : ℕ) (ev : List ℝ) (e : ℝ)
    (hb : blkOf[state]? = some b) (hi : Symm.innerState blkOf blocks state = some i)
    (hp : parts[b]? = some ev) (he : ev[i]? = some e) :
    eigenValueOfState blkOf blocks parts state = .ok e :=
  eigenvalue_lookup blkOf blocks parts state b i ev e hb hi hp he

/-- Conversely the address (block `b`, position `i`) reaches the `i`-th eigenvalue of block `b`: with
tables consistent with the lists of states (C07) and no state listed twice, the state listed at
position `i` of block `b` has inner index `i` and `getEigenValue` returns entry `i` of part `b`. -/
theorem eigenvalue_lookup_by_address (blkOf : List ℕ) (blocks : List (List ℕ))
    (parts : List (List ℝ)) (hcls : ∀ b s, s ∈ blocks.getD b [] → blkOf[s]? = some b)
    (b : Fin blocks.length) (hnd : (blocks.get b).Nodup) (i : ℕ) (hi : i < (blocks.get b).length)
    (ev : List ℝ) (hp : parts[(b : ℕ)]? = some ev) (hlen : i < ev.length) :
    Symm.innerState blkOf blocks ((blocks.get b)[i]) = some i ∧
    eigenValueOfState blkOf blocks parts ((blocks.get b)[i]) = .ok ev[i] :=
  eigenvalue_lookup_address blkOf blocks parts hcls b hnd i hi ev hp hlen

/-- Concrete instance: three blocks with spectra `(2,5)`, `(−1,3)`, `(0)`: the ground energy is `−1`. -/
example : groundEnergy [[(2 : ℝ), 5], [-1, 3], [0]] = some (-1) := by
  norm_num [groundEnergy, computeGroundEnergy, levLoop, getMinimumEigenvalue, minCoeff,
    Except.toOption]

/-- Concrete instance (2 modes, blocks `{00}`, `{01,10}`, `{11}`): the state `10` (bit mask 2) is in
block 1 at position 1, so its eigenvalue is the second entry of the spectrum `(−1, 1)` of block 1. -/
example : eigenValueOfState [0, 1, 1, 2] [[0], [1, 2], [3]] [[(0 : ℝ)], [-1, 1], [2]] 2 = .ok 1 :=
  eigenvalue_lookup_by_state _ _ _ 2 1 1 [-1, 1] 1 rfl (by decide) rfl rfl

/-- The same runs evaluated on exact integers; and the undefined cases: no block, an empty block, a
state outside the table. -/
example : groundEnergy [[(2 : Int), 5], [-1, 3], [0]] = some (-1) ∧
    groundEnergy ([] : List (List Int)) = none ∧
    groundEnergy [[(2 : Int), 5], []] = none ∧
    getEigenValues 4 [[(0 : Int)], [-1, 1], [2]] = .ok [0, -1, 1, 2] ∧
    getEigenValues 4 [[(0 : Int)], [-1], [2]] = .error .uninitialised ∧
    eigenValueOfState [0, 1, 1, 2] [[0], [1, 2], [3]] [[(0 : Int)], [-1, 1], [2]] 2 = .ok 1 ∧
    eigenValueOfState [0, 1, 1, 2] [[0], [1, 2], [3]] [[(0 : Int)], [-1], [2]] 2
      = .error .outOfRange ∧
    eigenValueOfState [0, 1, 1, 2] [[0], [1, 2], [3]] [[(0 : Int)], [-1, 1], [2]] 7
      = .error .wrongState := by
  decide

end Bookkeeping

end Pomerol.Properties.C03
