/-
  Property C13: the container of two-particle Green's functions hands out, for EVERY quadruple of
  indices and after EVERY history of requests, an entry that evaluates to chi of that quadruple --
  whether the entry is the stored element or one of its three aliases (exchange of the first pair,
  of the last pair, of both) -- and after a bulk preparation followed by a bulk computation every
  listed entry is evaluable.

  Model: `Model/Container4.lean` (state machine of `IndexContainer4` / `TwoParticleGFContainer`).
  The table of permutations, the entries used by the aliases, the fourth-frequency arithmetic and
  the flag "fill clears NonTrivialElements" are extracted from the C++ source
  (`Generated/Chi4Formulas.lean`, `Generated/CoreFlags.lean`); they are used here only through
  `decide`/`rfl`/`simp [name]`, so that these proofs break when the source changes.
-/
import PomerolModel.Model.Container4
import PomerolModel.Spec.Chi4
import PomerolModel.Spec.Chi4Exchange

namespace Pomerol.Properties.C13
open Pomerol.Model.C4

/-- an abstract family of two-particle functions with the two exchange symmetries, values in an
additive group -/
structure ChiFamily (V : Type) [AddCommGroup V] where
  chi : Quad → Int → Int → Int → V
  sym12 : ∀ i j k l n1 n2 n3, chi (j, i, k, l) n2 n1 n3 = - chi (i, j, k, l) n1 n2 n3
  sym34 : ∀ i j k l n1 n2 n3, chi (i, j, l, k) n1 n2 (n1 + n2 - n3) = - chi (i, j, k, l) n1 n2 n3

/-- value returned when the map entry (element created for `q0`, table entry `p`) is evaluated at
(n1,n2,n3): `sign • chi q0 (permuted numbers)`; `none` if the table entry is malformed -/
def entryValue {V} [AddCommGroup V] (F : ChiFamily V) (q0 : Quad) (p : Nat) (n1 n2 n3 : Int) :
    Option V :=
  (aliasArgs p n1 n2 n3).map fun (args, sign) => sign • F.chi q0 args.1 args.2.1 args.2.2

/-! ### the extracted table -/

/-- the table entries and the fourth-frequency arithmetic used by the aliases, as extracted from the
source -/
theorem alias_table_entries :
    Pomerol.Gen.Core.aliasPerms = [0, 6, 1, 7] ∧
    (∀ n1 n2 n3, Pomerol.Gen.Core.fourthNumber n1 n2 n3 = n1 + n2 - n3) ∧
    Pomerol.Gen.Chi4.permutations4[0]? = some ([0,1,2,3], 1) ∧
    Pomerol.Gen.Chi4.permutations4[1]? = some ([0,1,3,2], -1) ∧
    Pomerol.Gen.Chi4.permutations4[6]? = some ([1,0,2,3], -1) ∧
    Pomerol.Gen.Chi4.permutations4[7]? = some ([1,0,3,2], 1) := by
  refine ⟨by decide, fun _ _ _ => rfl, by decide, by decide, by decide, by decide⟩

theorem ap0 : Pomerol.Gen.Core.aliasPerms.getD 0 0 = 0 := by decide
theorem ap1 : Pomerol.Gen.Core.aliasPerms.getD 1 0 = 6 := by decide
theorem ap2 : Pomerol.Gen.Core.aliasPerms.getD 2 0 = 1 := by decide
theorem ap3 : Pomerol.Gen.Core.aliasPerms.getD 3 0 = 7 := by decide
theorem ap1' : Pomerol.Gen.Core.aliasPerms.getD 1 6 = 6 := by decide
theorem ap2' : Pomerol.Gen.Core.aliasPerms.getD 2 1 = 1 := by decide
theorem ap3' : Pomerol.Gen.Core.aliasPerms.getD 3 7 = 7 := by decide

theorem aliasArgs_0 (n1 n2 n3 : Int) : aliasArgs 0 n1 n2 n3 = some ((n1, n2, n3), 1) := by
  have h := alias_table_entries.2.2.1
  simp [aliasArgs, h]

theorem aliasArgs_1 (n1 n2 n3 : Int) :
    aliasArgs 1 n1 n2 n3 = some ((n1, n2, n1 + n2 - n3), -1) := by
  have h := alias_table_entries.2.2.2.1
  simp [aliasArgs, h, Pomerol.Gen.Core.fourthNumber]

theorem aliasArgs_6 (n1 n2 n3 : Int) : aliasArgs 6 n1 n2 n3 = some ((n2, n1, n3), -1) := by
  have h := alias_table_entries.2.2.2.2.1
  simp [aliasArgs, h]

theorem aliasArgs_7 (n1 n2 n3 : Int) :
    aliasArgs 7 n1 n2 n3 = some ((n2, n1, n1 + n2 - n3), 1) := by
  have h := alias_table_entries.2.2.2.2.2
  simp [aliasArgs, h, Pomerol.Gen.Core.fourthNumber]

/-- the four kinds of entries `set` creates evaluate to chi of the KEY quadruple -/
theorem alias_value {V} [AddCommGroup V] (F : ChiFamily V) (i j k l : Nat) (n1 n2 n3 : Int) :
    entryValue F (i,j,k,l) (Pomerol.Gen.Core.aliasPerms.getD 0 0) n1 n2 n3
      = some (F.chi (i,j,k,l) n1 n2 n3) ∧
    entryValue F (i,j,k,l) (Pomerol.Gen.Core.aliasPerms.getD 1 0) n1 n2 n3
      = some (F.chi (j,i,k,l) n1 n2 n3) ∧
    entryValue F (i,j,k,l) (Pomerol.Gen.Core.aliasPerms.getD 2 0) n1 n2 n3
      = some (F.chi (i,j,l,k) n1 n2 n3) ∧
    entryValue F (i,j,k,l) (Pomerol.Gen.Core.aliasPerms.getD 3 0) n1 n2 n3
      = some (F.chi (j,i,l,k) n1 n2 n3) := by
  rw [ap0, ap1, ap2, ap3]
  refine ⟨?_, ?_, ?_, ?_⟩
  · simp [entryValue, aliasArgs_0]
  · simp only [entryValue, aliasArgs_6, Option.map_some]
    rw [F.sym12 j i k l n1 n2 n3, neg_one_zsmul, neg_neg]
  · simp only [entryValue, aliasArgs_1, Option.map_some]
    rw [F.sym34 i j l k n1 n2 n3, neg_one_zsmul, neg_neg]
  · simp only [entryValue, aliasArgs_7, Option.map_some]
    rw [F.sym12 j i k l n1 n2 (n1 + n2 - n3), F.sym34 j i l k n1 n2 n3, one_zsmul, neg_neg]

/-! ### the two maps -/

theorem mem_ins {β : Type} (k : Quad) (v : β) (m : List (Quad × β)) (x : Quad × β) :
    x ∈ insertNoOverwrite k v m → x ∈ m ∨ x = (k, v) := by
  induction m with
  | nil => intro h; simpa [insertNoOverwrite] using h
  | cons a rest ih =>
    obtain ⟨k', v'⟩ := a
    unfold insertNoOverwrite
    split
    · intro h; exact Or.inl h
    · split
      · intro h
        rcases List.mem_cons.1 h with h | h
        · exact Or.inr h
        · exact Or.inl h
      · intro h
        rcases List.mem_cons.1 h with h | h
        · exact Or.inl (h ▸ List.mem_cons_self)
        · rcases ih h with h | h
          · exact Or.inl (List.mem_cons_of_mem _ h)
          · exact Or.inr h

theorem mem_ins_of_mem {β : Type} (k : Quad) (v : β) (m : List (Quad × β)) (x : Quad × β) :
    x ∈ m → x ∈ insertNoOverwrite k v m := by
  induction m with
  | nil => intro h; cases h
  | cons a rest ih =>
    obtain ⟨k', v'⟩ := a
    unfold insertNoOverwrite
    split
    · exact id
    · split
      · intro h; exact List.mem_cons_of_mem _ h
      · intro h
        rcases List.mem_cons.1 h with h | h
        · exact h ▸ List.mem_cons_self
        · exact List.mem_cons_of_mem _ (ih h)

theorem mem_ins_self {β : Type} (k : Quad) (v : β) (m : List (Quad × β))
    (hk : ∀ x ∈ m, x.1 ≠ k) : (k, v) ∈ insertNoOverwrite k v m := by
  induction m with
  | nil => simp [insertNoOverwrite]
  | cons a rest ih =>
    obtain ⟨k', v'⟩ := a
    unfold insertNoOverwrite
    split
    · next h => exact absurd h.symm (hk (k', v') List.mem_cons_self)
    · split
      · exact List.mem_cons_self
      · exact List.mem_cons_of_mem _ (ih fun x hx => hk x (List.mem_cons_of_mem _ hx))

theorem lookupMap_some {β : Type} (m : List (Quad × β)) (k : Quad) (v : β)
    (h : lookupMap m k = some v) : (k, v) ∈ m := by
  unfold lookupMap at h
  cases hf : m.find? (·.1 = k) with
  | none => rw [hf] at h; cases h
  | some a =>
    rw [hf] at h
    have h1 := List.find?_some hf
    have h2 := List.mem_of_find?_eq_some hf
    simp only [Option.map_some, Option.some.injEq] at h
    have h3 : a.1 = k := by simpa using h1
    obtain ⟨a1, a2⟩ := a
    simp only at h h3
    subst h; subst h3; exact h2

theorem lookupMap_none {β : Type} (m : List (Quad × β)) (k : Quad)
    (h : (lookupMap m k).isSome = false) : ∀ x ∈ m, x.1 ≠ k := by
  unfold lookupMap at h
  cases hf : m.find? (·.1 = k) with
  | some a => rw [hf] at h; simp at h
  | none =>
    intro x hx
    have := List.find?_eq_none.1 hf x hx
    simpa using this

/-! ### `set` -/

def addAlias (id : Nat) (st : State) (q' : Quad) (perm : Nat) : State :=
  if (lookupMap st.emap q').isSome then st
  else { st with emap := insertNoOverwrite q' (id, perm) st.emap }

def addAliasIf (c : Bool) (id : Nat) (st : State) (q' : Quad) (perm : Nat) : State :=
  if c then addAlias id st q' perm else st

theorem set_eq (s : State) (i j k l : Nat) :
    set s (i,j,k,l) =
      (addAliasIf (!(i == j) && !(k == l)) s.elems.length
        (addAliasIf (!(k == l)) s.elems.length
          (addAliasIf (!(i == j)) s.elems.length
            { elems := s.elems ++ [{ quad := (i,j,k,l) }],
              emap := insertNoOverwrite (i,j,k,l) (s.elems.length, 0) s.emap,
              nontriv := insertNoOverwrite (i,j,k,l) s.elems.length s.nontriv }
            (j,i,k,l) 6) (i,j,l,k) 1) (j,i,l,k) 7, s.elems.length) := by
  rw [← ap0, ← ap1', ← ap2', ← ap3']
  rfl

theorem addAliasIf_elems (c id st q' p) : (addAliasIf c id st q' p).elems = st.elems := by
  unfold addAliasIf addAlias; split <;> [split; skip] <;> rfl

theorem addAliasIf_nontriv (c id st q' p) : (addAliasIf c id st q' p).nontriv = st.nontriv := by
  unfold addAliasIf addAlias; split <;> [split; skip] <;> rfl

theorem addAliasIf_mem (c id st q' p x) :
    x ∈ (addAliasIf c id st q' p).emap → x ∈ st.emap ∨ x = (q', id, p) := by
  unfold addAliasIf addAlias
  split
  · split
    · exact Or.inl
    · exact mem_ins _ _ _ _
  · exact Or.inl

theorem addAliasIf_mono (c id st q' p x) :
    x ∈ st.emap → x ∈ (addAliasIf c id st q' p).emap := by
  unfold addAliasIf addAlias
  split
  · split
    · exact fun h => h
    · exact mem_ins_of_mem _ _ _ _
  · exact fun h => h

theorem set_id (s : State) (q : Quad) : (set s q).2 = s.elems.length := by
  obtain ⟨i, j, k, l⟩ := q; rw [set_eq]

theorem set_elems (s : State) (q : Quad) : (set s q).1.elems = s.elems ++ [{ quad := q }] := by
  obtain ⟨i, j, k, l⟩ := q
  rw [set_eq]; simp only [addAliasIf_elems]

theorem set_nontriv (s : State) (q : Quad) :
    (set s q).1.nontriv = insertNoOverwrite q s.elems.length s.nontriv := by
  obtain ⟨i, j, k, l⟩ := q
  rw [set_eq]; simp only [addAliasIf_nontriv]

theorem set_mem (s : State) (i j k l : Nat) (x : Quad × Nat × Nat) :
    x ∈ (set s (i,j,k,l)).1.emap → x ∈ s.emap ∨ x = ((i,j,k,l), s.elems.length, 0) ∨
      x = ((j,i,k,l), s.elems.length, 6) ∨ x = ((i,j,l,k), s.elems.length, 1) ∨
      x = ((j,i,l,k), s.elems.length, 7) := by
  rw [set_eq]
  intro h
  rcases addAliasIf_mem _ _ _ _ _ _ h with h | h
  · rcases addAliasIf_mem _ _ _ _ _ _ h with h | h
    · rcases addAliasIf_mem _ _ _ _ _ _ h with h | h
      · rcases mem_ins _ _ _ _ h with h | h
        · exact Or.inl h
        · exact Or.inr (Or.inl h)
      · exact Or.inr (Or.inr (Or.inl h))
    · exact Or.inr (Or.inr (Or.inr (Or.inl h)))
  · exact Or.inr (Or.inr (Or.inr (Or.inr h)))

theorem set_mono (s : State) (q : Quad) (x : Quad × Nat × Nat) :
    x ∈ s.emap → x ∈ (set s q).1.emap := by
  obtain ⟨i, j, k, l⟩ := q
  rw [set_eq]
  intro h
  exact addAliasIf_mono _ _ _ _ _ _ (addAliasIf_mono _ _ _ _ _ _ (addAliasIf_mono _ _ _ _ _ _
    (mem_ins_of_mem _ _ _ _ h)))

theorem set_mem_self (s : State) (q : Quad) (hq : ∀ x ∈ s.emap, x.1 ≠ q) :
    (q, s.elems.length, 0) ∈ (set s q).1.emap := by
  obtain ⟨i, j, k, l⟩ := q
  rw [set_eq]
  exact addAliasIf_mono _ _ _ _ _ _ (addAliasIf_mono _ _ _ _ _ _ (addAliasIf_mono _ _ _ _ _ _
    (mem_ins_self _ _ _ hq)))

/-! ### monotone evolution of the element list -/

/-- `s'` has the same maps as `s`, and every element of `s` is still there, for the same quadruple,
with at least the same status -/
def Step (s s' : State) : Prop :=
  s'.emap = s.emap ∧ s'.nontriv = s.nontriv ∧
  ∀ (id : Nat) (e : Elem), s.elems[id]? = some e → ∃ e' : Elem, s'.elems[id]? = some e' ∧ e'.quad = e.quad ∧
    (e.prepared = true → e'.prepared = true) ∧ (e.computed = true → e'.computed = true)

theorem Step.refl (s : State) : Step s s :=
  ⟨rfl, rfl, fun _ e h => ⟨e, h, rfl, fun h => h, fun h => h⟩⟩

theorem Step.trans {s t u : State} (h1 : Step s t) (h2 : Step t u) : Step s u := by
  refine ⟨h2.1.trans h1.1, h2.2.1.trans h1.2.1, fun id e he => ?_⟩
  obtain ⟨e', he', hq, hp, hc⟩ := h1.2.2 id e he
  obtain ⟨e'', he'', hq', hp', hc'⟩ := h2.2.2 id e' he'
  exact ⟨e'', he'', hq'.trans hq, fun h => hp' (hp h), fun h => hc' (hc h)⟩

theorem step_modify (s : State) (i : Nat) (f : Elem → Elem)
    (hf : ∀ e, (f e).quad = e.quad ∧ (e.prepared = true → (f e).prepared = true) ∧
      (e.computed = true → (f e).computed = true)) :
    Step s { s with elems := s.elems.modify i f } := by
  refine ⟨rfl, rfl, fun id e he => ?_⟩
  simp only [List.getElem?_modify, he, Option.map_eq_map, Option.map_some]
  by_cases h : i = id
  · exact ⟨f e, by simp [h], hf e⟩
  · exact ⟨e, by simp [h], rfl, fun h => h, fun h => h⟩

theorem modify_at (s : State) (i : Nat) (f : Elem → Elem) (e : Elem) (he : s.elems[i]? = some e) :
    ({ s with elems := s.elems.modify i f } : State).elems[i]? = some (f e) := by
  simp [he]

theorem markPrepared_step (s : State) (id : Nat) : Step s (markPrepared s id) :=
  step_modify s id _ fun _ => ⟨rfl, fun _ => rfl, fun h => h⟩

theorem markPrepared_at (s : State) (id : Nat) (e : Elem) (he : s.elems[id]? = some e) :
    ∃ e', (markPrepared s id).elems[id]? = some e' ∧ e'.prepared = true :=
  ⟨_, modify_at s id _ e he, rfl⟩

def markComputed (s : State) (id : Nat) : State :=
  { s with elems := s.elems.modify id fun e => { e with computed := true } }

theorem computeElem_of_prepared (s : State) (id : Nat) (e : Elem) (he : s.elems[id]? = some e)
    (hp : e.prepared = true) : computeElem s id = some (markComputed s id) := by
  unfold computeElem markComputed
  rw [he]
  simp [hp]

theorem computeElem_step (s s' : State) (id : Nat) (h : computeElem s id = some s') :
    Step s s' := by
  unfold computeElem at h
  split at h
  · split at h
    · cases h
      exact step_modify s id _ fun _ => ⟨rfl, fun h => h, fun _ => rfl⟩
    · cases h
  · cases h

theorem computeList_step : ∀ (ids : List Nat) (s : State), Step s (computeList ids s).1
  | [], s => Step.refl s
  | id :: rest, s => by
    unfold computeList
    split
    · next s' h => exact (computeElem_step s s' id h).trans (computeList_step rest s')
    · exact Step.refl s

theorem evaluable_iff (s : State) (id : Nat) :
    evaluable s id = true ↔ ∃ e, s.elems[id]? = some e ∧ e.computed = true := by
  unfold evaluable
  cases s.elems[id]? <;> simp

/-- walking a list of prepared elements succeeds and computes all of them -/
theorem computeList_ok : ∀ (ids : List Nat) (s : State),
    (∀ id ∈ ids, ∃ e, s.elems[id]? = some e ∧ e.prepared = true) →
    (computeList ids s).2 = true ∧ ∀ id ∈ ids, evaluable (computeList ids s).1 id = true
  | [], s, _ => ⟨rfl, fun _ h => by cases h⟩
  | id :: rest, s, h => by
    obtain ⟨e, he, hp⟩ := h id List.mem_cons_self
    have hc := computeElem_of_prepared s id e he hp
    have hst := computeElem_step s _ id hc
    have hrest : ∀ id' ∈ rest, ∃ e', (markComputed s id).elems[id']? = some e' ∧
        e'.prepared = true := by
      intro id' hid'
      obtain ⟨e1, he1, hp1⟩ := h id' (List.mem_cons_of_mem _ hid')
      obtain ⟨e2, he2, _, hp2, _⟩ := hst.2.2 id' e1 he1
      exact ⟨e2, he2, hp2 hp1⟩
    have ih := computeList_ok rest _ hrest
    have hst' := computeList_step rest (markComputed s id)
    have hunf : computeList (id :: rest) s = computeList rest (markComputed s id) := by
      rw [computeList, hc]
    rw [hunf]
    refine ⟨ih.1, fun id' hid' => ?_⟩
    rcases List.mem_cons.1 hid' with h' | h'
    · subst h'
      obtain ⟨e2, he2, _, _, hc2⟩ := hst'.2.2 id' _ (modify_at s id' _ e he)
      exact (evaluable_iff _ _).2 ⟨e2, he2, hc2 rfl⟩
    · exact ih.2 id' h'

theorem foldl_inv {α σ : Type} (P : σ → Prop) (f : σ → α → σ) (h : ∀ s a, P s → P (f s a)) :
    ∀ (l : List α) (s : σ), P s → P (l.foldl f s)
  | [], _, hs => hs
  | a :: l, s, hs => foldl_inv P f h l (f s a) (h s a hs)

theorem prepareAll_eq (clears : Bool) (n : Nat) (s : State) (qs : List Quad) :
    prepareAll clears n s qs =
      (fill clears n s qs).emap.foldl (fun st x => markPrepared st x.2.1) (fill clears n s qs) :=
  rfl

theorem foldl_markPrepared : ∀ (L : List (Quad × Nat × Nat)) (s : State),
    Step s (L.foldl (fun st x => markPrepared st x.2.1) s) ∧
    ∀ x ∈ L, (∃ e, s.elems[x.2.1]? = some e) →
      ∃ e', (L.foldl (fun st x => markPrepared st x.2.1) s).elems[x.2.1]? = some e' ∧
        e'.prepared = true
  | [], s => ⟨Step.refl s, fun _ h => by cases h⟩
  | a :: L, s => by
    have ih := foldl_markPrepared L (markPrepared s a.2.1)
    have h0 := markPrepared_step s a.2.1
    simp only [List.foldl_cons]
    refine ⟨h0.trans ih.1, fun x hx hv => ?_⟩
    rcases List.mem_cons.1 hx with h | h
    · subst h
      obtain ⟨e, he⟩ := hv
      obtain ⟨e1, he1, hp1⟩ := markPrepared_at s x.2.1 e he
      obtain ⟨e2, he2, _, hp2, _⟩ := ih.1.2.2 _ e1 he1
      exact ⟨e2, he2, hp2 hp1⟩
    · obtain ⟨e, he⟩ := hv
      obtain ⟨e1, he1, _⟩ := h0.2.2 _ e he
      exact ih.2 x h ⟨e1, he1⟩

theorem getElem?_append_some {α : Type} (l l' : List α) (i : Nat) (a : α) (h : l[i]? = some a) :
    (l ++ l')[i]? = some a := by
  obtain ⟨hlt, _⟩ := List.getElem?_eq_some_iff.1 h
  rw [List.getElem?_append_left hlt, h]

/-! ### request histories -/

/-- request histories -/
inductive Op where
  | fill (qs : List Quad) | prepareAll (qs : List Quad) | computeAll (split : Bool)
  | lookup (q : Quad) | prepare (q : Quad) | compute (q : Quad)

def step (clears : Bool) (n : Nat) (s : State) : Op → State
  | .fill qs => fill clears n s qs
  | .prepareAll qs => prepareAll clears n s qs
  | .computeAll split => (computeAll split s).1
  | .lookup q => (lookup s q).1
  | .prepare q => let r := lookup s q; markPrepared r.1 r.2.1
  | .compute q => let r := lookup s q; (computeElem r.1 r.2.1).getD r.1

def run (clears : Bool) (n : Nat) (s : State) (ops : List Op) : State :=
  ops.foldl (step clears n) s

/-! ### the value invariant -/

/-- the entry `p` of an element created for `q0` evaluates to chi of `q` -/
def Good {V} [AddCommGroup V] (F : ChiFamily V) (q0 q : Quad) (p : Nat) : Prop :=
  ∀ n1 n2 n3 : Int, entryValue F q0 p n1 n2 n3 = some (F.chi q n1 n2 n3)

/-- every entry of `ElementsMap` points to an existing element and evaluates to chi of its key -/
def WF {V} [AddCommGroup V] (F : ChiFamily V) (s : State) : Prop :=
  ∀ x ∈ s.emap, ∃ e : Elem, s.elems[x.2.1]? = some e ∧ Good F e.quad x.1 x.2.2

theorem WF_step {V} [AddCommGroup V] (F : ChiFamily V) {s s' : State} (h : Step s s')
    (hw : WF F s) : WF F s' := by
  intro x hx
  rw [h.1] at hx
  obtain ⟨e, he, hg⟩ := hw x hx
  obtain ⟨e', he', hq, _, _⟩ := h.2.2 _ e he
  exact ⟨e', he', hq ▸ hg⟩

theorem WF_set {V} [AddCommGroup V] (F : ChiFamily V) (s : State) (q : Quad) (hw : WF F s) :
    WF F (set s q).1 := by
  obtain ⟨i, j, k, l⟩ := q
  intro x hx
  rw [set_elems]
  have hnew : (s.elems ++ [({ quad := (i,j,k,l) } : Elem)])[s.elems.length]? =
      some { quad := (i,j,k,l) } := List.getElem?_concat_length
  rcases set_mem s i j k l x hx with h | h | h | h | h
  · obtain ⟨e, he, hg⟩ := hw x h
    exact ⟨e, getElem?_append_some _ _ _ _ he, hg⟩
  · subst h
    exact ⟨_, hnew, fun n1 n2 n3 => ap0 ▸ (alias_value F i j k l n1 n2 n3).1⟩
  · subst h
    exact ⟨_, hnew, fun n1 n2 n3 => ap1 ▸ (alias_value F i j k l n1 n2 n3).2.1⟩
  · subst h
    exact ⟨_, hnew, fun n1 n2 n3 => ap2 ▸ (alias_value F i j k l n1 n2 n3).2.2.1⟩
  · subst h
    exact ⟨_, hnew, fun n1 n2 n3 => ap3 ▸ (alias_value F i j k l n1 n2 n3).2.2.2⟩

theorem WF_fill {V} [AddCommGroup V] (F : ChiFamily V) (clears : Bool) (n : Nat) (s : State)
    (qs : List Quad) : WF F (fill clears n s qs) := by
  unfold fill
  apply foldl_inv (WF F)
  · intro st q hst
    split
    · exact hst
    · exact WF_set F st q hst
  · intro x hx
    cases hx

theorem WF_prepareAll {V} [AddCommGroup V] (F : ChiFamily V) (clears : Bool) (n : Nat)
    (s : State) (qs : List Quad) : WF F (prepareAll clears n s qs) := by
  rw [prepareAll_eq]
  exact WF_step F (foldl_markPrepared _ _).1 (WF_fill F clears n s qs)

theorem computeAll_step (split : Bool) (s : State) : Step s (computeAll split s).1 := by
  unfold computeAll
  split <;> exact computeList_step _ _

theorem lookup_eq (s : State) (q : Quad) :
    lookup s q = match lookupMap s.emap q with
      | some (id, perm) => (s, id, perm)
      | none => ((set s q).1, (set s q).2, 0) := by
  unfold lookup
  cases lookupMap s.emap q with
  | none => rfl
  | some v => rfl

theorem WF_lookup {V} [AddCommGroup V] (F : ChiFamily V) (s : State) (q : Quad) (hw : WF F s) :
    WF F (lookup s q).1 := by
  rw [lookup_eq]
  split
  · exact hw
  · exact WF_set F s q hw

theorem WF_run {V} [AddCommGroup V] (F : ChiFamily V) (clears : Bool) (n : Nat) (s : State)
    (ops : List Op) (hw : WF F s) : WF F (run clears n s ops) := by
  unfold run
  refine foldl_inv (WF F) _ ?_ ops s hw
  intro st op hst
  cases op with
  | fill qs => exact WF_fill F clears n st qs
  | prepareAll qs => exact WF_prepareAll F clears n st qs
  | computeAll split => exact WF_step F (computeAll_step split st) hst
  | lookup q => exact WF_lookup F st q hst
  | prepare q => exact WF_step F (markPrepared_step _ _) (WF_lookup F st q hst)
  | compute q =>
    show WF F ((computeElem (lookup st q).1 (lookup st q).2.1).getD (lookup st q).1)
    cases hc : computeElem (lookup st q).1 (lookup st q).2.1 with
    | none => exact WF_lookup F st q hst
    | some s' => exact WF_step F (computeElem_step _ _ _ hc) (WF_lookup F st q hst)

/-- MAIN THEOREM: whatever was filled, requested, prepared or computed before, in whatever order and
however often, and whether the entry is the stored element or an alias, looking up a quadruple
yields an entry that evaluates to chi of THAT quadruple (the element's status only decides whether
the C++ code evaluates or throws) -/
theorem lookup_value_any_history {V} [AddCommGroup V] (F : ChiFamily V) (clears : Bool) (n : Nat)
    (ops : List Op) (q : Quad) (n1 n2 n3 : Int) :
    let r := lookup (run clears n {} ops) q
    ∃ e, r.1.elems[r.2.1]? = some e ∧
      entryValue F e.quad r.2.2 n1 n2 n3 = some (F.chi q n1 n2 n3) := by
  have hw : WF F (run clears n {} ops) := WF_run F clears n {} ops (fun x hx => by cases hx)
  show ∃ e, (lookup (run clears n {} ops) q).1.elems[(lookup (run clears n {} ops) q).2.1]? = some e ∧
    entryValue F e.quad (lookup (run clears n {} ops) q).2.2 n1 n2 n3 = some (F.chi q n1 n2 n3)
  generalize run clears n {} ops = S at hw ⊢
  rw [lookup_eq]
  cases hl : lookupMap S.emap q with
  | some v =>
    obtain ⟨id, perm⟩ := v
    obtain ⟨e, he, hg⟩ := hw _ (lookupMap_some _ _ _ hl)
    exact ⟨e, he, hg n1 n2 n3⟩
  | none =>
    obtain ⟨i, j, k, l⟩ := q
    refine ⟨{ quad := (i,j,k,l) }, ?_, ?_⟩
    · simp only [set_elems, set_id]
      exact List.getElem?_concat_length
    · exact ap0 ▸ (alias_value F i j k l n1 n2 n3).1

/-! ### bulk preparation and computation -/

/-- invariant of the loop of `fill` when both maps have been cleared: every registered element
exists, the elements of `ElementsMap` and of `NonTrivialElements` are the same, and every key of
`NonTrivialElements` is a key of `ElementsMap` for the same element -/
def FI (s : State) : Prop :=
  (∀ x ∈ s.emap, ∃ e : Elem, s.elems[x.2.1]? = some e) ∧
  (∀ x ∈ s.emap, ∃ y ∈ s.nontriv, y.2 = x.2.1) ∧
  (∀ y ∈ s.nontriv, ∃ x ∈ s.emap, x.1 = y.1 ∧ x.2.1 = y.2)

theorem FI_set (s : State) (q : Quad) (hq : (lookupMap s.emap q).isSome = false) (h : FI s) :
    FI (set s q).1 := by
  obtain ⟨h1, h2, h3⟩ := h
  have hkey := lookupMap_none _ _ hq
  have hkey' : ∀ y ∈ s.nontriv, y.1 ≠ q := by
    intro y hy
    obtain ⟨x, hx, hxy, _⟩ := h3 y hy
    exact hxy ▸ hkey x hx
  have hself : (q, s.elems.length) ∈ (set s q).1.nontriv := by
    rw [set_nontriv]; exact mem_ins_self _ _ _ hkey'
  have hnew : ((set s q).1.elems)[s.elems.length]? = some { quad := q } := by
    rw [set_elems]; exact List.getElem?_concat_length
  obtain ⟨i, j, k, l⟩ := q
  refine ⟨?_, ?_, ?_⟩
  · intro x hx
    rcases set_mem s i j k l x hx with h | h | h | h | h
    · obtain ⟨e, he⟩ := h1 x h
      exact ⟨e, by rw [set_elems]; exact getElem?_append_some _ _ _ _ he⟩
    all_goals (subst h; exact ⟨_, hnew⟩)
  · intro x hx
    rcases set_mem s i j k l x hx with h | h | h | h | h
    · obtain ⟨y, hy, hyx⟩ := h2 x h
      exact ⟨y, by rw [set_nontriv]; exact mem_ins_of_mem _ _ _ _ hy, hyx⟩
    all_goals (subst h; exact ⟨_, hself, rfl⟩)
  · intro y hy
    rw [set_nontriv] at hy
    rcases mem_ins _ _ _ _ hy with h | h
    · obtain ⟨x, hx, hxy⟩ := h3 y h
      exact ⟨x, set_mono _ _ _ hx, hxy⟩
    · subst h
      exact ⟨_, set_mem_self s (i,j,k,l) hkey, rfl, rfl⟩

theorem FI_fill (n : Nat) (s : State) (qs : List Quad) : FI (fill true n s qs) := by
  unfold fill
  apply foldl_inv FI
  · intro st q hst
    split
    · exact hst
    · next hq => exact FI_set st q (by simpa using hq) hst
  · refine ⟨fun x hx => ?_, fun x hx => ?_, fun y hy => ?_⟩
    · cases hx
    · cases hx
    · simp at hy

/-- after `prepareAll` (clearing variant) every element registered in either map is prepared, and
the two maps register the same elements -/
theorem prepareAll_prepared (n : Nat) (s : State) (qs : List Quad) :
    (∀ x ∈ (prepareAll true n s qs).emap, ∃ e : Elem,
      (prepareAll true n s qs).elems[x.2.1]? = some e ∧ e.prepared = true) ∧
    (∀ x ∈ (prepareAll true n s qs).emap, ∃ y ∈ (prepareAll true n s qs).nontriv, y.2 = x.2.1) ∧
    (∀ y ∈ (prepareAll true n s qs).nontriv, ∃ x ∈ (prepareAll true n s qs).emap, x.2.1 = y.2) := by
  rw [prepareAll_eq]
  obtain ⟨h1, h2, h3⟩ := FI_fill n s qs
  obtain ⟨hst, hp⟩ := foldl_markPrepared (fill true n s qs).emap (fill true n s qs)
  rw [hst.1, hst.2.1]
  refine ⟨fun x hx => hp x hx (h1 x hx), h2, fun y hy => ?_⟩
  obtain ⟨x, hx, _, hxy⟩ := h3 y hy
  exact ⟨x, hx, hxy⟩

/-- after a bulk preparation followed by a bulk computation (split or not) EVERY listed entry is
evaluable, for any earlier history -- with `fill` clearing both maps, as the source now does -/
theorem listed_elements_evaluable_after_bulk (n : Nat) (ops : List Op) (qs : List Quad)
    (split : Bool) :
    let s1 := prepareAll Pomerol.Gen.Core.fillClearsNonTrivial n
      (run Pomerol.Gen.Core.fillClearsNonTrivial n {} ops) qs
    (computeAll split s1).2 = true ∧
      ∀ x ∈ (computeAll split s1).1.emap, evaluable (computeAll split s1).1 x.2.1 = true := by
  have hflag : Pomerol.Gen.Core.fillClearsNonTrivial = true := by decide
  rw [hflag]
  intro s1
  obtain ⟨hp, h2, h3⟩ := prepareAll_prepared n (run true n {} ops) qs
  have hemap : (computeAll split s1).1.emap = s1.emap := (computeAll_step split s1).1
  rw [hemap]
  cases split with
  | false =>
    have hok := computeList_ok (s1.emap.map (·.2.1)) s1 (by
      intro id hid
      obtain ⟨x, hx, rfl⟩ := List.mem_map.1 hid
      exact hp x hx)
    refine ⟨hok.1, fun x hx => hok.2 _ (List.mem_map.2 ⟨x, hx, rfl⟩)⟩
  | true =>
    have hok := computeList_ok (s1.nontriv.map (·.2)) s1 (by
      intro id hid
      obtain ⟨y, hy, rfl⟩ := List.mem_map.1 hid
      obtain ⟨x, hx, hxy⟩ := h3 y hy
      exact hxy ▸ hp x hx)
    refine ⟨hok.1, fun x hx => ?_⟩
    obtain ⟨y, hy, hyx⟩ := h2 x hx
    exact hyx ▸ hok.2 _ (List.mem_map.2 ⟨y, hy, rfl⟩)

/-- REGRESSION (the defect that was fixed): when `fill` does not clear `NonTrivialElements`, the
history prepareAll; prepareAll; computeAll(split) leaves a listed element unevaluable -/
theorem stale_nontrivial_was_wrong :
    let s := run false 2 {} [.prepareAll [(0,1,1,0)], .prepareAll [(0,1,1,0)], .computeAll true]
    ∃ x ∈ s.emap, evaluable s x.2.1 = false := by
  decide

/-! ### the exchange symmetry of the definition -/

open Pomerol.Spec in
/-- the first exchange symmetry holds for the definition of chi (signed sum over the six time
orderings) and for its Lehmann form: exchanging the two annihilators together with their
frequencies flips the sign -/
theorem exchange_first_pair {ι : Type} [Fintype ι] [DecidableEq ι] (d : EigenData ι)
    (O : Fin 3 → Matrix ι ι ℂ) (X : Matrix ι ι ℂ) (z : Fin 3 → ℂ) :
    d.chiDef ![O 1, O 0, O 2] X ![z 1, z 0, z 2] = - d.chiDef O X z ∧
    d.chiLehmann ![O 1, O 0, O 2] X ![z 1, z 0, z 2] = - d.chiLehmann O X z :=
  ⟨chiDef_swap01 d O X z, chiLehmann_swap01 d O X z⟩


open Pomerol.Spec in
/-- THE SECOND EXCHANGE SYMMETRY: χ_{ijlk}(ω₁,ω₂;ω₁+ω₂−ω₃) = −χ_{ijkl}(ω₁,ω₂;ω₃).

With `O 0 = c_i`, `O 1 = c_j`, `O 2 = c†_k`, `X = c†_l`, `z 0 = iω₁`, `z 1 = iω₂`, `z 2 = −iω₃`:
exchanging the third operator `c†_k` with the fourth one `c†_l` (the one at time 0), the third
frequency becoming the frequency carried by the fourth operator, `−(z 0 + z 1 + z 2) = −iω₄` with
`ω₄ = ω₁+ω₂−ω₃`, flips the sign -- both for the definition of chi (signed sum over the six
time-ordered simplex integrals) and for its Lehmann form (what the library evaluates).  It holds
for every spectrum (degenerate or not: all resonance classes of the multi-term), every β > 0, all
matrices and all frequencies with `e^{βz} = −1` (the fermionic Matsubara frequencies, see
`exchange_second_pair_matsubara`).  Unlike the first exchange symmetry this is not a relabelling of
the time orderings: it rests on the cyclicity of the trace and the fermionic antiperiodicity
(`Pomerol.Spec.multiTerm_rotate`, `Pomerol.Spec.orderedLehmann_rotate`). -/
theorem exchange_second_pair {ι : Type} [Fintype ι] [DecidableEq ι] (d : EigenData ι)
    (O : Fin 3 → Matrix ι ι ℂ) (X : Matrix ι ι ℂ) (z : Fin 3 → ℂ)
    (hz : ∀ k, Complex.exp ((d.β:ℂ) * z k) = -1) :
    d.chiDef ![O 0, O 1, X] (O 2) ![z 0, z 1, -(z 0 + z 1 + z 2)] = - d.chiDef O X z ∧
    d.chiLehmann ![O 0, O 1, X] (O 2) ![z 0, z 1, -(z 0 + z 1 + z 2)] = - d.chiLehmann O X z :=
  ⟨chiDef_swap23 d O X z hz, chiLehmann_swap23 d O X z hz⟩

open Pomerol.Spec in
/-- the second exchange symmetry at the Matsubara frequencies numbered (k₁,k₂,k₃): the exchanged
function is taken at (k₁,k₂,k₁+k₂−k₃), which is the arithmetic `fourthNumber` of the container
(this also shows that the hypothesis of `exchange_second_pair` is satisfiable) -/
theorem exchange_second_pair_matsubara {ι : Type} [Fintype ι] [DecidableEq ι] (d : EigenData ι)
    (O : Fin 3 → Matrix ι ι ℂ) (X : Matrix ι ι ℂ) (k1 k2 k3 : ℤ) :
    d.chiDef ![O 0, O 1, X] (O 2)
        ![Complex.I * (d.ω k1 : ℂ), Complex.I * (d.ω k2 : ℂ),
          -(Complex.I * (d.ω (Pomerol.Gen.Core.fourthNumber k1 k2 k3) : ℂ))]
      = - d.chiDef O X
        ![Complex.I * (d.ω k1 : ℂ), Complex.I * (d.ω k2 : ℂ), -(Complex.I * (d.ω k3 : ℂ))] :=
  chiDef_swap23_matsubara d O X k1 k2 k3

open Pomerol.Spec in
/-- The abstract `ChiFamily` used for the container is inhabited by the DEFINITION of chi: for any
eigen-data and any families `c`, `cd` of matrices (annihilators / creators in the eigenbasis), the
function (i,j,k,l), (n₁,n₂,n₃) ↦ χ_{ijkl}(ω_{n₁},ω_{n₂};ω_{n₃}) has both exchange symmetries. -/
noncomputable def chiFamilyOfDef {ι : Type} [Fintype ι] [DecidableEq ι] (d : EigenData ι)
    (c cd : Nat → Matrix ι ι ℂ) : ChiFamily ℂ where
  chi q n1 n2 n3 := d.chiDef ![c q.1, c q.2.1, cd q.2.2.1] (cd q.2.2.2)
    ![Complex.I * (d.ω n1 : ℂ), Complex.I * (d.ω n2 : ℂ), -(Complex.I * (d.ω n3 : ℂ))]
  sym12 i j k l n1 n2 n3 := by
    have h := chiDef_swap01 d ![c i, c j, cd k] (cd l)
      ![Complex.I * (d.ω n1 : ℂ), Complex.I * (d.ω n2 : ℂ), -(Complex.I * (d.ω n3 : ℂ))]
    simpa using h
  sym34 i j k l n1 n2 n3 := by
    have h := chiDef_swap23_matsubara d ![c i, c j, cd k] (cd l) n1 n2 n3
    simpa using h

/-- sanity, generic class: the cyclic identity of the multi-term on a rational instance
(a₁,a₂,a₃) = (1,2,3), a₄ = −6, arbitrary unrelated weights (1,2,3,4) -/
example : Pomerol.Spec.mtCore 7 2 3 (-6) 2 3 4 1 = - Pomerol.Spec.mtCore 7 1 2 3 1 2 3 4 := by
  unfold Pomerol.Spec.mtCore
  norm_num

/-- sanity, resonant class a₁+a₂ = 0 (weights w₃ = w₁): (a₁,a₂,a₃) = (1,−1,2), a₄ = −2, β = 3 -/
example : Pomerol.Spec.mtCore 3 (-1) 2 (-2) 7 5 4 5 = - Pomerol.Spec.mtCore 3 1 (-1) 2 5 7 5 4 := by
  unfold Pomerol.Spec.mtCore
  norm_num

/-- sanity, doubly resonant class (w₃ = w₁, w₄ = w₂): (a₁,a₂,a₃) = (2,−2,2), a₄ = −2, β = 3 -/
example : Pomerol.Spec.mtCore 3 (-2) 2 (-2) 7 5 7 5 = - Pomerol.Spec.mtCore 3 2 (-2) 2 5 7 5 7 := by
  unfold Pomerol.Spec.mtCore
  norm_num

/-- sanity: on the resonance the weight relation is NEEDED (with w₃ ≠ w₁ the identity fails) -/
example : Pomerol.Spec.mtCore 3 (-1) 2 (-2) 7 6 4 5 ≠ - Pomerol.Spec.mtCore 3 1 (-1) 2 5 7 6 4 := by
  unfold Pomerol.Spec.mtCore
  norm_num

end Pomerol.Properties.C13
