/-
  Property C06: the split of the processes into colours in `TwoParticleGFContainer::computeAll_split`
  is sound for EVERY number of processes `size ≥ 1` and EVERY number of components `ncomp ≥ 1`.

  Model: `Model/Parallel.lean` (who computes what, who sends, who holds the reduced table, which
  collective calls every rank issues on which communicator); the arithmetic (`ncolors`, `procColor`,
  `elemColor`) and the three control-flow flags (`rootIsFirst`, `marksPartsComputed`,
  `skelBarrierOnOwnComm`) are extracted from the C++ source into `Generated/SplitFormulas.lean`.
  The flags are used only by unfolding: if the source changes them the proofs below break.

  What the jobs inside one colour do (every job exactly once, termination under every schedule) is
  the subject of C16 (`Properties/C16.lean`, `Spec/DispatcherInv.lean`); here one `mpi_skel::run` is
  a single collective call `Coll.colourDispatch` on the colour communicator.
-/
import PomerolModel.Model.Parallel

namespace Pomerol.Properties.C06
open Pomerol.Gen.Split Pomerol.Model.Par

/-! ### arithmetic of `floor (x * k / n)` for `0 < k ≤ n` -/

/-- `x * k / n < k` for `x < n` -/
private theorem scaled_lt (n k x : Nat) (hn : 0 < n) (hk : 0 < k) (hx : x < n) : x * k / n < k := by
  rw [Nat.div_lt_iff_lt_mul hn, Nat.mul_comm k n]
  exact Nat.mul_lt_mul_of_lt_of_le hx (Nat.le_refl k) hk

/-- every value `c < k` is taken by `x ↦ x * k / n` on `x < n` provided `k ≤ n` (take `x = ceil (c * n / k)`) -/
private theorem scaled_surj (n k c : Nat) (hk : 0 < k) (hkn : k ≤ n) (hc : c < k) :
    ∃ x, x < n ∧ x * k / n = c := by
  refine ⟨(c * n + k - 1) / k, ?_, ?_⟩
  all_goals
    have h1 : k * ((c * n + k - 1) / k) + (c * n + k - 1) % k = c * n + k - 1 := Nat.div_add_mod _ _
    have h2 : (c * n + k - 1) % k < k := Nat.mod_lt _ hk
    have h3 : (c * n + k - 1) / k * k = k * ((c * n + k - 1) / k) := Nat.mul_comm _ _
    have h4 : (c + 1) * n = c * n + n := Nat.succ_mul c n
    have h5 : (c + 1) * n ≤ k * n := Nat.mul_le_mul_right n hc
  · have h6 : (c * n + k - 1) / k * k < n * k := by rw [Nat.mul_comm n k]; omega
    exact Nat.lt_of_mul_lt_mul_right h6
  · apply Nat.div_eq_of_lt_le
    · omega
    · omega

private theorem ncolors_pos (size ncomp : Nat) (hs : 0 < size) (hc : 0 < ncomp) :
    0 < ncolors size ncomp := by
  unfold ncolors; omega

private theorem ncolors_le_size (size ncomp : Nat) : ncolors size ncomp ≤ size := by
  unfold ncolors; omega

private theorem ncolors_le_ncomp (size ncomp : Nat) : ncolors size ncomp ≤ ncomp := by
  unfold ncolors; omega

/-! ### colours -/

/-- every process gets a valid colour -/
theorem colours_valid (size ncomp p : Nat) (hs : 0 < size) (hc : 0 < ncomp) (hp : p < size) :
    procColor size ncomp p < ncolors size ncomp :=
  scaled_lt size _ p hs (ncolors_pos size ncomp hs hc) hp

/-- every colour is used by at least one process -/
theorem colours_cover (size ncomp c : Nat) (hs : 0 < size) (hc : 0 < ncomp)
    (hcol : c < ncolors size ncomp) : ∃ p, p < size ∧ procColor size ncomp p = c :=
  scaled_surj size _ c (ncolors_pos size ncomp hs hc) (ncolors_le_size size ncomp) hcol

/-- every component gets a valid colour -/
theorem component_colour_valid (size ncomp i : Nat) (hs : 0 < size) (hc : 0 < ncomp)
    (hi : i < ncomp) : elemColor size ncomp i < ncolors size ncomp :=
  scaled_lt ncomp _ i hc (ncolors_pos size ncomp hs hc) hi

/-- every colour has at least one component -/
theorem component_colours_cover (size ncomp c : Nat) (hs : 0 < size) (hc : 0 < ncomp)
    (hcol : c < ncolors size ncomp) : ∃ i, i < ncomp ∧ elemColor size ncomp i = c :=
  scaled_surj ncomp _ c (ncolors_pos size ncomp hs hc) (ncolors_le_ncomp size ncomp) hcol

/-! ### who computes, who sends, who holds the table -/

private theorem computes_iff (size ncomp p i : Nat) :
    computes size ncomp p i = true ↔ elemColor size ncomp i = procColor size ncomp p := by
  simp [computes]

/-- each component is computed by the processes of exactly one colour, and that set is not empty -/
theorem component_computed_by_one_colour (size ncomp i : Nat) (hs : 0 < size) (hc : 0 < ncomp)
    (hi : i < ncomp) :
    (∃ p, p < size ∧ computes size ncomp p i = true) ∧
    (∀ p q, computes size ncomp p i = true → computes size ncomp q i = true →
      procColor size ncomp p = procColor size ncomp q) := by
  constructor
  · obtain ⟨p, hp, hpc⟩ := colours_cover size ncomp _ hs hc (component_colour_valid size ncomp i hs hc hi)
    exact ⟨p, hp, (computes_iff size ncomp p i).2 hpc.symm⟩
  · intro p q hp hq
    rw [computes_iff] at hp hq
    rw [← hp, ← hq]

/-- the root of a colour is the head of the list of its processes (this is where `rootIsFirst` is used) -/
private theorem colorRoot_eq_tableHolder (size ncomp c : Nat) :
    colorRoot size ncomp c = tableHolder size ncomp c := by
  simp [colorRoot, tableHolder, rootIsFirst]

/-- a used colour has a table holder, which is a process of that colour -/
private theorem tableHolder_some (size ncomp c : Nat) (hs : 0 < size) (hc : 0 < ncomp)
    (hcol : c < ncolors size ncomp) :
    ∃ r, tableHolder size ncomp c = some r ∧ r < size ∧ procColor size ncomp r = c := by
  obtain ⟨p, hp, hpc⟩ := colours_cover size ncomp c hs hc hcol
  have hmem : p ∈ (List.range size).filter fun p => procColor size ncomp p = c := by
    simp [List.mem_filter, hp, hpc]
  unfold tableHolder
  cases hl : (List.range size).filter fun p => decide (procColor size ncomp p = c) with
  | nil => rw [hl] at hmem; cases hmem
  | cons r t =>
    have hr : r ∈ (List.range size).filter fun p => decide (procColor size ncomp p = c) := by
      rw [hl]; exact List.mem_cons_self
    rw [List.mem_filter, List.mem_range] at hr
    exact ⟨r, rfl, hr.1, by simpa using hr.2⟩

/-- the sender of a component belongs to the colour that computed it AND is the process that holds
the reduced table -/
theorem sender_holds_the_table (size ncomp i : Nat) (hs : 0 < size) (hc : 0 < ncomp) (hi : i < ncomp) :
    ∃ r, colorRoot size ncomp (elemColor size ncomp i) = some r ∧ r < size ∧
      computes size ncomp r i = true ∧ tableHolder size ncomp (elemColor size ncomp i) = some r := by
  obtain ⟨r, hr, hrs, hrc⟩ :=
    tableHolder_some size ncomp _ hs hc (component_colour_valid size ncomp i hs hc hi)
  exact ⟨r, by rw [colorRoot_eq_tableHolder]; exact hr, hrs,
    (computes_iff size ncomp r i).2 hrc.symm, hr⟩

/-- the frequency table of every component arrives with the broadcast -/
theorem tables_delivered (size ncomp i : Nat) (hs : 0 < size) (hc : 0 < ncomp) (hi : i < ncomp) :
    tableDelivered size ncomp i = true := by
  obtain ⟨r, h1, _, _, h2⟩ := sender_holds_the_table size ncomp i hs hc hi
  simp [tableDelivered, h1, h2]

/-- every component can be evaluated on every process after the distribution phase -/
theorem evaluable_everywhere (size ncomp p i : Nat) : evaluableOn size ncomp p i = true := by
  simp [evaluableOn, marksPartsComputed]

/-! ### collectives match -/

/-- the calls of `mpi_skel::run` are all on the colour communicator (this is where
`skelBarrierOnOwnComm` is used) -/
private theorem worldCalls_skel (col : Nat) (l : List Nat) :
    worldCalls (l.flatMap (skelCalls col)) = [] := by
  induction l with
  | nil => rfl
  | cons a t ih =>
    rw [List.flatMap_cons]
    unfold worldCalls at ih ⊢
    rw [List.filter_append, ih]
    simp [skelCalls, skelBarrierOnOwnComm]

/-- the world-communicator part of the sequence of a rank, written without reference to the rank -/
private theorem worldCalls_sequence (size ncomp p : Nat) :
    worldCalls (collectiveSequence size ncomp p) =
      [Coll.worldBarrier, Coll.worldSplit] ++ [Coll.worldBarrier]
      ++ worldCalls ((List.range ncomp).map
          (fun i => Coll.worldBcast ((colorRoot size ncomp (elemColor size ncomp i)).getD 0) i))
      ++ [Coll.worldBarrier] := by
  have h := worldCalls_skel (procColor size ncomp p) ((List.range ncomp).filter (computes size ncomp p))
  unfold collectiveSequence
  unfold worldCalls at h ⊢
  rw [List.filter_append, List.filter_append, List.filter_append, List.filter_append, h]
  rfl

/-- COLLECTIVES MATCH on the world communicator: all processes issue the same sequence of collective
calls on MPI_COMM_WORLD -/
theorem world_collectives_match (size ncomp p q : Nat) (_hs : 0 < size) (_hc : 0 < ncomp)
    (_hp : p < size) (_hq : q < size) :
    worldCalls (collectiveSequence size ncomp p) = worldCalls (collectiveSequence size ncomp q) := by
  rw [worldCalls_sequence, worldCalls_sequence]

/-- COLLECTIVES MATCH on a colour communicator: all processes of one colour issue the same sequence
of collective calls on the communicator of that colour -/
theorem colour_collectives_match (size ncomp p q : Nat)
    (hpq : procColor size ncomp p = procColor size ncomp q) :
    colourCalls (procColor size ncomp p) (collectiveSequence size ncomp p) =
    colourCalls (procColor size ncomp p) (collectiveSequence size ncomp q) := by
  have hcomp : computes size ncomp p = computes size ncomp q := by
    funext i; simp [computes, hpq]
  unfold collectiveSequence
  rw [hcomp, hpq]

/-! ### regressions: the old behaviour, on local copies of the definitions with the flag flipped -/

/-- OLD: the root of a colour is its LAST process -/
def colorRootLast (size ncomp c : Nat) : Option Nat :=
  ((List.range size).filter fun p => procColor size ncomp p = c).getLast?

/-- `tableDelivered` with the old root -/
def tableDeliveredLast (size ncomp i : Nat) : Bool :=
  colorRootLast size ncomp (elemColor size ncomp i) = tableHolder size ncomp (elemColor size ncomp i) &&
  (colorRootLast size ncomp (elemColor size ncomp i)).isSome

/-- OLD: the inner barrier of `mpi_skel::run` is on MPI_COMM_WORLD -/
def skelCallsWorldBarrier (col comp : Nat) : List Coll :=
  [Coll.colourDispatch col comp, Coll.worldBarrier]

/-- `collectiveSequence` with the old `mpi_skel::run` -/
def collectiveSequenceWorldBarrier (size ncomp p : Nat) : List Coll :=
  [Coll.worldBarrier, Coll.worldSplit]
  ++ ((List.range ncomp).filter (computes size ncomp p)).flatMap
      (skelCallsWorldBarrier (procColor size ncomp p))
  ++ [Coll.worldBarrier]
  ++ (List.range ncomp).map
      (fun i => Coll.worldBcast ((colorRoot size ncomp (elemColor size ncomp i)).getD 0) i)
  ++ [Coll.worldBarrier]

/-- the local copies differ from the model only in the flag: with the flag at its old value the model
definitions ARE the copies -/
theorem colorRootLast_is_flipped (size ncomp c : Nat) :
    colorRootLast size ncomp c =
      (let ps := (List.range size).filter fun p => procColor size ncomp p = c
       if false then ps.head? else ps.getLast?) := rfl

/-- REGRESSION: with the last process of a colour as root, for 4 processes / 2 components the sender
of component 0 (process 1) is not the holder of its table (process 0): the table is not delivered -/
theorem last_root_loses_table :
    colorRootLast 4 2 (elemColor 4 2 0) = some 1 ∧ tableHolder 4 2 (elemColor 4 2 0) = some 0 ∧
    tableDeliveredLast 4 2 0 = false ∧ tableDelivered 4 2 0 = true := by
  decide

/-- REGRESSION: with the inner barrier on MPI_COMM_WORLD, for 2 processes / 3 components the two
processes issue world sequences of different length (process 0 computes two components, process 1
one): a hang.  With the present code they agree. -/
theorem world_barrier_mismatch :
    worldCalls (collectiveSequenceWorldBarrier 2 3 0) ≠ worldCalls (collectiveSequenceWorldBarrier 2 3 1) ∧
    (worldCalls (collectiveSequenceWorldBarrier 2 3 0)).length = 9 ∧
    (worldCalls (collectiveSequenceWorldBarrier 2 3 1)).length = 8 ∧
    worldCalls (collectiveSequence 2 3 0) = worldCalls (collectiveSequence 2 3 1) := by
  decide

end Pomerol.Properties.C06

