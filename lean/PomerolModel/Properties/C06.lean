/-
  Property C06: the split of the processes into colours in `TwoParticleGFContainer::computeAll_split`
  is sound for EVERY number of processes `size ≥ 1` and EVERY number of components `ncomp ≥ 1`.

  Model: `Model/Parallel.lean` (who computes what, who sends, who holds the reduced table, which
  collective calls every rank issues on which communicator); the arithmetic (`ncolors`, `procColor`,
  `elemColor`) and the three control-flow flags (`rootIsFirst`, `marksPartsComputed`,
  `skelBarrierOnOwnComm`) are extracted from the C++ source into `Generated/SplitFormulas.lean`.
  The flags are used only by unfolding: if the source changes them the proofs below break.

  What the jobs inside one colour do (every job exactly once, termination under every schedule) is
  the subject of C16 (`Properties/C16.lean`, `Spec/DispatcherInv.lean`); here one `mpi_skel::run` is
  a single collective call `Coll.colourDispatch` on the colour communicator.
-/
import PomerolModel.Model.Parallel
import PomerolModel.Spec.CollectProps

namespace Pomerol.Properties.C06
open Pomerol.Gen.Split Pomerol.Model.Par

/-! ### arithmetic of `floor (x * k / n)` for `0 < k ≤ n` -/

/-- `x * k / n < k` for `x < n` -/
private theorem scaled_lt (n k x : Nat) (hn : 0 < n) (hk : 0 < k) (hx : x < n) : x * k / n < k := by
  rw [Nat.div_lt_iff_lt_mul hn, Nat.mul_comm k n]
  exact Nat.mul_lt_mul_of_lt_of_le hx (Nat.le_refl k) hk

/-- every value `c < k` is taken by `x ↦ x * k / n` on `x < n` provided `k ≤ n` (take `x = ceil (c * n / k)`) -/
private theorem scaled_surj (n k c : Nat) (hk : 0 < k) (hkn : k ≤ n) (hc : c < k) :
    ∃ x, x < n ∧ x * k / n = c := by
  refine ⟨(c * n + k - 1) / k, ?_, ?_⟩
  all_goals
    have h1 : k * ((c * n + k - 1) / k) + (c * n + k - 1) % k = c * n + k - 1 := Nat.div_add_mod _ _
    have h2 : (c * n + k - 1) % k < k := Nat.mod_lt _ hk
    have h3 : (c * n + k - 1) / k * k = k * ((c * n + k - 1) / k) := Nat.mul_comm _ _
    have h4 : (c + 1) * n = c * n + n := Nat.succ_mul c n
    have h5 : (c + 1) * n ≤ k * n := Nat.mul_le_mul_right n hc
  · have h6 : (c * n + k - 1) / k * k < n * k := by rw [Nat.mul_comm n k]; omega
    exact Nat.lt_of_mul_lt_mul_right h6
  · apply Nat.div_eq_of_lt_le
    · omega
    · omega

private theorem ncolors_pos (size ncomp : Nat) (hs : 0 < size) (hc : 0 < ncomp) :
    0 < ncolors size ncomp := by
  unfold ncolors; omega

private theorem ncolors_le_size (size ncomp : Nat) : ncolors size ncomp ≤ size := by
  unfold ncolors; omega

private theorem ncolors_le_ncomp (size ncomp : Nat) : ncolors size ncomp ≤ ncomp := by
  unfold ncolors; omega

/-! ### colours -/

/-- every process gets a valid colour -/
theorem colours_valid (size ncomp p : Nat) (hs : 0 < size) (hc : 0 < ncomp) (hp : p < size) :
    procColor size ncomp p < ncolors size ncomp :=
  scaled_lt size _ p hs (ncolors_pos size ncomp hs hc) hp

/-- every colour is used by at least one process -/
theorem colours_cover (size ncomp c : Nat) (hs : 0 < size) (hc : 0 < ncomp)
    (hcol : c < ncolors size ncomp) : ∃ p, p < size ∧ procColor size ncomp p = c :=
  scaled_surj size _ c (ncolors_pos size ncomp hs hc) (ncolors_le_size size ncomp) hcol

/-- every component gets a valid colour -/
theorem component_colour_valid (size ncomp i : Nat) (hs : 0 < size) (hc : 0 < ncomp)
    (hi : i < ncomp) : elemColor size ncomp i < ncolors size ncomp :=
  scaled_lt ncomp _ i hc (ncolors_pos size ncomp hs hc) hi

/-- every colour has at least one component -/
theorem component_colours_cover (size ncomp c : Nat) (hs : 0 < size) (hc : 0 < ncomp)
    (hcol : c < ncolors size ncomp) : ∃ i, i < ncomp ∧ elemColor size ncomp i = c :=
  scaled_surj ncomp _ c (ncolors_pos size ncomp hs hc) (ncolors_le_ncomp size ncomp) hcol

/-! ### who computes, who sends, who holds the table -/

private theorem computes_iff (size ncomp p i : Nat) :
    computes size ncomp p i = true ↔ elemColor size ncomp i = procColor size ncomp p := by
  simp [computes]

/-- each component is computed by the processes of exactly one colour, and that set is not empty -/
theorem component_computed_by_one_colour (size ncomp i : Nat) (hs : 0 < size) (hc : 0 < ncomp)
    (hi : i < ncomp) :
    (∃ p, p < size ∧ computes size ncomp p i = true) ∧
    (∀ p q, computes size ncomp p i = true → computes size ncomp q i = true →
      procColor size ncomp p = procColor size ncomp q) := by
  constructor
  · obtain ⟨p, hp, hpc⟩ := colours_cover size ncomp _ hs hc (component_colour_valid size ncomp i hs hc hi)
    exact ⟨p, hp, (computes_iff size ncomp p i).2 hpc.symm⟩
  · intro p q hp hq
    rw [computes_iff] at hp hq
    rw [← hp, ← hq]

/-- the root of a colour is the head of the list of its processes (this is where `rootIsFirst` is used) -/
private theorem colorRoot_eq_tableHolder (size ncomp c : Nat) :
    colorRoot size ncomp c = tableHolder size ncomp c := by
  simp [colorRoot, tableHolder, rootIsFirst]

/-- a used colour has a table holder, which is a process of that colour -/
private theorem tableHolder_some (size ncomp c : Nat) (hs : 0 < size) (hc : 0 < ncomp)
    (hcol : c < ncolors size ncomp) :
    ∃ r, tableHolder size ncomp c = some r ∧ r < size ∧ procColor size ncomp r = c := by
  obtain ⟨p, hp, hpc⟩ := colours_cover size ncomp c hs hc hcol
  have hmem : p ∈ (List.range size).filter fun p => procColor size ncomp p = c := by
    simp [List.mem_filter, hp, hpc]
  unfold tableHolder
  cases hl : (List.range size).filter fun p => decide (procColor size ncomp p = c) with
  | nil => rw [hl] at hmem; cases hmem
  | cons r t =>
    have hr : r ∈ (List.range size).filter fun p => decide (procColor size ncomp p = c) := by
      rw [hl]; exact List.mem_cons_self
    rw [List.mem_filter, List.mem_range] at hr
    exact ⟨r, rfl, hr.1, by simpa using hr.2⟩

/-- the sender of a component belongs to the colour that computed it AND is the process that holds
the reduced table -/
theorem sender_holds_the_table (size ncomp i : Nat) (hs : 0 < size) (hc : 0 < ncomp) (hi : i < ncomp) :
    ∃ r, colorRoot size ncomp (elemColor size ncomp i) = some r ∧ r < size ∧
      computes size ncomp r i = true ∧ tableHolder size ncomp (elemColor size ncomp i) = some r := by
  obtain ⟨r, hr, hrs, hrc⟩ :=
    tableHolder_some size ncomp _ hs hc (component_colour_valid size ncomp i hs hc hi)
  exact ⟨r, by rw [colorRoot_eq_tableHolder]; exact hr, hrs,
    (computes_iff size ncomp r i).2 hrc.symm, hr⟩

/-- the frequency table of every component arrives with the broadcast -/
theorem tables_delivered (size ncomp i : Nat) (hs : 0 < size) (hc : 0 < ncomp) (hi : i < ncomp) :
    tableDelivered size ncomp i = true := by
  obtain ⟨r, h1, _, _, h2⟩ := sender_holds_the_table size ncomp i hs hc hi
  simp [tableDelivered, h1, h2]

/-- every component can be evaluated on every process after the distribution phase -/
theorem evaluable_everywhere (size ncomp p i : Nat) : evaluableOn size ncomp p i = true := by
  simp [evaluableOn, marksPartsComputed]

/-! ### collectives match -/

/-- the calls of `mpi_skel::run` are all on the colour communicator (this is where
`skelBarrierOnOwnComm` is used) -/
private theorem worldCalls_skel (col : Nat) (l : List Nat) :
    worldCalls (l.flatMap (skelCalls col)) = [] := by
  induction l with
  | nil => rfl
  | cons a t ih =>
    rw [List.flatMap_cons]
    unfold worldCalls at ih ⊢
    rw [List.filter_append, ih]
    simp [skelCalls, skelBarrierOnOwnComm]

/-- the world-communicator part of the sequence of a rank, written without reference to the rank -/
private theorem worldCalls_sequence (size ncomp p : Nat) :
    worldCalls (collectiveSequence size ncomp p) =
      [Coll.worldBarrier, Coll.worldSplit] ++ [Coll.worldBarrier]
      ++ worldCalls ((List.range ncomp).map
          (fun i => Coll.worldBcast ((colorRoot size ncomp (elemColor size ncomp i)).getD 0) i))
      ++ [Coll.worldBarrier] := by
  have h := worldCalls_skel (procColor size ncomp p) ((List.range ncomp).filter (computes size ncomp p))
  unfold collectiveSequence
  unfold worldCalls at h ⊢
  rw [List.filter_append, List.filter_append, List.filter_append, List.filter_append, h]
  rfl

/-- COLLECTIVES MATCH on the world communicator: all processes issue the same sequence of collective
calls on MPI_COMM_WORLD -/
theorem world_collectives_match (size ncomp p q : Nat) (_hs : 0 < size) (_hc : 0 < ncomp)
    (_hp : p < size) (_hq : q < size) :
    worldCalls (collectiveSequence size ncomp p) = worldCalls (collectiveSequence size ncomp q) := by
  rw [worldCalls_sequence, worldCalls_sequence]

/-- COLLECTIVES MATCH on a colour communicator: all processes of one colour issue the same sequence
of collective calls on the communicator of that colour -/
theorem colour_collectives_match (size ncomp p q : Nat)
    (hpq : procColor size ncomp p = procColor size ncomp q) :
    colourCalls (procColor size ncomp p) (collectiveSequence size ncomp p) =
    colourCalls (procColor size ncomp p) (collectiveSequence size ncomp q) := by
  have hcomp : computes size ncomp p = computes size ncomp q := by
    funext i; simp [computes, hpq]
  unfold collectiveSequence
  rw [hcomp, hpq]

/-! ### regressions: the old behaviour, on local copies of the definitions with the flag flipped -/

/-- OLD: the root of a colour is its LAST process -/
def colorRootLast (size ncomp c : Nat) : Option Nat :=
  ((List.range size).filter fun p => procColor size ncomp p = c).getLast?

/-- `tableDelivered` with the old root -/
def tableDeliveredLast (size ncomp i : Nat) : Bool :=
  colorRootLast size ncomp (elemColor size ncomp i) = tableHolder size ncomp (elemColor size ncomp i) &&
  (colorRootLast size ncomp (elemColor size ncomp i)).isSome

/-- OLD: the inner barrier of `mpi_skel::run` is on MPI_COMM_WORLD -/
def skelCallsWorldBarrier (col comp : Nat) : List Coll :=
  [Coll.colourDispatch col comp, Coll.worldBarrier]

/-- `collectiveSequence` with the old `mpi_skel::run` -/
def collectiveSequenceWorldBarrier (size ncomp p : Nat) : List Coll :=
  [Coll.worldBarrier, Coll.worldSplit]
  ++ ((List.range ncomp).filter (computes size ncomp p)).flatMap
      (skelCallsWorldBarrier (procColor size ncomp p))
  ++ [Coll.worldBarrier]
  ++ (List.range ncomp).map
      (fun i => Coll.worldBcast ((colorRoot size ncomp (elemColor size ncomp i)).getD 0) i)
  ++ [Coll.worldBarrier]

/-- the local copies differ from the model only in the flag: with the flag at its old value the model
definitions ARE the copies -/
theorem colorRootLast_is_flipped (size ncomp c : Nat) :
    colorRootLast size ncomp c =
      (let ps := (List.range size).filter fun p => procColor size ncomp p = c
       if false then ps.head? else ps.getLast?) := rfl

/-- REGRESSION: with the last process of a colour as root, for 4 processes / 2 components the sender
of component 0 (process 1) is not the holder of its table (process 0): the table is not delivered -/
theorem last_root_loses_table :
    colorRootLast 4 2 (elemColor 4 2 0) = some 1 ∧ tableHolder 4 2 (elemColor 4 2 0) = some 0 ∧
    tableDeliveredLast 4 2 0 = false ∧ tableDelivered 4 2 0 = true := by
  decide

/-- REGRESSION: with the inner barrier on MPI_COMM_WORLD, for 2 processes / 3 components the two
processes issue world sequences of different length (process 0 computes two components, process 1
one): a hang.  With the present code they agree. -/
theorem world_barrier_mismatch :
    worldCalls (collectiveSequenceWorldBarrier 2 3 0) ≠ worldCalls (collectiveSequenceWorldBarrier 2 3 1) ∧
    (worldCalls (collectiveSequenceWorldBarrier 2 3 0)).length = 9 ∧
    (worldCalls (collectiveSequenceWorldBarrier 2 3 1)).length = 8 ∧
    worldCalls (collectiveSequence 2 3 0) = worldCalls (collectiveSequence 2 3 1) := by
  decide

/-! ### after the dispatch: what the callers do with the job-to-rank map

Model `Model/Collect.lean`, proofs `Spec/CollectProps.lean`.  `Hamiltonian::prepare`, `Hamiltonian::compute`
and `TwoParticleGF::compute` run `mpi_skel::run` and then (a) broadcast the data of every part from the rank
`job_map[p]` and (b) (`TwoParticleGF::compute`) sum the rank-local frequency tables onto rank 0.

NOT modelled: floating-point rounding.  The table entries are elements of an abstract additive commutative monoid,
so the theorems say that the distributed run and the single-rank run add up THE SAME TERMS, each once; they do not
say that two floating-point summations of these terms in different orders give bitwise identical results. -/

section Collect
open Pomerol.Model.Collect Pomerol.Spec.Collect
open Pomerol.Model.Disp (Sys allExited)
open Pomerol.Spec.Disp (Reachable)

/-- After the broadcast loop every rank holds every part.  `P` ranks, `J` parts; `owner` is the job-to-rank
map, each part has been computed (value `result p`) by the rank the map names, and every other rank holds
arbitrary stale data `stale r p` for it.  If the map only names ranks of the communicator, then after
`for p: broadcast(data of part p, root = owner p)` every rank holds `result p` for every part `p`: all ranks
hold the same, complete data, whatever they held before. -/
theorem all_ranks_hold_all_parts {α : Type} (P J : Nat) (owner : Nat → Nat) (result : Nat → α)
    (stale : Nat → Nat → Option α) (hown : ∀ p, p < J → owner p < P) :
    (∀ r p, r < P → p < J →
      entry (bcastAll J owner (initWorld P J (ranByMap owner) result stale)) r p = some (result p)) ∧
    bcastAll J owner (initWorld P J (ranByMap owner) result stale) =
      List.replicate P ((List.range J).map fun p => some (result p)) :=
  ⟨fun r p hr hp => bcast_all_ranks_agree P J owner result stale hown r p hr hp,
   bcast_all_ranks_agree_world P J owner (ranByMap owner) result stale
    (fun p hp => ⟨hown p hp, by simp [ranByMap]⟩)⟩

/-- Why the map has to name the rank that really executed the part: if for some part `p` the rank named by the
map did not execute it, then after the loop every rank, including the one that computed `p` correctly, holds
the stale data of the named rank. -/
theorem wrong_map_spreads_stale_data {α : Type} (P J : Nat) (owner : Nat → Nat) (ran : Nat → Nat → Bool)
    (result : Nat → α) (stale : Nat → Nat → Option α) (p : Nat) (hp : p < J) (hown : owner p < P)
    (hwrong : ran (owner p) p = false) (r : Nat) (hr : r < P) :
    entry (bcastAll J owner (initWorld P J ran result stale)) r p = stale (owner p) p :=
  bcast_wrong_owner_spreads_stale P J owner ran result stale p hp hown hwrong r hr

/-- The table on the root equals the serial table.  Every rank starts with a table of `F` zeros; every
execution `(p, r)` of the log adds the contribution vector `contrib p` to the table of rank `r`; the reduction
delivers on rank 0 the entrywise sum over the `P` ranks.  If every part `p < J` has been executed exactly once,
on some rank `< P` (this is what C16 proves for the dispatcher), the delivered table is the table a single rank
accumulates by executing parts `0 … J-1` in order, and its entry `w` is the sum over all parts of their entry
`w`: the result does not depend on the number of ranks, on which rank ran which part, or on the order of
execution.  (Exact arithmetic; floating-point re-association is not modelled.) -/
theorem root_table_equals_serial_table {β : Type} [AddCommMonoid β] (P J F : Nat) (contrib : Nat → List β)
    (log : List (Nat × Nat)) (h : ExactlyOnce P J log) :
    reduceTables P F contrib log = serialTable J F contrib ∧
    (reduceTables P F contrib log).length = F ∧
    ∀ w, w < F → (reduceTables P F contrib log).getD w 0 = ∑ p ∈ Finset.range J, (contrib p).getD w 0 :=
  reduce_is_sum_over_parts P J F contrib log h

/-- the same for "part `p` runs on rank `owner p`", and: the serial table is the distributed procedure on one
rank -/
theorem root_table_independent_of_map_and_size {β : Type} [AddCommMonoid β] (P J F : Nat) (contrib : Nat → List β)
    (owner : Nat → Nat) (hown : ∀ p, p < J → owner p < P) :
    reduceTables P F contrib (ownerLog J owner) = reduceTables 1 F contrib (ownerLog J fun _ => 0) := by
  rw [reduce_owner_is_serial P J F contrib owner hown, serialTable_eq_single_rank]

/-- Why "exactly once" matters: a part executed a second time (anywhere in the execution order, on any rank)
is counted twice in the table. -/
theorem double_execution_counts_twice {β : Type} [AddCommMonoid β] (P J F : Nat) (contrib : Nat → List β)
    (log log' : List (Nat × Nat)) (h : ExactlyOnce P J log) (p r' : Nat) (hr' : r' < P)
    (hperm : log'.Perm ((p, r') :: log)) (w : Nat) (hw : w < F) :
    (reduceTables P F contrib log').getD w 0 = (serialTable J F contrib).getD w 0 + (contrib p).getD w 0 :=
  reduce_double_execution_counts_twice P J F contrib log log' h p r' hr' hperm w hw

/-- A distributed step computes what a serial step computes.  Take ANY finished round of the dispatcher model:
`P ≥ 1` ranks, the `J` jobs `0 … J-1` in any order, any interleaving of the ranks and any message delays, all
ranks out of the loop.  Use its dispatch map as `job_map` (a missing key reads as 0, as `std::map::operator[]`
does) and its execution log as the record of who computed what.  Then
(i) after the broadcast loop every rank holds, for every part, the result computed by the rank that executed
it -- identical, complete data on all ranks, whatever stale data they held; and
(ii) the table reduced onto rank 0 is the table of a single-rank run, entry `w` being the sum over all parts.
(Exact arithmetic; floating-point re-association is not modelled.) -/
theorem distributed_step_refines_serial {α β : Type} [AddCommMonoid β] (P J : Nat) (jobs : List Nat) (hP : 0 < P)
    (hjobs : jobs.Perm (List.range J)) (s : Sys) (h : Reachable P jobs s) (hf : allExited s = true)
    (result : Nat → α) (stale : Nat → Nat → Option α) (F : Nat) (contrib : Nat → List β) :
    (∀ r p, r < P → p < J →
      entry (bcastAll J (ownerOfMap s.m.dmap) (initWorld P J (ranByLog s.log) result stale)) r p
        = some (result p)) ∧
    bcastAll J (ownerOfMap s.m.dmap) (initWorld P J (ranByLog s.log) result stale)
      = List.replicate P ((List.range J).map fun p => some (result p)) ∧
    reduceTables P F contrib s.log = serialTable J F contrib ∧
    (∀ w, w < F → (reduceTables P F contrib s.log).getD w 0 = ∑ p ∈ Finset.range J, (contrib p).getD w 0) :=
  Pomerol.Spec.Collect.distributed_step_refines_serial P J jobs hP hjobs s h hf result stale F contrib

/-! #### concrete instances: 3 ranks, 4 parts -/

/-- part → rank -/
def exOwner (p : Nat) : Nat := [2, 0, 1, 2].getD p 0
/-- the value computed for part `p` -/
def exResult (p : Nat) : Nat := 10 + p
/-- stale data: rank 0 holds nothing, the others hold old values -/
def exStale (r p : Nat) : Option Nat := if r = 0 then none else some (900 + 10 * r + p)
/-- contributions of the 4 parts to a table with 2 frequencies -/
def exContrib (p : Nat) : List Nat := [[1, 2], [10, 20], [100, 200], [1000, 2000]].getD p []

/-- before the loop the ranks hold different data … -/
example : initWorld 3 4 (ranByMap exOwner) exResult exStale =
    [[none, some 11, none, none],
     [some 910, some 911, some 12, some 913],
     [some 10, some 921, some 922, some 13]] := by decide

/-- … afterwards all hold the four results -/
example : bcastAll 4 exOwner (initWorld 3 4 (ranByMap exOwner) exResult exStale) =
    List.replicate 3 [some 10, some 11, some 12, some 13] := by decide

/-- the hypothesis of `all_ranks_hold_all_parts` holds for this instance -/
example : ∀ p, p < 4 → exOwner p < 3 := by decide

/-- a wrong map (part 2 was executed by rank 1, the map says rank 2): everybody, rank 1 included, ends up with
the stale value 922 of rank 2 -/
example : bcastAll 4 (fun p => if p = 2 then 2 else exOwner p) (initWorld 3 4 (ranByMap exOwner) exResult exStale) =
    List.replicate 3 [some 10, some 11, some 922, some 13] := by decide

/-- the reduced table of the 3-rank run is the serial table … -/
example : reduceTables 3 2 exContrib (ownerLog 4 exOwner) = [1111, 2222] ∧
    serialTable 4 2 exContrib = [1111, 2222] ∧
    reduceWorld 3 2 exContrib (ownerLog 4 exOwner) = [[1111, 2222], [0, 0], [0, 0]] := by decide

/-- … while the rank-local tables differ -/
example : (List.range 3).map (localTable 2 exContrib (ownerLog 4 exOwner)) =
    [[10, 20], [100, 200], [1001, 2002]] := by decide

/-- the hypothesis of `root_table_equals_serial_table` holds for this instance -/
example : ExactlyOnce 3 4 (ownerLog 4 exOwner) := ownerLog_exactlyOnce 3 4 exOwner (by decide)

/-- part 1 executed a second time, on rank 2: counted twice -/
example : reduceTables 3 2 exContrib ((1, 2) :: ownerLog 4 exOwner) = [1121, 2242] := by decide

/-- a complete round of the dispatcher model with 3 ranks and job order `[2, 0, 3, 1]` under a schedule with
message delays … -/
def exSched : List (Nat × Bool) :=
  [(0, true), (1, true), (2, true), (0, true), (1, false), (2, false), (0, true), (1, false), (2, false),
   (0, true), (1, false), (2, true), (0, false), (1, false), (2, false), (0, false), (1, false), (2, false),
   (0, false), (1, false), (2, false), (0, true), (1, true), (2, true), (0, true), (0, false), (0, false),
   (0, false)]

/-- … ends with all ranks out of the loop, execution log `[(2,0), (0,1), (3,2), (1,2)]` (part, rank) and the
matching map: the hypotheses of `distributed_step_refines_serial` are satisfiable -/
example : (Pomerol.Model.Disp.run (Pomerol.Model.Disp.init 3 [2, 0, 3, 1]) exSched).map
      (fun s => (allExited s, s.log, (List.range 4).map (ownerOfMap s.m.dmap))) =
    some (true, [(2, 0), (0, 1), (3, 2), (1, 2)], [1, 2, 0, 2]) := by decide

example : [2, 0, 3, 1].Perm (List.range 4) := by decide

/-- the collection phase fed with the outcome of that round -/
example : (Pomerol.Model.Disp.run (Pomerol.Model.Disp.init 3 [2, 0, 3, 1]) exSched).map
      (fun s => (bcastAll 4 (ownerOfMap s.m.dmap) (initWorld 3 4 (ranByLog s.log) exResult exStale),
                 reduceTables 3 2 exContrib s.log)) =
    some (List.replicate 3 [some 10, some 11, some 12, some 13], [1111, 2222]) := by decide

end Collect

/-- The facts about the source on which the model `Model/Collect.lean` rests, EXTRACTED by the translator on every run
(`Generated/SplitFormulas.lean`; the translator fails when the code no longer has this shape): in
`Hamiltonian::prepare/compute` every part is broadcast with root `job_map[p]` (on both sides of the owner test, whatever
the block size) after the owner checked that it did the part; in `TwoParticleGF::compute` the table is allocated on every
rank, reduced with `std::plus` to rank 0, and the term lists of every part are broadcast with root `job_map[p]`. -/
theorem source_collective_pattern :
    Pomerol.Gen.Split.hamiltonianBroadcastsFromOwner = true ∧
    Pomerol.Gen.Split.twoParticleReducesToRootAndBroadcastsFromOwner = true := ⟨rfl, rfl⟩

/-- The contribution of a part to the frequency table (`accumulate` in `Model/Collect.lean` adds the WHOLE contribution list)
is what the source does: `table[w] += part(freqs[w])` for every `w < freqs.size()` under a plain `omp parallel for`, so every
entry is updated exactly once whatever the number of threads (extracted on every run). -/
theorem source_table_loop : Pomerol.Gen.Split.tableLoopCoversAllFrequencies = true := rfl

end Pomerol.Properties.C06
