/-
  Property C17: memory safety of the index-chasing loops and the other extracted memory-safety facts.

  The merge walk over two sparse inner iterators (`Model/Chase.lean`) never reads the index of an
  exhausted iterator when the advancing `for` loops test the iterator first -- for EVERY pair of index
  lists, sorted or not -- and terminates within its fuel; on sorted (strictly increasing) rows/columns
  it returns exactly the common inner indices, in order.  The flags saying what the source does are
  extracted from the C++ (`Generated/CoreFlags.lean`) and re-checked on every run.
-/
import PomerolModel.Model.Chase
import PomerolModel.Properties.C15
import PomerolModel.Spec.OpAlgebra
import PomerolModel.Spec.IndexBij

namespace Pomerol.Properties.C17
open Pomerol.Model.Chase

/-- strictly increasing inner indices (what Eigen's compressed storage guarantees) -/
def Sorted (l : List Nat) : Prop := l.Pairwise (· < ·)

/-! ### `advance` -/

/-- the guarded `advance` with any sufficient fuel -/
theorem advance_spec (l : List Nat) (target : Nat) :
    ∀ fuel pos, pos ≤ l.length → l.length + 1 - pos ≤ fuel →
    ∃ pos', advance true l target fuel pos = .ok pos' ∧ pos ≤ pos' ∧ pos' ≤ l.length ∧
      (∀ k, pos ≤ k → k < pos' → ∃ x, l[k]? = some x ∧ x < target) ∧
      (pos' < l.length → ∃ x, l[pos']? = some x ∧ ¬ x < target) := by
  intro fuel
  induction fuel with
  | zero => intro pos hp hf; omega
  | succ fuel ih =>
    intro pos hp hf
    by_cases hge : pos ≥ l.length
    · refine ⟨pos, ?_, Nat.le_refl _, hp, ?_, ?_⟩
      · simp [advance, hge]
      · intro k h1 h2; omega
      · intro h; omega
    · have hlt : pos < l.length := by omega
      have hget : l[pos]? = some l[pos] := List.getElem?_eq_getElem hlt
      by_cases hx : l[pos] < target
      · obtain ⟨pos', h1, h2, h3, h4, h5⟩ := ih (pos + 1) (by omega) (by omega)
        refine ⟨pos', ?_, by omega, h3, ?_, h5⟩
        · rw [advance]
          simp only [hge, decide_false, Bool.and_false, Bool.false_eq_true, if_false, indexAt,
            hget, hx, if_true]
          exact h1
        · intro k hk1 hk2
          by_cases hk : k = pos
          · subst hk; exact ⟨_, hget, hx⟩
          · exact h4 k (by omega) hk2
      · refine ⟨pos, ?_, Nat.le_refl _, hp, ?_, ?_⟩
        · rw [advance]
          simp only [hge, decide_false, Bool.and_false, Bool.false_eq_true, if_false, indexAt,
            hget, hx]
        · intro k h1 h2; omega
        · intro _; exact ⟨_, hget, hx⟩

/-- with the iterator tested first, advancing never reads past the end, for EVERY list, target and
start position, and stops at the first position whose index is not below the target (or at the end) -/
theorem advance_in_bounds (l : List Nat) (target pos : Nat) (hp : pos ≤ l.length) :
    ∃ pos', advance true l target (l.length + 1 - pos) pos = .ok pos' ∧ pos ≤ pos' ∧ pos' ≤ l.length ∧
      (∀ k, pos ≤ k → k < pos' → ∃ x, l[k]? = some x ∧ x < target) ∧
      (pos' < l.length → ∃ x, l[pos']? = some x ∧ ¬ x < target) :=
  advance_spec l target _ pos hp (Nat.le_refl _)

/-- ... as called by `mergeWalk` (fuel `l.length + 1`) -/
theorem advance_in_bounds_walk (l : List Nat) (target pos : Nat) (hp : pos ≤ l.length) :
    ∃ pos', advance true l target (l.length + 1) pos = .ok pos' ∧ pos ≤ pos' ∧ pos' ≤ l.length ∧
      (∀ k, pos ≤ k → k < pos' → ∃ x, l[k]? = some x ∧ x < target) ∧
      (pos' < l.length → ∃ x, l[pos']? = some x ∧ ¬ x < target) :=
  advance_spec l target _ pos hp (by omega)

/-- if the current index is below the target, the guarded `advance` moves by at least one step -/
theorem advance_progress (l : List Nat) (target pos y : Nat) (hy : l[pos]? = some y)
    (hlt : y < target) :
    ∃ pos', advance true l target (l.length + 1) pos = .ok pos' ∧ pos < pos' ∧ pos' ≤ l.length ∧
      (∀ k, pos ≤ k → k < pos' → ∃ x, l[k]? = some x ∧ x < target) ∧
      (pos' < l.length → ∃ x, l[pos']? = some x ∧ ¬ x < target) := by
  have hpl : pos < l.length := by
    rcases Nat.lt_or_ge pos l.length with h | h
    · exact h
    · rw [List.getElem?_eq_none h] at hy; cases hy
  obtain ⟨pos', h1, h2, h3, h4, h5⟩ := advance_in_bounds_walk l target pos (Nat.le_of_lt hpl)
  refine ⟨pos', h1, ?_, h3, h4, h5⟩
  rcases Nat.lt_or_ge pos pos' with h | h
  · exact h
  · have he : pos' = pos := by omega
    subst he
    obtain ⟨x, hx, hnx⟩ := h5 hpl
    rw [hy] at hx
    cases hx
    exact absurd hlt hnx

/-! ### one iteration of the merge walk -/

theorem mergeWalk_stop (g : Bool) (a b : List Nat) (fuel pa pb : Nat) (acc : List Nat)
    (h : pa ≥ a.length ∨ pb ≥ b.length) : mergeWalk g a b (fuel + 1) pa pb acc = .ok acc := by
  rw [mergeWalk, if_pos h]

private theorem lt_length_of_getElem? {l : List Nat} {p x : Nat} (h : l[p]? = some x) :
    p < l.length := by
  rcases Nat.lt_or_ge p l.length with h' | h'
  · exact h'
  · rw [List.getElem?_eq_none h'] at h; cases h

theorem mergeWalk_eq (g : Bool) (a b : List Nat) (fuel pa pb : Nat) (acc : List Nat) (x : Nat)
    (hx : a[pa]? = some x) (hy : b[pb]? = some x) :
    mergeWalk g a b (fuel + 1) pa pb acc = mergeWalk g a b fuel (pa + 1) (pb + 1) (acc ++ [x]) := by
  have h1 := lt_length_of_getElem? hx
  have h2 := lt_length_of_getElem? hy
  rw [mergeWalk, if_neg (by omega)]
  simp only [indexAt, hx, hy, if_true]

theorem mergeWalk_lt (g : Bool) (a b : List Nat) (fuel pa pb : Nat) (acc : List Nat) (x y pb' : Nat)
    (hx : a[pa]? = some x) (hy : b[pb]? = some y) (hlt : y < x)
    (hadv : advance g b x (b.length + 1) pb = .ok pb') :
    mergeWalk g a b (fuel + 1) pa pb acc = mergeWalk g a b fuel pa pb' acc := by
  have h1 := lt_length_of_getElem? hx
  have h2 := lt_length_of_getElem? hy
  have hne : ¬ x = y := by omega
  rw [mergeWalk, if_neg (by omega)]
  simp only [indexAt, hx, hy, hne, if_false, hlt, if_true, hadv]

theorem mergeWalk_gt (g : Bool) (a b : List Nat) (fuel pa pb : Nat) (acc : List Nat) (x y pa' : Nat)
    (hx : a[pa]? = some x) (hy : b[pb]? = some y) (hlt : x < y)
    (hadv : advance g a y (a.length + 1) pa = .ok pa') :
    mergeWalk g a b (fuel + 1) pa pb acc = mergeWalk g a b fuel pa' pb acc := by
  have h1 := lt_length_of_getElem? hx
  have h2 := lt_length_of_getElem? hy
  have hne : ¬ x = y := by omega
  have hnlt : ¬ y < x := by omega
  rw [mergeWalk, if_neg (by omega)]
  simp only [indexAt, hx, hy, hne, if_false, hnlt, hadv]

/-! ### memory safety and termination, for arbitrary lists -/

theorem mergeWalk_in_bounds (a b : List Nat) :
    ∀ fuel pa pb acc, pa ≤ a.length → pb ≤ b.length → (a.length - pa) + (b.length - pb) < fuel →
      ∃ r, mergeWalk true a b fuel pa pb acc = .ok r := by
  intro fuel
  induction fuel with
  | zero => intro pa pb acc _ _ h; omega
  | succ fuel ih =>
    intro pa pb acc hpa hpb hm
    by_cases hstop : pa ≥ a.length ∨ pb ≥ b.length
    · exact ⟨acc, mergeWalk_stop _ _ _ _ _ _ _ hstop⟩
    · have h1 : pa < a.length := by omega
      have h2 : pb < b.length := by omega
      have hx : a[pa]? = some a[pa] := List.getElem?_eq_getElem h1
      have hy : b[pb]? = some b[pb] := List.getElem?_eq_getElem h2
      rcases Nat.lt_trichotomy a[pa] b[pb] with hlt | heq | hgt
      · obtain ⟨pa', hadv, hp1, hp2, _, _⟩ := advance_progress a b[pb] pa a[pa] hx hlt
        rw [mergeWalk_gt true a b fuel pa pb acc _ _ pa' hx hy hlt hadv]
        exact ih pa' pb acc hp2 hpb (by omega)
      · rw [← heq] at hy
        rw [mergeWalk_eq true a b fuel pa pb acc _ hx hy]
        exact ih (pa + 1) (pb + 1) _ (by omega) (by omega) (by omega)
      · obtain ⟨pb', hadv, hp1, hp2, _, _⟩ := advance_progress b a[pa] pb b[pb] hy hgt
        rw [mergeWalk_lt true a b fuel pa pb acc _ _ pb' hx hy hgt hadv]
        exact ih pa pb' acc hpa hp2 (by omega)

/-- THE MERGE WALK NEVER READS OUT OF BOUNDS, for every pair of index lists (sorted or not), and
terminates within its fuel -/
theorem merge_walk_in_bounds (a b : List Nat) : ∃ r, commonIndices true a b = .ok r := by
  unfold commonIndices
  exact mergeWalk_in_bounds a b _ 0 0 [] (Nat.zero_le _) (Nat.zero_le _) (by omega)

/-! ### functional correctness on sorted lists -/

private theorem mem_drop_iff (l : List Nat) (n z : Nat) :
    z ∈ l.drop n ↔ ∃ k, n ≤ k ∧ l[k]? = some z := by
  rw [List.mem_iff_getElem?]
  constructor
  · rintro ⟨i, hi⟩
    rw [List.getElem?_drop] at hi
    exact ⟨n + i, by omega, hi⟩
  · rintro ⟨k, hk, hz⟩
    refine ⟨k - n, ?_⟩
    rw [List.getElem?_drop]
    have : n + (k - n) = k := by omega
    rw [this]; exact hz

private theorem drop_cons_of_getElem? {l : List Nat} {p x : Nat} (h : l[p]? = some x) :
    l.drop p = x :: l.drop (p + 1) := by
  have hp := lt_length_of_getElem? h
  rw [List.getElem?_eq_getElem hp] at h
  cases h
  exact List.drop_eq_getElem_cons hp

/-- skipping elements that fail the predicate does not change the filtered suffix -/
private theorem filter_drop_skip (l : List Nat) (p : Nat → Bool) :
    ∀ d n, (∀ k, n ≤ k → k < n + d → ∃ x, l[k]? = some x ∧ p x = false) →
      (l.drop n).filter p = (l.drop (n + d)).filter p := by
  intro d
  induction d with
  | zero => intro n _; rfl
  | succ d ih =>
    intro n h
    obtain ⟨x, hx, hpx⟩ := h n (Nat.le_refl _) (by omega)
    rw [drop_cons_of_getElem? hx, List.filter_cons, hpx]
    simp only [Bool.false_eq_true, if_false]
    rw [ih (n + 1) (fun k hk1 hk2 => h k (by omega) (by omega))]
    have : n + 1 + d = n + (d + 1) := by omega
    rw [this]

/-- in a sorted list everything from position `n` on is at least the element at `n` -/
private theorem sorted_drop_ge {l : List Nat} (hl : Sorted l) {n x z : Nat} (hx : l[n]? = some x)
    (hz : z ∈ l.drop n) : x ≤ z := by
  have hs : (l.drop n).Pairwise (· < ·) := List.Pairwise.drop hl
  rw [drop_cons_of_getElem? hx] at hs hz
  rw [List.pairwise_cons] at hs
  rcases List.mem_cons.mp hz with h | h
  · omega
  · exact Nat.le_of_lt (hs.1 z h)

private theorem sorted_drop_succ_gt {l : List Nat} (hl : Sorted l) {n x z : Nat} (hx : l[n]? = some x)
    (hz : z ∈ l.drop (n + 1)) : x < z := by
  have hs : (l.drop n).Pairwise (· < ·) := List.Pairwise.drop hl
  rw [drop_cons_of_getElem? hx] at hs
  rw [List.pairwise_cons] at hs
  exact hs.1 z hz

theorem mergeWalk_common (a b : List Nat) (ha : Sorted a) (hb : Sorted b) :
    ∀ fuel pa pb acc, pa ≤ a.length → pb ≤ b.length → (a.length - pa) + (b.length - pb) < fuel →
      mergeWalk true a b fuel pa pb acc
        = .ok (acc ++ (a.drop pa).filter (fun z => decide (z ∈ b.drop pb))) := by
  intro fuel
  induction fuel with
  | zero => intro pa pb acc _ _ h; omega
  | succ fuel ih =>
    intro pa pb acc hpa hpb hm
    by_cases hstop : pa ≥ a.length ∨ pb ≥ b.length
    · rw [mergeWalk_stop _ _ _ _ _ _ _ hstop]
      rcases hstop with h | h
      · rw [List.drop_eq_nil_of_le h]; simp
      · rw [List.drop_eq_nil_of_le h]; simp
    · have h1 : pa < a.length := by omega
      have h2 : pb < b.length := by omega
      have hx : a[pa]? = some a[pa] := List.getElem?_eq_getElem h1
      have hy : b[pb]? = some b[pb] := List.getElem?_eq_getElem h2
      rcases Nat.lt_trichotomy a[pa] b[pb] with hlt | heq | hgt
      · -- a[pa] < b[pb]: skip the elements of `a` below `b[pb]`; none of them occurs in `b.drop pb`
        obtain ⟨pa', hadv, hp1, hp2, hskip, _⟩ := advance_progress a b[pb] pa a[pa] hx hlt
        rw [mergeWalk_gt true a b fuel pa pb acc _ _ pa' hx hy hlt hadv]
        rw [ih pa' pb acc hp2 hpb (by omega)]
        have hd : pa' = pa + (pa' - pa) := by omega
        rw [hd, ← filter_drop_skip a _ (pa' - pa) pa]
        intro k hk1 hk2
        obtain ⟨x, hxk, hxlt⟩ := hskip k hk1 (by omega)
        refine ⟨x, hxk, ?_⟩
        rw [decide_eq_false_iff_not]
        intro hmem
        have := sorted_drop_ge hb hy hmem
        omega
      · -- common element
        rw [← heq] at hy
        rw [mergeWalk_eq true a b fuel pa pb acc _ hx hy]
        rw [ih (pa + 1) (pb + 1) _ (by omega) (by omega) (by omega)]
        rw [drop_cons_of_getElem? hx, List.filter_cons]
        have hin : a[pa] ∈ b.drop pb := by
          rw [drop_cons_of_getElem? hy]; exact List.mem_cons_self
        simp only [hin, decide_true, if_true, List.append_assoc, List.singleton_append]
        congr 3
        apply List.filter_congr
        intro z hz
        have hzgt := sorted_drop_succ_gt ha hx hz
        rw [drop_cons_of_getElem? hy]
        have hne : ¬ z = a[pa] := by omega
        simp [List.mem_cons, hne]
      · -- b[pb] < a[pa]: skip the elements of `b` below `a[pa]`; no remaining element of `a` is among them
        obtain ⟨pb', hadv, hp1, hp2, hskip, _⟩ := advance_progress b a[pa] pb b[pb] hy hgt
        rw [mergeWalk_lt true a b fuel pa pb acc _ _ pb' hx hy hgt hadv]
        rw [ih pa pb' acc hpa hp2 (by omega)]
        congr 2
        apply List.filter_congr
        intro z hz
        have hzge := sorted_drop_ge ha hx hz
        rw [decide_eq_decide, mem_drop_iff, mem_drop_iff]
        constructor
        · rintro ⟨k, hk, hkz⟩; exact ⟨k, by omega, hkz⟩
        · rintro ⟨k, hk, hkz⟩
          refine ⟨k, ?_, hkz⟩
          rcases Nat.lt_or_ge k pb' with hlt' | hge'
          · obtain ⟨x, hxk, hxlt⟩ := hskip k hk hlt'
            rw [hkz] at hxk; cases hxk
            omega
          · exact hge'

/-- ... and for sorted rows/columns it returns exactly the common inner indices, in order -/
theorem merge_walk_common (a b : List Nat) (ha : Sorted a) (hb : Sorted b) :
    commonIndices true a b = .ok (a.filter (· ∈ b)) := by
  unfold commonIndices
  rw [mergeWalk_common a b ha hb _ 0 0 [] (Nat.zero_le _) (Nat.zero_le _) (by omega)]
  simp

/-! ### what the source does -/

/-- all six call sites of the source test the iterator first -/
theorem source_guards_first :
    Pomerol.Gen.Core.chaseGuardFirst = [true, true, true, true, true, true] := by decide

/-- hence at every call site the walk is memory safe -/
theorem every_call_site_in_bounds (a b : List Nat) :
    ∀ g ∈ Pomerol.Gen.Core.chaseGuardFirst, ∃ r, commonIndices g a b = .ok r := by
  rw [source_guards_first]
  intro g hg
  have : g = true := by simpa using hg
  subst this
  exact merge_walk_in_bounds a b

/-- REGRESSION (the defect that was fixed): reading the index before testing the iterator runs past
the end -/
theorem unguarded_chase_overruns : commonIndices false [0, 1] [2] = .error .readPastEnd := by decide

/-- other extracted memory-safety facts: the reduction buffer is taken with data(), the operator
comparison tests the lengths, the state-label bounds tests are inclusive -/
theorem source_memory_safety_flags :
    Pomerol.Gen.Core.reduceUsesData = true ∧ Pomerol.Gen.Core.eqLengthTest = true ∧
      Pomerol.Gen.Core.stateBoundsInclusive = true := by decide

/-! ### re-exports -/

/-- Matsubara storage: `fill` and the subsequent read never access the storage out of range
(`C15.fill_lookup_transparent`) -/
theorem matsubara_storage_in_bounds {α : Type} (f : Pomerol.Model.MC4.Source α) (N : Nat)
    (n1 n2 n3 : Int) :
    ∃ c, Pomerol.Model.MC4.fill f (N : Int) = .ok c ∧
      Pomerol.Model.MC4.lookup c f n1 n2 n3 = .ok (f n1 n2 n3) :=
  Pomerol.Properties.C15.fill_lookup_transparent f N n1 n2 n3

section
open Pomerol.Model

private theorem monoPrefixEq_total (a b : Mono) (h : a.length = b.length) :
    ∃ r, monoPrefixEq a b = some r := by
  induction a generalizing b with
  | nil => exact ⟨true, by cases b <;> rfl⟩
  | cons x a ih =>
    cases b with
    | nil => simp at h
    | cons y b =>
      simp only [List.length_cons, Nat.add_right_cancel_iff] at h
      unfold monoPrefixEq
      by_cases hxy : x = y
      · rw [if_pos hxy]; exact ih b h
      · rw [if_neg hxy]; exact ⟨false, rfl⟩

variable {K : Type} [Add K] [Sub K] [Mul K] [Neg K] [Zero K] [One K] [CoefTest K]

omit [Add K] [Mul K] [Neg K] [Zero K] [One K] in
private theorem termEq_total (l r : Mono × K) : ∃ b, termEq true l r = some b := by
  unfold termEq
  by_cases hl : l.1.length = r.1.length
  · obtain ⟨c, hc⟩ := monoPrefixEq_total l.1 r.1 hl
    simp only [Bool.true_and, hl, ne_eq, not_true_eq_false, decide_false, Bool.false_eq_true,
      if_false, hc]
    exact ⟨_, rfl⟩
  · simp only [Bool.true_and, ne_eq, hl, not_false_eq_true, decide_true, if_true]
    exact ⟨_, rfl⟩

omit [Add K] [Mul K] [Neg K] [Zero K] [One K] in
private theorem eqCoded_go_total (p q : Poly K) : ∃ b, Poly.eqCoded.go true p q = some b := by
  induction p generalizing q with
  | nil => exact ⟨true, by unfold Poly.eqCoded.go; rfl⟩
  | cons x p ih =>
    cases q with
    | nil => exact ⟨true, by unfold Poly.eqCoded.go; rfl⟩
    | cons y q =>
      unfold Poly.eqCoded.go
      obtain ⟨c, hc⟩ := termEq_total x y
      rw [hc]
      cases c
      · exact ⟨false, rfl⟩
      · exact ih q

omit [Add K] [Mul K] [Neg K] [Zero K] [One K] in
/-- the operator comparison as the source performs it never reads out of bounds, WHATEVER the tolerance
test on the coefficients is (no algebraic assumption on the coefficient type) -/
theorem operator_comparison_in_bounds_any_tolerance (p q : Poly K) :
    ∃ b, Poly.eqCoded Pomerol.Gen.Core.eqLengthTest p q = some b := by
  have hflag : Pomerol.Gen.Core.eqLengthTest = true := by decide
  rw [hflag]
  unfold Poly.eqCoded
  by_cases h : p.length ≠ q.length
  · rw [if_pos h]; exact ⟨false, rfl⟩
  · rw [if_neg h]; exact eqCoded_go_total p q

end

open scoped Pomerol.Spec.Exact in
/-- the operator comparison as the source performs it never reads out of bounds
(`Spec.eqCoded_true_total`, exact coefficient test) -/
theorem operator_comparison_in_bounds {K : Type} [CommRing K] [DecidableEq K]
    (p q : Pomerol.Model.Poly K) :
    ∃ b, Pomerol.Model.Poly.eqCoded Pomerol.Gen.Core.eqLengthTest p q = some b := by
  have hflag : Pomerol.Gen.Core.eqLengthTest = true := by decide
  rw [hflag]
  exact Pomerol.Spec.eqCoded_true_total p q

/-- the index table is built without a null slot (and without overflow) -/
theorem index_table_no_null_slot (sites : List Pomerol.Model.Lat.Site) (mode : Bool) :
    Pomerol.Model.Idx.prepare sites mode = .ok (Pomerol.Model.Idx.enumerate sites mode) :=
  Pomerol.Spec.IndexBij.prepare_ok sites mode

end Pomerol.Properties.C17

