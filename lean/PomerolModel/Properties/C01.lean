/-
  Property C01: the single-particle Matsubara Green's function the library evaluates equals its
  definition `G(iω_n) = −∫₀^β ⟨T c(τ) c†(0)⟩ e^{iω_n τ} dτ`, and the term container in which the
  Lehmann terms are collected loses nothing except what it explicitly drops as negligible.

  Setting: `d : EigenData ι` (β > 0, eigenvalues `d.E`, Gibbs weights `d.w`), `C`, `CX` the matrices
  of `c_i`, `c†_j` in the eigenbasis; `d.corr C CX τ = Tr(ρ e^{τH} C e^{−τH} CX)` with genuine matrix
  exponentials; `d.Gdef C CX n` the definition above; `d.lehmannG C CX z` the Lehmann sum.
  The formulas in namespace `Gen.GF` are EXTRACTED FROM THE SOURCE (`GreensFunctionPart.cpp`).
  `Model/TermList.lean` is the model of the C++ term container (`TermList.h`): like terms
  (equivalent w.r.t. the comparison `less` of the poles) are merged by adding the residues, a merged
  term is removed when the negligibility test `negl` fires; the model records every removed term.

  The theorems on the Green's function are re-exports of `Spec/Lehmann.lean`, `Spec/Bridge.lean`
  (fully proved); the theorems on the term container are proved here.
-/
import PomerolModel.Spec.Bridge
import PomerolModel.Model.TermList
import PomerolModel.Spec.GFRefine
import Mathlib.LinearAlgebra.Matrix.Notation

namespace Pomerol.Properties.C01
open Matrix Complex Pomerol Pomerol.Spec Pomerol.Model.TermList

/-! ## the Green's function -/

section GF
variable {ι : Type} [Fintype ι] [DecidableEq ι]

/-- THE VALUE THE LIBRARY'S FORMULAS GIVE EQUALS THE DEFINITION: the extracted term formula
`Residue/(z − Pole)` with the extracted residue `C_ab·CX_ba·(w_a + w_b)` and pole `E_b − E_a`, summed
over all pairs `(a, b)` of eigenstates, at the extracted Matsubara frequency
`z = (iπ/β)·(2n+1)`, equals `−∫₀^β Tr(ρ e^{τH} C e^{−τH} CX) e^{iω_n τ} dτ`.  For every spectrum
(degenerate or not), every β > 0, all matrices, every `n : ℤ`. -/
theorem gf_equals_definition (d : EigenData ι) (C CX : Matrix ι ι ℂ) (n : ℤ) :
    (∑ a, ∑ b, Gen.GF.termFreq (Gen.GF.residue (C a b) (CX b a) (d.w a) (d.w b))
        (Gen.GF.pole (d.E b) (d.E a))
        ((Complex.I * (Real.pi : ℂ) / (d.β : ℂ)) * ((Gen.GF.matsubaraOdd n : ℤ) : ℂ)))
      = d.Gdef C CX n :=
  Bridge.gf_equals_definition d C CX n

/-- The definition does not depend on the basis in which the eigen-system is expressed: for every
invertible `V`, the thermal trace built from the transformed density matrix `VρV⁻¹`, Hamiltonian
`VHV⁻¹` (inside genuine matrix exponentials) and operators `VAV⁻¹`, `VBV⁻¹` equals the correlator
`d.corr A B τ` computed in the eigenbasis. -/
theorem lehmann_any_basis (d : EigenData ι) (V : Matrix ι ι ℂ) (hV : IsUnit V)
    (A B : Matrix ι ι ℂ) (τ : ℝ) :
    ((V * d.ρ * V⁻¹) * NormedSpace.exp ((τ : ℂ) • (V * d.H * V⁻¹)) * (V * A * V⁻¹)
        * NormedSpace.exp ((-(τ : ℂ)) • (V * d.H * V⁻¹)) * (V * B * V⁻¹)).trace = d.corr A B τ :=
  corr_conj d V hV A B τ

/-- Summing the library's terms (extracted residue, pole and term formulas) over all pairs of
eigenstates gives the Lehmann sum `d.lehmannG C CX z`, at every complex `z`. -/
theorem terms_sum_to_lehmann (d : EigenData ι) (C CX : Matrix ι ι ℂ) (z : ℂ) :
    (∑ n, ∑ m, Gen.GF.termFreq (Gen.GF.residue (C n m) (CX m n) (d.w n) (d.w m))
        (Gen.GF.pole (d.E m) (d.E n)) z) = d.lehmannG C CX z :=
  Bridge.gf_sum d C CX z

/-- An element of a container of Green's functions and a stand-alone Green's function object give
the same values as soon as they are built from equal operator matrices: the value is a function
of the eigen-data, the two matrices and the frequency only.  (That the matrices ARE equal is the
subject of property C10.) -/
theorem container_equals_standalone (d : EigenData ι) (C CX C' CX' : Matrix ι ι ℂ)
    (hC : C = C') (hCX : CX = CX') (z : ℂ) (n : ℤ) :
    d.lehmannG C CX z = d.lehmannG C' CX' z ∧ d.Gdef C CX n = d.Gdef C' CX' n := by
  rw [hC, hCX]; exact ⟨rfl, rfl⟩

end GF

/-! ## the term container: general invariant -/

section Container
variable {K R M : Type} [AddCommMonoid M]

/-- two terms are equivalent w.r.t. the comparison: neither pole is less than the other (this is
literally the test in `findEquiv` / `eraseEquiv`) -/
abbrev Eqv (less : R → R → Bool) (a b : Term K R) : Prop :=
  (!less a.pole b.pole && !less b.pole a.pole) = true

/-- container invariant: the stored terms are pairwise inequivalent -/
abbrev Inv (less : R → R → Bool) (l : List (Term K R)) : Prop :=
  l.Pairwise fun a b => ¬ Eqv less a b

theorem eqv_symm {less : R → R → Bool} {a b : Term K R} (h : Eqv less a b) : Eqv less b a := by
  unfold Eqv at *
  rwa [Bool.and_comm]

theorem findEquiv_some {less : R → R → Bool} {t e : Term K R} {l : List (Term K R)}
    (h : findEquiv less t l = some e) : e ∈ l ∧ Eqv less e t := by
  induction l with
  | nil => simp [findEquiv] at h
  | cons a rest ih =>
    unfold findEquiv at h
    split_ifs at h with hc
    · obtain rfl : a = e := Option.some.inj h
      exact ⟨List.mem_cons_self, hc⟩
    · exact ⟨List.mem_cons_of_mem _ (ih h).1, (ih h).2⟩

theorem findEquiv_none {less : R → R → Bool} {t : Term K R} {l : List (Term K R)}
    (h : findEquiv less t l = none) : ∀ a ∈ l, ¬ Eqv less a t := by
  induction l with
  | nil => intro a ha; simp at ha
  | cons a rest ih =>
    unfold findEquiv at h
    split_ifs at h with hc
    intro b hb
    rcases List.mem_cons.mp hb with rfl | hb
    · exact hc
    · exact ih h b hb

theorem insertSorted_sum (less : R → R → Bool) (f : Term K R → M) (t : Term K R)
    (l : List (Term K R)) :
    ((insertSorted less t l).map f).sum = f t + (l.map f).sum := by
  induction l with
  | nil => simp [insertSorted]
  | cons a rest ih =>
    unfold insertSorted
    split_ifs
    · simp
    · simp [ih, add_left_comm]

theorem insertSorted_mem (less : R → R → Bool) (t x : Term K R) (l : List (Term K R)) :
    x ∈ insertSorted less t l ↔ x = t ∨ x ∈ l := by
  induction l with
  | nil => simp [insertSorted]
  | cons a rest ih =>
    unfold insertSorted
    split_ifs
    · simp
    · simp only [List.mem_cons, ih]
      tauto

theorem insertSorted_inv {less : R → R → Bool} {t : Term K R} {l : List (Term K R)}
    (hinv : Inv less l) (ht : ∀ a ∈ l, ¬ Eqv less a t) : Inv less (insertSorted less t l) := by
  induction l with
  | nil => simp [insertSorted, Inv]
  | cons a rest ih =>
    obtain ⟨ha, hrest⟩ := List.pairwise_cons.mp hinv
    unfold insertSorted
    split_ifs
    · exact List.pairwise_cons.mpr ⟨fun b hb h => ht b hb (eqv_symm h), hinv⟩
    · refine List.pairwise_cons.mpr ⟨fun b hb => ?_, ih hrest fun b hb => ht b (List.mem_cons_of_mem _ hb)⟩
      rcases (insertSorted_mem less t b rest).mp hb with rfl | hb
      · exact ht a List.mem_cons_self
      · exact ha b hb

/-- with an irreflexive comparison and pairwise inequivalent stored terms, `eraseEquiv less e`
removes exactly the stored term `e` -/
theorem eraseEquiv_spec {less : R → R → Bool} (hirr : ∀ p, less p p = false) (f : Term K R → M)
    {e : Term K R} {l : List (Term K R)} (hinv : Inv less l) (he : e ∈ l) :
    Inv less (eraseEquiv less e l) ∧ (∀ a ∈ eraseEquiv less e l, ¬ Eqv less a e) ∧
      (l.map f).sum = f e + ((eraseEquiv less e l).map f).sum := by
  induction l with
  | nil => simp at he
  | cons a rest ih =>
    obtain ⟨ha, hrest⟩ := List.pairwise_cons.mp hinv
    unfold eraseEquiv
    split_ifs with hc
    · -- `a` is equivalent to `e`; since the stored terms are pairwise inequivalent, `a` is `e`
      rcases List.mem_cons.mp he with rfl | he'
      · exact ⟨hrest, fun b hb h => ha b hb (eqv_symm h), by simp⟩
      · exact absurd hc (ha e he')
    · have hne : e ≠ a := by
        rintro rfl
        exact hc (by simp [hirr])
      have he' : e ∈ rest := (List.mem_cons.mp he).resolve_left hne
      obtain ⟨i1, i2, i3⟩ := ih hrest he'
      refine ⟨List.pairwise_cons.mpr ⟨fun b hb => ?_, i1⟩, fun b hb => ?_, ?_⟩
      · -- `eraseEquiv` only removes elements
        have : ∀ (l : List (Term K R)) (b : Term K R), b ∈ eraseEquiv less e l → b ∈ l := by
          intro l
          induction l with
          | nil => intro b hb; simp [eraseEquiv] at hb
          | cons c l ihl =>
            intro b hb
            unfold eraseEquiv at hb
            split_ifs at hb
            · exact List.mem_cons_of_mem _ hb
            · rcases List.mem_cons.mp hb with rfl | hb
              · exact List.mem_cons_self
              · exact List.mem_cons_of_mem _ (ihl b hb)
        exact ha b (this rest b hb)
      · rcases List.mem_cons.mp hb with rfl | hb
        · exact hc
        · exact i2 b hb
      · simp only [List.map_cons, List.sum_cons, i3]
        exact add_left_comm _ _ _

variable [Add K]

/-- GENERAL INVARIANT OF `add_term`.  Let `less` be irreflexive, the stored terms pairwise
inequivalent, and `f` any additive quantity of a term that is compatible with merging
(`f(merged) = f(e) + f(t)` whenever `e`, `t` are equivalent).  Then after adding `t`: the stored
terms are again pairwise inequivalent; the total of `f` over stored + dropped terms has grown by
exactly `f t`; and a term is only dropped when the negligibility test fired on it. -/
theorem addTerm_spec {less : R → R → Bool} (negl : K → Nat → Bool) (hirr : ∀ p, less p p = false)
    (f : Term K R → M)
    (hf : ∀ e t : Term K R, Eqv less e t → f ⟨e.res + t.res, e.pole⟩ = f e + f t)
    {data : List (Term K R)} (t : Term K R) (hinv : Inv less data) :
    Inv less (addTerm less negl data t).1 ∧
    ((addTerm less negl data t).1.map f).sum + ((addTerm less negl data t).2.toList.map f).sum
      = (data.map f).sum + f t ∧
    ∀ x, (addTerm less negl data t).2 = some x → ∃ n, 0 < n ∧ negl x.res n = true := by
  unfold addTerm
  cases hfe : findEquiv less t data with
  | none =>
    refine ⟨insertSorted_inv hinv (findEquiv_none hfe), ?_, fun x hx => by simp at hx⟩
    simp [insertSorted_sum, add_comm]
  | some e =>
    obtain ⟨hmem, heq⟩ := findEquiv_some hfe
    obtain ⟨i1, i2, i3⟩ := eraseEquiv_spec hirr f hinv hmem
    dsimp only
    split_ifs with hn
    · refine ⟨i1, ?_, fun x hx => ⟨(eraseEquiv less e data).length + 1, Nat.succ_pos _, ?_⟩⟩
      · simp only [Option.toList_some, List.map_cons, List.map_nil, List.sum_cons, List.sum_nil,
          add_zero, hf e t heq, i3]
        ac_rfl
      · obtain rfl := Option.some.inj hx
        exact hn
    · refine ⟨insertSorted_inv i1 fun a ha => i2 a ha, ?_, fun x hx => by simp at hx⟩
      simp only [insertSorted_sum, Option.toList_none, List.map_nil, List.sum_nil, add_zero,
        hf e t heq, i3]
      ac_rfl

/-- GENERAL INVARIANT OF ADDING A SEQUENCE OF TERMS (same hypotheses as `addTerm_spec`): the total of
`f` over stored + dropped terms grows by exactly the total of `f` over the added terms, and every
newly dropped term was dropped because the negligibility test fired on it. -/
theorem addAll_spec {less : R → R → Bool} (negl : K → Nat → Bool) (hirr : ∀ p, less p p = false)
    (f : Term K R → M)
    (hf : ∀ e t : Term K R, Eqv less e t → f ⟨e.res + t.res, e.pole⟩ = f e + f t)
    (ts : List (Term K R)) : ∀ (data dropped : List (Term K R)), Inv less data →
    Inv less (addAll less negl data dropped ts).1 ∧
    ((addAll less negl data dropped ts).1.map f).sum + ((addAll less negl data dropped ts).2.map f).sum
      = (data.map f).sum + (dropped.map f).sum + (ts.map f).sum ∧
    ∀ x ∈ (addAll less negl data dropped ts).2, x ∈ dropped ∨ ∃ n, 0 < n ∧ negl x.res n = true := by
  induction ts with
  | nil =>
    intro data dropped hinv
    exact ⟨hinv, by simp [addAll], fun x hx => Or.inl hx⟩
  | cons t ts ih =>
    intro data dropped hinv
    obtain ⟨s1, s2, s3⟩ := addTerm_spec negl hirr f hf t hinv
    unfold addAll
    rcases hat : addTerm less negl data t with ⟨d', _ | x⟩
    · rw [hat] at s1 s2
      obtain ⟨j1, j2, j3⟩ := ih d' dropped s1
      refine ⟨j1, ?_, j3⟩
      simp only [Option.toList_none, List.map_nil, List.sum_nil, add_zero] at s2
      rw [j2, s2, List.map_cons, List.sum_cons]
      simp only [add_assoc, add_left_comm, add_comm]
    · rw [hat] at s1 s2 s3
      obtain ⟨j1, j2, j3⟩ := ih d' (dropped ++ [x]) s1
      refine ⟨j1, ?_, fun y hy => ?_⟩
      · simp only [Option.toList_some, List.map_cons, List.map_nil, List.sum_cons, List.sum_nil,
          add_zero] at s2
        rw [j2, List.map_append, List.sum_append, List.map_cons, List.sum_cons, List.map_cons,
          List.sum_cons, List.map_nil, List.sum_nil, add_zero]
        have : (d'.map f).sum + ((dropped.map f).sum + f x) + (ts.map f).sum
            = ((d'.map f).sum + f x) + (dropped.map f).sum + (ts.map f).sum := by ac_rfl
        rw [this, s2]
        ac_rfl
      · rcases j3 y hy with h | h
        · rcases List.mem_append.mp h with h | h
          · exact Or.inl h
          · obtain rfl := List.mem_singleton.mp h
            exact Or.inr (s3 y rfl)
        · exact Or.inr h

end Container

/-! ## the term container at `K := ℂ`, `R := ℝ` -/

/-- the terms the container holds after `ts` have been added one by one to an empty container -/
def kept (less : ℝ → ℝ → Bool) (negl : ℂ → ℕ → Bool) (ts : List (Term ℂ ℝ)) : List (Term ℂ ℝ) :=
  (addAll less negl [] [] ts).1

/-- the (ghost) list of the terms that were removed from the container in the process -/
def dropped (less : ℝ → ℝ → Bool) (negl : ℂ → ℕ → Bool) (ts : List (Term ℂ ℝ)) : List (Term ℂ ℝ) :=
  (addAll less negl [] [] ts).2

/-- RESIDUES ARE CONSERVED, AND ONLY NEGLIGIBLE TERMS ARE DROPPED.  For every irreflexive comparison
`less` of poles (in particular the library's tolerance-based comparison, whose induced
"equivalence" is NOT transitive -- see `dropped_terms_budget_extracted`), every negligibility test
`negl` and every sequence `ts` of terms added to an empty container:
(a) the residues of the kept terms plus the residues of the dropped terms add up to the residues
of all terms added -- nothing is lost except what is explicitly dropped; and
(b) every dropped term `x` was dropped because `negl x.res n` fired for some container size
`n ≥ 1`.
(Irreflexivity cannot be omitted: see the counterexample at the end of the file.) -/
theorem dropped_terms_budget (less : ℝ → ℝ → Bool) (negl : ℂ → ℕ → Bool)
    (hirr : ∀ p, less p p = false) (ts : List (Term ℂ ℝ)) :
    ((kept less negl ts).map (·.res)).sum + ((dropped less negl ts).map (·.res)).sum
      = (ts.map (·.res)).sum ∧
    ∀ x ∈ dropped less negl ts, ∃ n, 0 < n ∧ negl x.res n = true := by
  obtain ⟨-, h2, h3⟩ := addAll_spec negl hirr (fun t : Term ℂ ℝ => t.res) (fun _ _ _ => rfl) ts [] []
    List.Pairwise.nil
  refine ⟨by simpa [kept, dropped] using h2, fun x hx => ?_⟩
  rcases h3 x hx with h | h
  · simp at h
  · exact h

/-- (b) alone: every dropped term was dropped because the negligibility test fired on its
residue. -/
theorem dropped_terms_negligible (less : ℝ → ℝ → Bool) (negl : ℂ → ℕ → Bool)
    (hirr : ∀ p, less p p = false) (ts : List (Term ℂ ℝ)) :
    ∀ x ∈ dropped less negl ts, ∃ n, negl x.res n = true := fun x hx =>
  let ⟨n, _, h⟩ := (dropped_terms_budget less negl hirr ts).2 x hx
  ⟨n, h⟩

/-- (c) In the exact idealisation of the comparison (`less p q ↔ p < q`, so that only terms with
EQUAL poles are merged) the evaluated sums agree at every `z`: the value of the kept terms plus the
value of the dropped terms is the value of all terms added. -/
theorem dropped_terms_value (less : ℝ → ℝ → Bool) (negl : ℂ → ℕ → Bool)
    (hless : ∀ p q, less p q = true ↔ p < q) (ts : List (Term ℂ ℝ)) (z : ℂ) :
    ((kept less negl ts).map fun t => t.res / (z - (t.pole : ℂ))).sum
      + ((dropped less negl ts).map fun t => t.res / (z - (t.pole : ℂ))).sum
      = (ts.map fun t => t.res / (z - (t.pole : ℂ))).sum := by
  have hirr : ∀ p, less p p = false := fun p => by
    rw [← Bool.not_eq_true, hless]; exact lt_irrefl p
  have hf : ∀ e t : Term ℂ ℝ, Eqv less e t →
      (fun t : Term ℂ ℝ => t.res / (z - (t.pole : ℂ))) ⟨e.res + t.res, e.pole⟩
        = (fun t : Term ℂ ℝ => t.res / (z - (t.pole : ℂ))) e
          + (fun t : Term ℂ ℝ => t.res / (z - (t.pole : ℂ))) t := by
    intro e t h
    -- with the exact comparison an equivalent element has the SAME pole
    have hp : e.pole = t.pole := by
      simp only [Eqv, Bool.and_eq_true, Bool.not_eq_true', ← Bool.not_eq_true, hless, not_lt] at h
      exact le_antisymm h.2 h.1
    simp only [hp, add_div]
  obtain ⟨-, h2, -⟩ := addAll_spec negl hirr (fun t : Term ℂ ℝ => t.res / (z - (t.pole : ℂ))) hf
    ts [] [] List.Pairwise.nil
  simpa [kept, dropped] using h2

/-- The same for the predicates EXTRACTED FROM THE SOURCE: the tolerance-based comparison
`termLess p q tol` (`p` is less than `q` iff `q − p ≥ tol`) with any positive tolerance, and the
negligibility test `|res| < ntol / n`.  Residues are conserved, and every dropped term has
`|res| < ntol / n` for some `n ≥ 1`. -/
theorem dropped_terms_budget_extracted (tol ntol : ℝ) (htol : 0 < tol) (ts : List (Term ℂ ℝ)) :
    let less : ℝ → ℝ → Bool := fun p q => Gen.GF.termLess p q tol
    let negl : ℂ → ℕ → Bool := fun r n => Gen.GF.termNegligible r ntol (n : ℝ)
    ((kept less negl ts).map (·.res)).sum + ((dropped less negl ts).map (·.res)).sum
      = (ts.map (·.res)).sum ∧
    ∀ x ∈ dropped less negl ts, ∃ n : ℕ, 0 < n ∧ ‖x.res‖ < ntol / (n : ℝ) := by
  intro less negl
  have hirr : ∀ p, less p p = false := fun p => by
    simp only [less, Gen.GF.termLess, sub_self, decide_eq_false_iff_not, not_not]
    exact htol
  obtain ⟨h1, h2⟩ := dropped_terms_budget less negl hirr ts
  refine ⟨h1, fun x hx => ?_⟩
  obtain ⟨n, hn, h⟩ := h2 x hx
  refine ⟨n, hn, ?_⟩
  simpa only [negl, Gen.GF.termNegligible, decide_eq_true_iff, Bridge.abs_eq] using h

/-! ## concrete instances (exact arithmetic over `ℤ`) -/

/-- Three terms with poles 5, 3, 5 and residues 1, 2, −1: the two terms at pole 5 are merged, the
merged residue 0 is negligible and the merged term is dropped; the term at pole 3 is kept. -/
example :
    let r := addAll (K := ℤ) (R := ℤ) (fun p q => decide (p < q)) (fun res _ => res == 0) [] []
      [⟨1, 5⟩, ⟨2, 3⟩, ⟨-1, 5⟩]
    (r.1.map fun t => (t.res, t.pole)) = [(2, 3)] ∧ (r.2.map fun t => (t.res, t.pole)) = [(0, 5)] := by
  decide

/-- Irreflexivity of the comparison is needed for the conservation of residues: with the
(non-irreflexive) `less p q := (p = 5 ∧ q = 5)` the stored term at pole 5 is found equivalent to
the new term at pole 3 but is not erased, and its residue is counted twice (kept residues
1 + (1+2) = 4, residues added 1 + 2 = 3). -/
example :
    let r := addAll (K := ℤ) (R := ℤ) (fun p q => p == 5 && q == 5) (fun _ _ => false) [] []
      [⟨1, 5⟩, ⟨2, 3⟩]
    (r.1.map (·.res)).sum + (r.2.map (·.res)).sum = 4 := by
  decide

/-! ## the loop structure of the real code

The theorems above sum the extracted formulas over ALL pairs of eigenstates.  The library does not do
that: `GreensFunction::prepare` selects pairs of blocks by a merge walk over two block bimaps, and for
every selected pair `GreensFunctionPart::compute` walks the compressed rows of the block of `c` and the
compressed columns of the block of `c†` in parallel, creating a term only where both store an entry.
`Model/GFPart.lean` is an executable model of exactly these loops (iterators as positions, reading an
exhausted iterator is an error, the guard flags of the advancing loops are extracted from the source);
`Spec/GFRefine.lean` proves that they compute the same sums.
-/

section Loops
open Pomerol.Model.GFPart

/-- WALKING THE SPARSE ROWS LOSES NOTHING AND ADDS NOTHING.  Let `Cs` be a compressed row-major
representation of an `N × M` matrix `C` and `CXs` a compressed column-major representation of an
`M × N` matrix `CX` (inner indices strictly increasing, stored entries equal the matrix entries, entries
not stored are zero).  Then the double loop of `GreensFunctionPart::compute` never reads past the end
of a row or column, terminates, and for every summand `f index1 index2 c cx` that vanishes when `c = 0`
or `cx = 0`, the sum of `f` over the contributions the loop emits equals the sum of
`f index1 index2 (C index1 index2) (CX index2 index1)` over ALL pairs `(index1, index2)`.
(Which contributions are emitted, in which order, each once: `GFRefine.gfpart_contributions`,
`GFRefine.mem_computeSpec`, `GFRefine.computeSpec_sorted`.) -/
theorem sparse_walk_is_full_sum {α β : Type} [Zero α] [AddCommMonoid β] {N M : ℕ}
    (f : ℕ → ℕ → α → α → β) (hf1 : ∀ i k x, f i k 0 x = 0) (hf2 : ∀ i k x, f i k x 0 = 0)
    {Cs CXs : SpMat α} {C : Matrix (Fin N) (Fin M) α} {CX : Matrix (Fin M) (Fin N) α}
    (hC : GFRefine.RepresentsRows Cs C) (hCX : GFRefine.RepresentsCols CXs CX) :
    ∃ l, compute true true (fun _ _ _ _ => true) Cs CXs = .ok l ∧
      (l.map fun x => f x.1 x.2.1 x.2.2.1 x.2.2.2).sum
        = ∑ i : Fin N, ∑ j : Fin M, f i.1 j.1 (C i j) (CX j i) :=
  GFRefine.gfpart_sum_eq_matrix_sum f hf1 hf2 hC hCX

/-- THE LOOP OF ONE PART COMPUTES ITS SHARE OF THE LEHMANN SUM.  For one pair of blocks -- outer block
with `N` states (Gibbs weights `wO`, energies `EO`), inner block with `M` states (`wI`, `EI`), `C` the
block `<outer|c|inner>`, `CX` the block `<inner|c†|outer>` -- the terms that the modelled
`GreensFunctionPart::compute` hands to the term container (extracted residue and pole formulas, extracted
test `abs(Residue) > tol`), evaluated at any complex `z`, plus the terms of the pairs of states whose
residue fails the test (explicit second summand; each has `|Residue| ≤ tol`,
`GFRefine.filtered_residue_small`), add up to the sum of the extracted term formula over ALL pairs
(outer state, inner state).  With the filter idealised away (`tol < 0`) the second summand vanishes:
`GFRefine.part_loop_refines_lehmann`; for the whole eigenbasis as one block the right-hand side is
`d.lehmannG C CX z`, i.e. the definition: `GFRefine.one_block_loop_refines_lehmann` and
`gf_equals_definition`. -/
theorem sparse_walk_computes_lehmann_part {N M : ℕ} (wO EO : Fin N → ℝ) (wI EI : Fin M → ℝ)
    {C : Matrix (Fin N) (Fin M) ℂ} {CX : Matrix (Fin M) (Fin N) ℂ} {Cs CXs : SpMat ℂ}
    (hC : GFRefine.RepresentsRows Cs C) (hCX : GFRefine.RepresentsCols CXs CX) (tol : ℝ) (z : ℂ) :
    ∃ ts, computeTerms true true (GFRefine.natExt wO) (GFRefine.natExt wI) (GFRefine.natExt EO)
        (GFRefine.natExt EI) tol Cs CXs = .ok ts ∧
      (ts.map fun t => Gen.GF.termFreq t.res t.pole z).sum
        + (∑ i : Fin N, ∑ j : Fin M,
            if Gen.GF.residueKept (Gen.GF.residue (C i j) (CX j i) (wO i) (wI j)) tol then 0
            else Gen.GF.termFreq (Gen.GF.residue (C i j) (CX j i) (wO i) (wI j))
              (Gen.GF.pole (EI j) (EO i)) z)
        = ∑ i : Fin N, ∑ j : Fin M, Gen.GF.termFreq (Gen.GF.residue (C i j) (CX j i) (wO i) (wI j))
            (Gen.GF.pole (EI j) (EO i)) z :=
  GFRefine.part_loop_refines_lehmann_filtered wO EO wI EI hC hCX tol z

/-- NO PAIR OF BLOCKS IS MISSED AND NONE IS TAKEN TWICE.  `c` is the left view of the block bimap of
the annihilation operator (pairs `(L, R)` with `<L|c|R>` a non-trivial block, in the order of `L`),
`cx` the right view of the block bimap of the creation operator (pairs `(L', R')`, in the order of
`R'`); in a bimap both sides are keys, so `c` is strictly increasing in `L` and `cx` strictly increasing
in `R'`.  Then the merge walk of `GreensFunction::prepare` terminates and creates a part for `(L, R)`
if and only if `<L|c|R>` and `<R|c†|L>` are both non-trivial blocks and `L` or `R` is retained by the
density matrix -- and for no pair twice.  (As a list, in which order: `GFRefine.prepare_selects_matching_pairs`;
for a multimap the walk WOULD miss pairs: `GFRefine.prepare_needs_unique_keys`.) -/
theorem block_pairs_complete (retained : ℕ → Bool) (c cx : List (ℕ × ℕ))
    (hc : GFRefine.SortedByLeft c) (hcx : GFRefine.SortedByRight cx) :
    ∃ parts, prepare retained c cx = .ok parts ∧ parts.Nodup ∧
      ∀ L R, (L, R) ∈ parts ↔
        (L, R) ∈ c ∧ (R, L) ∈ cx ∧ (retained L = true ∨ retained R = true) :=
  GFRefine.prepare_parts_characterised retained c cx hc hcx

/-! ### a concrete instance (non-vacuity) -/

/-- `C = [1 0 3; 0 5 7]` (2 × 3, row-major) and `CX = [0 1; 2 0; 4 10]` (3 × 2, column-major) -/
private def exCs : SpMat ℤ := [[(0, 1), (2, 3)], [(1, 5), (2, 7)]]
private def exCXs : SpMat ℤ := [[(1, 2), (2, 4)], [(0, 1), (2, 10)]]
private def exC : Matrix (Fin 2) (Fin 3) ℤ := !![1, 0, 3; 0, 5, 7]
private def exCX : Matrix (Fin 3) (Fin 2) ℤ := !![0, 1; 2, 0; 4, 10]

private theorem exC_represents : GFRefine.RepresentsRows exCs exC where
  len := rfl
  sorted := by decide
  bound := by decide
  stored := by
    intro i j v
    fin_cases i <;> fin_cases j <;> simp [exCs, exC]
  notStored := by
    intro i j
    fin_cases i <;> fin_cases j <;> simp [exCs, exC]

private theorem exCX_represents : GFRefine.RepresentsCols exCXs exCX where
  len := rfl
  sorted := by decide
  bound := by decide
  stored := by
    intro i j v
    fin_cases i <;> fin_cases j <;> simp [exCXs, exCX]
  notStored := by
    intro i j
    fin_cases i <;> fin_cases j <;> simp [exCXs, exCX]

/-- the hypotheses of `sparse_walk_is_full_sum` hold for this pair; the loop emits the two contributions
at `(0, 2)` and `(1, 2)` -- the only places where row `i` of `C` and column `i` of `CX` both store an
entry -- and `3·4 + 7·10 = 82` is the full double sum `∑ i j, C i j · CX j i` -/
example :
    GFRefine.RepresentsRows exCs exC ∧ GFRefine.RepresentsCols exCXs exCX ∧
    compute true true (fun _ _ _ _ => true) exCs exCXs = .ok [(0, 2, 3, 4), (1, 2, 7, 10)] ∧
    (([(0, 2, 3, 4), (1, 2, 7, 10)] : List (Contribution ℤ)).map fun x => x.2.2.1 * x.2.2.2).sum = 82 ∧
    (∑ i : Fin 2, ∑ j : Fin 3, exC i j * exCX j i) = 82 :=
  ⟨exC_represents, exCX_represents, by decide, by decide, by decide⟩

/-- ... and the theorem applied to it -/
example : ∃ l, compute true true (fun _ _ _ _ => true) exCs exCXs = .ok l ∧
    (l.map fun x => x.2.2.1 * x.2.2.2).sum = ∑ i : Fin 2, ∑ j : Fin 3, exC i j * exCX j i :=
  sparse_walk_is_full_sum (fun _ _ c cx => c * cx) (fun _ _ x => zero_mul x)
    (fun _ _ x => mul_zero x) exC_represents exCX_represents

/-- block pairs: `c` maps 1→0, 2→1, 4→3 (as `(left, right)`: `<0|c|1>`, `<1|c|2>`, `<3|c|4>`),
`c†` has `<1|c†|0>`, `<5|c†|1>`, `<4|c†|3>`; parts are created for `(0, 1)` and `(3, 4)` -/
example : prepare (fun _ => true) [(0, 1), (1, 2), (3, 4)] [(1, 0), (5, 1), (4, 3)]
    = .ok [(0, 1), (3, 4)] := by decide

/-- THE WHOLE LOOP STRUCTURE COMPUTES THE LEHMANN SUM.  The eigenbasis is split into `B` blocks (block
`b` has `sz b` states); `c`, `cx` are the bimap views listing the non-trivial blocks of the matrices
`C`, `CX` of `c`, `c†` (both sides keys; block numbers below `B`); `Cblk L R` / `CXblk R L` are compressed
row-major / column-major representations of the blocks `<L|c|R>` / `<R|c†|L>`.  Then the model of
`GreensFunction::prepare` followed by `GreensFunction::compute` -- merge walk over the bimaps, and for
every part created the sparse double loop with the extracted residue and pole formulas (no truncation
of the density matrix; residue filter idealised away, `tol < 0`) -- runs without error, and the values
at `z` of all terms of all parts add up to the Lehmann sum `d.lehmannG C CX z` over ALL pairs of
eigenstates, which at `z = iω_n` is the definition (`gf_equals_definition`). -/
theorem loops_compute_lehmann_sum {B : ℕ} {sz : Fin B → ℕ} (d : EigenData (GFRefine.Basis sz))
    (C CX : Matrix (GFRefine.Basis sz) (GFRefine.Basis sz) ℂ) (c cx : List (ℕ × ℕ))
    (hc : GFRefine.SortedByLeft c) (hcx : GFRefine.SortedByRight cx)
    (hcC : GFRefine.CoversBlocks c C) (hcCX : GFRefine.CoversBlocks cx CX)
    (hrange : ∀ p ∈ c, p.1 < B ∧ p.2 < B) (Cblk CXblk : ℕ → ℕ → SpMat ℂ)
    (hCblk : ∀ L R : Fin B, GFRefine.RepresentsRows (Cblk L.1 R.1) (GFRefine.block C L R))
    (hCXblk : ∀ L R : Fin B, GFRefine.RepresentsCols (CXblk R.1 L.1) (GFRefine.block CX R L))
    (tol : ℝ) (htol : tol < 0) (z : ℂ) :
    ∃ tss, greensFunctionTerms true true (fun _ => true) c cx (GFRefine.blockTable d.w)
        (GFRefine.blockTable d.E) tol Cblk CXblk = .ok tss ∧
      (tss.map fun ts => (ts.map fun t => Gen.GF.termFreq t.res t.pole z).sum).sum
        = d.lehmannG C CX z :=
  GFRefine.whole_loop_refines_lehmann d C CX c cx hc hcx hcC hcCX hrange Cblk CXblk hCblk hCXblk
    tol htol z

/-! ### a concrete instance of the hypotheses of `loops_compute_lehmann_sum` (non-vacuity) -/

section WholeExample
open GFRefine

/-- two blocks with one state each -/
private def sz2 : Fin 2 → ℕ := fun _ => 1
private def wC : Matrix (Basis sz2) (Basis sz2) ℂ := fun a b => if a.1 = 0 ∧ b.1 = 1 then 2 else 0
private def wCX : Matrix (Basis sz2) (Basis sz2) ℂ := fun a b => if a.1 = 1 ∧ b.1 = 0 then 3 else 0
private def wCblk : ℕ → ℕ → SpMat ℂ := fun l r => if l = 0 ∧ r = 1 then [[(0, 2)]] else [[]]
private def wCXblk : ℕ → ℕ → SpMat ℂ := fun l r => if l = 1 ∧ r = 0 then [[(0, 3)]] else [[]]

private theorem w_sorted : SortedByLeft [(0, 1)] ∧ SortedByRight [(1, 0)] ∧
    (∀ p ∈ [(0, 1)], p.1 < 2 ∧ p.2 < 2) := by decide

private theorem w_coversC : CoversBlocks [(0, 1)] wC := by
  intro L R h
  by_contra hn
  apply h
  ext i j
  show (if L = 0 ∧ R = 1 then (2 : ℂ) else 0) = 0
  rw [if_neg]
  rintro ⟨rfl, rfl⟩
  exact hn (by simp)

private theorem w_coversCX : CoversBlocks [(1, 0)] wCX := by
  intro L R h
  by_contra hn
  apply h
  ext i j
  show (if L = 1 ∧ R = 0 then (3 : ℂ) else 0) = 0
  rw [if_neg]
  rintro ⟨rfl, rfl⟩
  exact hn (by simp)

private theorem w_repC : ∀ L R : Fin 2, RepresentsRows (wCblk L.1 R.1) (block wC L R) := by
  intro L R
  by_cases h : L = 0 ∧ R = 1
  · obtain ⟨rfl, rfl⟩ := h
    exact representsRows_single (2 : ℂ)
  · have h' : ¬ (L.1 = 0 ∧ R.1 = 1) := fun ⟨a, b⟩ => h ⟨Fin.ext a, Fin.ext b⟩
    have e : block wC L R = 0 := by
      ext i j
      show (if L = 0 ∧ R = 1 then (2 : ℂ) else 0) = 0
      rw [if_neg h]
    unfold wCblk
    rw [if_neg h', e]
    exact representsRows_zero 1 1

private theorem w_repCX : ∀ L R : Fin 2, RepresentsCols (wCXblk R.1 L.1) (block wCX R L) := by
  intro L R
  by_cases h : R = 1 ∧ L = 0
  · obtain ⟨rfl, rfl⟩ := h
    exact representsRows_single (3 : ℂ)
  · have h' : ¬ (R.1 = 1 ∧ L.1 = 0) := fun ⟨a, b⟩ => h ⟨Fin.ext a, Fin.ext b⟩
    have e : (block wCX R L).transpose = 0 := by
      ext i j
      show (if R = 1 ∧ L = 0 then (3 : ℂ) else 0) = 0
      rw [if_neg h]
    unfold wCXblk RepresentsCols
    rw [if_neg h', e]
    exact representsRows_zero 1 1

/-- all hypotheses hold for: two blocks of one state each, `<0|c|1> = 2`, `<1|c†|0> = 3`, every
eigenvalue `0`, `β = 1`; hence the modelled loops compute the Lehmann sum of this system -/
example (z : ℂ) :
    ∃ tss, greensFunctionTerms true true (fun _ => true) [(0, 1)] [(1, 0)]
        (blockTable (EigenData.w (ι := Basis sz2) ⟨1, one_pos, fun _ => 0⟩))
        (blockTable (EigenData.E (ι := Basis sz2) ⟨1, one_pos, fun _ => 0⟩)) (-1) wCblk wCXblk
          = .ok tss ∧
      (tss.map fun ts => (ts.map fun t => Gen.GF.termFreq t.res t.pole z).sum).sum
        = EigenData.lehmannG (ι := Basis sz2) ⟨1, one_pos, fun _ => 0⟩ wC wCX z :=
  loops_compute_lehmann_sum _ wC wCX [(0, 1)] [(1, 0)] w_sorted.1 w_sorted.2.1 w_coversC w_coversCX
    w_sorted.2.2 wCblk wCXblk w_repC w_repCX (-1) (by norm_num) z

end WholeExample

end Loops

end Pomerol.Properties.C01
