/-
  Totality of the fuelled / partial operations of the operator model: none of them ever returns
  `none` (fuel exhausted / out-of-bounds read) and the symmetry analysis never returns an error.
  Core Lean only.
-/
import PomerolModel.Spec.NormalizeTotal
import PomerolModel.Model.Symm

namespace Pomerol.Spec
open Pomerol.Model

/-! ### Generic lemmas on `List.foldlM` whose step never fails -/

theorem foldlM_option_isSome {α β : Type} (f : β → α → Option β)
    (hf : ∀ acc x, (f acc x).isSome) : ∀ (l : List α) (init : β), (l.foldlM f init).isSome
  | [], init => by simp [List.foldlM_nil]
  | x :: l, init => by
    simp only [List.foldlM_cons]
    cases hx : f init x with
    | none => have := hf init x; rw [hx] at this; simp at this
    | some acc' => exact foldlM_option_isSome f hf l acc'

theorem foldlM_except_ok {ε α β : Type} (f : β → α → Except ε β)
    (hf : ∀ acc x, ∃ b, f acc x = .ok b) : ∀ (l : List α) (init : β), ∃ b, l.foldlM f init = .ok b
  | [], init => ⟨init, by simp [List.foldlM_nil, pure, Except.pure]⟩
  | x :: l, init => by
    obtain ⟨b, hb⟩ := hf init x
    obtain ⟨r, hr⟩ := foldlM_except_ok f hf l b
    refine ⟨r, ?_⟩
    simp only [List.foldlM_cons, hb, bind, Except.bind]
    exact hr

theorem except_bind_ok {ε α β : Type} {x : Except ε α} {g : α → Except ε β}
    (hx : ∃ a, x = .ok a) (hg : ∀ a, ∃ b, g a = .ok b) : ∃ b, (x >>= g) = .ok b := by
  obtain ⟨a, rfl⟩ := hx
  exact hg a

theorem isSome_iff_exists' {α : Type} {o : Option α} (h : o.isSome) : ∃ a, o = some a := by
  cases o with
  | none => simp at h
  | some a => exact ⟨a, rfl⟩

section
variable {K : Type} [Add K] [Sub K] [Mul K] [Neg K] [Zero K] [One K] [CoefTest K]

theorem mul_isSome (p q : Poly K) : (Poly.mul p q).isSome := by
  unfold Poly.mul
  refine foldlM_option_isSome _ ?_ p []
  rintro acc ⟨m, c⟩
  refine foldlM_option_isSome _ ?_ q acc
  rintro acc2 ⟨m2, c2⟩
  exact normalizeInsert_isSome _ _ _

theorem commutator_isSome (p q : Poly K) : (Poly.commutator p q).isSome := by
  obtain ⟨pq, h1⟩ := isSome_iff_exists' (mul_isSome p q)
  obtain ⟨qp, h2⟩ := isSome_iff_exists' (mul_isSome q p)
  simp [Poly.commutator, h1, h2]

theorem antiCommutator_isSome (p q : Poly K) : (Poly.antiCommutator p q).isSome := by
  obtain ⟨pq, h1⟩ := isSome_iff_exists' (mul_isSome p q)
  obtain ⟨qp, h2⟩ := isSome_iff_exists' (mul_isSome q p)
  simp [Poly.antiCommutator, h1, h2]

/-- on monomials of equal length the three-argument `std::equal` stays in bounds -/
theorem monoPrefixEq_isSome : ∀ (l r : Mono), l.length = r.length → (monoPrefixEq l r).isSome
  | [], _, _ => by simp [monoPrefixEq]
  | _ :: _, [], h => by simp at h
  | a :: as, b :: bs, h => by
    simp only [monoPrefixEq]
    split
    · exact monoPrefixEq_isSome as bs (by simpa using h)
    · rfl

/-- more generally it is enough that the right monomial is at least as long -/
theorem monoPrefixEq_isSome_of_le : ∀ (l r : Mono), l.length ≤ r.length → (monoPrefixEq l r).isSome
  | [], _, _ => by simp [monoPrefixEq]
  | _ :: _, [], h => by simp at h
  | a :: as, b :: bs, h => by
    simp only [monoPrefixEq]
    split
    · exact monoPrefixEq_isSome_of_le as bs (by simpa using h)
    · rfl

omit [Add K] [Mul K] [Neg K] [Zero K] [One K] in
theorem termEq_isSome (l r : Mono × K) : (termEq true l r).isSome := by
  unfold termEq
  by_cases h : l.1.length = r.1.length
  · have hs := monoPrefixEq_isSome l.1 r.1 h
    obtain ⟨b, hb⟩ := isSome_iff_exists' hs
    simp [h, hb]
  · simp [h]

omit [Add K] [Mul K] [Neg K] [Zero K] [One K] in
theorem eqCoded_go_isSome : ∀ (p q : Poly K), (Poly.eqCoded.go true p q).isSome
  | [], _ => by simp [Poly.eqCoded.go]
  | _ :: _, [] => by simp [Poly.eqCoded.go]
  | a :: as, b :: bs => by
    obtain ⟨r, hr⟩ := isSome_iff_exists' (termEq_isSome a b)
    simp only [Poly.eqCoded.go, hr]
    cases r with
    | false => rfl
    | true => exact eqCoded_go_isSome as bs

omit [Add K] [Mul K] [Neg K] [Zero K] [One K] in
/-- with the length test the comparison never reads out of bounds -/
theorem eqCoded_isSome (p q : Poly K) : (Poly.eqCoded true p q).isSome := by
  unfold Poly.eqCoded
  split
  · rfl
  · exact eqCoded_go_isSome p q

theorem commutes_isSome (p q : Poly K) : (Poly.commutes true p q).isSome := by
  obtain ⟨pq, h1⟩ := isSome_iff_exists' (mul_isSome p q)
  obtain ⟨qp, h2⟩ := isSome_iff_exists' (mul_isSome q p)
  simp only [Poly.commutes, h1, h2, bind, Option.bind]
  exact eqCoded_isSome pq qp

theorem termProduct_isSome (restart : Bool) : ∀ (fs : List (Bool × Nat)) (acc : Poly K) (first : Bool),
    (Idx.termProduct restart fs acc first).isSome
  | [], acc, _ => by simp [Idx.termProduct]
  | (cre, i) :: rest, acc, first => by
    obtain ⟨p, hp⟩ := isSome_iff_exists' (mul_isSome acc (if cre then opCdag i else opC i : Poly K))
    simp only [Idx.termProduct, hp]
    by_cases h : (if restart then acc.isEmpty else first) = true
    · rw [if_pos h]; exact termProduct_isSome restart rest _ false
    · rw [if_neg h]; exact termProduct_isSome restart rest p false

theorem indexHamiltonian_isSome (L : Lat.Lattice K) (tbl : List Idx.IndexInfo) :
    (Idx.indexHamiltonian L tbl).isSome := by
  unfold Idx.indexHamiltonian
  refine foldlM_option_isSome _ ?_ _ []
  intro H n
  refine foldlM_option_isSome _ ?_ _ H
  intro H' t
  obtain ⟨tmp, ht⟩ := isSome_iff_exists' (termProduct_isSome (K := K)
    Pomerol.Gen.Core.productRestartsOnEmpty
    ((List.range t.order).map fun i =>
      (t.ops.getD i false, Idx.getIndex tbl ⟨t.labels.getD i "", t.orbs.getD i 0, t.spins.getD i 0⟩))
    [] true)
  simp only [ht]
  rfl

/-- the symmetry analysis never fails with `fuel`/`ub`: the only possible error is the S_z constructor,
which is excluded by the guard (with the current flags the default analysis completes for EVERY lattice) -/
theorem checkSymmetry_ok (H : Poly K) (n : Nat) (op : Poly K) : ∃ b, Symm.checkSymmetry H n op = .ok b := by
  unfold Symm.checkSymmetry
  have hflag : Pomerol.Gen.Core.eqLengthTest = true := rfl
  rw [hflag]
  obtain ⟨c, hc⟩ := isSome_iff_exists' (commutes_isSome H op)
  rw [hc]
  cases c with
  | false => exact ⟨false, rfl⟩
  | true =>
    simp only
    refine except_bind_ok (foldlM_except_ok _ ?_ _ _) ?_
    · intro ok i
      cases ok with
      | false => exact ⟨false, rfl⟩
      | true =>
        obtain ⟨b, hb⟩ := isSome_iff_exists' (commutes_isSome (opN i : Poly K) op)
        exact ⟨b, by simp only [hb]; rfl⟩
    · intro ok1
      split
      · exact ⟨ok1, rfl⟩
      · refine foldlM_except_ok _ ?_ _ _
        intro ok i
        cases ok with
        | false => exact ⟨false, rfl⟩
        | true =>
          obtain ⟨b, hb⟩ := isSome_iff_exists' (commutator_isSome op (opCdag i : Poly K))
          exact ⟨_, by simp only [hb]; rfl⟩

theorem computeCustom_ok (H : Poly K) (n : Nat) (ops : List (Poly K)) :
    ∃ acc, Symm.computeCustom H n ops = .ok acc := by
  unfold Symm.computeCustom
  refine foldlM_except_ok _ ?_ _ _
  intro acc op
  exact except_bind_ok (checkSymmetry_ok H n op) (fun ok => ⟨_, rfl⟩)

theorem computeDefault_ok (H : Poly K) (tbl : List Idx.IndexInfo) (ignore : Bool) (half : K) :
    ∃ acc, Symm.computeDefault H tbl ignore half = .ok acc := by
  unfold Symm.computeDefault
  cases ignore with
  | true => exact ⟨[], rfl⟩
  | false =>
    simp only [Bool.false_eq_true, if_false]
    refine except_bind_ok (checkSymmetry_ok H _ _) ?_
    intro okN
    split
    · exact ⟨_, rfl⟩
    · split
      · have hflag : Pomerol.Gen.Core.szGuardedByEqualCounts = true := rfl
        rw [hflag]
        exact ⟨_, rfl⟩
      · exact except_bind_ok (checkSymmetry_ok H _ _) (fun ok => ⟨_, rfl⟩)

end

end Pomerol.Spec

section AxiomAudit
open Pomerol.Spec
end AxiomAudit
