/-
  Termination (fuel sufficiency), fuel monotonicity and normal-form property of the
  bubble-sort normal ordering `normalizeAux` / `normalizeInsert` of `Model/Operator.lean`.
  Core Lean only.
-/
import PomerolModel.Model.Operator
namespace Pomerol.Spec
open Pomerol.Model

set_option linter.unusedSectionVars false

/-! ### `Op.lt` is a strict total order -/

theorem opLt_asymm {a b : Op} (h : a.lt b = true) : b.lt a = false := by
  cases a with | mk aa ai => cases b with | mk ba bi =>
  cases aa <;> cases ba <;> simp [Op.lt] at h ⊢ <;> omega

theorem opLt_total {a b : Op} (h1 : a ≠ b) (h2 : b.lt a = false) : a.lt b = true := by
  cases a with | mk aa ai => cases b with | mk ba bi =>
  cases aa <;> cases ba <;> simp [Op.lt] at h1 h2 ⊢ <;> omega

/-! ### Inversion count -/

/-- number of pairs `i < j` with `m[j] < m[i]` -/
def inv : Mono → Nat
  | [] => 0
  | a :: l => l.countP (fun b => b.lt a) + inv l

theorem inv_sublist {l1 l2 : Mono} (h : l1.Sublist l2) : inv l1 ≤ inv l2 := by
  induction h with
  | slnil => exact Nat.le_refl _
  | cons a _ ih => simp only [inv]; omega
  | cons_cons a hs ih =>
    simp only [inv]
    have := hs.countP_le (p := fun b => b.lt a)
    omega

theorem inv_swap {a b : Op} (hba : b.lt a = true) (l1 l2 : Mono) :
    inv (l1 ++ b :: a :: l2) + 1 = inv (l1 ++ a :: b :: l2) := by
  induction l1 with
  | nil =>
    have hab := opLt_asymm hba
    simp only [List.nil_append, inv, List.countP_cons, hba, hab]
    simp
    omega
  | cons x l1 ih =>
    simp only [List.cons_append, inv, List.countP_append, List.countP_cons]
    omega

theorem inv_le_sq (l : Mono) : inv l ≤ l.length * l.length := by
  induction l with
  | nil => simp [inv]
  | cons a l ih =>
    simp only [inv, List.length_cons]
    have h1 : l.countP (fun b => b.lt a) ≤ l.length := List.countP_le_length
    have h2 : (l.length + 1) * (l.length + 1) = l.length * l.length + l.length + l.length + 1 := by
      rw [Nat.add_mul, Nat.mul_add]; omega
    omega

section
variable {K : Type} [Add K] [Sub K] [Mul K] [Neg K] [Zero K] [One K] [CoefTest K]

/-! ### Termination -/

/-- what a sweep started on working monomial `W` with flag `sw` may return -/
def PassOK (W : Mono) (sw : Bool) : Pass K → Prop
  | .oof => False
  | .zero _ => True
  | .done m' _ sw' _ =>
    m'.length = W.length ∧ inv m' ≤ inv W ∧ (sw' = true → sw = true ∨ inv m' < inv W)

theorem PassOK.weaken {W' W : Mono} {sw : Bool} {r : Pass K} (h : PassOK W' true r)
    (hl : W'.length = W.length) (hi : inv W' < inv W) : PassOK W sw r := by
  cases r with
  | oof => exact h
  | zero _ => trivial
  | done m' c' sw' t =>
    obtain ⟨h1, h2, _⟩ := h
    exact ⟨h1.trans hl, by omega, fun _ => Or.inr (by omega)⟩

theorem passGo_term (rec : Mono → K → Poly K → Option (Poly K)) (fuel : Nat)
    (hrec : ∀ m c t, inv m + m.length + 1 ≤ fuel → (rec m c t).isSome) :
    ∀ (rest pre : List Op) (prev : Op) (coeff : K) (sw : Bool) (tgt : Poly K),
      inv (pre.reverse ++ prev :: rest) + (pre.reverse ++ prev :: rest).length ≤ fuel + 1 →
      PassOK (pre.reverse ++ prev :: rest) sw (passGo rec pre prev rest coeff sw tgt) := by
  intro rest
  induction rest with
  | nil =>
    intro pre prev coeff sw tgt _
    simp [passGo, PassOK]
  | cons cur rest ih =>
    intro pre prev coeff sw tgt hf
    simp only [passGo]
    by_cases h1 : prev = cur
    · simp only [h1, if_true]; trivial
    · simp only [h1, if_false]
      by_cases h2 : cur.lt prev = true
      · simp only [h2, if_true]
        have hinv := inv_swap h2 pre.reverse rest
        have hW' : (cur :: pre).reverse ++ prev :: rest = pre.reverse ++ cur :: prev :: rest := by
          simp
        have hlen : (pre.reverse ++ cur :: prev :: rest).length
            = (pre.reverse ++ prev :: cur :: rest).length := by simp
        have step : ∀ t, PassOK (pre.reverse ++ prev :: cur :: rest) sw
            (passGo rec (cur :: pre) prev rest (-coeff) true t) := by
          intro t
          have := ih (cur :: pre) prev (-coeff) true t (by rw [hW']; omega)
          rw [hW'] at this
          exact this.weaken hlen (by omega)
        by_cases h3 : prev = cur.flip
        · simp only [h3, if_true]
          have hsub : (pre.reverse ++ rest).Sublist (pre.reverse ++ prev :: cur :: rest) :=
            List.Sublist.append_left ((List.Sublist.refl rest).cons _ |>.cons _) _
          have hi := inv_sublist hsub
          have hl : (pre.reverse ++ prev :: cur :: rest).length = (pre.reverse ++ rest).length + 2 := by
            simp; omega
          have hs := hrec (pre.reverse ++ rest) coeff tgt (by omega)
          cases hr : rec (pre.reverse ++ rest) coeff tgt with
          | none => rw [hr] at hs; simp at hs
          | some t => simpa [h3] using step t
        · simp only [h3, if_false]
          exact step tgt
      · simp only [h2]
        have := ih (prev :: pre) cur coeff sw tgt (by simpa using hf)
        simpa using this

theorem normalizeAux_isSome_of_fuel : ∀ (fuel : Nat) (m : Mono) (c : K) (tgt : Poly K),
    inv m + m.length + 1 ≤ fuel → (normalizeAux fuel m c tgt).isSome := by
  intro fuel
  induction fuel with
  | zero => intro m c tgt h; omega
  | succ fuel ih =>
    intro m c tgt h
    match m, h with
    | [], _ => simp [normalizeAux]
    | [a], _ => simp [normalizeAux]
    | a :: b :: rest, h =>
      have hp := passGo_term (normalizeAux fuel) fuel (fun m c t hm => ih m c t hm)
        (b :: rest) [] a c false tgt (by simpa using (by omega : inv (a :: b :: rest) + (a :: b :: rest).length ≤ fuel + 1))
      simp only [normalizeAux]
      generalize passGo (normalizeAux fuel) [] a (b :: rest) c false tgt = r at hp
      cases r with
      | oof => exact hp.elim
      | zero t => simp
      | done m' c' sw t =>
        cases sw with
        | false => simp
        | true =>
          simp only [if_true]
          obtain ⟨h1, h2, h3⟩ := hp
          have h3 := h3 rfl
          simp only [List.reverse_nil, List.nil_append] at h1 h2 h3
          apply ih
          rcases h3 with h3 | h3
          · cases h3
          · omega

/-- TERMINATION: the fuel used by `normalizeInsert` is always sufficient, for every monomial, coefficient,
target and every instantiation of the coefficient tests. -/
theorem normalizeInsert_isSome (m : Mono) (c : K) (tgt : Poly K) : (normalizeInsert m c tgt).isSome := by
  unfold normalizeInsert normalizeFuel
  apply normalizeAux_isSome_of_fuel
  have h1 := inv_le_sq m
  have h2 : (m.length + 1) * (m.length + 1) = m.length * m.length + m.length + m.length + 1 := by
    rw [Nat.add_mul, Nat.mul_add]; omega
  omega

/-! ### Fuel monotonicity -/

theorem passGo_mono (rec1 rec2 : Mono → K → Poly K → Option (Poly K))
    (h : ∀ m c tgt t, rec1 m c tgt = some t → rec2 m c tgt = some t) :
    ∀ (rest pre : List Op) (prev : Op) (coeff : K) (sw : Bool) (tgt : Poly K),
      passGo rec1 pre prev rest coeff sw tgt ≠ .oof →
      passGo rec2 pre prev rest coeff sw tgt = passGo rec1 pre prev rest coeff sw tgt := by
  intro rest
  induction rest with
  | nil => intro pre prev coeff sw tgt _; simp [passGo]
  | cons cur rest ih =>
    intro pre prev coeff sw tgt hne
    simp only [passGo] at hne ⊢
    by_cases h1 : prev = cur
    · simp [h1]
    · simp only [h1, if_false] at hne ⊢
      by_cases h2 : cur.lt prev = true
      · simp only [h2, if_true] at hne ⊢
        by_cases h3 : prev = cur.flip
        · simp only [h3, if_true] at hne ⊢
          cases hr : rec1 (pre.reverse ++ rest) coeff tgt with
          | none => rw [hr] at hne; exact (hne rfl).elim
          | some t =>
            rw [hr] at hne
            rw [h _ _ _ _ hr]
            exact ih _ _ _ _ _ hne
        · simp only [h3, if_false] at hne ⊢
          exact ih _ _ _ _ _ hne
      · simp only [h2] at hne ⊢
        exact ih _ _ _ _ _ hne

/-- more fuel never changes the result -/
theorem normalizeAux_mono_fuel (f1 f2 : Nat) (h : f1 ≤ f2) (m : Mono) (c : K) (tgt t : Poly K)
    (h1 : normalizeAux f1 m c tgt = some t) : normalizeAux f2 m c tgt = some t := by
  induction f1 generalizing f2 m c tgt t with
  | zero => simp [normalizeAux] at h1
  | succ f1 ih =>
    obtain ⟨f2, rfl⟩ : ∃ k, f2 = k + 1 := ⟨f2 - 1, by omega⟩
    have hle : f1 ≤ f2 := by omega
    match m, h1 with
    | [], h1 => simpa [normalizeAux] using h1
    | [a], h1 => simpa [normalizeAux] using h1
    | a :: b :: rest, h1 =>
      have key := passGo_mono (normalizeAux f1) (normalizeAux f2)
        (fun m c tgt t hh => ih f2 hle m c tgt t hh) (b :: rest) [] a c false tgt
      simp only [normalizeAux] at h1 ⊢
      generalize passGo (normalizeAux f1) [] a (b :: rest) c false tgt = r at h1 key
      cases r with
      | oof => simp at h1
      | zero t' => rw [key (by simp)]; exact h1
      | done m' c' sw t' =>
        rw [key (by simp)]
        cases sw with
        | false => exact h1
        | true =>
          simp only [if_true] at h1 ⊢
          exact ih f2 hle _ _ _ _ h1

end

/-! ### Normal form -/

/-- a monomial is in normal form: strictly increasing w.r.t. `Op.lt` (all creators, by increasing index, then all annihilators by increasing index) -/
def NormalMono : Mono → Prop
  | [] => True
  | [_] => True
  | a :: b :: rest => a.lt b = true ∧ NormalMono (b :: rest)

def NormalPoly {K : Type} (p : Poly K) : Prop := ∀ mc ∈ p, NormalMono mc.1

theorem normalMono_snoc : ∀ (l : List Op) (a b : Op),
    NormalMono (l ++ [a]) → a.lt b = true → NormalMono (l ++ [a, b])
  | [], a, b, _, hab => by simpa [NormalMono] using hab
  | [x], a, b, h, hab => by
    simp only [List.cons_append, List.nil_append, NormalMono] at h ⊢
    exact ⟨h.1, hab, trivial⟩
  | x :: y :: l, a, b, h, hab => by
    simp only [List.cons_append, NormalMono] at h ⊢
    exact ⟨h.1, normalMono_snoc (y :: l) a b h.2 hab⟩

section
variable {K : Type} [Add K] [Sub K] [Mul K] [Neg K] [Zero K] [One K] [CoefTest K]

theorem insertAdd_normal (m : Mono) (c : K) (hm : NormalMono m) :
    ∀ (p : Poly K), NormalPoly p → NormalPoly (Poly.insertAdd m c p)
  | [], _ => by
    intro mc h
    simp only [Poly.insertAdd, List.mem_singleton] at h
    subst h; exact hm
  | (m', c') :: rest, hp => by
    have hm' : NormalMono m' := hp (m', c') (by simp)
    have hrest : NormalPoly rest := fun mc h => hp mc (List.mem_cons_of_mem _ h)
    simp only [Poly.insertAdd]
    by_cases h1 : m = m'
    · simp only [h1, if_true]
      by_cases h2 : CoefTest.negl100 (c' + c) = true
      · simp only [h2, if_true]; exact hrest
      · simp only [h2]
        intro mc h
        rcases List.mem_cons.1 h with h | h
        · subst h; exact hm'
        · exact hrest mc h
    · simp only [h1, if_false]
      by_cases h2 : monoLt m m' = true
      · simp only [h2, if_true]
        intro mc h
        rcases List.mem_cons.1 h with h | h
        · subst h; exact hm
        · exact hp mc h
      · simp only [h2]
        have ih := insertAdd_normal m c hm rest hrest
        intro mc h
        rcases List.mem_cons.1 h with h | h
        · subst h; exact hm'
        · exact ih mc h

/-- what a sweep started with flag `sw` on a normal target may return -/
def PassNormal : Pass K → Prop
  | .oof => True
  | .zero t => NormalPoly t
  | .done m' _ sw' t => NormalPoly t ∧ (sw' = false → NormalMono m')

theorem passGo_normal (rec : Mono → K → Poly K → Option (Poly K))
    (hrec : ∀ m c tgt t, NormalPoly tgt → rec m c tgt = some t → NormalPoly t) :
    ∀ (rest pre : List Op) (prev : Op) (coeff : K) (sw : Bool) (tgt : Poly K),
      NormalPoly tgt → (sw = false → NormalMono (pre.reverse ++ [prev])) →
      PassNormal (passGo rec pre prev rest coeff sw tgt) := by
  intro rest
  induction rest with
  | nil =>
    intro pre prev coeff sw tgt ht hn
    simp only [passGo, PassNormal, List.reverse_cons]
    exact ⟨ht, hn⟩
  | cons cur rest ih =>
    intro pre prev coeff sw tgt ht hn
    simp only [passGo]
    by_cases h1 : prev = cur
    · simp only [h1, if_true]; exact ht
    · simp only [h1, if_false]
      by_cases h2 : cur.lt prev = true
      · simp only [h2, if_true]
        by_cases h3 : prev = cur.flip
        · simp only [h3, if_true]
          cases hr : rec (pre.reverse ++ rest) coeff tgt with
          | none => trivial
          | some t =>
            have := ih (cur :: pre) prev (-coeff) true t (hrec _ _ _ _ ht hr) (by simp)
            simpa [h3] using this
        · simp only [h3, if_false]
          exact ih (cur :: pre) prev (-coeff) true tgt ht (by simp)
      · simp only [h2]
        have h2' : cur.lt prev = false := by simpa using h2
        refine ih (prev :: pre) cur coeff sw tgt ht (fun hs => ?_)
        have := normalMono_snoc pre.reverse prev cur (hn hs) (opLt_total h1 h2')
        simpa using this

/-- NORMAL FORM: every key produced by the normal ordering is a normal monomial -/
theorem normalizeAux_normal (fuel : Nat) (m : Mono) (c : K) (tgt t : Poly K)
    (ht : NormalPoly tgt) (h : normalizeAux fuel m c tgt = some t) : NormalPoly t := by
  induction fuel generalizing m c tgt t with
  | zero => simp [normalizeAux] at h
  | succ fuel ih =>
    match m, h with
    | [], h =>
      simp only [normalizeAux, Option.some.injEq] at h
      subst h; exact insertAdd_normal _ _ (by simp [NormalMono]) _ ht
    | [a], h =>
      simp only [normalizeAux, Option.some.injEq] at h
      subst h; exact insertAdd_normal _ _ (by simp [NormalMono]) _ ht
    | a :: b :: rest, h =>
      have hp := passGo_normal (normalizeAux fuel) (fun m c tgt t ht' hh => ih m c tgt t ht' hh)
        (b :: rest) [] a c false tgt ht (fun _ => trivial)
      simp only [normalizeAux] at h
      generalize passGo (normalizeAux fuel) [] a (b :: rest) c false tgt = r at hp h
      cases r with
      | oof => simp at h
      | zero t' =>
        simp only [Option.some.injEq] at h
        subst h; exact hp
      | done m' c' sw t' =>
        cases sw with
        | false =>
          simp only [Bool.false_eq_true, if_false, Option.some.injEq] at h
          subst h; exact insertAdd_normal _ _ (hp.2 rfl) _ hp.1
        | true =>
          simp only [if_true] at h
          exact ih _ _ _ _ hp.1 h

theorem foldlM_option_inv {α β : Type} (P : β → Prop) (f : β → α → Option β)
    (hf : ∀ acc x acc', P acc → f acc x = some acc' → P acc') :
    ∀ (l : List α) (init t : β), P init → l.foldlM f init = some t → P t
  | [], init, t, hi, h => by
    simp only [List.foldlM_nil] at h
    cases h; exact hi
  | x :: l, init, t, hi, h => by
    simp only [List.foldlM_cons] at h
    cases hx : f init x with
    | none => rw [hx] at h; simp at h
    | some acc' =>
      rw [hx] at h
      exact foldlM_option_inv P f hf l acc' t (hf _ _ _ hi hx) h

theorem mul_normal (p q t : Poly K) (h : Poly.mul p q = some t) : NormalPoly t := by
  unfold Poly.mul at h
  refine foldlM_option_inv NormalPoly _ ?_ p [] t (fun _ hmem => by simp at hmem) h
  rintro acc ⟨m, c⟩ acc' hacc h1
  refine foldlM_option_inv NormalPoly _ ?_ q acc acc' hacc h1
  rintro acc2 ⟨m2, c2⟩ acc2' hacc2 h2
  exact normalizeAux_normal _ _ _ _ _ hacc2 h2

end

end Pomerol.Spec
